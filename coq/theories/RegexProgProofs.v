(* C18: proofs about the analyses of RegexProg.v. *)
From Coq Require Import List NArith Bool Arith Lia.
From Coq Require Import ZifyBool ZifyN ZifyNat.
Import ListNotations.
Require Import Pk.RegexProg.
Local Open Scope N_scope.

(* ------------------------------------------------------------------ small facts *)
Lemma mem_In : forall a l, mem a l = true <-> In a l.
Proof.
  induction l; simpl; split; intros H; try discriminate; try tauto.
  - apply orb_true_iff in H. destruct H as [H|H].
    + apply Nat.eqb_eq in H. auto.
    + right. apply IHl. exact H.
  - apply orb_true_iff. destruct H as [H|H].
    + left. subst. apply Nat.eqb_refl.
    + right. apply IHl. exact H.
Qed.

Lemma mem_false_notin : forall a l, mem a l = false -> ~ In a l.
Proof. intros a l H HI. apply mem_In in HI. congruence. Qed.

Definition cap (x : N) : N := N.min x MAXU.

Lemma MAXU_val : MAXU = 18446744073709551615. Proof. reflexivity. Qed.
Opaque MAXU.

Lemma satadd_cap : forall a b, satadd a b = cap (a + b).
Proof. intros. unfold satadd, cap. destruct (N.ltb_spec MAXU (a + b)); lia. Qed.

Lemma inc_cap : forall v, v <= MAXU -> inc v = cap (v + 1).
Proof. intros. unfold inc, cap. destruct (N.eqb_spec v MAXU); lia. Qed.

Lemma count_acc : forall (rs : list inst) v, v <= MAXU ->
  fold_left (fun v _ => inc v) rs v = cap (v + N.of_nat (length rs)).
Proof.
  induction rs; intros v Hv; simpl.
  - unfold cap. lia.
  - rewrite IHrs.
    + rewrite inc_cap by assumption. unfold cap. lia.
    + rewrite inc_cap by assumption. unfold cap. lia.
Qed.

Lemma count_cap : forall rs, count rs = cap (N.of_nat (length rs)).
Proof. intros. unfold count. rewrite count_acc. reflexivity. rewrite MAXU_val. lia. Qed.

Definition len (w : list N) : N := N.of_nat (length w).

Lemma len_app : forall a b, len (a ++ b) = len a + len b.
Proof. intros. unfold len. rewrite app_length. lia. Qed.

(* ------------------------------------------------------------------ path semantics: structure *)
Lemma accA_mono : forall p S S' pc w, incl S' S -> accA p S pc w -> accA p S' pc w.
Proof.
  intros p S S' pc w Hi H. induction H.
  - eapply A_match; eauto.
  - eapply A_rune; eauto.
  - eapply A_eps; eauto.
  - eapply A_out; eauto.
  - eapply A_arg; eauto.
Qed.

Lemma accA_alt_inv : forall p S a i w, get p a = Some i -> is_alt (op i) = true -> accA p S a w ->
  ~ In a S /\ (accA p S (out i) w \/ accA p S (arg i) w).
Proof.
  intros p S a i w Hg Ha H.
  inversion H as [pc j G O | pc j b w' G R M A | pc j w' G E A | pc j w' G L NI A | pc j w' G L NI A]; subst;
    rewrite Hg in G; inversion G; subst j.
  - rewrite O in Ha. discriminate.
  - destruct (op i); simpl in *; discriminate.
  - destruct (op i); simpl in *; discriminate.
  - auto.
  - auto.
Qed.

(* cycle removal: a path either never passes the alternation a again, or its part after the
   last visit of a is a path (not longer) that leaves a by one of its two exits. *)
Lemma last_visit : forall p S a ia, get p a = Some ia -> is_alt (op ia) = true ->
  forall pc w, accA p S pc w ->
    accA p (a :: S) pc w \/
    exists w', len w' <= len w /\ (accA p (a :: S) (out ia) w' \/ accA p (a :: S) (arg ia) w').
Proof.
  intros p S a ia Hg Ha pc w H. induction H.
  - left. eapply A_match; eauto.
  - destruct IHaccA as [IH | [w' [Hl IH]]].
    + left. eapply A_rune; eauto.
    + right. exists w'. split; auto. unfold len in *. simpl. lia.
  - destruct IHaccA as [IH | [w' [Hl IH]]].
    + left. eapply A_eps; eauto.
    + right. exists w'. auto.
  - destruct (Nat.eq_dec pc a) as [E | E].
    + subst pc. rewrite Hg in H. inversion H; subst i.
      destruct IHaccA as [IH | [w' [Hl IH]]].
      * right. exists w. split; [lia | auto].
      * right. exists w'. auto.
    + destruct IHaccA as [IH | [w' [Hl IH]]].
      * left. eapply A_out; eauto. simpl. intros [F | F]; [congruence | auto].
      * right. exists w'. auto.
  - destruct (Nat.eq_dec pc a) as [E | E].
    + subst pc. rewrite Hg in H. inversion H; subst i.
      destruct IHaccA as [IH | [w' [Hl IH]]].
      * right. exists w. split; [lia | auto].
      * right. exists w'. auto.
    + destruct IHaccA as [IH | [w' [Hl IH]]].
      * left. eapply A_arg; eauto. simpl. intros [F | F]; [congruence | auto].
      * right. exists w'. auto.
Qed.

(* ------------------------------------------------------------------ the linear run *)
Definition matches_all (rs : list inst) (w : list N) : Prop :=
  Forall2 (fun i b => inst_matches i b = true) rs w.

Definition end_acc (p : prog) (S : list nat) (e : lin_end) (w : list N) : Prop :=
  match e with
  | LMatch => w = []
  | LFail => False
  | LAlt a _ _ => accA p S a w
  end.

Definition end_ok (p : prog) (e : lin_end) : Prop :=
  match e with
  | LAlt a o g => exists i, get p a = Some i /\ is_alt (op i) = true /\ out i = o /\ arg i = g
  | _ => True
  end.

Lemma get_In : forall p pc i, get p pc = Some i -> In i (insts p).
Proof. intros. eapply nth_error_In; eauto. Qed.

Lemma get_lt : forall p pc i, get p pc = Some i -> (pc < size p)%nat.
Proof. intros. unfold get, size in *. apply nth_error_Some. congruence. Qed.

Lemma lin_spec : forall p f pc rs e, lin p f pc = Some (rs, e) ->
  end_ok p e /\ Forall (fun i => In i (insts p) /\ is_rune (op i) = true) rs /\
  (forall S w, accA p S pc w -> exists w1 w2, w = w1 ++ w2 /\ matches_all rs w1 /\ end_acc p S e w2) /\
  (forall S w1 w2, matches_all rs w1 -> end_acc p S e w2 -> accA p S pc (w1 ++ w2)).
Proof.
  induction f; intros pc rs e H; simpl in H; [discriminate|].
  destruct (get p pc) as [i|] eqn:Hg; [|discriminate].
  destruct (op i) eqn:Ho.
  - (* IAlt *) inversion H; subst. repeat split.
    + exists i. rewrite Ho. auto.
    + constructor.
    + intros S w Hacc. exists [], w. repeat split; auto. constructor.
    + intros S w1 w2 Hm He. inversion Hm; subst. exact He.
  - (* IAltMatch *) inversion H; subst. repeat split.
    + exists i. rewrite Ho. auto.
    + constructor.
    + intros S w Hacc. exists [], w. repeat split; auto. constructor.
    + intros S w1 w2 Hm He. inversion Hm; subst. exact He.
  - (* ICapture *) destruct (IHf _ _ _ H) as [A [B [C D]]]. repeat split; auto.
    + intros S w Hacc. inversion Hacc; subst; rewrite Hg in H0; inversion H0; subst; rewrite Ho in *; simpl in *; try discriminate.
      eauto.
    + intros S w1 w2 Hm He. eapply A_eps; eauto. rewrite Ho. reflexivity.
  - (* IEmpty *) destruct (IHf _ _ _ H) as [A [B [C D]]]. repeat split; auto.
    + intros S w Hacc. inversion Hacc; subst; rewrite Hg in H0; inversion H0; subst; rewrite Ho in *; simpl in *; try discriminate.
      eauto.
    + intros S w1 w2 Hm He. eapply A_eps; eauto. rewrite Ho. reflexivity.
  - (* IMatch *) inversion H; subst. repeat split; simpl; auto.
    + intros S w Hacc. inversion Hacc; subst; rewrite Hg in H0; inversion H0; subst; rewrite Ho in *; simpl in *; try discriminate.
      exists [], []. repeat split; auto. constructor.
    + intros S w1 w2 Hm He. inversion Hm; subst. simpl. eapply A_match; eauto.
  - (* IFail *) inversion H; subst. repeat split; simpl; auto.
    + intros S w Hacc. inversion Hacc; subst; rewrite Hg in H0; inversion H0; subst; rewrite Ho in *; simpl in *; discriminate.
    + intros S w1 w2 Hm He. contradiction.
  - (* INop *) destruct (IHf _ _ _ H) as [A [B [C D]]]. repeat split; auto.
    + intros S w Hacc. inversion Hacc; subst; rewrite Hg in H0; inversion H0; subst; rewrite Ho in *; simpl in *; try discriminate.
      eauto.
    + intros S w1 w2 Hm He. eapply A_eps; eauto. rewrite Ho. reflexivity.
  - (* IRune *) destruct (lin p f (out i)) as [[rs' e']|] eqn:Hl; [|discriminate]. inversion H; subst.
    destruct (IHf _ _ _ Hl) as [A [B [C D]]]. repeat split; auto.
    + constructor; auto. split; [eapply get_In; eauto | rewrite Ho; reflexivity].
    + intros S w Hacc. inversion Hacc; subst; rewrite Hg in H0; inversion H0; subst; rewrite Ho in *; simpl in *; try discriminate.
      destruct (C _ _ H3) as [w1 [w2 [E [M F]]]]. exists (b :: w1), w2. subst. repeat split; auto. constructor; auto.
    + intros S w1 w2 Hm He. inversion Hm; subst. simpl. eapply A_rune; eauto. rewrite Ho. reflexivity.
  - (* IRune1 *) destruct (lin p f (out i)) as [[rs' e']|] eqn:Hl; [|discriminate]. inversion H; subst.
    destruct (IHf _ _ _ Hl) as [A [B [C D]]]. repeat split; auto.
    + constructor; auto. split; [eapply get_In; eauto | rewrite Ho; reflexivity].
    + intros S w Hacc. inversion Hacc; subst; rewrite Hg in H0; inversion H0; subst; rewrite Ho in *; simpl in *; try discriminate.
      destruct (C _ _ H3) as [w1 [w2 [E [M F]]]]. exists (b :: w1), w2. subst. repeat split; auto. constructor; auto.
    + intros S w1 w2 Hm He. inversion Hm; subst. simpl. eapply A_rune; eauto. rewrite Ho. reflexivity.
  - (* IRuneAny *) destruct (lin p f (out i)) as [[rs' e']|] eqn:Hl; [|discriminate]. inversion H; subst.
    destruct (IHf _ _ _ Hl) as [A [B [C D]]]. repeat split; auto.
    + constructor; auto. split; [eapply get_In; eauto | rewrite Ho; reflexivity].
    + intros S w Hacc. inversion Hacc; subst; rewrite Hg in H0; inversion H0; subst; rewrite Ho in *; simpl in *; try discriminate.
      destruct (C _ _ H3) as [w1 [w2 [E [M F]]]]. exists (b :: w1), w2. subst. repeat split; auto. constructor; auto.
    + intros S w1 w2 Hm He. inversion Hm; subst. simpl. eapply A_rune; eauto. rewrite Ho. reflexivity.
  - (* IRuneAnyNotNL *) destruct (lin p f (out i)) as [[rs' e']|] eqn:Hl; [|discriminate]. inversion H; subst.
    destruct (IHf _ _ _ Hl) as [A [B [C D]]]. repeat split; auto.
    + constructor; auto. split; [eapply get_In; eauto | rewrite Ho; reflexivity].
    + intros S w Hacc. inversion Hacc; subst; rewrite Hg in H0; inversion H0; subst; rewrite Ho in *; simpl in *; try discriminate.
      destruct (C _ _ H3) as [w1 [w2 [E [M F]]]]. exists (b :: w1), w2. subst. repeat split; auto. constructor; auto.
    + intros S w1 w2 Hm He. inversion Hm; subst. simpl. eapply A_rune; eauto. rewrite Ho. reflexivity.
  - discriminate.
Qed.

(* ------------------------------------------------------------------ what a result means *)
(* good p H pc (mn,mx): mn bounds every path from pc that avoids the alternations H and is the length of
   a real path when finite; mx, when finite, bounds every path from pc and is the length of one. *)
Definition good (p : prog) (H : list nat) (pc : nat) (r : N * N) : Prop :=
  (forall w, accA p H pc w -> fst r <= len w) /\
  (sat p = true -> fst r < MAXU -> exists w, accA p [] pc w /\ len w = fst r) /\
  (snd r < MAXU -> forall w, accA p [] pc w -> len w <= snd r) /\
  (sat p = true -> snd r < MAXU -> exists w, accA p [] pc w /\ len w = snd r).

Lemma matches_all_len : forall rs w, matches_all rs w -> length w = length rs.
Proof. intros rs w H. induction H; simpl; auto. Qed.

Lemma first_byte_matches : forall i n b, first_byte i n = Some b -> inst_matches i b = true.
Proof.
  induction n; simpl; intros b H; [discriminate|].
  destruct (first_byte i n) eqn:E.
  - inversion H; subst. auto.
  - destruct (inst_matches i (N.of_nat n)) eqn:M; inversion H; subst; auto.
Qed.

Lemma sat_witness : forall p rs, sat p = true ->
  Forall (fun i => In i (insts p) /\ is_rune (op i) = true) rs -> exists w, matches_all rs w.
Proof.
  intros p rs Hs H. induction H as [|i rs [Hi Hr] _ IH].
  - exists []. constructor.
  - destruct IH as [w Hw].
    unfold sat in Hs. rewrite forallb_forall in Hs. specialize (Hs _ Hi).
    unfold inst_sat in Hs.
    destruct (first_byte i 256) as [b|] eqn:F; [|rewrite Hr in Hs; discriminate].
    exists (b :: w). constructor; auto. eapply first_byte_matches; eauto.
Qed.

Lemma good_match : forall p f pc rs H, lin p f pc = Some (rs, LMatch) -> good p H pc (count rs, count rs).
Proof.
  intros p f pc rs H Hl. destruct (lin_spec _ _ _ _ _ Hl) as [_ [Hrs [Hd Hu]]].
  rewrite count_cap. unfold good, cap; simpl. repeat split.
  - intros w Hw. destruct (Hd _ _ Hw) as [w1 [w2 [E [M F]]]]. simpl in F. subst.
    rewrite app_nil_r. unfold len. rewrite (matches_all_len _ _ M). lia.
  - intros Hs Hlt. destruct (sat_witness _ _ Hs Hrs) as [w M]. exists (w ++ []). split.
    + apply Hu; simpl; auto.
    + rewrite app_nil_r. unfold len. rewrite (matches_all_len _ _ M). lia.
  - intros Hlt w Hw. destruct (Hd _ _ Hw) as [w1 [w2 [E [M F]]]]. simpl in F. subst.
    rewrite app_nil_r. unfold len. rewrite (matches_all_len _ _ M). lia.
  - intros Hs Hlt. destruct (sat_witness _ _ Hs Hrs) as [w M]. exists (w ++ []). split.
    + apply Hu; simpl; auto.
    + rewrite app_nil_r. unfold len. rewrite (matches_all_len _ _ M). lia.
Qed.

Lemma good_fail : forall p f pc rs H, lin p f pc = Some (rs, LFail) -> good p H pc INF.
Proof.
  intros p f pc rs H Hl. destruct (lin_spec _ _ _ _ _ Hl) as [_ [Hrs [Hd Hu]]].
  unfold good, INF; simpl. repeat split; try (intros; lia).
  intros w Hw. destruct (Hd _ _ Hw) as [w1 [w2 [E [M F]]]]. contradiction.
Qed.

Lemma good_hit : forall p f pc rs a o g H, lin p f pc = Some (rs, LAlt a o g) -> In a H -> good p H pc INF.
Proof.
  intros p f pc rs a o g H Hl Hin. destruct (lin_spec _ _ _ _ _ Hl) as [[i [Hg [Ha _]]] [Hrs [Hd Hu]]].
  unfold good, INF; simpl. repeat split; try (intros; lia).
  intros w Hw. destruct (Hd _ _ Hw) as [w1 [w2 [E [M F]]]]. simpl in F.
  destruct (accA_alt_inv _ _ _ _ _ Hg Ha F) as [N _]. contradiction.
Qed.

Lemma good_alt : forall p f pc rs a o g H H1 H2 r1 r2,
  lin p f pc = Some (rs, LAlt a o g) ->
  good p H1 o r1 -> good p H2 g r2 -> incl H1 (a :: H) -> incl H2 (a :: H) ->
  good p H pc (combine (count rs) r1 r2).
Proof.
  intros p f pc rs a o g H H1 H2 [mn1 mx1] [mn2 mx2] Hl [A1 [B1 [C1 D1]]] [A2 [B2 [C2 D2]]] I1 I2.
  destruct (lin_spec _ _ _ _ _ Hl) as [[i [Hg [Ha [Eo Eg]]]] [Hrs [Hd Hu]]]. subst o g.
  unfold combine. rewrite !satadd_cap, count_cap. simpl in *.
  assert (Hout : forall w, accA p [] (out i) w -> forall w1, matches_all rs w1 -> accA p [] pc (w1 ++ w)).
  { intros w Hw w1 M. apply Hu; auto. simpl. eapply A_out; eauto. }
  assert (Harg : forall w, accA p [] (arg i) w -> forall w1, matches_all rs w1 -> accA p [] pc (w1 ++ w)).
  { intros w Hw w1 M. apply Hu; auto. simpl. eapply A_arg; eauto. }
  unfold good; simpl. repeat split.
  - (* lower bound on paths avoiding H *)
    intros w Hw. destruct (Hd _ _ Hw) as [w1 [w2 [E [M F]]]]. simpl in F. subst w.
    destruct (accA_alt_inv _ _ _ _ _ Hg Ha F) as [_ F'].
    assert (K : N.min mn1 mn2 <= len w2).
    { assert (L : forall x w', accA p H x w' -> len w' <= len w2 -> (x = out i \/ x = arg i) -> N.min mn1 mn2 <= len w2).
      { intros x w' Hx Hlen Hxx.
        destruct (last_visit _ _ _ _ Hg Ha _ _ Hx) as [P | [w'' [Hl'' P]]].
        - destruct Hxx; subst x.
          + specialize (A1 w' (accA_mono _ _ _ _ _ I1 P)). lia.
          + specialize (A2 w' (accA_mono _ _ _ _ _ I2 P)). lia.
        - destruct P as [P | P].
          + specialize (A1 w'' (accA_mono _ _ _ _ _ I1 P)). lia.
          + specialize (A2 w'' (accA_mono _ _ _ _ _ I2 P)). lia. }
      destruct F' as [F' | F']; eapply L; eauto; lia. }
    rewrite len_app. unfold len at 1. rewrite (matches_all_len _ _ M). unfold cap. lia.
  - (* minimum attained *)
    intros Hs Hlt. destruct (sat_witness _ _ Hs Hrs) as [w1 M].
    pose proof (matches_all_len _ _ M) as L1.
    destruct (N.le_ge_cases mn1 mn2) as [Hle | Hle].
    + destruct B1 as [w [Hw E]]; auto. { unfold cap in Hlt. lia. }
      exists (w1 ++ w). split; [apply Hout; auto|]. rewrite len_app. unfold len at 1. rewrite L1. unfold cap in *. lia.
    + destruct B2 as [w [Hw E]]; auto. { unfold cap in Hlt. lia. }
      exists (w1 ++ w). split; [apply Harg; auto|]. rewrite len_app. unfold len at 1. rewrite L1. unfold cap in *. lia.
  - (* upper bound *)
    intros Hlt w Hw. destruct (Hd _ _ Hw) as [w1 [w2 [E [M F]]]]. simpl in F. subst w.
    destruct (accA_alt_inv _ _ _ _ _ Hg Ha F) as [_ F'].
    rewrite len_app. unfold len at 1. rewrite (matches_all_len _ _ M).
    unfold cap in *.
    destruct F' as [F' | F'].
    + assert (len w2 <= mx1) by (apply C1; [lia | auto]). lia.
    + assert (len w2 <= mx2) by (apply C2; [lia | auto]). lia.
  - (* maximum attained *)
    intros Hs Hlt. destruct (sat_witness _ _ Hs Hrs) as [w1 M].
    pose proof (matches_all_len _ _ M) as L1.
    destruct (N.le_ge_cases mx1 mx2) as [Hle | Hle].
    + destruct D2 as [w [Hw E]]; auto. { unfold cap in Hlt. lia. }
      exists (w1 ++ w). split; [apply Harg; auto|]. rewrite len_app. unfold len at 1. rewrite L1. unfold cap in *. lia.
    + destruct D1 as [w [Hw E]]; auto. { unfold cap in Hlt. lia. }
      exists (w1 ++ w). split; [apply Hout; auto|]. rewrite len_app. unfold len at 1. rewrite L1. unfold cap in *. lia.
Qed.

(* unfolding equations (simpl would also unfold the linear run) *)
Lemma walk_S : forall p fa pc seen, walk p (S fa) pc seen =
    match lin p (lin_fuel p) pc with
    | None => None
    | Some (rs, e) =>
      let k := count rs in
      match e with
      | LMatch => Some (k, k)
      | LFail => Some INF
      | LAlt a o g =>
        if mem a seen then Some INF
        else match walk p fa o (a :: seen) with
             | None => None
             | Some r1 =>
               match walk p fa g (a :: seen) with
               | None => None
               | Some r2 => Some (combine k r1 r2)
               end
             end
      end
    end.
Proof. reflexivity. Qed.

Lemma walkc_S : forall p fa entry seen c, walkc p (S fa) entry seen c =
  match cache_hit entry seen c with
  | Some (r, ls) => Some (r, ls, c)
  | None =>
      match lin p (lin_fuel p) entry with
      | None => None
      | Some (rs, e) =>
        let k := count rs in
        match e with
        | LMatch => Some ((k, k), [], store entry ((k, k), []) c)
        | LFail => Some (INF, [], store entry (INF, []) c)
        | LAlt a o g =>
          if mem a seen then Some (INF, [a], store entry (INF, [a]) c)
          else match walkc p fa o (a :: seen) c with
               | None => None
               | Some (r1, l1, c1) =>
                 match walkc p fa g (a :: seen) c1 with
                 | None => None
                 | Some (r2, l2, c2) =>
                   let r := combine k r1 r2 in
                   let ls := drop a l1 ++ drop a l2 in
                   Some (r, ls, store entry (r, ls) c2)
                 end
               end
        end
      end
  end.
Proof. reflexivity. Qed.

Lemma walkc_O : forall p entry seen c, walkc p O entry seen c =
  match cache_hit entry seen c with Some (r, ls) => Some (r, ls, c) | None => None end.
Proof. reflexivity. Qed.

Lemma sufwalk_S : forall p fa pc seen s, sufwalk p (S fa) pc seen s =
    match lin p (lin_fuel p) pc with
    | None => None
    | Some (rs, e) =>
      let s' := fold_left suf_step rs s in
      match e with
      | LMatch => Some s'
      | LFail => Some []
      | LAlt a o g =>
        if mem a seen then Some []
        else match sufwalk p fa o (a :: seen) s' with
             | None => None
             | Some s2 =>
               match sufwalk p fa g (a :: seen) s' with
               | None => None
               | Some s1 => Some (common_suffix s1 s2)
               end
             end
      end
    end.
Proof. reflexivity. Qed.

(* ------------------------------------------------------------------ the cache-free walk is exact *)
Lemma walk_good : forall p fa pc seen r, walk p fa pc seen = Some r -> good p seen pc r.
Proof.
  induction fa; intros pc seen r H; [discriminate|]. rewrite walk_S in H.
  destruct (lin p (lin_fuel p) pc) as [[rs e]|] eqn:Hl; [|discriminate]. cbv zeta in H.
  destruct e as [a o g| |].
  - destruct (mem a seen) eqn:Hm.
    + inversion H; subst. eapply good_hit; eauto. apply mem_In. exact Hm.
    + destruct (walk p fa o (a :: seen)) as [r1|] eqn:W1; [|discriminate].
      destruct (walk p fa g (a :: seen)) as [r2|] eqn:W2; [|discriminate].
      inversion H; subst. eapply good_alt; eauto; apply incl_refl.
  - inversion H; subst. eapply good_match; eauto.
  - inversion H; subst. eapply good_fail; eauto.
Qed.

(* ------------------------------------------------------------------ the memoised walk (as fixed) is exact *)
Definition cache_good (p : prog) (c : cache) : Prop :=
  Forall (fun kv => good p (snd (snd kv)) (fst kv) (fst (snd kv))) c.

Lemma lookup_In : forall A e (c : list (nat * A)) v, lookup e c = Some v -> In (e, v) c.
Proof.
  induction c as [|[k x] c IH]; simpl; intros v H; [discriminate|].
  destruct (Nat.eqb_spec e k).
  - inversion H; subst. auto.
  - right. auto.
Qed.

Lemma drop_incl : forall a l H, incl l (a :: H) -> incl (drop a l) H.
Proof.
  intros a l H I x Hx. unfold drop in Hx. apply filter_In in Hx. destruct Hx as [Hx Hn].
  destruct (I _ Hx) as [E | E]; auto. subst. rewrite Nat.eqb_refl in Hn. discriminate.
Qed.

Lemma incl_drop : forall a l, incl l (a :: drop a l).
Proof.
  intros a l x Hx. destruct (Nat.eq_dec x a); [left; auto|]. right. unfold drop. apply filter_In. split; auto.
  destruct (Nat.eqb_spec x a); [contradiction | reflexivity].
Qed.

Lemma walkc_good : forall p fa entry seen c r ls c',
  walkc p fa entry seen c = Some (r, ls, c') -> cache_good p c ->
  cache_good p c' /\ good p ls entry r /\ incl ls seen.
Proof.
  induction fa; intros entry seen c r ls c' H Hc.
  - rewrite walkc_O in H. unfold cache_hit in H. destruct (lookup entry c) as [[r0 l0]|] eqn:L; [|discriminate].
    destruct (forallb (fun l => mem l seen) l0) eqn:F; [|discriminate]. inversion H; subst.
    split; auto. split.
    + apply lookup_In in L. unfold cache_good in Hc. rewrite Forall_forall in Hc. apply (Hc _ L).
    + intros x Hx. rewrite forallb_forall in F. apply mem_In. auto.
  - rewrite walkc_S in H. destruct (cache_hit entry seen c) as [[r0 l0]|] eqn:CH.
    + unfold cache_hit in CH. destruct (lookup entry c) as [[r1 l1]|] eqn:L; [|discriminate].
      destruct (forallb (fun l => mem l seen) l1) eqn:F; [|discriminate]. inversion CH; subst. inversion H; subst.
      split; auto. split.
      * apply lookup_In in L. unfold cache_good in Hc. rewrite Forall_forall in Hc. apply (Hc _ L).
      * intros x Hx. rewrite forallb_forall in F. apply mem_In. auto.
    + clear CH. destruct (lin p (lin_fuel p) entry) as [[rs e]|] eqn:Hl; [|discriminate]. cbv zeta in H.
      destruct e as [a o g| |].
      * destruct (mem a seen) eqn:Hm.
        -- inversion H; subst. assert (G : good p [a] entry INF) by (eapply good_hit; eauto; simpl; auto).
           split; [constructor; auto|]. split; auto.
           intros x [E|[]]. subst. apply mem_In. auto.
        -- destruct (walkc p fa o (a :: seen) c) as [[[r1 l1] c1]|] eqn:W1; [|discriminate].
           destruct (walkc p fa g (a :: seen) c1) as [[[r2 l2] c2]|] eqn:W2; [|discriminate].
           inversion H; subst. clear H.
           destruct (IHfa _ _ _ _ _ _ W1 Hc) as [Hc1 [G1 I1]].
           destruct (IHfa _ _ _ _ _ _ W2 Hc1) as [Hc2 [G2 I2]].
           assert (G : good p (drop a l1 ++ drop a l2) entry (combine (count rs) r1 r2)).
           { eapply good_alt; eauto.
             - intros x Hx. destruct (incl_drop a l1 x Hx) as [E|E]; [left; auto | right; apply in_or_app; auto].
             - intros x Hx. destruct (incl_drop a l2 x Hx) as [E|E]; [left; auto | right; apply in_or_app; auto]. }
           split; [constructor; auto|]. split; auto.
           apply incl_app; apply drop_incl; auto.
      * inversion H; subst. assert (G : good p [] entry (count rs, count rs)) by (eapply good_match; eauto).
        split; [constructor; auto|]. split; auto. apply incl_nil_l.
      * inversion H; subst. assert (G : good p [] entry INF) by (eapply good_fail; eauto).
        split; [constructor; auto|]. split; auto. apply incl_nil_l.
Qed.

(* ------------------------------------------------------------------ the suffix walk *)
Definition is_suffix (s x : list N) : Prop := exists pre, x = pre ++ s.

Lemma is_suffix_nil : forall x, is_suffix [] x.
Proof. intros. exists x. rewrite app_nil_r. reflexivity. Qed.

Lemma is_suffix_trans : forall a b c, is_suffix a b -> is_suffix b c -> is_suffix a c.
Proof. intros a b c [p1 E1] [p2 E2]. subst. exists (p2 ++ p1). rewrite app_assoc. reflexivity. Qed.

Lemma common_prefix_l : forall a b, exists t, a = common_prefix a b ++ t.
Proof.
  induction a; intros b; simpl.
  - exists []. reflexivity.
  - destruct b; [exists (a :: a0); reflexivity|]. destruct (N.eqb_spec a n).
    + destruct (IHa b) as [t E]. exists t. simpl. congruence.
    + exists (a :: a0). reflexivity.
Qed.

Lemma common_prefix_r : forall a b, exists t, b = common_prefix a b ++ t.
Proof.
  induction a; intros b; simpl.
  - exists b. reflexivity.
  - destruct b; [exists []; reflexivity|]. destruct (N.eqb_spec a n).
    + destruct (IHa b) as [t E]. exists t. simpl. congruence.
    + exists (n :: b). reflexivity.
Qed.

Lemma common_suffix_l : forall a b, is_suffix (common_suffix a b) a.
Proof.
  intros. unfold common_suffix. destruct (common_prefix_l (rev a) (rev b)) as [t E].
  exists (rev t). rewrite <- rev_app_distr, <- E, rev_involutive. reflexivity.
Qed.

Lemma common_suffix_r : forall a b, is_suffix (common_suffix a b) b.
Proof.
  intros. unfold common_suffix. destruct (common_prefix_r (rev a) (rev b)) as [t E].
  exists (rev t). rewrite <- rev_app_distr, <- E, rev_involutive. reflexivity.
Qed.

Lemma forallb_In : forall A (f : A -> bool) l x, forallb f l = true -> In x l -> f x = true.
Proof. intros. rewrite forallb_forall in H. auto. Qed.

(* an instruction the suffix walk takes for a literal consumes exactly that byte *)
Lemma literal_matches : forall p i b b', inst_ok p i = true -> is_rune (op i) = true ->
  literal_byte i = Some b -> inst_matches i b' = true -> b' = b.
Proof.
  intros p i b b' Hok Hr Hl Hm. unfold literal_byte in Hl.
  destruct (runes i) as [|r0 [|r1 rest]] eqn:R; try discriminate.
  destruct ((r0 <=? 255) && negb (fold_flag i)) eqn:C; [|discriminate]. inversion Hl; subst.
  apply andb_true_iff in C. destruct C as [_ C]. apply negb_true_iff in C.
  unfold inst_matches, inst_ok, match_rune in *. rewrite R in *.
  destruct (op i); simpl in *; try discriminate.
  - rewrite C in Hm. simpl in Hm. rewrite orb_false_r in Hm. apply N.eqb_eq in Hm. auto.
  - apply N.eqb_eq in Hm. auto.
Qed.

Lemma suf_steps : forall p rs w1, Forall (fun i => In i (insts p) /\ is_rune (op i) = true) rs ->
  forallb (inst_ok p) (insts p) = true -> matches_all rs w1 ->
  forall s w0, is_suffix s w0 -> is_suffix (fold_left suf_step rs s) (w0 ++ w1).
Proof.
  intros p rs w1 Hrs Hok M. induction M; intros s w0 Hs; simpl.
  - rewrite app_nil_r. auto.
  - inversion Hrs; subst. destruct H2 as [Hi Hr].
    replace (w0 ++ y :: l') with ((w0 ++ [y]) ++ l') by (rewrite <- app_assoc; reflexivity).
    apply IHM; auto. unfold suf_step. destruct (literal_byte x) as [b|] eqn:L.
    + assert (y = b) by (eapply literal_matches; eauto; eapply forallb_In; eauto). subst.
      destruct Hs as [pre E]. subst. exists pre. rewrite app_assoc. reflexivity.
    + apply is_suffix_nil.
Qed.

Lemma sufwalk_sound : forall p, forallb (inst_ok p) (insts p) = true ->
  forall fa pc seen s s', sufwalk p fa pc seen s = Some s' ->
  forall w0 w, is_suffix s w0 -> accA p [] pc w -> is_suffix s' (w0 ++ w).
Proof.
  intros p Hok. induction fa; intros pc seen s s' H w0 w Hs Hw; [discriminate|]. rewrite sufwalk_S in H.
  destruct (lin p (lin_fuel p) pc) as [[rs e]|] eqn:Hl; [|discriminate]. cbv zeta in H.
  destruct (lin_spec _ _ _ _ _ Hl) as [Hend [Hrs [Hd _]]].
  destruct (Hd _ _ Hw) as [w1 [w2 [E [M F]]]]. subst w.
  pose proof (suf_steps _ _ _ Hrs Hok M _ _ Hs) as Hs1.
  rewrite app_assoc.
  destruct e as [a o g| |].
  - destruct (mem a seen); [inversion H; apply is_suffix_nil|].
    destruct (sufwalk p fa o (a :: seen) (fold_left suf_step rs s)) as [s2|] eqn:W2; [|discriminate].
    destruct (sufwalk p fa g (a :: seen) (fold_left suf_step rs s)) as [s1|] eqn:W1; [|discriminate].
    inversion H; subst. simpl in F. destruct Hend as [i [Hg [Ha [Eo Eg]]]]. subst.
    destruct (accA_alt_inv _ _ _ _ _ Hg Ha F) as [_ [F' | F']].
    + eapply is_suffix_trans; [apply common_suffix_r|]. eapply IHfa; eauto.
    + eapply is_suffix_trans; [apply common_suffix_l|]. eapply IHfa; eauto.
  - inversion H; subst. simpl in F. subst. rewrite app_nil_r. auto.
  - contradiction.
Qed.

(* ------------------------------------------------------------------ totality on well-formed programs *)
Lemma wf_parts : forall p, wf p = true ->
  forallb (inst_ok p) (insts p) = true /\ (forall pc, (pc < size p)%nat -> lin_ok p pc = true) /\ (start p < size p)%nat.
Proof.
  intros p H. unfold wf in H. apply andb_true_iff in H. destruct H as [H H3]. apply andb_true_iff in H. destruct H as [H1 H2].
  split; auto. split.
  - intros pc Hpc. rewrite forallb_forall in H2. apply H2. apply in_seq. lia.
  - apply Nat.ltb_lt. exact H3.
Qed.

Lemma alt_targets : forall p f pc rs a o g, forallb (inst_ok p) (insts p) = true ->
  lin p f pc = Some (rs, LAlt a o g) -> (a < size p)%nat /\ (o < size p)%nat /\ (g < size p)%nat.
Proof.
  intros p f pc rs a o g Hok Hl. destruct (lin_spec _ _ _ _ _ Hl) as [[i [Hg [Ha [Eo Eg]]]] _].
  split; [eapply get_lt; eauto|].
  pose proof (forallb_In _ _ _ _ Hok (get_In _ _ _ Hg)) as K. unfold inst_ok in K.
  destruct (op i); simpl in Ha; try discriminate; apply andb_true_iff in K; destruct K as [K1 K2];
    apply Nat.ltb_lt in K1; apply Nat.ltb_lt in K2; subst; auto.
Qed.

Lemma seen_bound : forall n seen, NoDup seen -> (forall x, In x seen -> (x < n)%nat) -> (length seen <= n)%nat.
Proof.
  intros n seen Hnd Hb. rewrite <- (seq_length n 0). apply NoDup_incl_length; auto.
  intros x Hx. apply in_seq. specialize (Hb _ Hx). lia.
Qed.

Lemma walk_total : forall p, wf p = true -> forall fa pc seen,
  (pc < size p)%nat -> NoDup seen -> (forall x, In x seen -> (x < size p)%nat) ->
  (size p + 1 <= fa + length seen)%nat -> exists r, walk p fa pc seen = Some r.
Proof.
  intros p Hwf. destruct (wf_parts _ Hwf) as [Hok [Hlin _]].
  induction fa; intros pc seen Hpc Hnd Hb Hf.
  - pose proof (seen_bound _ _ Hnd Hb). simpl in Hf. lia.
  - rewrite walk_S. specialize (Hlin _ Hpc). unfold lin_ok in Hlin.
    destruct (lin p (lin_fuel p) pc) as [[rs e]|] eqn:Hl; [|discriminate]. cbv zeta.
    destruct e as [a o g| |]; eauto.
    destruct (mem a seen) eqn:Hm; eauto.
    destruct (alt_targets _ _ _ _ _ _ _ Hok Hl) as [Ha [Ho Hg]].
    assert (Hnd' : NoDup (a :: seen)) by (constructor; auto; apply mem_false_notin; auto).
    assert (Hb' : forall x, In x (a :: seen) -> (x < size p)%nat) by (intros x [E|E]; subst; auto).
    destruct (IHfa o (a :: seen)) as [r1 E1]; auto; [simpl; lia|].
    destruct (IHfa g (a :: seen)) as [r2 E2]; auto; [simpl; lia|].
    rewrite E1, E2. eauto.
Qed.

Lemma sufwalk_total : forall p, wf p = true -> forall fa pc seen s,
  (pc < size p)%nat -> NoDup seen -> (forall x, In x seen -> (x < size p)%nat) ->
  (size p + 1 <= fa + length seen)%nat -> exists r, sufwalk p fa pc seen s = Some r.
Proof.
  intros p Hwf. destruct (wf_parts _ Hwf) as [Hok [Hlin _]].
  induction fa; intros pc seen s Hpc Hnd Hb Hf.
  - pose proof (seen_bound _ _ Hnd Hb). simpl in Hf. lia.
  - rewrite sufwalk_S. specialize (Hlin _ Hpc). unfold lin_ok in Hlin.
    destruct (lin p (lin_fuel p) pc) as [[rs e]|] eqn:Hl; [|discriminate]. cbv zeta.
    destruct e as [a o g| |]; eauto.
    destruct (mem a seen) eqn:Hm; eauto.
    destruct (alt_targets _ _ _ _ _ _ _ Hok Hl) as [Ha [Ho Hg]].
    assert (Hnd' : NoDup (a :: seen)) by (constructor; auto; apply mem_false_notin; auto).
    assert (Hb' : forall x, In x (a :: seen) -> (x < size p)%nat) by (intros x [E|E]; subst; auto).
    destruct (IHfa o (a :: seen) (fold_left suf_step rs s)) as [r1 E1]; auto; [simpl; lia|].
    destruct (IHfa g (a :: seen) (fold_left suf_step rs s)) as [r2 E2]; auto; [simpl; lia|].
    rewrite E1, E2. eauto.
Qed.

Lemma walkc_total : forall p, wf p = true -> forall fa entry seen c,
  (entry < size p)%nat -> NoDup seen -> (forall x, In x seen -> (x < size p)%nat) ->
  (size p + 1 <= fa + length seen)%nat -> exists r, walkc p fa entry seen c = Some r.
Proof.
  intros p Hwf. destruct (wf_parts _ Hwf) as [Hok [Hlin _]].
  induction fa; intros entry seen c Hpc Hnd Hb Hf.
  - pose proof (seen_bound _ _ Hnd Hb). simpl in Hf. lia.
  - rewrite walkc_S. destruct (cache_hit entry seen c) as [[r0 l0]|]; eauto.
    specialize (Hlin _ Hpc). unfold lin_ok in Hlin.
    destruct (lin p (lin_fuel p) entry) as [[rs e]|] eqn:Hl; [|discriminate]. cbv zeta.
    destruct e as [a o g| |]; eauto.
    destruct (mem a seen) eqn:Hm; eauto.
    destruct (alt_targets _ _ _ _ _ _ _ Hok Hl) as [Ha [Ho Hg]].
    assert (Hnd' : NoDup (a :: seen)) by (constructor; auto; apply mem_false_notin; auto).
    assert (Hb' : forall x, In x (a :: seen) -> (x < size p)%nat) by (intros x [E|E]; subst; auto).
    destruct (IHfa o (a :: seen) c) as [[[r1 l1] c1] E1]; auto; [simpl; lia|].
    destruct (IHfa g (a :: seen) c1) as [[[r2 l2] c2] E2]; auto; [simpl; lia|].
    rewrite E1, E2. eauto.
Qed.

(* ------------------------------------------------------------------ top-level statements *)
Lemma nodup_nil_bound : forall n, NoDup (@nil nat) /\ (forall x, In x (@nil nat) -> (x < n)%nat).
Proof. intros. split; [constructor | intros x []]. Qed.

Lemma accepted_length_total : forall p, wf p = true -> exists r, accepted_length p = Some r.
Proof.
  intros p Hwf. destruct (wf_parts _ Hwf) as [_ [_ Hs]]. destruct (nodup_nil_bound (size p)) as [A B].
  unfold accepted_length. apply walk_total; auto. unfold alt_fuel. simpl. lia.
Qed.

Lemma accepted_length_cached_total : forall p, wf p = true -> exists r, accepted_length_cached p = Some r.
Proof.
  intros p Hwf. destruct (wf_parts _ Hwf) as [_ [_ Hs]]. destruct (nodup_nil_bound (size p)) as [A B].
  unfold accepted_length_cached.
  destruct (walkc_total p Hwf (alt_fuel p) (start p) [] []) as [[[r l] c] E]; auto.
  - unfold alt_fuel. simpl. lia.
  - rewrite E. eauto.
Qed.

Lemma constant_suffix_total : forall p, wf p = true -> exists s, constant_suffix p = Some s.
Proof.
  intros p Hwf. destruct (wf_parts _ Hwf) as [_ [_ Hs]]. destruct (nodup_nil_bound (size p)) as [A B].
  unfold constant_suffix. apply sufwalk_total; auto. unfold alt_fuel. simpl. lia.
Qed.

Lemma accepted_length_good : forall p r, accepted_length p = Some r -> good p [] (start p) r.
Proof. intros p r H. unfold accepted_length in H. eapply walk_good; eauto. Qed.

Lemma accepted_length_cached_good : forall p r, accepted_length_cached p = Some r -> good p [] (start p) r.
Proof.
  intros p r H. unfold accepted_length_cached in H.
  destruct (walkc p (alt_fuel p) (start p) [] []) as [[[r0 l] c]|] eqn:E; [|discriminate]. inversion H; subst.
  destruct (walkc_good _ _ _ _ _ _ _ _ E) as [_ [G I]]; [constructor|].
  assert (l = []) by (destruct l; auto; exfalso; apply (I n); simpl; auto). subst. exact G.
Qed.

(* every computed value is at most MaxUint *)
Lemma combine_le : forall k r1 r2, fst (combine k r1 r2) <= MAXU /\ snd (combine k r1 r2) <= MAXU.
Proof. intros. unfold combine. simpl. rewrite !satadd_cap. unfold cap. lia. Qed.

Lemma walk_le : forall p fa pc seen r, walk p fa pc seen = Some r -> fst r <= MAXU /\ snd r <= MAXU.
Proof.
  destruct fa; intros pc seen r H; [discriminate|]. rewrite walk_S in H.
  destruct (lin p (lin_fuel p) pc) as [[rs e]|]; [|discriminate]. cbv zeta in H.
  destruct e as [a o g| |].
  - destruct (mem a seen); [inversion H; simpl; lia|].
    destruct (walk p fa o (a :: seen)); [|discriminate]. destruct (walk p fa g (a :: seen)); [|discriminate].
    inversion H. apply combine_le.
  - inversion H; simpl. rewrite count_cap. unfold cap. lia.
  - inversion H; simpl. lia.
Qed.

Lemma good_min_unique : forall p pc r1 r2, sat p = true -> good p [] pc r1 -> good p [] pc r2 ->
  fst r1 <= MAXU -> fst r2 <= MAXU -> fst r1 = fst r2.
Proof.
  intros p pc [a1 b1] [a2 b2] Hs [A1 [B1 _]] [A2 [B2 _]] L1 L2. simpl in *.
  destruct (N.eq_dec a1 MAXU) as [E1|E1]; destruct (N.eq_dec a2 MAXU) as [E2|E2]; try lia.
  - destruct B2 as [w [Hw E]]; auto; [lia|]. specialize (A1 _ Hw). lia.
  - destruct B1 as [w [Hw E]]; auto; [lia|]. specialize (A2 _ Hw). lia.
  - destruct B1 as [w1 [Hw1 E1']]; auto; [lia|]. destruct B2 as [w2 [Hw2 E2']]; auto; [lia|].
    specialize (A1 _ Hw2). specialize (A2 _ Hw1). lia.
Qed.

Lemma good_max_unique : forall p pc r1 r2, sat p = true -> good p [] pc r1 -> good p [] pc r2 ->
  snd r1 < MAXU -> snd r2 < MAXU -> snd r1 = snd r2.
Proof.
  intros p pc [a1 b1] [a2 b2] Hs [_ [_ [C1 D1]]] [_ [_ [C2 D2]]] L1 L2. simpl in *.
  destruct D1 as [w1 [Hw1 E1]]; auto. destruct D2 as [w2 [Hw2 E2]]; auto.
  specialize (C1 L1 _ Hw2). specialize (C2 L2 _ Hw1). lia.
Qed.

Lemma walkc_le : forall p fa entry seen c r ls c', walkc p fa entry seen c = Some (r, ls, c') ->
  Forall (fun kv => fst (fst (snd kv)) <= MAXU) c ->
  Forall (fun kv => fst (fst (snd kv)) <= MAXU) c' /\ fst r <= MAXU.
Proof.
  induction fa; intros entry seen c r ls c' H Hc.
  - rewrite walkc_O in H. unfold cache_hit in H. destruct (lookup entry c) as [[r0 l0]|] eqn:L; [|discriminate].
    destruct (forallb (fun l => mem l seen) l0); [|discriminate]. inversion H; subst. split; auto.
    apply lookup_In in L. rewrite Forall_forall in Hc. apply (Hc _ L).
  - rewrite walkc_S in H. destruct (cache_hit entry seen c) as [[r0 l0]|] eqn:CH.
    + unfold cache_hit in CH. destruct (lookup entry c) as [[r1 l1]|] eqn:L; [|discriminate].
      destruct (forallb (fun l => mem l seen) l1); [|discriminate]. inversion CH; subst. inversion H; subst. split; auto.
      apply lookup_In in L. rewrite Forall_forall in Hc. apply (Hc _ L).
    + clear CH. destruct (lin p (lin_fuel p) entry) as [[rs e]|]; [|discriminate]. cbv zeta in H.
      destruct e as [a o g| |].
      * destruct (mem a seen).
        -- inversion H; subst. simpl. split; [constructor; auto; simpl; lia | lia].
        -- destruct (walkc p fa o (a :: seen) c) as [[[r1 l1] c1]|] eqn:W1; [|discriminate].
           destruct (walkc p fa g (a :: seen) c1) as [[[r2 l2] c2]|] eqn:W2; [|discriminate].
           inversion H; subst. destruct (IHfa _ _ _ _ _ _ W1 Hc) as [Hc1 _]. destruct (IHfa _ _ _ _ _ _ W2 Hc1) as [Hc2 _].
           pose proof (combine_le (count rs) r1 r2) as [K _]. split; auto. constructor; auto.
      * inversion H; subst. simpl. assert (count rs <= MAXU) by (rewrite count_cap; unfold cap; lia).
        split; auto. constructor; auto.
      * inversion H; subst. simpl. split; [constructor; auto; simpl; lia | lia].
Qed.

(* the memo table does not change the minimum; it does not change a finite maximum *)
Lemma cache_transparent_min : forall p r rc, sat p = true ->
  accepted_length p = Some r -> accepted_length_cached p = Some rc -> fst rc = fst r.
Proof.
  intros p r rc Hs H Hc.
  pose proof (accepted_length_good _ _ H) as G. pose proof (accepted_length_cached_good _ _ Hc) as Gc.
  unfold accepted_length in H. destruct (walk_le _ _ _ _ _ H) as [L _].
  unfold accepted_length_cached in Hc.
  destruct (walkc p (alt_fuel p) (start p) [] []) as [[[r0 l] c]|] eqn:E; [|discriminate]. inversion Hc; subst.
  destruct (walkc_le _ _ _ _ _ _ _ _ E) as [_ Lc]; [constructor|].
  eapply good_min_unique; eauto.
Qed.

Lemma cache_transparent_max_finite : forall p r rc, sat p = true ->
  accepted_length p = Some r -> accepted_length_cached p = Some rc ->
  snd r < MAXU -> snd rc < MAXU -> snd rc = snd r.
Proof.
  intros p r rc Hs H Hc L Lc. eapply good_max_unique; eauto using accepted_length_good, accepted_length_cached_good.
Qed.

Lemma constant_suffix_sound : forall p s w, wf p = true -> constant_suffix p = Some s -> accepts p w -> is_suffix s w.
Proof.
  intros p s w Hwf H Hw. destruct (wf_parts _ Hwf) as [Hok _].
  unfold constant_suffix in H. change w with ([] ++ w). eapply sufwalk_sound; eauto. apply is_suffix_nil.
Qed.

(* the executable acceptor only says yes to accepted words *)
(* Reach p u pc: whatever is accepted from pc, prefixed by u, is accepted from the start *)
Definition Reach (p : prog) (u : list N) (pc : nat) : Prop :=
  forall w, accA p [] pc w -> accA p [] (start p) (u ++ w).

Lemma clos_reach : forall p u fuel work visited,
  (forall pc, In pc work -> Reach p u pc) -> (forall pc, In pc visited -> Reach p u pc) ->
  forall pc, In pc (clos p fuel work visited) -> Reach p u pc.
Proof.
  induction fuel; intros work visited Hw Hv pc Hin; simpl in Hin; auto.
  destruct work as [|x w]; auto.
  destruct (mem x visited).
  - eapply IHfuel; [| |exact Hin]; auto. intros q Hq. apply Hw. right. exact Hq.
  - assert (Hx : Reach p u x) by (apply Hw; left; reflexivity).
    assert (Hv' : forall q, In q (x :: visited) -> Reach p u q) by (intros q [E|E]; subst; auto).
    assert (Hw' : forall q, In q w -> Reach p u q) by (intros q Hq; apply Hw; right; exact Hq).
    destruct (get p x) as [i|] eqn:Hg.
    2:{ eapply IHfuel; [| |exact Hin]; auto. }
    assert (Eps : is_eps (op i) = true -> Reach p u (out i)).
    { intros He w0 Hacc. apply Hx. eapply A_eps; eauto. }
    assert (Alt : is_alt (op i) = true -> Reach p u (out i) /\ Reach p u (arg i)).
    { intros Ha. split; intros w0 Hacc; apply Hx; [eapply A_out | eapply A_arg]; eauto. }
    destruct (op i) eqn:Ho; simpl in *;
      try (eapply IHfuel; [| |exact Hin]; auto; fail).
    + destruct (Alt eq_refl) as [A1 A2]. eapply IHfuel; [| |exact Hin]; auto.
      intros q [E|[E|E]]; subst; auto.
    + destruct (Alt eq_refl) as [A1 A2]. eapply IHfuel; [| |exact Hin]; auto.
      intros q [E|[E|E]]; subst; auto.
    + eapply IHfuel; [| |exact Hin]; auto. intros q [E|E]; subst; auto.
    + eapply IHfuel; [| |exact Hin]; auto. intros q [E|E]; subst; auto.
    + eapply IHfuel; [| |exact Hin]; auto. intros q [E|E]; subst; auto.
Qed.

Lemma step_reach : forall p u b states, (forall pc, In pc states -> Reach p u pc) ->
  forall pc, In pc (step_states p states b) -> Reach p (u ++ [b]) pc.
Proof.
  induction states as [|x r IH]; intros Hs pc Hin; simpl in Hin; [contradiction|].
  assert (Hr : forall q, In q r -> Reach p u q) by (intros q Hq; apply Hs; right; exact Hq).
  destruct (get p x) as [i|] eqn:Hg; [|auto].
  destruct (is_rune (op i) && inst_matches i b) eqn:C; [|auto].
  apply andb_true_iff in C. destruct C as [C1 C2].
  destruct Hin as [E|E]; [|auto]. subst pc.
  intros w Hacc. rewrite <- app_assoc. simpl. apply (Hs x); [left; reflexivity|]. eapply A_rune; eauto.
Qed.

Lemma run_reach : forall p w u states, (forall pc, In pc states -> Reach p u pc) ->
  forall pc, In pc (run_states p states w) -> Reach p (u ++ w) pc.
Proof.
  induction w as [|b w IH]; intros u states Hs pc Hin; simpl in Hin.
  - rewrite app_nil_r. auto.
  - replace (u ++ b :: w) with ((u ++ [b]) ++ w) by (rewrite <- app_assoc; reflexivity).
    eapply IH; [|exact Hin]. intros q Hq. eapply clos_reach; [| |exact Hq].
    + apply step_reach. exact Hs.
    + intros q' [].
Qed.

Lemma accepts_b_sound : forall p w, accepts_b p w = true -> accepts p w.
Proof.
  intros p w H. unfold accepts_b in H. apply existsb_exists in H. destruct H as [pc [Hin Hm]].
  assert (R : Reach p ([] ++ w) pc).
  { eapply run_reach; [|exact Hin]. intros q Hq. eapply clos_reach; [| |exact Hq].
    - intros q' [E|[]]. subst. intros w0 Hacc. exact Hacc.
    - intros q' []. }
  unfold is_match_pc in Hm. destruct (get p pc) as [i|] eqn:Hg; [|discriminate].
  destruct (op i) eqn:Ho; try discriminate.
  unfold accepts. specialize (R [] (A_match p [] pc i Hg Ho)). rewrite app_nil_r in R. exact R.
Qed.

(* ------------------------------------------------------------------ statements used by props/C18.v *)
Lemma cached_length_sound : forall p mn mx w,
  accepted_length_cached p = Some (mn, mx) -> accepts p w ->
  mn <= len w /\ (mx < MAXU -> len w <= mx).
Proof.
  intros p mn mx w H Hw. destruct (accepted_length_cached_good _ _ H) as [A [_ [C _]]]. simpl in *.
  split; [apply A; exact Hw | intros L; apply C; auto].
Qed.

Lemma cached_min_attained : forall p mn mx,
  accepted_length_cached p = Some (mn, mx) -> sat p = true -> mn < MAXU ->
  exists w, accepts p w /\ len w = mn.
Proof. intros p mn mx H Hs L. destruct (accepted_length_cached_good _ _ H) as [_ [B _]]. apply B; auto. Qed.

Lemma cached_max_attained : forall p mn mx,
  accepted_length_cached p = Some (mn, mx) -> sat p = true -> mx < MAXU ->
  exists w, accepts p w /\ len w = mx.
Proof. intros p mn mx H Hs L. destruct (accepted_length_cached_good _ _ H) as [_ [_ [_ D]]]. apply D; auto. Qed.

Lemma nocache_length_sound : forall p mn mx w,
  accepted_length p = Some (mn, mx) -> accepts p w ->
  mn <= len w /\ (mx < MAXU -> len w <= mx).
Proof.
  intros p mn mx w H Hw. destruct (accepted_length_good _ _ H) as [A [_ [C _]]]. simpl in *.
  split; [apply A; exact Hw | intros L; apply C; auto].
Qed.

Lemma nocache_min_attained : forall p mn mx,
  accepted_length p = Some (mn, mx) -> sat p = true -> mn < MAXU -> exists w, accepts p w /\ len w = mn.
Proof. intros p mn mx H Hs L. destruct (accepted_length_good _ _ H) as [_ [B _]]. apply B; auto. Qed.

Lemma nocache_max_attained : forall p mn mx,
  accepted_length p = Some (mn, mx) -> sat p = true -> mx < MAXU -> exists w, accepts p w /\ len w = mx.
Proof. intros p mn mx H Hs L. destruct (accepted_length_good _ _ H) as [_ [_ [_ D]]]. apply D; auto. Qed.

(* ------------------------------------------------------------------ ConstantSuffix with its call budget *)
Lemma sufwalkB_S : forall p fa b pc seen s, sufwalkB p (S fa) b pc seen s =
  if b =? 0 then SBudget
  else
      match lin p (lin_fuel p) pc with
      | None => SErr
      | Some (rs, e) =>
        let s' := fold_left suf_step rs s in
        match e with
        | LMatch => SOk s' (N.pred b)
        | LFail => SOk [] (N.pred b)
        | LAlt a o g =>
          if mem a seen then SOk [] (N.pred b)
          else match sufwalkB p fa (N.pred b) o (a :: seen) s' with
               | SOk s2 b2 =>
                 match sufwalkB p fa b2 g (a :: seen) s' with
                 | SOk s1 b1 => SOk (common_suffix s1 s2) b1
                 | x => x
                 end
               | x => x
               end
        end
      end.
Proof. reflexivity. Qed.

Lemma sufwalkB_O : forall p b pc seen s, sufwalkB p O b pc seen s = if b =? 0 then SBudget else SErr.
Proof. reflexivity. Qed.

(* within its budget the walk is the walk *)
Lemma sufwalkB_ok : forall p fa b pc seen s r b', sufwalkB p fa b pc seen s = SOk r b' -> sufwalk p fa pc seen s = Some r.
Proof.
  induction fa; intros b pc seen s r b' H.
  - rewrite sufwalkB_O in H. destruct (b =? 0); discriminate.
  - rewrite sufwalkB_S in H. rewrite sufwalk_S. destruct (b =? 0); [discriminate|].
    destruct (lin p (lin_fuel p) pc) as [[rs e]|]; [|discriminate]. cbv zeta in *.
    destruct e as [a o g| |]; try (inversion H; reflexivity).
    destruct (mem a seen); [inversion H; reflexivity|].
    destruct (sufwalkB p fa (N.pred b) o (a :: seen) (fold_left suf_step rs s)) as [s2 b2| |] eqn:W2; try discriminate.
    destruct (sufwalkB p fa b2 g (a :: seen) (fold_left suf_step rs s)) as [s1 b1| |] eqn:W1; try discriminate.
    rewrite (IHfa _ _ _ _ _ _ W2), (IHfa _ _ _ _ _ _ W1). inversion H. reflexivity.
Qed.

Lemma sufwalkB_noerr : forall p fa pc seen s r, sufwalk p fa pc seen s = Some r ->
  forall b, (exists b', sufwalkB p fa b pc seen s = SOk r b') \/ sufwalkB p fa b pc seen s = SBudget.
Proof.
  induction fa; intros pc seen s r H b; [discriminate|].
  rewrite sufwalk_S in H. rewrite sufwalkB_S. destruct (b =? 0); [right; reflexivity|].
  destruct (lin p (lin_fuel p) pc) as [[rs e]|]; [|discriminate]. cbv zeta in *.
  destruct e as [a o g| |]; try solve [inversion H; subst; left; eauto].
  destruct (mem a seen); [inversion H; subst; left; eauto|].
  destruct (sufwalk p fa o (a :: seen) (fold_left suf_step rs s)) as [s2|] eqn:W2; [|discriminate].
  destruct (sufwalk p fa g (a :: seen) (fold_left suf_step rs s)) as [s1|] eqn:W1; [|discriminate].
  inversion H; subst.
  destruct (IHfa _ _ _ _ W2 (N.pred b)) as [[b2 E2] | E2]; rewrite E2; [|right; reflexivity].
  destruct (IHfa _ _ _ _ W1 b2) as [[b1 E1] | E1]; rewrite E1; [left; exists b1; reflexivity | right; reflexivity].
Qed.

Lemma constant_suffix_b_sound : forall p s w, wf p = true -> constant_suffix_b p = Some s -> accepts p w -> is_suffix s w.
Proof.
  intros p s w Hwf H Hw. unfold constant_suffix_b in H.
  destruct (sufwalkB p (alt_fuel p) SUFFIX_BUDGET (start p) [] []) as [r b'| |] eqn:E; try discriminate.
  - inversion H; subst. apply (constant_suffix_sound p s w Hwf); auto. unfold constant_suffix. eapply sufwalkB_ok; eauto.
  - inversion H; subst. apply is_suffix_nil.
Qed.

Lemma constant_suffix_b_total : forall p, wf p = true -> exists s, constant_suffix_b p = Some s.
Proof.
  intros p Hwf. destruct (constant_suffix_total p Hwf) as [r Hr]. unfold constant_suffix in Hr.
  unfold constant_suffix_b.
  destruct (sufwalkB_noerr _ _ _ _ _ _ Hr SUFFIX_BUDGET) as [[b' E] | E]; rewrite E; eauto.
Qed.

(* ------------------------------------------------------------------ the memo table and the maximum
   FinH p pc m h: the unfolding of the program from pc is a finite tree of height h without Fail, and m is
   what both walks compute as its maximum (saturating). A finite computed maximum always comes from such a
   tree; on such a tree neither walk can run into an alternation of [seen] (those are ancestors: their
   trees are strictly higher), so both compute m. *)
Inductive FinH (p : prog) : nat -> N -> nat -> Prop :=
| FH_match : forall pc rs, lin p (lin_fuel p) pc = Some (rs, LMatch) -> FinH p pc (count rs) O
| FH_alt : forall pc rs a o g m1 h1 m2 h2, lin p (lin_fuel p) pc = Some (rs, LAlt a o g) ->
    FinH p o m1 h1 -> FinH p g m2 h2 -> FinH p pc (satadd (count rs) (N.max m1 m2)) (S (Nat.max h1 h2)).

Lemma FinH_det : forall p pc m h, FinH p pc m h -> forall m' h', FinH p pc m' h' -> m = m' /\ h = h'.
Proof.
  intros p pc m h H.
  induction H as [pc rs Hl | pc rs a o g m1 h1 m2 h2 Hl F1 IH1 F2 IH2]; intros m' h' H'.
  - inversion H' as [pc' rs' Hl' | pc' rs' a' o' g' m1' h1' m2' h2' Hl' F1' F2']; subst; rewrite Hl in Hl'; inversion Hl'; subst; auto.
  - inversion H' as [pc' rs' Hl' | pc' rs' a' o' g' m1' h1' m2' h2' Hl' F1' F2']; subst; rewrite Hl in Hl'; inversion Hl'; subst.
    destruct (IH1 _ _ F1') as [E1 E2]. destruct (IH2 _ _ F2') as [E3 E4]. subst. auto.
Qed.

(* the alternation at which a linear run stops has the tree of the run's start *)
Lemma lin_at_alt : forall p f pc rs a o g, lin p f pc = Some (rs, LAlt a o g) -> lin p (lin_fuel p) a = Some ([], LAlt a o g).
Proof.
  intros p f pc rs a o g H. destruct (lin_spec _ _ _ _ _ H) as [[i [Hg [Ha [Eo Eg]]]] _].
  unfold lin_fuel. simpl. rewrite Hg. destruct (op i); simpl in Ha; try discriminate; subst; reflexivity.
Qed.

Lemma count_nil : count [] = 0.
Proof. reflexivity. Qed.

Lemma FinH_at_alt : forall p pc rs a o g m h, lin p (lin_fuel p) pc = Some (rs, LAlt a o g) -> FinH p pc m h ->
  exists m', FinH p a m' h.
Proof.
  intros p pc rs a o g m h Hl H. inversion H; subst; rewrite Hl in H0; inversion H0; subst.
  eexists. eapply FH_alt; eauto. eapply lin_at_alt; eauto.
Qed.

Lemma satadd_fin : forall k a b, satadd k (N.max a b) < MAXU -> a < MAXU /\ b < MAXU.
Proof. intros k a b H. rewrite satadd_cap in H. unfold cap in H. lia. Qed.

(* a finite maximum comes from a finite tree *)
Lemma walk_fin : forall p fa pc seen r, walk p fa pc seen = Some r -> snd r < MAXU -> exists h, FinH p pc (snd r) h.
Proof.
  induction fa; intros pc seen r H L; [discriminate|]. rewrite walk_S in H.
  destruct (lin p (lin_fuel p) pc) as [[rs e]|] eqn:Hl; [|discriminate]. cbv zeta in H.
  destruct e as [a o g| |].
  - destruct (mem a seen); [inversion H; subst; simpl in L; lia|].
    destruct (walk p fa o (a :: seen)) as [r1|] eqn:W1; [|discriminate].
    destruct (walk p fa g (a :: seen)) as [r2|] eqn:W2; [|discriminate].
    inversion H; subst. unfold combine in *. simpl in *.
    destruct (satadd_fin _ _ _ L) as [L1 L2].
    destruct (IHfa _ _ _ W1 L1) as [h1 F1]. destruct (IHfa _ _ _ W2 L2) as [h2 F2].
    eexists. eapply FH_alt; eauto.
  - inversion H; subst. simpl. exists O. eapply FH_match; eauto.
  - inversion H; subst. simpl in L. lia.
Qed.

Definition cache_fin (p : prog) (c : cache) : Prop :=
  Forall (fun kv => snd (fst (snd kv)) < MAXU -> exists h, FinH p (fst kv) (snd (fst (snd kv))) h) c.

Lemma walkc_fin : forall p fa entry seen c r ls c', walkc p fa entry seen c = Some (r, ls, c') -> cache_fin p c ->
  cache_fin p c' /\ (snd r < MAXU -> exists h, FinH p entry (snd r) h).
Proof.
  induction fa; intros entry seen c r ls c' H Hc.
  - rewrite walkc_O in H. unfold cache_hit in H. destruct (lookup entry c) as [[r0 l0]|] eqn:L; [|discriminate].
    destruct (forallb (fun l => mem l seen) l0); [|discriminate]. inversion H; subst. split; auto.
    apply lookup_In in L. unfold cache_fin in Hc. rewrite Forall_forall in Hc. apply (Hc _ L).
  - rewrite walkc_S in H. destruct (cache_hit entry seen c) as [[r0 l0]|] eqn:CH.
    + unfold cache_hit in CH. destruct (lookup entry c) as [[r1 l1]|] eqn:L; [|discriminate].
      destruct (forallb (fun l => mem l seen) l1); [|discriminate]. inversion CH; subst. inversion H; subst. split; auto.
      apply lookup_In in L. unfold cache_fin in Hc. rewrite Forall_forall in Hc. apply (Hc _ L).
    + clear CH. destruct (lin p (lin_fuel p) entry) as [[rs e]|] eqn:Hl; [|discriminate]. cbv zeta in H.
      destruct e as [a o g| |].
      * destruct (mem a seen).
        -- inversion H; subst. split; [constructor; auto; simpl; intros; lia | simpl; intros; lia].
        -- destruct (walkc p fa o (a :: seen) c) as [[[r1 l1] c1]|] eqn:W1; [|discriminate].
           destruct (walkc p fa g (a :: seen) c1) as [[[r2 l2] c2]|] eqn:W2; [|discriminate].
           inversion H; subst. clear H.
           destruct (IHfa _ _ _ _ _ _ W1 Hc) as [Hc1 F1]. destruct (IHfa _ _ _ _ _ _ W2 Hc1) as [Hc2 F2].
           assert (G : snd (combine (count rs) r1 r2) < MAXU -> exists h, FinH p entry (snd (combine (count rs) r1 r2)) h).
           { unfold combine. simpl. intros L. destruct (satadd_fin _ _ _ L) as [L1 L2].
             destruct (F1 L1) as [h1 A1]. destruct (F2 L2) as [h2 A2]. eexists. eapply FH_alt; eauto. }
           split; auto. constructor; auto.
      * inversion H; subst.
        assert (G : exists h, FinH p entry (count rs) h) by (exists O; eapply FH_match; eauto).
        split; [constructor; auto|]; simpl; auto.
      * inversion H; subst. split; [constructor; auto; simpl; intros; lia | simpl; intros; lia].
Qed.

(* on a finite tree whose height is below the trees of all alternations in [seen], the walks compute its maximum *)
Definition above (p : prog) (seen : list nat) (h : nat) : Prop :=
  forall a m' h', In a seen -> FinH p a m' h' -> (h < h')%nat.

Lemma above_push : forall p seen pc rs a o g m h hc, lin p (lin_fuel p) pc = Some (rs, LAlt a o g) ->
  FinH p pc m h -> above p seen h -> (hc < h)%nat -> above p (a :: seen) hc.
Proof.
  intros p seen pc rs a o g m h hc Hl HF Hab Hlt a' m' h' [E | Hin] HF'.
  - subst a'. destruct (FinH_at_alt _ _ _ _ _ _ _ _ Hl HF) as [ma Ha].
    destruct (FinH_det _ _ _ _ Ha _ _ HF') as [_ E]. lia.
  - specialize (Hab _ _ _ Hin HF'). lia.
Qed.

Lemma walk_on_fin : forall p pc m h, FinH p pc m h -> forall fa seen r, above p seen h ->
  walk p fa pc seen = Some r -> snd r = m.
Proof.
  intros p pc m h HF. induction HF as [pc rs Hl | pc rs a o g m1 h1 m2 h2 Hl HF1 IHHF1 HF2 IHHF2]; intros fa seen r Hab H; (destruct fa; [discriminate|]); rewrite walk_S in H; rewrite Hl in H; cbv zeta in H.
  - inversion H; reflexivity.
  - pose proof (FH_alt _ _ _ _ _ _ _ _ _ _ Hl HF1 HF2) as HFpc.
    destruct (mem a seen) eqn:Hm.
    + exfalso. apply mem_In in Hm. destruct (FinH_at_alt _ _ _ _ _ _ _ _ Hl HFpc) as [ma Ha].
      specialize (Hab _ _ _ Hm Ha). lia.
    + destruct (walk p fa o (a :: seen)) as [r1|] eqn:W1; [|discriminate].
      destruct (walk p fa g (a :: seen)) as [r2|] eqn:W2; [|discriminate].
      inversion H; subst. unfold combine. simpl.
      rewrite (IHHF1 _ _ _ (above_push _ _ _ _ _ _ _ _ _ h1 Hl HFpc Hab ltac:(lia)) W1).
      rewrite (IHHF2 _ _ _ (above_push _ _ _ _ _ _ _ _ _ h2 Hl HFpc Hab ltac:(lia)) W2). reflexivity.
Qed.

Definition cache_max (p : prog) (c : cache) : Prop :=
  Forall (fun kv => forall m h, FinH p (fst kv) m h -> snd (fst (snd kv)) = m) c.

Lemma walkc_on_fin : forall p pc m h, FinH p pc m h -> forall fa seen c r ls c', above p seen h -> cache_max p c ->
  walkc p fa pc seen c = Some (r, ls, c') -> snd r = m /\ cache_max p c'.
Proof.
  intros p pc m h HF. induction HF as [pc rs Hl | pc rs a o g m1 h1 m2 h2 Hl HF1 IHHF1 HF2 IHHF2]; intros fa seen c r ls c' Hab Hc H0.
  - pose proof (FH_match _ _ _ Hl) as HFpc.
    assert (Hit : forall r0 l0, lookup pc c = Some (r0, l0) -> snd r0 = count rs).
    { intros r0 l0 L. apply lookup_In in L. unfold cache_max in Hc. rewrite Forall_forall in Hc. apply (Hc _ L _ _ HFpc). }
    destruct fa.
    + rewrite walkc_O in H0. unfold cache_hit in H0. destruct (lookup pc c) as [[r0 l0]|] eqn:L; [|discriminate].
      destruct (forallb (fun l => mem l seen) l0); [|discriminate]. inversion H0; subst. split; auto. eapply Hit; eauto.
    + rewrite walkc_S in H0. unfold cache_hit in H0. destruct (lookup pc c) as [[r0 l0]|] eqn:L.
      * destruct (forallb (fun l => mem l seen) l0).
        -- inversion H0; subst. split; auto. eapply Hit; eauto.
        -- rewrite Hl in H0. cbv zeta in H0. inversion H0; subst. split; auto. constructor; auto.
           simpl. intros m' h' F'. destruct (FinH_det _ _ _ _ HFpc _ _ F'). auto.
      * rewrite Hl in H0. cbv zeta in H0. inversion H0; subst. split; auto. constructor; auto.
        simpl. intros m' h' F'. destruct (FinH_det _ _ _ _ HFpc _ _ F'). auto.
  - pose proof (FH_alt _ _ _ _ _ _ _ _ _ _ Hl HF1 HF2) as HFpc.
    assert (Hit : forall r0 l0, lookup pc c = Some (r0, l0) -> snd r0 = satadd (count rs) (N.max m1 m2)).
    { intros r0 l0 L. apply lookup_In in L. unfold cache_max in Hc. rewrite Forall_forall in Hc. apply (Hc _ L _ _ HFpc). }
    assert (Compute : forall fa', match lin p (lin_fuel p) pc with
        | None => None
        | Some (rs, e) =>
          let k := count rs in
          match e with
          | LMatch => Some ((k, k), [], store pc ((k, k), []) c)
          | LFail => Some (INF, [], store pc (INF, []) c)
          | LAlt a o g =>
            if mem a seen then Some (INF, [a], store pc (INF, [a]) c)
            else match walkc p fa' o (a :: seen) c with
                 | None => None
                 | Some (r1, l1, c1) =>
                   match walkc p fa' g (a :: seen) c1 with
                   | None => None
                   | Some (r2, l2, c2) =>
                     let r := combine k r1 r2 in
                     let ls := drop a l1 ++ drop a l2 in
                     Some (r, ls, store pc (r, ls) c2)
                   end
                 end
          end
        end = Some (r, ls, c') -> snd r = satadd (count rs) (N.max m1 m2) /\ cache_max p c').
    { intros fa' H1. rewrite Hl in H1. cbv zeta in H1.
      destruct (mem a seen) eqn:Hm.
      - exfalso. apply mem_In in Hm. destruct (FinH_at_alt _ _ _ _ _ _ _ _ Hl HFpc) as [ma Ha].
        specialize (Hab _ _ _ Hm Ha). lia.
      - destruct (walkc p fa' o (a :: seen) c) as [[[r1 l1] c1]|] eqn:W1; [|discriminate].
        destruct (walkc p fa' g (a :: seen) c1) as [[[r2 l2] c2]|] eqn:W2; [|discriminate].
        inversion H1; subst.
        destruct (IHHF1 _ _ _ _ _ _ (above_push _ _ _ _ _ _ _ _ _ h1 Hl HFpc Hab ltac:(lia)) Hc W1) as [E1 Hc1].
        destruct (IHHF2 _ _ _ _ _ _ (above_push _ _ _ _ _ _ _ _ _ h2 Hl HFpc Hab ltac:(lia)) Hc1 W2) as [E2 Hc2].
        unfold combine. simpl. rewrite E1, E2. split; auto. constructor; auto.
        simpl. intros m' h' F'. destruct (FinH_det _ _ _ _ HFpc _ _ F'). auto. }
    destruct fa.
    + rewrite walkc_O in H0. unfold cache_hit in H0. destruct (lookup pc c) as [[r0 l0]|] eqn:L; [|discriminate].
      destruct (forallb (fun l => mem l seen) l0); [|discriminate]. inversion H0; subst. split; auto. eapply Hit; eauto.
    + rewrite walkc_S in H0. unfold cache_hit in H0. destruct (lookup pc c) as [[r0 l0]|] eqn:L.
      * destruct (forallb (fun l => mem l seen) l0).
        -- inversion H0; subst. split; auto. eapply Hit; eauto.
        -- apply (Compute fa). exact H0.
      * apply (Compute fa). exact H0.
Qed.

Lemma walkc_le_snd : forall p fa entry seen c r ls c', walkc p fa entry seen c = Some (r, ls, c') ->
  Forall (fun kv => snd (fst (snd kv)) <= MAXU) c ->
  Forall (fun kv => snd (fst (snd kv)) <= MAXU) c' /\ snd r <= MAXU.
Proof.
  induction fa; intros entry seen c r ls c' H Hc.
  - rewrite walkc_O in H. unfold cache_hit in H. destruct (lookup entry c) as [[r0 l0]|] eqn:L; [|discriminate].
    destruct (forallb (fun l => mem l seen) l0); [|discriminate]. inversion H; subst. split; auto.
    apply lookup_In in L. rewrite Forall_forall in Hc. apply (Hc _ L).
  - rewrite walkc_S in H. destruct (cache_hit entry seen c) as [[r0 l0]|] eqn:CH.
    + unfold cache_hit in CH. destruct (lookup entry c) as [[r1 l1]|] eqn:L; [|discriminate].
      destruct (forallb (fun l => mem l seen) l1); [|discriminate]. inversion CH; subst. inversion H; subst. split; auto.
      apply lookup_In in L. rewrite Forall_forall in Hc. apply (Hc _ L).
    + clear CH. destruct (lin p (lin_fuel p) entry) as [[rs e]|]; [|discriminate]. cbv zeta in H.
      destruct e as [a o g| |].
      * destruct (mem a seen).
        -- inversion H; subst. simpl. split; [constructor; auto; simpl; lia | lia].
        -- destruct (walkc p fa o (a :: seen) c) as [[[r1 l1] c1]|] eqn:W1; [|discriminate].
           destruct (walkc p fa g (a :: seen) c1) as [[[r2 l2] c2]|] eqn:W2; [|discriminate].
           inversion H; subst. destruct (IHfa _ _ _ _ _ _ W1 Hc) as [Hc1 _]. destruct (IHfa _ _ _ _ _ _ W2 Hc1) as [Hc2 _].
           pose proof (combine_le (count rs) r1 r2) as [_ K]. split; auto. constructor; auto.
      * inversion H; subst. simpl. assert (count rs <= MAXU) by (rewrite count_cap; unfold cap; lia).
        split; auto. constructor; auto.
      * inversion H; subst. simpl. split; [constructor; auto; simpl; lia | lia].
Qed.

Lemma above_nil : forall p h, above p [] h.
Proof. intros p h a m' h' []. Qed.

(* the memo table changes neither bound *)
Theorem cache_transparent_max : forall p r rc,
  accepted_length p = Some r -> accepted_length_cached p = Some rc -> snd rc = snd r.
Proof.
  intros p r rc H Hc. unfold accepted_length in H. unfold accepted_length_cached in Hc.
  destruct (walkc p (alt_fuel p) (start p) [] []) as [[[r0 l] c]|] eqn:E; [|discriminate]. inversion Hc; subst r0. clear Hc.
  destruct (walk_le _ _ _ _ _ H) as [_ L].
  destruct (walkc_le_snd _ _ _ _ _ _ _ _ E) as [_ Lc]; [constructor|].
  destruct (N.eq_dec (snd r) MAXU) as [E1 | E1]; destruct (N.eq_dec (snd rc) MAXU) as [E2 | E2]; try congruence.
  - (* cached finite *)
    destruct (walkc_fin _ _ _ _ _ _ _ _ E) as [_ F]; [constructor|]. destruct F as [h F]; [lia|].
    symmetry. eapply walk_on_fin; eauto. apply above_nil.
  - destruct (walk_fin _ _ _ _ _ H) as [h F]; [lia|].
    destruct (walkc_on_fin _ _ _ _ F _ _ _ _ _ _ (above_nil p h) (Forall_nil _) E) as [K _]. exact K.
  - destruct (walk_fin _ _ _ _ _ H) as [h F]; [lia|].
    destruct (walkc_on_fin _ _ _ _ F _ _ _ _ _ _ (above_nil p h) (Forall_nil _) E) as [K _]. exact K.
Qed.

(* running out of budget never yields a claimed suffix *)
Lemma constant_suffix_b_exhausted : forall p,
  sufwalkB p (alt_fuel p) SUFFIX_BUDGET (start p) [] [] = SBudget -> constant_suffix_b p = Some [].
Proof. intros p H. unfold constant_suffix_b. rewrite H. reflexivity. Qed.

(* and what is claimed within the budget is what the walk without budget computes *)
Lemma constant_suffix_b_within : forall p s, constant_suffix_b p = Some s -> s <> [] -> constant_suffix p = Some s.
Proof.
  intros p s H Hne. unfold constant_suffix_b in H.
  destruct (sufwalkB p (alt_fuel p) SUFFIX_BUDGET (start p) [] []) as [r b'| |] eqn:E; try discriminate.
  - inversion H; subst. unfold constant_suffix. eapply sufwalkB_ok; eauto.
  - inversion H; subst. contradiction.
Qed.
