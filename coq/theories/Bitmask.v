(* Model of /repo/internal/tools/bitmask (C17).  Definitions only, no proofs.

   ConnectedBitmask  = sorted list of closed runs (min,max)         -> cbm
   LongBitmask       = slice of 64-bit words                         -> wl  (may be empty)
   ShortBitmask      = linked list of 64-bit words, head always there -> wl  (never empty)

   `uint` values are unbounded N: the model equals the code as long as no
   `uint` wraps, i.e. every bit index stays below 2^63 (the correspondence
   harness keeps operands below 2^40).  The one place where Go *does* wrap on small
   values -- `e.max--` on a run {0,0} in ConnectedBitmask.Extract -- is modelled
   explicitly by [dec64].  Word arithmetic is modelled mod 2^64 where a shift can
   overflow (Inject). *)
From Coq Require Export NArith List Bool.
Export ListNotations.
Open Scope N_scope.

Definition W64 : N := 18446744073709551616.          (* 2^64 *)
Definition dec64 (x : N) : N := if x =? 0 then W64 - 1 else x - 1.

(* ------------------------------------------------------------------ *)
(* ConnectedBitmask                                                   *)
(* ------------------------------------------------------------------ *)
Notation run := (N * N)%type (only parsing).
Notation cbm := (list (N * N)) (only parsing).

Definition c_make (mn mx : N) : cbm := [(mn, mx)].

Fixpoint c_isset (l : cbm) (b : N) : bool :=
  match l with
  | [] => false
  | (mn, mx) :: r => if b <? mn then false else if b <=? mx then true else c_isset r b
  end.

Fixpoint c_count (l : cbm) : N :=
  match l with [] => 0 | (mn, mx) :: r => (1 + mx - mn) + c_count r end.

Definition c_len (l : cbm) : N :=
  match rev l with [] => 0 | (_, mx) :: _ => mx + 1 end.

Definition c_iszero (l : cbm) : bool := match l with [] => true | _ => false end.

Fixpoint c_set (l : cbm) (b : N) : cbm :=
  match l with
  | [] => [(b, b)]
  | (mn, mx) :: r =>
      if b <? mn then
        (if b =? mn - 1 then (mn - 1, mx) :: r else (b, b) :: (mn, mx) :: r)
      else if b <=? mx then l
      else if b =? mx + 1 then
        match r with
        | [] => [(mn, mx + 1)]
        | (mn2, mx2) :: r2 => if b =? mn2 - 1 then (mn, mx2) :: r2 else (mn, mx + 1) :: r
        end
      else (mn, mx) :: c_set r b
  end.

Fixpoint c_unset (l : cbm) (b : N) : cbm :=
  match l with
  | [] => []
  | (mn, mx) :: r =>
      if b <? mn then l
      else if (b =? mn) || (b =? mx) then
        (if mn =? mx then r else if b =? mn then (mn + 1, mx) :: r else (mn, mx - 1) :: r)
      else if b <? mx then (mn, b - 1) :: (b + 1, mx) :: r
      else (mn, mx) :: c_unset r b
  end.

Definition c_flip (l : cbm) (b : N) : cbm := if c_isset l b then c_unset l b else c_set l b.

Definition run_eqb (x y : run) : bool := (fst x =? fst y) && (snd x =? snd y).
Fixpoint c_equal (a b : cbm) : bool :=
  match a, b with
  | [], [] => true
  | x :: a', y :: b' => run_eqb x y && c_equal a' b'
  | _, _ => false
  end.

(* OrCopy: [c_or_abs] is the inner `for` that swallows every following run of
   either operand that touches the run under construction; [c_or_go] is the
   outer loop.  Fuel = number of runs left + 1. *)
Fixpoint c_or_go (fuel : nat) (cur : option run) (a b : cbm) : cbm :=
  match fuel with
  | O => match cur with Some n => [n] | None => [] end
  | S f =>
      match cur with
      | None =>
          match a, b with
          | [], _ => b
          | _, [] => a
          | (amn, amx) :: ar, (bmn, bmx) :: br =>
              if amx <? bmn then c_or_go f (Some (amn, amx)) ar b
              else if bmx <? amn then c_or_go f (Some (bmn, bmx)) a br
              else c_or_go f (Some (N.min amn bmn, N.max amx bmx)) ar br
          end
      | Some (nmn, nmx) =>
          match a with
          | (amn, amx) :: ar =>
              if amn <=? nmx + 1 then c_or_go f (Some (nmn, N.max nmx amx)) ar b
              else
                match b with
                | (bmn, bmx) :: br =>
                    if bmn <=? nmx + 1 then c_or_go f (Some (nmn, N.max nmx bmx)) a br
                    else (nmn, nmx) :: c_or_go f None a b
                | [] => (nmn, nmx) :: c_or_go f None a b
                end
          | [] =>
              match b with
              | (bmn, bmx) :: br =>
                  if bmn <=? nmx + 1 then c_or_go f (Some (nmn, N.max nmx bmx)) a br
                  else (nmn, nmx) :: c_or_go f None a b
              | [] => [(nmn, nmx)]
              end
          end
      end
  end.
Definition c_or (a b : cbm) : cbm := c_or_go (2 * (length a + length b) + 2) None a b.

Fixpoint c_and_go (fuel : nat) (a b : cbm) : cbm :=
  match fuel with
  | O => []
  | S f =>
      match a, b with
      | (amn, amx) :: ar, (bmn, bmx) :: br =>
          if amx <? bmn then c_and_go f ar b
          else if bmx <? amn then c_and_go f a br
          else
            let nmn := N.max amn bmn in
            let nmx := N.min amx bmx in
            (nmn, nmx) ::
              c_and_go f (if nmx =? amx then ar else a) (if nmx =? bmx then br else b)
      | _, _ => []
      end
  end.
Definition c_and (a b : cbm) : cbm := c_and_go (length a + length b + 1) a b.

(* XorCopy: the heads of [a] and [b] are the loop-local copies `a`, `b`, which
   the Go code trims (`a.min = b.max+1`) while walking.  [c_xor_raw] lists the
   pieces in the order the Go code appends them; [c_join] is the `add` closure
   of the "fix:" commit 6a40c2d, which joins a piece with the previous run when
   they touch.  Before that commit the result was [c_xor_raw] itself. *)
Fixpoint c_xor_raw (fuel : nat) (a b : cbm) : cbm :=
  match fuel with
  | O => []
  | S f =>
      match a, b with
      | [], _ => b
      | _, [] => a
      | (amn, amx) :: ar, (bmn, bmx) :: br =>
          if amx <? bmn then (amn, amx) :: c_xor_raw f ar b
          else if bmx <? amn then (bmn, bmx) :: c_xor_raw f a br
          else
            (if amn =? bmn then []
             else if amn <? bmn then [(amn, bmn - 1)] else [(bmn, amn - 1)])
            ++ (if amx =? bmx then c_xor_raw f ar br
                else if bmx <? amx then c_xor_raw f ((bmx + 1, amx) :: ar) br
                else c_xor_raw f ar ((amx + 1, bmx) :: br))
      end
  end.
Fixpoint c_join (l : cbm) : cbm :=
  match l with
  | [] => []
  | (mn, mx) :: r =>
      match c_join r with
      | (mn2, mx2) :: r2 => if mx + 1 =? mn2 then (mn, mx2) :: r2 else (mn, mx) :: (mn2, mx2) :: r2
      | [] => [(mn, mx)]
      end
  end.
Definition c_xor_prefix (a b : cbm) : cbm := c_xor_raw (length a + length b + 1) a b.
Definition c_xor (a b : cbm) : cbm := c_join (c_xor_prefix a b).

Fixpoint c_sub_go (fuel : nat) (a b : cbm) : cbm :=
  match fuel with
  | O => []
  | S f =>
      match a with
      | [] => []
      | (amn, amx) :: ar =>
          match b with
          | [] => a
          | (bmn, bmx) :: br =>
              if bmx <? amn then c_sub_go f a br
              else if amx <? bmn then (amn, amx) :: c_sub_go f ar b
              else
                let pre := if amn <? bmn then [(amn, bmn - 1)] else [] in
                if amx <=? bmx then pre ++ c_sub_go f ar b
                else pre ++ c_sub_go f ((bmx + 1, amx) :: ar) br
          end
      end
  end.
Definition c_sub (a b : cbm) : cbm := c_sub_go (length a + length b + 1) a b.

Definition c_copy (a : cbm) : cbm := a.

(* Inject: every run reaching [b] or lying above it moves up by one (the run that
   contains [b] grows), then the bit itself is written.  The Go loop walks from
   the last run downwards and stops at the first run entirely below [b]; on a
   sorted list this is the map below. *)
Definition c_shift_up (b : N) (e : run) : run :=
  let '(mn, mx) := e in
  if mx <? b then e
  else if b <=? mn then (mn + 1, mx + 1)
  else (mn, mx + 1).
Definition c_inject (l : cbm) (b : N) (v : bool) : cbm :=
  let l' := map (c_shift_up b) l in
  if v then c_set l' b else c_unset l' b.

(* Extract walks from the last run downwards; [c_extract_rev] works on the
   reversed list (head = last run).  [wrap] = true is the code before the "fix:"
   commit b29da72 (max decremented before the empty-run test, wrapping at 0). *)
Fixpoint c_extract_rev_gen (wrap : bool) (l : cbm) (b : N) : cbm * bool :=
  match l with
  | [] => ([], false)
  | (mn, mx) :: r =>
      if mx <? b then (l, false)
      else if negb wrap && (mn =? b) && (mx =? b) then (r, true)
      else
        let mx' := if wrap then dec64 mx else mx - 1 in
        if mn <? b then ((mn, mx') :: r, true)
        else if mn =? b then ((if wrap && (mx' <? mn) then r else (mn, mx') :: r), true)
        else
          let mn' := mn - 1 in
          if b =? mn' then
            match r with
            | [] => ([(mn', mx')], false)
            | (mn2, mx2) :: r2 =>
                if mx2 + 1 =? mn' then ((mn2, mx') :: r2, false) else ((mn', mx') :: r, false)
            end
          else
            let '(r', res) := c_extract_rev_gen wrap r b in ((mn', mx') :: r', res)
  end.
Definition c_extract_rev := c_extract_rev_gen false.
Definition c_extract (l : cbm) (b : N) : cbm * bool :=
  let '(r, res) := c_extract_rev (rev l) b in (rev r, res).

(* ------------------------------------------------------------------ *)
(* word lists: LongBitmask and ShortBitmask                           *)
(* ------------------------------------------------------------------ *)
Notation wl := (list N) (only parsing).

Definition w_get (l : wl) (i : nat) : N := nth i l 0.
Definition w_idx (b : N) : nat := N.to_nat (b / 64).
Definition w_bit (b : N) : N := b mod 64.

Definition w_isset (l : wl) (b : N) : bool :=
  if Nat.ltb (w_idx b) (length l) then N.testbit (w_get l (w_idx b)) (w_bit b) else false.

Fixpoint pos_popcount (p : positive) : N :=
  match p with xH => 1 | xO q => pos_popcount q | xI q => 1 + pos_popcount q end.
Definition popcount (n : N) : N := match n with N0 => 0 | Npos p => pos_popcount p end.
Fixpoint w_count (l : wl) : N := match l with [] => 0 | w :: r => popcount w + w_count r end.

(* Len: index of the highest set bit + 1 *)
Fixpoint w_len_from (l : wl) (base : N) : N :=
  match l with
  | [] => 0
  | w :: r => let hi := w_len_from r (base + 64) in
              if hi =? 0 then (if w =? 0 then 0 else base + N.size w) else hi
  end.
Definition w_len (l : wl) : N := w_len_from l 0.

Fixpoint w_iszero (l : wl) : bool :=
  match l with [] => true | w :: r => (w =? 0) && w_iszero r end.

Fixpoint w_update (l : wl) (i : nat) (f : N -> N) : wl :=
  match l, i with
  | [], _ => []
  | w :: r, O => f w :: r
  | w :: r, S i' => w :: w_update r i' f
  end.
Definition w_extend (l : wl) (n : nat) : wl := l ++ repeat 0 (n - length l).

Definition w_set (l : wl) (b : N) : wl :=
  w_update (w_extend l (S (w_idx b))) (w_idx b) (fun w => N.lor w (N.shiftl 1 (w_bit b))).
Definition w_flip (l : wl) (b : N) : wl :=
  w_update (w_extend l (S (w_idx b))) (w_idx b) (fun w => N.lxor w (N.shiftl 1 (w_bit b))).
(* LongBitmask.Unset leaves a short mask alone, ShortBitmask.Unset allocates *)
Definition l_unset (l : wl) (b : N) : wl :=
  w_update l (w_idx b) (fun w => N.ldiff w (N.shiftl 1 (w_bit b))).
Definition s_unset (l : wl) (b : N) : wl :=
  w_update (w_extend l (S (w_idx b))) (w_idx b) (fun w => N.ldiff w (N.shiftl 1 (w_bit b))).

Fixpoint w_equal (a b : wl) : bool :=
  match a, b with
  | [], _ => w_iszero b
  | _, [] => w_iszero a
  | x :: a', y :: b' => (x =? y) && w_equal a' b'
  end.
(* ShortBitmask.Equal compares the head words first even if one side has no tail;
   on non-empty lists it is [w_equal]. *)

Fixpoint w_or (a b : wl) : wl :=
  match a, b with
  | [], _ => b
  | _, [] => a
  | x :: a', y :: b' => N.lor x y :: w_or a' b'
  end.
Fixpoint w_xor (a b : wl) : wl :=
  match a, b with
  | [], _ => b
  | _, [] => a
  | x :: a', y :: b' => N.lxor x y :: w_xor a' b'
  end.
Fixpoint w_and (a b : wl) : wl :=
  match a, b with
  | x :: a', y :: b' => N.land x y :: w_and a' b'
  | _, _ => []
  end.
Fixpoint w_sub (a b : wl) : wl :=
  match a, b with
  | [], _ => []
  | _, [] => a
  | x :: a', y :: b' => N.ldiff x y :: w_sub a' b'
  end.

(* Shrink: LongBitmask drops every trailing zero word; ShortBitmask keeps its head *)
Fixpoint l_shrink (l : wl) : wl :=
  match l with
  | [] => []
  | w :: r => match l_shrink r with
              | [] => if w =? 0 then [] else [w]
              | r' => w :: r'
              end
  end.
Definition s_shrink (l : wl) : wl :=
  match l with [] => [] | w :: r => w :: l_shrink r end.

(* Next: least set bit >= b (LongBitmask.Next / TrailingZerosFrom) *)
Fixpoint pos_ctz (p : positive) : N :=
  match p with xO q => 1 + pos_ctz q | _ => 0 end.
Definition ctz (n : N) : N := match n with N0 => 0 | Npos p => pos_ctz p end.
Fixpoint w_next_from (l : wl) (base : N) : option N :=
  match l with
  | [] => None
  | w :: r => if w =? 0 then w_next_from r (base + 64) else Some (base + ctz w)
  end.
Definition l_next (l : wl) (b : N) : option N :=
  if Nat.ltb (w_idx b) (length l) then
    match skipn (w_idx b) l with
    | [] => None
    | w :: r =>
        let w' := N.shiftl (N.shiftr w (w_bit b)) (w_bit b) in
        w_next_from (w' :: r) (64 * (b / 64))
    end
  else None.

(* Inject: insert a bit at position [b], every higher bit moves up by one *)
Definition w_inject_word (w lbit : N) (v : bool) : N :=
  let low := N.ones lbit in
  let w' := N.lor (N.land w low) ((N.shiftl (N.ldiff w low) 1) mod W64) in
  if v then N.lor w' (N.shiftl 1 lbit) else w'.
Fixpoint w_inject_words (ws : wl) (lbit : N) (v : bool) : wl :=
  match ws with
  | [] => if v then [N.shiftl 1 lbit] else []
  | w :: r => w_inject_word w lbit v :: w_inject_words r 0 (N.shiftr w 63 =? 1)
  end.
Definition w_inject (l : wl) (b : N) (v : bool) : wl :=
  if Nat.ltb (w_idx b) (length l) then
    firstn (w_idx b) l ++ w_inject_words (skipn (w_idx b) l) (w_bit b) v
  else if v then w_set l b else l.

(* Extract (ShortBitmask only): remove bit [b], higher bits move down *)
Definition w_extract_word (w lbit : N) (carry_in : bool) : N :=
  let low := N.ones lbit in
  let w' := N.lor (N.land w low) (N.ldiff (N.shiftr w 1) low) in
  if carry_in then N.lor w' (N.shiftl 1 63) else w'.
Fixpoint w_extract_words (ws : wl) (lbit : N) : wl * bool :=
  match ws with
  | [] => ([], false)
  | w :: r =>
      let res := N.testbit w lbit in
      let '(r', c) := w_extract_words r 0 in
      (w_extract_word w lbit c :: r', res)
  end.
Definition s_extract (l : wl) (b : N) : wl * bool :=
  if Nat.ltb (w_idx b) (length l) then
    let '(t, res) := w_extract_words (skipn (w_idx b) l) (w_bit b) in
    (firstn (w_idx b) l ++ t, res)
  else (l, false).

(* ------------------------------------------------------------------ *)
(* The set model and the abstraction functions                        *)
(* ------------------------------------------------------------------ *)
Notation bset := (N -> bool) (only parsing).
Definition mem_c (l : cbm) : bset :=
  fun i => existsb (fun e => (fst e <=? i) && (i <=? snd e)) l.
Definition mem_w (l : wl) : bset :=
  fun i => N.testbit (w_get l (w_idx i)) (w_bit i).

Definition set_set (s : bset) (b : N) : bset := fun i => (i =? b) || s i.
Definition set_unset (s : bset) (b : N) : bset := fun i => negb (i =? b) && s i.
Definition set_flip (s : bset) (b : N) : bset := fun i => if i =? b then negb (s i) else s i.
Definition set_or (s t : bset) : bset := fun i => s i || t i.
Definition set_and (s t : bset) : bset := fun i => s i && t i.
Definition set_xor (s t : bset) : bset := fun i => xorb (s i) (t i).
Definition set_sub (s t : bset) : bset := fun i => s i && negb (t i).
Definition set_inject (s : bset) (b : N) (v : bool) : bset :=
  fun i => if i <? b then s i else if i =? b then v else s (i - 1).
Definition set_extract (s : bset) (b : N) : bset :=
  fun i => if i <? b then s i else s (i + 1).

(* representation invariants *)
Fixpoint wfc (lo : N) (l : cbm) : Prop :=
  match l with
  | [] => True
  | (mn, mx) :: r => lo <= mn /\ mn <= mx /\ wfc (mx + 2) r
  end.
Definition wf_c (l : cbm) : Prop := wfc 0 l.
Definition wf_w (l : wl) : Prop := Forall (fun w => w < W64) l.

(* ------------------------------------------------------------------ *)
(* Operation histories over a register file (what the harness runs)   *)
(* ------------------------------------------------------------------ *)
Inductive bop :=
  | OSet (r : nat) (b : N) | OUnset (r : nat) (b : N) | OFlip (r : nat) (b : N)
  | OOr (d a c : nat) | OAnd (d a c : nat) | OXor (d a c : nat) | OSub (d a c : nat)
      (* d := a op c: the in-place forms (d = a) and the ...Copy forms *)
  | OCopy (d a : nat) | OShrink (r : nat)
  | OInject (r : nat) (b : N) (v : bool) | OExtract (r : nat) (b : N).

Definition upd {A} (f : nat -> A) (d : nat) (x : A) : nat -> A :=
  fun r => if Nat.eqb r d then x else f r.

Record bstate := { rc : nat -> list (N * N); rs : nat -> list N; rl : nat -> list N }.
Definition binit : bstate := {| rc := fun _ => []; rs := fun _ => [0]; rl := fun _ => [] |}.

Definition bstep (st : bstate) (o : bop) : bstate :=
  match o with
  | OSet r b => {| rc := upd (rc st) r (c_set (rc st r) b); rs := upd (rs st) r (w_set (rs st r) b);
                   rl := upd (rl st) r (w_set (rl st r) b) |}
  | OUnset r b => {| rc := upd (rc st) r (c_unset (rc st r) b); rs := upd (rs st) r (s_unset (rs st r) b);
                     rl := upd (rl st) r (l_unset (rl st r) b) |}
  | OFlip r b => {| rc := upd (rc st) r (c_flip (rc st r) b); rs := upd (rs st) r (w_flip (rs st r) b);
                    rl := upd (rl st) r (w_flip (rl st r) b) |}
  | OOr d a c => {| rc := upd (rc st) d (c_or (rc st a) (rc st c)); rs := upd (rs st) d (w_or (rs st a) (rs st c));
                    rl := upd (rl st) d (w_or (rl st a) (rl st c)) |}
  | OAnd d a c => {| rc := upd (rc st) d (c_and (rc st a) (rc st c)); rs := upd (rs st) d (w_and (rs st a) (rs st c));
                     rl := upd (rl st) d (w_and (rl st a) (rl st c)) |}
  | OXor d a c => {| rc := upd (rc st) d (c_xor (rc st a) (rc st c)); rs := upd (rs st) d (w_xor (rs st a) (rs st c));
                     rl := upd (rl st) d (w_xor (rl st a) (rl st c)) |}
  | OSub d a c => {| rc := upd (rc st) d (c_sub (rc st a) (rc st c)); rs := upd (rs st) d (w_sub (rs st a) (rs st c));
                     rl := upd (rl st) d (w_sub (rl st a) (rl st c)) |}
  | OCopy d a => {| rc := upd (rc st) d (c_copy (rc st a)); rs := upd (rs st) d (rs st a);
                    rl := upd (rl st) d (rl st a) |}
  | OShrink r => {| rc := rc st; rs := upd (rs st) r (s_shrink (rs st r));
                    rl := upd (rl st) r (l_shrink (rl st r)) |}
  | OInject r b v => {| rc := upd (rc st) r (c_inject (rc st r) b v); rs := upd (rs st) r (w_inject (rs st r) b v);
                        rl := upd (rl st) r (w_inject (rl st r) b v) |}
  | OExtract r b =>
      (* LongBitmask has no Extract: the harness rebuilds it from the ShortBitmask *)
      {| rc := upd (rc st) r (fst (c_extract (rc st r) b)); rs := upd (rs st) r (fst (s_extract (rs st r) b));
         rl := upd (rl st) r (fst (s_extract (rs st r) b)) |}
  end.

(* the same history on plain integer sets *)
Definition sstep (sp : nat -> N -> bool) (o : bop) : nat -> N -> bool :=
  match o with
  | OSet r b => upd sp r (set_set (sp r) b)
  | OUnset r b => upd sp r (set_unset (sp r) b)
  | OFlip r b => upd sp r (set_flip (sp r) b)
  | OOr d a c => upd sp d (set_or (sp a) (sp c))
  | OAnd d a c => upd sp d (set_and (sp a) (sp c))
  | OXor d a c => upd sp d (set_xor (sp a) (sp c))
  | OSub d a c => upd sp d (set_sub (sp a) (sp c))
  | OCopy d a => upd sp d (sp a)
  | OShrink r => sp
  | OInject r b v => upd sp r (set_inject (sp r) b v)
  | OExtract r b => upd sp r (set_extract (sp r) b)
  end.
Definition sinit : nat -> N -> bool := fun _ _ => false.

Fixpoint count_upto (s : N -> bool) (n : nat) : N :=
  match n with O => 0 | S k => (if s (N.of_nat k) then 1 else 0) + count_upto s k end.
