(* TagsC16P.v -- C16: the converter process pool (internal/index/converters: reserveProcess / releaseProcess / Data).
   A converter process answers one request after the other on a pipe.  Converter.Data reads chunks up to the
   terminator line and then the metadata line.  When a line is not acceptable (invalid direction, bad base64, bad time,
   ...) Data returns an error; the rest of that answer is still unread in the pipe.  The rule that keeps outputs and
   requests together: such a process is killed (releaseProcess with epoch -1), only a process whose answer was read
   completely goes back to the idle pool.  With that rule every idle process has an empty pipe and every successful
   answer is the converter's answer for the requested stream. *)
From Coq Require Import List NArith Bool Lia.
Import ListNotations.
Open Scope N_scope.

Inductive line := Chunk (valid : bool) (content : N) | Term | Meta.

(* Data: read one answer from the pipe; (None, _) = error *)
Fixpoint read (buf : list line) (acc : list N) : option (list N) * list line :=
  match buf with
  | Chunk true c :: r => read r (acc ++ [c])
  | Chunk false _ :: r => (None, r)        (* invalid direction ... : error, the rest of the answer stays unread *)
  | Meta :: r => (None, r)                 (* "{}" where a chunk is expected: empty direction *)
  | Term :: _ :: r => (Some acc, r)        (* terminator, then the metadata line *)
  | Term :: [] => (None, [])               (* the process exited *)
  | [] => (None, [])
  end.

(* the idle pool is a stack (LIFO) of processes = their unread pipe content; no idle process: a fresh one is started *)
Definition pool := list (list line).

Definition request (kill : bool) (ans : list line) (p : pool) : option (list N) * pool :=
  let '(buf, rest) := match p with b :: r => (b, r) | [] => ([], []) end in
  match read (buf ++ ans) [] with
  | (Some out, lo) => (Some out, lo :: rest)
  | (None, lo) => (None, if kill then rest else lo :: rest)
  end.

(* a converter script answers with chunks (some possibly not acceptable), the terminator and the metadata line *)
Definition answer (cs : list (bool * N)) : list line := map (fun c => Chunk (fst c) (snd c)) cs ++ [Term; Meta].
Definition expected (cs : list (bool * N)) : option (list N) :=
  if forallb fst cs then Some (map snd cs) else None.

Definition clean (p : pool) : Prop := Forall (fun b => b = []) p.

Lemma read_answer cs : forall acc tail,
  read (answer cs ++ tail) acc =
  if forallb fst cs then (Some (acc ++ map snd cs), tail) else (None, snd (read (answer cs ++ tail) acc)).
Proof.
  induction cs as [|[v c] cs IH]; intros acc tail; simpl.
  - rewrite app_nil_r. reflexivity.
  - destruct v; simpl.
    + rewrite IH. destruct (forallb fst cs); [rewrite <- app_assoc; reflexivity|reflexivity].
    + reflexivity.
Qed.

Lemma read_answer_none cs acc tail : forallb fst cs = false -> fst (read (answer cs ++ tail) acc) = None.
Proof.
  revert acc. induction cs as [|[v c] cs IH]; intros acc H; simpl in *; [discriminate|].
  destruct v; simpl in *; [apply IH; exact H|reflexivity].
Qed.

(* one request on a clean pool, with the kill rule: the result is the converter's answer for THIS request and the pool
   stays clean *)
Theorem request_clean cs p : clean p ->
  fst (request true (answer cs) p) = expected cs /\ clean (snd (request true (answer cs) p)).
Proof.
  intros C. unfold request, expected.
  assert (exists rest, (match p with b :: r => (b, r) | [] => ([], []) end) = ([], rest) /\ clean rest) as (rest & E & CR).
  { destruct p as [|b r]; [exists []; split; [reflexivity|constructor]|].
    inversion C; subst. exists r. split; [reflexivity|assumption]. }
  rewrite E. simpl. pose proof (read_answer cs [] []) as R. rewrite app_nil_r in R.
  destruct (forallb fst cs) eqn:V.
  - rewrite R. simpl. split; [reflexivity|constructor; [reflexivity|exact CR]].
  - pose proof (read_answer_none cs [] [] V) as N0. rewrite app_nil_r in N0.
    destruct (read (answer cs) []) as [[out|] lo]; simpl in *; [discriminate|]. split; [reflexivity|exact CR].
Qed.

(* any sequence of requests *)
Fixpoint requests (kill : bool) (l : list (list (bool * N))) (p : pool) : list (option (list N)) :=
  match l with
  | [] => []
  | cs :: r => let '(o, p') := request kill (answer cs) p in o :: requests kill r p'
  end.

Theorem requests_kill_rule l : forall p, clean p -> requests true l p = map expected l.
Proof.
  induction l as [|cs l IH]; intros p C; simpl; [reflexivity|].
  destruct (request_clean cs p C) as (E & C'). destruct (request true (answer cs) p) as [o p']. simpl in *.
  rewrite E, (IH p' C'). reflexivity.
Qed.

(* without the rule (the process goes back to the idle pool after an error): stream 1 is shown the leftover of
   stream 0's answer *)
Definition w_bad : list (bool * N) := [(false, 9); (true, 10)].
Definition w_good : list (bool * N) := [(true, 11)].

Theorem release_after_error_refuted :
  requests false [w_bad; w_good] [] = [None; Some [10]] /\ expected w_good = Some [11].
Proof. split; reflexivity. Qed.

Example kill_rule_on_witness : requests true [w_bad; w_good] [] = [None; Some [11]].
Proof. reflexivity. Qed.

(* ---------------------------------------------------------------- restarts (Converter.Reset / ResetConverter)
   Reset increments the converter's epoch, stops the idle processes and empties the output cache.  A conversion
   remembers the epoch at which it reserved its process; when it has read the whole answer, releaseProcess compares the
   epochs: a process of an older epoch is stopped and Converter.Data returns an error, so the answer is NOT stored.
   Rule: an answer of an older epoch is never stored.  The store keeps (stream, epoch of the answer, output). *)
Record cstate := mkC { epoch : N; idle : pool; store : list (N * N * list N) }.

Definition reset (s : cstate) : cstate := mkC (epoch s + 1) [] [].

Fixpoint resets (k : nat) (s : cstate) : cstate := match k with O => s | S k' => resets k' (reset s) end.

(* one conversion of stream id: reserve (pop) at the current epoch, k restarts happen while the converter answers, the
   answer is read, the process is released; check = the result of releaseProcess is honoured *)
Definition convert (check : bool) (id : N) (ans : list line) (k : nat) (s : cstate) : cstate :=
  let e0 := epoch s in
  let '(buf, rest) := match idle s with b :: r => (b, r) | [] => ([], []) end in
  let s1 := resets k (mkC (epoch s) rest (store s)) in
  match read (buf ++ ans) [] with
  | (Some out, lo) =>
      if e0 =? epoch s1 then mkC (epoch s1) (lo :: idle s1) ((id, e0, out) :: store s1)
      else if check then s1                                       (* stopped, Data returns an error: nothing stored *)
      else mkC (epoch s1) (idle s1) ((id, e0, out) :: store s1)   (* seeded C16-r6a-n2: stored all the same *)
  | (None, _) => s1
  end.

Definition store_current (s : cstate) : Prop := Forall (fun e => snd (fst e) = epoch s) (store s).

Lemma resets_store k : forall s, store_current s -> store_current (resets k s).
Proof.
  induction k as [|k IH]; intros s H; simpl; [exact H|]. apply IH. unfold store_current, reset. simpl. constructor.
Qed.

Lemma resets_epoch_ge k : forall s, epoch s <= epoch (resets k s).
Proof. induction k as [|k IH]; intros s; simpl; [lia|]. specialize (IH (reset s)). simpl in IH. lia. Qed.

(* every stored answer belongs to the current epoch: an answer of an older epoch is never stored *)
Theorem convert_store_current id ans k s : store_current s -> store_current (convert true id ans k s).
Proof.
  intros H. unfold convert.
  destruct (match idle s with b :: r => (b, r) | [] => ([], []) end) as [buf rest].
  assert (store_current (resets k (mkC (epoch s) rest (store s)))) as H1 by (apply resets_store; exact H).
  destruct (read (buf ++ ans) []) as [[out|] lo]; [|exact H1].
  destruct (N.eqb_spec (epoch s) (epoch (resets k (mkC (epoch s) rest (store s))))) as [E|E]; [|exact H1].
  unfold store_current. simpl. constructor; [simpl; exact E|exact H1].
Qed.

(* the seeded behaviour: one restart during the conversion and the old answer is in the store of the new epoch *)
Theorem ignore_release_result_refuted :
  store (convert false 0 (answer w_good) 1 (mkC 0 [] [])) = [(0, 0, [11])] /\
  epoch (convert false 0 (answer w_good) 1 (mkC 0 [] [])) = 1.
Proof. split; reflexivity. Qed.

(* ---------------------------------------------------------------- process slots (MAX_PROCESS_COUNT = 8)
   started processes = idle + busy <= 8.  reserveProcess takes an idle process or starts one when fewer than 8 are
   started, otherwise it waits.  Every conversion gives its slot back whatever happens: the answer was read completely
   (released to the idle pool), or an error in the send loop / in the read loop after sending (killed). *)
Record slots := mkS { s_idle : nat; s_busy : nat }.
Definition MAXP : nat := 8.
Definition started (s : slots) : nat := s_idle s + s_busy s.
Definition can_reserve (s : slots) : Prop := (0 < s_idle s \/ started s < MAXP)%nat.

Definition reserve (s : slots) : slots :=
  match s_idle s with
  | S i => mkS i (S (s_busy s))
  | O => mkS O (S (s_busy s))
  end.

Inductive outcome := AnswerRead | ErrorWhileSending | ErrorWhileReading.

(* leak = the seeded change C09-r8d-n1: an error in the read loop after sending neither releases nor kills the process *)
Definition finish (leak : bool) (o : outcome) (s : slots) : slots :=
  match o with
  | AnswerRead => mkS (S (s_idle s)) (pred (s_busy s))
  | ErrorWhileSending => mkS (s_idle s) (pred (s_busy s))
  | ErrorWhileReading => if leak then s else mkS (s_idle s) (pred (s_busy s))
  end.

Definition conversion (leak : bool) (o : outcome) (s : slots) : slots := finish leak o (reserve s).

(* every conversion, successful or failed at any phase, returns or kills its process *)
Theorem conversion_returns_its_slot o s : can_reserve s -> (started s <= MAXP)%nat ->
  s_busy (conversion false o s) = s_busy s /\ (started (conversion false o s) <= MAXP)%nat.
Proof.
  intros C L. unfold conversion, finish, reserve, can_reserve, started, MAXP in *.
  destruct s as [i b]. cbn [s_idle s_busy] in *. destruct i as [|i]; destruct o; simpl; (split; [reflexivity|]); lia.
Qed.

(* so conversions that run one after the other never find the pool exhausted *)
Theorem sequential_conversions_never_block l : forall s, s_busy s = O -> (started s <= MAXP)%nat ->
  let s' := fold_left (fun st o => conversion false o st) l s in
  s_busy s' = O /\ (started s' <= MAXP)%nat /\ can_reserve s'.
Proof.
  induction l as [|o l IH]; intros s B L; simpl.
  - split; [exact B|split; [exact L|]]. unfold can_reserve, started, MAXP in *. rewrite B in *. destruct (s_idle s); lia.
  - assert (can_reserve s) as C by (unfold can_reserve, started, MAXP in *; rewrite B in *; destruct (s_idle s); lia).
    destruct (conversion_returns_its_slot o s C L) as (B' & L'). apply IH; [rewrite B'; exact B|exact L'].
Qed.

(* with the leak eight malformed answers use up all slots: nothing can be reserved any more (the converter job hangs) *)
Theorem leaked_slots_exhaust_the_pool_refuted :
  let s := fold_left (fun st o => conversion true o st) (repeat ErrorWhileReading 8) (mkS 0 0) in
  s_busy s = 8%nat /\ s_idle s = O /\ ~ can_reserve s.
Proof. simpl. split; [reflexivity|split; [reflexivity|]]. unfold can_reserve, started, MAXP. simpl. lia. Qed.
