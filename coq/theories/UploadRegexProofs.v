(* C19 -- the derivative matcher of Upload.v decides the usual language of a regular expression
   (over bytes; `.` excludes newline as in Go's default flags; the expression is anchored, as chi
   anchors route regexps). *)
From Coq Require Import List NArith Bool Lia.
Import ListNotations.
Require Import Pk.Upload.
Open Scope N_scope.
Local Arguments N.eqb : simpl never.

Inductive lang : re -> str -> Prop :=
| LEps : lang Eps []
| LChr : forall c, lang (Chr c) [c]
| LAny : forall c, c <> NL -> lang AnyNoNL [c]
| LNotIn : forall l c, memb c l = false -> lang (NotIn l) [c]
| LOneOf : forall l c, memb c l = true -> lang (OneOf l) [c]
| LSeq : forall a b s1 s2, lang a s1 -> lang b s2 -> lang (Seq a b) (s1 ++ s2)
| LAltL : forall a b s, lang a s -> lang (Alt a b) s
| LAltR : forall a b s, lang b s -> lang (Alt a b) s
| LStar0 : forall a, lang (Star a) []
| LStarS : forall a s1 s2, lang a s1 -> lang (Star a) s2 -> lang (Star a) (s1 ++ s2).

Lemma nullable_spec : forall r, nullable r = true <-> lang r [].
Proof.
  induction r; simpl.
  - split; intro H. discriminate. inversion H.
  - split; intro H. constructor. reflexivity.
  - split; intro H. discriminate. inversion H.
  - split; intro H. discriminate. inversion H.
  - split; intro H. discriminate. inversion H.
  - split; intro H. discriminate. inversion H.
  - rewrite andb_true_iff, IHr1, IHr2. split.
    + intros [H1 H2]. change (@nil N) with (@nil N ++ []). constructor; auto.
    + intro H. inversion H; subst. destruct s1; simpl in *; try discriminate. subst. auto.
  - rewrite orb_true_iff, IHr1, IHr2. split.
    + intros [H | H]; [apply LAltL | apply LAltR]; auto.
    + intro H. inversion H; subst; auto.
  - split; intro H. constructor. reflexivity.
Qed.

Lemma lang_empty : forall s, ~ lang Empty s.
Proof. intros s H. inversion H. Qed.

Lemma lang_eps : forall s, lang Eps s <-> s = [].
Proof. intro s. split; intro H. inversion H; auto. subst. constructor. Qed.

Lemma lang_seq : forall a b s, lang (Seq a b) s <-> exists s1 s2, s = s1 ++ s2 /\ lang a s1 /\ lang b s2.
Proof.
  intros a b s. split.
  - intro H. inversion H; subst. eauto.
  - intros [s1 [s2 [E [H1 H2]]]]. subst. constructor; auto.
Qed.

Lemma lang_alt : forall a b s, lang (Alt a b) s <-> lang a s \/ lang b s.
Proof.
  intros a b s. split.
  - intro H. inversion H; subst; auto.
  - intros [H | H]; [apply LAltL | apply LAltR]; auto.
Qed.

Lemma mkSeq_lang : forall a b s, lang (mkSeq a b) s <-> lang (Seq a b) s.
Proof.
  intros a b s. rewrite lang_seq.
  assert (E1 : forall x, (exists s1 s2, s = s1 ++ s2 /\ lang Empty s1 /\ lang x s2) <-> False).
  { intro x. split; [intros [s1 [s2 [_ [H _]]]]; inversion H | tauto]. }
  assert (E2 : forall x, (exists s1 s2, s = s1 ++ s2 /\ lang x s1 /\ lang Empty s2) <-> False).
  { intro x. split; [intros [s1 [s2 [_ [_ H]]]]; inversion H | tauto]. }
  assert (E3 : forall x, (exists s1 s2, s = s1 ++ s2 /\ lang Eps s1 /\ lang x s2) <-> lang x s).
  { intro x. split.
    - intros [s1 [s2 [E [H1 H2]]]]. apply lang_eps in H1. subst. exact H2.
    - intro H. exists [], s. repeat split; auto. constructor. }
  assert (F : lang Empty s <-> False) by (split; [apply lang_empty | tauto]).
  destruct a; simpl;
    try (rewrite E1; exact F);
    try (destruct b; simpl; try (rewrite E2; exact F); try (rewrite E3; reflexivity); apply lang_seq).
Qed.

Lemma mkAlt_lang : forall a b s, lang (mkAlt a b) s <-> lang (Alt a b) s.
Proof.
  intros a b s. rewrite lang_alt.
  assert (F : lang Empty s <-> False) by (split; [apply lang_empty | tauto]).
  destruct a; simpl; try (rewrite F; tauto);
    destruct b; simpl; try (rewrite F; tauto); apply lang_alt.
Qed.

Lemma star_cons : forall a w, lang (Star a) w -> forall c s, w = c :: s ->
  exists s1 s2, s = s1 ++ s2 /\ lang a (c :: s1) /\ lang (Star a) s2.
Proof.
  intros a w H. remember (Star a) as r eqn:ER. induction H; try discriminate; intros c s E.
  inversion ER; subst. destruct s1 as [|x s1'].
  - simpl in E. apply IHlang2; auto.
  - simpl in E. inversion E; subst. exists s1', s2. auto.
Qed.

Lemma deriv_spec : forall r x s, lang (deriv x r) s <-> lang r (x :: s).
Proof.
  induction r; intros x s; simpl.
  - split; intro H; inversion H.
  - split; intro H; inversion H.
  - destruct (N.eqb_spec x c) as [E | E].
    + subst. rewrite lang_eps. split; intro H. subst. constructor. inversion H; auto.
    + split; intro H. inversion H. inversion H; subst. contradiction.
  - destruct (N.eqb_spec x NL) as [E | E].
    + split; intro H. inversion H. inversion H; subst. contradiction.
    + rewrite lang_eps. split; intro H. subst. constructor; auto. inversion H; auto.
  - destruct (memb x l) eqn:M.
    + split; intro H. inversion H. inversion H; subst. congruence.
    + rewrite lang_eps. split; intro H. subst. constructor; auto. inversion H; auto.
  - destruct (memb x l) eqn:M.
    + rewrite lang_eps. split; intro H. subst. constructor; auto. inversion H; auto.
    + split; intro H. inversion H. inversion H; subst. congruence.
  - (* Seq *)
    assert (S1 : lang (mkSeq (deriv x r1) r2) s <-> exists s1 s2, s = s1 ++ s2 /\ lang r1 (x :: s1) /\ lang r2 s2).
    { rewrite mkSeq_lang, lang_seq. split; intros [s1 [s2 [E [H1 H2]]]]; exists s1, s2; repeat split; auto; apply IHr1; auto. }
    assert (S2 : lang (Seq r1 r2) (x :: s) <->
                 (exists s1 s2, s = s1 ++ s2 /\ lang r1 (x :: s1) /\ lang r2 s2) \/ (lang r1 [] /\ lang r2 (x :: s))).
    { rewrite lang_seq. split.
      - intros [t1 [t2 [E [H1 H2]]]]. destruct t1 as [|y t1'].
        + simpl in E. subst. right. auto.
        + simpl in E. inversion E; subst. left. exists t1', t2. auto.
      - intros [[s1 [s2 [E [H1 H2]]]] | [H1 H2]].
        + exists (x :: s1), s2. subst. auto.
        + exists [], (x :: s). auto. }
    destruct (nullable r1) eqn:NU.
    + rewrite mkAlt_lang, lang_alt, S1, S2, IHr2. apply nullable_spec in NU. tauto.
    + rewrite S1, S2. assert (NN : ~ lang r1 []).
      { intro H. apply nullable_spec in H. congruence. } tauto.
  - rewrite mkAlt_lang. repeat rewrite lang_alt. rewrite IHr1, IHr2. tauto.
  - (* Star *)
    rewrite mkSeq_lang, lang_seq. split.
    + intros [s1 [s2 [E [H1 H2]]]]. subst. apply IHr in H1.
      change (x :: s1 ++ s2) with ((x :: s1) ++ s2). constructor; auto.
    + intro H. destruct (star_cons _ _ H x s eq_refl) as [s1 [s2 [E [H1 H2]]]].
      exists s1, s2. repeat split; auto. apply IHr. auto.
Qed.

(* the matcher decides the language, for every expression and every byte string *)
Theorem re_match_spec : forall s r, re_match r s = true <-> lang r s.
Proof.
  unfold re_match. induction s as [|c s IH]; intro r; simpl.
  - apply nullable_spec.
  - rewrite IH. apply deriv_spec.
Qed.

(* derived forms of the translator *)
Lemma lang_plus : forall a s, lang (Plus a) s <-> exists s1 s2, s = s1 ++ s2 /\ lang a s1 /\ lang (Star a) s2.
Proof. intros. unfold Plus. apply lang_seq. Qed.

Lemma lang_opt : forall a s, lang (Opt a) s <-> lang a s \/ s = [].
Proof. intros. unfold Opt. rewrite lang_alt, lang_eps. tauto. Qed.

Lemma lang_lit : forall l s, lang (Lit l) s <-> s = l.
Proof.
  induction l as [|c l IH]; intro s; simpl.
  - apply lang_eps.
  - destruct l as [|d l'].
    + split; intro H. inversion H; auto. subst. constructor.
    + rewrite lang_seq. split.
      * intros [s1 [s2 [E [H1 H2]]]]. inversion H1; subst. apply IH in H2. subst. reflexivity.
      * intro E. subst. exists [c], (d :: l'). repeat split. constructor. apply IH. reflexivity.
Qed.
