(* C17: every operation history keeps the three representations equal to the set model. *)
From Coq Require Import NArith Arith List Bool Lia ZifyBool ZifyN ZifyNat.
Require Import Pk.Bitmask Pk.BitmaskProofs Pk.BitmaskWordProofs.
Open Scope N_scope.

Definition rep_ok (c : list (N * N)) (s l : list N) (sp : N -> bool) : Prop :=
  wf_c c /\ wfs s /\ wfs l /\ s <> [] /\
  (forall i, mem_c c i = sp i) /\ (forall i, mem_w s i = sp i) /\ (forall i, mem_w l i = sp i).

Definition binv (st : bstate) (sp : nat -> N -> bool) : Prop :=
  forall r, rep_ok (rc st r) (rs st r) (rl st r) (sp r).

Lemma binv_init : binv binit sinit.
Proof.
  intro r. unfold rep_ok, binit, sinit; cbn. repeat split; try constructor; try discriminate.
  - apply small_0.
  - constructor.
  - intro i. unfold mem_w, w_get. destruct (w_idx i) as [|[|k]]; apply N.bits_0.
  - intro i. apply mem_w_nil.
Qed.

Lemma upd_same {A} (f : nat -> A) d x : upd f d x d = x.
Proof. unfold upd. rewrite Nat.eqb_refl. reflexivity. Qed.
Lemma upd_other {A} (f : nat -> A) d x r : r <> d -> upd f d x r = f r.
Proof. unfold upd. intro H. apply Nat.eqb_neq in H. rewrite H. reflexivity. Qed.

(* one register changes, the others keep their representation *)
Lemma binv_upd st sp d c s l t :
  binv st sp -> rep_ok c s l t ->
  binv {| rc := upd (rc st) d c; rs := upd (rs st) d s; rl := upd (rl st) d l |} (upd sp d t).
Proof.
  intros I R r. cbn [rc rs rl]. destruct (Nat.eq_dec r d) as [->|Hne].
  - rewrite !upd_same. exact R.
  - rewrite !upd_other by exact Hne. apply I.
Qed.

Lemma nonempty_update l i f : l <> [] -> w_update l i f <> [].
Proof. destruct l, i; cbn; intros; try discriminate; contradiction. Qed.
Lemma nonempty_extend l n : l <> [] -> w_extend l n <> [].
Proof. destruct l; cbn; intros; [contradiction|discriminate]. Qed.

Lemma rep_set c s l sp b : rep_ok c s l sp -> rep_ok (c_set c b) (w_set s b) (w_set l b) (set_set sp b).
Proof.
  intros (Hc & Hs & Hl & Hn & Mc & Ms & Ml). destruct (c_set_spec c 0 b Hc) as [W M].
  unfold rep_ok, set_set. repeat split.
  - eapply wfc_weaken; [|exact W]. lia.
  - apply wfs_set, Hs.
  - apply wfs_set, Hl.
  - apply nonempty_update, nonempty_extend, Hn.
  - intro i. rewrite M, Mc. reflexivity.
  - intro i. rewrite w_set_spec, Ms. reflexivity.
  - intro i. rewrite w_set_spec, Ml. reflexivity.
Qed.

Lemma rep_unset c s l sp b : rep_ok c s l sp -> rep_ok (c_unset c b) (s_unset s b) (l_unset l b) (set_unset sp b).
Proof.
  intros (Hc & Hs & Hl & Hn & Mc & Ms & Ml). destruct (c_unset_spec c 0 b Hc) as [W M].
  unfold rep_ok, set_unset. repeat split.
  - exact W.
  - apply wfs_s_unset, Hs.
  - apply wfs_l_unset, Hl.
  - apply nonempty_update, nonempty_extend, Hn.
  - intro i. rewrite M, Mc. reflexivity.
  - intro i. rewrite s_unset_spec, Ms. reflexivity.
  - intro i. rewrite l_unset_spec, Ml. reflexivity.
Qed.

Lemma rep_flip c s l sp b : rep_ok c s l sp -> rep_ok (c_flip c b) (w_flip s b) (w_flip l b) (set_flip sp b).
Proof.
  intros (Hc & Hs & Hl & Hn & Mc & Ms & Ml). destruct (c_flip_spec c 0 b Hc) as [W M].
  unfold rep_ok, set_flip. repeat split.
  - eapply wfc_weaken; [|exact W]. lia.
  - apply wfs_flip, Hs.
  - apply wfs_flip, Hl.
  - apply nonempty_update, nonempty_extend, Hn.
  - intro i. rewrite M, Mc. reflexivity.
  - intro i. rewrite w_flip_spec, Ms. reflexivity.
  - intro i. rewrite w_flip_spec, Ml. reflexivity.
Qed.

Lemma w_or_nonempty a b : a <> [] -> w_or a b <> [].
Proof. destruct a, b; cbn; intros; try discriminate; contradiction. Qed.
Lemma w_xor_nonempty a b : a <> [] -> w_xor a b <> [].
Proof. destruct a, b; cbn; intros; try discriminate; contradiction. Qed.
Lemma w_and_nonempty a b : a <> [] -> b <> [] -> w_and a b <> [].
Proof. destruct a, b; cbn; intros; try discriminate; contradiction. Qed.
Lemma w_sub_nonempty a b : a <> [] -> w_sub a b <> [].
Proof. destruct a, b; cbn; intros; try discriminate; contradiction. Qed.

Lemma rep_or c1 s1 l1 t1 c2 s2 l2 t2 : rep_ok c1 s1 l1 t1 -> rep_ok c2 s2 l2 t2 ->
  rep_ok (c_or c1 c2) (w_or s1 s2) (w_or l1 l2) (set_or t1 t2).
Proof.
  intros (Hc & Hs & Hl & Hn & Mc & Ms & Ml) (Hc' & Hs' & Hl' & Hn' & Mc' & Ms' & Ml').
  destruct (c_or_spec c1 c2 0 0 Hc Hc') as [W M]. unfold rep_ok, set_or. repeat split.
  - exact W.
  - apply wfs_or; assumption.
  - apply wfs_or; assumption.
  - apply w_or_nonempty, Hn.
  - intro i. rewrite M, Mc, Mc'. reflexivity.
  - intro i. rewrite w_or_spec, Ms, Ms'. reflexivity.
  - intro i. rewrite w_or_spec, Ml, Ml'. reflexivity.
Qed.

Lemma rep_and c1 s1 l1 t1 c2 s2 l2 t2 : rep_ok c1 s1 l1 t1 -> rep_ok c2 s2 l2 t2 ->
  rep_ok (c_and c1 c2) (w_and s1 s2) (w_and l1 l2) (set_and t1 t2).
Proof.
  intros (Hc & Hs & Hl & Hn & Mc & Ms & Ml) (Hc' & Hs' & Hl' & Hn' & Mc' & Ms' & Ml').
  destruct (c_and_spec c1 c2 0 0 Hc Hc') as [W M]. unfold rep_ok, set_and. repeat split.
  - exact W.
  - apply wfs_and; assumption.
  - apply wfs_and; assumption.
  - apply w_and_nonempty; assumption.
  - intro i. rewrite M, Mc, Mc'. reflexivity.
  - intro i. rewrite w_and_spec, Ms, Ms'. reflexivity.
  - intro i. rewrite w_and_spec, Ml, Ml'. reflexivity.
Qed.

Lemma rep_xor c1 s1 l1 t1 c2 s2 l2 t2 : rep_ok c1 s1 l1 t1 -> rep_ok c2 s2 l2 t2 ->
  rep_ok (c_xor c1 c2) (w_xor s1 s2) (w_xor l1 l2) (set_xor t1 t2).
Proof.
  intros (Hc & Hs & Hl & Hn & Mc & Ms & Ml) (Hc' & Hs' & Hl' & Hn' & Mc' & Ms' & Ml').
  destruct (c_xor_spec c1 c2 0 0 Hc Hc') as [W M]. unfold rep_ok, set_xor. repeat split.
  - exact W.
  - apply wfs_xor; assumption.
  - apply wfs_xor; assumption.
  - apply w_xor_nonempty, Hn.
  - intro i. rewrite M, Mc, Mc'. reflexivity.
  - intro i. rewrite w_xor_spec, Ms, Ms'. reflexivity.
  - intro i. rewrite w_xor_spec, Ml, Ml'. reflexivity.
Qed.

Lemma rep_sub c1 s1 l1 t1 c2 s2 l2 t2 : rep_ok c1 s1 l1 t1 -> rep_ok c2 s2 l2 t2 ->
  rep_ok (c_sub c1 c2) (w_sub s1 s2) (w_sub l1 l2) (set_sub t1 t2).
Proof.
  intros (Hc & Hs & Hl & Hn & Mc & Ms & Ml) (Hc' & Hs' & Hl' & Hn' & Mc' & Ms' & Ml').
  destruct (c_sub_spec c1 c2 0 0 Hc Hc') as [W M]. unfold rep_ok, set_sub. repeat split.
  - exact W.
  - apply wfs_sub; assumption.
  - apply wfs_sub; assumption.
  - apply w_sub_nonempty, Hn.
  - intro i. rewrite M, Mc, Mc'. reflexivity.
  - intro i. rewrite w_sub_spec, Ms, Ms'. reflexivity.
  - intro i. rewrite w_sub_spec, Ml, Ml'. reflexivity.
Qed.

Lemma rep_shrink c s l sp : rep_ok c s l sp -> rep_ok c (s_shrink s) (l_shrink l) sp.
Proof.
  intros (Hc & Hs & Hl & Hn & Mc & Ms & Ml). unfold rep_ok. repeat split; auto.
  - apply wfs_s_shrink, Hs.
  - apply wfs_l_shrink, Hl.
  - destruct s; [contradiction|discriminate].
  - intro i. rewrite s_shrink_spec. apply Ms.
  - intro i. rewrite l_shrink_spec. apply Ml.
Qed.

Lemma w_inject_nonempty s b v : s <> [] -> w_inject s b v <> [].
Proof.
  intro H. unfold w_inject. destruct (Nat.ltb (w_idx b) (length s)) eqn:E.
  - apply Nat.ltb_lt in E. destruct (w_idx b) as [|k].
    + cbn [firstn skipn app]. destruct s; [contradiction|]. cbn. discriminate.
    + destruct s; [contradiction|]. cbn. discriminate.
  - destruct v; [apply nonempty_update, nonempty_extend, H|exact H].
Qed.

Lemma rep_inject c s l sp b v : rep_ok c s l sp ->
  rep_ok (c_inject c b v) (w_inject s b v) (w_inject l b v) (set_inject sp b v).
Proof.
  intros (Hc & Hs & Hl & Hn & Mc & Ms & Ml). destruct (c_inject_spec c 0 b v Hc) as [W M].
  unfold rep_ok. repeat split.
  - eapply wfc_weaken; [|exact W]. lia.
  - apply wfs_inject, Hs.
  - apply wfs_inject, Hl.
  - apply w_inject_nonempty, Hn.
  - intro i. rewrite M. unfold set_inject. rewrite !Mc. reflexivity.
  - intro i. rewrite w_inject_spec by exact Hs. unfold set_inject. rewrite !Ms. reflexivity.
  - intro i. rewrite w_inject_spec by exact Hl. unfold set_inject. rewrite !Ml. reflexivity.
Qed.

Lemma s_extract_nonempty s b : s <> [] -> fst (s_extract s b) <> [].
Proof.
  intro H. unfold s_extract. destruct (Nat.ltb (w_idx b) (length s)) eqn:E; [|exact H].
  apply Nat.ltb_lt in E.
  destruct (w_extract_words (skipn (w_idx b) s) (w_bit b)) as [t res] eqn:Et. cbn [fst].
  destruct (w_idx b) as [|k].
  - cbn [firstn skipn app] in *. destruct s as [|w r]; [contradiction|].
    cbn [w_extract_words] in Et. destruct (w_extract_words r 0). inversion Et. discriminate.
  - destruct s; [contradiction|]. cbn. discriminate.
Qed.

Lemma rep_extract c s l sp b : rep_ok c s l sp ->
  rep_ok (fst (c_extract c b)) (fst (s_extract s b)) (fst (s_extract s b)) (set_extract sp b) /\
  snd (c_extract c b) = sp b /\ snd (s_extract s b) = sp b.
Proof.
  intros (Hc & Hs & Hl & Hn & Mc & Ms & Ml).
  destruct (c_extract_spec c b Hc) as (W & R & M).
  destruct (s_extract_spec s b Hs) as (R' & W' & M').
  split; [|split; [rewrite R; apply Mc|rewrite R'; apply Ms]].
  unfold rep_ok. repeat split; auto.
  - apply s_extract_nonempty, Hn.
  - intro i. rewrite M. unfold set_extract. rewrite !Mc. reflexivity.
  - intro i. rewrite M'. unfold set_extract. rewrite !Ms. reflexivity.
  - intro i. rewrite M'. unfold set_extract. rewrite !Ms. reflexivity.
Qed.

Lemma bstep_inv st sp o : binv st sp -> binv (bstep st o) (sstep sp o).
Proof.
  intro I. destruct o; cbn [bstep sstep].
  - apply binv_upd; [exact I|apply rep_set, I].
  - apply binv_upd; [exact I|apply rep_unset, I].
  - apply binv_upd; [exact I|apply rep_flip, I].
  - apply binv_upd; [exact I|apply rep_or; apply I].
  - apply binv_upd; [exact I|apply rep_and; apply I].
  - apply binv_upd; [exact I|apply rep_xor; apply I].
  - apply binv_upd; [exact I|apply rep_sub; apply I].
  - apply binv_upd; [exact I|apply I].
  - intro q. cbn [rc rs rl]. destruct (Nat.eq_dec q r) as [->|Hne].
    + rewrite !upd_same. apply rep_shrink, I.
    + rewrite !upd_other by exact Hne. apply I.
  - apply binv_upd; [exact I|apply rep_inject, I].
  - apply binv_upd; [exact I|]. apply (rep_extract _ _ (rl st r) _ b (I r)).
Qed.

Theorem history_inv ops : binv (fold_left bstep ops binit) (fold_left sstep ops sinit).
Proof.
  assert (G : forall st sp, binv st sp -> binv (fold_left bstep ops st) (fold_left sstep ops sp)).
  { induction ops as [|o ops IH]; intros st sp I; [exact I|]. cbn [fold_left]. apply IH, bstep_inv, I. }
  apply G, binv_init.
Qed.

(* ---------- observations agree ---------- *)
Lemma bool_iff_eq (a b : bool) (P : Prop) : (a = true <-> P) -> (b = true <-> P) -> a = b.
Proof. intros [A1 A2] [B1 B2]. destruct a, b; try reflexivity; [symmetry; apply B2, A1; reflexivity|apply A2, B1; reflexivity]. Qed.

Lemma len_unique (s : N -> bool) n1 n2 :
  (forall i, s i = true -> i < n1) -> (n1 = 0 \/ s (n1 - 1) = true) ->
  (forall i, s i = true -> i < n2) -> (n2 = 0 \/ s (n2 - 1) = true) -> n1 = n2.
Proof.
  intros U1 V1 U2 V2.
  destruct V1 as [->|V1]; destruct V2 as [->|V2]; try reflexivity.
  - specialize (U1 _ V2). lia.
  - specialize (U2 _ V1). lia.
  - specialize (U1 _ V2). specialize (U2 _ V1). lia.
Qed.

Lemma count_upto_beyond s n1 : forall n2, (n1 <= n2)%nat ->
  (forall i, N.of_nat n1 <= i -> s i = false) -> count_upto s n2 = count_upto s n1.
Proof.
  induction n2 as [|n2 IH]; intros Hle Z.
  - replace n1 with O by lia. reflexivity.
  - destruct (Nat.eq_dec n1 (S n2)) as [->|Hne]; [reflexivity|].
    cbn [count_upto]. rewrite Z by lia. rewrite IH by (try lia; exact Z). lia.
Qed.

Section Observations.
  Variables (c : list (N * N)) (s l : list N) (sp : N -> bool).
  Hypothesis R : rep_ok c s l sp.

  Lemma obs_isset b : c_isset c b = sp b /\ w_isset s b = sp b /\ w_isset l b = sp b.
  Proof.
    destruct R as (Hc & Hs & Hl & Hn & Mc & Ms & Ml).
    rewrite (c_isset_spec 0 c b Hc), !w_isset_spec. auto.
  Qed.

  Lemma obs_iszero : (c_iszero c = true <-> forall i, sp i = false) /\
                     w_iszero s = c_iszero c /\ w_iszero l = c_iszero c.
  Proof.
    destruct R as (Hc & Hs & Hl & Hn & Mc & Ms & Ml).
    assert (A : c_iszero c = true <-> forall i, sp i = false).
    { rewrite (c_iszero_spec c Hc). split; intros H i; [rewrite <- Mc|rewrite Mc]; apply H. }
    split; [exact A|]. split; apply (bool_iff_eq _ _ (forall i, sp i = false)); try exact A.
    - rewrite (w_iszero_spec s Hs). split; intros H i; [rewrite <- Ms|rewrite Ms]; apply H.
    - rewrite (w_iszero_spec l Hl). split; intros H i; [rewrite <- Ml|rewrite Ml]; apply H.
  Qed.

  Lemma obs_len : (forall i, sp i = true -> i < c_len c) /\ (c_len c = 0 \/ sp (c_len c - 1) = true) /\
                  w_len s = c_len c /\ w_len l = c_len c.
  Proof.
    destruct R as (Hc & Hs & Hl & Hn & Mc & Ms & Ml).
    destruct (c_len_spec c 0 Hc) as [U V].
    assert (U' : forall i, sp i = true -> i < c_len c) by (intros i Hi; apply U; rewrite Mc; exact Hi).
    assert (V' : c_len c = 0 \/ sp (c_len c - 1) = true).
    { destruct c as [|e c']; [left; reflexivity|right]. rewrite <- Mc. apply V. discriminate. }
    destruct (w_len_spec s Hs) as [Us Vs]. destruct (w_len_spec l Hl) as [Ul Vl].
    repeat split; auto.
    - apply (len_unique sp); auto.
      + intros i Hi. apply Us. rewrite Ms. exact Hi.
      + destruct Vs as [Vs|Vs]; [left; exact Vs|right; rewrite <- Ms; exact Vs].
    - apply (len_unique sp); auto.
      + intros i Hi. apply Ul. rewrite Ml. exact Hi.
      + destruct Vl as [Vl|Vl]; [left; exact Vl|right; rewrite <- Ml; exact Vl].
  Qed.

  Lemma obs_count n : c_len c <= N.of_nat n ->
    c_count c = count_upto sp n /\ w_count s = count_upto sp n /\ w_count l = count_upto sp n.
  Proof.
    intro Hn'. pose proof obs_len as (U & V & Ls & Ll).
    destruct R as (Hc & Hs & Hl & Hn & Mc & Ms & Ml).
    assert (Z : forall i, N.of_nat n <= i -> sp i = false).
    { intros i Hi. destruct (sp i) eqn:E; [|reflexivity]. specialize (U i E). lia. }
    split; [|split].
    - rewrite (c_count_spec c 0 n Hc Hn'). apply count_upto_ext. intros. apply Mc.
    - rewrite (w_count_spec s Hs).
      rewrite (count_upto_ext (mem_w s) sp) by (intros; apply Ms).
      destruct (Nat.le_ge_cases n (64 * length s)) as [L|L].
      + apply count_upto_beyond; [exact L|exact Z].
      + symmetry. apply count_upto_beyond; [exact L|].
        intros i Hi. rewrite <- Ms. apply mem_w_beyond. unfold w_idx.
        assert (N.of_nat (length s) <= i / 64) by (apply N.div_le_lower_bound; lia). lia.
    - rewrite (w_count_spec l Hl).
      rewrite (count_upto_ext (mem_w l) sp) by (intros; apply Ml).
      destruct (Nat.le_ge_cases n (64 * length l)) as [L|L].
      + apply count_upto_beyond; [exact L|exact Z].
      + symmetry. apply count_upto_beyond; [exact L|].
        intros i Hi. rewrite <- Ml. apply mem_w_beyond. unfold w_idx.
        assert (N.of_nat (length l) <= i / 64) by (apply N.div_le_lower_bound; lia). lia.
  Qed.

  Lemma obs_next b :
    match l_next l b with
    | Some p => b <= p /\ sp p = true /\ forall i, b <= i -> i < p -> sp i = false
    | None => forall i, b <= i -> sp i = false
    end.
  Proof.
    destruct R as (Hc & Hs & Hl & Hn & Mc & Ms & Ml).
    pose proof (l_next_spec l b Hl) as H. destruct (l_next l b) as [p|].
    - destruct H as (H1 & H2 & H3). split; [exact H1|]. split; [rewrite <- Ml; exact H2|].
      intros i A B. rewrite <- Ml. apply H3; assumption.
    - intros i A. rewrite <- Ml. apply H, A.
  Qed.
End Observations.

Lemma obs_equal c1 s1 l1 t1 c2 s2 l2 t2 : rep_ok c1 s1 l1 t1 -> rep_ok c2 s2 l2 t2 ->
  (c_equal c1 c2 = true <-> forall i, t1 i = t2 i) /\
  w_equal s1 s2 = c_equal c1 c2 /\ w_equal l1 l2 = c_equal c1 c2.
Proof.
  intros (Hc & Hs & Hl & Hn & Mc & Ms & Ml) (Hc' & Hs' & Hl' & Hn' & Mc' & Ms' & Ml').
  assert (A : c_equal c1 c2 = true <-> forall i, t1 i = t2 i).
  { rewrite (c_equal_spec c1 c2 Hc Hc'). split; intros H i; [rewrite <- Mc, <- Mc'|rewrite Mc, Mc']; apply H. }
  split; [exact A|]. split; apply (bool_iff_eq _ _ (forall i, t1 i = t2 i)); try exact A.
  - rewrite (w_equal_spec s1 s2 Hs Hs'). split; intros H i; [rewrite <- Ms, <- Ms'|rewrite Ms, Ms']; apply H.
  - rewrite (w_equal_spec l1 l2 Hl Hl'). split; intros H i; [rewrite <- Ml, <- Ml'|rewrite Ml, Ml']; apply H.
Qed.

(* ---------- statements used by props/C17.v ---------- *)
Lemma history_membership_proof : forall (ops : list bop) (r : nat) (b : N),
  let st := fold_left bstep ops binit in
  let sp := fold_left sstep ops sinit in
  wf_c (rc st r) /\ wf_w (rs st r) /\ wf_w (rl st r) /\ rs st r <> [] /\
  c_isset (rc st r) b = sp r b /\ w_isset (rs st r) b = sp r b /\ w_isset (rl st r) b = sp r b.
Proof.
  intros ops r b st sp. pose proof (history_inv ops r) as R. fold st sp in R.
  pose proof (obs_isset _ _ _ _ R b) as (A & B & C).
  destruct R as (Hc & Hs & Hl & Hn & _).
  repeat split; try assumption; apply wfs_wf_w; assumption.
Qed.

Lemma history_observers_proof : forall (ops : list bop) (r r' : nat) (b : N) (n : nat),
  let st := fold_left bstep ops binit in
  let sp := fold_left sstep ops sinit in
  (* IsZero *)
  ((c_iszero (rc st r) = true <-> forall i, sp r i = false) /\
   w_iszero (rs st r) = c_iszero (rc st r) /\ w_iszero (rl st r) = c_iszero (rc st r)) /\
  (* Equal *)
  ((c_equal (rc st r) (rc st r') = true <-> forall i, sp r i = sp r' i) /\
   w_equal (rs st r) (rs st r') = c_equal (rc st r) (rc st r') /\
   w_equal (rl st r) (rl st r') = c_equal (rc st r) (rc st r')) /\
  (* Len *)
  ((forall i, sp r i = true -> i < c_len (rc st r)) /\
   (c_len (rc st r) = 0 \/ sp r (c_len (rc st r) - 1) = true) /\
   w_len (rs st r) = c_len (rc st r) /\ w_len (rl st r) = c_len (rc st r)) /\
  (* OnesCount, counted below any bound n that covers the mask *)
  (c_len (rc st r) <= N.of_nat n ->
   c_count (rc st r) = count_upto (sp r) n /\ w_count (rs st r) = count_upto (sp r) n /\
   w_count (rl st r) = count_upto (sp r) n) /\
  (* Next *)
  match l_next (rl st r) b with
  | Some p => b <= p /\ sp r p = true /\ forall i, b <= i -> i < p -> sp r i = false
  | None => forall i, b <= i -> sp r i = false
  end.
Proof.
  intros ops r r' b n st sp.
  pose proof (history_inv ops r) as R. pose proof (history_inv ops r') as R'. fold st sp in R, R'.
  split; [exact (obs_iszero _ _ _ _ R)|].
  split; [exact (obs_equal _ _ _ _ _ _ _ _ R R')|].
  split; [exact (obs_len _ _ _ _ R)|].
  split; [exact (obs_count _ _ _ _ R n)|].
  exact (obs_next _ _ _ _ R b).
Qed.

Lemma extract_returns_member_proof : forall (ops : list bop) (r : nat) (b : N),
  let st := fold_left bstep ops binit in
  let sp := fold_left sstep ops sinit in
  snd (c_extract (rc st r) b) = sp r b /\ snd (s_extract (rs st r) b) = sp r b.
Proof.
  intros ops r b st sp. pose proof (history_inv ops r) as R. fold st sp in R.
  exact (proj2 (rep_extract _ _ (rl st r) _ b R)).
Qed.

Lemma make_proof : forall mn mx, mn <= mx ->
  wf_c (c_make mn mx) /\ forall i, mem_c (c_make mn mx) i = (mn <=? i) && (i <=? mx).
Proof.
  intros mn mx H. split.
  - cbn. repeat split; auto. apply N.le_0_l.
  - intro i. unfold c_make. rewrite mem_c_cons, mem_c_nil. apply orb_false_r.
Qed.

Lemma xor_prefix_refuted_proof :
  exists a b, wf_c a /\ wf_c b /\ c_equal (c_xor_prefix a b) (c_make 1 10) = false /\
              forall i, mem_c (c_xor_prefix a b) i = mem_c (c_make 1 10) i.
Proof.
  exists (c_make 1 5), (c_make 6 10). repeat split; try (cbn; intuition discriminate).
  intro i. unfold c_xor_prefix, c_make. cbn [length Nat.add c_xor_raw].
  change (5 <? 6) with true. cbv iota. cbn [c_xor_raw].
  rewrite !mem_c_cons, !mem_c_nil. lia.
Qed.

Lemma history_example_proof :
  let ops := [OSet 0 5; OSet 0 64; OInject 0 3 true; OOr 1 0 0; OFlip 1 65; OXor 2 0 1; OExtract 0 6;
              OSet 3 1; OSet 3 2; OSet 3 4; OXor 3 3 2] in
  let st := fold_left bstep ops binit in
  rc st 0 = [(3, 3); (64, 64)] /\ rc st 3 = [(1, 2); (4, 4); (65, 65)] /\ rs st 0 = [8; 1] /\ rl st 2 = [0; 2].
Proof. vm_compute. repeat split. Qed.

Lemma extract_wrap_refuted_proof :
  exists l b, wf_c l /\ mem_c l 5 = false /\
              mem_c (fst (c_extract_rev_gen true l b)) 5 = true.
Proof. exists (c_make 0 0), 0. split; [cbn; lia|]. split; vm_compute; reflexivity. Qed.
