(* C12 -- executable model of what the manager keeps on disk and of what manager.New makes of
   a directory after a restart or a process kill (internal/index/manager/manager.go New,
   saveState, importPcapJob, mergeIndexesJob, indexReleaser.release; internal/index/writer.go
   Finalize; internal/index/merger.go; internal/tools/filename.go).

   Files are abstract:
   - an index file is (name, magic written?, stream id -> version).  The magic is written by the
     last write of Writer.Finalize; every earlier crash point of the writer leaves "magic = false"
     (index.NewReader fails, manager.New skips the file).  The header write (232 bytes) is atomic.
   - a state file is (name, complete JSON?, Saved stamp, content).  saveState = create + write +
     close (one step each for the purpose of recovery: complete or not) then remove the old file.
   - names are (tick, generation) ordered lexicographically = byte order of
     "<time>.<counter>.idx" / "<time>.<counter>.m0.idx" as listed by os.ReadDir.
   A crash (process kill) keeps the directory as it is after any prefix of the atomic steps; the
   step in progress leaves its file incomplete.  Assumed, not modelled: the OS applies create /
   write / close / remove atomically and in program order; the wall clock is monotone.
   Definitions only; proofs are in PersistProofs.v. *)
From Coq Require Import List NArith Bool Arith.
Import ListNotations.
Open Scope N_scope.

Definition fname := (N * N)%type.
Definition fname_ltb (a b : fname) : bool :=
  (fst a <? fst b) || ((fst a =? fst b) && (snd a <? snd b)).
Definition fname_eqb (a b : fname) : bool := (fst a =? fst b) && (snd a =? snd b).

Section Files.
Variable V : Type.          (* a stream version (payload) *)
Variable S : Type.          (* content of a state file (tags, config, webhooks, pcap list) *)

Definition streams := list (N * V).
Fixpoint lookup (s : streams) (id : N) : option V :=
  match s with
  | [] => None
  | (k, v) :: r => if k =? id then Some v else lookup r id
  end.

Record ifile := mkI { i_name : fname; i_magic : bool; i_streams : streams }.
Record sfile := mkS { s_name : fname; s_ok : bool; s_stamp : N; s_data : S }.

(* ---------------------------------------------------------------- manager.New *)
(* index files are appended to mgr.indexes in name order; a lookup walks the list from the end:
   the LAST file containing an id wins *)
Fixpoint visible (fs : list streams) (id : N) : option V :=
  match fs with
  | [] => None
  | s :: r => match visible r id with Some v => Some v | None => lookup s id end
  end.

(* [d] is the directory listing (name order); unreadable files are skipped *)
Definition readable (d : list ifile) : list ifile := filter i_magic d.
Definition recover_streams (d : list ifile) (id : N) : option V :=
  visible (map i_streams (readable d)) id.

(* state files in name order; a file is taken unless it does not parse or is older than the one
   already taken (`if s.Saved.Before(stateTimestamp) { continue }`) *)
Fixpoint pick_state (cur : option sfile) (d : list sfile) : option sfile :=
  match d with
  | [] => cur
  | f :: r =>
      if s_ok f && negb (match cur with Some c => s_stamp f <? s_stamp c | None => false end)
      then pick_state (Some f) r else pick_state cur r
  end.
Definition recover_state (d : list sfile) : option sfile := pick_state None d.

(* ---------------------------------------------------------------- the directory as a sorted listing *)
Fixpoint insert_i (f : ifile) (d : list ifile) : list ifile :=
  match d with
  | [] => [f]
  | g :: r =>
      if fname_ltb (i_name f) (i_name g) then f :: d
      else if fname_eqb (i_name f) (i_name g) then f :: r      (* os.Create truncates an existing file *)
      else g :: insert_i f r
  end.
Definition remove_i (n : fname) (d : list ifile) : list ifile :=
  filter (fun g => negb (fname_eqb (i_name g) n)) d.
Definition set_magic (n : fname) (d : list ifile) : list ifile :=
  map (fun g => if fname_eqb (i_name g) n then mkI (i_name g) true (i_streams g) else g) d.
Fixpoint find_i (n : fname) (d : list ifile) : option ifile :=
  match d with
  | [] => None
  | g :: r => if fname_eqb (i_name g) n then Some g else find_i n r
  end.

(* ---------------------------------------------------------------- state saves *)
(* disk steps of saveState number k with content s: create+write (incomplete), close (complete),
   remove the previous file *)
Inductive sstep := SCreate (n : fname) (stamp : N) (s : S) | SClose (n : fname) | SRemove (n : fname).

Fixpoint insert_s (f : sfile) (d : list sfile) : list sfile :=
  match d with
  | [] => [f]
  | g :: r =>
      if fname_ltb (s_name f) (s_name g) then f :: d
      else if fname_eqb (s_name f) (s_name g) then f :: r
      else g :: insert_s f r
  end.
Definition apply_sstep (d : list sfile) (st : sstep) : list sfile :=
  match st with
  | SCreate n stamp s => insert_s (mkS n false stamp s) d
  | SClose n => map (fun g => if fname_eqb (s_name g) n then mkS (s_name g) true (s_stamp g) (s_data g) else g) d
  | SRemove n => filter (fun g => negb (fname_eqb (s_name g) n)) d
  end.

(* the k-th save (k = 1, 2, ...) writes file (k, 0) with stamp k and removes file (k-1, 0):
   names and Saved stamps both come from the monotone clock *)
Definition save_steps (k : N) (s : S) : list sstep :=
  [SCreate (k, 0) k s; SClose (k, 0)] ++ (if k =? 1 then [] else [SRemove (k - 1, 0)]).

Fixpoint all_save_steps (k : N) (ss : list S) : list sstep :=
  match ss with
  | [] => []
  | s :: r => save_steps k s ++ all_save_steps (k + 1) r
  end.

Definition run_ssteps (steps : list sstep) : list sfile := fold_left apply_sstep steps [].

End Files.

Arguments lookup {V}.
Arguments visible {V}.
Arguments mkI {V}.
Arguments i_name {V}.
Arguments i_magic {V}.
Arguments i_streams {V}.
Arguments readable {V}.
Arguments recover_streams {V}.
Arguments insert_i {V}.
Arguments remove_i {V}.
Arguments set_magic {V}.
Arguments find_i {V}.
Arguments mkS {S}.
Arguments s_name {S}.
Arguments s_ok {S}.
Arguments s_stamp {S}.
Arguments s_data {S}.
Arguments pick_state {S}.
Arguments recover_state {S}.
Arguments SCreate {S}.
Arguments SClose {S}.
Arguments SRemove {S}.
Arguments apply_sstep {S}.
Arguments save_steps {S}.
Arguments all_save_steps {S}.
Arguments run_ssteps {S}.

(* ---------------------------------------------------------------- index files: import, merge, restart *)
(* versions are numbers: a larger number is a newer version of the stream *)
Definition nstreams := list (N * N).

(* content of a merged file: every id of the inputs with the version the stack of inputs shows *)
Fixpoint ids_of (fs : list nstreams) : list N :=
  match fs with
  | [] => []
  | s :: r => map fst s ++ ids_of r
  end.
Definition merge_streams (fs : list nstreams) : nstreams :=
  let ids := nodup N.eq_dec (ids_of fs) in
  fold_right (fun id acc => match visible fs id with Some v => (id, v) :: acc | None => acc end) [] ids.

Record mstate := mkM {
  disk : list (ifile N);       (* directory listing, name order *)
  mem : list fname;            (* mgr.indexes: published files in memory order *)
  clock : N;                   (* last tick handed out by MakeFilename *)
  imp : option fname;          (* output file of the import job in flight *)
  mrg : option (fname * nat * list fname);  (* output file, offset and inputs of the merge job in flight *)
  rm : list fname              (* files released by a published merge, removed one by one *)
}.

Inductive ev :=
| ImpCreate (s : nstreams)     (* import job creates its writer and writes the body *)
| ImpMagic                     (* Finalize writes the header with the magic *)
| ImpPublish                   (* completion closure: append to mgr.indexes *)
| MrgCreate (offset : nat)     (* merge job over mgr.indexes[offset:] creates its writer *)
| MrgMagic
| MrgPublish                   (* completion closure: replace the inputs by the output *)
| MrgRemove                    (* ... and remove the next released input file *)
| Restart.                     (* process killed here; manager.New on the directory *)

Definition max_version (d : list (ifile N)) (id : N) : N :=
  fold_right (fun f m => match lookup (i_streams f) id with Some v => N.max v m | None => m end) 0 d.

(* an import re-assembles its streams from all captures: it never writes an older (or equal)
   version of a stream than one that is on disk already *)
Definition import_newer (d : list (ifile N)) (s : nstreams) : bool :=
  forallb (fun kv => max_version d (fst kv) <? snd kv) s.

Definition last_name (l : list fname) : option fname :=
  match rev l with [] => None | x :: _ => Some x end.

Definition is_complete (d : list (ifile N)) (n : fname) : bool :=
  match find_i n d with Some f => i_magic f | None => false end.

Fixpoint mem_name (n : fname) (l : list fname) : bool :=
  match l with [] => false | x :: r => fname_eqb x n || mem_name n r end.

Definition streams_of (d : list (ifile N)) (names : list fname) : list nstreams :=
  map (fun n => match find_i n d with Some f => i_streams f | None => [] end) names.

(* [fixed] = merger.go names its output after its newest input (fixes/C12-1); otherwise by the
   current time, as the unpatched code does *)
Definition step (fixed : bool) (st : mstate) (e : ev) : mstate :=
  match e with
  | ImpCreate s =>
      match imp st with
      | Some _ => st
      | None =>
          if import_newer (disk st) s then
            let n := (clock st + 1, 0) in
            mkM (insert_i (mkI n false s) (disk st)) (mem st) (clock st + 1) (Some n) (mrg st) (rm st)
          else st
      end
  | ImpMagic =>
      match imp st with
      | Some n => mkM (set_magic n (disk st)) (mem st) (clock st) (imp st) (mrg st) (rm st)
      | None => st
      end
  | ImpPublish =>
      match imp st with
      | Some n => if is_complete (disk st) n
                  then mkM (disk st) (mem st ++ [n]) (clock st) None (mrg st) (rm st)
                  else st
      | None => st
      end
  | MrgCreate offset =>
      match mrg st, last_name (skipn offset (mem st)) with
      | None, Some (t, g) =>
          let inputs := skipn offset (mem st) in
          let n := if fixed then (t, g + 1) else (clock st + 1, 0) in
          let content := merge_streams (streams_of (disk st) inputs) in
          mkM (insert_i (mkI n false content) (disk st)) (mem st)
              (if fixed then clock st else clock st + 1) (imp st) (Some (n, offset, inputs)) (rm st)
      | _, _ => st
      end
  | MrgMagic =>
      match mrg st with
      | Some (n, _, _) => mkM (set_magic n (disk st)) (mem st) (clock st) (imp st) (mrg st) (rm st)
      | None => st
      end
  | MrgPublish =>
      match mrg st with
      | Some (n, offset, inputs) =>
          if is_complete (disk st) n then
            (* mgr.indexes[:offset] ++ [merged] ++ mgr.indexes[offset+len(inputs):] *)
            mkM (disk st) (firstn offset (mem st) ++ [n] ++ skipn (offset + List.length inputs) (mem st))
                (clock st) (imp st) None (rm st ++ inputs)
          else st
      | None => st
      end
  | MrgRemove =>
      match rm st with
      | [] => st
      | n :: r => mkM (remove_i n (disk st)) (mem st) (clock st) (imp st) (mrg st) r
      end
  | Restart =>
      mkM (disk st) (map i_name (readable (disk st))) (clock st) None None []
  end.

Definition init_m : mstate := mkM [] [] 0 None None [].
Definition run_m (fixed : bool) (es : list ev) : mstate := fold_left (step fixed) es init_m.

(* what the running manager shows / what a restart would show *)
Definition mem_view (st : mstate) (id : N) : option N := visible (streams_of (disk st) (mem st)) id.
Definition restart_view (st : mstate) (id : N) : option N := recover_streams (disk st) id.
