(* QuerySort.v -- generic facts about the lexicographic key order and the insertion sort of Query.v *)
From Coq Require Import List NArith ZArith Bool Lia Sorting.Sorted Permutation.
From Pk Require Import Query.
Import ListNotations.
Open Scope Z_scope.

Lemma lex_leb_refl a : lex_leb a a = true.
Proof.
  induction a as [|x a IH]; simpl; auto.
  destruct (x <? x) eqn:E; auto.
Qed.

Lemma lex_leb_total a b : lex_leb a b = false -> lex_leb b a = true.
Proof.
  revert b; induction a as [|x a IH]; intros [|y b] H; simpl in *; try discriminate; auto.
  destruct (x <? y) eqn:E1; try discriminate.
  destruct (y <? x) eqn:E2; auto.
Qed.

Lemma lex_leb_trans a b c : lex_leb a b = true -> lex_leb b c = true -> lex_leb a c = true.
Proof.
  revert b c; induction a as [|x a IH]; intros [|y b] [|z c] H1 H2; simpl in *; try discriminate; auto.
  destruct (x <? y) eqn:E1; destruct (y <? x) eqn:E2; destruct (y <? z) eqn:E3; destruct (z <? y) eqn:E4;
    try discriminate;
    apply Z.ltb_lt in E1 || apply Z.ltb_ge in E1; apply Z.ltb_lt in E2 || apply Z.ltb_ge in E2;
    apply Z.ltb_lt in E3 || apply Z.ltb_ge in E3; apply Z.ltb_lt in E4 || apply Z.ltb_ge in E4;
    try lia.
  all: try (assert (x <? z = true) as -> by (apply Z.ltb_lt; lia); reflexivity).
  assert (x = y) by lia; assert (y = z) by lia; subst.
  rewrite Z.ltb_irrefl. eapply IH; eauto.
Qed.

(* two keys that agree up to their last entry are ordered by it *)
Lemma lex_leb_app_last pre x y : lex_leb (pre ++ [x]) (pre ++ [y]) = true -> x <= y.
Proof.
  induction pre as [|p pre IH]; simpl.
  - destruct (x <? y) eqn:E1; [apply Z.ltb_lt in E1; lia|].
    destruct (y <? x) eqn:E2; [discriminate|]. apply Z.ltb_ge in E1, E2. lia.
  - rewrite Z.ltb_irrefl. auto.
Qed.

Section Sort.
  Context {A : Type} (key : A -> list Z).
  Definition kle (x y : A) : Prop := lex_leb (key x) (key y) = true.

  Lemma insert_perm x l : Permutation (insert key x l) (x :: l).
  Proof.
    induction l as [|y r IH]; simpl; auto.
    destruct (lex_leb (key x) (key y)); auto.
    rewrite IH. apply perm_swap.
  Qed.
  Lemma isort_perm l : Permutation (isort key l) l.
  Proof.
    induction l as [|x r IH]; simpl; auto.
    rewrite insert_perm. auto.
  Qed.

  Lemma insert_sorted x l : StronglySorted kle l -> StronglySorted kle (insert key x l).
  Proof.
    induction 1 as [|y r Hs IH Hall]; simpl.
    - constructor; constructor.
    - destruct (lex_leb (key x) (key y)) eqn:E.
      + constructor; [constructor; auto|].
        constructor; auto.
        eapply Forall_impl; [|exact Hall]. intros z Hz. unfold kle in *. eapply lex_leb_trans; eauto.
      + constructor; auto.
        assert (Hp := insert_perm x r).
        apply Forall_forall. intros z Hz.
        apply (Permutation_in _ Hp) in Hz. destruct Hz as [<-|Hz].
        * apply lex_leb_total; auto.
        * rewrite Forall_forall in Hall; auto.
  Qed.
  Lemma isort_sorted l : StronglySorted kle (isort key l).
  Proof.
    induction l; simpl; [constructor|apply insert_sorted; auto].
  Qed.

  Lemma isort_forallb f l : forallb f (isort key l) = forallb f l.
  Proof.
    assert (H := isort_perm l).
    destruct (forallb f l) eqn:E.
    - apply forallb_forall. intros x Hx. rewrite forallb_forall in E. apply E. eapply Permutation_in; eauto.
    - destruct (forallb f (isort key l)) eqn:E2; auto.
      rewrite forallb_forall in E2.
      assert (forallb f l = true); [|congruence].
      apply forallb_forall. intros x Hx. apply E2. eapply Permutation_in; [apply Permutation_sym|]; eauto.
  Qed.
  Lemma isort_Forall P l : Forall P l -> Forall P (isort key l).
  Proof.
    intros H. rewrite Forall_forall in *. intros x Hx. apply H. eapply Permutation_in; [apply isort_perm|]; auto.
  Qed.
  Lemma isort_in x l : In x (isort key l) <-> In x l.
  Proof.
    split; intro H.
    - eapply Permutation_in; [apply isort_perm|]; auto.
    - eapply Permutation_in; [apply Permutation_sym, isort_perm|]; auto.
  Qed.
End Sort.

(* small list helpers *)
Lemma forallb_app' {A} (f : A -> bool) a b : forallb f (a ++ b) = forallb f a && forallb f b.
Proof. apply forallb_app. Qed.

Lemma list_eqb_eq {A} (eqb : A -> A -> bool) (H : forall x y, eqb x y = true -> x = y) a b :
  list_eqb eqb a b = true -> a = b.
Proof.
  revert b; induction a as [|x a IH]; intros [|y b] E; simpl in *; try discriminate; auto.
  apply andb_true_iff in E as [E1 E2]. f_equal; auto.
Qed.
Lemma list_eqb_refl {A} (eqb : A -> A -> bool) (H : forall x, eqb x x = true) a : list_eqb eqb a a = true.
Proof. induction a; simpl; auto. rewrite H; auto. Qed.

Lemma forallb_map' {A B} (f : B -> bool) (g : A -> B) l : forallb f (map g l) = forallb (fun x => f (g x)) l.
Proof. induction l; simpl; auto. rewrite IHl. reflexivity. Qed.
Lemma existsb_map' {A B} (f : B -> bool) (g : A -> B) l : existsb f (map g l) = existsb (fun x => f (g x)) l.
Proof. induction l; simpl; auto. rewrite IHl. reflexivity. Qed.
