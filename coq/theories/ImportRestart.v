(* The restart clause of C08: a new Builder on the same directories (builder.New) is, for every later import,
   the running Builder.

   What builder.New re-derives from disk:
     knownPcaps   <- every readable capture of the pcap directory, in directory (name) order, PcapInfo recomputed by
                     readPackets (or taken from the manager's cache when the file size is unchanged): [restart_known]
     snapshots    <- the snapshot file with the largest chunk count; FromPcap writes its whole list to a new file after
                     every successful call and removes the previous one, so this is the running Builder's list
     packetCount  <- sum of PacketCount (statistics only, not modelled)
   What differs from the running Builder: only the ORDER of knownPcaps (arrival order vs name order) -- and a capture
   without packets is listed by New but not by FromPcap (it contributes nothing to any feed; not modelled).
   [restart_import]: such a Builder produces the same import result, the same new snapshot list and (up to order) the
   same known captures, so the relation is preserved for all later imports. *)
From Pk Require Import Import ImportProofs ImportExamples BuilderOrderProofs ImportSnapshot.
From Coq Require Import Lia Sorting.Sorted Sorting.Permutation.

Definition restart (st : store) (dir : list N) (saved : list snapshot) : builder :=
  mkBuilder (new_infos st dir) saved.

Lemma restart_known st known dir :
  store_wf st known -> (forall pi, In pi known -> store_get st (pi_file pi) <> []) ->
  Permutation dir (map pi_file known) ->
  Permutation (b_known (restart st dir (@nil snapshot))) known.
Proof.
  intros Hwf Hne Hp. simpl. unfold new_infos.
  eapply Permutation_trans; [apply Permutation_flat_map, Hp|].
  rewrite flat_map_concat_map, map_map, <- flat_map_concat_map.
  assert (E : forall l, (forall pi, In pi l -> In pi known) ->
            flat_map (fun pi => match store_get st (pi_file pi) with [] => [] | x :: r => [info_of (pi_file pi) (x :: r)] end) l = l).
  { induction l as [|pi l IH]; intros Hl; simpl; auto.
    pose proof (sw_info _ _ Hwf pi (Hl pi (or_introl eq_refl))) as Hi.
    pose proof (Hne pi (Hl pi (or_introl eq_refl))) as Hn.
    destruct (store_get st (pi_file pi)) as [|x r] eqn:Eg; [congruence|].
    simpl. rewrite <- Hi. f_equal. apply IH. intros; apply Hl; right; auto. }
  rewrite E; auto.
Qed.

(* the relation between a restarted and the running Builder *)
Definition same_builder (b' b : builder) : Prop := Permutation (b_known b') (b_known b) /\ b_snaps b' = b_snaps b.

Lemma store_wf_perm st k k' : Permutation k' k -> store_wf st k -> store_wf st k'.
Proof.
  intros Hp [A B]. constructor; auto. intros pi Hpi. apply B. eapply Permutation_in; eauto.
Qed.

Lemma needed_perm b' b best nf st : Permutation (b_known b') (b_known b) ->
  Permutation (flat_map snd (needed_pcaps b' best nf st)) (flat_map snd (needed_pcaps b best nf st)).
Proof.
  intros Hp. unfold needed_pcaps. rewrite !flat_map_snd_map.
  eapply Permutation_trans; [apply Permutation_flat_map, sort_by_min_perm|].
  eapply Permutation_trans; [|apply Permutation_flat_map, Permutation_sym, sort_by_min_perm].
  apply Permutation_flat_map. apply Permutation_filter'. exact Hp.
Qed.

Lemma feed_perm b' b best nf st newP :
  store_wf st (b_known b) -> Permutation (b_known b') (b_known b) ->
  (match best with Some s => refs_before s st | None => True end) ->
  (forall p, In p newP -> exists f, In p (store_get st f)) ->
  feed (needed_pcaps b' best nf st) newP = feed (needed_pcaps b best nf st) newP.
Proof.
  intros Hwf Hp Hb Hnew.
  pose proof (store_wf_perm _ _ _ Hp Hwf) as Hwf'.
  destruct (needed_ok b st nf Hwf best Hb) as [Ok1 Ms1].
  destruct (needed_ok b' st nf Hwf' best Hb) as [Ok2 Ms2].
  destruct (feed_sorted_permutation _ newP Ok1 Ms1) as [S1 P1].
  destruct (feed_sorted_permutation _ newP Ok2 Ms2) as [S2 P2].
  apply sorted_perm_unique; auto.
  - rewrite P1, P2. apply Permutation_app_head. apply needed_perm. exact Hp.
  - apply (store_keys_identify st (b_known b')); auto.
    intros p Hin. eapply Permutation_in in Hin; [|exact P2]. apply in_app_or in Hin as [Hin|Hin]; auto.
    apply in_flat_map in Hin as ([mn pk] & Hin & Hpk). unfold needed_pcaps in Hin. apply in_map_iff in Hin as (pi & E & Hpi).
    inversion E; subst. simpl in Hpk.
    eapply Permutation_in in Hpi; [|apply sort_by_min_perm]. apply filter_In in Hpi as [Hpi _].
    exists (pi_file pi). eapply needed_subset; eauto.
Qed.

Section Restart.
  Variable hashf : N -> N.
  Variable thr : N.
  Variable final_flush : bool.

  Theorem restart_import : forall (b' b : builder) (st : store) (nf : list N) (stack : list index),
    same_builder b' b -> store_wf st (b_known b) ->
    (forall s, In s (b_snaps b) -> refs_before s st) ->
    snd (import hashf thr final_flush b' st nf stack) = snd (import hashf thr final_flush b st nf stack) /\
    same_builder (fst (import hashf thr final_flush b' st nf stack)) (fst (import hashf thr final_flush b st nf stack)).
  Proof.
    intros b' b st nf stack [Hp Hs] Hwf Hrb.
    unfold import. rewrite Hs.
    destruct (flat_map (fun f => match store_get st f with [] => [] | l => [info_of f l] end) nf) as [|i0 rest] eqn:Hinfos.
    - split; [reflexivity|]. split; auto.
    - set (nf' := map pi_file (i0 :: rest)).
      set (oldest := fold_left (fun m i => N.min m (pi_min i)) (i0 :: rest) (pi_min i0)).
      set (best := best_snapshot (b_snaps b) oldest None).
      assert (Hbest : match best with Some s => refs_before s st | None => True end).
      { destruct best as [s|] eqn:E; auto. apply Hrb. apply (snapshot_choice_sound _ _ _ E). }
      assert (Hfeed : feed (needed_pcaps b' best nf' st) (flat_map (store_get st) nf') =
                      feed (needed_pcaps b best nf' st) (flat_map (store_get st) nf')).
      { apply feed_perm; auto. intros p Hin. apply in_flat_map in Hin as (f & _ & Hin). eauto. }
      rewrite Hfeed.
      match goal with |- context [dump ?fac nf' stack ?nx ?acc] => destruct (dump fac nf' stack nx acc) as [res nx'] end.
      cbn [fst snd b_known b_snaps]. split; [reflexivity|]. split; [|reflexivity].
      apply Permutation_app_tail. exact Hp.
  Qed.
End Restart.
