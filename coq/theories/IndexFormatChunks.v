(* C01, theorem 3 completed: Data() of a stored stream is the replay of the stored segmentation over the
   50 ms merge groups computed from the INPUT packets ([groups_of]); hence the Time of a chunk is the time of the
   first data packet of its merge group, and chunk times do not decrease per direction. *)
From Coq Require Import Lia ZifyBool ZifyN ZifyNat Arith.
From Pk Require Import IndexFormat IndexFormatCodec IndexFormatHosts IndexFormatWriter IndexFormatData IndexFormatPackets IndexFormatScan IndexFormatTimes.
Open Scope N_scope.

Notation gstate := (list (N * N) * list (N * N) * option (bool * N))%type (only parsing).

(* what one record with true time ts does to the groups *)
Definition step_rec (dir : bool) (ts sz : N) (st : gstate) : gstate :=
  let '(ptc, pts, prev) := st in
  if sz =? 0 then (ptc, pts, prev)
  else if dir then (ptc, merge_into prev dir ts sz pts, Some (dir, ts))
       else (merge_into prev dir ts sz ptc, pts, Some (dir, ts)).
Definition finish (st : gstate) : list (N * N) * list (N * N) := let '(ptc, pts, _) := st in (rev ptc, rev pts).

(* A. the first loop of Data() = a plain scan of the tagged records up to the terminator *)
Fixpoint tscan (t0 : N) (tr : list (packet_rec * N)) (st : gstate) : option (list (N * N) * list (N * N)) :=
  match tr with
  | [] => None
  | (p, b) :: rest =>
    let st' := step_rec (rec_dir p) (t0 + b * 1000) (pk_size p) st in
    if has_next p then tscan t0 rest st' else Some (finish st')
  end.

Lemma tscan_skip t0 : forall k tr st, Forall skippable (firstn k (map fst tr)) -> (k <= length tr)%nat -> tscan t0 (skipn k tr) st = tscan t0 tr st.
Proof.
  induction k as [|k IH]; intros tr st Hf Hl; [reflexivity|]. destruct tr as [|[p b] rest]; [cbn in Hl; lia|].
  cbn [map fst firstn skipn length] in *. inversion Hf as [|? ? [Hz Hn] Hr]; subst. cbn [tscan]. rewrite Hn.
  unfold step_rec. destruct st as [[ptc pts] prev]. rewrite Hz. cbn [N.eqb]. apply IH; [assumption|lia].
Qed.

Section Scan.
  Variables (t0 E0 : N).

  Lemma data_scan_exact : forall fuel tr a expect reft lastrel prev ptc pts,
      sound (map fst tr) -> (length tr < fuel)%nat -> chain a tr ->
      reft = t0 + (a / P32) * WRAP_NS -> expect + a / P32 = E0 -> (expect <> 0 -> lastrel = u32 a) ->
      last_off a tr / P32 <= E0 ->
      data_scan fuel (map fst tr) expect reft lastrel prev ptc pts = tscan t0 tr (ptc, pts, prev).
  Proof.
    induction fuel as [|fu IH]; intros tr a expect reft lastrel prev ptc pts Hs Hf Hc Hr He Hlr HE; [lia|].
    destruct tr as [|[p b] rest]; [destruct Hs|]. cbn [map fst] in Hs |- *. cbn [data_scan tscan]. cbv zeta.
    destruct Hc as (Hab & Hgap & Hrel & Hc').
    assert (Hlast : b <= last_off a ((p, b) :: rest)).
    { apply (chain_in_le_last _ a p b); [cbn [chain]; auto|now left]. }
    set (wrapped := negb (expect =? 0) && (pk_rel p <? lastrel)).
    assert (Hwrap : (if wrapped then a / P32 + 1 else a / P32) = b / P32).
    { unfold wrapped. destruct (N.eqb_spec expect 0) as [E|E]; cbn [negb andb].
      - assert (a / P32 <= b / P32) by (apply N.div_le_mono; [unfold P32; lia|assumption]).
        assert (b / P32 <= last_off a ((p, b) :: rest) / P32) by (apply N.div_le_mono; [unfold P32; lia|assumption]). lia.
      - rewrite (Hlr E), Hrel. apply (wrap_step a b Hab Hgap). }
    set (reft' := if wrapped then reft + WRAP_NS else reft).
    set (expect' := if wrapped then expect - 1 else expect).
    set (lastrel' := if expect =? 0 then lastrel else pk_rel p).
    assert (Hr' : reft' = t0 + (b / P32) * WRAP_NS) by (unfold reft'; rewrite <- Hwrap, Hr; destruct wrapped; lia).
    assert (He' : expect' + b / P32 = E0).
    { unfold expect'. rewrite <- Hwrap. destruct wrapped eqn:Ew; [|assumption].
      unfold wrapped in Ew. apply andb_true_iff in Ew. destruct Ew as [Ew _]. destruct (N.eqb_spec expect 0); [discriminate|]. lia. }
    assert (Hlr' : expect' <> 0 -> lastrel' = u32 b).
    { intros Hne. unfold lastrel'. destruct (N.eqb_spec expect 0) as [E|E]; [|assumption].
      exfalso. unfold expect', wrapped in Hne. rewrite E in Hne. cbn in Hne. now apply Hne. }
    assert (Hts : reft' + pk_rel p * 1000 = t0 + b * 1000) by (rewrite Hr', Hrel; unfold u32; apply trunc_ts).
    fold (rec_dir p). rewrite Hts. unfold step_rec.
    destruct (if pk_size p =? 0 then (ptc, pts, prev) else _) as [[ptc1 pts1] prev1] eqn:Est.
    cbn [sound] in Hs. unfold has_next in *.
    destruct (pk_flags p mod 2 =? 0); cbn [negb] in *; [reflexivity|].
    destruct Hs as (Hk & Hskip & Hsr). rewrite map_length in Hk.
    assert (Hl2 : last_off a ((p, b) :: rest) = last_off b rest) by apply last_off_cons.
    destruct (negb (pk_skip p =? 0) && (expect' =? 0)) eqn:Esk.
    - rewrite skipN_skipn, skipn_map.
      destruct (chain_skipn (N.to_nat (pk_skip p)) rest b Hc' Hk (fun _ _ => I)) as (a' & A & B & C & D & Elast).
      apply andb_true_iff in Esk. destruct Esk as [_ Esk]. apply N.eqb_eq in Esk.
      assert (Hsame : a' / P32 = b / P32).
      { assert (b / P32 <= a' / P32) by (apply N.div_le_mono; [unfold P32; lia|assumption]).
        assert (a' / P32 <= last_off b rest / P32) by (apply N.div_le_mono; [unfold P32; lia|assumption]). rewrite Hl2 in HE. lia. }
      rewrite (IH (skipn (N.to_nat (pk_skip p)) rest) a' expect' reft' lastrel' prev1 ptc1 pts1).
      + apply tscan_skip; assumption.
      + rewrite <- skipn_map. apply sound_skip; [|rewrite map_length|]; assumption.
      + rewrite skipn_length. cbn [length] in Hf. lia.
      + assumption.
      + now rewrite Hsame.
      + now rewrite Hsame.
      + intros Hne. contradiction.
      + rewrite Elast, <- Hl2. assumption.
    - apply (IH rest b expect' reft' lastrel' prev1 ptc1 pts1); auto.
      + cbn [length] in Hf. lia.
      + now rewrite <- Hl2.
  Qed.
End Scan.

(* B. on the block AddStream wrote, only the last record is the terminator: a fold over all tagged records *)
Definition tfold (t0 : N) (tr : list (packet_rec * N)) (st : gstate) : gstate :=
  fold_left (fun st pb => step_rec (rec_dir (fst pb)) (t0 + snd pb * 1000) (pk_size (fst pb)) st) tr st.

Lemma tscan_blockify t0 : forall tr st, tr <> [] -> Forall (fun x => flags_ok (fst x)) tr ->
  tscan t0 (blockify_t tr) st = Some (finish (tfold t0 tr st)).
Proof.
  induction tr as [|[p b] rest IH]; intros st Hne Hf; [contradiction|]. inversion Hf as [|? ? Hp Hr]; subst. cbn [fst] in Hp.
  destruct rest as [|[q c] r].
  - cbn [blockify_t tscan tfold fold_left fst snd]. destruct (flags_term p Hp) as [T1 T2]. rewrite T1, T2. reflexivity.
  - change (blockify_t ((p, b) :: (q, c) :: r)) with ((with_skip p (N.min (snd (set_skips (map fst ((q, c) :: r)))) 255), b) :: blockify_t ((q, c) :: r)).
    cbn [tscan]. replace (has_next (with_skip p _)) with true by (symmetry; apply (flags_has_next p Hp)).
    rewrite IH by (discriminate || assumption). reflexivity.
Qed.

(* C. the groups in terms of the input packets *)
Lemma merge_into_twice prev dir ts z1 z2 l : z1 <> 0 ->
  merge_into (Some (dir, ts)) dir ts z2 (merge_into prev dir ts z1 l) = merge_into prev dir ts (z1 + z2) l.
Proof.
  intros _. unfold merge_into at 2 3.
  assert (Hh : forall t z r, merge_into (Some (dir, ts)) dir ts z2 ((t, z) :: r) = (t, z + z2) :: r).
  { intros t z r. unfold merge_into. rewrite Bool.eqb_reflx, N.sub_diag. reflexivity. }
  destruct l as [|[t z] r]; [rewrite Hh; reflexivity|].
  destruct prev as [[pd pt]|]; [destruct (Bool.eqb pd dir && (ts - pt <? SPLIT_NS))|]; rewrite Hh; f_equal; f_equal; lia.
Qed.

Lemma step_rec_twice dir ts z1 z2 st : step_rec dir ts z2 (step_rec dir ts z1 st) = step_rec dir ts (z1 + z2) st.
Proof.
  destruct st as [[ptc pts] prev]. unfold step_rec.
  destruct (N.eqb_spec z1 0) as [->|E1]; [now rewrite N.add_0_l|].
  destruct (N.eqb_spec z2 0) as [->|E2].
  - rewrite N.add_0_r. destruct (N.eqb_spec z1 0); [contradiction|]. now destruct dir.
  - destruct (N.eqb_spec (z1 + z2) 0); [lia|]. destruct dir; now rewrite merge_into_twice.
Qed.

Lemma tfold_app t0 a b st : tfold t0 (a ++ b) st = tfold t0 b (tfold t0 a st).
Proof. unfold tfold. apply fold_left_app. Qed.

Lemma tfold_sizes t0 rel imp idx dir b : forall sizes st,
  tfold t0 (map (fun x => (x, b)) (map (fun z => {| pk_rel := rel; pk_imp := imp; pk_idx := idx; pk_size := z; pk_skip := 255;
                                                    pk_flags := flagHasNext + dir_flag dir |}) sizes)) st
  = step_rec dir (t0 + b * 1000) (sumN sizes) st.
Proof.
  induction sizes as [|z zs IH]; intros st.
  - cbn. destruct st as [[? ?] ?]. reflexivity.
  - cbn [map sumN]. unfold tfold in *. cbn [fold_left fst snd pk_size]. rewrite IH. unfold rec_dir. cbn [pk_flags].
    rewrite dir_flag_dir. apply step_rec_twice.
Qed.

Lemma tfold_packet t0 imps rel dir ds b : forall srcs first st,
  tfold t0 (map (fun x => (x, b)) (packet_records imps rel (dir_flag dir) ds first srcs)) st
  = step_rec dir (t0 + b * 1000) (match srcs with [] => 0 | _ => if first then ds else 0 end) st.
Proof.
  induction srcs as [|s r IH]; intros first st.
  - destruct st as [[? ?] ?]. reflexivity.
  - cbn [packet_records]. rewrite map_app, tfold_app, tfold_sizes, sum_split, IH, step_rec_twice. f_equal. destruct r, first; lia.
Qed.

(* the 50 ms merge groups of a stream, from its packets: per direction the list of (time of the first packet, bytes) *)
Definition packet_size (d : list (N * bytes)) (pi : N) (p : ipacket) : N :=
  match p_srcs p with [] => 0 | _ => match data_size_of pi d None with Some z => z | None => 0 end end.
Fixpoint pfold (t0 : N) (d : list (N * bytes)) (pi : N) (ps : list ipacket) (st : gstate) : gstate :=
  match ps with
  | [] => st
  | p :: r => pfold t0 d (N.succ pi) r (step_rec (p_dir p) (t0 + off_of t0 p * 1000) (packet_size d pi p) st)
  end.
Definition groups_of (s : istream) : list (N * N) * list (N * N) :=
  finish (pfold (first_ts s) (s_data s) 0 (s_packets s) ([], [], None)).

Lemma tfold_stream t0 imps d : forall ps pi st, tfold t0 (stream_records_t imps t0 d pi ps) st = pfold t0 d pi ps st.
Proof.
  induction ps as [|p r IH]; intros pi st; [reflexivity|]. cbn [stream_records_t pfold]. rewrite tfold_app, tfold_packet, IH.
  unfold packet_size. reflexivity.
Qed.

(* Data() = the replay of the stored segmentation over the groups of the input *)
Definition data_spec (s : istream) : option (list chunk) :=
  let '(gc, gs) := groups_of s in
  replay (S (length (stream_seg s))) false (stream_seg s) (stream_payload s false) (stream_payload s true) gc gs.

Theorem data_is_spec gcap L w r :
  16 < gcap <= 4 * P16 ->
  Forall (fun ids => wf_meta (snd ids)) L ->
  add_streams gcap new_writer L = Some w -> new_reader (finalize w) = Some r -> lenN (w_packets w) < P32 ->
  forall k id s rec, nth_error L k = Some (id, s) -> wf_packets s -> wf_data s ->
    lenN (stream_payload s false) + lenN (stream_payload s true) < P64 ->
    nth_error (all_streams r) k = Some rec -> data r rec = data_spec s.
Proof.
  intros Hcap Hwf Hadd Hr Hcnt k id s rec Hk [Hne Hwp] Hwd HB Hrec.
  pose proof (add_streams_winv gcap ltac:(lia) L new_writer [] w (winv_new gcap) Hwf Hadd) as (HF & _). cbn [app] in HF.
  destruct (Forall2_nth_r _ _ _ HF _ _ Hk) as (rec0 & Hrec0 & St). cbn [fst snd] in St.
  unfold all_streams in Hrec. rewrite (rw_streams w r Hr) in Hrec. assert (rec = rec0) by congruence. subst rec0.
  destruct (sd_packets _ _ _ _ _ St) as (pre & post & Hp & Hs).
  destruct (sd_data _ _ _ _ _ St) as (dpre & dpost & Hd & Hds).
  assert (Hpre : lenN pre < P32) by (rewrite Hp, lenN_app in Hcnt; lia).
  destruct (sd_wf _ _ _ _ _ St) as (_ & Ho1 & Ho2).
  set (t0 := first_ts s) in *.
  set (TR := stream_records_t (w_imports w) t0 (s_data s) 0 (s_packets s)).
  set (full := blockify_t TR).
  assert (HBk : stream_block (w_imports w) s = map fst full).
  { unfold full, TR. rewrite blockify_t_fst, stream_records_t_fst. unfold stream_block, blockify. now rewrite app_nil_r. }
  assert (Hflags : Forall (fun x => flags_ok (fst x)) TR).
  { apply Forall_forall. intros x Hx. pose proof (stream_records_flags (w_imports w) t0 (s_data s) (s_packets s) 0) as Hf.
    rewrite <- (stream_records_t_fst (w_imports w) t0 (s_data s) (s_packets s) 0) in Hf. fold TR in Hf. rewrite Forall_forall in Hf.
    apply Hf. now apply in_map. }
  assert (HR : map fst TR <> []).
  { unfold TR. rewrite stream_records_t_fst. destruct (s_packets s) as [|p0 ps] eqn:Ep; [contradiction|]. apply stream_records_nonempty.
    destruct Hwd as (_ & _ & Hsrc). rewrite Ep in Hsrc. now inversion Hsrc. }
  assert (HTR : TR <> []) by (intros E; rewrite E in HR; now apply HR).
  assert (Hsound : sound (map fst full)).
  { unfold full. rewrite blockify_t_fst. apply blockify_sound; [assumption|].
    apply Forall_forall. intros x Hx. apply in_map_iff in Hx. destruct Hx as (y & <- & Hy). rewrite Forall_forall in Hflags. now apply Hflags. }
  assert (Hchain : chain 0 full) by (unfold full, TR; apply blockify_t_chain; eapply stream_chain; exact Hwp).
  unfold data. rewrite (rw_packets w r Hr), (rw_data w r Hr).
  rewrite Hs. unfold u32. rewrite N.mod_small by assumption. rewrite Hp, skipN_app, HBk.
  assert (Hft : first_packet_time r rec = t0).
  { unfold first_packet_time. rewrite (rw_ref w r Hr). apply (sd_first _ _ _ _ _ St). }
  rewrite Hft.
  rewrite (data_scan_local (S (length (map fst full ++ post))) (S (length full)) (map fst full) post _ _ _ _ _ _ Hsound)
    by (rewrite ?app_length, ?map_length; lia).
  assert (HE : last_off 0 full / P32 <= expect_wraps rec).
  { unfold full. rewrite last_off_blockify_t.
    assert (Hexp : expect_wraps rec = (last_ts s - t0 + 1000) / WRAP_NS).
    { unfold expect_wraps. pose proof (sd_first _ _ _ _ _ St) as Hf. pose proof (sd_last _ _ _ _ _ St) as Hl. fold t0 in Hf.
      set (X := w_ref w * NS) in *. f_equal. f_equal.
      replace (st_last rec + P64 - st_first rec) with ((st_last rec - st_first rec) + 1 * P64) by lia.
      unfold u64. rewrite N.mod_add by (unfold P64; lia). rewrite N.mod_small by lia. lia. }
    rewrite Hexp.
    assert (Hbl : forall q, In q (s_packets s) -> off_of t0 q <= (last_ts s - t0) / 1000).
    { intros q Hq. unfold last_ts. destruct (s_packets s) as [|p0 ps] eqn:Ep; [destruct Hq|].
      apply (pkt_wf_le_last t0 (p0 :: ps) 0 None p0 q Hwp Hq). }
    assert (Hlo : last_off 0 TR <= (last_ts s - t0) / 1000).
    { destruct (last_off_in TR 0) as [E|(p & Hin)]; [rewrite E; lia|].
      destruct (stream_records_t_in (w_imports w) t0 s (s_packets s) 0 p (last_off 0 TR)) with (2 := Hin) as (q & Hq & Eb & _).
      - intros j q Hj. now rewrite nthN_nth_error, N.add_0_l, Nat2N.id.
      - rewrite Eb. now apply Hbl. }
    unfold WRAP_NS. rewrite (N.mul_comm P32 1000), <- N.div_div by (unfold P32; lia).
    replace (last_ts s - t0 + 1000) with ((last_ts s - t0) + 1 * 1000) by lia. rewrite N.div_add by lia.
    etransitivity; [apply N.div_le_mono; [unfold P32; lia|exact Hlo]|]. apply N.div_le_mono; [unfold P32; lia|lia]. }
  rewrite (data_scan_exact t0 (expect_wraps rec) (S (length full)) full 0 (expect_wraps rec) t0 0 None [] []
                           Hsound ltac:(lia) Hchain ltac:(cbn; lia) ltac:(cbn; lia) (fun _ => eq_refl) HE).
  unfold full. rewrite (tscan_blockify t0 TR _ HTR Hflags). unfold TR. rewrite tfold_stream.
  unfold data_spec, groups_of. fold t0.
  destruct (finish (pfold t0 (s_data s) 0 (s_packets s) ([], [], None))) as [gc gs].
  rewrite Hds, Hd, skipN_app. unfold stream_bytes. rewrite (sd_cbytes _ _ _ _ _ St), (sd_sbytes _ _ _ _ _ St).
  rewrite <- !app_assoc. rewrite takeN_app, skipN_app, takeN_app, skipN_app, !N.eqb_refl. cbn [negb orb].
  unfold stream_seg, stream_payload.
  set (seg := segmentation false (data_runs (s_packets s) (s_data s))).
  transitivity (replay (S (length seg)) false (seg ++ []) (payload_of (s_packets s) false (s_data s)) (payload_of (s_packets s) true (s_data s)) gc gs);
    [|now rewrite app_nil_r].
  unfold seg. apply replay_tail; auto using run_total_data_runs.
  - now apply run_sizes_bounded.
  - rewrite app_nil_r. lia.
Qed.

(* ------------------------------------------------------------------ *)
(* chunk times do not decrease per direction                           *)
(* ------------------------------------------------------------------ *)
Fixpoint nondec (lb : N) (l : list N) : Prop := match l with [] => True | x :: r => lb <= x /\ nondec x r end.

Lemma nondec_weaken l : forall lb lb', lb' <= lb -> nondec lb l -> nondec lb' l.
Proof. destruct l; intros lb lb' H Hn; [exact I|]. destruct Hn. split; [lia|assumption]. Qed.
Lemma nondec_snoc : forall a lb x, nondec lb a -> (forall y, In y a -> y <= x) -> lb <= x -> nondec lb (a ++ [x]).
Proof.
  induction a as [|y r IH]; intros lb x Hn Hall Hlb; cbn [app nondec]; [auto|]. destruct Hn as [H1 H2].
  split; [assumption|]. apply IH; [assumption|intros z Hz; apply Hall; now right|apply Hall; now left].
Qed.
Lemma last_indep {A} (l : list A) : l <> [] -> forall d d', last l d = last l d'.
Proof. induction l as [|x r IH]; intros Hne d d'; [contradiction|]. destruct r as [|y r']; [reflexivity|]. change (last (x :: y :: r') d) with (last (y :: r') d). change (last (x :: y :: r') d') with (last (y :: r') d'). apply IH. discriminate. Qed.
Lemma last_cons_d {A} (x : A) l d : last (x :: l) d = last l x.
Proof. destruct l as [|y r]; [reflexivity|]. change (last (x :: y :: r) d) with (last (y :: r) d). apply last_indep. discriminate. Qed.

Lemma nondec_app_inv : forall a lb b, nondec lb (a ++ b) -> nondec lb a /\ nondec (last a lb) b.
Proof.
  induction a as [|x r IH]; intros lb b H; cbn [app] in *; [split; [exact I|exact H]|]. destruct H as [H1 H2].
  destruct (IH _ _ H2) as [A B]. split; [split; assumption|]. now rewrite last_cons_d.
Qed.
Lemma nondec_app : forall a lb b, nondec lb a -> nondec (last a lb) b -> nondec lb (a ++ b).
Proof.
  induction a as [|x r IH]; intros lb b Ha Hb; cbn [app] in *; [exact Hb|]. destruct Ha as [H1 H2]. split; [assumption|].
  apply IH; [assumption|]. now rewrite last_cons_d in Hb.
Qed.
Lemma nondec_last_ge : forall a lb, nondec lb a -> lb <= last a lb.
Proof. induction a as [|x r IH]; intros lb H; [cbn; lia|]. destruct H as [H1 H2]. specialize (IH _ H2). rewrite last_cons_d. lia. Qed.

(* the cutter hands out the group times in order *)
Lemma emit_nondec : forall fuel dir content sz pt cks c' pt' lb,
    nondec lb (map fst pt) -> emit fuel dir content sz pt = Some (cks, c', pt') -> nondec lb (map c_ts cks ++ map fst pt').
Proof.
  induction fuel as [|fu IH]; intros dir content sz pt cks c' pt' lb Hn H; [discriminate|]. cbn [emit] in H.
  destruct pt as [|[t z] r]; [discriminate|]. cbn [map fst nondec] in Hn. destruct Hn as [H1 H2].
  assert (Hrest : nondec t (map fst (if z - N.min sz z =? 0 then r else (t, z - N.min sz z) :: r))).
  { destruct (z - N.min sz z =? 0); [assumption|]. cbn [map fst nondec]. split; [lia|assumption]. }
  destruct (sz - N.min sz z =? 0).
  - inversion H; subst. cbn [map c_ts app nondec]. split; assumption.
  - destruct (emit fu dir _ _ _) as [[[cs0 c0] p0]|] eqn:Ee; [|discriminate]. inversion H; subst.
    cbn [map c_ts app nondec]. split; [assumption|]. eapply IH; eauto.
Qed.

Definition times_of (d : bool) (cks : list chunk) : list N := map c_ts (filter (fun c => Bool.eqb (c_dir c) d) cks).
Lemma times_of_app d a b : times_of d (a ++ b) = times_of d a ++ times_of d b.
Proof. unfold times_of. now rewrite filter_app, map_app. Qed.
Lemma times_of_same d cks : Forall (fun c => c_dir c = d) cks -> times_of d cks = map c_ts cks.
Proof. unfold times_of. induction 1 as [|c r Hc Hr IH]; [reflexivity|]. cbn [filter]. rewrite Hc, Bool.eqb_reflx. cbn [map]. now rewrite IH. Qed.
Lemma times_of_other d cks : Forall (fun c => c_dir c = negb d) cks -> times_of d cks = [].
Proof. unfold times_of. induction 1 as [|c r Hc Hr IH]; [reflexivity|]. cbn [filter]. rewrite Hc. destruct d; exact IH. Qed.

Lemma emit_dir : forall fuel dir content sz pt cks c' pt', emit fuel dir content sz pt = Some (cks, c', pt') -> Forall (fun c => c_dir c = dir) cks.
Proof.
  intros. destruct (emit_pred (fun _ => True) _ _ _ _ _ _ _ _ ltac:(apply Forall_forall; intros; exact I) H) as [A _].
  eapply Forall_impl; [|exact A]. now intros c [E _].
Qed.

Lemma replay_nondec : forall fuel d seg cc cs ptc pts cks lbc lbs,
    nondec lbc (map fst ptc) -> nondec lbs (map fst pts) -> replay fuel d seg cc cs ptc pts = Some cks ->
    nondec lbc (times_of false cks) /\ nondec lbs (times_of true cks).
Proof.
  induction fuel as [|fu IH]; intros d seg cc cs ptc pts cks lbc lbs Hc Hs H; [discriminate|]. cbn [replay] in H.
  assert (Hmain : match read_varint seg 0 with
                  | None => None
                  | Some (sz, seg') =>
                    if sz =? 0 then replay fu (negb d) seg' cc cs ptc pts
                    else if d then match emit (S (length pts)) d cs sz pts with
                                   | Some (ch, cs', pts') => match replay fu (negb d) seg' cc cs' ptc pts' with Some l => Some (ch ++ l) | None => None end
                                   | None => None end
                         else match emit (S (length ptc)) d cc sz ptc with
                              | Some (ch, cc', ptc') => match replay fu (negb d) seg' cc' cs ptc' pts with Some l => Some (ch ++ l) | None => None end
                              | None => None end
                  end = Some cks -> nondec lbc (times_of false cks) /\ nondec lbs (times_of true cks)).
  { intros H'. destruct (read_varint seg 0) as [[sz seg']|]; [|discriminate].
    destruct (sz =? 0); [eapply IH; eauto|]. destruct d.
    - destruct (emit (S (length pts)) true cs sz pts) as [[[ch cs'] pts']|] eqn:Ee; [|discriminate].
      destruct (replay fu (negb true) seg' cc cs' ptc pts') as [l|] eqn:Er; [|discriminate]. inversion H'; subst.
      pose proof (emit_dir _ _ _ _ _ _ _ _ Ee) as Hd. pose proof (emit_nondec _ _ _ _ _ _ _ _ lbs Hs Ee) as Hn.
      destruct (nondec_app_inv _ _ _ Hn) as [N1 N2].
      destruct (IH _ _ _ _ _ _ _ lbc (last (map c_ts ch) lbs) Hc N2 Er) as [A B].
      rewrite !times_of_app, (times_of_other false ch) by exact Hd. rewrite (times_of_same true ch Hd). cbn [app].
      split; [assumption|]. now apply nondec_app.
    - destruct (emit (S (length ptc)) false cc sz ptc) as [[[ch cc'] ptc']|] eqn:Ee; [|discriminate].
      destruct (replay fu (negb false) seg' cc' cs ptc' pts) as [l|] eqn:Er; [|discriminate]. inversion H'; subst.
      pose proof (emit_dir _ _ _ _ _ _ _ _ Ee) as Hd. pose proof (emit_nondec _ _ _ _ _ _ _ _ lbc Hc Ee) as Hn.
      destruct (nondec_app_inv _ _ _ Hn) as [N1 N2].
      destruct (IH _ _ _ _ _ _ _ (last (map c_ts ch) lbc) lbs N2 Hs Er) as [A B].
      rewrite !times_of_app, (times_of_other true ch) by exact Hd. rewrite (times_of_same false ch Hd). cbn [app].
      split; [now apply nondec_app|assumption]. }
  destruct cc as [|c0 ccr], cs as [|s0 csr]; try (apply Hmain; exact H). inversion H; subst. split; exact I.
Qed.

(* ------------------------------------------------------------------ *)
(* the groups of the input: which packet starts a group, and their order *)
(* ------------------------------------------------------------------ *)
Definition ts_of (t0 : N) (p : ipacket) : N := t0 + off_of t0 p * 1000.
(* the last data-carrying packet of a prefix: (direction, time) *)
Fixpoint last_data (t0 : N) (d : list (N * bytes)) (pi : N) (ps : list ipacket) (acc : option (bool * N)) : option (bool * N) :=
  match ps with
  | [] => acc
  | p :: r => last_data t0 d (N.succ pi) r (if packet_size d pi p =? 0 then acc else Some (p_dir p, ts_of t0 p))
  end.
(* reader.go:501: a data packet opens a new group unless the previous data packet has the same direction and is
   less than 50 ms older *)
Definition group_start (prev : option (bool * N)) (dir : bool) (ts : N) : Prop :=
  match prev with None => True | Some (pd, pt) => pd <> dir \/ SPLIT_NS <= ts - pt end.

Lemma last_data_app t0 d : forall a pi b acc, last_data t0 d pi (a ++ b) acc = last_data t0 d (pi + lenN a) b (last_data t0 d pi a acc).
Proof.
  induction a as [|p r IH]; intros pi b acc; cbn [app last_data]; [now rewrite lenN_nil, N.add_0_r|].
  rewrite IH, lenN_cons. f_equal. lia.
Qed.

Lemma merge_into_inv (P : N -> Prop) prev dir ts sz l ub :
  Forall (fun tz => P (fst tz)) l -> nondec 0 (rev (map fst l)) -> Forall (fun tz => fst tz <= ub) l -> ub <= ts ->
  (forall pt, prev = Some (dir, pt) -> l <> []) -> (group_start prev dir ts -> P ts) ->
  Forall (fun tz => P (fst tz)) (merge_into prev dir ts sz l) /\ nondec 0 (rev (map fst (merge_into prev dir ts sz l))) /\
  Forall (fun tz => fst tz <= ts) (merge_into prev dir ts sz l) /\ merge_into prev dir ts sz l <> [].
Proof.
  intros HP Hn Hub Hle Hne Hst.
  assert (Hub' : Forall (fun tz => fst tz <= ts) l) by (eapply Forall_impl; [|exact Hub]; intros; cbn in *; lia).
  assert (Hcons : P ts -> Forall (fun tz => P (fst tz)) ((ts, sz) :: l) /\ nondec 0 (rev (map fst ((ts, sz) :: l))) /\
                          Forall (fun tz => fst tz <= ts) ((ts, sz) :: l) /\ (ts, sz) :: l <> []).
  { intros Hp. split; [constructor; assumption|]. split; [|split; [constructor; [cbn; lia|assumption]|discriminate]].
    cbn [map fst rev]. apply nondec_snoc; [assumption| |lia]. intros y Hy. apply in_rev in Hy. apply in_map_iff in Hy.
    destruct Hy as (tz & <- & Hin). rewrite Forall_forall in Hub'. now apply Hub'. }
  unfold merge_into. destruct l as [|[t z] r].
  - apply Hcons. apply Hst. unfold group_start. destruct prev as [[pd pt]|]; [|exact I]. left. intros E. subst pd. now apply (Hne pt).
  - destruct prev as [[pd pt]|]; [|apply Hcons; apply Hst; exact I].
    destruct (Bool.eqb pd dir) eqn:E1; cbn [andb].
    + destruct (N.ltb_spec (ts - pt) SPLIT_NS) as [E2|E2].
      * inversion HP; subst. inversion Hub'; subst. cbn [fst] in *.
        split; [constructor; assumption|]. split; [exact Hn|]. split; [constructor; assumption|discriminate].
      * apply Hcons. apply Hst. right. exact E2.
    + apply Hcons. apply Hst. left. intros E. subst. now rewrite Bool.eqb_reflx in E1.
Qed.

Section Groups.
  Variable s : istream.
  Let t0 := first_ts s.
  Let dd := s_data s.

  (* t is the time of a data packet of direction d that opens a merge group *)
  Definition Pstart (d : bool) (t : N) : Prop :=
    exists pre q post, s_packets s = pre ++ q :: post /\ packet_size dd (lenN pre) q <> 0 /\ p_dir q = d /\ t = ts_of t0 q /\
                       group_start (last_data t0 dd 0 pre None) d t.

  Definition ginv (done : list ipacket) (a : N) (st : list (N * N) * list (N * N) * option (bool * N)) : Prop :=
    let '(ptc, pts, prev) := st in
    prev = last_data t0 dd 0 done None /\
    Forall (fun tz => Pstart false (fst tz)) ptc /\ Forall (fun tz => Pstart true (fst tz)) pts /\
    nondec 0 (rev (map fst ptc)) /\ nondec 0 (rev (map fst pts)) /\
    Forall (fun tz => fst tz <= t0 + a * 1000) ptc /\ Forall (fun tz => fst tz <= t0 + a * 1000) pts /\
    (forall pt, prev = Some (false, pt) -> ptc <> []) /\ (forall pt, prev = Some (true, pt) -> pts <> []).

  Lemma pfold_ginv : forall ps done a prevsrc st,
      s_packets s = done ++ ps -> pkt_wf t0 a prevsrc ps -> ginv done a st ->
      exists a', ginv (s_packets s) a' (pfold t0 dd (lenN done) ps st).
  Proof.
    induction ps as [|p r IH]; intros done a prevsrc st Hw Hwf Hi.
    - rewrite app_nil_r in Hw. exists a. now rewrite Hw.
    - destruct Hwf as (H1 & H2 & H3 & H4 & H5). cbn [pfold]. fold (off_of t0 p) in *.
      assert (Hw' : s_packets s = (done ++ [p]) ++ r) by (rewrite Hw, <- app_assoc; reflexivity).
      replace (N.succ (lenN done)) with (lenN (done ++ [p])) by (rewrite lenN_app, lenN_cons, lenN_nil; lia).
      apply (IH (done ++ [p]) (off_of t0 p) (last_src prevsrc (p_srcs p)) _ Hw' H5).
      destruct st as [[ptc pts] prev]. destruct Hi as (Ep & Pc & Ps & Nc & Ns & Uc & Us & Ec & Es).
      assert (Hld : last_data t0 dd 0 (done ++ [p]) None =
                    if packet_size dd (lenN done) p =? 0 then last_data t0 dd 0 done None else Some (p_dir p, ts_of t0 p)).
      { rewrite last_data_app. cbn [last_data]. now rewrite N.add_0_l. }
      assert (Hle : t0 + a * 1000 <= t0 + off_of t0 p * 1000) by nia.
      assert (Uc' : Forall (fun tz => fst tz <= t0 + off_of t0 p * 1000) ptc) by (eapply Forall_impl; [|exact Uc]; intros; cbn in *; lia).
      assert (Us' : Forall (fun tz => fst tz <= t0 + off_of t0 p * 1000) pts) by (eapply Forall_impl; [|exact Us]; intros; cbn in *; lia).
      unfold step_rec, ginv. rewrite Hld.
      destruct (N.eqb_spec (packet_size dd (lenN done) p) 0) as [Ez|Ez].
      + repeat split; assumption.
      + assert (Hstart : forall d, p_dir p = d -> group_start prev d (ts_of t0 p) -> Pstart d (ts_of t0 p)).
        { intros d Hd Hg. exists done, p, r. rewrite <- Ep. auto. }
        destruct (p_dir p) eqn:Ed.
        * destruct (merge_into_inv (Pstart true) prev true (t0 + off_of t0 p * 1000) (packet_size dd (lenN done) p) pts (t0 + a * 1000)
                                   Ps Ns Us Hle Es (Hstart true eq_refl)) as (A & B & C & D).
          split; [reflexivity|]. split; [assumption|]. split; [assumption|]. split; [assumption|]. split; [assumption|].
          split; [assumption|]. split; [assumption|]. split; [intros pt E; discriminate|intros; assumption].
        * destruct (merge_into_inv (Pstart false) prev false (t0 + off_of t0 p * 1000) (packet_size dd (lenN done) p) ptc (t0 + a * 1000)
                                   Pc Nc Uc Hle Ec (Hstart false eq_refl)) as (A & B & C & D).
          split; [reflexivity|]. split; [assumption|]. split; [assumption|]. split; [assumption|]. split; [assumption|].
          split; [assumption|]. split; [assumption|]. split; [intros; assumption|intros pt E; discriminate].
  Qed.

  (* the groups of a well-formed stream: every group starts at a group-opening data packet; times do not decrease *)
  Theorem groups_of_spec : wf_packets s ->
    Forall (fun tz => Pstart false (fst tz)) (fst (groups_of s)) /\ Forall (fun tz => Pstart true (fst tz)) (snd (groups_of s)) /\
    nondec 0 (map fst (fst (groups_of s))) /\ nondec 0 (map fst (snd (groups_of s))).
  Proof.
    intros [_ Hwp]. unfold groups_of. fold t0 dd.
    destruct (pfold_ginv (s_packets s) [] 0 None ([], [], None) eq_refl Hwp) as (a' & Hi).
    { cbn. repeat split; try constructor; intros; discriminate. }
    change (lenN []) with 0 in Hi.
    destruct (pfold t0 dd 0 (s_packets s) ([], [], None)) as [[ptc pts] prev]. destruct Hi as (_ & Pc & Ps & Nc & Ns & _).
    cbn [finish fst snd]. rewrite !map_rev. repeat split; try assumption; apply Forall_rev; assumption.
  Qed.
End Groups.

(* ------------------------------------------------------------------ *)
(* Theorem 3, the Time clause                                          *)
(* ------------------------------------------------------------------ *)
Theorem data_spec_times s cks : wf_packets s -> data_spec s = Some cks ->
  Forall (fun c => Pstart s (c_dir c) (c_ts c)) cks /\ nondec 0 (times_of false cks) /\ nondec 0 (times_of true cks).
Proof.
  intros Hwp H. destruct (groups_of_spec s Hwp) as (Pc & Ps & Nc & Ns). unfold data_spec in H.
  destruct (groups_of s) as [gc gs]. cbn [fst snd] in *. split.
  - pose proof (replay_pred (Pstart s false) (Pstart s true) _ _ _ _ _ _ _ _ Pc Ps H) as Hall.
    eapply Forall_impl; [|exact Hall]. intros c Hc. cbv beta in Hc. destruct (c_dir c); exact Hc.
  - exact (replay_nondec _ _ _ _ _ _ _ _ 0 0 Nc Ns H).
Qed.

Theorem data_chunk_times_stored gcap L w r :
  16 < gcap <= 4 * P16 ->
  Forall (fun ids => wf_meta (snd ids)) L ->
  add_streams gcap new_writer L = Some w -> new_reader (finalize w) = Some r -> lenN (w_packets w) < P32 ->
  forall k id s rec cks, nth_error L k = Some (id, s) -> wf_packets s -> wf_data s ->
    lenN (stream_payload s false) + lenN (stream_payload s true) < P64 ->
    nth_error (all_streams r) k = Some rec -> data r rec = Some cks ->
    Forall (fun c => Pstart s (c_dir c) (c_ts c)) cks /\ nondec 0 (times_of false cks) /\ nondec 0 (times_of true cks).
Proof.
  intros Hcap Hwf Hadd Hr Hcnt k id s rec cks Hk Hwp Hwd HB Hrec Hdata.
  rewrite (data_is_spec gcap L w r Hcap Hwf Hadd Hr Hcnt k id s rec Hk Hwp Hwd HB Hrec) in Hdata.
  now apply data_spec_times.
Qed.
