(* Every snapshot the packet loop of FromPcap creates on a UDP feed is [valid_udp] for every later full feed that agrees
   with the old one before the snapshot time: its keep set (packets not older than the snapshot, or referenced = packets
   of the streams whose last packet is not older than the timeout at that time) is consistent with stream membership.
   Slot level first ([snapshot_consistent]); the bridge to Import.loop_step / Import.referenced follows. *)
From Pk Require Import Udp UdpProofs UdpInterleave UdpReplay UdpSlots Import ImportProofs ImportSnapshot ImportSnapshotUdp ImportBatchUdp.
From Coq Require Import Lia PeanoNat Arith Sorting.Permutation.
From Coq Require Import ZifyBool ZifyN ZifyNat.

(* ---- last activity of an open slot = time of its newest packet ---- *)
Lemma s_pkts_add s r d b : s_pkts (add_udp_packet s r d b) = (r, d) :: s_pkts s.
Proof.
  unfold add_udp_packet, add_data. destruct b as [|x b]; [reflexivity|].
  cbn [s_pkts s_npk add_packet]. destruct (find_back ((r, d) :: s_pkts s) (s_npk s + 1) r); reflexivity.
Qed.

Definition newest_ts (x : slot) : option N := match s_pkts (fst x) with (r, _) :: _ => Some (pref_ts r) | [] => None end.
Definition Linv (sl : list slot) : Prop := forall x l, In x sl -> snd x = Some l -> newest_ts x = Some l.

Lemma newest_ts_sflush1 t x : newest_ts (sflush1 t x) = newest_ts x.
Proof. unfold newest_ts. rewrite sflush1_pkts. reflexivity. Qed.

Lemma Linv_sflush t sl : Linv sl -> Linv (sflush t sl).
Proof.
  intros H x l Hx Hs. unfold sflush in Hx. apply in_map_iff in Hx as (y & <- & Hy).
  rewrite newest_ts_sflush1. apply H; auto. destruct y as [sy oy]. rewrite sflush1_snd in Hs. simpl.
  destruct oy as [l0|]; [|discriminate]. destruct (expired t l0); [discriminate|exact Hs].
Qed.

Lemma Linv_sasm p : forall sl, Linv sl -> Linv (sasm sl p).
Proof.
  induction sl as [|y sl IH]; intros H x l Hx Hs; simpl in Hx.
  - destruct Hx as [<-|[]]. unfold new_slot, newest_ts in *. simpl in *. rewrite s_pkts_add. inversion Hs. reflexivity.
  - destruct (is_open (snd y) && smatch (fst y) (p_src p) (p_dst p)).
    + destruct Hx as [<-|Hx]; [|apply H; auto; right; auto].
      unfold upd_slot, newest_ts in *. simpl in *. rewrite s_pkts_add. inversion Hs. reflexivity.
    + destruct Hx as [<-|Hx]; [apply H; auto; left; auto|]. apply IH; auto. intros z lz Hz. apply H. right; auto.
Qed.

Lemma Linv_run : forall l sl, Linv sl -> Linv (fold_left sstep l sl).
Proof. induction l as [|p l IH]; intros sl H; simpl; auto. apply IH. apply Linv_sasm, Linv_sflush, H. Qed.

Lemma Linv_nil : Linv [].
Proof. intros x l []. Qed.

Lemma suniq_run : forall l sl, suniq sl -> suniq (fold_left sstep l sl).
Proof. induction l as [|p l IH]; intros sl H; simpl; auto. apply IH, suniq_sstep, H. Qed.

Lemma NoDup_app_left {A} (l1 l2 : list A) : NoDup (l1 ++ l2) -> NoDup l1.
Proof.
  induction l1 as [|x l1 IH]; simpl; intros H; [constructor|]. inversion H; subst. constructor; auto.
  intros Hin. apply H2. apply in_or_app. auto.
Qed.

(* ---- a packet key occurs in one slot only ---- *)
Lemma members_distinct {A B K} (h : A -> list B) (g : B -> K) : forall sl,
  NoDup (map g (flat_map h sl)) ->
  forall i j x y a b, nth_error sl i = Some x -> In a (h x) -> nth_error sl j = Some y -> In b (h y) -> g a = g b -> i = j.
Proof.
  induction sl as [|z sl IH]; intros Hn i j x y a b Hi Ha Hj Hb E; [destruct i; discriminate|].
  simpl in Hn. rewrite map_app in Hn.
  destruct i as [|i], j as [|j]; simpl in *; auto.
  - exfalso. inversion Hi; subst z. apply (NoDup_app_disjoint _ _ (g a) Hn); [apply in_map; auto|].
    rewrite E. apply in_map. apply in_flat_map. exists y. split; [eapply nth_error_In; eauto|auto].
  - exfalso. inversion Hj; subst z. apply (NoDup_app_disjoint _ _ (g b) Hn); [apply in_map; auto|].
    rewrite <- E. apply in_map. apply in_flat_map. exists x. split; [eapply nth_error_In; eauto|auto].
  - f_equal. eapply IH; eauto. eapply NoDup_app_l; eauto.
Qed.

Section Valid.
  Variable T : N.
  Variables pre rest : list packet.
  Variable nf : list N.
  Hypothesis Hpre_ts : Forall (fun p => p_ts p < T) pre.
  Hypothesis Hrest_ts : Forall (fun p => T <= p_ts p) rest.
  Hypothesis Hkeys : NoDup (map packet_key (pre ++ rest)).
  Hypothesis Hpre_nf : Forall (fun p => mem_file (p_file p) nf = false) pre.

  Definition slp : list slot := fold_left sstep pre [].
  (* Import.referenced on the flushed state *)
  Definition refs : list (N * N) := flat_map (stream_refs T) (map fst (sflush T slp)).
  Definition snapT : snapshot := mkSnap T refs.
  Definition keepr : pref -> bool := keepr_of snapT.

  Definition recentT (x : slot) : bool :=
    match s_pkts (fst x) with (r0, _) :: _ => negb (expired T (pref_ts r0)) | [] => false end.
  Definition inR (r : pref) : bool := existsb (fun e => (fst e =? fst (fst r)) && (snd e =? snd (fst r))) refs.

  Lemma keepr_eq r : keepr r = (T <=? pref_ts r) || inR r.
  Proof. reflexivity. Qed.

  Lemma stream_refs_flushed x :
    stream_refs T (fst (sflush1 T x)) = if recentT x then map pkey (pk x) else [].
  Proof.
    unfold stream_refs, recentT. rewrite sflush1_pkts. destruct (s_pkts (fst x)) as [|[r0 d0] l] eqn:E; [reflexivity|].
    destruct (expired T (pref_ts r0)); simpl; [reflexivity|].
    rewrite sflush1_packets. unfold pk. rewrite map_map. apply map_ext. intros [[[f i] t] d]. reflexivity.
  Qed.

  Lemma refs_eq : refs = flat_map (fun x => if recentT x then map pkey (pk x) else []) slp.
  Proof.
    unfold refs, sflush. rewrite map_map. rewrite flat_map_concat_map, map_map, <- flat_map_concat_map.
    apply flat_map_ext. intros x. apply stream_refs_flushed.
  Qed.

  Lemma inR_in r : inR r = true <-> In (pkey r) refs.
  Proof.
    unfold inR. rewrite existsb_exists. split.
    - intros ([f i] & Hin & E). apply Bool.andb_true_iff in E as [E1 E2]. apply N.eqb_eq in E1, E2. simpl in *. subst.
      unfold pkey. exact Hin.
    - intros H. exists (pkey r). split; auto. unfold pkey. simpl. rewrite !N.eqb_refl. reflexivity.
  Qed.

  Lemma slp_keys : NoDup (map pkey (flat_map pk slp)).
  Proof.
    pose proof (run_perm pre []) as Hp. simpl in Hp.
    eapply Permutation_NoDup; [apply Permutation_map, Permutation_sym, Hp|]. rewrite map_map.
    rewrite map_app in Hkeys. eapply NoDup_app_left. exact Hkeys.
  Qed.

  (* a packet of slot x of the state at the snapshot is referenced iff x is recent *)
  Lemma inR_slot i x r : nth_error slp i = Some x -> In r (pk x) -> inR r = recentT x.
  Proof.
    intros Hi Hr. apply Bool.eq_true_iff_eq. rewrite inR_in, refs_eq, in_flat_map. split.
    - intros (y & Hy & Hin). destruct (recentT y) eqn:Ey; [|destruct Hin].
      apply in_map_iff in Hin as (r' & E & Hr'). apply In_nth_error in Hy as [j Hj].
      assert (j = i) by (eapply (members_distinct pk pkey slp slp_keys); eauto). subst j.
      rewrite Hi in Hj. inversion Hj; subst. exact Ey.
    - intros Hrec. exists x. split; [eapply nth_error_In; eauto|]. rewrite Hrec. apply in_map. exact Hr.
  Qed.

  Lemma pre_pref_ts r : In r (map pref_of pre) -> pref_ts r < T.
  Proof. intros H. apply in_map_iff in H as (p & <- & Hp). rewrite Forall_forall in Hpre_ts. apply Hpre_ts. exact Hp. Qed.

  Lemma rest_pref_ts (l : list packet) r : incl l rest -> In r (map pref_of l) -> T <= pref_ts r.
  Proof. intros Hl H. apply in_map_iff in H as (p & <- & Hp). rewrite Forall_forall in Hrest_ts. apply Hrest_ts. auto. Qed.

  Lemma sflush1_open t y l : snd (sflush1 t y) = Some l -> snd y = Some l /\ expired t l = false.
  Proof.
    destruct y as [sy oy]. rewrite sflush1_snd. simpl. destruct oy as [l0|]; [|discriminate].
    destruct (expired t l0) eqn:E; [discriminate|]. intros H; inversion H; subst. auto.
  Qed.

  Lemma slots_from_nil (l : list packet) t j x : nth_error (sflush t (fold_left sstep l [])) j = Some x ->
    pk x <> [] /\ incl (pk x) (map pref_of l).
  Proof.
    intros H. pose proof (grows_trans _ _ _ _ _ (grows_run l []) (grows_sflush t (fold_left sstep l []))) as (_ & _ & Hn).
    destruct (Hn j x ltac:(simpl; lia) H) as [A B]. split; auto. rewrite app_nil_r in B. exact B.
  Qed.

  (* ---------------------------------------------------------------- before the snapshot time *)
  Lemma consistent_pre : forall l2 l1, pre = l1 ++ l2 ->
    consistent keepr nf slp rest -> consistent keepr nf (fold_left sstep l1 []) (l2 ++ rest).
  Proof.
    induction l2 as [|q l2 IH]; intros l1 Hp Hrest.
    - rewrite app_nil_r in Hp. subst l1. exact Hrest.
    - simpl. set (sl := fold_left sstep l1 []).
      assert (Hq : In q pre) by (rewrite Hp; apply in_or_app; right; left; auto).
      assert (Hqts : p_ts q < T) by (rewrite Forall_forall in Hpre_ts; auto).
      split; [|split].
      + (* the slot q joins and q end up in the same slot of the state at the snapshot *)
        intros x Hx Hopen Hmatch. apply In_nth_error in Hx as [j Hj].
        destruct x as [sx ox]. simpl in Hopen, Hmatch. destruct ox as [lx|]; [|discriminate].
        assert (Hu : suniq (sflush (p_ts q) sl)) by (apply suniq_sflush, suniq_run, suniq_empty).
        destruct (sasm_cases (sflush (p_ts q) sl) q) as [(i & s0 & l0 & Hn & Hm & He)|[Hall _]].
        2:{ rewrite (Hall _ _ _ Hj) in Hmatch. discriminate. }
        assert (j = i) by (eapply Hu; eauto). subst j. rewrite Hn in Hj. inversion Hj; subst s0 l0. clear Hj.
        assert (Hslp : slp = fold_left sstep l2 (sstep sl q)).
        { unfold slp. rewrite Hp, fold_left_app. reflexivity. }
        pose proof (grows_run l2 (sstep sl q)) as (_ & Hold & _). rewrite <- Hslp in Hold.
        assert (Hi : nth_error (sstep sl q) i = Some (upd_slot q (sx, Some lx))).
        { unfold sstep. rewrite He, nth_error_upd_nth, Nat.eqb_refl, Hn. reflexivity. }
        destruct (Hold _ _ Hi) as (xf & extra & Hxf & [Gp _] & _).
        rewrite packets_upd in Gp. cbn [fst] in Gp.
        assert (Hin : forall r, In r (pk (sx, Some lx)) \/ r = pref_of q -> In r (pk xf)).
        { intros r Hr. unfold pk. rewrite Gp, !map_app. cbn [fst]. destruct Hr as [Hr| ->].
          - apply in_or_app. left. apply in_or_app. left. exact Hr.
          - apply in_or_app. left. apply in_or_app. right. left. reflexivity. }
        destruct (slots_from_nil l1 (p_ts q) i (sx, Some lx) Hn) as [_ Hinc].
        unfold uniform. apply Forall_forall. intros [r d] Hr. cbn [fst].
        assert (Hrpk : In r (pk (sx, Some lx))) by (unfold pk; apply in_map_iff; exists (r, d); auto).
        unfold keepp. rewrite !keepr_eq.
        assert (Hrts : pref_ts r < T).
        { apply pre_pref_ts. rewrite Hp, map_app. apply in_or_app. left. apply Hinc. exact Hrpk. }
        rewrite (proj2 (N.leb_gt T (pref_ts r))) by exact Hrts.
        assert (Hqt : (T <=? pref_ts (pref_of q)) = false) by (apply N.leb_gt; exact Hqts). rewrite Hqt. simpl.
        rewrite (inR_slot i xf r Hxf (Hin r (or_introl Hrpk))).
        rewrite (inR_slot i xf (pref_of q) Hxf (Hin _ (or_intror eq_refl))). reflexivity.
      + intros Hnf. rewrite Forall_forall in Hpre_nf. rewrite (Hpre_nf q Hq) in Hnf. discriminate.
      + assert (E : sstep sl q = fold_left sstep (l1 ++ [q]) []) by (rewrite fold_left_app; reflexivity).
        rewrite E. apply IH; auto. rewrite Hp, <- app_assoc. reflexivity.
  Qed.

  (* ---------------------------------------------------------------- from the snapshot time on *)
  Definition J (sl : list slot) : Prop :=
    forall i x xp, nth_error slp i = Some xp -> nth_error sl i = Some x ->
      stream_packets (fst x) <> stream_packets (fst xp) -> recentT xp = true.

  Lemma forget_pkts s s' : forget s = forget s' -> s_pkts s = s_pkts s'.
  Proof. intros H. apply (f_equal s_pkts) in H. exact H. Qed.

  (* an open slot of the state at the snapshot that is still (or again) open later was recent *)
  Lemma open_recent (done : list packet) t j x lx xp : incl done rest -> T <= t ->
    let sl := fold_left sstep done slp in J sl ->
    nth_error (sflush t sl) j = Some x -> snd x = Some lx -> nth_error slp j = Some xp -> recentT xp = true.
  Proof.
    intros Hd Ht sl HJ Hx Hs Hxp.
    unfold sflush in Hx. rewrite nth_error_map in Hx. destruct (nth_error sl j) as [y|] eqn:Ey; [|discriminate].
    simpl in Hx. inversion Hx; subst x. clear Hx.
    destruct (sflush1_open _ _ _ Hs) as [Hy Hexp].
    pose proof (grows_run done slp) as (_ & Hold & _). fold sl in Hold.
    destruct (Hold _ _ Hxp) as (y' & extra & Hy' & [Gp Gf] & _). rewrite Ey in Hy'. inversion Hy'; subst y'.
    destruct extra as [|e0 er].
    - specialize (Gf eq_refl).
      assert (HL : Linv sl) by (apply Linv_run, Linv_run, Linv_nil).
      pose proof (HL y lx (nth_error_In _ _ Ey) Hy) as Hnew.
      unfold newest_ts in Hnew. rewrite (forget_pkts _ _ Gf) in Hnew.
      unfold recentT. destruct (s_pkts (fst xp)) as [|[r0 d0] l0]; [discriminate|]. inversion Hnew; subst.
      apply Bool.negb_true_iff. unfold expired in *. apply N.ltb_ge. apply N.ltb_ge in Hexp. lia.
    - apply (HJ j y xp Hxp Ey). rewrite Gp. intros E. rewrite <- (app_nil_r (stream_packets (fst xp))) in E at 2.
      apply app_inv_head in E. discriminate.
  Qed.

  Lemma consistent_rest : forall rest' done, rest = done ++ rest' ->
    J (fold_left sstep done slp) -> consistent keepr nf (fold_left sstep done slp) rest'.
  Proof.
    induction rest' as [|q rest' IH]; intros done Hrd HJ; simpl; auto.
    set (sl := fold_left sstep done slp) in *.
    assert (Hdone : incl done rest) by (rewrite Hrd; apply incl_appl, incl_refl).
    assert (Hq : In q rest) by (rewrite Hrd; apply in_or_app; right; left; auto).
    assert (Hqts : T <= p_ts q) by (rewrite Forall_forall in Hrest_ts; auto).
    pose proof (grows_trans _ _ _ _ _ (grows_run done slp) (grows_sflush (p_ts q) sl)) as (_ & Hold & Hnew).
    rewrite app_nil_r in Hold, Hnew.
    assert (Hkeep : keepp keepr q = true).
    { unfold keepp. rewrite keepr_eq. apply Bool.orb_true_iff. left. apply N.leb_le. exact Hqts. }
    (* packets older than the snapshot inside a later open slot are referenced *)
    assert (Hold_ref : forall j x lx r, nth_error (sflush (p_ts q) sl) j = Some x -> snd x = Some lx ->
              In r (pk x) -> pref_ts r < T -> inR r = true).
    { intros j x lx r Hj Hs Hr Hrts.
      destruct (nth_error slp j) as [xp|] eqn:Exp.
      - destruct (Hold _ _ Exp) as (x' & extra & Hx' & [Gp _] & Ie). rewrite Hj in Hx'. inversion Hx'; subst x'.
        unfold pk in Hr. rewrite Gp, map_app in Hr. apply in_app_or in Hr as [Hr|Hr].
        + rewrite (inR_slot j xp r Exp Hr). eapply (open_recent done (p_ts q) j x lx xp); eauto.
        + exfalso. pose proof (rest_pref_ts done r Hdone (Ie _ Hr)). lia.
      - exfalso. apply nth_error_None in Exp. destruct (Hnew j x Exp Hj) as [_ Inc].
        pose proof (rest_pref_ts done r Hdone (Inc _ Hr)). lia. }
    split; [|split].
    + intros x Hx Hopen Hmatch. rewrite Hkeep. apply In_nth_error in Hx as [j Hj].
      destruct (snd x) as [lx|] eqn:Es; [|discriminate].
      unfold uniform. apply Forall_forall. intros [r d] Hr. cbn [fst]. rewrite keepr_eq.
      destruct (N.leb_spec T (pref_ts r)); [reflexivity|]. simpl.
      eapply Hold_ref; eauto. unfold pk. apply in_map_iff. exists (r, d). auto.
    + intros _. exact Hkeep.
    + assert (E : sstep sl q = fold_left sstep (done ++ [q]) slp) by (rewrite fold_left_app; reflexivity).
      rewrite E. apply IH; [rewrite Hrd, <- app_assoc; reflexivity|]. rewrite <- E.
      intros i x' xp Hxp Hx' Hne.
      unfold sstep in Hx'.
      destruct (sasm_cases (sflush (p_ts q) sl) q) as [(i0 & s0 & l0 & Hn & Hm & He)|[Hall He]]; rewrite He in Hx'.
      * rewrite nth_error_upd_nth in Hx'. destruct (Nat.eqb_spec i0 i).
        -- subst i0. eapply (open_recent done (p_ts q) i (s0, Some l0) l0 xp); eauto.
        -- unfold sflush in Hx'. rewrite nth_error_map in Hx'. destruct (nth_error sl i) as [y|] eqn:Ey; [|discriminate].
           simpl in Hx'. inversion Hx'; subst x'. rewrite sflush1_packets in Hne. eapply HJ; eauto.
      * assert (Hlt : (i < length slp)%nat) by (eapply nth_error_Some_lt'; eauto).
        pose proof (grows_run done slp) as (Hlen & _ & _). fold sl in Hlen.
        rewrite nth_error_app1 in Hx' by (unfold sflush; rewrite map_length; lia).
        unfold sflush in Hx'. rewrite nth_error_map in Hx'. destruct (nth_error sl i) as [y|] eqn:Ey; [|discriminate].
        simpl in Hx'. inversion Hx'; subst x'. rewrite sflush1_packets in Hne. eapply HJ; eauto.
  Qed.

  (* the keep set of the snapshot taken at T is consistent with stream membership along every feed that agrees with
     the snapshot's history before T *)
  Theorem snapshot_consistent : consistent keepr nf [] (pre ++ rest).
  Proof.
    apply (consistent_pre pre []); [reflexivity|].
    apply (consistent_rest rest []); [reflexivity|].
    intros i x xp Hxp Hx Hne. simpl in Hx. rewrite Hxp in Hx. inversion Hx; subst. congruence.
  Qed.
End Valid.

(* ------------------------------------------------------------------ the snapshots Import.loop_step creates *)
Definition snap_at (T : N) (pre : list packet) : snapshot := snapT T pre.

Section Created.
  Variable hashf : N -> N.
  Variable thr : N.
  Hypothesis thr_pos : 1 <= thr.

  Lemma loop_step_counters bts st p :
    l_nafter (loop_step hashf thr bts st p) <> 0 -> l_prev (loop_step hashf thr bts st p) = Some (p_ts p).
  Proof.
    unfold loop_step.
    set (st1 := if (thr <=? l_nafter st) && negb (opt_is (l_prev st) (p_ts p)) then _ else st).
    destruct (negb (l_nafter st1 =? 0) || not_after bts (p_ts p)) eqn:E; cbn [l_nafter l_prev]; [reflexivity|].
    apply Bool.orb_false_iff in E as [E _]. apply Bool.negb_false_iff, N.eqb_eq in E. congruence.
  Qed.

  Lemma referenced_sim a sl t : sim hashf (a_fac a) (a_udp a) sl -> a_tcp a = [] ->
    referenced (asm_flush a t) t = flat_map (stream_refs t) (map fst (sflush t sl)).
  Proof.
    intros Hs Ht. unfold referenced, asm_flush. rewrite Ht.
    pose proof (sim_flush hashf _ _ _ t Hs) as Hf.
    destruct (udp_flush (a_fac a) (a_udp a) t) as [f1 u]. simpl in Hf. simpl.
    rewrite (sim_fac _ _ _ _ Hf). reflexivity.
  Qed.

  Definition from_split (bts : option N) (fed : list packet) (s : snapshot) : Prop :=
    exists pre q post, fed = pre ++ q :: post /\ Forall (fun p => p_ts p < p_ts q) pre /\ s = snap_at (p_ts q) pre /\
                       not_after bts (p_ts q) = true.

  Lemma not_after_mono bts a b : a <= b -> not_after bts a = true -> not_after bts b = true.
  Proof. destruct bts as [t|]; simpl; auto. rewrite !N.leb_le. lia. Qed.

  Lemma loop_step_started bts st p mx : mx <= p_ts p ->
    (l_nafter st <> 0 -> not_after bts mx = true) ->
    l_nafter (loop_step hashf thr bts st p) <> 0 -> not_after bts (p_ts p) = true.
  Proof.
    intros Hle Hinv. unfold loop_step.
    set (st1 := if (thr <=? l_nafter st) && negb (opt_is (l_prev st) (p_ts p)) then _ else st).
    destruct (not_after bts (p_ts p)) eqn:En; [auto|]. rewrite Bool.orb_false_r.
    destruct (negb (l_nafter st1 =? 0)) eqn:E; cbn [l_nafter].
    - intros _. apply Bool.negb_true_iff, N.eqb_neq in E. unfold st1 in E.
      destruct ((thr <=? l_nafter st) && negb (opt_is (l_prev st) (p_ts p))); cbn [l_nafter] in E; [congruence|].
      rewrite <- En. apply (not_after_mono bts mx); auto.
    - apply Bool.negb_false_iff, N.eqb_eq in E. intros H. congruence.
  Qed.

  Lemma created_snapshots bts kept : forall todo done st mx,
    Forall (fun p => p_tcp p = false) todo ->
    LI hashf st (fold_left sstep done []) ->
    Forall (fun p => p_ts p <= mx) done -> tsorted mx todo ->
    (l_nafter st <> 0 -> l_prev st = Some mx) ->
    (l_nafter st <> 0 -> not_after bts mx = true) ->
    (forall s, In s (l_snaps st) -> In s kept \/ from_split bts (done ++ todo) s) ->
    forall s, In s (l_snaps (fold_left (loop_step hashf thr bts) todo st)) -> In s kept \/ from_split bts (done ++ todo) s.
  Proof.
    induction todo as [|p todo IH]; intros done st mx Hu HL Hle Hs Hprev Hstart Hsn s Hin; simpl in Hin; auto.
    inversion Hu as [|? ? Hp Hu']; subst. destruct Hs as [Hmx Hs'].
    replace (done ++ p :: todo) with ((done ++ [p]) ++ todo) by (rewrite <- app_assoc; reflexivity).
    apply (IH (done ++ [p]) (loop_step hashf thr bts st p) (p_ts p)); auto.
    - rewrite fold_left_app. simpl. apply LI_step; auto.
    - apply Forall_app. split; [eapply Forall_impl; [|exact Hle]; intros; simpl in *; lia|constructor; [lia|constructor]].
    - apply loop_step_counters.
    - apply (loop_step_started bts st p mx); auto.
    - intros s' Hs'in. rewrite <- app_assoc. simpl.
      unfold loop_step in Hs'in.
      set (st1 := if (thr <=? l_nafter st) && negb (opt_is (l_prev st) (p_ts p)) then _ else st) in Hs'in.
      assert (Hsn1 : In s' (l_snaps st1)).
      { destruct (negb (l_nafter st1 =? 0) || not_after bts (p_ts p)); exact Hs'in. }
      clear Hs'in. unfold st1 in Hsn1.
      destruct ((thr <=? l_nafter st) && negb (opt_is (l_prev st) (p_ts p))) eqn:Ec; [|apply Hsn; exact Hsn1].
      cbn [l_snaps] in Hsn1. apply in_app_or in Hsn1 as [Hold|[<-|[]]]; [apply Hsn; exact Hold|].
      right. exists done, p, todo. split; [reflexivity|].
      apply Bool.andb_true_iff in Ec as [E1 E2]. apply N.leb_le in E1.
      assert (Hn0 : l_nafter st <> 0) by lia. rewrite (Hprev Hn0) in E2. simpl in E2.
      apply Bool.negb_true_iff, N.eqb_neq in E2.
      split; [|split].
      + eapply Forall_impl; [|exact Hle]. intros a Ha. simpl in *. lia.
      + destruct HL as (Hsim & _ & Htcp). unfold snap_at, snapT, refs, slp. f_equal.
        apply referenced_sim; auto.
      + apply (not_after_mono bts mx); auto.
  Qed.

  (* C08: every snapshot created by the packet loop of an import that itself started without a snapshot is valid for every
     later feed that agrees with this one before the snapshot time *)
  Theorem created_snapshot_valid : forall fed s,
    Forall (fun p => p_tcp p = false) fed -> tsorted 0 fed ->
    In s (l_snaps (fold_left (loop_step hashf thr None) fed (mkLoop asm0 0 None []))) ->
    exists pre q post, fed = pre ++ q :: post /\ sn_ts s = p_ts q /\
      forall rest nf,
        Forall (fun p => sn_ts s <= p_ts p) rest -> Forall (fun p => p_tcp p = false) rest ->
        NoDup (map packet_key (pre ++ rest)) -> Forall (fun p => mem_file (p_file p) nf = false) pre ->
        tsorted 0 (pre ++ rest) ->
        valid_udp s nf (pre ++ rest).
  Proof.
    intros fed s Hu Hs Hin.
    assert (P1 : l_nafter (mkLoop asm0 0 None []) <> 0 -> l_prev (mkLoop asm0 0 None []) = Some 0)
      by (intros H; simpl in H; congruence).
    assert (P2 : forall s0, In s0 (l_snaps (mkLoop asm0 0 None [])) -> In s0 [] \/ from_split None ([] ++ fed) s0)
      by (intros s0 []).
    assert (P3 : l_nafter (mkLoop asm0 0 None []) <> 0 -> not_after None 0 = true) by reflexivity.
    destruct (created_snapshots None [] fed [] (mkLoop asm0 0 None []) 0 Hu (LI_init hashf []) (Forall_nil _) Hs P1 P3 P2 s Hin)
      as [[]|(pre & q & post & Hfed & Hpre & -> & _)].
    simpl in Hfed.
    exists pre, q, post. split; [exact Hfed|]. split; [reflexivity|].
    intros rest nf Hr Hur Hk Hnf Hts. split; [|split]; auto.
    - apply Forall_app. split; auto. subst fed. apply Forall_app in Hu as [Hu _]. exact Hu.
    - apply (snapshot_consistent (p_ts q) pre rest nf); auto.
  Qed.
End Created.

(* ------------------------------------------------------------------ later generations *)
(* A snapshot created while the import itself replays from a canonical snapshot s0 = snap_at T0 pre0 is again canonical:
   what it references, computed on the KEPT run, is what the full history references. *)
Lemma consistent_prefix keepr nf : forall l1 l2 sl, consistent keepr nf sl (l1 ++ l2) -> consistent keepr nf sl l1.
Proof.
  induction l1 as [|q l1 IH]; intros l2 sl H; simpl in *; auto.
  destruct H as (A & B & C). split; [exact A|]. split; [exact B|]. eapply IH; eauto.
Qed.

Lemma rel_refs keepr nf T now lf lk : rel keepr nf now lf lk ->
  (forall x, In x lf -> uniform keepr (fst x) false -> s_pkts (fst x) <> [] -> recentT T x = false) ->
  flat_map (stream_refs T) (map fst (sflush T lf)) = flat_map (stream_refs T) (map fst (sflush T lk)).
Proof.
  induction 1 as [|x lf lk Hu Ht Hn H IH|x y lf lk Hu Hn Hf Hs H IH]; intros Hd; simpl; auto.
  - rewrite stream_refs_flushed, (Hd x (or_introl eq_refl) Hu Hn). simpl. apply IH. intros z Hz. apply Hd. right; auto.
  - rewrite !stream_refs_flushed.
    assert (E1 : recentT T x = recentT T y) by (unfold recentT; rewrite (forget_pkts _ _ Hf); reflexivity).
    assert (E2 : pk x = pk y) by (unfold pk; rewrite (stream_packets_forget _ _ Hf); reflexivity).
    rewrite E1, E2. f_equal. apply IH. intros z Hz. apply Hd. right; auto.
Qed.

Lemma filter_split {A} (f : A -> bool) : forall F a q b, filter f F = a ++ q :: b ->
  exists a' b', F = a' ++ q :: b' /\ filter f a' = a /\ filter f b' = b.
Proof.
  induction F as [|x F IH]; intros a q b H; simpl in H; [destruct a; discriminate|].
  destruct (f x) eqn:E.
  - destruct a as [|a0 a]; simpl in H; inversion H; subst.
    + exists [], F. simpl. auto.
    + destruct (IH _ _ _ H2) as (a' & b' & -> & Ha & Hb). exists (a0 :: a'), b'. simpl. rewrite E, Ha. auto.
  - destruct (IH _ _ _ H) as (a' & b' & -> & Ha & Hb). exists (x :: a'), b'. simpl. rewrite E. auto.
Qed.

Lemma split_after_prefix : forall (pre0 rest0 a : list packet) q b T0,
  pre0 ++ rest0 = a ++ q :: b -> Forall (fun p => p_ts p < T0) pre0 -> T0 <= p_ts q ->
  exists mid, a = pre0 ++ mid /\ rest0 = mid ++ q :: b.
Proof.
  induction pre0 as [|x pre0 IH]; intros rest0 a q b T0 H Hp Hq; simpl in H.
  - exists a. auto.
  - inversion Hp; subst. destruct a as [|a0 a]; simpl in H; inversion H; subst; [lia|].
    destruct (IH _ _ _ _ _ H4 H3 Hq) as (mid & -> & ->). exists mid. auto.
Qed.

Section Generation.
  Variable T0 : N.
  Variables pre0 rest0 : list packet.
  Variable nf : list N.
  Hypothesis Hpre_ts : Forall (fun p => p_ts p < T0) pre0.
  Hypothesis Hrest_ts : Forall (fun p => T0 <= p_ts p) rest0.
  Hypothesis Hkeys : NoDup (map packet_key (pre0 ++ rest0)).
  Hypothesis Hpre_nf : Forall (fun p => mem_file (p_file p) nf = false) pre0.
  Hypothesis Hsorted : tsorted 0 (pre0 ++ rest0).

  Let keepr0 := keepr T0 pre0.

  Lemma tsorted_prefix : forall (l1 l2 : list packet) now, tsorted now (l1 ++ l2) -> tsorted now l1.
  Proof. induction l1 as [|p l1 IH]; intros l2 now H; simpl in *; auto. destruct H. split; eauto. Qed.

  (* a slot of the full run that holds only unkept packets was not recent at T0, hence not at any later T *)
  Lemma dead_not_recent (mid : list packet) T x : incl mid rest0 -> T0 <= T ->
    NoDup (map packet_key (pre0 ++ mid)) ->
    In x (fold_left sstep mid (slp pre0)) -> uniform keepr0 (fst x) false -> s_pkts (fst x) <> [] -> recentT T x = false.
  Proof.
    intros Hm HT Hk Hx Hu Hne. apply In_nth_error in Hx as [i Hi].
    pose proof (grows_run mid (slp pre0)) as (_ & Hold & Hnew).
    assert (Hkept : forall r, In r (map pref_of mid) -> keepr0 r = true).
    { intros r Hr. unfold keepr0. rewrite keepr_eq. apply Bool.orb_true_iff. left. apply N.leb_le.
      apply (rest_pref_ts T0 rest0 Hrest_ts mid r Hm Hr). }
    assert (Hall : forall r, In r (pk x) -> keepr0 r = false).
    { intros r Hr. unfold uniform in Hu. rewrite Forall_forall in Hu. unfold pk in Hr.
      apply in_map_iff in Hr as ([r' d] & <- & Hin). apply (Hu _ Hin). }
    destruct (nth_error (slp pre0) i) as [xp|] eqn:Exp.
    - destruct (Hold _ _ Exp) as (x' & extra & Hx' & [Gp Gf] & Ie). rewrite Hi in Hx'. inversion Hx'; subst x'.
      destruct extra as [|[r d] er].
      + specialize (Gf eq_refl). pose proof (forget_pkts _ _ Gf) as Epk.
        unfold recentT. rewrite Epk. destruct (s_pkts (fst xp)) as [|[r0 d0] l0] eqn:Es; [rewrite Epk in Hne; congruence|].
        assert (Hr0 : In r0 (pk xp)).
        { unfold pk, stream_packets. rewrite Es. simpl. rewrite map_app. apply in_or_app. right. left. reflexivity. }
        assert (Hr0x : In r0 (pk x)) by (unfold pk; rewrite (stream_packets_forget _ _ Gf); exact Hr0).
        pose proof (Hall r0 Hr0x) as Hk0. unfold keepr0 in Hk0. rewrite keepr_eq in Hk0.
        apply Bool.orb_false_iff in Hk0 as [_ Hin].
        assert (Hk' : NoDup (map packet_key (pre0 ++ rest0))) by exact Hkeys.
        rewrite (inR_slot T0 pre0 rest0 Hk' i xp r0 Exp Hr0) in Hin.
        unfold recentT in Hin. rewrite Es in Hin. apply Bool.negb_false_iff in Hin.
        apply Bool.negb_false_iff. unfold expired in *. apply N.ltb_lt in Hin. apply N.ltb_lt. lia.
      + exfalso. assert (In r (pk x)) by (unfold pk; rewrite Gp, map_app; apply in_or_app; right; left; reflexivity).
        pose proof (Hall r H) as Hf. rewrite (Hkept r) in Hf; [discriminate|]. apply Ie. left; reflexivity.
    - exfalso. apply nth_error_None in Exp. destruct (Hnew i x Exp Hi) as [Hn Inc].
      destruct (pk x) as [|r l] eqn:E; [congruence|].
      assert (Ht : keepr0 r = true) by (apply Hkept, Inc; left; reflexivity).
      assert (Hf : keepr0 r = false) by (apply Hall; left; reflexivity). congruence.
  Qed.

  (* referenced packets computed on the kept run = referenced packets of the full history *)
  Lemma refs_kept_run mid q post : rest0 = mid ++ q :: post -> T0 <= p_ts q ->
    snap_at (p_ts q) (filter (keepp keepr0) (pre0 ++ mid)) = snap_at (p_ts q) (pre0 ++ mid).
  Proof.
    intros Hr HT.
    assert (Hm : incl mid rest0) by (rewrite Hr; apply incl_appl, incl_refl).
    assert (Hk : NoDup (map packet_key (pre0 ++ mid))).
    { rewrite Hr, app_assoc, map_app in Hkeys. eapply NoDup_app_left. exact Hkeys. }
    assert (Hmid_ts : Forall (fun p => T0 <= p_ts p) mid).
    { apply Forall_forall. intros p Hp. rewrite Forall_forall in Hrest_ts. apply Hrest_ts, Hm, Hp. }
    assert (Hc : consistent keepr0 nf [] (pre0 ++ mid)).
    { apply (snapshot_consistent T0 pre0 mid nf); auto. }
    assert (Hs : tsorted 0 (pre0 ++ mid)).
    { rewrite Hr, app_assoc in Hsorted. eapply tsorted_prefix. exact Hsorted. }
    destruct (two_runs keepr0 nf (pre0 ++ mid) [] [] 0 (rel_nil keepr0 nf 0) Hs Hc) as (now' & Hrel).
    unfold snap_at, snapT, refs, slp. f_equal. symmetry.
    apply (rel_refs keepr0 nf (p_ts q) now' _ _ Hrel).
    intros x Hx Hu Hne. rewrite fold_left_app in Hx.
    apply (dead_not_recent mid (p_ts q) x); auto.
  Qed.
End Generation.

Section NextGeneration.
  Variable hashf : N -> N.
  Variable thr : N.
  Hypothesis thr_pos : 1 <= thr.

  (* C08: the snapshots in a Builder stay canonical (= snap_at T (history before T)) from import to import *)
  Theorem next_generation_snapshots : forall T0 pre0 rest0 nf kept s,
    Forall (fun p => p_ts p < T0) pre0 -> Forall (fun p => T0 <= p_ts p) rest0 ->
    NoDup (map packet_key (pre0 ++ rest0)) -> Forall (fun p => mem_file (p_file p) nf = false) pre0 ->
    tsorted 0 (pre0 ++ rest0) -> Forall (fun p => p_tcp p = false) (pre0 ++ rest0) ->
    In s (l_snaps (fold_left (loop_step hashf thr (Some T0))
                             (filter (keepb (snap_at T0 pre0)) (pre0 ++ rest0)) (mkLoop asm0 0 None kept))) ->
    In s kept \/
    exists mid q post, rest0 = mid ++ q :: post /\ Forall (fun p => p_ts p < p_ts q) (pre0 ++ mid) /\
                       s = snap_at (p_ts q) (pre0 ++ mid).
  Proof.
    intros T0 pre0 rest0 nf kept s Hp Hr Hk Hnf Hs Hu Hin.
    set (F := pre0 ++ rest0) in *. set (fk := filter (keepb (snap_at T0 pre0)) F) in *.
    assert (Hfu : Forall (fun p => p_tcp p = false) fk) by (apply Forall_filter; exact Hu).
    assert (Hfs : tsorted 0 fk).
    { clear Hin. unfold fk. generalize 0 Hs. clear. induction F as [|p F IH]; intros now H; simpl; auto.
      destruct H as [H1 H2]. destruct (keepb (snap_at T0 pre0) p); simpl.
      - split; auto.
      - eapply tsorted_weaken; [exact H1|]. apply IH. exact H2. }
    assert (P1 : l_nafter (mkLoop asm0 0 None kept) <> 0 -> l_prev (mkLoop asm0 0 None kept) = Some 0)
      by (intros H; simpl in H; congruence).
    assert (P3 : l_nafter (mkLoop asm0 0 None kept) <> 0 -> not_after (Some T0) 0 = true)
      by (intros H; simpl in H; congruence).
    assert (P2 : forall s0, In s0 (l_snaps (mkLoop asm0 0 None kept)) -> In s0 kept \/ from_split (Some T0) ([] ++ fk) s0)
      by (intros s0 H; left; exact H).
    destruct (created_snapshots hashf thr thr_pos (Some T0) kept fk [] (mkLoop asm0 0 None kept) 0 Hfu (LI_init hashf kept)
                (Forall_nil _) Hfs P1 P3 P2 s Hin) as [Hkept|(prek & q & postk & Hfk & Hprek & -> & Hna)]; [left; exact Hkept|].
    right. simpl in Hfk, Hna. apply N.leb_le in Hna.
    destruct (filter_split _ _ _ _ _ Hfk) as (a' & b' & HF & Ha & Hb).
    destruct (split_after_prefix pre0 rest0 a' q b' T0 HF Hp Hna) as (mid & -> & Hrest).
    exists mid, q, b'. split; [exact Hrest|]. split.
    - (* kept packets before q are older than q by the split; unkept ones are older than T0 *)
      apply Forall_forall. intros p Hpin. destruct (keepb (snap_at T0 pre0) p) eqn:Ek.
      + rewrite Forall_forall in Hprek. apply Hprek. rewrite <- Ha. apply filter_In. auto.
      + unfold keepb in Ek. apply Bool.orb_false_iff in Ek as [Ek _]. apply N.leb_gt in Ek. simpl in Ek. lia.
    - rewrite <- Ha. change (keepb (snap_at T0 pre0)) with (keepp (keepr T0 pre0)).
      apply (refs_kept_run T0 pre0 rest0 nf Hp Hr Hk Hnf Hs mid q b' Hrest Hna).
  Qed.
End NextGeneration.

(* canonical snapshots are valid for every later feed that agrees with their history *)
Theorem canonical_snapshot_valid : forall T pre rest nf,
  Forall (fun p => p_ts p < T) pre -> Forall (fun p => T <= p_ts p) rest ->
  NoDup (map packet_key (pre ++ rest)) -> Forall (fun p => mem_file (p_file p) nf = false) pre ->
  Forall (fun p => p_tcp p = false) (pre ++ rest) -> tsorted 0 (pre ++ rest) ->
  valid_udp (snap_at T pre) nf (pre ++ rest).
Proof.
  intros T pre rest nf H1 H2 H3 H4 H5 H6. split; [exact H5|]. split; [exact H6|].
  apply (snapshot_consistent T pre rest nf); auto.
Qed.
