(* TagsC09A.v -- C09: the termination invariant Tinv is preserved by the API actions as well, hence it holds in
   every state reachable from init by arbitrary histories. *)
From Coq Require Import List NArith Bool Lia Arith.
From Pk Require Import Tags TagsC16 TagsC06 TagsC09 TagsC09T.
Import ListNotations.
Open Scope N_scope.

Definition api_action (a : action) : Prop :=
  match a with
  | ABodyImport _ | ABodyTag _ | ABodyConvert _ | ABodyMerge | AComplete _ => False
  | _ => True
  end.

(* what the API layer guarantees about its arguments: a parsed definition is well formed, a mark definition
   has no references and names existing streams only *)
Definition api_ok (st : state) (a : action) : Prop :=
  match a with
  | AAddTag n d ids => def_ok d /\ (d_mark d = true -> d_refs d = [] /\ bounded (next st) ids)
  | AQuery n d => def_ok d
  | AMarkAdd n ids did | AMarkDel n ids did => forall t, tget n (tags st) = Some t -> d_refs (t_def t) = []
  | _ => True
  end.

(* ---------------------------------------------------------------- covered *)
Lemma all_certain_no_eligible ts : all_certain ts = true -> first_eligible ts = None.
Proof.
  intros AC. destruct (first_eligible ts) as [n|] eqn:FE; [|reflexivity]. exfalso.
  pose proof (first_eligible_spec _ _ FE) as EL. unfold eligible in EL.
  destruct (tget n ts) as [t|] eqn:T; [|discriminate]. apply andb_true_iff in EL. destruct EL as [EU _].
  destruct (tget_In _ _ _ T) as (I & _). unfold all_certain in AC. rewrite forallb_forall in AC.
  specialize (AC (n, t) I). simpl in AC. rewrite AC in EU. discriminate.
Qed.

Lemma tinv_nojob_certain st : Tinv st -> jtag st = None -> all_certain (tags st) = true.
Proof.
  intros TI J. pose proof (proj1 (Tinv_split st) TI) as ((So & Ra & Dk & _) & (TW & _) & _).
  destruct (all_certain (tags st)) eqn:AC; [reflexivity|]. exfalso.
  apply (TW (eligible_exists _ So Ra (deadok_dead_clean _ Dk) AC)). exact J.
Qed.

(* jobs are never removed by an API action and the index list is untouched *)
Definition api_frame (st st' : state) : Prop :=
  idx st' = idx st /\ unmerge st' = unmerge st /\ jmerge st' = jmerge st /\
  (jtag st <> None -> jtag st' <> None) /\ (jconv st <> None -> jconv st' <> None).

Lemma merge_covered_api st st' : Tinv st -> api_frame st st' -> merge_covered st'.
Proof.
  intros TI (F1 & F2 & F3 & F4 & F5). pose proof (proj1 (Tinv_split st) TI) as (_ & (_ & _ & MC & _) & _).
  unfold merge_covered, merge_eligible in *. rewrite F1, F2, F3.
  destruct (jmerge st); [reflexivity|].
  destruct (jtag st) eqn:JT.
  - destruct (jtag st'); [reflexivity|]. exfalso. apply F4; [discriminate|reflexivity].
  - destruct (jconv st) eqn:JC.
    + destruct (jtag st'); [reflexivity|]. destruct (jconv st'); [reflexivity|]. exfalso. apply F5; [discriminate|reflexivity].
    + rewrite (tinv_nojob_certain st TI JT) in MC.
      destruct (jtag st'); [reflexivity|]. destruct (jconv st'); [reflexivity|]. destruct (all_certain (tags st')); [exact MC|reflexivity].
Qed.

Lemma api_frame_refl st : api_frame st st.
Proof. unfold api_frame. auto. Qed.
Lemma api_frame_trans a b c : api_frame a b -> api_frame b c -> api_frame a c.
Proof. intros (A1 & A2 & A3 & A4 & A5) (B1 & B2 & B3 & B4 & B5). unfold api_frame. split; [congruence|split; [congruence|split; [congruence|split; auto]]]. Qed.

Lemma start_tagging_api p st : api_frame st (start_tagging p st).
Proof.
  unfold start_tagging. destruct (jtag st) eqn:J; [apply api_frame_refl|].
  destruct (if eligible (tags st) p then Some p else first_eligible (tags st)); [|apply api_frame_refl].
  destruct (tget n (tags st)); [|apply api_frame_refl]. unfold api_frame. simpl. repeat split; auto; try (intros _; discriminate).
Qed.
Lemma start_converter_api st : api_frame st (start_converter st).
Proof.
  unfold start_converter. destruct (jconv st) eqn:J; [apply api_frame_refl|].
  destruct (filter _ (convs st)); [apply api_frame_refl|]. unfold api_frame. simpl. repeat split; auto; try (intros _; discriminate).
Qed.

Lemma after_detach_api k b st : api_frame st (after_detach k b st).
Proof.
  unfold after_detach. destruct (kf_detachreset k); [apply api_frame_refl|].
  destruct (b && has_data_tag (tags st)); [|apply api_frame_refl]. unfold api_frame; simpl; auto.
Qed.
Lemma tag_again_api k p st : api_frame st (tag_again k p st).
Proof. unfold tag_again. destruct (kf_detachreset k); [apply api_frame_refl|apply start_tagging_api]. Qed.

Lemma detach_api st n c : api_frame st (detach st n c).
Proof.
  unfold detach. destruct (tget n (tags st)); [|apply api_frame_refl].
  match goal with |- context[if ?b then _ else _] => destruct b end; unfold api_frame; simpl; auto.
Qed.

Lemma fold_api (f : state -> N -> state) l : (forall s c, api_frame s (f s c)) -> forall st, api_frame st (fold_left f l st).
Proof.
  intros Hf. induction l as [|c l IH]; simpl; intros st; [apply api_frame_refl|].
  eapply api_frame_trans; [apply Hf|apply IH].
Qed.

Lemma attach_api st n c st' : attach st n c = Some st' -> api_frame st st'.
Proof.
  unfold attach. destruct (tget n (tags st)); [|intros E; inversion E; apply api_frame_refl].
  destruct (tag_has_conv c t); [intros E; inversion E; apply api_frame_refl|].
  destruct (complex (t_def t)); [discriminate|]. intros E; inversion E. unfold api_frame; simpl; auto.
Qed.

Lemma attach_all_api cs : forall st n, api_frame st (fst (attach_all st n cs)).
Proof.
  induction cs as [|c cs IH]; simpl; intros st n; [apply api_frame_refl|].
  destruct (memN c (convs st)); [|apply api_frame_refl].
  destruct (attach st n c) eqn:E; [|apply api_frame_refl].
  eapply api_frame_trans; [eapply attach_api; exact E|apply IH].
Qed.

Ltac fr := unfold api_frame; simpl; auto.

Lemma api_step_frame k p a st : api_action a -> api_frame st (step k p a st).
Proof.
  intros Ha. destruct a; try (destruct Ha; fail); simpl.
  - destruct files; [apply api_frame_refl|]. match goal with |- context[if ?b then _ else _] => destruct b end; fr.
  - destruct (tget n (tags st)); [apply api_frame_refl|]. destruct (refs_ok n d (tags st)); [|apply api_frame_refl].
    destruct (d_mark d); [fr|]. eapply api_frame_trans; [|apply start_tagging_api]. fr.
  - destruct (tget n (tags st)); [|apply api_frame_refl]. destruct (referenced n (tags st)); [apply api_frame_refl|].
    eapply api_frame_trans; [apply (fold_api (fun s c => detach s n c)); intros; apply detach_api|].
    eapply api_frame_trans; [|apply tag_again_api]. eapply api_frame_trans; [apply after_detach_api|]. fr.
  - destruct (tget n (tags st)); [|apply api_frame_refl]. destruct (complex d && _); [apply api_frame_refl|]. destruct (refs_ok n d (tags st)); [|apply api_frame_refl].
    eapply api_frame_trans; [|apply start_converter_api]. eapply api_frame_trans; [|apply start_tagging_api]. fr.
  - destruct (tget n (tags st)); [|apply api_frame_refl]. destruct ids; [apply api_frame_refl|].
    destruct (next st <=? maxl (n0 :: ids)); [apply api_frame_refl|].
    eapply api_frame_trans; [|apply start_converter_api]. eapply api_frame_trans; [|apply start_tagging_api]. fr.
  - destruct (tget n (tags st)); [|apply api_frame_refl]. destruct ids; [apply api_frame_refl|].
    destruct (next st <=? maxl (n0 :: ids)); [apply api_frame_refl|].
    eapply api_frame_trans; [|apply start_converter_api]. eapply api_frame_trans; [|apply start_tagging_api]. fr.
  - destruct (tget n (tags st)); [|apply api_frame_refl].
    match goal with |- context[if ?b then _ else _] => destruct b end; [|apply api_frame_refl].
    eapply api_frame_trans; [|apply start_converter_api]. eapply api_frame_trans; [|apply tag_again_api]. eapply api_frame_trans; [|apply attach_all_api].
    eapply api_frame_trans; [|apply after_detach_api].
    apply (fold_api (fun s c => if memN c cs then s else detach s n c)). intros s c. destruct (memN c cs); [apply api_frame_refl|apply detach_api].
  - fr.
  - destruct (find _ (views st)) as [[v0 sv]|]; [|apply api_frame_refl]. destruct (cache st c i); [apply api_frame_refl|].
    destruct (negb (i <? next st) || negb (memN c (convs st))); [apply api_frame_refl|].
    destruct (kf_viewstore k || (sv i =? ver st i)); [fr|]. eapply api_frame_trans; [|apply start_converter_api]. fr.
  - fr.
Qed.

(* ---------------------------------------------------------------- more frames *)
Definition qframe (st st' : state) : Prop := queue st' = queue st /\ jimp st' = jimp st.
Lemma qframe_refl st : qframe st st. Proof. split; reflexivity. Qed.
Lemma qframe_trans a b c : qframe a b -> qframe b c -> qframe a c.
Proof. intros (A1 & A2) (B1 & B2). split; congruence. Qed.

Lemma start_tagging_q p st : qframe st (start_tagging p st).
Proof.
  unfold start_tagging. destruct (jtag st); [apply qframe_refl|].
  destruct (if eligible (tags st) p then Some p else first_eligible (tags st)); [|apply qframe_refl].
  destruct (tget n (tags st)); split; reflexivity.
Qed.
Lemma start_converter_q st : qframe st (start_converter st).
Proof. unfold start_converter. destruct (jconv st); [apply qframe_refl|]. destruct (filter _ (convs st)); split; reflexivity. Qed.
Lemma detach_q st n c : qframe st (detach st n c).
Proof.
  unfold detach. destruct (tget n (tags st)); [|apply qframe_refl].
  match goal with |- context[if ?b then _ else _] => destruct b end; split; reflexivity.
Qed.
Lemma after_detach_q k b st : qframe st (after_detach k b st).
Proof.
  unfold after_detach. destruct (kf_detachreset k); [apply qframe_refl|].
  destruct (b && has_data_tag (tags st)); [|apply qframe_refl]. split; reflexivity.
Qed.
Lemma tag_again_q k p st : qframe st (tag_again k p st).
Proof. unfold tag_again. destruct (kf_detachreset k); [apply qframe_refl|apply start_tagging_q]. Qed.
Lemma fold_q (f : state -> N -> state) l : (forall s c, qframe s (f s c)) -> forall st, qframe st (fold_left f l st).
Proof. intros Hf. induction l as [|c l IH]; simpl; intros st; [apply qframe_refl|]. eapply qframe_trans; [apply Hf|apply IH]. Qed.
Lemma attach_q st n c st' : attach st n c = Some st' -> qframe st st'.
Proof.
  unfold attach. destruct (tget n (tags st)); [|intros E; inversion E; apply qframe_refl].
  destruct (tag_has_conv c t); [intros E; inversion E; apply qframe_refl|].
  destruct (complex (t_def t)); [discriminate|]. intros E; inversion E. split; reflexivity.
Qed.
Lemma attach_all_q cs : forall st n, qframe st (fst (attach_all st n cs)).
Proof.
  induction cs as [|c cs IH]; simpl; intros st n; [apply qframe_refl|].
  destruct (memN c (convs st)); [|apply qframe_refl]. destruct (attach st n c) eqn:E; [|apply qframe_refl].
  eapply qframe_trans; [eapply attach_q; exact E|apply IH].
Qed.

Ltac qf := split; reflexivity.

Lemma api_step_qframe k p a st : api_action a -> (match a with AImport _ => False | _ => True end) -> qframe st (step k p a st).
Proof.
  intros Ha Hn. destruct a; try (destruct Ha; fail); try (destruct Hn; fail); simpl.
  - destruct (tget n (tags st)); [apply qframe_refl|]. destruct (refs_ok n d (tags st)); [|apply qframe_refl].
    destruct (d_mark d); [qf|]. eapply qframe_trans; [|apply start_tagging_q]. qf.
  - destruct (tget n (tags st)); [|apply qframe_refl]. destruct (referenced n (tags st)); [apply qframe_refl|].
    eapply qframe_trans; [apply (fold_q (fun s c => detach s n c)); intros; apply detach_q|].
    eapply qframe_trans; [|apply tag_again_q]. eapply qframe_trans; [apply after_detach_q|]. qf.
  - destruct (tget n (tags st)); [|apply qframe_refl]. destruct (complex d && _); [apply qframe_refl|]. destruct (refs_ok n d (tags st)); [|apply qframe_refl].
    eapply qframe_trans; [|apply start_converter_q]. eapply qframe_trans; [|apply start_tagging_q]. qf.
  - destruct (tget n (tags st)); [|apply qframe_refl]. destruct ids; [apply qframe_refl|].
    destruct (next st <=? maxl (n0 :: ids)); [apply qframe_refl|].
    eapply qframe_trans; [|apply start_converter_q]. eapply qframe_trans; [|apply start_tagging_q]. qf.
  - destruct (tget n (tags st)); [|apply qframe_refl]. destruct ids; [apply qframe_refl|].
    destruct (next st <=? maxl (n0 :: ids)); [apply qframe_refl|].
    eapply qframe_trans; [|apply start_converter_q]. eapply qframe_trans; [|apply start_tagging_q]. qf.
  - destruct (tget n (tags st)); [|apply qframe_refl].
    match goal with |- context[if ?b then _ else _] => destruct b end; [|apply qframe_refl].
    eapply qframe_trans; [|apply start_converter_q]. eapply qframe_trans; [|apply tag_again_q]. eapply qframe_trans; [|apply attach_all_q].
    eapply qframe_trans; [|apply after_detach_q].
    apply (fold_q (fun s c => if memN c cs then s else detach s n c)). intros s c. destruct (memN c cs); [apply qframe_refl|apply detach_q].
  - qf.
  - destruct (find _ (views st)) as [[v0 sv]|]; [|apply qframe_refl]. destruct (cache st c i); [apply qframe_refl|].
    destruct (negb (i <? next st) || negb (memN c (convs st))); [apply qframe_refl|].
    destruct (kf_viewstore k || (sv i =? ver st i)); [qf|]. eapply qframe_trans; [|apply start_converter_q]. qf.
  - qf.
Qed.

Lemma import_covered_api k p a st : api_action a -> import_covered st -> import_covered (step k p a st).
Proof.
  intros Ha HI. destruct a; try (destruct (api_step_qframe k p _ st Ha I) as (Q1 & Q2); unfold import_covered; rewrite Q1, Q2; exact HI).
  simpl. destruct files as [|f fs]; [exact HI|].
  match goal with |- context[if ?b then _ else _] => destruct b eqn:E end; unfold import_covered in *; simpl.
  - intros _. discriminate.
  - intros _. apply HI. destruct (queue st); [|discriminate]. simpl in E. rewrite Nat.eqb_refl in E. discriminate.
Qed.

(* ---------------------------------------------------------------- converter work stays covered *)
Definition cframe (st st' : state) : Prop :=
  convs st' = convs st /\ (forall c, toconv st' c <> 0 -> toconv st c <> 0) /\ (jconv st <> None -> jconv st' <> None).

Lemma cframe_refl st : cframe st st. Proof. unfold cframe; auto. Qed.
Lemma cframe_trans a b c : cframe a b -> cframe b c -> cframe a c.
Proof. intros (A1 & A2 & A3) (B1 & B2 & B3). unfold cframe. split; [congruence|split; auto]. Qed.

Lemma conv_covered_cframe st st' : conv_work_covered st -> cframe st st' -> conv_work_covered st'.
Proof.
  intros HC (F1 & F2 & F3) c Hc Hne. rewrite F1 in Hc. apply F3. apply (HC c Hc). apply F2. exact Hne.
Qed.

Lemma start_tagging_c p st : cframe st (start_tagging p st).
Proof.
  unfold start_tagging. destruct (jtag st); [apply cframe_refl|].
  destruct (if eligible (tags st) p then Some p else first_eligible (tags st)); [|apply cframe_refl].
  destruct (tget n (tags st)); unfold cframe; simpl; auto.
Qed.

Lemma detach_c st n c : cframe st (detach st n c).
Proof.
  unfold detach. destruct (tget n (tags st)); [|apply cframe_refl].
  assert (forall c', fupd (toconv st) c (diff (toconv st c) (diff (t_m t) (fold_left
            (fun a nt => if negb (fst nt =? n) && tag_has_conv c (snd nt) then union a (t_m (snd nt)) else a)
            (tset n (mkTag (t_def t) (t_m t) (t_u t) (filter (fun x => negb (x =? c)) (t_conv t))) (tags st)) 0))) c' <> 0 -> toconv st c' <> 0) as H.
  { intros c'. unfold fupd. destruct (c' =? c) eqn:E; [|auto]. apply N.eqb_eq in E. subst. intros H E0. apply H.
    apply mem_ext. intros i. rewrite mem_diff, E0, mem_0. reflexivity. }
  match goal with |- context[if ?b then _ else _] => destruct b end; unfold cframe; simpl; auto.
Qed.

Lemma after_detach_c k b st : cframe st (after_detach k b st).
Proof.
  unfold after_detach. destruct (kf_detachreset k); [apply cframe_refl|].
  destruct (b && has_data_tag (tags st)); [|apply cframe_refl]. unfold cframe; simpl; auto.
Qed.
Lemma tag_again_c k p st : cframe st (tag_again k p st).
Proof. unfold tag_again. destruct (kf_detachreset k); [apply cframe_refl|apply start_tagging_c]. Qed.

Lemma fold_c (f : state -> N -> state) l : (forall s c, cframe s (f s c)) -> forall st, cframe st (fold_left f l st).
Proof. intros Hf. induction l as [|c l IH]; simpl; intros st; [apply cframe_refl|]. eapply cframe_trans; [apply Hf|apply IH]. Qed.

Lemma conv_covered_api k p a st : api_action a -> conv_work_covered st -> conv_work_covered (step k p a st).
Proof.
  intros Ha HC. destruct a; try (destruct Ha; fail); simpl.
  - destruct files; [exact HC|]. match goal with |- context[if ?b then _ else _] => destruct b end;
      (eapply conv_covered_cframe; [exact HC|unfold cframe; simpl; auto]).
  - destruct (tget n (tags st)); [exact HC|]. destruct (refs_ok n d (tags st)); [|exact HC].
    destruct (d_mark d); [eapply conv_covered_cframe; [exact HC|unfold cframe; simpl; auto]|].
    eapply conv_covered_cframe; [exact HC|]. eapply cframe_trans; [|apply start_tagging_c]. unfold cframe; simpl; auto.
  - destruct (tget n (tags st)); [|exact HC]. destruct (referenced n (tags st)); [exact HC|].
    eapply conv_covered_cframe; [exact HC|].
    eapply cframe_trans; [apply (fold_c (fun s c => detach s n c)); intros; apply detach_c|].
    eapply cframe_trans; [|apply tag_again_c]. eapply cframe_trans; [apply after_detach_c|]. unfold cframe; simpl; auto.
  - destruct (tget n (tags st)); [|exact HC]. destruct (complex d && _); [exact HC|]. destruct (refs_ok n d (tags st)); [|exact HC]. apply start_converter_post.
  - destruct (tget n (tags st)); [|exact HC]. destruct ids; [exact HC|].
    destruct (next st <=? maxl (n0 :: ids)); [exact HC|]. apply start_converter_post.
  - destruct (tget n (tags st)); [|exact HC]. destruct ids; [exact HC|].
    destruct (next st <=? maxl (n0 :: ids)); [exact HC|]. apply start_converter_post.
  - destruct (tget n (tags st)); [|exact HC].
    match goal with |- context[if ?b then _ else _] => destruct b end; [|exact HC]. apply start_converter_post.
  - eapply conv_covered_cframe; [exact HC|unfold cframe; simpl; auto].
  - destruct (find _ (views st)) as [[v0 sv]|]; [|exact HC]. destruct (cache st c i); [exact HC|].
    destruct (negb (i <? next st) || negb (memN c (convs st))); [exact HC|].
    destruct (kf_viewstore k || (sv i =? ver st i)); [eapply conv_covered_cframe; [exact HC|unfold cframe; simpl; auto]|].
    apply start_converter_post.
  - eapply conv_covered_cframe; [exact HC|unfold cframe; simpl; auto].
Qed.

(* ---------------------------------------------------------------- tagging work stays covered *)
Definition tcert (st st' : state) : Prop :=
  jtag st' = jtag st /\ (all_certain (tags st) = true -> all_certain (tags st') = true).

Lemma tcert_refl st : tcert st st. Proof. split; auto. Qed.
Lemma tcert_trans a b c : tcert a b -> tcert b c -> tcert a c.
Proof. intros (A1 & A2) (B1 & B2). split; [congruence|auto]. Qed.

Lemma tag_covered_tcert st st' : Tinv st -> tcert st st' -> tag_work_covered st'.
Proof.
  intros TI (F1 & F2) FE. destruct (jtag st') eqn:J; [discriminate|]. exfalso.
  assert (jtag st = None) as J0 by congruence.
  rewrite (all_certain_no_eligible _ (F2 (tinv_nojob_certain st TI J0))) in FE. apply FE. reflexivity.
Qed.

Lemma ac_tset n t' ts : all_certain ts = true -> is0 (t_u t') = true -> all_certain (tset n t' ts) = true.
Proof.
  unfold all_certain, tset. intros A Z. rewrite forallb_forall in *. intros [k t] I. apply in_map_iff in I.
  destruct I as ([k0 t0] & E & I0). simpl in E. destruct (k0 =? n); inversion E; subst; simpl; [exact Z|exact (A _ I0)].
Qed.

Lemma ac_tget n t ts : all_certain ts = true -> tget n ts = Some t -> is0 (t_u t) = true.
Proof. unfold all_certain. intros A T. rewrite forallb_forall in A. destruct (tget_In _ _ _ T) as (I & _). exact (A _ I). Qed.

Lemma detach_t st n c : tcert st (detach st n c).
Proof.
  unfold detach. destruct (tget n (tags st)) eqn:T; [|apply tcert_refl].
  match goal with |- context[if ?b then _ else _] => destruct b end; split; simpl; auto; intros A; apply ac_tset; auto; simpl; eapply ac_tget; eassumption.
Qed.
Lemma attach_t st n c st' : attach st n c = Some st' -> tcert st st'.
Proof.
  unfold attach. destruct (tget n (tags st)) eqn:T; [|intros E; inversion E; apply tcert_refl].
  destruct (tag_has_conv c t); [intros E; inversion E; apply tcert_refl|].
  destruct (complex (t_def t)); [discriminate|]. intros E; inversion E. split; simpl; auto.
  intros A. apply ac_tset; auto. simpl. eapply ac_tget; eassumption.
Qed.
Lemma fold_t (f : state -> N -> state) l : (forall s c, tcert s (f s c)) -> forall st, tcert st (fold_left f l st).
Proof. intros Hf. induction l as [|c l IH]; simpl; intros st; [apply tcert_refl|]. eapply tcert_trans; [apply Hf|apply IH]. Qed.
Lemma attach_all_t cs : forall st n, tcert st (fst (attach_all st n cs)).
Proof.
  induction cs as [|c cs IH]; simpl; intros st n; [apply tcert_refl|].
  destruct (memN c (convs st)); [|apply tcert_refl]. destruct (attach st n c) eqn:E; [|apply tcert_refl].
  eapply tcert_trans; [eapply attach_t; exact E|apply IH].
Qed.
Lemma start_converter_t st : tcert st (start_converter st).
Proof. unfold start_converter. destruct (jconv st); [apply tcert_refl|]. destruct (filter _ (convs st)); split; auto. Qed.

Lemma tag_covered_api k p a st : Tinv st -> api_action a -> tag_work_covered (step k p a st).
Proof.
  intros TI Ha. pose proof (proj1 (Tinv_split st) TI) as (_ & (TW & _) & _).
  destruct a; try (destruct Ha; fail); simpl.
  - destruct files; [exact TW|]. match goal with |- context[if ?b then _ else _] => destruct b end;
      (apply (tag_covered_tcert st); [exact TI|split; auto]).
  - destruct (tget n (tags st)); [exact TW|]. destruct (refs_ok n d (tags st)); [|exact TW].
    destruct (d_mark d); [|apply start_tagging_post].
    apply (tag_covered_tcert st); [exact TI|]. split; [reflexivity|]. intros A. simpl. apply ac_tset; [exact A|reflexivity].
  - destruct (tget n (tags st)); [|exact TW]. destruct (referenced n (tags st)); [exact TW|].
    unfold tag_again, after_detach. destruct (kf_detachreset k); [|apply start_tagging_post].
    apply (tag_covered_tcert st); [exact TI|].
    eapply tcert_trans; [apply (fold_t (fun s c => detach s n c)); intros; apply detach_t|].
    split; [reflexivity|]. intros A. simpl. unfold tdel. apply ac_tset; [exact A|reflexivity].
  - destruct (tget n (tags st)); [|exact TW]. destruct (complex d && _); [exact TW|]. destruct (refs_ok n d (tags st)); [|exact TW].
    apply start_converter_keeps_tag, start_tagging_post.
  - destruct (tget n (tags st)); [|exact TW]. destruct ids; [exact TW|].
    destruct (next st <=? maxl (n0 :: ids)); [exact TW|]. apply start_converter_keeps_tag, start_tagging_post.
  - destruct (tget n (tags st)); [|exact TW]. destruct ids; [exact TW|].
    destruct (next st <=? maxl (n0 :: ids)); [exact TW|]. apply start_converter_keeps_tag, start_tagging_post.
  - destruct (tget n (tags st)); [|exact TW].
    match goal with |- context[if ?b then _ else _] => destruct b end; [|exact TW].
    unfold tag_again, after_detach. destruct (kf_detachreset k); [|apply start_converter_keeps_tag, start_tagging_post].
    apply (tag_covered_tcert st); [exact TI|].
    eapply tcert_trans; [|apply start_converter_t]. eapply tcert_trans; [|apply attach_all_t].
    apply (fold_t (fun s c => if memN c cs then s else detach s n c)). intros s c. destruct (memN c cs); [apply tcert_refl|apply detach_t].
  - apply (tag_covered_tcert st); [exact TI|split; auto].
  - destruct (find _ (views st)) as [[v0 sv]|]; [|exact TW]. destruct (cache st c i); [exact TW|].
    destruct (negb (i <? next st) || negb (memN c (convs st))); [exact TW|].
    destruct (kf_viewstore k || (sv i =? ver st i)); [apply (tag_covered_tcert st); [exact TI|split; auto]|].
    apply (tag_covered_tcert st); [exact TI|]. eapply tcert_trans; [|apply start_converter_t]. split; auto.
  - apply (tag_covered_tcert st); [exact TI|split; auto].
Qed.

Theorem covered_api k p a st : Tinv st -> api_action a -> covered (step k p a st).
Proof.
  intros TI Ha. pose proof (proj1 (Tinv_split st) TI) as (_ & (_ & CW & _ & IC) & _).
  split; [apply tag_covered_api; assumption|split; [apply conv_covered_api; assumption|
    split; [apply (merge_covered_api st); [exact TI|apply api_step_frame; exact Ha]|apply import_covered_api; assumption]]].
Qed.

(* ---------------------------------------------------------------- the core invariant under API actions *)
Definition eqU1 (a b : N * tag) : Prop :=
  fst a = fst b /\ t_def (snd a) = t_def (snd b) /\ t_live (snd a) = t_live (snd b) /\ t_u (snd a) = t_u (snd b) /\
  t_m (snd a) = t_m (snd b).

Lemma eqU_tu a b x : Forall2 eqU1 a b -> tu x b = tu x a.
Proof.
  induction 1 as [|[k t] [k' t'] ra rb (E1 & E2 & E3 & E4 & _) HR IH]; [reflexivity|]. simpl in *. subst k'.
  rewrite !tu_cons, E3, E4, IH. reflexivity.
Qed.

Lemma closed_eqU nx a b : Forall2 eqU1 a b -> closed nx a -> closed nx b.
Proof.
  induction 1 as [|[k t] [k' t'] ra rb (E1 & E2 & E3 & E4 & _) HR IH]; [auto|]. simpl in *. intros (C1 & C2 & C3).
  rewrite <- E2, <- E4. split; [|split; [|apply IH; exact C3]].
  - intros x Hx id Hid Hm. rewrite (eqU_tu ra rb x HR) in Hm. apply (C1 x Hx id Hid Hm).
  - intros x Hx Hne. rewrite (eqU_tu ra rb x HR) in Hne. apply (C2 x Hx Hne).
Qed.

Lemma eqU_grow nx a b : Forall2 eqU1 a b -> Forall2 (grow1 nx) a b.
Proof.
  induction 1 as [|x y ra rb (E1 & E2 & E3 & E4 & E5) HR IH]; constructor; [|exact IH].
  unfold grow1, same1. repeat split; auto. intros id _ H. rewrite <- E4. exact H.
Qed.

Lemma eqU_tset n t t' ts : sorted ts -> tget n ts = Some t -> t_def t' = t_def t -> t_m t' = t_m t -> t_u t' = t_u t -> t_live t' = true ->
  Forall2 eqU1 ts (tset n t' ts).
Proof.
  intros So Tn E1 E2 E3 E4. apply Forall2_tset; [intros; unfold eqU1; auto|].
  intros k0 t0 I E. subst k0. destruct (tget_In _ _ _ Tn) as (In_n & Ln).
  assert (t0 = t) as -> by (eapply sorted_unique; eassumption).
  unfold eqU1; simpl. repeat split; congruence.
Qed.

(* only converter lists (and converter queues / caches) change *)
Lemma tcore_convonly st st' :
  Tcore st -> Forall2 eqU1 (tags st) (tags st') -> next st' = next st -> m_upd st' = m_upd st -> m_rst st' = m_rst st -> m_add st' = m_add st ->
  jtag st' = jtag st -> convs st' = convs st -> jconv st' = jconv st -> idx st' = idx st -> jmerge st' = jmerge st -> jimp st' = jimp st ->
  Tcore st'.
Proof.
  intros TC E N MU MR MA JT CV JC IX JM JI. pose proof TC as (A1 & A2 & A3 & A4 & A5 & A6 & A7 & A8 & A9 & A10 & A11 & A12).
  apply (tcore_grow st st' TC N (eqU_grow _ _ _ E)); try assumption; try (rewrite ?MU, ?MR, ?MA; assumption).
  - intros n t' I L. destruct (Forall2_In_r _ _ _ _ E I) as ([k t] & I0 & (E1 & E2 & E3 & E4 & _)). simpl in *. subst k.
    rewrite <- E3 in L. rewrite <- E2, <- E4. exact (A3 n t I0 L).
  - intros n t' I. destruct (Forall2_In_r _ _ _ _ E I) as ([k t] & I0 & (E1 & E2 & E3 & E4 & _)). simpl in *. subst k.
    rewrite <- E4. exact (proj1 (A4 n t I0)).
  - eapply closed_eqU; eassumption.
  - intros j Hj. rewrite JC in Hj. exact Hj.
Qed.

Lemma detach_core st n c : Tcore st -> Tcore (detach st n c).
Proof.
  intros TC. pose proof TC as (So & _). unfold detach. destruct (tget n (tags st)) as [t|] eqn:Tn; [|exact TC].
  match goal with |- context[if ?b then _ else _] => destruct b end;
    (apply (tcore_convonly st); try reflexivity; [exact TC|simpl; apply (eqU_tset n t); auto]).
Qed.

Lemma attach_core st n c st' : attach st n c = Some st' -> Tcore st -> Tcore st'.
Proof.
  intros E TC. pose proof TC as (So & _). unfold attach in E. destruct (tget n (tags st)) as [t|] eqn:Tn; [|inversion E; subst; exact TC].
  destruct (tag_has_conv c t); [inversion E; subst; exact TC|]. destruct (complex (t_def t)); [discriminate|]. inversion E; subst.
  apply (tcore_convonly st); try reflexivity; [exact TC|simpl; apply (eqU_tset n t); auto].
Qed.

Lemma tcore_reopen st s : Tcore st -> bounded (next st) s -> Tcore (reopen_data st s).
Proof.
  intros TC BS. pose proof TC as (A1 & A2 & A3 & A4 & A5 & A6 & A7 & A8 & A9 & A10 & A11 & A12).
  apply (tcore_grow st); try reflexivity; try assumption; unfold reopen_data; simpl.
  - eapply grow_trans; [apply grow_data_tags|apply grow_inherit].
  - apply deadok_inherit, deadok_data_tags. exact A3.
  - apply u_bounded_inherit, ub_data_tags; [apply tags_u_bounded; exact A4|exact BS].
  - apply closed_inherit.
  - apply union_bounded; assumption.
  - intros j Hj. exact Hj.
Qed.

Lemma tcore_after_detach k b st : Tcore st -> Tcore (after_detach k b st).
Proof.
  intros TC. unfold after_detach. destruct (kf_detachreset k); [exact TC|].
  destruct (b && has_data_tag (tags st)); [|exact TC]. apply tcore_reopen; [exact TC|apply ones_bounded].
Qed.

Lemma tcore_tag_again k p st : Tcore st -> Tcore (tag_again k p st).
Proof. intros TC. unfold tag_again. destruct (kf_detachreset k); [exact TC|apply tcore_start_tagging, TC]. Qed.

Lemma fold_core (f : state -> N -> state) l : (forall s c, Tcore s -> Tcore (f s c)) -> forall st, Tcore st -> Tcore (fold_left f l st).
Proof. intros Hf. induction l; simpl; auto. Qed.

Lemma attach_all_core cs : forall st n, Tcore st -> Tcore (fst (attach_all st n cs)).
Proof.
  induction cs as [|c cs IH]; simpl; intros st n TC; [exact TC|].
  destruct (memN c (convs st)); [|exact TC]. destruct (attach st n c) eqn:E; [|exact TC].
  apply IH. eapply attach_core; eassumption.
Qed.

Lemma tcore_tags st ts' :
  Tcore st -> sorted ts' -> ranked ts' -> deadok ts' -> tags_bounded (next st) ts' -> closed (next st) ts' -> Tcore (set_tags st ts').
Proof.
  intros (A1 & A2 & A3 & A4 & A5 & A6 & A7 & A8 & A9 & A10 & A11 & A12) S R D B C.
  split; [exact S|split; [exact R|split; [exact D|split; [exact B|split; [exact A5|split; [exact A6|split; [exact A7|
    split; [exact C|split; [exact A9|split; [exact A10|split; [exact A11|exact A12]]]]]]]]]]].
Qed.

Lemma closed_tset_unref nx n t' ts :
  closed nx ts -> (forall k t, In (k, t) ts -> ~ In n (d_refs (t_def t))) ->
  (d_refs (t_def t') = [] \/ forall id, id < nx -> mem id (t_u t') = true) ->
  closed nx (tset n t' ts).
Proof.
  intros C U Own. revert C U. unfold tset. induction ts as [|[k t] r IH]; intros C U; [exact I|].
  simpl in C. destruct C as (C1 & C2 & C3).
  assert (closed nx (map (fun kt => if fst kt =? n then (fst kt, t') else kt) r)) as CR.
  { apply IH; [exact C3|intros k0 t0 I0; apply (U k0 t0); right; exact I0]. }
  assert (forall x, x <> n -> tu x (map (fun kt => if fst kt =? n then (fst kt, t') else kt) r) = tu x r) as SAME.
  { intros x NE. destruct (tu_tset n t' r x) as [E|(E & _)]; [exact E|congruence]. }
  simpl. destruct (N.eqb_spec k n) as [->|NE]; simpl.
  - split; [|split; [|exact CR]].
    + intros x Hx id Hid _. destruct Own as [E|F]; [|apply F; exact Hid].
      unfold d_refs in E. apply app_eq_nil in E. destruct E as (E & _). rewrite E in Hx. destruct Hx.
    + intros x Hx _ id Hid. destruct Own as [E|F]; [|apply F; exact Hid].
      unfold d_refs in E. apply app_eq_nil in E. destruct E as (_ & E). rewrite E in Hx. destruct Hx.
  - assert (forall x, In x (d_refs (t_def t)) -> x <> n) as RN.
    { intros x Hx ->. apply (U k t (or_introl eq_refl)). exact Hx. }
    split; [|split; [|exact CR]].
    + intros x Hx id Hid Hm. rewrite SAME in Hm; [|apply RN; apply in_or_app; left; exact Hx]. apply (C1 x Hx id Hid Hm).
    + intros x Hx Hne. rewrite SAME in Hne; [|apply RN; apply in_or_app; right; exact Hx]. apply (C2 x Hx Hne).
Qed.

(* a slot that nobody references is (re)filled or emptied *)
Lemma tcore_slot st n t' :
  Tcore st ->
  (forall k t, In (k, t) (tags st) -> t_live t = true -> ~ In n (d_refs (t_def t))) ->
  (t_live t' = true -> (forall x, In x (d_refs (t_def t')) -> x < n /\ exists tx, tget x (tags st) = Some tx) /\ def_ok (t_def t')) ->
  (t_live t' = false -> t_u t' = 0 /\ d_refs (t_def t') = [] /\ d_data (t_def t') = false) ->
  bounded (next st) (t_u t') -> bounded (next st) (t_m t') ->
  (d_refs (t_def t') = [] \/ forall id, id < next st -> mem id (t_u t') = true) ->
  Tcore (set_tags st (tset n t' (tags st))).
Proof.
  intros TC U R Dd BU BM Own. pose proof TC as (So & Ra & Dk & TB & _ & _ & _ & CL & _).
  apply tcore_tags; [exact TC|eapply sorted_fst; [apply tset_fst|exact So]| | |apply tb_tset; assumption|].
  - intros k t I L. destruct (In_tset _ _ _ _ _ I) as [(-> & ->)|(NE & I0)].
    + destruct (R L) as (Rf & Dok). split; [|exact Dok]. intros x Hx. destruct (Rf x Hx) as (Lx & tx & Tx).
      split; [exact Lx|]. exists tx. rewrite tget_tset_ne; [exact Tx|lia].
    + destruct (Ra k t I0 L) as (Rf & Dok). split; [|exact Dok]. intros x Hx. destruct (Rf x Hx) as (Lx & tx & Tx).
      split; [exact Lx|]. exists tx. rewrite tget_tset_ne; [exact Tx|]. intros ->. apply (U k t I0 L). exact Hx.
  - intros k t I L. destruct (In_tset _ _ _ _ _ I) as [(-> & ->)|(NE & I0)]; [exact (Dd L)|exact (Dk k t I0 L)].
  - apply closed_tset_unref; [exact CL| |exact Own].
    intros k t I Hin. destruct (t_live t) eqn:L; [exact (U k t I L Hin)|].
    destruct (Dk k t I L) as (_ & E & _). rewrite E in Hin. destruct Hin.
Qed.

(* a live tag is replaced and uncertainty is inherited (UpdateTag query, mark add / del) *)
Lemma tcore_replace_inherit st n ot t2 :
  Tcore st -> tget n (tags st) = Some ot -> t_live t2 = true ->
  bounded (next st) (t_u t2) -> bounded (next st) (t_m t2) ->
  ((forall x, In x (d_refs (t_def t2)) -> x < n /\ exists tx, tget x (tags st) = Some tx) /\ def_ok (t_def t2)) ->
  Tcore (set_tags st (inherit (all st) (tset n t2 (tags st)))).
Proof.
  intros TC Tn L2 BU BM R. pose proof TC as (So & Ra & Dk & TB & _ & _ & _ & CL & _).
  destruct (tget_In _ _ _ Tn) as (In_n & Ln). set (ts1 := tset n t2 (tags st)).
  pose proof (grow_inherit (next st) ts1) as GR. fold (all st) in GR.
  assert (tags_bounded (next st) ts1) as TB1 by (apply tb_tset; assumption).
  apply tcore_tags; [exact TC| | | | |apply closed_inherit].
  - eapply sorted_same; [eapply grow_same; exact GR|]. eapply sorted_fst; [apply tset_fst|exact So].
  - eapply ranked_same; [eapply grow_same; exact GR|].
    intros k t I L. destruct (In_tset _ _ _ _ _ I) as [(-> & ->)|(NE & I0)].
    + destruct R as (Rf & Dok). split; [|exact Dok]. intros x Hx. destruct (Rf x Hx) as (Lx & tx & Tx).
      split; [exact Lx|]. exists tx. unfold ts1. rewrite tget_tset_ne; [exact Tx|lia].
    + destruct (Ra k t I0 L) as (Rf & Dok). split; [|exact Dok]. intros x Hx. destruct (Rf x Hx) as (Lx & tx & Tx).
      split; [exact Lx|]. destruct (N.eq_dec x n) as [->|NX].
      * exists t2. apply tget_tset_eq; [exact L2|exists n, ot; split; [exact In_n|reflexivity]].
      * exists tx. unfold ts1. rewrite tget_tset_ne; assumption.
  - apply deadok_inherit, deadok_tset; assumption.
  - eapply tb_from; [apply N.le_refl|exact TB1|exact GR|]. apply u_bounded_inherit. apply tags_u_bounded. exact TB1.
Qed.

(* clearing Uncertain of a reference-free tag (mark tags) *)
Lemma tcore_clear st n x :
  Tcore st -> tget n (tags st) = Some x -> d_refs (t_def x) = [] ->
  Tcore (set_tags st (tset n (mkTag (t_def x) (t_m x) 0 (t_conv x)) (tags st))).
Proof.
  intros TC Tn RE. pose proof TC as (So & Ra & Dk & TB & _ & _ & _ & CL & _).
  destruct (tget_In _ _ _ Tn) as (In_n & Ln). set (tp := mkTag (t_def x) (t_m x) 0 (t_conv x)).
  assert (forall k t, In (k, t) (tags st) -> k = n -> t = x) as UQ by (intros k t I ->; eapply sorted_unique; eassumption).
  assert (Forall2 same1 (tags st) (tset n tp (tags st))) as SM.
  { apply Forall2_tset; [intros; repeat split|]. intros k t I E. rewrite (UQ k t I E). unfold same1; simpl. auto. }
  apply tcore_tags; [exact TC|eapply sorted_same; eassumption|eapply ranked_same; eassumption|apply deadok_tset; [reflexivity|exact Dk]| |].
  - apply tb_tset; [exact TB|apply bounded_0|exact (proj2 (TB n x In_n))].
  - apply closed_tset_zero; try assumption; try reflexivity.
    + intros pre t r _ y Hy. simpl in Hy. rewrite RE in Hy. destruct Hy.
    + intros k t I E. rewrite (UQ k t I E). reflexivity.
Qed.

Lemma maxl_ge l : forall a i, In i l -> i <= fold_left N.max l a.
Proof.
  induction l as [|x l IH]; simpl; intros a i []; [subst|apply IH; assumption].
  assert (forall b, b <= fold_left N.max l b) as G.
  { clear. induction l as [|y l IH]; simpl; intros b; [lia|]. specialize (IH (N.max b y)). lia. }
  specialize (G (N.max a i)). lia.
Qed.

Lemma fold_add1_mem l : forall acc i, mem i (fold_left (fun a s => add1 s a) l acc) = true -> mem i acc = true \/ In i l.
Proof.
  induction l as [|x l IH]; simpl; intros acc i H; [left; exact H|].
  apply IH in H. destruct H as [H|H]; [|right; right; exact H].
  rewrite mem_add1 in H. apply orb_true_iff in H. destruct H as [H|H]; [left; exact H|right; left; apply N.eqb_eq in H; congruence].
Qed.

Lemma idset_bounded nx (f : N -> bool) ids : maxl ids < nx -> bounded nx (fold_left (fun a s => add1 s a) (filter f ids) 0).
Proof.
  intros M i Hi. apply fold_add1_mem in Hi. destruct Hi as [Hi|Hi]; [rewrite mem_0 in Hi; discriminate|].
  apply filter_In in Hi. destruct Hi as (Hi & _). pose proof (maxl_ge ids 0 i Hi). unfold maxl in M. lia.
Qed.

Lemma diff_bounded nx a b : bounded nx a -> bounded nx (diff a b).
Proof. intros A i H. rewrite mem_diff in H. apply andb_true_iff in H. apply A. exact (proj1 H). Qed.

Theorem tcore_api k p a st : api_action a -> api_ok st a -> Tcore st -> Tcore (step k p a st).
Proof.
  intros Ha Hok TC. pose proof TC as (So & Ra & Dk & TB & _).
  destruct a; try (destruct Ha; fail); simpl.
  - (* AImport *) destruct files; [exact TC|]. match goal with |- context[if ?b then _ else _] => destruct b end;
      (apply (tcore_frame st); try reflexivity; [|exact TC]; intros nn rr E; simpl in E; try discriminate; exact E).
  - (* AAddTag *) destruct (tget n (tags st)) eqn:Tn; [exact TC|]. destruct (refs_ok n d (tags st)) eqn:RO; [|exact TC].
    destruct Hok as (Dok & Mk). pose proof (refs_ok_spec _ _ _ RO) as RS.
    assert (forall k0 t0, In (k0, t0) (tags st) -> t_live t0 = true -> ~ In n (d_refs (t_def t0))) as U.
    { intros k0 t0 I L Hin. destruct (Ra k0 t0 I L) as (Rf & _). destruct (Rf n Hin) as (_ & tx & Tx). congruence. }
    destruct (d_mark d) eqn:DM.
    + destruct (Mk eq_refl) as (RE & BI). apply tcore_slot; try assumption; simpl; try discriminate.
      all: try (intros _; split; assumption). all: try (left; exact RE).
    + apply tcore_start_tagging. apply tcore_slot; try assumption; simpl; try discriminate.
      all: try (intros _; split; assumption). all: try apply ones_bounded.
      all: try (right; intros id Hid; apply mem_ones; exact Hid).
  - (* ADelTag *) destruct (tget n (tags st)) as [t|] eqn:Tn; [|exact TC].
    destruct (referenced n (tags st)) eqn:RF; [exact TC|].
    set (st1 := fold_left (fun s c => detach s n c) (t_conv t) st).
    assert (Tcore st1) as TC1 by (apply fold_core; [intros; apply detach_core; assumption|exact TC]).
    apply tcore_tag_again.
    match goal with |- Tcore (set_tags ?s2 _) => set (st2 := s2) end.
    assert (Tcore st2) as TC2 by (apply tcore_after_detach; exact TC1).
    unfold tdel. apply tcore_slot; try assumption; simpl; try discriminate.
    1: { intros k0 t0 I L Hin. destruct (after_detach_defs _ _ _ _ _ I) as (t2 & I2 & D2 & L2).
         destruct (fold_detach_defs _ _ _ _ _ I2) as (t1 & I1 & D1 & L1).
         apply (referenced_false n (tags st) RF k0 t1 I1); [congruence|rewrite D1, D2; exact Hin]. }
    all: try (intros _; repeat split). all: try (left; reflexivity).
  - (* AQuery *) destruct (tget n (tags st)) as [t|] eqn:Tn; [|exact TC].
    destruct (complex d && _); [exact TC|].
    destruct (refs_ok n d (tags st)) eqn:RO; [|exact TC].
    apply tcore_start_converter, tcore_start_tagging.
    apply (tcore_replace_inherit st n t); try assumption; simpl; try reflexivity.
    + apply ones_bounded.
    + apply bounded_0.
    + split; [apply refs_ok_spec; exact RO|exact Hok].
  - (* AMarkAdd *) destruct (tget n (tags st)) as [t|] eqn:Tn; [|exact TC]. destruct ids as [|i0 ids]; [exact TC|].
    destruct (N.leb_spec (next st) (maxl (i0 :: ids))) as [|LT]; [exact TC|].
    pose proof (Hok t Tn) as RE. destruct (tget_In _ _ _ Tn) as (In_n & Ln). destruct (Ra n t In_n Ln) as (Rf & Dok).
    destruct (TB n t In_n) as (BU & BM).
    set (new := filter (fun s => negb (mem s (t_m t))) (i0 :: ids)).
    set (newset := fold_left (fun a s => add1 s a) new 0).
    assert (bounded (next st) newset) as BN by (apply idset_bounded; exact LT).
    set (d' := match new with [] => t_def t | _ :: _ => with_def_id (t_def t) did end).
    assert (d_refs d' = d_refs (t_def t) /\ def_ok d') as (RD & DD).
    { unfold d'. destruct new; [split; [reflexivity|exact Dok]|]. destruct (with_def_id_refs (t_def t) did). split; auto. }
    set (t' := mkTag d' (union (t_m t) newset) (union (t_u t) newset) (t_conv t)).
    set (st1 := queue_matches st (t_conv t) newset).
    assert (Tcore st1) as TC1 by (apply (tcore_frame st); try reflexivity; [intros nn rr E; exact E|exact TC]).
    assert (Tcore (set_tags st1 (inherit (all st1) (tset n t' (tags st1))))) as TC2.
    { apply (tcore_replace_inherit st1 n t); try assumption; simpl; try reflexivity; try (apply union_bounded; assumption).
      rewrite RD. split; assumption. }
    apply tcore_start_converter, tcore_start_tagging. change (all st) with (all st1).
    set (ts1 := inherit (all st1) (tset n t' (tags st1))) in *.
    assert (exists x, tget n ts1 = Some x /\ t_def x = d') as (x & Tx & Dx).
    { assert (tget n (tset n t' (tags st1)) = Some t') as T1 by (apply tget_tset_eq; [reflexivity|exists n, t; split; [exact In_n|reflexivity]]).
      destruct (grow_tget (next st1) _ _ n t' (grow_inherit (next st1) (tset n t' (tags st1))) T1) as (x & Tx & Dx & _).
      exists x. split; [exact Tx|exact Dx]. }
    match goal with |- context[tget n ?T] => replace (tget n T) with (Some x) by (symmetry; exact Tx) end.
    assert (d_refs (t_def x) = []) as RX by (rewrite Dx, RD; exact RE).
    exact (tcore_clear (set_tags st1 ts1) n x TC2 Tx RX).
  - (* AMarkDel *) destruct (tget n (tags st)) as [t|] eqn:Tn; [|exact TC]. destruct ids as [|i0 ids]; [exact TC|].
    destruct (N.leb_spec (next st) (maxl (i0 :: ids))) as [|LT]; [exact TC|].
    pose proof (Hok t Tn) as RE. destruct (tget_In _ _ _ Tn) as (In_n & Ln). destruct (Ra n t In_n Ln) as (Rf & Dok).
    destruct (TB n t In_n) as (BU & BM).
    set (oldset := fold_left (fun a s => add1 s a) (filter (fun s => mem s (t_m t)) (i0 :: ids)) 0).
    assert (bounded (next st) oldset) as BN by (apply idset_bounded; exact LT).
    destruct (with_def_id_refs (t_def t) did) as (RD & DD).
    set (t' := mkTag (with_def_id (t_def t) did) (diff (t_m t) oldset) (union (t_u t) oldset) (t_conv t)).
    assert (Tcore (set_tags st (inherit (all st) (tset n t' (tags st))))) as TC2.
    { apply (tcore_replace_inherit st n t); try assumption; simpl; try reflexivity.
      - apply union_bounded; assumption.
      - apply diff_bounded; assumption.
      - rewrite RD. split; auto. }
    apply tcore_start_converter, tcore_start_tagging.
    set (ts1 := inherit (all st) (tset n t' (tags st))) in *.
    assert (exists x, tget n ts1 = Some x /\ t_def x = with_def_id (t_def t) did) as (x & Tx & Dx).
    { assert (tget n (tset n t' (tags st)) = Some t') as T1 by (apply tget_tset_eq; [reflexivity|exists n, t; split; [exact In_n|reflexivity]]).
      destruct (grow_tget (next st) _ _ n t' (grow_inherit (next st) (tset n t' (tags st))) T1) as (x & Tx & Dx & _).
      exists x. split; [exact Tx|exact Dx]. }
    match goal with |- context[tget n ?T] => replace (tget n T) with (Some x) by (symmetry; exact Tx) end.
    assert (d_refs (t_def x) = []) as RX by (rewrite Dx, RD; exact RE).
    exact (tcore_clear (set_tags st ts1) n x TC2 Tx RX).
  - (* ASetConv *) destruct (tget n (tags st)); [|exact TC].
    match goal with |- context[if ?b then _ else _] => destruct b end; [|exact TC].
    apply tcore_start_converter, tcore_tag_again, attach_all_core, tcore_after_detach. apply fold_core; [|exact TC].
    intros s c Hs. destruct (memN c cs); [exact Hs|apply detach_core; exact Hs].
  - (* AViewOpen *) apply (tcore_frame st); try reflexivity; [intros nn rr E; exact E|exact TC].
  - (* AViewData *) destruct (find _ (views st)) as [[v0 sv]|]; [|exact TC]. destruct (cache st c i); [exact TC|].
    destruct (negb (i <? next st) || negb (memN c (convs st))); [exact TC|].
    destruct (kf_viewstore k || (sv i =? ver st i)).
    + apply (tcore_frame st); try reflexivity; [intros nn rr E; exact E|exact TC].
    + apply tcore_start_converter. apply (tcore_frame st); try reflexivity; [intros nn rr E; exact E|exact TC].
  - (* AViewClose *) apply (tcore_frame st); try reflexivity; [intros nn rr E; exact E|exact TC].
Qed.

(* ---------------------------------------------------------------- Tinv under API actions and along every history *)
Theorem Tinv_api p a st : Tinv st -> api_action a -> api_ok st a -> Tinv (step repaired p a st).
Proof.
  intros TI Ha Hok. pose proof (proj1 (Tinv_split st) TI) as (TC & CV & CI).
  apply Tinv_split. split; [apply tcore_api; assumption|split; [apply covered_api; assumption|]].
  apply cinv_step; [repeat split| |exact CI]. destruct a; simpl; auto. destruct Ha.
Qed.

(* what a history has to respect: API arguments as api_ok says, importer responses as resp_t says *)
Definition valid (st : state) (a : action) : Prop :=
  match a with
  | ABodyImport r => resp_t st r
  | ABodyTag _ | ABodyConvert _ | ABodyMerge | AComplete _ => True
  | _ => api_ok st a
  end.

Lemma job_step_or_same p a st : job_action a -> valid st a -> jstep st (step repaired p a st) \/ step repaired p a st = st.
Proof.
  intros Ha V. destruct a; try (destruct Ha; fail).
  - destruct (jimp st) as [[n [r0|]]|] eqn:J.
    + right. simpl. rewrite J. reflexivity.
    + left. exists p, (ABodyImport r). split; [|reflexivity]. simpl. split; [exists n; exact J|exact V].
    + right. simpl. rewrite J. reflexivity.
  - destruct (jtag st) as [j|] eqn:J; [|right; simpl; rewrite J; reflexivity].
    destruct (tj_res j) eqn:R; [right; simpl; rewrite J, R; reflexivity|].
    left. exists p, (ABodyTag truth). split; [|reflexivity]. simpl. exists j. split; assumption.
  - destruct (jconv st) as [j|] eqn:J; [|right; simpl; rewrite J; reflexivity].
    destruct (cj_done j) eqn:R; [right; simpl; rewrite J, R; reflexivity|].
    left. exists p, (ABodyConvert bad). split; [|reflexivity]. simpl. exists j. split; assumption.
  - destruct (jmerge st) as [j|] eqn:J; [|right; simpl; rewrite J; reflexivity].
    destruct (mj_res j) eqn:R; [right; simpl; rewrite J, R; reflexivity|].
    left. exists p, ABodyMerge. split; [|reflexivity]. simpl. exists j. split; assumption.
  - destruct (classic_fires k st) as [F|NF].
    + left. exists p, (AComplete k). split; [exact F|reflexivity].
    + right. apply complete_nofire. exact NF.
Qed.

Theorem Tinv_step p a st : Tinv st -> valid st a -> Tinv (step repaired p a st).
Proof.
  intros TI V. destruct a;
    try (apply Tinv_api; [exact TI|exact I|exact V]);
    (match goal with |- Tinv (step repaired p ?a st) => destruct (job_step_or_same p a st I V) as [JS|E] end;
     [eapply Tinv_jstep; eassumption|rewrite E; exact TI]).
Qed.

Fixpoint valid_history (st : state) (l : list (N * action)) : Prop :=
  match l with
  | [] => True
  | (p, a) :: r => valid st a /\ valid_history (step repaired p a st) r
  end.

Theorem Tinv_reachable cs l : NoDup cs -> valid_history (init cs) l -> Tinv (run repaired l (init cs)).
Proof.
  intros ND. assert (forall st, Tinv st -> valid_history st l -> Tinv (run repaired l st)) as G.
  { unfold run. induction l as [|[p a] l IH]; simpl; intros st TI V; [exact TI|].
    destruct V as (V1 & V2). apply IH; [apply Tinv_step; assumption|exact V2]. }
  intros V. apply G; [apply Tinv_init; exact ND|exact V].
Qed.

(* every schedule of job steps from EVERY reachable state is finite and ends quiescent *)
Theorem reachable_schedules_terminate cs l : NoDup cs -> valid_history (init cs) l ->
  Acc (fun b a => jstep a b) (run repaired l (init cs)).
Proof. intros ND V. apply jstep_terminates. apply Tinv_reachable; assumption. Qed.

Theorem reachable_schedules_end_quiescent cs l st' : NoDup cs -> valid_history (init cs) l ->
  jsteps (run repaired l (init cs)) st' -> (forall st'', ~ jstep st' st'') ->
  quiescent st' /\ all_certain (tags st') = true.
Proof. intros ND V JS ST. eapply schedules_end_quiescent; [apply Tinv_reachable; eassumption|exact JS|exact ST]. Qed.
