(* TagsC09A.v -- C09: the termination invariant Tinv is preserved by the API actions as well, hence it holds in
   every state reachable from init by arbitrary histories. *)
From Coq Require Import List NArith Bool Lia Arith.
From Pk Require Import Tags TagsC16 TagsC06 TagsC09 TagsC09T.
Import ListNotations.
Open Scope N_scope.

Definition api_action (a : action) : Prop :=
  match a with
  | ABodyImport _ | ABodyTag _ | ABodyConvert | ABodyMerge | AComplete _ => False
  | _ => True
  end.

(* what the API layer guarantees about its arguments: a parsed definition is well formed, a mark definition
   has no references and names existing streams only *)
Definition api_ok (st : state) (a : action) : Prop :=
  match a with
  | AAddTag n d ids => def_ok d /\ (d_mark d = true -> d_refs d = [] /\ bounded (next st) ids)
  | AQuery n d => def_ok d
  | AMarkAdd n ids did | AMarkDel n ids did => forall t, tget n (tags st) = Some t -> d_refs (t_def t) = []
  | _ => True
  end.

(* ---------------------------------------------------------------- covered *)
Lemma all_certain_no_eligible ts : all_certain ts = true -> first_eligible ts = None.
Proof.
  intros AC. destruct (first_eligible ts) as [n|] eqn:FE; [|reflexivity]. exfalso.
  pose proof (first_eligible_spec _ _ FE) as EL. unfold eligible in EL.
  destruct (tget n ts) as [t|] eqn:T; [|discriminate]. apply andb_true_iff in EL. destruct EL as [EU _].
  destruct (tget_In _ _ _ T) as (I & _). unfold all_certain in AC. rewrite forallb_forall in AC.
  specialize (AC (n, t) I). simpl in AC. rewrite AC in EU. discriminate.
Qed.

Lemma tinv_nojob_certain st : Tinv st -> jtag st = None -> all_certain (tags st) = true.
Proof.
  intros TI J. pose proof (proj1 (Tinv_split st) TI) as ((So & Ra & Dk & _) & (TW & _) & _).
  destruct (all_certain (tags st)) eqn:AC; [reflexivity|]. exfalso.
  apply (TW (eligible_exists _ So Ra (deadok_dead_clean _ Dk) AC)). exact J.
Qed.

(* jobs are never removed by an API action and the index list is untouched *)
Definition api_frame (st st' : state) : Prop :=
  idx st' = idx st /\ unmerge st' = unmerge st /\ jmerge st' = jmerge st /\
  (jtag st <> None -> jtag st' <> None) /\ (jconv st <> None -> jconv st' <> None).

Lemma merge_covered_api st st' : Tinv st -> api_frame st st' -> merge_covered st'.
Proof.
  intros TI (F1 & F2 & F3 & F4 & F5). pose proof (proj1 (Tinv_split st) TI) as (_ & (_ & _ & MC & _) & _).
  unfold merge_covered, merge_eligible in *. rewrite F1, F2, F3.
  destruct (jmerge st); [reflexivity|].
  destruct (jtag st) eqn:JT.
  - destruct (jtag st'); [reflexivity|]. exfalso. apply F4; [discriminate|reflexivity].
  - destruct (jconv st) eqn:JC.
    + destruct (jtag st'); [reflexivity|]. destruct (jconv st'); [reflexivity|]. exfalso. apply F5; [discriminate|reflexivity].
    + rewrite (tinv_nojob_certain st TI JT) in MC.
      destruct (jtag st'); [reflexivity|]. destruct (jconv st'); [reflexivity|]. destruct (all_certain (tags st')); [exact MC|reflexivity].
Qed.

Lemma api_frame_refl st : api_frame st st.
Proof. unfold api_frame. auto. Qed.
Lemma api_frame_trans a b c : api_frame a b -> api_frame b c -> api_frame a c.
Proof. intros (A1 & A2 & A3 & A4 & A5) (B1 & B2 & B3 & B4 & B5). unfold api_frame. split; [congruence|split; [congruence|split; [congruence|split; auto]]]. Qed.

Lemma start_tagging_api p st : api_frame st (start_tagging p st).
Proof.
  unfold start_tagging. destruct (jtag st) eqn:J; [apply api_frame_refl|].
  destruct (if eligible (tags st) p then Some p else first_eligible (tags st)); [|apply api_frame_refl].
  destruct (tget n (tags st)); [|apply api_frame_refl]. unfold api_frame. simpl. repeat split; auto; try (intros _; discriminate).
Qed.
Lemma start_converter_api st : api_frame st (start_converter st).
Proof.
  unfold start_converter. destruct (jconv st) eqn:J; [apply api_frame_refl|].
  destruct (filter _ (convs st)); [apply api_frame_refl|]. unfold api_frame. simpl. repeat split; auto; try (intros _; discriminate).
Qed.

Lemma detach_api st n c : api_frame st (detach st n c).
Proof.
  unfold detach. destruct (tget n (tags st)); [|apply api_frame_refl].
  match goal with |- context[if ?b then _ else _] => destruct b end; unfold api_frame; simpl; auto.
Qed.

Lemma fold_api (f : state -> N -> state) l : (forall s c, api_frame s (f s c)) -> forall st, api_frame st (fold_left f l st).
Proof.
  intros Hf. induction l as [|c l IH]; simpl; intros st; [apply api_frame_refl|].
  eapply api_frame_trans; [apply Hf|apply IH].
Qed.

Lemma attach_api st n c st' : attach st n c = Some st' -> api_frame st st'.
Proof.
  unfold attach. destruct (tget n (tags st)); [|intros E; inversion E; apply api_frame_refl].
  destruct (tag_has_conv c t); [intros E; inversion E; apply api_frame_refl|].
  destruct (complex (t_def t)); [discriminate|]. intros E; inversion E. unfold api_frame; simpl; auto.
Qed.

Lemma attach_all_api cs : forall st n, api_frame st (fst (attach_all st n cs)).
Proof.
  induction cs as [|c cs IH]; simpl; intros st n; [apply api_frame_refl|].
  destruct (memN c (convs st)); [|apply api_frame_refl].
  destruct (attach st n c) eqn:E; [|apply api_frame_refl].
  eapply api_frame_trans; [eapply attach_api; exact E|apply IH].
Qed.

Ltac fr := unfold api_frame; simpl; auto.

Lemma api_step_frame k p a st : api_action a -> api_frame st (step k p a st).
Proof.
  intros Ha. destruct a; try (destruct Ha; fail); simpl.
  - destruct files; [apply api_frame_refl|]. match goal with |- context[if ?b then _ else _] => destruct b end; fr.
  - destruct (tget n (tags st)); [apply api_frame_refl|]. destruct (refs_ok n d (tags st)); [|apply api_frame_refl].
    destruct (d_mark d); [fr|]. eapply api_frame_trans; [|apply start_tagging_api]. fr.
  - destruct (tget n (tags st)); [|apply api_frame_refl]. destruct (referenced n (tags st)); [apply api_frame_refl|].
    eapply api_frame_trans; [apply (fold_api (fun s c => detach s n c)); intros; apply detach_api|]. fr.
  - destruct (tget n (tags st)); [|apply api_frame_refl]. destruct (refs_ok n d (tags st)); [|apply api_frame_refl].
    eapply api_frame_trans; [|apply start_converter_api]. eapply api_frame_trans; [|apply start_tagging_api]. fr.
  - destruct (tget n (tags st)); [|apply api_frame_refl]. destruct ids; [apply api_frame_refl|].
    destruct (next st <=? maxl (n0 :: ids)); [apply api_frame_refl|].
    eapply api_frame_trans; [|apply start_converter_api]. eapply api_frame_trans; [|apply start_tagging_api]. fr.
  - destruct (tget n (tags st)); [|apply api_frame_refl]. destruct ids; [apply api_frame_refl|].
    destruct (next st <=? maxl (n0 :: ids)); [apply api_frame_refl|].
    eapply api_frame_trans; [|apply start_converter_api]. eapply api_frame_trans; [|apply start_tagging_api]. fr.
  - destruct (tget n (tags st)); [|apply api_frame_refl].
    match goal with |- context[if ?b then _ else _] => destruct b end; [|apply api_frame_refl].
    eapply api_frame_trans; [|apply start_converter_api]. eapply api_frame_trans; [|apply attach_all_api].
    apply (fold_api (fun s c => if memN c cs then s else detach s n c)). intros s c. destruct (memN c cs); [apply api_frame_refl|apply detach_api].
  - fr.
  - destruct (find _ (views st)) as [[v0 sv]|]; [|apply api_frame_refl]. destruct (cache st c i); [apply api_frame_refl|].
    destruct (negb (i <? next st) || negb (memN c (convs st))); [apply api_frame_refl|].
    destruct (kf_viewstore k || (sv i =? ver st i)); [fr|]. eapply api_frame_trans; [|apply start_converter_api]. fr.
  - fr.
Qed.

(* ---------------------------------------------------------------- more frames *)
Definition qframe (st st' : state) : Prop := queue st' = queue st /\ jimp st' = jimp st.
Lemma qframe_refl st : qframe st st. Proof. split; reflexivity. Qed.
Lemma qframe_trans a b c : qframe a b -> qframe b c -> qframe a c.
Proof. intros (A1 & A2) (B1 & B2). split; congruence. Qed.

Lemma start_tagging_q p st : qframe st (start_tagging p st).
Proof.
  unfold start_tagging. destruct (jtag st); [apply qframe_refl|].
  destruct (if eligible (tags st) p then Some p else first_eligible (tags st)); [|apply qframe_refl].
  destruct (tget n (tags st)); split; reflexivity.
Qed.
Lemma start_converter_q st : qframe st (start_converter st).
Proof. unfold start_converter. destruct (jconv st); [apply qframe_refl|]. destruct (filter _ (convs st)); split; reflexivity. Qed.
Lemma detach_q st n c : qframe st (detach st n c).
Proof.
  unfold detach. destruct (tget n (tags st)); [|apply qframe_refl].
  match goal with |- context[if ?b then _ else _] => destruct b end; split; reflexivity.
Qed.
Lemma fold_q (f : state -> N -> state) l : (forall s c, qframe s (f s c)) -> forall st, qframe st (fold_left f l st).
Proof. intros Hf. induction l as [|c l IH]; simpl; intros st; [apply qframe_refl|]. eapply qframe_trans; [apply Hf|apply IH]. Qed.
Lemma attach_q st n c st' : attach st n c = Some st' -> qframe st st'.
Proof.
  unfold attach. destruct (tget n (tags st)); [|intros E; inversion E; apply qframe_refl].
  destruct (tag_has_conv c t); [intros E; inversion E; apply qframe_refl|].
  destruct (complex (t_def t)); [discriminate|]. intros E; inversion E. split; reflexivity.
Qed.
Lemma attach_all_q cs : forall st n, qframe st (fst (attach_all st n cs)).
Proof.
  induction cs as [|c cs IH]; simpl; intros st n; [apply qframe_refl|].
  destruct (memN c (convs st)); [|apply qframe_refl]. destruct (attach st n c) eqn:E; [|apply qframe_refl].
  eapply qframe_trans; [eapply attach_q; exact E|apply IH].
Qed.

Ltac qf := split; reflexivity.

Lemma api_step_qframe k p a st : api_action a -> (match a with AImport _ => False | _ => True end) -> qframe st (step k p a st).
Proof.
  intros Ha Hn. destruct a; try (destruct Ha; fail); try (destruct Hn; fail); simpl.
  - destruct (tget n (tags st)); [apply qframe_refl|]. destruct (refs_ok n d (tags st)); [|apply qframe_refl].
    destruct (d_mark d); [qf|]. eapply qframe_trans; [|apply start_tagging_q]. qf.
  - destruct (tget n (tags st)); [|apply qframe_refl]. destruct (referenced n (tags st)); [apply qframe_refl|].
    eapply qframe_trans; [apply (fold_q (fun s c => detach s n c)); intros; apply detach_q|]. qf.
  - destruct (tget n (tags st)); [|apply qframe_refl]. destruct (refs_ok n d (tags st)); [|apply qframe_refl].
    eapply qframe_trans; [|apply start_converter_q]. eapply qframe_trans; [|apply start_tagging_q]. qf.
  - destruct (tget n (tags st)); [|apply qframe_refl]. destruct ids; [apply qframe_refl|].
    destruct (next st <=? maxl (n0 :: ids)); [apply qframe_refl|].
    eapply qframe_trans; [|apply start_converter_q]. eapply qframe_trans; [|apply start_tagging_q]. qf.
  - destruct (tget n (tags st)); [|apply qframe_refl]. destruct ids; [apply qframe_refl|].
    destruct (next st <=? maxl (n0 :: ids)); [apply qframe_refl|].
    eapply qframe_trans; [|apply start_converter_q]. eapply qframe_trans; [|apply start_tagging_q]. qf.
  - destruct (tget n (tags st)); [|apply qframe_refl].
    match goal with |- context[if ?b then _ else _] => destruct b end; [|apply qframe_refl].
    eapply qframe_trans; [|apply start_converter_q]. eapply qframe_trans; [|apply attach_all_q].
    apply (fold_q (fun s c => if memN c cs then s else detach s n c)). intros s c. destruct (memN c cs); [apply qframe_refl|apply detach_q].
  - qf.
  - destruct (find _ (views st)) as [[v0 sv]|]; [|apply qframe_refl]. destruct (cache st c i); [apply qframe_refl|].
    destruct (negb (i <? next st) || negb (memN c (convs st))); [apply qframe_refl|].
    destruct (kf_viewstore k || (sv i =? ver st i)); [qf|]. eapply qframe_trans; [|apply start_converter_q]. qf.
  - qf.
Qed.

Lemma import_covered_api k p a st : api_action a -> import_covered st -> import_covered (step k p a st).
Proof.
  intros Ha HI. destruct a; try (destruct (api_step_qframe k p _ st Ha I) as (Q1 & Q2); unfold import_covered; rewrite Q1, Q2; exact HI).
  simpl. destruct files as [|f fs]; [exact HI|].
  match goal with |- context[if ?b then _ else _] => destruct b eqn:E end; unfold import_covered in *; simpl.
  - intros _. discriminate.
  - intros _. apply HI. destruct (queue st); [|discriminate]. simpl in E. rewrite Nat.eqb_refl in E. discriminate.
Qed.

(* ---------------------------------------------------------------- converter work stays covered *)
Definition cframe (st st' : state) : Prop :=
  convs st' = convs st /\ (forall c, toconv st' c <> 0 -> toconv st c <> 0) /\ (jconv st <> None -> jconv st' <> None).

Lemma cframe_refl st : cframe st st. Proof. unfold cframe; auto. Qed.
Lemma cframe_trans a b c : cframe a b -> cframe b c -> cframe a c.
Proof. intros (A1 & A2 & A3) (B1 & B2 & B3). unfold cframe. split; [congruence|split; auto]. Qed.

Lemma conv_covered_cframe st st' : conv_work_covered st -> cframe st st' -> conv_work_covered st'.
Proof.
  intros HC (F1 & F2 & F3) c Hc Hne. rewrite F1 in Hc. apply F3. apply (HC c Hc). apply F2. exact Hne.
Qed.

Lemma start_tagging_c p st : cframe st (start_tagging p st).
Proof.
  unfold start_tagging. destruct (jtag st); [apply cframe_refl|].
  destruct (if eligible (tags st) p then Some p else first_eligible (tags st)); [|apply cframe_refl].
  destruct (tget n (tags st)); unfold cframe; simpl; auto.
Qed.

Lemma detach_c st n c : cframe st (detach st n c).
Proof.
  unfold detach. destruct (tget n (tags st)); [|apply cframe_refl].
  assert (forall c', fupd (toconv st) c (diff (toconv st c) (diff (t_m t) (fold_left
            (fun a nt => if negb (fst nt =? n) && tag_has_conv c (snd nt) then union a (t_m (snd nt)) else a)
            (tset n (mkTag (t_def t) (t_m t) (t_u t) (filter (fun x => negb (x =? c)) (t_conv t))) (tags st)) 0))) c' <> 0 -> toconv st c' <> 0) as H.
  { intros c'. unfold fupd. destruct (c' =? c) eqn:E; [|auto]. apply N.eqb_eq in E. subst. intros H E0. apply H.
    apply mem_ext. intros i. rewrite mem_diff, E0, mem_0. reflexivity. }
  match goal with |- context[if ?b then _ else _] => destruct b end; unfold cframe; simpl; auto.
Qed.

Lemma fold_c (f : state -> N -> state) l : (forall s c, cframe s (f s c)) -> forall st, cframe st (fold_left f l st).
Proof. intros Hf. induction l as [|c l IH]; simpl; intros st; [apply cframe_refl|]. eapply cframe_trans; [apply Hf|apply IH]. Qed.

Lemma conv_covered_api k p a st : api_action a -> conv_work_covered st -> conv_work_covered (step k p a st).
Proof.
  intros Ha HC. destruct a; try (destruct Ha; fail); simpl.
  - destruct files; [exact HC|]. match goal with |- context[if ?b then _ else _] => destruct b end;
      (eapply conv_covered_cframe; [exact HC|unfold cframe; simpl; auto]).
  - destruct (tget n (tags st)); [exact HC|]. destruct (refs_ok n d (tags st)); [|exact HC].
    destruct (d_mark d); [eapply conv_covered_cframe; [exact HC|unfold cframe; simpl; auto]|].
    eapply conv_covered_cframe; [exact HC|]. eapply cframe_trans; [|apply start_tagging_c]. unfold cframe; simpl; auto.
  - destruct (tget n (tags st)); [|exact HC]. destruct (referenced n (tags st)); [exact HC|].
    eapply conv_covered_cframe; [exact HC|].
    eapply cframe_trans; [apply (fold_c (fun s c => detach s n c)); intros; apply detach_c|]. unfold cframe; simpl; auto.
  - destruct (tget n (tags st)); [|exact HC]. destruct (refs_ok n d (tags st)); [|exact HC]. apply start_converter_post.
  - destruct (tget n (tags st)); [|exact HC]. destruct ids; [exact HC|].
    destruct (next st <=? maxl (n0 :: ids)); [exact HC|]. apply start_converter_post.
  - destruct (tget n (tags st)); [|exact HC]. destruct ids; [exact HC|].
    destruct (next st <=? maxl (n0 :: ids)); [exact HC|]. apply start_converter_post.
  - destruct (tget n (tags st)); [|exact HC].
    match goal with |- context[if ?b then _ else _] => destruct b end; [|exact HC]. apply start_converter_post.
  - eapply conv_covered_cframe; [exact HC|unfold cframe; simpl; auto].
  - destruct (find _ (views st)) as [[v0 sv]|]; [|exact HC]. destruct (cache st c i); [exact HC|].
    destruct (negb (i <? next st) || negb (memN c (convs st))); [exact HC|].
    destruct (kf_viewstore k || (sv i =? ver st i)); [eapply conv_covered_cframe; [exact HC|unfold cframe; simpl; auto]|].
    apply start_converter_post.
  - eapply conv_covered_cframe; [exact HC|unfold cframe; simpl; auto].
Qed.

(* ---------------------------------------------------------------- tagging work stays covered *)
Definition tcert (st st' : state) : Prop :=
  jtag st' = jtag st /\ (all_certain (tags st) = true -> all_certain (tags st') = true).

Lemma tcert_refl st : tcert st st. Proof. split; auto. Qed.
Lemma tcert_trans a b c : tcert a b -> tcert b c -> tcert a c.
Proof. intros (A1 & A2) (B1 & B2). split; [congruence|auto]. Qed.

Lemma tag_covered_tcert st st' : Tinv st -> tcert st st' -> tag_work_covered st'.
Proof.
  intros TI (F1 & F2) FE. destruct (jtag st') eqn:J; [discriminate|]. exfalso.
  assert (jtag st = None) as J0 by congruence.
  rewrite (all_certain_no_eligible _ (F2 (tinv_nojob_certain st TI J0))) in FE. apply FE. reflexivity.
Qed.

Lemma ac_tset n t' ts : all_certain ts = true -> is0 (t_u t') = true -> all_certain (tset n t' ts) = true.
Proof.
  unfold all_certain, tset. intros A Z. rewrite forallb_forall in *. intros [k t] I. apply in_map_iff in I.
  destruct I as ([k0 t0] & E & I0). simpl in E. destruct (k0 =? n); inversion E; subst; simpl; [exact Z|exact (A _ I0)].
Qed.

Lemma ac_tget n t ts : all_certain ts = true -> tget n ts = Some t -> is0 (t_u t) = true.
Proof. unfold all_certain. intros A T. rewrite forallb_forall in A. destruct (tget_In _ _ _ T) as (I & _). exact (A _ I). Qed.

Lemma detach_t st n c : tcert st (detach st n c).
Proof.
  unfold detach. destruct (tget n (tags st)) eqn:T; [|apply tcert_refl].
  match goal with |- context[if ?b then _ else _] => destruct b end; split; simpl; auto; intros A; apply ac_tset; auto; simpl; eapply ac_tget; eassumption.
Qed.
Lemma attach_t st n c st' : attach st n c = Some st' -> tcert st st'.
Proof.
  unfold attach. destruct (tget n (tags st)) eqn:T; [|intros E; inversion E; apply tcert_refl].
  destruct (tag_has_conv c t); [intros E; inversion E; apply tcert_refl|].
  destruct (complex (t_def t)); [discriminate|]. intros E; inversion E. split; simpl; auto.
  intros A. apply ac_tset; auto. simpl. eapply ac_tget; eassumption.
Qed.
Lemma fold_t (f : state -> N -> state) l : (forall s c, tcert s (f s c)) -> forall st, tcert st (fold_left f l st).
Proof. intros Hf. induction l as [|c l IH]; simpl; intros st; [apply tcert_refl|]. eapply tcert_trans; [apply Hf|apply IH]. Qed.
Lemma attach_all_t cs : forall st n, tcert st (fst (attach_all st n cs)).
Proof.
  induction cs as [|c cs IH]; simpl; intros st n; [apply tcert_refl|].
  destruct (memN c (convs st)); [|apply tcert_refl]. destruct (attach st n c) eqn:E; [|apply tcert_refl].
  eapply tcert_trans; [eapply attach_t; exact E|apply IH].
Qed.
Lemma start_converter_t st : tcert st (start_converter st).
Proof. unfold start_converter. destruct (jconv st); [apply tcert_refl|]. destruct (filter _ (convs st)); split; auto. Qed.

Lemma tag_covered_api k p a st : Tinv st -> api_action a -> tag_work_covered (step k p a st).
Proof.
  intros TI Ha. pose proof (proj1 (Tinv_split st) TI) as (_ & (TW & _) & _).
  destruct a; try (destruct Ha; fail); simpl.
  - destruct files; [exact TW|]. match goal with |- context[if ?b then _ else _] => destruct b end;
      (apply (tag_covered_tcert st); [exact TI|split; auto]).
  - destruct (tget n (tags st)); [exact TW|]. destruct (refs_ok n d (tags st)); [|exact TW].
    destruct (d_mark d); [|apply start_tagging_post].
    apply (tag_covered_tcert st); [exact TI|]. split; [reflexivity|]. intros A. simpl. apply ac_tset; [exact A|reflexivity].
  - destruct (tget n (tags st)); [|exact TW]. destruct (referenced n (tags st)); [exact TW|].
    apply (tag_covered_tcert st); [exact TI|].
    eapply tcert_trans; [apply (fold_t (fun s c => detach s n c)); intros; apply detach_t|].
    split; [reflexivity|]. intros A. simpl. unfold tdel. apply ac_tset; [exact A|reflexivity].
  - destruct (tget n (tags st)); [|exact TW]. destruct (refs_ok n d (tags st)); [|exact TW].
    apply start_converter_keeps_tag, start_tagging_post.
  - destruct (tget n (tags st)); [|exact TW]. destruct ids; [exact TW|].
    destruct (next st <=? maxl (n0 :: ids)); [exact TW|]. apply start_converter_keeps_tag, start_tagging_post.
  - destruct (tget n (tags st)); [|exact TW]. destruct ids; [exact TW|].
    destruct (next st <=? maxl (n0 :: ids)); [exact TW|]. apply start_converter_keeps_tag, start_tagging_post.
  - destruct (tget n (tags st)); [|exact TW].
    match goal with |- context[if ?b then _ else _] => destruct b end; [|exact TW].
    apply (tag_covered_tcert st); [exact TI|].
    eapply tcert_trans; [|apply start_converter_t]. eapply tcert_trans; [|apply attach_all_t].
    apply (fold_t (fun s c => if memN c cs then s else detach s n c)). intros s c. destruct (memN c cs); [apply tcert_refl|apply detach_t].
  - apply (tag_covered_tcert st); [exact TI|split; auto].
  - destruct (find _ (views st)) as [[v0 sv]|]; [|exact TW]. destruct (cache st c i); [exact TW|].
    destruct (negb (i <? next st) || negb (memN c (convs st))); [exact TW|].
    destruct (kf_viewstore k || (sv i =? ver st i)); [apply (tag_covered_tcert st); [exact TI|split; auto]|].
    apply (tag_covered_tcert st); [exact TI|]. eapply tcert_trans; [|apply start_converter_t]. split; auto.
  - apply (tag_covered_tcert st); [exact TI|split; auto].
Qed.

Theorem covered_api k p a st : Tinv st -> api_action a -> covered (step k p a st).
Proof.
  intros TI Ha. pose proof (proj1 (Tinv_split st) TI) as (_ & (_ & CW & _ & IC) & _).
  split; [apply tag_covered_api; assumption|split; [apply conv_covered_api; assumption|
    split; [apply (merge_covered_api st); [exact TI|apply api_step_frame; exact Ha]|apply import_covered_api; assumption]]].
Qed.
