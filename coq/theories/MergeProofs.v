(* C07: proofs about the merge model (Merge.v), part 1: re-basing arithmetic mod 2^64 and the
   host-group merge (add_all / merge_group / merge_groups). *)
From Coq Require Import Lia ZifyBool ZifyN ZifyNat Arith.
From Pk Require Import IndexFormat IndexFormatCodec IndexFormatHosts IndexFormatWriter Merge.
Open Scope N_scope.

(* ------------------------------------------------------------------ *)
(* reference-time re-basing: uint64 subtraction that may wrap, added back *)
(* ------------------------------------------------------------------ *)
Lemma P64_pos : 0 < P64. Proof. unfold P64. lia. Qed.
Lemma NS_pos : 0 < NS. Proof. unfold NS. lia. Qed.

Lemma rebase_abs ref nref f :
  nref * NS <= ref * NS + f -> ref * NS + f < P64 ->
  nref * NS + u64 (f + u64 (u64 (ref + P64 - nref) * NS)) = ref * NS + f.
Proof.
  intros Hle Hlt. pose proof P64_pos. pose proof NS_pos.
  assert (Hn : nref <= ref + P64) by nia.
  unfold u64.
  rewrite N.mul_mod_idemp_l by lia.
  rewrite N.add_mod_idemp_r by lia.
  replace (f + (ref + P64 - nref) * NS) with ((ref * NS + f - nref * NS) + NS * P64) by nia.
  rewrite N.mod_add by lia.
  rewrite N.mod_small by lia. lia.
Qed.

(* ------------------------------------------------------------------ *)
(* host-group merge                                                    *)
(* ------------------------------------------------------------------ *)
Section Cap.
  Variable gcap : N.
  Hypothesis Hcap : 0 < gcap.

  Lemma add_all_ok hs : forall g g' m,
      group_ok gcap g -> add_all gcap g hs = Some (g', m) ->
      group_ok gcap g' /\ extends g g' /\ length m = length hs /\
      (forall h x, nth_error hs h = Some x -> exists i, nth_error m h = Some i /\ nth_error (hg_hosts g') (N.to_nat i) = Some x).
  Proof.
    induction hs as [|h0 r IH]; intros g g' m Hg H; cbn [add_all] in H.
    - inversion H; subst. split; [assumption|]. split; [apply extends_refl|]. split; [reflexivity|]. intros [|h] x Hx; discriminate.
    - destruct (hg_add gcap g h0) as [[[i a] g1]|] eqn:E1; [|discriminate].
      destruct (add_all gcap g1 r) as [[g2 m2]|] eqn:E2; [|discriminate]. inversion H; subst; clear H.
      destruct (hg_add_ok gcap g h0 i a g1 Hcap Hg E1) as (Hg1 & Hx1 & Hn1 & _).
      destruct (IH _ _ _ Hg1 E2) as (Hg2 & Hx2 & Hl2 & Hm2).
      split; [|split; [|split]].
      + assumption.
      + eapply extends_trans; eauto.
      + cbn [length]. now rewrite Hl2.
      + intros [|h] x Hx; cbn [nth_error] in *.
        * inversion Hx; subst. exists i. split; [reflexivity|].
          destruct Hx2 as (_ & ext & ->). rewrite nth_error_app1; [assumption|]. apply nth_error_Some. congruence.
        * now apply Hm2.
  Qed.

  Lemma iota_nth n : forall i h, (h < n)%nat -> nth_error (iota i n) h = Some (i + N.of_nat h).
  Proof.
    induction n as [|n IH]; intros i h Hh; [lia|]. cbn [iota]. destruct h as [|h]; cbn [nth_error].
    - f_equal. lia.
    - rewrite IH by lia. f_equal. lia.
  Qed.
  Lemma iota_length n : forall i, length (iota i n) = n.
  Proof. induction n; intros; cbn [iota length]; auto. Qed.

  (* one reader group (size, hosts), itself a proper table, into the writer groups *)
  Lemma merge_group_ok size hosts : group_ok gcap {| hg_size := size; hg_hosts := hosts |} ->
    forall gs gid gs' g hmap,
      Forall (group_ok gcap) gs -> merge_group gcap gs gid size hosts = (gs', (g, hmap)) ->
      Forall (group_ok gcap) gs' /\ groups_extend gs gs' /\ gid <= g /\ length hmap = length hosts /\
      (forall h x, nth_error hosts h = Some x -> exists i, nth_error hmap h = Some i /\ host_at gs' (g - gid) i = Some x) /\
      (forall g0, In g0 gs' -> In g0 gs \/ hg_size g0 = size \/ exists g1, In g1 gs /\ hg_size g0 = hg_size g1).
  Proof.
    intros Hrg. induction gs as [|g0 r IH]; intros gid gs' g hmap Hok H; cbn [merge_group] in H.
    - inversion H; subst; clear H. split; [|split; [|split; [|split; [|split]]]].
      + constructor; [assumption|constructor].
      + intros j x Hx. destruct j; discriminate.
      + lia.
      + apply iota_length.
      + intros h x Hx. exists (N.of_nat h). split.
        * rewrite iota_nth; [reflexivity|]. apply nth_error_Some. congruence.
        * unfold host_at. rewrite N.sub_diag. cbn [N.to_nat nth_error hg_hosts]. now rewrite Nat2N.id.
      + intros g0 [<-|[]]. right. left. reflexivity.
    - inversion Hok as [|? ? Hg0 Hr]; subst.
      destruct (add_all gcap g0 hosts) as [[g1 m]|] eqn:E.
      + inversion H; subst; clear H. destruct (add_all_ok _ _ _ _ Hg0 E) as (Hg1 & Hx1 & Hl & Hm).
        split; [|split; [|split; [|split; [|split]]]].
        * now constructor.
        * apply groups_extend_cons; [assumption|apply groups_extend_refl].
        * lia.
        * assumption.
        * intros h x Hx. destruct (Hm _ _ Hx) as (i & Hi & Hn). exists i. split; [assumption|].
          unfold host_at. rewrite N.sub_diag. exact Hn.
        * intros gx [<-|Hin]; [|left; now right]. right. right. exists g0. split; [now left|]. apply Hx1.
      + destruct (merge_group gcap r (N.succ gid) size hosts) as [r' [g' hmap']] eqn:E2. inversion H; subst; clear H.
        destruct (IH _ _ _ _ Hr E2) as (A & B & C & D & F & G).
        split; [|split; [|split; [|split; [|split]]]].
        * now constructor.
        * apply groups_extend_cons; [apply extends_refl|assumption].
        * lia.
        * assumption.
        * intros h x Hx. destruct (F _ _ Hx) as (i & Hi & Hh). exists i. split; [assumption|].
          unfold host_at in *. replace (N.to_nat (g - gid)) with (S (N.to_nat (g - N.succ gid))) by lia. exact Hh.
        * intros gx [<-|Hin]; [left; now left|]. destruct (G _ Hin) as [H1|[H1|(g1 & H1 & H2)]]; auto.
          -- left. now right.
          -- right. right. exists g1. split; [now right|assumption].
  Qed.

  Definition rgroup_ok (sg : N * list bytes) : Prop :=
    group_ok gcap {| hg_size := fst sg; hg_hosts := snd sg |} /\ (fst sg = 4 \/ fst sg = 16).

  (* all reader groups: a remap entry per reader group, valid in the final writer groups *)
  Lemma merge_groups_ok rgs : forall gs gs' gmap,
      Forall (group_ok gcap) gs -> Forall size_ok gs -> Forall rgroup_ok rgs ->
      merge_groups gcap gs rgs = (gs', gmap) ->
      Forall (group_ok gcap) gs' /\ Forall size_ok gs' /\ groups_extend gs gs' /\
      (forall j sg, nth_error rgs j = Some sg ->
         exists g hmap, nth_error gmap j = Some (g, hmap) /\
           forall h x, nth_error (snd sg) h = Some x -> exists i, nth_error hmap h = Some i /\ host_at gs' g i = Some x).
  Proof.
    induction rgs as [|[size hosts] r IH]; intros gs gs' gmap Hok Hsz Hrg H; cbn [merge_groups] in H.
    - inversion H; subst. split; [assumption|]. split; [assumption|]. split; [apply groups_extend_refl|]. intros [|j] sg Hj; discriminate.
    - inversion Hrg as [|? ? [Hg Hs] Hr]; subst. cbn [fst snd] in *.
      destruct (merge_group gcap gs 0 size hosts) as [gs1 [g hmap]] eqn:E1.
      destruct (merge_groups gcap gs1 r) as [gs2 ms] eqn:E2. inversion H; subst; clear H.
      destruct (merge_group_ok size hosts Hg _ _ _ _ _ Hok E1) as (A & B & _ & D & F & G).
      assert (Hsz1 : Forall size_ok gs1).
      { apply Forall_forall. intros g0 Hin. rewrite Forall_forall in Hsz. unfold size_ok.
        destruct (G _ Hin) as [H1|[H1|(g1 & H1 & H2)]].
        - now apply Hsz.
        - now rewrite H1.
        - rewrite H2. now apply Hsz. }
      destruct (IH _ _ _ A Hsz1 Hr E2) as (A2 & S2 & B2 & F2).
      split; [assumption|]. split; [assumption|]. split.
      + eapply groups_extend_trans; eauto.
      + intros [|j] sg Hj; cbn [nth_error] in *.
        * inversion Hj; subst. exists g, hmap. split; [reflexivity|]. cbn [snd]. intros h x Hx.
          destruct (F _ _ Hx) as (i & Hi & Hh). exists i. split; [assumption|].
          rewrite N.sub_0_r in Hh. eapply host_at_extend; eauto.
        * now apply F2.
  Qed.
End Cap.
