(* C04: facts about the matcher model (Regex.v): a successful search is a path of the program (link to the
   C18 facts), and for programs without empty-width assertions the search commutes with cutting the
   buffer in front of the match start and behind the last possible match end. *)
From Coq Require Import List NArith Bool Arith Lia.
Import ListNotations.
Require Import Pk.RegexProg Pk.RegexProgProofs Pk.Regex.

Definition slice (t : list N) (i e : nat) : list N := firstn (e - i) (skipn i t).
Definition shift (k : nat) (c : caps) : caps := map (option_map (fun x => k + x)) c.

Lemma slice_nil : forall t i, slice t i i = [].
Proof. intros. unfold slice. rewrite Nat.sub_diag. reflexivity. Qed.

Lemma skipn_nth : forall (t : list N) i b, nth_error t i = Some b -> skipn i t = b :: skipn (S i) t.
Proof.
  induction t; intros i b H; destruct i; simpl in *; try discriminate.
  - inversion H. reflexivity.
  - apply IHt. exact H.
Qed.

Lemma slice_cons : forall t i e b, nth_error t i = Some b -> i < e -> slice t i e = b :: slice t (S i) e.
Proof.
  intros t i e b H L. unfold slice. rewrite (skipn_nth _ _ _ H).
  replace (e - i) with (S (e - S i)) by lia. reflexivity.
Qed.

Lemma nth_error_lt : forall (t : list N) i b, nth_error t i = Some b -> i < length t.
Proof. intros. apply nth_error_Some. congruence. Qed.

(* ------------------------------------------------------------------ a successful search is an accepted path *)
Lemma bt_sound : forall p t f seen pc pos c c', pos <= length t -> bt p t f seen pc pos c = Some c' ->
  exists e, pos <= e /\ e <= length t /\ accA p [] pc (slice t pos e).
Proof.
  induction f; intros seen pc pos c c' Hp H; simpl in H; [discriminate|].
  destruct (get p pc) as [i|] eqn:Hg; [|discriminate].
  assert (Rune : is_rune (op i) = true ->
          match nth_error t pos with
          | Some b => if inst_matches i b then bt p t f [] (out i) (S pos) c else None
          | None => None end = Some c' ->
          exists e, pos <= e /\ e <= length t /\ accA p [] pc (slice t pos e)).
  { intros Hr H'. destruct (nth_error t pos) as [b|] eqn:Hn; [|discriminate].
    destruct (inst_matches i b) eqn:Hm; [|discriminate].
    pose proof (nth_error_lt _ _ _ Hn) as Hlt.
    destruct (IHf _ _ _ _ _ Hlt H') as [e [A [B C]]].
    exists e. repeat split; try lia. rewrite (slice_cons _ _ _ _ Hn) by lia. eapply A_rune; eauto. }
  destruct (op i) eqn:Ho; try discriminate; try (apply Rune; [reflexivity | exact H]).
  - destruct (mem pc seen); [discriminate|].
    destruct (bt p t f (pc :: seen) (out i) pos c) eqn:E.
    + destruct (IHf _ _ _ _ _ Hp E) as [e [A [B C]]]. exists e. repeat split; auto. eapply A_out; eauto. rewrite Ho. reflexivity.
    + destruct (IHf _ _ _ _ _ Hp H) as [e [A [B C]]]. exists e. repeat split; auto. eapply A_arg; eauto. rewrite Ho. reflexivity.
  - destruct (mem pc seen); [discriminate|].
    destruct (bt p t f (pc :: seen) (out i) pos c) eqn:E.
    + destruct (IHf _ _ _ _ _ Hp E) as [e [A [B C]]]. exists e. repeat split; auto. eapply A_out; eauto. rewrite Ho. reflexivity.
    + destruct (IHf _ _ _ _ _ Hp H) as [e [A [B C]]]. exists e. repeat split; auto. eapply A_arg; eauto. rewrite Ho. reflexivity.
  - destruct (IHf _ _ _ _ _ Hp H) as [e [A [B C]]]. exists e. repeat split; auto. eapply A_eps; eauto. rewrite Ho. reflexivity.
  - destruct (empty_ok (arg i) (before t pos) (nth_error t pos)); [|discriminate].
    destruct (IHf _ _ _ _ _ Hp H) as [e [A [B C]]]. exists e. repeat split; auto. eapply A_eps; eauto. rewrite Ho. reflexivity.
  - exists pos. repeat split; auto. rewrite slice_nil. eapply A_match; eauto.
  - destruct (IHf _ _ _ _ _ Hp H) as [e [A [B C]]]. exists e. repeat split; auto. eapply A_eps; eauto. rewrite Ho. reflexivity.
Qed.

Lemma match_at_sound : forall F p ncap t i c, i <= length t -> match_at F p ncap t i = Some c ->
  exists e, i <= e /\ e <= length t /\ accepts p (slice t i e).
Proof. intros F p ncap t i c Hi H. unfold match_at in H. eapply bt_sound; eauto. Qed.

Lemma search_from_sound : forall F p ncap t n i c, i + n <= S (length t) -> search_from F p ncap t n i = Some c ->
  exists j e, i <= j /\ j <= e /\ e <= length t /\ accepts p (slice t j e).
Proof.
  induction n; intros i c Hn H; simpl in H; [discriminate|].
  destruct (match_at F p ncap t i) eqn:E.
  - assert (Hi : i <= length t) by lia.
    destruct (match_at_sound _ _ _ _ _ _ Hi E) as [e [A [B C]]]. exists i, e. repeat split; auto.
  - assert (Hi : S i + n <= S (length t)) by lia.
    destruct (IHn (S i) c Hi H) as [j [e [A [B [C D]]]]]. exists j, e. repeat split; auto; lia.
Qed.

Lemma search_sound : forall F p ncap t c, search F p ncap t = Some c ->
  exists j e, j <= e /\ e <= length t /\ accepts p (slice t j e).
Proof.
  intros F p ncap t c H. unfold search in H.
  assert (Hi : 0 + S (length t) <= S (length t)) by lia.
  destruct (search_from_sound _ _ _ _ _ _ _ Hi H) as [j [e [_ [A [B C]]]]]. eauto.
Qed.

Lemma search_from_none : forall F p ncap t n i, (forall j, i <= j -> j < i + n -> match_at F p ncap t j = None) ->
  search_from F p ncap t n i = None.
Proof.
  induction n; intros i H; simpl; auto.
  rewrite (H i) by lia. apply IHn. intros j A B. apply H; lia.
Qed.

Lemma search_from_split : forall F p ncap t a n i,
  (forall j, i <= j -> j < i + a -> match_at F p ncap t j = None) ->
  search_from F p ncap t (a + n) i = search_from F p ncap t n (i + a).
Proof.
  induction a; intros n i H; simpl.
  - rewrite Nat.add_0_r. reflexivity.
  - rewrite (H i) by lia. rewrite IHa.
    + f_equal. lia.
    + intros j A B. apply H; lia.
Qed.

(* ------------------------------------------------------------------ programs without assertions *)
Lemma af_no_empty : forall p pc i, assertion_free p = true -> get p pc = Some i -> op i <> IEmpty.
Proof.
  intros p pc i H Hg. unfold assertion_free in H. rewrite forallb_forall in H.
  specialize (H _ (get_In _ _ _ Hg)). intros E. rewrite E in H. discriminate.
Qed.

Lemma shift_length : forall k c, length (shift k c) = length c.
Proof. intros. unfold shift. apply map_length. Qed.

Lemma shift_set_nth : forall k n x c, set_nth n (Some (k + x)) (shift k c) = shift k (set_nth n (Some x) c).
Proof.
  intros k n x c. unfold shift. revert n. induction c as [|a c IH]; intros n.
  - destruct n; reflexivity.
  - destruct n as [|m].
    + reflexivity.
    + cbn. rewrite IH. reflexivity.
Qed.

Lemma shift_repeat_none : forall k n, shift k (repeat None n) = repeat None n.
Proof. induction n; simpl; auto. unfold shift in *. simpl. rewrite IHn. reflexivity. Qed.

Lemma nth_error_app_shift : forall (pre t : list N) pos, nth_error (pre ++ t) (length pre + pos) = nth_error t pos.
Proof. intros. rewrite nth_error_app2 by lia. f_equal. lia. Qed.

Lemma bt_S : forall p t f seen pc pos c, bt p t (S f) seen pc pos c =
    match get p pc with
    | None => None
    | Some i =>
      match op i with
      | IMatch => Some (set_nth 1 (Some pos) c)
      | IFail | IBad => None
      | INop => bt p t f seen (out i) pos c
      | ICapture => bt p t f seen (out i) pos (if (arg i <? length c)%nat then set_nth (arg i) (Some pos) c else c)
      | IEmpty => if empty_ok (arg i) (before t pos) (nth_error t pos) then bt p t f seen (out i) pos c else None
      | IAlt | IAltMatch =>
          if mem pc seen then None
          else match bt p t f (pc :: seen) (out i) pos c with
               | Some r => Some r
               | None => bt p t f (pc :: seen) (arg i) pos c
               end
      | _ => match nth_error t pos with
             | Some b => if inst_matches i b then bt p t f [] (out i) (S pos) c else None
             | None => None
             end
      end
    end.
Proof. reflexivity. Qed.

(* the search does not see what lies in front of its start position *)
Lemma bt_translate : forall p pre t, assertion_free p = true ->
  forall f seen pc pos c,
  bt p (pre ++ t) f seen pc (length pre + pos) (shift (length pre) c) = option_map (shift (length pre)) (bt p t f seen pc pos c).
Proof.
  intros p pre t Haf. induction f; intros seen pc pos c; [reflexivity|]. rewrite !bt_S.
  destruct (get p pc) as [i|] eqn:Hg; auto.
  pose proof (af_no_empty _ _ _ Haf Hg) as Hne.
  assert (Rune : match nth_error (pre ++ t) (length pre + pos) with
                 | Some b => if inst_matches i b then bt p (pre ++ t) f [] (out i) (S (length pre + pos)) (shift (length pre) c) else None
                 | None => None end =
                 option_map (shift (length pre))
                 match nth_error t pos with
                 | Some b => if inst_matches i b then bt p t f [] (out i) (S pos) c else None
                 | None => None end).
  { rewrite nth_error_app_shift. destruct (nth_error t pos) as [b|]; auto.
    destruct (inst_matches i b); auto. rewrite <- IHf. f_equal. lia. }
  destruct (op i) eqn:Ho; auto; try congruence.
  - destruct (mem pc seen); auto. rewrite IHf.
    destruct (bt p t f (pc :: seen) (out i) pos c); simpl; auto.
  - destruct (mem pc seen); auto. rewrite IHf.
    destruct (bt p t f (pc :: seen) (out i) pos c); simpl; auto.
  - rewrite shift_length. destruct (arg i <? length c); auto. rewrite shift_set_nth. auto.
  - cbn [option_map]. rewrite shift_set_nth. reflexivity.
Qed.

Lemma match_at_translate : forall F p ncap pre t i, assertion_free p = true ->
  match_at F p ncap (pre ++ t) (length pre + i) = option_map (shift (length pre)) (match_at F p ncap t i).
Proof.
  intros. unfold match_at. rewrite <- bt_translate by assumption.
  rewrite <- shift_set_nth, shift_repeat_none. reflexivity.
Qed.

Lemma search_from_translate : forall F p ncap pre t n i, assertion_free p = true ->
  search_from F p ncap (pre ++ t) n (length pre + i) = option_map (shift (length pre)) (search_from F p ncap t n i).
Proof.
  intros F p ncap pre t n i Haf. revert i. induction n; intros i; simpl; auto.
  rewrite match_at_translate by assumption.
  destruct (match_at F p ncap t i); simpl; auto.
  replace (S (length pre + i)) with (length pre + S i) by lia. apply IHn.
Qed.

(* skipping a part of the buffer in which no match starts *)
Lemma search_skip : forall F p ncap pre t, assertion_free p = true ->
  (forall j, j < length pre -> match_at F p ncap (pre ++ t) j = None) ->
  search F p ncap (pre ++ t) = option_map (shift (length pre)) (search F p ncap t).
Proof.
  intros F p ncap pre t Haf H. unfold search. rewrite app_length.
  replace (S (length pre + length t)) with (length pre + S (length t)) by lia.
  rewrite search_from_split by (intros; apply H; lia).
  replace (0 + length pre) with (length pre + 0) by lia.
  apply search_from_translate. assumption.
Qed.

(* the search does not see what lies behind the last position at which a match can end *)
Lemma nth_error_firstn : forall (t : list N) cut pos, pos < cut -> nth_error (firstn cut t) pos = nth_error t pos.
Proof.
  induction t; intros cut pos H; destruct cut; simpl; try lia.
  - destruct pos; reflexivity.
  - destruct pos; simpl; auto. apply IHt. lia.
Qed.

Lemma nth_error_firstn_none : forall (t : list N) cut pos, cut <= pos -> nth_error (firstn cut t) pos = None.
Proof. intros. apply nth_error_None. rewrite firstn_length. lia. Qed.

Lemma bt_truncate : forall p t cut, assertion_free p = true -> cut <= length t ->
  forall f seen pc pos c, pos <= cut ->
  (forall e, pos <= e -> e <= length t -> accA p [] pc (slice t pos e) -> e <= cut) ->
  bt p (firstn cut t) f seen pc pos c = bt p t f seen pc pos c.
Proof.
  intros p t cut Haf Hc. induction f; intros seen pc pos c Hp Hall; simpl; auto.
  destruct (get p pc) as [i|] eqn:Hg; auto.
  pose proof (af_no_empty _ _ _ Haf Hg) as Hne.
  assert (Rune : is_rune (op i) = true ->
          match nth_error (firstn cut t) pos with
          | Some b => if inst_matches i b then bt p (firstn cut t) f [] (out i) (S pos) c else None
          | None => None end =
          match nth_error t pos with
          | Some b => if inst_matches i b then bt p t f [] (out i) (S pos) c else None
          | None => None end).
  { intros Hr. destruct (Nat.lt_ge_cases pos cut) as [L | L].
    - rewrite nth_error_firstn by assumption. destruct (nth_error t pos) as [b|] eqn:Hn; auto.
      destruct (inst_matches i b) eqn:Hm; auto. apply IHf; [lia|].
      intros e A B C. apply Hall; try lia. rewrite (slice_cons _ _ _ _ Hn) by lia. eapply A_rune; eauto.
    - rewrite nth_error_firstn_none by assumption. destruct (nth_error t pos) as [b|] eqn:Hn; auto.
      destruct (inst_matches i b) eqn:Hm; auto.
      destruct (bt p t f [] (out i) (S pos) c) eqn:E; auto.
      pose proof (nth_error_lt _ _ _ Hn) as Hlt.
      destruct (bt_sound _ _ _ _ _ _ _ _ Hlt E) as [e [A [B C]]].
      assert (e <= cut). { apply Hall; try lia. rewrite (slice_cons _ _ _ _ Hn) by lia. eapply A_rune; eauto. }
      lia. }
  destruct (op i) eqn:Ho; auto; try congruence; try (apply Rune; reflexivity).
  - destruct (mem pc seen); auto.
    rewrite IHf; auto.
    + destruct (bt p t f (pc :: seen) (out i) pos c); auto. apply IHf; auto.
      intros e A B C. apply Hall; auto. eapply A_arg; eauto. rewrite Ho. reflexivity.
    + intros e A B C. apply Hall; auto. eapply A_out; eauto. rewrite Ho. reflexivity.
  - destruct (mem pc seen); auto.
    rewrite IHf; auto.
    + destruct (bt p t f (pc :: seen) (out i) pos c); auto. apply IHf; auto.
      intros e A B C. apply Hall; auto. eapply A_arg; eauto. rewrite Ho. reflexivity.
    + intros e A B C. apply Hall; auto. eapply A_out; eauto. rewrite Ho. reflexivity.
  - apply IHf; auto. intros e A B C. apply Hall; auto. eapply A_eps; eauto. rewrite Ho. reflexivity.
  - apply IHf; auto. intros e A B C. apply Hall; auto. eapply A_eps; eauto. rewrite Ho. reflexivity.
Qed.

Lemma search_truncate : forall F p ncap t cut, assertion_free p = true -> cut <= length t ->
  (forall i e, i <= e -> e <= length t -> accepts p (slice t i e) -> e <= cut) ->
  search F p ncap (firstn cut t) = search F p ncap t.
Proof.
  intros F p ncap t cut Haf Hc Hall. unfold search.
  rewrite firstn_length, Nat.min_l by assumption.
  replace (S (length t)) with (S cut + (length t - cut)) by lia.
  assert (Tail : search_from F p ncap t (length t - cut) (0 + S cut) = None).
  { apply search_from_none. intros j A B.
    destruct (match_at F p ncap t j) eqn:E; auto.
    assert (Hj : j <= length t) by lia.
    destruct (match_at_sound _ _ _ _ _ _ Hj E) as [e [X [Y Z]]].
    specialize (Hall _ _ X Y Z). lia. }
  assert (Head : forall n i, i + n <= S cut ->
            search_from F p ncap (firstn cut t) n i = search_from F p ncap t n i).
  { induction n; intros i Hi; simpl; auto.
    assert (M : match_at F p ncap (firstn cut t) i = match_at F p ncap t i).
    { unfold match_at. apply bt_truncate; auto; try lia. intros e A B C. eapply Hall; eauto. }
    rewrite M. destruct (match_at F p ncap t i); auto. apply IHn. lia. }
  rewrite Head by lia.
  (* search_from t (S cut + rest) 0: either found within the first S cut starts, or not at all *)
  assert (Cat : forall a n i, search_from F p ncap t (a + n) i =
                match search_from F p ncap t a i with Some r => Some r | None => search_from F p ncap t n (i + a) end).
  { induction a; intros n i; simpl.
    - rewrite Nat.add_0_r. reflexivity.
    - destruct (match_at F p ncap t i); auto. rewrite IHa. replace (S i + a) with (i + S a) by lia. reflexivity. }
  rewrite Cat, Tail. destruct (search_from F p ncap t (S cut) 0); reflexivity.
Qed.

(* ------------------------------------------------------------------ Prog.Prefix *)
Definition starts_with (P w : list N) : Prop := exists rest, w = P ++ rest.

Lemma accA_eps_inv : forall p S pc j w, get p pc = Some j -> is_eps (op j) = true -> accA p S pc w -> accA p S (out j) w.
Proof.
  intros p S pc j w Hg He H.
  inversion H as [pc0 j0 G0 O | pc0 j0 b w' G0 R M A0 | pc0 j0 w' G0 E A0 | pc0 j0 w' G0 L NI A0 | pc0 j0 w' G0 L NI A0]; subst;
    rewrite Hg in G0; inversion G0; subst j0; auto; destruct (op j); simpl in *; discriminate.
Qed.

Lemma accA_rune_inv : forall p S pc j w, get p pc = Some j -> is_rune (op j) = true -> accA p S pc w ->
  exists b w', w = b :: w' /\ inst_matches j b = true /\ accA p S (out j) w'.
Proof.
  intros p S pc j w Hg He H.
  inversion H as [pc0 j0 G0 O | pc0 j0 b w' G0 R M A0 | pc0 j0 w' G0 E A0 | pc0 j0 w' G0 L NI A0 | pc0 j0 w' G0 L NI A0]; subst;
    rewrite Hg in G0; inversion G0; subst j0; eauto; destruct (op j); simpl in *; discriminate.
Qed.

Lemma accA_match_inv : forall p S pc j w, get p pc = Some j -> op j = IMatch -> accA p S pc w -> w = [].
Proof.
  intros p S pc j w Hg He H.
  inversion H as [pc0 j0 G0 O | pc0 j0 b w' G0 R M A0 | pc0 j0 w' G0 E A0 | pc0 j0 w' G0 L NI A0 | pc0 j0 w' G0 L NI A0]; subst;
    rewrite Hg in G0; inversion G0; subst j0; auto; rewrite He in *; simpl in *; discriminate.
Qed.

Lemma skip_nop_acc : forall p f pc i, skip_nop p f pc = Some i ->
  exists pc', get p pc' = Some i /\ forall S w, accA p S pc w -> accA p S pc' w.
Proof.
  induction f; intros pc i H; simpl in H; [discriminate|].
  destruct (get p pc) as [j|] eqn:Hg; [|discriminate].
  assert (Stop : Some j = Some i -> exists pc', get p pc' = Some i /\ forall S w, accA p S pc w -> accA p S pc' w).
  { intros E. inversion E; subst. exists pc. split; auto. }
  assert (Go : is_eps (op j) = true -> skip_nop p f (out j) = Some i ->
               exists pc', get p pc' = Some i /\ forall S w, accA p S pc w -> accA p S pc' w).
  { intros He H'. destruct (IHf _ _ H') as [pc' [G A]]. exists pc'. split; auto.
    intros S w Hw. apply A. eapply accA_eps_inv; eauto. }
  destruct (op j) eqn:Ho; try (apply Stop; exact H); apply Go; auto.
Qed.

Lemma prefix_loop_S : forall p f i, prefix_loop p (S f) i =
    if is_rune (op i) then
      match runes i with
      | [r0] => if (N.leb r0 255) && negb (fold_flag i)
                then match skip_nop p (lin_fuel p) (out i) with
                     | Some j => let (l, c) := prefix_loop p f j in (r0 :: l, c)
                     | None => ([r0], false)
                     end
                else ([], false)
      | _ => ([], false)
      end
    else ([], match op i with IMatch => true | _ => false end).
Proof. reflexivity. Qed.

Lemma prefix_loop_sound : forall p, forallb (inst_ok p) (insts p) = true ->
  forall f i pc P compl, get p pc = Some i -> prefix_loop p f i = (P, compl) ->
  forall w, accA p [] pc w -> starts_with P w /\ (compl = true -> w = P).
Proof.
  intros p Hok. induction f; intros i pc P compl Hg H w Hw.
  - simpl in H. inversion H; subst. split; [exists w; reflexivity | discriminate].
  - rewrite prefix_loop_S in H. destruct (is_rune (op i)) eqn:Hr.
    + assert (Dflt : (P, compl) = ([], false) -> starts_with P w /\ (compl = true -> w = P)).
      { intros E. inversion E; subst. split; [exists w; reflexivity | discriminate]. }
      destruct (runes i) as [|r0 [|r1 rest]] eqn:R; try (apply Dflt; congruence).
      destruct ((N.leb r0 255) && negb (fold_flag i)) eqn:C; [|apply Dflt; congruence].
      assert (Lit : literal_byte i = Some r0) by (unfold literal_byte; rewrite R, C; reflexivity).
      destruct (accA_rune_inv _ _ _ _ _ Hg Hr Hw) as [b [w' [Ew [M A0]]]]. subst w.
      assert (b = r0) by (eapply literal_matches; eauto; eapply forallb_In; eauto; eapply get_In; eauto). subst b.
      destruct (skip_nop p (lin_fuel p) (out i)) as [j|] eqn:Sk.
      * destruct (prefix_loop p f j) as [l c0] eqn:PL. inversion H; subst.
        destruct (skip_nop_acc _ _ _ _ Sk) as [pc' [G' A']].
        destruct (IHf _ _ _ _ G' PL _ (A' _ _ A0)) as [[rest E] Cm].
        split; [exists rest; rewrite E; reflexivity | intros Ec; f_equal; auto].
      * inversion H; subst. split; [exists w'; reflexivity | discriminate].
    + inversion H; subst. split; [exists w; reflexivity|].
      intros Em. destruct (op i) eqn:Ho; try discriminate.
      eapply accA_match_inv; eauto.
Qed.

Lemma prog_prefix_sound : forall p P compl w, wf p = true -> prog_prefix p = (P, compl) -> accepts p w ->
  starts_with P w /\ (compl = true -> w = P).
Proof.
  intros p P compl w Hwf H Hw. destruct (wf_parts _ Hwf) as [Hok _]. unfold prog_prefix in H.
  destruct (skip_nop p (lin_fuel p) (start p)) as [i|] eqn:Sk.
  - destruct (skip_nop_acc _ _ _ _ Sk) as [pc' [G A]]. eapply (prefix_loop_sound p Hok _ _ _ _ _ G H). apply A. exact Hw.
  - inversion H; subst. split; [exists w; reflexivity | discriminate].
Qed.

(* ------------------------------------------------------------------ the reported end of the match *)
Lemma set_nth_length : forall A n (x : A) l, length (set_nth n x l) = length l.
Proof. intros A n x l. revert n. induction l; intros n; destruct n; simpl; auto. Qed.

Lemma nth_error_set_nth : forall A n (x : A) l, n < length l -> nth_error (set_nth n x l) n = Some x.
Proof.
  intros A n x l. revert n. induction l; intros n H; simpl in H; [lia|].
  destruct n; simpl; auto. apply IHl. lia.
Qed.

Lemma bt_end : forall p t f seen pc pos c c', pos <= length t -> bt p t f seen pc pos c = Some c' ->
  length c' = length c /\
  exists e, pos <= e /\ e <= length t /\ accA p [] pc (slice t pos e) /\ (1 < length c -> nth_error c' 1 = Some (Some e)).
Proof.
  induction f; intros seen pc pos c c' Hp H; [discriminate|]. rewrite bt_S in H.
  destruct (get p pc) as [i|] eqn:Hg; [|discriminate].
  assert (Rune : is_rune (op i) = true ->
          match nth_error t pos with
          | Some b => if inst_matches i b then bt p t f [] (out i) (S pos) c else None
          | None => None end = Some c' ->
          length c' = length c /\
          exists e, pos <= e /\ e <= length t /\ accA p [] pc (slice t pos e) /\ (1 < length c -> nth_error c' 1 = Some (Some e))).
  { intros Hr H'. destruct (nth_error t pos) as [b|] eqn:Hn; [|discriminate].
    destruct (inst_matches i b) eqn:Hm; [|discriminate].
    pose proof (nth_error_lt _ _ _ Hn) as Hlt.
    destruct (IHf _ _ _ _ _ Hlt H') as [L [e [A [B [C D]]]]].
    split; auto. exists e. repeat split; try lia; auto. rewrite (slice_cons _ _ _ _ Hn) by lia. eapply A_rune; eauto. }
  destruct (op i) eqn:Ho; try discriminate; try (apply Rune; [reflexivity | exact H]).
  - destruct (mem pc seen); [discriminate|].
    destruct (bt p t f (pc :: seen) (out i) pos c) eqn:E.
    + inversion H; subst. destruct (IHf _ _ _ _ _ Hp E) as [L [e [A [B [C D]]]]]. split; auto. exists e. repeat split; auto.
      eapply A_out; eauto. rewrite Ho. reflexivity.
    + destruct (IHf _ _ _ _ _ Hp H) as [L [e [A [B [C D]]]]]. split; auto. exists e. repeat split; auto.
      eapply A_arg; eauto. rewrite Ho. reflexivity.
  - destruct (mem pc seen); [discriminate|].
    destruct (bt p t f (pc :: seen) (out i) pos c) eqn:E.
    + inversion H; subst. destruct (IHf _ _ _ _ _ Hp E) as [L [e [A [B [C D]]]]]. split; auto. exists e. repeat split; auto.
      eapply A_out; eauto. rewrite Ho. reflexivity.
    + destruct (IHf _ _ _ _ _ Hp H) as [L [e [A [B [C D]]]]]. split; auto. exists e. repeat split; auto.
      eapply A_arg; eauto. rewrite Ho. reflexivity.
  - destruct (IHf _ _ _ _ _ Hp H) as [L [e [A [B [C D]]]]].
    assert (L2 : length (if arg i <? length c then set_nth (arg i) (Some pos) c else c) = length c)
      by (destruct (arg i <? length c); auto; apply set_nth_length).
    split; [rewrite L; exact L2|]. exists e. repeat split; auto.
    + eapply A_eps; eauto. rewrite Ho. reflexivity.
    + intros K. apply D. destruct (arg i <? length c); auto. rewrite set_nth_length. exact K.
  - destruct (empty_ok (arg i) (before t pos) (nth_error t pos)); [|discriminate].
    destruct (IHf _ _ _ _ _ Hp H) as [L [e [A [B [C D]]]]]. split; auto. exists e. repeat split; auto.
    eapply A_eps; eauto. rewrite Ho. reflexivity.
  - assert (Ec : c' = set_nth 1 (Some pos) c) by congruence. subst c'. clear H.
    split; [apply set_nth_length|]. exists pos. repeat split; auto.
    + rewrite slice_nil. eapply A_match; eauto.
    + intros K. apply nth_error_set_nth. exact K.
  - destruct (IHf _ _ _ _ _ Hp H) as [L [e [A [B [C D]]]]]. split; auto. exists e. repeat split; auto.
    eapply A_eps; eauto. rewrite Ho. reflexivity.
Qed.

Lemma repeat_length' : forall A (x : A) n, length (repeat x n) = n.
Proof. intros. apply repeat_length. Qed.

Lemma match_at_end : forall F p ncap t i c, 2 <= ncap -> i <= length t -> match_at F p ncap t i = Some c ->
  exists e, i <= e /\ e <= length t /\ accepts p (slice t i e) /\ nth_error c 1 = Some (Some e).
Proof.
  intros F p ncap t i c Hn Hi H. unfold match_at in H.
  destruct (bt_end _ _ _ _ _ _ _ _ Hi H) as [L [e [A [B [C D]]]]].
  exists e. repeat split; auto. apply D. rewrite set_nth_length, repeat_length. lia.
Qed.

Lemma search_end : forall F p ncap t c, 2 <= ncap -> search F p ncap t = Some c ->
  exists j e, j <= e /\ e <= length t /\ accepts p (slice t j e) /\ nth_error c 1 = Some (Some e).
Proof.
  intros F p ncap t c Hn H. unfold search in H.
  assert (G : forall n i, i + n <= S (length t) -> search_from F p ncap t n i = Some c ->
              exists j e, j <= e /\ e <= length t /\ accepts p (slice t j e) /\ nth_error c 1 = Some (Some e)).
  { induction n; intros i Hi Hs; simpl in Hs; [discriminate|].
    destruct (match_at F p ncap t i) eqn:E.
    - inversion Hs; subst. assert (Hil : i <= length t) by lia.
      destruct (match_at_end _ _ _ _ _ _ Hn Hil E) as [e [A [B [C D]]]]. exists i, e. auto.
    - apply (IHn (S i)); auto. lia. }
  apply (G (S (length t)) 0); auto.
Qed.

Lemma nth_error_shift : forall k c n, nth_error (shift k c) n = option_map (option_map (fun x => k + x)) (nth_error c n).
Proof. intros. unfold shift. apply nth_error_map. Qed.
