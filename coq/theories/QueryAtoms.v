(* QueryAtoms.v -- queryTerm.QueryConditions: the conditions of a filter mean what the filter says. *)
From Coq Require Import List NArith ZArith Bool Lia Permutation.
From Pk Require Import Query QuerySort QueryClean QueryFlags QueryHosts QueryOps QuerySet.
Import ListNotations.
Open Scope Z_scope.

Definition hitem_wf (it : hitem) : Prop :=
  match it with
  | HIp ip m4 m6 => (length ip = 4%nat \/ length ip = 16%nat) /\ length m4 = 4%nat /\ length m6 = 16%nat
  | HVar _ _ m4 m6 => length m4 = 4%nat /\ length m6 = 16%nat
  end.
Definition atom_wf (a : atom) : Prop :=
  match a with
  | ATag _ names => names <> []
  | AProto _ items => items <> [] /\ Forall (fun it => match it with PTok x => (x <= 3)%N | PVar _ => True end) items
  | AHost cli srv _ items => items <> [] /\ (cli = true \/ srv = true) /\ Forall hitem_wf items
  | ANum tys _ ranges => tys <> [] /\ ranges <> []
  | ATime _ _ ranges => ranges <> []
  | AData _ els => els <> []
  end.

(* truth of a filter at payload position p *)
Definition atom_holds (v : valuation) (a : atom) (p : N) : bool :=
  match a with
  | AData _ els => existsb (fun el => is_some (v_nxt v el p)) els
  | _ => atom_truth v a
  end.

Lemma eval_set_map_single {A} v (k : A -> cond) (l : list A) :
  eval_set v (map (fun x => [k x]) l) = existsb (fun x => eval_cond v (k x)) l.
Proof.
  unfold eval_set. rewrite existsb_map'. apply existsb_ext_in. intros x _. unfold eval_conj. cbn. apply andb_true_r.
Qed.

Lemma map_nonnil {A B} (f : A -> B) l : l <> [] -> map f l <> [].
Proof. destruct l; [congruence|discriminate]. Qed.

(* ---- tags *)
Lemma eval_tag5 v (ok : val_ok v) sub n :
  eval_tag v (mkTag sub n 5) = (let st := s_tag (v_str v sub) n in N.eqb st 1 || N.eqb st 4).
Proof.
  unfold eval_tag. cbn. destruct (ok sub) as (_ & _ & _ & Ht). destruct (Ht n) as [E|[E|[E|E]]]; rewrite E; reflexivity.
Qed.

(* ---- protocol *)
Lemma land3_idem x : N.land (N.land x 3) 3 = N.land x 3.
Proof. rewrite <- N.land_assoc. reflexivity. Qed.
Lemma le3_land x : (x <= 3)%N -> N.land x 3 = x.
Proof. intros H. assert (x = 0 \/ x = 1 \/ x = 2 \/ x = 3)%N as [ -> | [ -> | [ -> | -> ] ] ] by lia; reflexivity. Qed.

Lemma proto_tok_sound v sub x : (x <= 3)%N ->
  eval_conj v (flag_invert (mkFlag [sub] x 3)) = N.eqb (N.land (s_flags (v_str v sub)) 3) x /\ flag_wf (mkFlag [sub] x 3).
Proof.
  intros Hx. assert (Hw : flag_wf (mkFlag [sub] x 3)) by (split; cbn; [lia|apply le3_land; auto]).
  split; [|exact Hw]. rewrite flag_invert_sound, eval_flag_forb, negb_involutive by auto.
  unfold forb_of, fx, flags_xor. cbn. rewrite land3_idem. reflexivity.
Qed.
Lemma proto_var_sound v sub s :
  eval_conj v (flag_invert (mkFlag [sub; s] 0 3)) =
  N.eqb (N.land (s_flags (v_str v sub)) 3) (N.land (s_flags (v_str v s)) 3) /\ flag_wf (mkFlag [sub; s] 0 3).
Proof.
  assert (Hw : flag_wf (mkFlag [sub; s] 0 3)) by (split; cbn; [lia|reflexivity]).
  split; [|exact Hw]. rewrite flag_invert_sound, eval_flag_forb, negb_involutive by auto.
  unfold forb_of, fx, flags_xor. cbn. rewrite land3_idem, land_lxor_distr.
  set (a := N.land (s_flags (v_str v sub)) 3). set (b := N.land (s_flags (v_str v s)) 3).
  destruct (N.eqb_spec (N.lxor a b) 0) as [E|E], (N.eqb_spec a b) as [E'|E']; try reflexivity.
  - exfalso. apply E'. apply N.lxor_eq. exact E.
  - exfalso. apply E. apply N.lxor_eq_0_iff. exact E'.
Qed.

(* ---- hosts *)
Lemma hev_ip ip o m4 m6 : ip <> [] -> hev ip [o] m4 m6 false = byte_masked_eq o ip m4 m6.
Proof.
  intros Hne. unfold hev, byte_masked_eq. destruct ip as [|i0 ip']; [congruence|]. set (ip := i0 :: ip') in *.
  cbn [hfold]. rewrite (Nat.eqb_sym (length o)).
  destruct (Nat.eqb_spec (length ip) (length o)) as [E|E]; [|reflexivity].
  rewrite xor_bytes_length by auto. rewrite E, (xor_bytes_comm ip o). cbn [andb].
  destruct (masked_zero _ _); reflexivity.
Qed.
Lemma hev_var o1 o2 m4 m6 : hev [] [o1; o2] m4 m6 false = byte_masked_eq o1 o2 m4 m6.
Proof.
  unfold hev, byte_masked_eq. cbn [hfold].
  destruct (Nat.eqb_spec (length o1) (length o2)) as [E|E]; [|reflexivity].
  rewrite xor_bytes_length by auto. cbn [andb]. destruct (masked_zero _ _); reflexivity.
Qed.

Lemma host_item_sound v sub srv it : hitem_wf it ->
  eval_conj v (host_item_conj sub srv it) =
  (let mine := src_host v (mkSrc sub srv) in
   match it with
   | HIp ip m4 m6 => byte_masked_eq mine ip m4 m6
   | HVar vs vsrv m4 m6 => byte_masked_eq mine (src_host v (mkSrc vs vsrv)) m4 m6
   end) /\ conj_wf (host_item_conj sub srv it).
Proof.
  intros Hw. destruct it as [ip m4 m6|vs vsrv m4 m6]; cbn [host_item_conj].
  - destruct Hw as (Hl & H4 & H6). split.
    + unfold eval_conj. cbn [forallb eval_cond]. rewrite andb_true_r, eval_host_hev. cbn [h_host h_srcs h_m4 h_m6 h_inv map].
      apply hev_ip. destruct ip; [destruct Hl; discriminate|discriminate].
    + constructor; [|constructor]. cbn.
      split; [exact H4|split; [exact H6|split; [right; exact Hl|right; cbn; lia]]].
  - destruct Hw as (H4 & H6). split.
    + unfold eval_conj. cbn [forallb eval_cond]. rewrite andb_true_r, eval_host_hev. cbn [h_host h_srcs h_m4 h_m6 h_inv map].
      apply hev_var.
    + constructor; [|constructor]. cbn.
      split; [exact H4|split; [exact H6|split; [left; reflexivity|left; split; [reflexivity|cbn; lia]]]].
Qed.

(* ---- numbers *)
Lemma ns_add_val v sub ty f l : sums_val v (ns_add sub ty f l) = sums_val v l + f * s_num (v_str v sub) ty.
Proof.
  induction l as [|s l IH]; cbn [ns_add].
  - cbn. unfold nsum_val. cbn. lia.
  - destruct (N.eqb_spec (ns_sub s) sub) as [E1|E1]; cbn [andb].
    + destruct (N.eqb_spec (ns_ty s) ty) as [E2|E2].
      * rewrite !sums_cons. unfold nsum_val. cbn. subst. lia.
      * rewrite !sums_cons, IH. lia.
    + rewrite !sums_cons, IH. lia.
Qed.
Lemma filter_nz_val v l : sums_val v (filter (fun s => negb (Z.eqb (ns_fac s) 0)) l) = sums_val v l.
Proof.
  induction l as [|s l IH]; [reflexivity|]. cbn [filter]. destruct (Z.eqb_spec (ns_fac s) 0) as [E|E]; cbn [negb].
  - rewrite sums_cons, IH, (nsum_val_zero v s E). lia.
  - rewrite !sums_cons, IH. reflexivity.
Qed.
Lemma nbound_val v ps : forall acc, num_value v (nbound ps acc) = num_value v acc + zsum (map (npart_val v) ps).
Proof.
  unfold zsum. induction ps as [|p ps IH]; intros acc; cbn [nbound map fold_right]; [lia|].
  destruct p as [neg n|neg sub ty]; rewrite IH, !num_value_eq; cbn [n_sums n_num npart_val].
  - destruct neg; cbn [sgn]; lia.
  - rewrite ns_add_val. destruct neg; cbn [sgn]; lia.
Qed.
Lemma nown_val v sub ty c : num_value v (nown sub ty c) = num_value v c - s_num (v_str v sub) ty.
Proof. unfold nown. rewrite !num_value_eq. cbn [n_sums n_num]. rewrite filter_nz_val, ns_add_val. lia. Qed.
Lemma nneg_val v c : num_value v (nneg c) = - num_value v c.
Proof. unfold nneg. rewrite !num_value_eq. cbn [n_sums n_num]. rewrite sums_val_neg. lia. Qed.

Lemma is_nil_map {A B} (f : A -> B) l : is_nil (map f l) = is_nil l.
Proof. destruct l; reflexivity. Qed.

Lemma num_range_sound v sub ty r :
  eval_conj v (num_range_conj sub ty r) = in_range (npart_val v) r (s_num (v_str v sub) ty) (s_num (v_str v sub) ty).
Proof.
  unfold num_range_conj, in_range. set (X := s_num (v_str v sub) ty).
  assert (Hlo : forall lo, eval_cond v (CNum (nneg (nown sub ty (nbound lo (mkNum [] 0))))) = (zsum (map (npart_val v) lo) <=? X)).
  { intros lo. cbn [eval_cond]. unfold eval_num. rewrite nneg_val, nown_val, nbound_val. unfold num_value at 1. cbn. fold X.
    destruct (Z.leb_spec 0 (- (0 + zsum (map (npart_val v) lo) - X))), (Z.leb_spec (zsum (map (npart_val v) lo)) X); try reflexivity; lia. }
  assert (Hhi : forall hi, eval_cond v (CNum (nown sub ty (nbound hi (mkNum [] 0)))) = (X <=? zsum (map (npart_val v) hi))).
  { intros hi. cbn [eval_cond]. unfold eval_num. rewrite nown_val, nbound_val. unfold num_value at 1. cbn. fold X.
    destruct (Z.leb_spec 0 (0 + zsum (map (npart_val v) hi) - X)), (Z.leb_spec X (zsum (map (npart_val v) hi))); try reflexivity; lia. }
  destruct r as [b|lo hi]; rewrite eval_conj_app; unfold eval_conj.
  - destruct b as [|p b']; [reflexivity|]. cbn [is_nil orb forallb]. rewrite Hlo, Hhi, !andb_true_r. reflexivity.
  - destruct lo as [|p lo'], hi as [|q hi']; cbn [is_nil orb forallb andb]; rewrite ?Hlo, ?Hhi, ?andb_true_r; reflexivity.
Qed.

Lemma existsb_swap {A B} (f : A -> B -> bool) la lb :
  existsb (fun a => existsb (fun b => f a b) lb) la = existsb (fun b => existsb (fun a => f a b) la) lb.
Proof.
  induction la as [|a la IH]; cbn [existsb].
  - induction lb; cbn; auto.
  - rewrite IH. clear IH. induction lb as [|b lb IHb]; cbn [existsb]; [reflexivity|].
    rewrite <- IHb. destruct (f a b), (existsb (fun b0 => f a b0) lb), (existsb (fun a0 => f a0 b) la); reflexivity.
Qed.

(* ---- times *)
Lemma ts_add_val v sub f l m :
  tsums_val v (ts_add sub f l m) = tsums_val v m + f * s_ftime (v_str v sub) + l * s_ltime (v_str v sub).
Proof.
  induction m as [|s m IH]; cbn [ts_add].
  - cbn. unfold tsum_val. cbn. lia.
  - destruct (N.eqb_spec (ts_sub s) sub) as [E1|E1].
    + rewrite !tsums_cons. unfold tsum_val. cbn. subst. lia.
    + rewrite !tsums_cons, IH. lia.
Qed.
Lemma filter_tz_val v l : tsums_val v (filter (fun s => negb (tsum_zero s)) l) = tsums_val v l.
Proof.
  induction l as [|s l IH]; [reflexivity|]. cbn [filter]. destruct (tsum_zero s) eqn:E; cbn [negb].
  - rewrite tsums_cons, IH, (tsum_zero_val v s E). lia.
  - rewrite !tsums_cons, IH. reflexivity.
Qed.
Lemma tbound_val v ps : forall acc, time_value v (tbound ps acc) = time_value v acc + zsum (map (tpart_val v) ps).
Proof.
  unfold zsum. induction ps as [|p ps IH]; intros acc; cbn [tbound map fold_right]; [lia|].
  destruct p as [neg d|neg d|neg sub lt]; rewrite IH, !time_value_eq; cbn [tm_sums tm_dur tpart_val];
    try (destruct neg; cbn [sgn]; lia).
  destruct lt; rewrite ts_add_val; destruct neg; cbn [sgn]; lia.
Qed.
Lemma town_val v sub df dl c :
  time_value v (town sub df dl c) = time_value v c + df * s_ftime (v_str v sub) + dl * s_ltime (v_str v sub).
Proof. unfold town. rewrite !time_value_eq. cbn [tm_sums tm_dur]. rewrite filter_tz_val, ts_add_val. lia. Qed.
Lemma tneg_val v c : time_value v (tneg c) = - time_value v c.
Proof. unfold tneg. rewrite !time_value_eq. cbn [tm_sums tm_dur]. rewrite tsums_val_neg. lia. Qed.
Lemma time_value_noref v sums dur r r' : time_value v (mkTime sums dur r) = time_value v (mkTime sums dur r').
Proof. reflexivity. Qed.

Lemma time_range_sound v key sub r :
  eval_conj v (time_range_conj key sub r) =
  (let f := s_ftime (v_str v sub) in let l := s_ltime (v_str v sub) in
   if N.eqb key 0 then in_range (tpart_val v) r f f
   else if N.eqb key 1 then in_range (tpart_val v) r l l
   else in_range (tpart_val v) r l f).
Proof.
  cbv zeta. set (F := s_ftime (v_str v sub)). set (L := s_ltime (v_str v sub)).
  assert (Hlo : forall lo df dl, eval_cond v (CTime (tneg (town sub df dl (tbound lo (mkTime [] 0 0))))) =
                                 (zsum (map (tpart_val v) lo) <=? - df * F - dl * L)).
  { intros lo df dl. cbn [eval_cond]. unfold eval_time. rewrite tneg_val, town_val, tbound_val. unfold time_value at 1. cbn. fold F L.
    destruct (Z.leb_spec 0 (- (0 + zsum (map (tpart_val v) lo) + df * F + dl * L))),
             (Z.leb_spec (zsum (map (tpart_val v) lo)) (- df * F - dl * L)); try reflexivity; lia. }
  assert (Hhi : forall c hi df dl, time_value v c = zsum (map (tpart_val v) hi) ->
                                   eval_cond v (CTime (town sub df dl c)) = (- df * F - dl * L <=? zsum (map (tpart_val v) hi))).
  { intros c hi df dl Hc. cbn [eval_cond]. unfold eval_time. rewrite town_val, Hc. fold F L.
    destruct (Z.leb_spec 0 (zsum (map (tpart_val v) hi) + df * F + dl * L)),
             (Z.leb_spec (- df * F - dl * L) (zsum (map (tpart_val v) hi))); try reflexivity; lia. }
  assert (Hb : forall b, time_value v (tbound b (mkTime [] 0 0)) = zsum (map (tpart_val v) b)).
  { intros b. rewrite tbound_val. unfold time_value. cbn. lia. }
  unfold time_range_conj, in_range.
  destruct r as [b|lo hi].
  - set (hic := let t := tbound b (mkTime [] 0 0) in mkTime (tm_sums t) (tm_dur t) 0).
    assert (Hhic : time_value v hic = zsum (map (tpart_val v) b)) by (rewrite <- Hb; reflexivity).
    destruct (N.eqb key 0); [|destruct (N.eqb key 1)]; cbv iota beta;
      rewrite eval_conj_app; unfold eval_conj;
      (destruct b as [|p b']; [reflexivity|]); cbn [is_nil orb forallb];
      rewrite Hlo, (Hhi hic _ _ _ Hhic), !andb_true_r; f_equal; f_equal; lia.
  - destruct (N.eqb key 0); [|destruct (N.eqb key 1)]; cbv iota beta;
      rewrite eval_conj_app; unfold eval_conj;
      destruct lo as [|p lo'], hi as [|q hi']; cbn [is_nil orb forallb andb];
      rewrite ?Hlo, ?(Hhi _ _ _ _ (Hb _)), ?andb_true_r; try reflexivity; f_equal; try f_equal; lia.
Qed.

(* ------------------------------------------------------------------ the theorem for filters *)
Theorem conds_of_atom_sound v (ok : val_ok v) a :
  atom_wf a ->
  eval_set v (conds_of_atom a) = atom_holds v a (v_start v) /\ cset_wf (conds_of_atom a) /\ conds_of_atom a <> [].
Proof.
  intros Hw. destruct a as [sub names|sub items|cli srv sub items|tys sub ranges|key sub ranges|sub els];
    cbn [conds_of_atom atom_holds atom_truth] in *.
  - (* tag *)
    split; [|split].
    + rewrite (eval_set_map_single v (fun n => CTag (mkTag sub n 5))). apply existsb_ext_in. intros n _.
      cbn [eval_cond]. apply eval_tag5; auto.
    + apply Forall_map. apply Forall_forall. intros n _. repeat constructor.
    + apply map_nonnil; auto.
  - (* protocol *)
    destruct Hw as [Hne Hit]. split; [|split].
    + unfold eval_set. rewrite existsb_map'. apply existsb_ext_in. intros it Hin.
      rewrite Forall_forall in Hit. specialize (Hit it Hin). destruct it as [x|s].
      * apply proto_tok_sound; auto.
      * destruct (N.eqb_spec s sub) as [->|Hs]; [cbn; symmetry; apply N.eqb_refl|]. apply proto_var_sound.
    + apply Forall_map. apply Forall_forall. intros it Hin.
      rewrite Forall_forall in Hit. specialize (Hit it Hin). destruct it as [x|s].
      * destruct (proto_tok_sound v sub x Hit) as [_ W].
        destruct (cond_invert_sound v ok (CFlag (mkFlag [sub] x 3)) W) as (_ & Wc & _). inversion Wc; auto.
      * destruct (N.eqb_spec s sub) as [->|Hs]; [constructor|].
        destruct (proto_var_sound v sub s) as [_ W].
        destruct (cond_invert_sound v ok (CFlag (mkFlag [sub; s] 0 3)) W) as (_ & Wc & _). inversion Wc; auto.
    + apply map_nonnil; auto.
  - (* host *)
    destruct Hw as (Hne & Hcs & Hit). rewrite Forall_forall in Hit.
    assert (Hside : forall s, eval_set v (map (host_item_conj sub s) items) =
                    existsb (fun it => match it with
                                       | HIp ip m4 m6 => byte_masked_eq (src_host v (mkSrc sub s)) ip m4 m6
                                       | HVar vs vsrv m4 m6 => byte_masked_eq (src_host v (mkSrc sub s)) (src_host v (mkSrc vs vsrv)) m4 m6
                                       end) items).
    { intros s. unfold eval_set. rewrite existsb_map'. apply existsb_ext_in. intros it Hin.
      apply (host_item_sound v sub s it (Hit it Hin)). }
    assert (Hwf : forall s, cset_wf (map (host_item_conj sub s) items)).
    { intros s. apply Forall_map. apply Forall_forall. intros it Hin. apply (host_item_sound v sub s it (Hit it Hin)). }
    split; [|split].
    + rewrite eval_set_app. destruct cli, srv; cbn [andb orb eval_set existsb]; rewrite ?Hside, ?orb_false_r; reflexivity.
    + apply cset_wf_app; [destruct cli|destruct srv]; auto; constructor.
    + destruct Hcs as [-> | ->].
      * intros H0. apply app_eq_nil in H0 as [H0 _]. apply map_eq_nil in H0. auto.
      * intros H0. apply app_eq_nil in H0 as [_ H0]. apply map_eq_nil in H0. auto.
  - (* number *)
    destruct Hw as [Ht Hr]. split; [|split].
    + rewrite eval_set_flat_map.
      transitivity (existsb (fun r => existsb (fun ty => in_range (npart_val v) r (s_num (v_str v sub) ty) (s_num (v_str v sub) ty)) tys) ranges).
      * apply existsb_ext_in. intros r _. unfold eval_set. rewrite existsb_map'. apply existsb_ext_in. intros ty _.
        apply num_range_sound.
      * apply existsb_swap.
    + apply Forall_forall. intros c Hc. apply in_flat_map in Hc as (r & _ & Hc). apply in_map_iff in Hc as (ty & <- & _).
      unfold num_range_conj. destruct r as [b|lo hi]; [destruct (is_nil b)|destruct (is_nil lo), (is_nil hi)]; repeat constructor.
    + destruct ranges as [|r rs]; [congruence|]. destruct tys as [|t ts]; [congruence|]. cbn. discriminate.
  - (* time *)
    split; [|split].
    + unfold eval_set. rewrite existsb_map'. apply existsb_ext_in. intros r _. apply time_range_sound.
    + apply Forall_map. apply Forall_forall. intros r _. unfold time_range_conj.
      destruct r as [b|lo hi]; [destruct (is_nil b)|destruct (is_nil lo), (is_nil hi)];
        destruct (N.eqb key 0), (N.eqb key 1); repeat constructor.
    + apply map_nonnil; auto.
  - (* data *)
    split; [|split].
    + rewrite (eval_set_map_single v (fun e => CData (mkData [e] false))). reflexivity.
    + apply Forall_map. apply Forall_forall. intros e _. constructor; [|constructor]. cbn. unfold data_wf. cbn. discriminate.
    + apply map_nonnil; auto.
Qed.
