(* Proofs about the codec layer of the cache-file model (C15): varint, varbytes, string. *)
From Coq Require Import NArith ZArith List Bool Lia ZifyBool ZifyN ZifyNat.
Require Import Pk.CacheFile.
Import ListNotations.
Open Scope N_scope.
Ltac Zify.zify_post_hook ::= Z.div_mod_to_equations.

(* ---------- varint *)
Fixpoint rdU (acc : N) (l : list N) : option (N * list N) :=
  match l with
  | [] => None
  | b :: r => let acc' := acc * 128 + b mod 128 in
              if b <? 128 then Some (acc', r) else rdU acc' r
  end.

Lemma rd_mod : forall l acc,
  read_varint_go (acc mod W64) l = option_map (fun p => (fst p mod W64, snd p)) (rdU acc l).
Proof.
  induction l as [|b l IH]; intros acc; simpl; [reflexivity|].
  assert (E : ((acc mod W64) * 128 + b mod 128) mod W64 = (acc * 128 + b mod 128) mod W64).
  { rewrite <- (N.add_mod_idemp_l (acc mod W64 * 128)) by (unfold W64; lia).
    rewrite N.mul_mod_idemp_l by (unfold W64; lia).
    rewrite N.add_mod_idemp_l by (unfold W64; lia). reflexivity. }
  rewrite E. destruct (b <? 128); [reflexivity|]. apply IH.
Qed.

Lemma rdU_hi : forall fuel n tl a rest,
  n < 128 ^ N.of_nat fuel ->
  exists k, rdU a (varint_hi fuel n tl ++ rest) = rdU (a * 128 ^ k + n) (tl ++ rest).
Proof.
  induction fuel as [|f IH]; intros n tl a rest Hn.
  - simpl in *. exists 0. replace n with 0 by lia. f_equal. lia.
  - cbn [varint_hi]. destruct (n =? 0) eqn:E.
    + exists 0. apply N.eqb_eq in E. subst. f_equal. lia.
    + assert (Hd : n / 128 < 128 ^ N.of_nat f).
      { rewrite Nat2N.inj_succ, N.pow_succ_r' in Hn. apply N.div_lt_upper_bound; lia. }
      destruct (IH (n / 128) ((128 + n mod 128) :: tl) a rest Hd) as [k Hk].
      exists (k + 1). rewrite Hk. cbn [app rdU].
      assert (Hb : (128 + n mod 128 <? 128) = false) by (apply N.ltb_ge; lia).
      rewrite Hb. f_equal.
      replace ((128 + n mod 128) mod 128) with (n mod 128).
      2:{ rewrite N.add_mod by lia. rewrite N.mod_same by lia. rewrite N.add_0_l.
          rewrite N.mod_mod by lia. rewrite N.mod_mod by lia. reflexivity. }
      rewrite N.pow_add_r, N.pow_1_r.
      pose proof (N.div_mod n 128). lia.
Qed.

Lemma varint_roundtrip : forall n r, n < W64 -> read_varint (write_varint n ++ r) = Some (n, r).
Proof.
  intros n r Hn. unfold read_varint, write_varint.
  change 0 with (0 mod W64) at 1. rewrite rd_mod.
  destruct (rdU_hi 9 (n / 128) [n mod 128] 0 r) as [k Hk].
  { change (128 ^ N.of_nat 9) with 9223372036854775808. unfold W64 in Hn.
    apply N.div_lt_upper_bound; lia. }
  rewrite Hk. cbn [app rdU].
  assert (Hb : (n mod 128 <? 128) = true) by (apply N.ltb_lt; apply N.mod_lt; lia).
  rewrite Hb. cbn [option_map fst snd]. f_equal. f_equal.
  rewrite N.mod_mod by lia. rewrite N.mul_0_l, N.add_0_l.
  pose proof (N.div_mod n 128). rewrite N.mod_small; [lia|]. lia.
Qed.

(* ---------- varbytes *)
Definition bytes (l : list N) : Prop := Forall (fun b => b < 256) l.

Ltac pows :=
  change (2 ^ 1) with 2 in *; change (2 ^ 2) with 4 in *; change (2 ^ 3) with 8 in *;
  change (2 ^ 4) with 16 in *; change (2 ^ 5) with 32 in *; change (2 ^ 6) with 64 in *;
  change (2 ^ 7) with 128 in *.
Ltac cases_wfl wfl rfl :=
  let C := fresh "C" in
  assert (wfl = 1 \/ wfl = 2 \/ wfl = 3 \/ wfl = 4 \/ wfl = 5 \/ wfl = 6 \/ wfl = 7) as C by lia;
  destruct C as [C|[C|[C|[C|[C|[C|C]]]]]]; subst wfl; subst rfl;
  change (8 - 1) with 7 in *; change (8 - 2) with 6 in *; change (8 - 3) with 5 in *; change (8 - 4) with 4 in *;
  change (8 - 5) with 3 in *; change (8 - 6) with 2 in *; change (8 - 7) with 1 in *; pows.

Lemma rvb_last : forall wbuf wfl rbuf rfl rest,
  1 <= wfl <= 7 -> rfl = 8 - wfl -> wbuf < 2 ^ wfl -> rbuf < 2 ^ rfl ->
  rvb_go rbuf rfl ((wbuf mod 256) :: rest) = Some ([rbuf + 2 ^ rfl * wbuf], rest).
Proof.
  intros wbuf wfl rbuf rfl rest Hw Hr Hwb Hrb.
  unfold rvb_go. cases_wfl wfl rfl.
  all: match goal with |- context [8 <=? ?a + 7] => change (8 <=? a + 7) with true end; cbv iota.
  all: assert (Hlt : (wbuf mod 256 <? 128) = true) by (apply N.ltb_lt; lia); rewrite Hlt.
  all: f_equal; f_equal; f_equal; lia.
Qed.

(* one data byte b with 1 <= wfl <= 6: one output byte *)
Lemma rvb_step1 : forall wbuf wfl rbuf rfl b l,
  1 <= wfl <= 6 -> rfl = 8 - wfl -> wbuf < 2 ^ wfl -> rbuf < 2 ^ rfl -> b < 256 ->
  exists wbuf' rbuf',
    wvb_step wbuf wfl b = ([128 + (wbuf + b * 2 ^ wfl) mod 128], wbuf', wfl + 1) /\
    wbuf' < 2 ^ (wfl + 1) /\ rbuf' < 2 ^ (rfl - 1) /\ b = rbuf' + 2 ^ (rfl - 1) * wbuf' /\
    rvb_go rbuf rfl ((128 + (wbuf + b * 2 ^ wfl) mod 128) :: l) =
    match rvb_go rbuf' (rfl - 1) l with
    | None => None
    | Some (o, r') => Some ([rbuf + 2 ^ rfl * wbuf] ++ o, r')
    end.
Proof.
  intros wbuf wfl rbuf rfl b l Hw Hr Hwb Hrb Hb.
  exists ((wbuf + b * 2 ^ wfl) / 128), ((rbuf + ((wbuf + b * 2 ^ wfl) mod 128) * 2 ^ rfl) / 256).
  unfold wvb_step.
  assert (wfl = 1 \/ wfl = 2 \/ wfl = 3 \/ wfl = 4 \/ wfl = 5 \/ wfl = 6) as C by lia.
  destruct C as [C|[C|[C|[C|[C|C]]]]]; subst wfl; subst rfl;
  change (8 - 1) with 7 in *; change (8 - 2) with 6 in *; change (8 - 3) with 5 in *; change (8 - 4) with 4 in *;
  change (8 - 5) with 3 in *; change (8 - 6) with 2 in *;
  change (7 - 1) with 6 in *; change (6 - 1) with 5 in *; change (5 - 1) with 4 in *; change (4 - 1) with 3 in *;
  change (3 - 1) with 2 in *; change (2 - 1) with 1 in *;
  change (1 + 1) with 2 in *; change (2 + 1) with 3 in *; change (3 + 1) with 4 in *; change (4 + 1) with 5 in *;
  change (5 + 1) with 6 in *; change (6 + 1) with 7 in *; pows.
  all: cbv iota beta; cbn [N.leb N.compare Pos.compare Pos.compare_cont].
  all: (split; [reflexivity|]); (split; [lia|]); (split; [lia|]); (split; [lia|]).
  all: cbn [rvb_go].
  all: match goal with |- context [(128 + ?x mod 128) mod 128] =>
         replace ((128 + x mod 128) mod 128) with (x mod 128) by lia;
         assert (Hge : (128 + x mod 128 <? 128) = false) by (apply N.ltb_ge; lia); rewrite Hge end.
  all: match goal with |- context [8 <=? ?a + 7] => change (8 <=? a + 7) with true end; cbv iota.
  all: pows.
  all: match goal with |- context [rvb_go _ (?a + 7 - 8) _] => let v := eval compute in (a + 7 - 8) in change (a + 7 - 8) with v end.
  all: match goal with |- match rvb_go ?x _ _ with _ => _ end = match rvb_go ?y _ _ with _ => _ end =>
         destruct (rvb_go y _ l) as [[o r']|]; [|reflexivity] end.
  all: do 4 f_equal; lia.
Qed.

(* wfl = 7: two output bytes *)
Lemma rvb_step2 : forall wbuf rbuf b l,
  wbuf < 128 -> rbuf < 2 -> b < 256 ->
  wvb_step wbuf 7 b = ([128 + (wbuf + b * 128) mod 128; 128 + ((wbuf + b * 128) / 128) mod 128], b / 128, 1) /\
  rvb_go rbuf 1 ((128 + (wbuf + b * 128) mod 128) :: (128 + ((wbuf + b * 128) / 128) mod 128) :: l) =
    match rvb_go (b mod 128) 7 l with
    | None => None
    | Some (o, r') => Some ([rbuf + 2 * wbuf] ++ o, r')
    end.
Proof.
  intros wbuf rbuf b l Hwb Hrb Hb. split.
  - unfold wvb_step. pows. cbv iota beta. cbn [N.leb N.compare Pos.compare Pos.compare_cont N.add Pos.add Pos.succ].
    cbv iota. f_equal. f_equal. lia.
  - cbn [rvb_go]. pows.
    repeat match goal with |- context [(128 + ?x mod 128) mod 128] =>
         replace ((128 + x mod 128) mod 128) with (x mod 128) by lia;
         assert ((128 + x mod 128 <? 128) = false) as -> by (apply N.ltb_ge; lia) end.
    change (8 <=? 1 + 7) with true. cbv iota. change (1 + 7 - 8) with 0. change (2 ^ 0) with 1.
    change (8 <=? 0 + 7) with false. cbv iota. change (0 + 7) with 7.
    match goal with |- context [rvb_go ?x 7 l] =>
         replace x with (b mod 128) by lia end.
    destruct (rvb_go (b mod 128) 7 l) as [[o r']|]; [|reflexivity].
    cbn [app]. repeat first [reflexivity | lia | f_equal].
Qed.

Lemma rvb_wvb : forall data wbuf wfl rbuf rfl rest,
  1 <= wfl <= 7 -> rfl = 8 - wfl -> wbuf < 2 ^ wfl -> rbuf < 2 ^ rfl -> bytes data ->
  rvb_go rbuf rfl (wvb_go wbuf wfl data ++ rest) = Some ((rbuf + 2 ^ rfl * wbuf) :: data, rest).
Proof.
  induction data as [|b data IH]; intros wbuf wfl rbuf rfl rest Hw Hr Hwb Hrb Hd.
  - cbn [wvb_go]. assert (E : (wfl =? 0) = false) by (apply N.eqb_neq; lia). rewrite E.
    cbn [app]. eapply rvb_last; eauto.
  - inversion Hd as [|? ? Hb Hd']; subst. cbn [wvb_go].
    destruct (N.eq_dec wfl 7) as [E7|N7].
    + subst wfl. change (8 - 7) with 1 in *. pows.
      destruct (rvb_step2 wbuf rbuf b (wvb_go (b / 128) 1 data ++ rest)) as [Hs Hr]; try lia.
      rewrite Hs. cbn [app]. rewrite Hr.
      assert (H1 : b / 128 < 2 ^ 1) by (pows; lia).
      assert (H2 : b mod 128 < 2 ^ 7) by (pows; lia).
      rewrite (IH (b / 128) 1 (b mod 128) 7 rest ltac:(lia) eq_refl H1 H2 Hd').
      pows. cbn [app]. repeat first [reflexivity | lia | f_equal].
    + destruct (rvb_step1 wbuf wfl rbuf (8 - wfl) b (wvb_go ((wbuf + b * 2 ^ wfl) / 128) (wfl + 1) data ++ rest))
        as (wbuf' & rbuf' & Hs & Hw' & Hr' & Hb' & Hrd); try lia; try assumption.
      assert (wbuf' = (wbuf + b * 2 ^ wfl) / 128).
      { unfold wvb_step in Hs. destruct (wfl + 1 <=? 7); inversion Hs; reflexivity. }
      subst wbuf'. rewrite Hs. cbn [app]. rewrite Hrd.
      rewrite (IH ((wbuf + b * 2 ^ wfl) / 128) (wfl + 1) rbuf' (8 - wfl - 1) rest ltac:(lia) ltac:(lia) Hw' Hr' Hd').
      cbn [app]. rewrite <- Hb'. reflexivity.
Qed.

Lemma bytes_nil : bytes []. Proof. constructor. Qed.

Lemma varbytes_roundtrip : forall data r, bytes data ->
  read_varbytes (write_varbytes data ++ r) = Some (data, r).
Proof.
  intros data r Hd. unfold read_varbytes, write_varbytes. destruct data as [|b data].
  - reflexivity.
  - inversion Hd as [|? ? Hb Hd']; subst. cbn [wvb_go].
    assert (Hs : wvb_step 0 0 b = ([128 + b mod 128], b / 128, 1)).
    { unfold wvb_step. change (2 ^ 0) with 1. rewrite N.mul_1_r, N.add_0_l. change (0 + 1 <=? 7) with true. cbv iota. reflexivity. }
    rewrite Hs. cbn [app rvb_go]. change (2 ^ 0) with 1.
    replace ((128 + b mod 128) mod 128) with (b mod 128) by lia.
    assert ((128 + b mod 128 <? 128) = false) as -> by (apply N.ltb_ge; lia).
    change (8 <=? 0 + 7) with false. cbv iota. change (0 + 7) with 7.
    replace (0 + b mod 128 * 1) with (b mod 128) by lia.
    assert (H1 : b / 128 < 2 ^ 1) by (pows; lia).
    assert (H2 : b mod 128 < 2 ^ 7) by (pows; lia).
    rewrite (rvb_wvb data (b / 128) 1 (b mod 128) 7 r ltac:(lia) eq_refl H1 H2 Hd').
    pows. cbn [app]. repeat first [reflexivity | lia | f_equal].
Qed.
