(* C01, theorem 5: host tables, for every group capacity.
   - hostGroup.add / the placement loop of AddStream keep every group a duplicate-free table of
     hosts of one size, only ever append, and return indices that name the two addresses;
   - the host sections + (Start, Count, Flags) entries written by Finalize decode (patched reader:
     Start is a host index) to exactly the writer's tables. *)
From Coq Require Import Lia ZifyBool ZifyN ZifyNat Arith.
From Pk Require Import IndexFormat IndexFormatCodec.
Open Scope N_scope.

Lemma bytes_eqb_eq a : forall b, bytes_eqb a b = true <-> a = b.
Proof.
  induction a as [|x a IH]; intros [|y b]; cbn [bytes_eqb]; split; intros H; try discriminate; auto.
  - apply andb_true_iff in H. destruct H as [H1 H2]. apply N.eqb_eq in H1. apply IH in H2. now subst.
  - inversion H; subst. rewrite N.eqb_refl. cbn [andb]. now apply IH.
Qed.
Lemma bytes_eqb_neq a b : bytes_eqb a b = false <-> a <> b.
Proof.
  split.
  - intros H E. apply bytes_eqb_eq in E. congruence.
  - intros H. destruct (bytes_eqb a b) eqn:E; [|reflexivity]. apply bytes_eqb_eq in E. contradiction.
Qed.

Lemma find_host_some h l : forall i k, find_host h l i = Some k -> i <= k /\ nth_error l (N.to_nat (k - i)) = Some h.
Proof.
  induction l as [|x r IH]; intros i k H; cbn [find_host] in H; [discriminate|].
  destruct (bytes_eqb x h) eqn:E.
  - inversion H; subst. apply bytes_eqb_eq in E. subst. split; [lia|]. now rewrite N.sub_diag.
  - apply IH in H. destruct H as [H1 H2]. split; [lia|].
    replace (N.to_nat (k - i)) with (S (N.to_nat (k - N.succ i))) by lia. exact H2.
Qed.
Lemma find_host_none h l : forall i, find_host h l i = None -> ~ In h l.
Proof.
  induction l as [|x r IH]; intros i H; cbn [find_host] in H; [now intros []|].
  destruct (bytes_eqb x h) eqn:E; [discriminate|].
  apply bytes_eqb_neq in E. intros [Hin|Hin]; [contradiction|]. now apply (IH _ H).
Qed.

(* ------------------------------------------------------------------ *)
(* the table invariant                                                 *)
(* ------------------------------------------------------------------ *)
Section Cap.
  Variable gcap : N.

  Definition group_ok (g : hostgroup) : Prop :=
    hg_hosts g <> [] /\ NoDup (hg_hosts g) /\ Forall (fun h => lenN h = hg_size g) (hg_hosts g) /\
    hg_size g * (lenN (hg_hosts g) - 1) < gcap.

  (* g' extends g: same size, old indices keep their host *)
  Definition extends (g g' : hostgroup) : Prop := hg_size g' = hg_size g /\ exists ext, hg_hosts g' = hg_hosts g ++ ext.

  Lemma extends_refl g : extends g g.
  Proof. split; [reflexivity|]. exists []. now rewrite app_nil_r. Qed.
  Lemma extends_trans a b c : extends a b -> extends b c -> extends a c.
  Proof. intros [S1 [e1 H1]] [S2 [e2 H2]]. split; [congruence|]. exists (e1 ++ e2). now rewrite H2, H1, app_assoc. Qed.

  Lemma hg_add_ok g h i added g' :
    0 < gcap -> group_ok g -> hg_add gcap g h = Some (i, added, g') ->
    group_ok g' /\ extends g g' /\ nth_error (hg_hosts g') (N.to_nat i) = Some h /\ lenN h = hg_size g.
  Proof.
    intros Hcap (Hne & Hnd & Hlen & Hc) H. unfold hg_add in H.
    destruct (hg_hosts g) as [|x r] eqn:Eh; [contradiction|]. rewrite <- Eh in *.
    destruct (hg_size g =? lenN h) eqn:Es; cbn [negb] in H; [|discriminate]. apply N.eqb_eq in Es.
    destruct (find_host h (hg_hosts g) 0) as [k|] eqn:Ef.
    - inversion H; subst. apply find_host_some in Ef. destruct Ef as [_ Ef]. rewrite N.sub_0_r in Ef.
      repeat split; auto using extends_refl. exists []. now rewrite app_nil_r.
    - destruct (gcap <=? hg_size g * lenN (hg_hosts g)) eqn:Ec; [discriminate|]. apply N.leb_gt in Ec.
      inversion H; subst; clear H. cbn [hg_hosts hg_size].
      apply find_host_none in Ef.
      repeat split; cbn [hg_hosts hg_size].
      + intros E. destruct (hg_hosts g); discriminate.
      + apply NoDup_rev in Hnd. rewrite <- (rev_involutive (hg_hosts g ++ [h])). apply NoDup_rev.
        rewrite rev_app_distr. cbn [rev app]. constructor; [|assumption]. now rewrite <- in_rev.
      + apply Forall_app. split; [assumption|]. constructor; [now symmetry|constructor].
      + rewrite lenN_app, lenN_cons, lenN_nil. replace (lenN (hg_hosts g) + (1 + 0) - 1) with (lenN (hg_hosts g)) by lia. assumption.
      + exists [h]. reflexivity.
      + unfold lenN. rewrite Nat2N.id. rewrite nth_error_app2 by lia. now rewrite Nat.sub_diag.
      + now symmetry.
  Qed.

  (* the first host of a fresh group *)
  Lemma hg_add_fresh h size : 0 < gcap -> exists g', hg_add gcap {| hg_size := size; hg_hosts := [] |} h = Some (0, true, g') /\
                                     group_ok g' /\ hg_hosts g' = [h] /\ hg_size g' = lenN h.
  Proof.
    intros Hcap. eexists. split; [reflexivity|]. cbn [hg_hosts hg_size]. split; [|split; reflexivity].
    split; [discriminate|]. split; [constructor; [intros []|constructor]|]. split; [constructor; [reflexivity|constructor]|].
    change (lenN [h]) with 1. now rewrite N.sub_diag, N.mul_0_r.
  Qed.

  Definition host_at (gs : list hostgroup) (k i : N) : option bytes :=
    match nth_error gs (N.to_nat k) with Some g => nth_error (hg_hosts g) (N.to_nat i) | None => None end.

  (* gs' extends gs group by group (and may have more groups) *)
  Definition groups_extend (gs gs' : list hostgroup) : Prop :=
    forall j g, nth_error gs j = Some g -> exists g', nth_error gs' j = Some g' /\ extends g g'.

  Lemma groups_extend_refl gs : groups_extend gs gs.
  Proof. intros j g H. exists g. auto using extends_refl. Qed.
  Lemma groups_extend_trans a b c : groups_extend a b -> groups_extend b c -> groups_extend a c.
  Proof.
    intros H1 H2 j g H. destruct (H1 _ _ H) as (g1 & Hg1 & E1). destruct (H2 _ _ Hg1) as (g2 & Hg2 & E2).
    exists g2. split; [assumption|]. eapply extends_trans; eauto.
  Qed.
  Lemma groups_extend_cons g g' r r' : extends g g' -> groups_extend r r' -> groups_extend (g :: r) (g' :: r').
  Proof.
    intros E H [|j] x Hx; cbn [nth_error] in *.
    - inversion Hx; subst. exists g'. auto.
    - now apply H.
  Qed.
  Lemma host_at_extend gs gs' k i h : groups_extend gs gs' -> host_at gs k i = Some h -> host_at gs' k i = Some h.
  Proof.
    unfold host_at. intros He H. destruct (nth_error gs (N.to_nat k)) as [g|] eqn:Eg; [|discriminate].
    destruct (He _ _ Eg) as (g' & Hg' & _ & ext & Hext). rewrite Hg', Hext.
    rewrite nth_error_app1; [assumption|]. apply nth_error_Some. congruence.
  Qed.

  (* the host-group loop of AddStream *)
  Lemma place_hosts_ok c s : 0 < gcap -> forall gs gid gs' k ci si,
      Forall group_ok gs ->
      place_hosts gcap gs gid c s = Some (gs', k, ci, si) ->
      Forall group_ok gs' /\ groups_extend gs gs' /\ gid <= k /\
      (exists g, nth_error gs' (N.to_nat (k - gid)) = Some g /\
                 nth_error (hg_hosts g) (N.to_nat ci) = Some c /\ nth_error (hg_hosts g) (N.to_nat si) = Some s /\
                 lenN c = hg_size g /\ lenN s = hg_size g).
  Proof.
    intros Hcap. induction gs as [|g r IH]; intros gid gs' k ci si Hok H; cbn [place_hosts] in H.
    - destruct (hg_add_fresh c 0 Hcap) as (g1 & E1 & Hg1 & Hh1 & Hs1). rewrite E1 in H.
      destruct (hg_add gcap g1 s) as [[[si' a2] g2]|] eqn:E2; [|discriminate].
      inversion H; subst; clear H.
      destruct (hg_add_ok _ _ _ _ _ Hcap Hg1 E2) as (Hg2 & (Hsz & ext & Hext) & Hn & Hl).
      repeat split.
      + constructor; [assumption|constructor].
      + intros j x Hx. destruct j; discriminate.
      + lia.
      + exists g2. rewrite N.sub_diag. split; [reflexivity|]. repeat split.
        * rewrite Hext, Hh1. reflexivity.
        * assumption.
        * congruence.
        * congruence.
    - inversion Hok as [|? ? Hg Hr]; subst.
      assert (Hrec : forall r' k' ci' si', place_hosts gcap r (N.succ gid) c s = Some (r', k', ci', si') ->
                Forall group_ok (g :: r') /\ groups_extend (g :: r) (g :: r') /\ gid <= k' /\
                (exists g0, nth_error (g :: r') (N.to_nat (k' - gid)) = Some g0 /\
                   nth_error (hg_hosts g0) (N.to_nat ci') = Some c /\ nth_error (hg_hosts g0) (N.to_nat si') = Some s /\
                   lenN c = hg_size g0 /\ lenN s = hg_size g0)).
      { intros r' k' ci' si' E. destruct (IH _ _ _ _ _ Hr E) as (A & B & C & g0 & D1 & D2).
        repeat split.
        - now constructor.
        - apply groups_extend_cons; auto using extends_refl.
        - lia.
        - exists g0. split; [|assumption].
          replace (N.to_nat (k' - gid)) with (S (N.to_nat (k' - N.succ gid))) by lia. exact D1. }
      destruct (hg_add gcap g c) as [[[ci' a1] g1]|] eqn:E1.
      + destruct (hg_add_ok _ _ _ _ _ Hcap Hg E1) as (Hg1 & Hx1 & Hn1 & Hl1).
        destruct (hg_add gcap g1 s) as [[[si' a2] g2]|] eqn:E2.
        * inversion H; subst; clear H.
          destruct (hg_add_ok _ _ _ _ _ Hcap Hg1 E2) as (Hg2 & Hx2 & Hn2 & Hl2).
          repeat split.
          -- now constructor.
          -- apply groups_extend_cons; [eapply extends_trans; eauto|apply groups_extend_refl].
          -- lia.
          -- exists g2. rewrite N.sub_diag. split; [reflexivity|].
             destruct Hx2 as (Hs2 & ext & Hext). destruct Hx1 as (Hs1 & _).
             repeat split; try congruence.
             rewrite Hext. rewrite nth_error_app1; [assumption|]. apply nth_error_Some. congruence.
        * destruct (place_hosts gcap r (N.succ gid) c s) as [[[[r' k'] ci''] si'']|] eqn:E; [|discriminate].
          inversion H; subst; clear H. now apply Hrec.
      + destruct (place_hosts gcap r (N.succ gid) c s) as [[[[r' k'] ci''] si'']|] eqn:E; [|discriminate].
        inversion H; subst; clear H. now apply Hrec.
  Qed.

  Corollary place_hosts_host_at c s gs gs' k ci si :
    0 < gcap -> Forall group_ok gs -> place_hosts gcap gs 0 c s = Some (gs', k, ci, si) ->
    Forall group_ok gs' /\ groups_extend gs gs' /\ host_at gs' k ci = Some c /\ host_at gs' k si = Some s.
  Proof.
    intros Hcap Hok H. destruct (place_hosts_ok c s Hcap _ _ _ _ _ _ Hok H) as (A & B & _ & g & D1 & D2 & D3 & _).
    rewrite N.sub_0_r in D1. unfold host_at. rewrite D1. auto.
  Qed.
End Cap.

(* ------------------------------------------------------------------ *)
(* Finalize host sections -> NewReader host groups                      *)
(* ------------------------------------------------------------------ *)
Lemma lenN_concat_hosts size (hs : list bytes) :
  Forall (fun h => lenN h = size) hs -> lenN (concat hs) = size * lenN hs.
Proof.
  induction 1 as [|h r Hh Hr IH]; cbn [concat]; [unfold lenN; cbn [length]; lia|].
  rewrite lenN_app, IH, Hh, lenN_cons. lia.
Qed.

Lemma chunk_hosts_concat size (hs : list bytes) rest :
  Forall (fun h => lenN h = size) hs -> chunk_hosts (length hs) size (concat hs ++ rest) = hs.
Proof.
  induction 1 as [|h r Hh Hr IH]; [reflexivity|].
  cbn [length chunk_hosts concat]. rewrite <- app_assoc. rewrite <- Hh. rewrite takeN_app, skipN_app. rewrite Hh. now rewrite IH.
Qed.

Definition size_ok (g : hostgroup) : Prop := hg_size g = 4 \/ hg_size g = 16.
Definition count_ok (g : hostgroup) : Prop := lenN (hg_hosts g) <= P16.

Fixpoint total_hosts (size : N) (gs : list hostgroup) : N :=
  match gs with
  | [] => 0
  | g :: r => (if hg_size g =? size then lenN (hg_hosts g) else 0) + total_hosts size r
  end.

Lemma host_bytes_cons size g r :
  host_bytes size (g :: r) = (if hg_size g =? size then concat (hg_hosts g) else []) ++ host_bytes size r.
Proof. reflexivity. Qed.

Lemma decode_groups_gen gcap gs : forall v4off v6off pre4 pre6,
    Forall (group_ok gcap) gs -> Forall size_ok gs -> Forall count_ok gs ->
    lenN pre4 = 4 * v4off -> lenN pre6 = 16 * v6off ->
    v4off + total_hosts 4 gs < P32 -> v6off + total_hosts 16 gs < P32 ->
    map (decode_group false (pre4 ++ host_bytes 4 gs) (pre6 ++ host_bytes 16 gs)) (group_entries gs v4off v6off)
    = map (fun g => (hg_size g, hg_hosts g)) gs.
Proof.
  induction gs as [|g r IH]; intros v4off v6off pre4 pre6 Hok Hsz Hct H4 H6 B4 B6; [reflexivity|].
  inversion Hok as [|? ? (Hne & Hnd & Hlen & Hc) Hokr]; subst.
  inversion Hsz as [|? ? Hs Hszr]; subst. inversion Hct as [|? ? Hcn Hctr]; subst. unfold count_ok in Hcn.
  assert (Hn1 : 1 <= lenN (hg_hosts g)).
  { destruct (hg_hosts g); [contradiction|]. rewrite lenN_cons. lia. }
  cbn [group_entries total_hosts] in *. rewrite !host_bytes_cons.
  destruct Hs as [Hs|Hs]; rewrite Hs in *.
  - (* IPv4 group *)
    change (4 =? 16) with false in *. change (4 =? 4) with true in *. cbv iota in *. cbn [map app].
    f_equal.
    + unfold decode_group. cbn [he_flags he_start he_count].
      change (0 mod 2 =? 0) with true. cbv iota.
      unfold u32, u16. rewrite (N.mod_small v4off) by lia. rewrite (N.mod_small (lenN (hg_hosts g) - 1)) by (unfold P16 in *; lia).
      replace (lenN (hg_hosts g) - 1 + 1) with (lenN (hg_hosts g)) by lia.
      rewrite (N.mul_comm v4off 4), <- H4. rewrite skipN_app.
      rewrite <- (lenN_concat_hosts 4 (hg_hosts g) Hlen).
      rewrite takeN_app. rewrite ?Hs. f_equal.
      unfold lenN at 1. rewrite Nat2N.id.
      rewrite <- (app_nil_r (concat (hg_hosts g))). now apply chunk_hosts_concat.
    + rewrite app_assoc. apply IH; auto.
      * rewrite lenN_app, H4, (lenN_concat_hosts 4 _ Hlen). lia.
      * lia.
  - (* IPv6 group *)
    change (16 =? 16) with true in *. change (16 =? 4) with false in *. cbv iota in *. cbn [map app].
    f_equal.
    + unfold decode_group. cbn [he_flags he_start he_count].
      change (1 mod 2 =? 0) with false. cbv iota.
      unfold u32, u16. rewrite (N.mod_small v6off) by lia. rewrite (N.mod_small (lenN (hg_hosts g) - 1)) by (unfold P16 in *; lia).
      replace (lenN (hg_hosts g) - 1 + 1) with (lenN (hg_hosts g)) by lia.
      rewrite (N.mul_comm v6off 16), <- H6. rewrite skipN_app.
      rewrite <- (lenN_concat_hosts 16 (hg_hosts g) Hlen).
      rewrite takeN_app. rewrite ?Hs. f_equal.
      unfold lenN at 1. rewrite Nat2N.id.
      rewrite <- (app_nil_r (concat (hg_hosts g))). now apply chunk_hosts_concat.
    + rewrite (app_assoc pre6). apply IH; auto.
      * rewrite lenN_app, H6, (lenN_concat_hosts 16 _ Hlen). lia.
      * lia.
Qed.

(* capacity gives the 16-bit count: gcap <= 4 * 2^16 *)
Lemma group_ok_count gcap g : gcap <= 4 * P16 -> group_ok gcap g -> size_ok g -> count_ok g.
Proof.
  intros Hcap (Hne & _ & _ & Hc) [Hs|Hs]; unfold count_ok, P16 in *; rewrite Hs in Hc; lia.
Qed.

(* Theorem 5, decoding half: the reader's host groups are the writer's tables *)
Theorem reader_groups_of_writer gcap (w : writer) :
  gcap <= 4 * P16 ->
  Forall (group_ok gcap) (w_groups w) -> Forall size_ok (w_groups w) ->
  total_hosts 4 (w_groups w) < P32 -> total_hosts 16 (w_groups w) < P32 ->
  map (decode_group false (f_v4 (finalize w)) (f_v6 (finalize w))) (f_groups (finalize w))
  = map (fun g => (hg_size g, hg_hosts g)) (w_groups w).
Proof.
  intros Hcap Hok Hsz B4 B6. unfold finalize. destruct (import_section (w_imports w) [] []) as [imps names].
  cbn [f_v4 f_v6 f_groups].
  apply (decode_groups_gen gcap (w_groups w) 0 0 [] []); auto.
  apply Forall_forall. intros g Hg. rewrite Forall_forall in Hok, Hsz. eapply group_ok_count; eauto.
Qed.
