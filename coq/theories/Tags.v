(* Tags.v -- executable model of the tag / uncertainty / converter part of
   internal/index/manager/manager.go (service loop closures), written after the Go code.

   Sets of stream ids are bitsets in N (LongBitmask).  Tag names and converter names are
   numbers; a tag definition is abstracted to its identity, its feature class (the branch
   of invalidateTags it takes) and the tags it references.  Everything the Go code obtains
   from other packages (import result, search result, merge result) is a parameter of the
   action ("response"); the theorems constrain the responses by hypotheses.

   Known defects are switches (record kf): true = behave like the Go code (faithful),
   false = repaired.  `faithful` is what the correspondence runs against. *)
From Coq Require Import List NArith Bool Lia.
Import ListNotations.
Open Scope N_scope.

(* ---------------------------------------------------------------- bitsets *)
Definition mem (i s : N) : bool := N.testbit s i.
Definition union (a b : N) : N := N.lor a b.
Definition inter (a b : N) : N := N.land a b.
Definition diff (a b : N) : N := N.ldiff a b.
Definition sxor (a b : N) : N := N.lxor a b.
Definition single (i : N) : N := N.shiftl 1 i.
Definition add1 (i s : N) : N := N.lor s (single i).
Definition del1 (i s : N) : N := N.ldiff s (single i).
Definition ones (n : N) : N := N.ones n.
Definition is0 (s : N) : bool := s =? 0.

Fixpoint ppop (p : positive) : N :=
  match p with xH => 1 | xO q => ppop q | xI q => 1 + ppop q end.
Definition popcount (s : N) : N := match s with N0 => 0 | Npos p => ppop p end.

(* elements below a bound, ascending *)
Fixpoint elems_aux (fuel : nat) (i : N) (s : N) : list N :=
  match fuel with
  | O => []
  | S f => if mem i s then i :: elems_aux f (i + 1) s else elems_aux f (i + 1) s
  end.
Definition elems (s : N) : list N := elems_aux (N.to_nat (N.size s)) 0 s.

(* ---------------------------------------------------------------- definitions, tags *)
Record defn := mkDef {
  d_id : N;              (* identity of the definition text: `ot.definition == t.definition` *)
  d_idonly : bool;       (* MainFeatures &^ FeatureFilterID == 0 and no sub-query features *)
  d_sub : bool;          (* SubQueryFeatures != 0 *)
  d_datatime : bool;     (* MainFeatures & (Data|TimeAbsolute|TimeRelative) != 0 *)
  d_data : bool;         (* (Main|SubQuery)Features & Data != 0 : re-opened by converter completion *)
  d_main : list N;       (* features.MainTags *)
  d_subt : list N;       (* features.SubQueryTags *)
  d_mark : bool }.       (* mark/ or generated/ tag *)

Definition d_refs (d : defn) : list N := d_main d ++ d_subt d.

Fixpoint listN_eqb (a b : list N) : bool :=
  match a, b with
  | [], [] => true
  | x :: a', y :: b' => (x =? y) && listN_eqb a' b'
  | _, _ => false
  end.

(* `ot.definition == t.definition`: the features are a function of the definition text *)
Definition defn_eqb (a b : defn) : bool :=
  (d_id a =? d_id b) && Bool.eqb (d_idonly a) (d_idonly b) && Bool.eqb (d_sub a) (d_sub b) &&
  Bool.eqb (d_datatime a) (d_datatime b) && Bool.eqb (d_data a) (d_data b) &&
  listN_eqb (d_main a) (d_main b) && listN_eqb (d_subt a) (d_subt b) && Bool.eqb (d_mark a) (d_mark b).

(* A fixed set of tag names (slots) is kept, sorted by descending name; an absent tag is a dead slot. *)
Record tag := mkTag0 { t_def : defn; t_m : N; t_u : N; t_conv : list N; t_live : bool }.
Definition mkTag (d : defn) (m u : N) (c : list N) : tag := mkTag0 d m u c true.
Definition dead_def : defn := mkDef 0 true false false false [] [] false.
Definition dead : tag := mkTag0 dead_def 0 0 [] false.

Definition tags_t := list (N * tag).

Fixpoint tget (n : N) (ts : tags_t) : option tag :=
  match ts with
  | [] => None
  | (k, t) :: r => if k =? n then (if t_live t then Some t else None) else tget n r
  end.

Definition tset (n : N) (t : tag) (ts : tags_t) : tags_t :=
  map (fun kt => if fst kt =? n then (fst kt, t) else kt) ts.

Definition tdel (n : N) (ts : tags_t) : tags_t := tset n dead ts.

Definition tu (n : N) (ts : tags_t) : N := match tget n ts with Some t => t_u t | None => 0 end.
Definition tm (n : N) (ts : tags_t) : N := match tget n ts with Some t => t_m t | None => 0 end.

Definition memN (x : N) (l : list N) : bool := existsb (N.eqb x) l.

(* ---------------------------------------------------------------- jobs, state *)
Record iresp := mkIresp {
  ir_proc : nat;          (* processedFiles *)
  ir_upd : N; ir_rst : N; ir_add : N;
  ir_next : N;            (* nextStreamID + usedNewStreamIDs *)
  ir_idx : list N }.      (* stream-id sets of the created index files *)

Record impjob := mkImp { ij_files : nat; ij_resp : option iresp }.

Record tagjob := mkTj {
  tj_name : N; tj_def : defn; tj_m : N; tj_u : N;
  tj_conv : list N;
  tj_snap : list (N * N);          (* tagDetails: referenced tag -> Matches at job start *)
  tj_hist : nat;                   (* ghost: number of completed imports at job start *)
  tj_res : option N }.             (* Matches computed by the body *)

Record convjob := mkCj {
  cj_sets : list (N * N);          (* (converter, streams) *)
  cj_ver : N -> N;                 (* versions in the index snapshot of the job *)
  cj_next : N;                     (* streams of the snapshot: ids below cj_next *)
  cj_done : bool }.

Record mergejob := mkMj { mj_off : nat; mj_idx : list N; mj_res : option (list N) }.

Record kf := mkKf {
  kf_inherit : bool;    (* C06: inherited invalidation lost when a tagging job publishes *)
  kf_idonly : bool;     (* C06: id-only tags are not invalidated for added streams *)
  kf_reset : bool;      (* C16: reset streams are not invalidated for converters *)
  kf_inflight : bool;   (* C16: streams updated while a converter job is in flight keep stale output *)
  kf_mergeconv : bool;  (* C09: converter completion does not start an eligible merge *)
  kf_viewstore : bool;  (* C16: StreamContext.Data through an old view stores output of an old version *)
  kf_detachreset : bool (* C06: detaching the last converter resets its cache without re-opening the tags that filter on stream data *) }.

Definition faithful : kf := mkKf true true true true true true true.
Definition repaired : kf := mkKf false false false false false false false.

Record state := mkSt {
  next : N;
  tags : tags_t;
  m_upd : N; m_rst : N; m_add : N;     (* *DuringTaggingJob *)
  m_cupd : N;                          (* repaired only: updated/reset during the converter job *)
  queue : list N;                      (* importJobs (file numbers) *)
  convs : list N;                      (* mgr.converters (names) *)
  toconv : N -> N;                     (* streamsToConvert *)
  cache : N -> N -> option N;          (* converter -> stream -> version of the cached output *)
  ver : N -> N;                        (* current version of every stream *)
  idx : list N;                        (* mgr.indexes as stream-id sets *)
  unmerge : nat;                       (* nUnmergeableIndexes *)
  jimp : option impjob;
  jtag : option tagjob;
  jconv : option convjob;
  jmerge : option mergejob;
  hist : list iresp;                   (* ghost: completed imports, newest first *)
  views : list (N * (N -> N)) }.       (* open views: number -> version snapshot *)

Definition slots : list N := [7; 6; 5; 4; 3; 2; 1; 0].
Definition init (cs : list N) : state :=
  mkSt 0 (map (fun n => (n, dead)) slots) 0 0 0 0 [] cs (fun _ => 0) (fun _ _ => None) (fun _ => 0) [] O None None None None [] [].

Definition set_tags (st : state) (ts : tags_t) : state :=
  mkSt (next st) ts (m_upd st) (m_rst st) (m_add st) (m_cupd st) (queue st) (convs st) (toconv st) (cache st)
       (ver st) (idx st) (unmerge st) (jimp st) (jtag st) (jconv st) (jmerge st) (hist st) (views st).
Definition set_toconv (st : state) (f : N -> N) : state :=
  mkSt (next st) (tags st) (m_upd st) (m_rst st) (m_add st) (m_cupd st) (queue st) (convs st) f (cache st)
       (ver st) (idx st) (unmerge st) (jimp st) (jtag st) (jconv st) (jmerge st) (hist st) (views st).
Definition set_cache (st : state) (c : N -> N -> option N) : state :=
  mkSt (next st) (tags st) (m_upd st) (m_rst st) (m_add st) (m_cupd st) (queue st) (convs st) (toconv st) c
       (ver st) (idx st) (unmerge st) (jimp st) (jtag st) (jconv st) (jmerge st) (hist st) (views st).
Definition set_masks (st : state) (u r a : N) : state :=
  mkSt (next st) (tags st) u r a (m_cupd st) (queue st) (convs st) (toconv st) (cache st)
       (ver st) (idx st) (unmerge st) (jimp st) (jtag st) (jconv st) (jmerge st) (hist st) (views st).
Definition set_cupd (st : state) (c : N) : state :=
  mkSt (next st) (tags st) (m_upd st) (m_rst st) (m_add st) c (queue st) (convs st) (toconv st) (cache st)
       (ver st) (idx st) (unmerge st) (jimp st) (jtag st) (jconv st) (jmerge st) (hist st) (views st).
Definition set_jtag (st : state) (j : option tagjob) : state :=
  mkSt (next st) (tags st) (m_upd st) (m_rst st) (m_add st) (m_cupd st) (queue st) (convs st) (toconv st) (cache st)
       (ver st) (idx st) (unmerge st) (jimp st) j (jconv st) (jmerge st) (hist st) (views st).
Definition set_jconv (st : state) (j : option convjob) : state :=
  mkSt (next st) (tags st) (m_upd st) (m_rst st) (m_add st) (m_cupd st) (queue st) (convs st) (toconv st) (cache st)
       (ver st) (idx st) (unmerge st) (jimp st) (jtag st) j (jmerge st) (hist st) (views st).
Definition set_jmerge (st : state) (j : option mergejob) : state :=
  mkSt (next st) (tags st) (m_upd st) (m_rst st) (m_add st) (m_cupd st) (queue st) (convs st) (toconv st) (cache st)
       (ver st) (idx st) (unmerge st) (jimp st) (jtag st) (jconv st) j (hist st) (views st).
Definition set_jimp (st : state) (j : option impjob) : state :=
  mkSt (next st) (tags st) (m_upd st) (m_rst st) (m_add st) (m_cupd st) (queue st) (convs st) (toconv st) (cache st)
       (ver st) (idx st) (unmerge st) j (jtag st) (jconv st) (jmerge st) (hist st) (views st).
Definition set_queue (st : state) (q : list N) : state :=
  mkSt (next st) (tags st) (m_upd st) (m_rst st) (m_add st) (m_cupd st) q (convs st) (toconv st) (cache st)
       (ver st) (idx st) (unmerge st) (jimp st) (jtag st) (jconv st) (jmerge st) (hist st) (views st).
Definition set_idx (st : state) (l : list N) (u : nat) : state :=
  mkSt (next st) (tags st) (m_upd st) (m_rst st) (m_add st) (m_cupd st) (queue st) (convs st) (toconv st) (cache st)
       (ver st) l u (jimp st) (jtag st) (jconv st) (jmerge st) (hist st) (views st).
Definition set_views (st : state) (v : list (N * (N -> N))) : state :=
  mkSt (next st) (tags st) (m_upd st) (m_rst st) (m_add st) (m_cupd st) (queue st) (convs st) (toconv st) (cache st)
       (ver st) (idx st) (unmerge st) (jimp st) (jtag st) (jconv st) (jmerge st) (hist st) v.

Definition all (st : state) : N := ones (next st).

Definition fupd (f : N -> N) (k v : N) : N -> N := fun x => if x =? k then v else f x.

(* ---------------------------------------------------------------- inheritTagUncertainty
   Tags are kept sorted by descending name and a definition references smaller names only (the
   scenario family respects a fixed ranking; in the Go code the order is the dependency order
   computed by the `resolvedTags` loop), so the tail of the list holds every tag a tag references
   and is processed first. *)
Definition inherit_one (allS : N) (lower : tags_t) (t : tag) : tag :=
  let d := t_def t in
  match d_main d, d_subt d with
  | [], [] => t
  | _, _ =>
    if existsb (fun r => negb (is0 (tu r lower))) (d_subt d)
    then mkTag0 d (t_m t) allS (t_conv t) (t_live t)
    else mkTag0 d (t_m t) (fold_left (fun u r => union u (tu r lower)) (d_main d) (t_u t)) (t_conv t) (t_live t)
  end.

Fixpoint inherit (allS : N) (ts : tags_t) : tags_t :=
  match ts with
  | [] => []
  | (n, t) :: r => let r' := inherit allS r in (n, inherit_one allS r' t) :: r'
  end.

(* ---------------------------------------------------------------- invalidateTags *)
Definition invalidate_one (k : kf) (allS upd rst add : N) (t : tag) : tag :=
  let d := t_def t in
  if negb (t_live t) then t else
  if d_sub d then mkTag0 d (t_m t) allS (t_conv t) (t_live t)
  else if d_idonly d then
    (if kf_idonly k then t else mkTag0 d (t_m t) (union (t_u t) add) (t_conv t) (t_live t))
  else
    let u := union (union (t_u t) add) rst in
    mkTag0 d (t_m t) (if d_datatime d then union u upd else u) (t_conv t) (t_live t).

Definition invalidate_tags (k : kf) (allS upd rst add : N) (ts : tags_t) : tags_t :=
  inherit allS (map (fun nt => (fst nt, invalidate_one k allS upd rst add (snd nt))) ts).

(* ---------------------------------------------------------------- start*JobIfNeeded *)
Definition eligible (ts : tags_t) (n : N) : bool :=
  match tget n ts with
  | None => false
  | Some t => negb (is0 (t_u t)) && forallb (fun r => is0 (tu r ts)) (d_refs (t_def t))
  end.

Definition first_eligible (ts : tags_t) : option N :=
  match filter (fun nt => eligible ts (fst nt)) ts with
  | [] => None
  | (n, _) :: _ => Some n
  end.

(* Go iterates a map: any eligible tag may be chosen.  `pick` is that choice; when it is not
   eligible the first eligible tag is taken. *)
Definition start_tagging (pick : N) (st : state) : state :=
  match jtag st with
  | Some _ => st
  | None =>
    let ch := if eligible (tags st) pick then Some pick else first_eligible (tags st) in
    match ch with
    | None => st
    | Some n =>
      match tget n (tags st) with
      | None => st
      | Some t =>
        let snap := map (fun r => (r, tm r (tags st))) (d_refs (t_def t)) in
        set_jtag (set_masks st 0 0 0)
                 (Some (mkTj n (t_def t) (t_m t) (t_u t) (t_conv t) snap (length (hist st)) None))
      end
    end
  end.

Definition start_converter (st : state) : state :=
  match jconv st with
  | Some _ => st
  | None =>
    let act := filter (fun c => negb (is0 (toconv st c))) (convs st) in
    match act with
    | [] => st
    | _ =>
      let sets := map (fun c => (c, toconv st c)) act in
      let tc := fun c => if memN c act then 0 else toconv st c in
      set_cupd (set_jconv (set_toconv st tc) (Some (mkCj sets (ver st) (next st) false))) 0
    end
  end.

Definition all_certain (ts : tags_t) : bool := forallb (fun nt => is0 (t_u (snd nt))) ts.

Definition nat_ltb_N (a b : N) : bool := a <? b.

(* offset of the first mergeable run: for i, idx: n -= c; if i >= unmerge && c < n -> i *)
Fixpoint merge_offset (i : nat) (unm : nat) (n : N) (l : list N) : option nat :=
  match l with
  | [] => None
  | x :: r =>
    let c := popcount x in
    let n' := n - c in
    if (Nat.leb unm i) && (c <? n') then Some i else merge_offset (S i) unm n' r
  end.

Definition nrecords (l : list N) : N := fold_left (fun a x => a + popcount x) l 0.

Definition merge_eligible (st : state) : option nat :=
  match jmerge st, jtag st, jconv st with
  | None, None, None =>
    if all_certain (tags st) then merge_offset O (unmerge st) (nrecords (idx st)) (idx st) else None
  | _, _, _ => None
  end.

Definition start_merge (st : state) : state :=
  match merge_eligible st with
  | None => st
  | Some off => set_jmerge st (Some (mkMj off (skipn off (idx st)) None))
  end.

(* ---------------------------------------------------------------- converters *)
Definition invalidate_converters (st : state) (s : N) : state :=
  (* InvalidateChangedStreams for every converter: cached entries of s are dropped and re-queued *)
  let hit := fun c => fold_left (fun a i => match cache st c i with Some _ => add1 i a | None => a end) (elems s) 0 in
  let st1 := set_toconv st (fun c => if memN c (convs st) then union (toconv st c) (hit c) else toconv st c) in
  set_cache st1 (fun c i => if memN c (convs st) && mem i s then None else cache st c i).

Definition tag_has_conv (c : N) (t : tag) : bool := memN c (t_conv t).

(* detachConverterFromTag *)
Definition detach (st : state) (n : N) (c : N) : state :=
  match tget n (tags st) with
  | None => st
  | Some t =>
    let t' := mkTag (t_def t) (t_m t) (t_u t) (filter (fun x => negb (x =? c)) (t_conv t)) in
    let ts := tset n t' (tags st) in
    let matching := fold_left (fun a nt => if negb (fst nt =? n) && tag_has_conv c (snd nt) then union a (t_m (snd nt)) else a) ts 0 in
    let only := diff (t_m t) matching in
    let st1 := set_toconv (set_tags st ts) (fupd (toconv st) c (diff (toconv st c) only)) in
    if is0 matching then set_cache st1 (fun c' i => if c' =? c then None else cache st c' i) else st1
  end.

Definition complex (d : defn) : bool :=
  d_data d || negb (match d_refs d with [] => true | _ => false end).

(* attachConverterToTag: None = error *)
Definition attach (st : state) (n : N) (c : N) : option state :=
  match tget n (tags st) with
  | None => Some st
  | Some t =>
    if tag_has_conv c t then Some st
    else if complex (t_def t) then None
    else
      let t' := mkTag (t_def t) (t_m t) (t_u t) (t_conv t ++ [c]) in
      Some (set_toconv (set_tags st (tset n t' (tags st))) (fupd (toconv st) c (union (toconv st c) (t_m t))))
  end.

Fixpoint attach_all (st : state) (n : N) (cs : list N) : state * bool :=
  match cs with
  | [] => (st, true)
  | c :: r =>
    if memN c (convs st) then
      match attach st n c with
      | None => (st, false)
      | Some st' => attach_all st' n r
      end
    else (st, false)
  end.

(* a conversion succeeds when the stream is in the job's index snapshot and the converter answers it properly *)
Definition conv_ok (bad : list (N * N)) (nx : N) (c i : N) : bool :=
  (i <? nx) && negb (existsb (fun p => (fst p =? c) && (snd p =? i)) bad).

(* ---------------------------------------------------------------- actions *)
Inductive jobkind := JImport | JTag | JConvert | JMerge.

Inductive action :=
| AImport (files : list N)
| AAddTag (n : N) (d : defn) (ids : N)       (* ids: StreamIDs(nextStreamID) of a mark definition *)
| ADelTag (n : N)
| AQuery (n : N) (d : defn)
| AMarkAdd (n : N) (ids : list N) (did : N)  (* did: identity of the rewritten definition *)
| AMarkDel (n : N) (ids : list N) (did : N)
| ASetConv (n : N) (cs : list N)
| ABodyImport (r : iresp)
| ABodyTag (truth : list (N * N))            (* per tag: ids on which its definition holds in the job's snapshot *)
| ABodyConvert (bad : list (N * N))             (* (converter, stream) pairs whose conversion fails (twice): discarded *)
| ABodyMerge
| AComplete (k : jobkind)
| AViewOpen (v : N)
| AViewData (v : N) (c : N) (i : N)
| AViewClose (v : N).

Definition lookupN (n : N) (l : list (N * N)) : N :=
  match find (fun p => fst p =? n) l with Some p => snd p | None => 0 end.

Definition referenced (n : N) (ts : tags_t) : bool :=
  existsb (fun nt => memN n (d_refs (t_def (snd nt)))) ts.

Definition maxl (l : list N) : N := fold_left N.max l 0.

Definition with_def_id (d : defn) (i : N) : defn :=
  mkDef i (d_idonly d) (d_sub d) (d_datatime d) (d_data d) (d_main d) (d_subt d) (d_mark d).

Definition bump (v : N -> N) (s : N) : N -> N := fun i => if mem i s then v i + 1 else v i.

Definition data_tags_uncertain (s : N) (ts : tags_t) : tags_t :=
  map (fun nt => let t := snd nt in
                 (fst nt, if d_data (t_def t) then mkTag0 (t_def t) (t_m t) (union (t_u t) s) (t_conv t) (t_live t) else t)) ts.

Definition queue_matches (st : state) (cs : list N) (m : N) : state :=
  set_toconv st (fun c => if memN c cs then union (toconv st c) m else toconv st c).

(* detachConverterFromTag resets the converter (drops its whole cache) when no OTHER tag that keeps it matches a stream *)
Definition conv_matching (st : state) (n c : N) : N :=
  fold_left (fun a nt => if negb (fst nt =? n) && tag_has_conv c (snd nt) then union a (t_m (snd nt)) else a) (tags st) 0.

Definition has_data_tag (ts : tags_t) : bool := existsb (fun nt => t_live (snd nt) && d_data (t_def (snd nt))) ts.

(* every tag with a data filter is evaluated again for the streams s (their output appeared / is gone) *)
Definition reopen_data (st : state) (s : N) : state :=
  set_masks (set_tags st (inherit (all st) (data_tags_uncertain s (tags st)))) (union (m_upd st) s) (m_rst st) (m_add st).

(* repaired: a detach that reset a converter re-opens the data tags for all streams; the API call ends with
   startTaggingJobIfNeeded *)
Definition after_detach (k : kf) (reset : bool) (st : state) : state :=
  if kf_detachreset k then st
  else if reset && has_data_tag (tags st) then reopen_data st (all st) else st.

Definition tag_again (k : kf) (pick : N) (st : state) : state :=
  if kf_detachreset k then st else start_tagging pick st.

(* referenced tags exist and have a smaller name (Go: exist, no self reference, no cycle) *)
Definition refs_ok (n : N) (d : defn) (ts : tags_t) : bool :=
  forallb (fun r => (r <? n) && match tget r ts with Some _ => true | None => false end) (d_refs d).

Definition step (k : kf) (pick : N) (a : action) (st : state) : state :=
  match a with
  | AImport files =>
    match files with
    | [] => st
    | _ =>
      let st1 := set_queue st (queue st ++ files) in
      if Nat.eqb (length (queue st1)) (length files)
      then set_jimp st1 (Some (mkImp (length files) None)) else st1
    end
  | AAddTag n d ids =>
    match tget n (tags st) with
    | Some _ => st
    | None =>
      if refs_ok n d (tags st) then
        if d_mark d then set_tags st (tset n (mkTag d ids 0 []) (tags st))
        else start_tagging pick (set_tags st (tset n (mkTag d 0 (all st) []) (tags st)))
      else st
    end
  | ADelTag n =>
    match tget n (tags st) with
    | None => st
    | Some t =>
      if referenced n (tags st) then st
      else
        let st1 := fold_left (fun s c => detach s n c) (t_conv t) st in
        let st2 := after_detach k (existsb (fun c => is0 (conv_matching st n c)) (t_conv t)) st1 in
        tag_again k pick (set_tags st2 (tdel n (tags st2)))
    end
  | AQuery n d =>
    match tget n (tags st) with
    | None => st
    | Some t =>
      (* UpdateTag rejects a data / tag-referencing query on a tag that keeps converters: nothing is changed *)
      if complex d && negb (match t_conv t with [] => true | _ => false end) then st
      else
      if refs_ok n d (tags st) then
        let st1 := set_tags st (inherit (all st) (tset n (mkTag d 0 (all st) (t_conv t)) (tags st))) in
        start_converter (start_tagging pick st1)
      else st
    end
  | AMarkAdd n ids did =>
    match tget n (tags st), ids with
    | None, _ => st
    | _, [] => st
    | Some t, _ =>
      let mx := maxl ids in
      if next st <=? mx then st              (* unknown stream id *)
      else
        let new := filter (fun s => negb (mem s (t_m t))) ids in
        let newset := fold_left (fun a s => add1 s a) new 0 in
        let d' := match new with [] => t_def t | _ => with_def_id (t_def t) did end in
        let t' := mkTag d' (union (t_m t) newset) (union (t_u t) newset) (t_conv t) in
        let st1 := queue_matches st (t_conv t) newset in
        let ts1 := inherit (all st) (tset n t' (tags st1)) in
        let ts2 := match tget n ts1 with Some x => tset n (mkTag (t_def x) (t_m x) 0 (t_conv x)) ts1 | None => ts1 end in
        start_converter (start_tagging pick (set_tags st1 ts2))
    end
  | AMarkDel n ids did =>
    match tget n (tags st), ids with
    | None, _ => st
    | _, [] => st
    | Some t, _ =>
      let mx := maxl ids in
      if next st <=? mx then st
      else
        let old := filter (fun s => mem s (t_m t)) ids in
        let oldset := fold_left (fun a s => add1 s a) old 0 in
        let t' := mkTag (with_def_id (t_def t) did) (diff (t_m t) oldset) (union (t_u t) oldset) (t_conv t) in
        let ts1 := inherit (all st) (tset n t' (tags st)) in
        let ts2 := match tget n ts1 with Some x => tset n (mkTag (t_def x) (t_m x) 0 (t_conv x)) ts1 | None => ts1 end in
        start_converter (start_tagging pick (set_tags st ts2))
    end
  | ASetConv n cs =>
    match tget n (tags st) with
    | None => st
    | Some t =>
      (* the request is validated before anything is changed *)
      if forallb (fun c => tag_has_conv c t || (memN c (convs st) && negb (complex (t_def t)))) cs then
        let st1 := fold_left (fun s c => if memN c cs then s else detach s n c) (t_conv t) st in
        let st2 := after_detach k (existsb (fun c => negb (memN c cs) && is0 (conv_matching st n c)) (t_conv t)) st1 in
        (* after the validation no attach can fail (Go returns before startConverterJobIfNeeded only on such an error) *)
        start_converter (tag_again k pick (fst (attach_all st2 n cs)))
      else st
    end
  | ABodyImport r =>
    match jimp st with
    | Some j => match ij_resp j with None => set_jimp st (Some (mkImp (ij_files j) (Some r))) | Some _ => st end
    | None => st
    end
  | ABodyTag truth =>
    match jtag st with
    | Some j =>
      match tj_res j with
      | Some _ => st
      | None =>
        let res := inter (tj_u j) (lookupN (tj_name j) truth) in
        set_jtag st (Some (mkTj (tj_name j) (tj_def j) (tj_m j) (tj_u j) (tj_conv j) (tj_snap j) (tj_hist j)
                                (Some (union (diff (tj_m j) (tj_u j)) res))))
      end
    | None => st
    end
  | ABodyConvert bad =>
    match jconv st with
    | Some j =>
      if cj_done j then st else
      (* per (converter, stream): alreadyCached -> dropped from the set; else converted at the snapshot version *)
      (* a stream that is in no index of the snapshot, or whose conversion fails (Converter.Data returns an error: the
         process is killed), fails twice and is discarded (the unrepaired code waited forever for a missing stream) *)
      let sets' := map (fun cs => (fst cs, fold_left (fun a i => match cache st (fst cs) i with
                                                                 | Some _ => a
                                                                 | None => if conv_ok bad (cj_next j) (fst cs) i then add1 i a else a end)
                                                      (elems (snd cs)) 0)) (cj_sets j) in
      let cache' := fun c i => match cache st c i with
                               | Some v => Some v
                               | None => if mem i (lookupN c sets') then Some (cj_ver j i) else None
                               end in
      set_jconv (set_cache st cache') (Some (mkCj sets' (cj_ver j) (cj_next j) true))
    | None => st
    end
  | ABodyMerge =>
    match jmerge st with
    | Some j => match mj_res j with
                | Some _ => st
                | None => set_jmerge st (Some (mkMj (mj_off j) (mj_idx j) (Some [fold_left union (mj_idx j) 0])))
                end
    | None => st
    end
  | AComplete JImport =>
    match jimp st with
    | Some (mkImp nf (Some r)) =>
      let st0 := set_jimp st None in
      let st1 :=
        match ir_idx r with
        | [] => st0
        | _ =>
          let allS := ones (ir_next r) in
          let sA := mkSt (ir_next r) (invalidate_tags k allS (ir_upd r) (ir_rst r) (ir_add r) (tags st0))
                         (union (m_upd st0) (ir_upd r)) (union (m_rst st0) (ir_rst r)) (union (m_add st0) (ir_add r))
                         (if kf_inflight k then m_cupd st0 else union (m_cupd st0) (union (ir_upd r) (ir_rst r)))
                         (queue st0) (convs st0) (toconv st0) (cache st0)
                         (bump (ver st0) (union (union (ir_upd r) (ir_rst r)) (ir_add r)))
                         (idx st0 ++ ir_idx r) (unmerge st0) None (jtag st0) (jconv st0) (jmerge st0)
                         (r :: hist st0) (views st0) in
          invalidate_converters sA (if kf_reset k then ir_upd r else union (ir_upd r) (ir_rst r))
        end in
      let q := skipn (ir_proc r) (queue st1) in
      let st2 := set_queue st1 q in
      let st3 := match q with [] => st2 | _ => set_jimp st2 (Some (mkImp (length q) None)) end in
      start_merge (start_converter (start_tagging pick st3))
    | _ => st
    end
  | AComplete JTag =>
    match jtag st with
    | Some (mkTj n d m0 u0 cv snap h (Some res)) =>
      let st0 := set_jtag st None in
      let st1 :=
        match tget n (tags st0) with
        | Some ot =>
          if defn_eqb (t_def ot) d then
            let stq := queue_matches st0 (t_conv ot) res in
            (* repaired: streams on which a referenced tag changed since the snapshot stay uncertain *)
            let u1 := if kf_inherit k then 0 else
                        if existsb (fun r => negb (is0 (sxor (tm r (tags st0)) (lookupN r snap)))) (d_subt d) then all st0
                        else fold_left (fun a r => union a (sxor (tm r (tags st0)) (lookupN r snap))) (d_main d) 0 in
            let ts1 := tset n (mkTag d res u1 (t_conv ot)) (tags stq) in
            let dirty := negb (is0 (m_upd st0) && is0 (m_rst st0) && is0 (m_add st0)) in
            let ts2 := if dirty then invalidate_tags k (all st0) (m_upd st0) (m_rst st0) (m_add st0) ts1
                       else if kf_inherit k then ts1 else inherit (all st0) ts1 in
            set_tags stq ts2
          else st0
        | None => st0
        end in
      start_merge (start_converter (start_tagging pick st1))
    | _ => st
    end
  | AComplete JConvert =>
    match jconv st with
    | Some (mkCj sets v _ true) =>
      let st0 := set_jconv st None in
      (* repaired: output of streams that changed while the job ran is dropped and queued again *)
      let st0' := if kf_inflight k then st0 else invalidate_converters st0 (m_cupd st0) in
      let s := fold_left (fun a cs => union a (snd cs)) sets 0 in
      let ts := inherit (all st0') (data_tags_uncertain s (tags st0')) in
      let st1 := set_masks (set_tags st0' ts) (union (m_upd st0') s) (m_rst st0') (m_add st0') in
      let st2 := start_converter (start_tagging pick st1) in
      if kf_mergeconv k then st2 else start_merge st2
    | _ => st
    end
  | AComplete JMerge =>
    match jmerge st with
    | Some (mkMj off snap (Some merged)) =>
      let l := firstn off (idx st) ++ merged ++ skipn (off + length snap) (idx st) in
      start_merge (set_jmerge (set_idx st l (unmerge st + (length merged - 1))) None)
    | _ => st
    end
  | AViewOpen v => set_views st ((v, ver st) :: filter (fun p => negb (fst p =? v)) (views st))
  | AViewData v c i =>
    match find (fun p => fst p =? v) (views st) with
    | Some (_, sv) =>
      match cache st c i with
      | Some _ => st
      | None =>
        if negb (i <? next st) || negb (memN c (convs st)) then st else
        if kf_viewstore k || (sv i =? ver st i)
        then set_cache st (fun c' i' => if (c' =? c) && (i' =? i) then Some (sv i) else cache st c' i')
        else (* repaired: the posted closure calls invalidateConverters({i}): the stored output of the old version is
                dropped and queued again -- and so is the output of stream i in every other converter's cache *)
          let st2 := invalidate_converters st (add1 i 0) in
          start_converter (set_toconv st2 (fupd (toconv st2) c (add1 i (toconv st2 c))))
      end
    | None => st
    end
  | AViewClose v => set_views st (filter (fun p => negb (fst p =? v)) (views st))
  end.

Definition run (k : kf) (l : list (N * action)) (st : state) : state :=
  fold_left (fun s pa => step k (fst pa) (snd pa) s) l st.
