(* Model of internal/index/udpreassembly/udpreassembly.go (pkappa2's own UDP "reassembler") -- C05/C08.
   Definitions only; theorems in UdpProofs.v.

   connections map[uint64][]connection  -> association list hash -> bucket ([ubuckets]); Go's map
                                           iteration order is irrelevant (flush treats buckets independently)
   FastHash of the addresses            -> Section variable [hashf]: the theorems hold for EVERY hash
                                           function (all flows in one bucket, or all apart)
   FlushCloseOlderThan(ts - 5min)       -> [udp_flush] with the packet time [ts]
   AssembleWithContext                  -> [udp_assemble] *)
From Pk Require Export Attrib.

Definition timeout : N := 300000000.                 (* streams.InactivityTimeout = 5 min, in microseconds *)

(* c.lastActivity.Before(ts.Add(-5min)) *)
Definition expired (ts last : N) : bool := last + timeout <? ts.

Definition ep_eqb (a b : endpoint) : bool := (fst a =? fst b) && (snd a =? snd b).

Record uconn := mkUconn { uc_last : N; uc_sid : nat }.    (* stream = index into the factory *)
Definition ubuckets := list (N * list uconn).

Fixpoint bucket_get (m : ubuckets) (h : N) : option (list uconn) :=
  match m with
  | [] => None
  | (k, cs) :: r => if k =? h then Some cs else bucket_get r h
  end.

Fixpoint bucket_set (m : ubuckets) (h : N) (cs : list uconn) : ubuckets :=
  match m with
  | [] => [(h, cs)]
  | (k, c0) :: r => if k =? h then (k, cs) :: r else (k, c0) :: bucket_set r h cs
  end.

(* the inner loop of FlushCloseOlderThan over one bucket *)
Fixpoint flush_bucket (fac : factory) (ts : N) (cs : list uconn) : factory * list uconn :=
  match cs with
  | [] => (fac, [])
  | c :: r =>
    if expired ts (uc_last c) then flush_bucket (upd_nth fac (uc_sid c) set_complete) ts r
    else let '(fac', r') := flush_bucket fac ts r in (fac', c :: r')
  end.

Fixpoint udp_flush (fac : factory) (m : ubuckets) (ts : N) : factory * ubuckets :=
  match m with
  | [] => (fac, [])
  | (h, cs) :: r =>
    let '(fac1, cs') := flush_bucket fac ts cs in
    let '(fac2, r') := udp_flush fac1 r ts in
    match cs' with
    | [] => (fac2, r')                               (* delete(a.connections, h) *)
    | _ => (fac2, (h, cs') :: r')
    end
  end.

(* the `for i, c := range cs` search: position in the bucket, stream index, direction (true = server to client) *)
Fixpoint find_conn (fac : factory) (cs : list uconn) (pos : nat) (a b : endpoint) : option (nat * nat * bool) :=
  match cs with
  | [] => None
  | c :: r =>
    match nth_error fac (uc_sid c) with
    | None => find_conn fac r (S pos) a b
    | Some s =>
      let aIsClient := ep_eqb (s_client s) a in
      let aIsServer := ep_eqb (s_server s) a in
      let bIsClient := ep_eqb (s_client s) b in
      let bIsServer := ep_eqb (s_server s) b in
      let isC2S := aIsClient && bIsServer in
      let isS2C := bIsClient && aIsServer in
      if Bool.eqb isC2S isS2C then find_conn fac r (S pos) a b
      else Some (pos, uc_sid c, aIsServer)
    end
  end.

Section Udp.
  Variable hashf : N -> N.

  Definition udp_hash (p : packet) : N :=
    N.lxor (N.lxor (hashf (fst (p_src p))) (hashf (fst (p_dst p)))) (N.lxor (snd (p_src p)) (snd (p_dst p))).

  Definition udp_assemble (fac : factory) (m : ubuckets) (p : packet) : factory * ubuckets :=
    let h := udp_hash p in
    let cs := match bucket_get m h with Some cs => cs | None => [] end in
    match find_conn fac cs O (p_src p) (p_dst p) with
    | Some (pos, sid, dir) =>
        (upd_nth fac sid (fun s => add_udp_packet s (pref_of p) dir (p_data p)),
         bucket_set m h (upd_nth cs pos (fun c => mkUconn (p_ts p) (uc_sid c))))
    | None =>
        let sid := length fac in
        (fac ++ [add_udp_packet (new_stream false (p_src p) (p_dst p)) (pref_of p) false (p_data p)],
         bucket_set m h (cs ++ [mkUconn (p_ts p) sid]))
    end.

  (* what builder.go does for one UDP packet: flush, then assemble *)
  Definition udp_step (st : factory * ubuckets) (p : packet) : factory * ubuckets :=
    let '(fac1, m1) := udp_flush (fst st) (snd st) (p_ts p) in
    udp_assemble fac1 m1 p.

  Definition udp_run (l : list packet) : factory * ubuckets := fold_left udp_step l ([], []).
End Udp.

(* ---------------------------------------------------------------------------------------------
   Specification side: what ONE flow (unordered endpoint pair) turns into, computed from the
   packets of that flow alone: a new stream starts with the first packet and whenever the gap
   to the previous packet of the flow exceeds the timeout; the sender of the first packet of a
   run is its client.  *)
Definition same_flow (a b : endpoint) (p : packet) : bool :=
  (ep_eqb (p_src p) a && ep_eqb (p_dst p) b) || (ep_eqb (p_src p) b && ep_eqb (p_dst p) a).

Fixpoint flow_runs (cur : option (stream * N)) (l : list packet) : list stream :=
  match l with
  | [] => match cur with Some (s, _) => [s] | None => [] end
  | p :: r =>
    match cur with
    | Some (s, last) =>
      if expired (p_ts p) last then
        set_complete s :: flow_runs (Some (add_udp_packet (new_stream false (p_src p) (p_dst p)) (pref_of p) false (p_data p), p_ts p)) r
      else
        flow_runs (Some (add_udp_packet s (pref_of p) (ep_eqb (s_server s) (p_src p)) (p_data p), p_ts p)) r
    | None =>
        flow_runs (Some (add_udp_packet (new_stream false (p_src p) (p_dst p)) (pref_of p) false (p_data p), p_ts p)) r
    end
  end.
