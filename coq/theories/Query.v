(* Query.v -- executable model of internal/query/conditions.go (normal form of a query) and the
   reference semantics of query expressions. Definitions only; proofs in QueryProofs.v / QueryTotal.v.

   The model follows the code AFTER the patches fixes/C03-*.patch and fixes/C14-*.patch (notes/C03.md).
   Strings reach the model as order-preserving ranks (N): sub-query names (0 = the stream itself),
   tag names, data elements (direction+regex+converter). int / time.Duration are unbounded Z.
   Flag conditions are modelled for masks inside the protocol bits (the only ones Parse produces). *)
From Coq Require Import List NArith ZArith Bool.
Import ListNotations.
Open Scope Z_scope.

(* ------------------------------------------------------------------ generic helpers *)

Fixpoint lex_leb (a b : list Z) : bool :=
  match a, b with
  | [], _ => true
  | _ :: _, [] => false
  | x :: a', y :: b' => if x <? y then true else if y <? x then false else lex_leb a' b'
  end.

Fixpoint list_eqb {A} (eqb : A -> A -> bool) (a b : list A) : bool :=
  match a, b with
  | [], [] => true
  | x :: a', y :: b' => eqb x y && list_eqb eqb a' b'
  | _, _ => false
  end.

Section Sort.
  Context {A : Type} (key : A -> list Z).
  Fixpoint insert (x : A) (l : list A) : list A :=
    match l with
    | [] => [x]
    | y :: r => if lex_leb (key x) (key y) then x :: y :: r else y :: insert x r
    end.
  Fixpoint isort (l : list A) : list A :=
    match l with [] => [] | x :: r => insert x (isort r) end.
End Sort.

Definition zN (n : N) : Z := Z.of_N n.
Definition zlen {A} (l : list A) : Z := Z.of_nat (length l).
Definition bytes_key (l : list N) : list Z := map (fun b => zN b + 1) l ++ [0].
Definition zb (b : bool) : Z := if b then 1 else 0.

(* ------------------------------------------------------------------ conditions *)

Record tagc := mkTag { t_sub : N; t_name : N; t_acc : N }.
Record flagc := mkFlag { f_subs : list N; f_val : N; f_mask : N }.
Record hsrc := mkSrc { hs_sub : N; hs_srv : bool }.
Record hostc := mkHost { h_srcs : list hsrc; h_host : list N; h_m4 : list N; h_m6 : list N; h_inv : bool }.
Record nsum := mkNs { ns_sub : N; ns_ty : N; ns_fac : Z }.
Record numc := mkNum { n_sums : list nsum; n_num : Z }.
Record tsum := mkTs { ts_sub : N; ts_f : Z; ts_l : Z }.
Record timec := mkTime { tm_sums : list tsum; tm_dur : Z; tm_ref : Z }.
Record datac := mkData { d_el : list N; d_inv : bool }.

Inductive cond :=
| CTag (c : tagc) | CFlag (c : flagc) | CHost (c : hostc) | CNum (c : numc) | CTime (c : timec)
| CData (c : datac) | CImp.

Definition conj := list cond.
Definition cset := list conj.

(* ---- structural equality (Condition.equal) *)
Definition tag_eqb (a b : tagc) := N.eqb (t_sub a) (t_sub b) && N.eqb (t_name a) (t_name b) && N.eqb (t_acc a) (t_acc b).
Definition flag_eqb (a b : flagc) := list_eqb N.eqb (f_subs a) (f_subs b) && N.eqb (f_val a) (f_val b) && N.eqb (f_mask a) (f_mask b).
Definition src_eqb (a b : hsrc) := N.eqb (hs_sub a) (hs_sub b) && Bool.eqb (hs_srv a) (hs_srv b).
Definition host_eqb (a b : hostc) :=
  list_eqb src_eqb (h_srcs a) (h_srcs b) && list_eqb N.eqb (h_host a) (h_host b) &&
  list_eqb N.eqb (h_m4 a) (h_m4 b) && list_eqb N.eqb (h_m6 a) (h_m6 b) && Bool.eqb (h_inv a) (h_inv b).
Definition nsum_eqb (a b : nsum) := N.eqb (ns_sub a) (ns_sub b) && N.eqb (ns_ty a) (ns_ty b) && Z.eqb (ns_fac a) (ns_fac b).
Definition num_eqb (a b : numc) := list_eqb nsum_eqb (n_sums a) (n_sums b) && Z.eqb (n_num a) (n_num b).
Definition tsum_eqb (a b : tsum) := N.eqb (ts_sub a) (ts_sub b) && Z.eqb (ts_f a) (ts_f b) && Z.eqb (ts_l a) (ts_l b).
Definition time_eqb (a b : timec) := list_eqb tsum_eqb (tm_sums a) (tm_sums b) && Z.eqb (tm_dur a) (tm_dur b) && Z.eqb (tm_ref a) (tm_ref b).
Definition data_eqb (a b : datac) := list_eqb N.eqb (d_el a) (d_el b) && Bool.eqb (d_inv a) (d_inv b).
Definition cond_eqb (a b : cond) : bool :=
  match a, b with
  | CTag x, CTag y => tag_eqb x y | CFlag x, CFlag y => flag_eqb x y | CHost x, CHost y => host_eqb x y
  | CNum x, CNum y => num_eqb x y | CTime x, CTime y => time_eqb x y | CData x, CData y => data_eqb x y
  | CImp, CImp => true | _, _ => false
  end.
Definition conj_eqb : conj -> conj -> bool := list_eqb cond_eqb.

(* ------------------------------------------------------------------ valuations and evaluation *)

Record stream := mkStream {
  s_num : N -> Z;          (* by summand type: 0 id, 1 cbytes, 2 sbytes, 3 cport, 4 sport *)
  s_ftime : Z; s_ltime : Z;
  s_flags : N;
  s_chost : list N; s_shost : list N;
  s_tag : N -> N           (* state of a tag: 1 matching, 2 failing, 4 uncertain+matching, 8 uncertain+failing *)
}.
Record valuation := mkVal {
  v_str : N -> stream;               (* one stream per sub-query name *)
  v_nxt : N -> N -> option N;        (* payload oracle: element, position -> position behind its next match *)
  v_start : N                        (* payload position at which matching starts (0 for a whole stream) *)
}.
(* the same stream(s), matched from position p *)
Definition at_pos (v : valuation) (p : N) : valuation := mkVal (v_str v) (v_nxt v) p.

Definition is_some {A} (o : option A) : bool := match o with Some _ => true | None => false end.

Definition eval_tag (v : valuation) (c : tagc) : bool :=
  negb (N.eqb (N.land (t_acc c) (s_tag (v_str v (t_sub c)) (t_name c))) 0).

Definition flags_xor (v : valuation) (subs : list N) : N :=
  fold_left (fun x s => N.lxor x (s_flags (v_str v s))) subs 0%N.
Definition eval_flag (v : valuation) (c : flagc) : bool :=
  negb (N.eqb (N.land (N.lxor (flags_xor v (f_subs c)) (f_val c)) (f_mask c)) 0).

Definition src_host (v : valuation) (s : hsrc) : list N :=
  if hs_srv s then s_shost (v_str v (hs_sub s)) else s_chost (v_str v (hs_sub s)).
Fixpoint xor_bytes (a b : list N) : list N :=
  match a, b with x :: a', y :: b' => N.lxor x y :: xor_bytes a' b' | _, _ => [] end.
Fixpoint masked_zero (h m : list N) : bool :=
  match h, m with
  | x :: h', y :: m' => N.eqb (N.land x y) 0 && masked_zero h' m'
  | _, _ => true
  end.
(* None: two addresses of different families met *)
Fixpoint host_fold (v : valuation) (h : option (list N)) (srcs : list hsrc) : option (option (list N)) :=
  match srcs with
  | [] => Some h
  | s :: r =>
      let o := src_host v s in
      match h with
      | None => host_fold v (Some o) r
      | Some hh => if Nat.eqb (length hh) (length o) then host_fold v (Some (xor_bytes hh o)) r else None
      end
  end.
Definition eval_host (v : valuation) (c : hostc) : bool :=
  let h0 := match h_host c with [] => None | _ => Some (h_host c) end in
  match host_fold v h0 (h_srcs c) with
  | None => h_inv c
  | Some None => negb (h_inv c)
  | Some (Some h) =>
      let m := if Nat.eqb (length h) 16 then h_m6 c else h_m4 c in
      negb (Bool.eqb (masked_zero h m) (h_inv c))
  end.

Definition num_value (v : valuation) (c : numc) : Z :=
  fold_left (fun x s => x + ns_fac s * s_num (v_str v (ns_sub s)) (ns_ty s)) (n_sums c) (n_num c).
Definition eval_num (v : valuation) (c : numc) : bool := 0 <=? num_value v c.

Definition time_value (v : valuation) (c : timec) : Z :=
  fold_left (fun x s => x + ts_f s * s_ftime (v_str v (ts_sub s)) + ts_l s * s_ltime (v_str v (ts_sub s))) (tm_sums c) (tm_dur c).
Definition eval_time (v : valuation) (c : timec) : bool := 0 <=? time_value v c.

(* a sequence, matched from position p; inv: the last element must NOT match *)
Fixpoint eval_chain (nxt : N -> N -> option N) (els : list N) (inv : bool) (p : N) : bool :=
  match els with
  | [] => true
  | e :: r =>
      match r with
      | [] => if inv then negb (is_some (nxt e p)) else is_some (nxt e p)
      | _ => match nxt e p with Some q => eval_chain nxt r inv q | None => false end
      end
  end.
Definition eval_data (v : valuation) (c : datac) : bool := eval_chain (v_nxt v) (d_el c) (d_inv c) (v_start v).

Definition eval_cond (v : valuation) (c : cond) : bool :=
  match c with
  | CTag x => eval_tag v x | CFlag x => eval_flag v x | CHost x => eval_host v x
  | CNum x => eval_num v x | CTime x => eval_time v x | CData x => eval_data v x
  | CImp => false
  end.
Definition eval_conj (v : valuation) (c : conj) : bool := forallb (eval_cond v) c.
Definition eval_set (v : valuation) (cs : cset) : bool := existsb (eval_conj v) cs.

(* ------------------------------------------------------------------ Condition.invert *)

Definition proto_vals : list N := [3; 2; 1; 0]%N.   (* all values of the modelled flag bits, descending *)
Definition submasks (mask : N) : list N := filter (fun x => N.eqb (N.land x mask) x) proto_vals.

(* FlagCondition.invert: v--, v &= mask, until back at the start *)
Definition flag_invert (c : flagc) : conj :=
  let start := N.land (f_val c) (f_mask c) in
  let subs := submasks (f_mask c) in
  map (fun x => CFlag (mkFlag (f_subs c) x (f_mask c)))
      (filter (fun x => N.ltb x start) subs ++ filter (fun x => N.ltb start x) subs).

Fixpoint prefixes {A} (l : list A) : list (list A) :=
  match l with
  | [] => []
  | x :: r => [x] :: map (cons x) (prefixes r)
  end.

(* !(a > b > c) = !a | a > !b | a > b > !c ;  !(a > b > !c) = !a | a > !b | a > b > c *)
Definition data_invert (c : datac) : cset :=
  let n := length (d_el c) in
  map (fun pre => [CData (mkData pre (if Nat.eqb (length pre) n then negb (d_inv c) else true))]) (prefixes (d_el c)).

Definition cond_invert (c : cond) : cset :=
  match c with
  | CTag x => [[CTag (mkTag (t_sub x) (t_name x) (N.lxor (t_acc x) 15))]]
  | CFlag x => [flag_invert x]
  | CHost x => [[CHost (mkHost (h_srcs x) (h_host x) (h_m4 x) (h_m6 x) (negb (h_inv x)))]]
  | CNum x => [[CNum (mkNum (map (fun s => mkNs (ns_sub s) (ns_ty s) (- ns_fac s)) (n_sums x)) (- n_num x - 1))]]
  | CTime x => [[CTime (mkTime (map (fun s => mkTs (ts_sub s) (- ts_f s) (- ts_l s)) (tm_sums x)) (- tm_dur x - 1) (- tm_ref x))]]
  | CData x => data_invert x
  | CImp => [[]]                                    (* fixes/C03-not-of-empty-conjunct *)
  end.

(* ------------------------------------------------------------------ clean* *)

(* -- tags: map (sub, name) -> intersection of the accept masks *)
Fixpoint tag_ins (c : tagc) (m : list tagc) : list tagc :=
  match m with
  | [] => [c]
  | d :: r => if N.eqb (t_sub c) (t_sub d) && N.eqb (t_name c) (t_name d)
              then mkTag (t_sub d) (t_name d) (N.land (t_acc d) (t_acc c)) :: r
              else d :: tag_ins c r
  end.
Definition tag_key (c : tagc) : list Z := [zN (t_sub c); zN (t_name c)].
Definition clean_tag (l : list tagc) : option (list tagc) :=
  let m := fold_left (fun m c => tag_ins c m) l [] in
  if existsb (fun c => N.eqb (t_acc c) 0) m then None else Some (isort tag_key m).

(* -- flags *)
Definition subs_key (l : list N) : list Z := map zN l.
(* SubQueries sorted, equal neighbours cancel *)
Fixpoint subs_cancel (l : list N) : list N :=
  match l with
  | a :: (b :: r) as t => if N.eqb a b then subs_cancel r else a :: subs_cancel t
  | _ => l
  end.
Definition nsort (l : list N) : list N := isort (fun x => [zN x]) l.
(* forbidden value table of one condition, indexed by the values of the modelled bits *)
Definition forb_of (c : flagc) (x : N) : bool := N.eqb (N.land x (f_mask c)) (f_val c).
Record finfo := mkInfo { fi_subs : list N; fi_forb : N -> bool }.
Fixpoint info_ins (subs : list N) (f : N -> bool) (m : list finfo) : list finfo :=
  match m with
  | [] => [mkInfo subs f]
  | d :: r => if list_eqb N.eqb subs (fi_subs d)
              then mkInfo (fi_subs d) (fun x => fi_forb d x || f x) :: r
              else d :: info_ins subs f r
  end.
Definition bit_relevant (f : N -> bool) (m : N) : bool :=
  existsb (fun x => N.eqb (N.land x m) 0 && negb (Bool.eqb (f x) (f (N.lxor x m)))) proto_vals.
Definition info_mask (f : N -> bool) : N :=
  ((if bit_relevant f 1 then 1 else 0) + (if bit_relevant f 2 then 2 else 0))%N.
Definition flag_key (c : flagc) : list Z := zlen (f_subs c) :: subs_key (f_subs c) ++ [zN (f_mask c); zN (f_val c)].
(* first pass: None = impossible *)
Fixpoint flag_collect (l : list flagc) (m : list finfo) : option (list finfo) :=
  match l with
  | [] => Some m
  | c :: r =>
      let subs := subs_cancel (nsort (f_subs c)) in
      match subs with
      | [] => if N.eqb (N.land (f_val c) (f_mask c)) 0 then None else flag_collect r m
      | _ => flag_collect r (info_ins subs (forb_of c) m)
      end
  end.
Fixpoint flag_emit (m : list finfo) : option (list flagc) :=
  match m with
  | [] => Some []
  | d :: r =>
      let mask := info_mask (fi_forb d) in
      if N.eqb mask 0
      then (if fi_forb d 0%N then None else flag_emit r)
      else match flag_emit r with
           | None => None
           | Some out => Some (map (fun x => mkFlag (fi_subs d) x mask) (filter (fi_forb d) (submasks mask)) ++ out)
           end
  end.
Definition clean_flag (l : list flagc) : option (list flagc) :=
  match l with
  | [] => Some []
  | _ => match flag_collect l [] with
         | None => None
         | Some m => match flag_emit m with None => None | Some out => Some (isort flag_key out) end
         end
  end.

(* -- hosts *)
Definition src_key (s : hsrc) : list Z := [zN (hs_sub s); zb (hs_srv s)].
(* the loop of cleanHostConditions: equal neighbours are removed, the element behind them is skipped *)
Fixpoint src_cancel_go (a : hsrc) (rest : list hsrc) : list hsrc :=
  match rest with
  | [] => [a]
  | b :: r =>
      if src_eqb a b
      then match r with
           | [] => []
           | c :: r' => match r' with [] => [c] | d :: r'' => c :: src_cancel_go d r'' end
           end
      else a :: src_cancel_go b r
  end.
Definition src_cancel (l : list hsrc) : list hsrc :=
  match l with [] => [] | a :: r => src_cancel_go a r end.
Fixpoint land_bytes (h m : list N) : list N :=
  match h, m with x :: h', y :: m' => N.land x y :: land_bytes h' m' | _, _ => [] end.
Definition host_mask_self (c : hostc) : list N :=
  if Nat.eqb (length (h_host c)) 4 then land_bytes (h_host c) (h_m4 c)
  else if Nat.eqb (length (h_host c)) 16 then land_bytes (h_host c) (h_m6 c)
  else h_host c.
Definition zero_host (c : hostc) : bool :=
  if Nat.eqb (length (h_host c)) 4 || Nat.eqb (length (h_host c)) 16
  then forallb (fun x => N.eqb x 0) (host_mask_self c) else true.
Definition host_key (c : hostc) : list Z :=
  zlen (h_srcs c) :: flat_map src_key (h_srcs c) ++ bytes_key (h_host c) ++ bytes_key (h_m4 c) ++ bytes_key (h_m6 c) ++ [zb (h_inv c)].
Definition host_same (a b : hostc) : bool :=
  list_eqb src_eqb (h_srcs a) (h_srcs b) && list_eqb N.eqb (h_host a) (h_host b) &&
  list_eqb N.eqb (h_m4 a) (h_m4 b) && list_eqb N.eqb (h_m6 a) (h_m6 b).
Fixpoint host_norm (l : list hostc) : option (list hostc) :=
  match l with
  | [] => Some []
  | c :: r =>
      let srcs := src_cancel (isort src_key (h_srcs c)) in
      let host := host_mask_self c in
      let c' := mkHost srcs host (h_m4 c) (h_m6 c) (h_inv c) in
      match srcs with
      | [] => if Bool.eqb (zero_host c) (h_inv c) then None else host_norm r
      | _ => match host_norm r with None => None | Some out => Some (c' :: out) end
      end
  end.
Fixpoint host_dedupe (a : hostc) (rest : list hostc) : option (list hostc) :=
  match rest with
  | [] => Some [a]
  | b :: r =>
      if host_same a b
      then (if Bool.eqb (h_inv a) (h_inv b) then host_dedupe b r else None)
      else match host_dedupe b r with None => None | Some out => Some (a :: out) end
  end.
Definition clean_host (l : list hostc) : option (list hostc) :=
  match host_norm l with
  | None => None
  | Some l1 => match isort host_key l1 with [] => Some [] | a :: r => host_dedupe a r end
  end.

(* -- numbers *)
Definition nsum_key (s : nsum) : list Z := [zN (ns_sub s); zN (ns_ty s)].
Definition nsum_same (a b : nsum) : bool := N.eqb (ns_sub a) (ns_sub b) && N.eqb (ns_ty a) (ns_ty b).
(* merge loop: equal keys add up, a zero factor in front of a different key is dropped *)
Fixpoint nsum_merge (a : nsum) (rest : list nsum) : list nsum :=
  match rest with
  | [] => [a]
  | b :: r =>
      if nsum_same a b then nsum_merge (mkNs (ns_sub a) (ns_ty a) (ns_fac a + ns_fac b)) r
      else if Z.eqb (ns_fac a) 0 then nsum_merge b r
      else a :: nsum_merge b r
  end.
(* for c := old-1; c > 1; c-- : the largest c < old dividing both, else 1 (fuel = old) *)
Fixpoint cf_search (fuel : nat) (c old f : Z) : option Z :=
  match fuel with
  | O => None
  | S n => if c <=? 1 then Some 1
           else if Z.eqb (old mod c) 0 && Z.eqb (f mod c) 0 then Some c
           else cf_search n (c - 1) old f
  end.
Definition cf_down (old f : Z) : Z :=
  match cf_search (Z.to_nat old) (old - 1) old f with Some c => c | None => 1 end.
Definition cf_step (cf : Z) (fac : Z) : Z :=
  let f := Z.abs fac in
  if Z.eqb cf 1 then 1
  else if Z.eqb (f mod cf) 0 then cf
  else if Z.eqb (cf mod f) 0 then f
  else cf_down cf f.
Definition num_norm1 (c : numc) : numc :=
  match isort nsum_key (n_sums c) with
  | [] => mkNum [] (n_num c)
  | a :: r =>
      let sums := nsum_merge a r in
      match sums with
      | [] => mkNum [] (n_num c)
      | s0 :: rest =>
          let cf := fold_left cf_step (map ns_fac rest) (Z.abs (ns_fac s0)) in
          (* cf = 0 (a zero factor in front): the code divides by zero there; QueryTotal shows it unreachable *)
          if Z.eqb cf 1 || Z.eqb cf 0 then mkNum sums (n_num c)
          else
            let f := Z.abs (n_num c) in
            let cf' := if Z.eqb (f mod cf) 0 then cf else cf_down cf f in
            mkNum (map (fun s => mkNs (ns_sub s) (ns_ty s) (Z.quot (ns_fac s) cf')) sums) (Z.quot (n_num c) cf')
      end
  end.
Fixpoint num_norm (l : list numc) : option (list numc) :=
  match l with
  | [] => Some []
  | c :: r =>
      let c' := num_norm1 c in
      match n_sums c' with
      | [] => if n_num c' <? 0 then None else num_norm r
      | _ => match num_norm r with None => None | Some out => Some (c' :: out) end
      end
  end.
Definition num_key (c : numc) : list Z :=
  zlen (n_sums c) :: flat_map (fun s => [zN (ns_sub s); zN (ns_ty s); ns_fac s]) (n_sums c) ++ [n_num c].
Definition num_same (a b : numc) : bool := list_eqb nsum_eqb (n_sums a) (n_sums b).
(* equal summands: the later (larger Number, weaker) one goes *)
Fixpoint num_dedupe (a : numc) (rest : list numc) : list numc :=
  match rest with
  | [] => [a]
  | b :: r => if num_same a b then num_dedupe a r else a :: num_dedupe b r
  end.
Definition all_pos (c : numc) : bool := (0 <=? n_num c) && forallb (fun s => 0 <=? ns_fac s) (n_sums c).
Definition all_neg (c : numc) : bool := (n_num c <? 0) && forallb (fun s => ns_fac s <=? 0) (n_sums c).
Fixpoint num_sign (l : list numc) : option (list numc) :=
  match l with
  | [] => Some []
  | c :: r => if all_pos c then num_sign r
              else if all_neg c then None
              else match num_sign r with None => None | Some out => Some (c :: out) end
  end.
Definition clean_num (l : list numc) : option (list numc) :=
  match num_norm l with
  | None => None
  | Some l1 => match isort num_key l1 with
               | [] => Some []
               | a :: r => num_sign (num_dedupe a r)
               end
  end.

(* -- times *)
Definition tsum_key (s : tsum) : list Z := [zN (ts_sub s); ts_f s; ts_l s].
Definition tsum_zero (s : tsum) : bool := Z.eqb (ts_f s) 0 && Z.eqb (ts_l s) 0.
Fixpoint tsum_merge (a : tsum) (rest : list tsum) : list tsum :=
  match rest with
  | [] => if tsum_zero a then [] else [a]      (* the zero summand left at the end is cut off *)
  | b :: r =>
      if N.eqb (ts_sub a) (ts_sub b) then tsum_merge (mkTs (ts_sub a) (ts_f a + ts_f b) (ts_l a + ts_l b)) r
      else if tsum_zero a then tsum_merge b r
      else a :: tsum_merge b r
  end.
Definition time_norm1 (c : timec) : timec :=
  match isort tsum_key (tm_sums c) with
  | [] => mkTime [] (tm_dur c) (tm_ref c)
  | a :: r => mkTime (tsum_merge a r) (tm_dur c) (tm_ref c)
  end.
(* Some None: always true, dropped *)
Definition time_judge (c : timec) : option (option timec) :=
  match tm_sums c with
  | [] => if tm_dur c <? 0 then None else Some None
  | [s] =>
      if negb (Z.eqb (ts_f s + ts_l s) 0) then Some (Some c)
      else if 0 <? ts_f s then (if tm_dur c <? 0 then None else Some (Some c))
      else (if 0 <=? tm_dur c then Some None else Some (Some c))
  | _ => Some (Some c)
  end.
Fixpoint time_norm (l : list timec) : option (list timec) :=
  match l with
  | [] => Some []
  | c :: r =>
      match time_judge (time_norm1 c) with
      | None => None
      | Some None => time_norm r
      | Some (Some c') => match time_norm r with None => None | Some out => Some (c' :: out) end
      end
  end.
Definition time_key (c : timec) : list Z :=
  zlen (tm_sums c) :: flat_map (fun s => [zN (ts_sub s); ts_f s; ts_l s]) (tm_sums c) ++ [tm_ref c; tm_dur c].
Definition time_same (a b : timec) : bool := list_eqb tsum_eqb (tm_sums a) (tm_sums b) && Z.eqb (tm_ref a) (tm_ref b).
Fixpoint time_dedupe (a : timec) (rest : list timec) : list timec :=
  match rest with
  | [] => [a]
  | b :: r => if time_same a b then time_dedupe a r else a :: time_dedupe b r
  end.
Definition clean_time (l : list timec) : option (list timec) :=
  match time_norm l with
  | None => None
  | Some l1 => match isort time_key l1 with [] => Some [] | a :: r => Some (time_dedupe a r) end
  end.

(* -- data sequences *)
Definition data_key (c : datac) : list Z := map (fun e => zN e + 1) (d_el c) ++ [0].
Fixpoint is_prefix (a b : list N) : bool :=
  match a, b with
  | [], _ => true
  | x :: a', y :: b' => N.eqb x y && is_prefix a' b'
  | _ :: _, [] => false
  end.
Fixpoint data_dedupe (a : datac) (rest : list datac) : option (list datac) :=
  match rest with
  | [] => Some [a]
  | b :: r =>
      if is_prefix (d_el a) (d_el b)
      then if Nat.eqb (length (d_el a)) (length (d_el b))
           then (if Bool.eqb (d_inv a) (d_inv b) then data_dedupe b r else None)
           else (if d_inv a then None                (* fixes/C03-inverted-data-prefix *)
                 else data_dedupe b r)
      else match data_dedupe b r with None => None | Some out => Some (a :: out) end
  end.
Definition clean_data (l : list datac) : option (list datac) :=
  match isort data_key l with [] => Some [] | a :: r => data_dedupe a r end.

(* -- Conditions.clean *)
Definition has_imp (c : conj) : bool := existsb (fun x => match x with CImp => true | _ => false end) c.
Definition sel_tag (c : conj) := flat_map (fun x => match x with CTag y => [y] | _ => [] end) c.
Definition sel_flag (c : conj) := flat_map (fun x => match x with CFlag y => [y] | _ => [] end) c.
Definition sel_host (c : conj) := flat_map (fun x => match x with CHost y => [y] | _ => [] end) c.
Definition sel_num (c : conj) := flat_map (fun x => match x with CNum y => [y] | _ => [] end) c.
Definition sel_time (c : conj) := flat_map (fun x => match x with CTime y => [y] | _ => [] end) c.
Definition sel_data (c : conj) := flat_map (fun x => match x with CData y => [y] | _ => [] end) c.

Definition conj_clean (c : conj) : conj :=
  if has_imp c then [CImp] else
  match clean_tag (sel_tag c), clean_flag (sel_flag c), clean_host (sel_host c),
        clean_num (sel_num c), clean_time (sel_time c), clean_data (sel_data c) with
  | Some t, Some f, Some h, Some n, Some tm, Some d =>
      map CTag t ++ map CFlag f ++ map CHost h ++ map CNum n ++ map CTime tm ++ map CData d
  | _, _, _, _, _, _ => [CImp]
  end.

(* ------------------------------------------------------------------ set operations *)

Definition conj_and (a b : conj) : conj := conj_clean (a ++ b).
Definition cs_or (a b : cset) : cset := a ++ b.
Definition cs_and (a b : cset) : cset :=
  match a, b with
  | [], _ => b
  | _, [] => a
  | _, _ => flat_map (fun c1 => map (fun c2 => conj_and c1 c2) b) a
  end.

Definition conj_invert (c : conj) : cset :=
  match c with
  | [] => [[CImp]]                                  (* fixes/C03-not-of-empty-conjunct *)
  | _ => flat_map cond_invert c
  end.
Definition cs_invert (cs : cset) : cset := fold_left (fun acc cc => cs_and acc (conj_invert cc)) cs [].

(* Conditions.then *)
Definition is_data (c : cond) : bool := match c with CData _ => true | _ => false end.
Definition matched (d : datac) : list N := if d_inv d then removelast (d_el d) else d_el d.
Definition proper_prefix (a b : list N) : bool := Nat.ltb (length a) (length b) && is_prefix a b.
Definition conj_then (a b : conj) : conj :=
  let adcs := sel_data a in
  let bdcs := sel_data b in
  let nd := filter (fun x => negb (is_data x)) a ++ filter (fun x => negb (is_data x)) b in
  match adcs, bdcs with
  | [], _ | _, [] => nd ++ map CData adcs ++ map CData bdcs
  | _, _ =>
      nd ++ flat_map (fun ad =>
              let cont := map (fun bd => CData (mkData (matched ad ++ d_el bd) (d_inv bd))) bdcs in
              if d_inv ad
              then CData ad :: (if existsb (fun o => proper_prefix (matched ad) (matched o)) adcs   (* fixes/C03-then-after-negated-filter *)
                                then [] else cont)
              else cont) adcs
  end.
Definition cs_then (a b : cset) : cset :=
  match a, b with
  | [], _ => b
  | _, [] => a
  | _, _ => flat_map (fun c1 => map (fun c2 => conj_then c1 c2) b) a
  end.

(* ------------------------------------------------------------------ ConditionsSet.Clean *)

Definition conj_impossible (c : conj) : bool := match c with [CImp] => true | _ => false end.
Definition set_impossible (cs : cset) : bool := match cs with [c] => conj_impossible c | _ => false end.

(* scan of `new` for one cleaned conjunct cc: None = cc is dropped (or has replaced an entry, given back) *)
Fixpoint absorb (cc : conj) (seen rest : cset) : option cset :=
  match rest with
  | [] => None
  | c2 :: r =>
      if conj_eqb c2 cc then Some (rev seen ++ rest)
      else
        let anded := conj_clean (conj_and cc c2) in
        if conj_eqb anded cc then Some (rev seen ++ rest)
        else if conj_eqb anded c2 then Some (rev seen ++ cc :: r)
        else absorb cc (c2 :: seen) r
  end.
Fixpoint clean_loop (cs : cset) (new : cset) : cset :=
  match cs with
  | [] => new
  | cc0 :: r =>
      let cc := conj_clean cc0 in
      if conj_impossible cc then clean_loop r new
      else match absorb cc [] new with
           | Some new' => clean_loop r new'
           | None => clean_loop r (new ++ [cc])
           end
  end.

(* the simple-ID fast path *)
Definition max_uint : Z := 18446744073709551615.
Fixpoint extract_id (c : conj) (mn mx : Z) : option (Z * Z) :=
  match c with
  | [] => Some (mn, mx)
  | CNum n :: r =>
      match n_sums n with
      | [s] =>
          if negb (N.eqb (ns_ty s) 0 && N.eqb (ns_sub s) 0) then None
          else if Z.eqb (ns_fac s) 1 then
                 extract_id r (if (n_num n <=? 0) && (mn <? - n_num n) then - n_num n else mn) mx
          else if Z.eqb (ns_fac s) (-1) then
                 (if n_num n <? 0 then None else extract_id r mn (if n_num n <? mx then n_num n else mx))
          else None
      | _ => None
      end
  | _ => None
  end.
Definition extract_simple_id (c : conj) : option (Z * Z) :=
  match c with [] => None | _ => extract_id c 0 max_uint end.
Fixpoint simple_ids (cs : cset) : option (list Z) :=
  match cs with
  | [] => Some []
  | cc :: r =>
      match extract_simple_id (conj_clean cc) with
      | Some (mn, mx) => if Z.eqb mn mx then match simple_ids r with Some l => Some (mn :: l) | None => None end else None
      | None => None
      end
  end.
Fixpoint zuniq (a : Z) (rest : list Z) : list Z :=
  match rest with [] => [a] | b :: r => if Z.eqb a b then zuniq a r else a :: zuniq b r end.
(* runs of consecutive ids *)
Fixpoint id_runs (mn mx : Z) (rest : list Z) : list (Z * Z) :=
  match rest with
  | [] => [(mn, mx)]
  | b :: r => if Z.eqb b (mx + 1) then id_runs mn b r else (mn, mx) :: id_runs b b r
  end.
Definition id_range_conj (r : Z * Z) : conj :=
  [CNum (mkNum [mkNs 0 0 1] (- fst r)); CNum (mkNum [mkNs 0 0 (-1)] (snd r))].
Definition clean_simple_id (cs : cset) : option cset :=
  match cs with
  | [] => None
  | _ => match simple_ids cs with
         | None => None
         | Some ids =>
             match isort (fun x => [x]) ids with
             | [] => Some []
             | a :: r => match zuniq a r with
                         | [] => Some []
                         | m :: r' => Some (map id_range_conj (id_runs m m r'))
                         end
             end
         end
  end.

Definition set_clean (cs : cset) : cset :=
  match clean_simple_id cs with
  | Some c => c
  | None =>
      let new := clean_loop cs [] in
      match new, cs with
      | [], _ :: _ => [[CImp]]
      | _, _ => new
      end
  end.

(* ------------------------------------------------------------------ surface syntax *)

Inductive npart := NPNum (neg : bool) (n : Z) | NPVar (neg : bool) (sub : N) (ty : N).
Inductive tpart := TPDur (neg : bool) (d : Z) | TPAbs (neg : bool) (d : Z) | TPVar (neg : bool) (sub : N) (ltime : bool).
Inductive hitem := HIp (ip m4 m6 : list N) | HVar (sub : N) (srv : bool) (m4 m6 : list N).
Inductive pitem := PTok (x : N) | PVar (sub : N).
(* a range: one bound (single value) or two *)
Inductive range (P : Type) := ROne (b : list P) | RTwo (lo hi : list P).
Arguments ROne {P}. Arguments RTwo {P}.

Inductive atom :=
| ATag (sub : N) (names : list N)
| AProto (sub : N) (items : list pitem)
| AHost (cli srv : bool) (sub : N) (items : list hitem)        (* chost: cli; shost: srv; host: both *)
| ANum (tys : list N) (sub : N) (ranges : list (range npart))  (* id [0], cbytes [1], sbytes [2], cport [3], sport [4], port [3;4], bytes [1;2] *)
| ATime (key : N) (sub : N) (ranges : list (range tpart))      (* 0 ftime, 1 ltime, 2 time *)
| AData (sub : N) (elems : list N).

Inductive expr :=
| EAtom (a : atom) | ESkip | ENot (e : expr) | EAnd (a b : expr) | EOr (a b : expr) | EThen (a b : expr).

(* ------------------------------------------------------------------ queryTerm.QueryConditions *)

Definition sgn (neg : bool) : Z := if neg then -1 else 1.

Fixpoint ns_add (sub ty : N) (f : Z) (l : list nsum) : list nsum :=
  match l with
  | [] => [mkNs sub ty f]
  | s :: r => if N.eqb (ns_sub s) sub && N.eqb (ns_ty s) ty then mkNs sub ty (ns_fac s + f) :: r else s :: ns_add sub ty f r
  end.
Fixpoint nbound (ps : list npart) (acc : numc) : numc :=
  match ps with
  | [] => acc
  | NPNum neg n :: r => nbound r (mkNum (n_sums acc) (n_num acc + sgn neg * n))
  | NPVar neg sub ty :: r => nbound r (mkNum (ns_add sub ty (sgn neg) (n_sums acc)) (n_num acc))
  end.
Definition is_nil {A} (l : list A) : bool := match l with [] => true | _ => false end.
(* subtract the filter's own variable, drop zero factors *)
Definition nown (sub ty : N) (c : numc) : numc :=
  mkNum (filter (fun s => negb (Z.eqb (ns_fac s) 0)) (ns_add sub ty (-1) (n_sums c))) (n_num c).
Definition nneg (c : numc) : numc :=
  mkNum (map (fun s => mkNs (ns_sub s) (ns_ty s) (- ns_fac s)) (n_sums c)) (- n_num c).
Definition num_range_conj (sub ty : N) (r : range npart) : conj :=
  let '(lo, hi) := match r with ROne b => (b, b) | RTwo lo hi => (lo, hi) end in
  (if is_nil lo then [] else [CNum (nneg (nown sub ty (nbound lo (mkNum [] 0))))]) ++
  (if is_nil hi then [] else [CNum (nown sub ty (nbound hi (mkNum [] 0)))]).

Fixpoint ts_add (sub : N) (f l : Z) (m : list tsum) : list tsum :=
  match m with
  | [] => [mkTs sub f l]
  | s :: r => if N.eqb (ts_sub s) sub then mkTs sub (ts_f s + f) (ts_l s + l) :: r else s :: ts_add sub f l r
  end.
Fixpoint tbound (ps : list tpart) (acc : timec) : timec :=
  match ps with
  | [] => acc
  | TPDur neg d :: r => tbound r (mkTime (tm_sums acc) (tm_dur acc + sgn neg * d) (tm_ref acc))
  | TPAbs neg d :: r => tbound r (mkTime (tm_sums acc) (tm_dur acc + sgn neg * d) (tm_ref acc - sgn neg))
  | TPVar neg sub lt :: r =>
      tbound r (mkTime (if lt then ts_add sub 0 (sgn neg) (tm_sums acc) else ts_add sub (sgn neg) 0 (tm_sums acc)) (tm_dur acc) (tm_ref acc))
  end.
Definition town (sub : N) (df dl : Z) (c : timec) : timec :=
  mkTime (filter (fun s => negb (tsum_zero s)) (ts_add sub df dl (tm_sums c))) (tm_dur c) (tm_ref c).
Definition tneg (c : timec) : timec :=
  mkTime (map (fun s => mkTs (ts_sub s) (- ts_f s) (- ts_l s)) (tm_sums c)) (- tm_dur c) (- tm_ref c).
Definition time_range_conj (key sub : N) (r : range tpart) : conj :=
  let z := mkTime [] 0 0 in
  (* a single value: Duration and Summands are copied to the upper bound, ReferenceTimeFactor is not *)
  let '(lo, hi, hic) := match r with
                        | ROne b => (b, b, let t := tbound b z in mkTime (tm_sums t) (tm_dur t) 0)
                        | RTwo lo hi => (lo, hi, tbound hi z)
                        end in
  let loc := tbound lo z in
  let '(lf, ll, hf, hl) := if N.eqb key 0 then (-1, 0, -1, 0) else if N.eqb key 1 then (0, -1, 0, -1) else (0, -1, -1, 0) in
  (if is_nil lo then [] else [CTime (tneg (town sub lf ll loc))]) ++
  (if is_nil hi then [] else [CTime (town sub hf hl hic)]).

Definition ones4 : list N := [255; 255; 255; 255]%N.
Definition host_item_conj (sub : N) (srv : bool) (it : hitem) : conj :=
  match it with
  | HIp ip m4 m6 => [CHost (mkHost [mkSrc sub srv] ip m4 m6 false)]
  | HVar vs vsrv m4 m6 => [CHost (mkHost [mkSrc sub srv; mkSrc vs vsrv] [] m4 m6 false)]
  end.

Definition conds_of_atom (a : atom) : cset :=
  match a with
  | ATag sub names => map (fun n => [CTag (mkTag sub n 5)]) names
  | AProto sub items =>
      map (fun it => match it with
                     | PTok x => flag_invert (mkFlag [sub] x 3)
                     | PVar s => if N.eqb s sub then []           (* fixes/C03-protocol-self-variable *)
                                 else flag_invert (mkFlag [sub; s] 0 3)
                     end) items
  | AHost cli srv sub items =>
      (if cli then map (host_item_conj sub false) items else []) ++
      (if srv then map (host_item_conj sub true) items else [])
  | ANum tys sub ranges => flat_map (fun r => map (fun ty => num_range_conj sub ty r) tys) ranges
  | ATime key sub ranges => map (time_range_conj key sub) ranges
  | AData sub elems => map (fun e => [CData (mkData [e] false)]) elems
  end.

(* None = nil: nothing but directives (sort/limit/group) *)
Fixpoint norm (e : expr) : option cset :=
  match e with
  | EAtom a => Some (conds_of_atom a)
  | ESkip => None
  | ENot a => match norm a with Some c => Some (cs_invert c) | None => None end
  | EAnd a b => match norm a, norm b with
                | Some x, Some y => Some (cs_and x y) | Some x, None => Some x | None, y => y end
  | EOr a b => match norm a, norm b with
               | Some x, Some y => Some (cs_or x y) | Some x, None => Some x | None, y => y end
  | EThen a b => match norm a, norm b with
                 | Some x, Some y => Some (cs_then x y) | Some x, None => Some x | None, y => y end
  end.

(* query.Parse: the final Query.Conditions *)
Definition parse_conditions (e : expr) : cset :=
  match norm e with
  | None => [[]]
  | Some c =>
      let c' := set_clean c in
      if set_impossible c' then [] else match c' with [] => [[]] | _ => c' end
  end.

(* ------------------------------------------------------------------ reference semantics *)

Definition byte_masked_eq (a b m4 m6 : list N) : bool :=
  Nat.eqb (length a) (length b) && masked_zero (xor_bytes a b) (if Nat.eqb (length a) 16 then m6 else m4).

Definition npart_val (v : valuation) (p : npart) : Z :=
  match p with
  | NPNum neg n => sgn neg * n
  | NPVar neg sub ty => sgn neg * s_num (v_str v sub) ty
  end.
Definition tpart_val (v : valuation) (p : tpart) : Z :=
  match p with
  | TPDur neg d | TPAbs neg d => sgn neg * d
  | TPVar neg sub lt => sgn neg * (if lt then s_ltime (v_str v sub) else s_ftime (v_str v sub))
  end.
Definition zsum (l : list Z) : Z := fold_right Z.add 0 l.
Definition in_range {P} (val : P -> Z) (r : range P) (xlo xhi : Z) : bool :=
  let '(lo, hi) := match r with ROne b => (b, b) | RTwo lo hi => (lo, hi) end in
  (is_nil lo || (zsum (map val lo) <=? xlo)) && (is_nil hi || (xhi <=? zsum (map val hi))).

(* truth of a filter without position *)
Definition atom_truth (v : valuation) (a : atom) : bool :=
  match a with
  | ATag sub names => existsb (fun n => let st := s_tag (v_str v sub) n in N.eqb st 1 || N.eqb st 4) names
  | AProto sub items =>
      existsb (fun it => match it with
                         | PTok x => N.eqb (N.land (s_flags (v_str v sub)) 3) x
                         | PVar s => N.eqb (N.land (s_flags (v_str v sub)) 3) (N.land (s_flags (v_str v s)) 3)
                         end) items
  | AHost cli srv sub items =>
      let test mine := existsb (fun it => match it with
                                          | HIp ip m4 m6 => byte_masked_eq mine ip m4 m6
                                          | HVar vs vsrv m4 m6 => byte_masked_eq mine (src_host v (mkSrc vs vsrv)) m4 m6
                                          end) items in
      (cli && test (s_chost (v_str v sub))) || (srv && test (s_shost (v_str v sub)))
  | ANum tys sub ranges =>
      existsb (fun ty => let x := s_num (v_str v sub) ty in existsb (fun r => in_range (npart_val v) r x x) ranges) tys
  | ATime key sub ranges =>
      let f := s_ftime (v_str v sub) in let l := s_ltime (v_str v sub) in
      existsb (fun r => if N.eqb key 0 then in_range (tpart_val v) r f f
                        else if N.eqb key 1 then in_range (tpart_val v) r l l
                        else in_range (tpart_val v) r l f) ranges
  | AData _ _ => false
  end.

(* sort:/limit:/group: are directives, not filters *)
Fixpoint strip (e : expr) : option expr :=
  match e with
  | ESkip => None
  | EAtom _ => Some e
  | ENot a => match strip a with Some a' => Some (ENot a') | None => None end
  | EAnd a b => match strip a, strip b with Some x, Some y => Some (EAnd x y) | Some x, None => Some x | None, y => y end
  | EOr a b => match strip a, strip b with Some x, Some y => Some (EOr x y) | Some x, None => Some x | None, y => y end
  | EThen a b => match strip a, strip b with Some x, Some y => Some (EThen x y) | Some x, None => Some x | None, y => y end
  end.

(* number of OR-free readings of e *)
Fixpoint readings (e : expr) : nat :=
  match e with
  | EAtom (AData _ els) => length els
  | EAtom _ => 1
  | ESkip => 1
  | ENot _ => 1
  | EOr a b => readings a + readings b
  | EAnd a b | EThen a b => readings a * readings b
  end.

Definition seqn (n : nat) : list nat := seq 0 n.

(* run of reading number i from payload position p: None = does not hold, Some ends = holds and its payload
   sequences end at these positions (none if the reading involves no payload filter) *)
Fixpoint run (v : valuation) (e : expr) (i : nat) (p : N) : option (list N) :=
  match e with
  | EAtom (AData _ els) =>
      match nth_error els i with
      | Some el => match v_nxt v el p with Some q => Some [q] | None => None end
      | None => None
      end
  | EAtom a => if atom_truth v a then Some [] else None
  | ESkip => Some []
  | ENot a => if existsb (fun j => is_some (run v a j p)) (seqn (readings a)) then None else Some []
  | EOr a b => if Nat.ltb i (readings a) then run v a i p else run v b (i - readings a) p
  | EAnd a b =>
      match run v a (Nat.div i (readings b)) p, run v b (Nat.modulo i (readings b)) p with
      | Some x, Some y => Some (x ++ y)
      | _, _ => None
      end
  | EThen a b =>
      match run v a (Nat.div i (readings b)) p with
      | None => None
      | Some [] => run v b (Nat.modulo i (readings b)) p
      | Some ends =>
          fold_right (fun q acc =>
                        match run v b (Nat.modulo i (readings b)) q, acc with
                        | Some [], Some r => Some (q :: r)
                        | Some ys, Some r => Some (ys ++ r)
                        | _, _ => None
                        end) (Some []) ends
      end
  end.

Definition holds (v : valuation) (e : expr) (p : N) : bool :=
  existsb (fun j => is_some (run v e j p)) (seqn (readings e)).

Definition sem (v : valuation) (e : expr) : bool :=
  match strip e with None => true | Some e' => holds v e' (v_start v) end.

(* The reading of DESIGN.md (NOT as look-ahead in a continuation semantics), kept for comparison. *)
Fixpoint semk (v : valuation) (e : expr) (p : N) (k : N -> bool) : bool :=
  match e with
  | EAtom (AData _ els) => existsb (fun el => match v_nxt v el p with Some q => k q | None => false end) els
  | EAtom a => atom_truth v a && k p
  | ESkip => k p
  | ENot a => negb (semk v a p (fun _ => true)) && k p
  | EAnd a b => semk v a p k && semk v b p k
  | EOr a b => semk v a p k || semk v b p k
  | EThen a b => semk v a p (fun q => semk v b q k)
  end.
Definition semL (v : valuation) (e : expr) : bool :=
  match strip e with None => true | Some e' => semk v e' (v_start v) (fun _ => true) end.

(* ------------------------------------------------------------------ well-formedness *)

Fixpoint then_free (e : expr) : bool :=
  match e with
  | EAtom _ | ESkip => true
  | ENot a => then_free a
  | EAnd a b | EOr a b => then_free a && then_free b
  | EThen _ _ => false
  end.
Fixpoint simple (e : expr) : bool :=
  match e with
  | EAtom _ | ESkip => true
  | ENot _ | EThen _ _ => false
  | EAnd a b | EOr a b => simple a && simple b
  end.
(* bound on the number of payload positions a reading of a (THEN-free) group ends at *)
Fixpoint data_ends (e : expr) : nat :=
  match e with
  | EAtom (AData _ _) => 1
  | EAtom _ | ESkip | ENot _ => 0
  | EAnd a b | EThen a b => data_ends a + data_ends b
  | EOr a b => Nat.max (data_ends a) (data_ends b)
  end.
(* can e end at more than one payload position: an AND (outside NOT) of two sides with payload filters *)
Fixpoint multi_end (e : expr) : bool :=
  match e with
  | EAtom _ | ESkip | ENot _ => false
  | EAnd a b => Nat.leb 2 (data_ends a + data_ends b)
  | EOr a b | EThen a b => multi_end a || multi_end b
  end.
Fixpoint or_only (e : expr) : bool :=
  match e with
  | EAtom _ | ESkip => true
  | EOr a b => or_only a && or_only b
  | _ => false
  end.
Fixpoint nots_or_only (e : expr) : bool :=
  match e with
  | EAtom _ | ESkip => true
  | ENot a => or_only a
  | EAnd a b | EOr a b | EThen a b => nots_or_only a && nots_or_only b
  end.
(* the fragment in which NOT inside a sequence has a defined meaning (notes/C03.md) *)
Fixpoint wf_seq (tail : bool) (e : expr) : bool :=
  match e with
  | EAtom _ | ESkip => true
  | ENot a => wf_seq true a && (tail || simple a)
  | EThen a b => wf_seq false a && wf_seq tail b && (negb (multi_end a) || nots_or_only b)
  | EAnd a b => wf_seq tail a && wf_seq tail b && (tail || (then_free a && then_free b))
  | EOr a b => wf_seq tail a && wf_seq tail b
  end.

(* admissible valuations: what the simplifier relies on *)
Definition tag_state (x : N) : Prop := x = 1%N \/ x = 2%N \/ x = 4%N \/ x = 8%N.
Definition stream_ok (s : stream) : Prop :=
  (forall ty, 0 <= s_num s ty) /\ s_ftime s <= s_ltime s /\ length (s_chost s) = length (s_shost s) /\
  (forall n, tag_state (s_tag s n)).
Definition val_ok (v : valuation) : Prop := forall sub, stream_ok (v_str v sub).
