(* TagsC09M.v -- C09: failing merges.  mergeIndexesJob's completion increments nUnmergeableIndexes when the merge produced
   nothing or failed; startMergeJobIfNeeded only looks at runs that start at or behind nUnmergeableIndexes.  So every failed
   merge strictly shrinks the part of the index list that can still be merged: at most (number of indexes - 1) merges can
   fail in a row, the merges cannot restart for ever. *)
From Coq Require Import List NArith Bool Lia Arith.
From Pk Require Import Tags TagsC16 TagsC06 TagsC09 TagsC09T.
Import ListNotations.
Open Scope N_scope.

Definition merge_start (unm : nat) (idx : list N) : option nat := merge_offset O unm (nrecords idx) idx.

Lemma merge_offset_ge unm l : forall i n k, merge_offset i unm n l = Some k -> (unm <= k)%nat.
Proof.
  induction l as [|x r IH]; simpl; intros i n k H; [discriminate|].
  destruct (Nat.leb unm i && (popcount x <? n - popcount x)) eqn:C.
  - inversion H; subst. apply andb_true_iff in C. destruct C as [C _]. apply Nat.leb_le in C. exact C.
  - eapply IH. exact H.
Qed.

(* a merge that can start begins at or behind the unmergeable prefix and has at least two indexes *)
Theorem merge_start_bounds unm idx off : merge_start unm idx = Some off ->
  (unm <= off)%nat /\ (off + 2 <= length idx)%nat.
Proof.
  intros H. unfold merge_start in H. split; [eapply merge_offset_ge; exact H|].
  destruct (merge_offset_len unm idx O (nrecords idx) off (N.le_refl _) H) as (_ & L). lia.
Qed.

(* the completion of a failed merge: nUnmergeableIndexes + 1.  Termination measure: length idx - unmergeable *)
Theorem failed_merge_decreases unm idx off : merge_start unm idx = Some off ->
  (length idx - S unm < length idx - unm)%nat.
Proof. intros H. destruct (merge_start_bounds _ _ _ H). lia. Qed.

(* hence at most length idx - 1 merges fail in a row: with so many unmergeable indexes nothing is eligible *)
Theorem nothing_to_merge_behind_the_end unm idx : (length idx <= unm + 1)%nat -> merge_start unm idx = None.
Proof.
  intros L. destruct (merge_start unm idx) as [off|] eqn:H; [|reflexivity].
  destruct (merge_start_bounds _ _ _ H). lia.
Qed.

(* the seeded rule (C09-r7a-n1): nUnmergeableIndexes := max(nUnmergeableIndexes, offset).  When the failing run starts right
   at the unmergeable prefix nothing changes and the same merge is eligible again: it restarts for ever. *)
Theorem max_rule_refuted :
  let idx := [1; 1; 1] in
  merge_start 0 idx = Some 0%nat /\ Nat.max 0 0 = 0%nat /\ merge_start (Nat.max 0 0) idx = Some 0%nat.
Proof. vm_compute. repeat split; reflexivity. Qed.
