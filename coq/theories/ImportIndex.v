(* Composition C05 o C01: what FromPcap hands to the index writer is what the index reader returns.

   [to_istream] is the streams.Stream the model's stream stands for (writer input of Pk.IndexFormat, the
   C01 model of writer.go/reader.go, owned by C01 and only IMPORTED here).  For every stream the UDP
   assembler model produces ([swf]: one data item per packet in packet order -- proved for all of
   [udp_run]'s streams), the C01 round-trip theorems give: Stream.Data() of the stored stream has, per
   direction, exactly the payload the import model attributes to that direction, and changes direction
   exactly where the model's coalesced runs do; StreamByFirstPacketSource finds the stream under the source
   of its first packet -- the lookup Import.index_lookup abstracts.
   TCP streams of the ideal model are covered when they satisfy [swf] too (no payload delivered by a
   timeout flush, which attributes bytes to an EARLIER packet); that is not proved here. *)
From Pk Require Import Udp UdpProofs UdpInterleave Import AttribProofs.
Require Pk.IndexFormat Pk.IndexFormatCodec Pk.IndexFormatWriter Pk.IndexFormatData Pk.IndexFormatPackets Pk.IndexFormatScan Pk.IndexFormatLookup.
From Coq Require Import Lia PeanoNat Arith.
From Coq Require Import ZifyBool ZifyN ZifyNat.

Module IF := Pk.IndexFormat.

(* ------------------------------------------------------------------ well-formed model streams *)
Fixpoint data_desc (hi : N) (l : list (N * list N)) : Prop :=
  match l with [] => True | (i, _) :: r => i < hi /\ data_desc i r end.

Definition swf (s : stream) : Prop := s_npk s = lenN (s_pkts s) /\ data_desc (s_npk s) (Attrib.s_data s).

Lemma data_desc_weaken : forall l hi hi', hi <= hi' -> data_desc hi l -> data_desc hi' l.
Proof. destruct l as [|[i b] r]; simpl; intros; auto. split; [lia|tauto]. Qed.

Lemma swf_new tcp a b : swf (new_stream tcp a b).
Proof. split; reflexivity. Qed.

Lemma swf_add_udp s r d bts : swf s -> swf (add_udp_packet s r d bts).
Proof.
  intros [Hn Hd]. unfold add_udp_packet, add_data.
  destruct bts as [|x bts].
  - split; simpl; [rewrite Hn; unfold lenN; simpl; lia|]. eapply data_desc_weaken; [|exact Hd]. lia.
  - cbn [s_pkts s_npk add_packet]. rewrite find_back_newest. split; simpl.
    + rewrite Hn. unfold lenN. simpl. lia.
    + split; [lia|exact Hd].
Qed.

Lemma swf_set_complete s : swf s -> swf (set_complete s).
Proof. intros H. exact H. Qed.

(* every stream of the UDP assembler is well formed (through the slot machine of UdpInterleave) *)
Lemma swf_sstep sl p : Forall (fun x => swf (fst x)) sl -> Forall (fun x => swf (fst x)) (sstep sl p).
Proof.
  intros H. unfold sstep.
  assert (H1 : Forall (fun x => swf (fst x)) (sflush (p_ts p) sl)).
  { unfold sflush. apply Forall_forall. intros x Hx. apply in_map_iff in Hx as (y & <- & Hy).
    rewrite Forall_forall in H. specialize (H _ Hy). unfold sflush1. destruct (snd y); auto. destruct (expired (p_ts p) n); auto. }
  clear H. induction H1 as [|x l Hx Hl IH]; simpl.
  - constructor; [|constructor]. unfold new_slot. simpl. apply swf_add_udp, swf_new.
  - destruct (is_open (snd x) && smatch (fst x) (p_src p) (p_dst p)).
    + constructor; auto. unfold upd_slot. simpl. apply swf_add_udp. exact Hx.
    + constructor; auto.
Qed.

Theorem udp_streams_well_formed hashf l : Forall swf (fst (udp_run hashf l)).
Proof.
  rewrite udp_run_slots.
  assert (H : Forall (fun x => swf (fst x)) (fold_left sstep l [])).
  { assert (G : forall l sl, Forall (fun x => swf (fst x)) sl -> Forall (fun x => swf (fst x)) (fold_left sstep l sl)).
    { induction l0 as [|p l0 IH]; intros sl Hs; simpl; auto. apply IH. apply swf_sstep. exact Hs. }
    apply G. constructor. }
  apply Forall_forall. intros s Hs. apply in_map_iff in Hs as (x & <- & Hx). rewrite Forall_forall in H. auto.
Qed.

(* ------------------------------------------------------------------ the writer input a model stream stands for *)
Section Compose.
  Variable addr_bytes : N -> list N.        (* address -> 4 or 16 bytes *)
  Variable file_name : N -> list N.         (* file rank -> capture file name *)
  Variable ts_ns : N -> N.                  (* model time (us, relative) -> ns since epoch *)

  Definition to_ipacket (x : pref * bool) : IF.ipacket :=
    {| IF.p_ts := ts_ns (snd (fst x)); IF.p_dir := snd x; IF.p_srcs := [(file_name (fst (fst (fst x))), snd (fst (fst x)))] |}.

  Definition to_istream (s : stream) : IF.istream :=
    {| IF.s_caddr := addr_bytes (fst (s_client s)); IF.s_saddr := addr_bytes (fst (s_server s));
       IF.s_cport := snd (s_client s); IF.s_sport := snd (s_server s);
       IF.s_flags := (if s_complete s then 1 else 0) + (if s_tcp s then 0 else 2);
       IF.s_packets := map to_ipacket (stream_packets s);
       IF.s_data := rev (Attrib.s_data s) |}.

  Lemma dir_of_packet_model s i : s_npk s = lenN (s_pkts s) -> i < s_npk s ->
    IF.dir_of_packet (IF.s_packets (to_istream s)) i = dir_of_index s i.
  Proof.
    intros Hn Hi. unfold IF.dir_of_packet, dir_of_index. cbn [IF.s_packets to_istream].
    rewrite Pk.IndexFormatCodec.nthN_nth_error, nth_error_map. unfold stream_packets.
    assert (Hlen : (N.to_nat i < length (s_pkts s))%nat) by (unfold lenN in Hn; lia).
    rewrite (nth_error_nth' (rev (s_pkts s)) ((0, 0, 0), false)) by (rewrite rev_length; exact Hlen).
    rewrite rev_nth by exact Hlen.
    replace (length (s_pkts s) - S (N.to_nat i))%nat with (N.to_nat (s_npk s - 1 - i)) by (unfold lenN in Hn; lia).
    assert (Hlen2 : (N.to_nat (s_npk s - 1 - i) < length (s_pkts s))%nat) by (unfold lenN in Hn; lia).
    rewrite (nth_error_nth' (s_pkts s) ((0, 0, 0), false)) by exact Hlen2.
    simpl. destruct (nth (N.to_nat (s_npk s - 1 - i)) (s_pkts s) (0, 0, 0, false)). reflexivity.
  Qed.

  (* generic: payload_of / data_runs of C01 against filter / coalesce of the import model *)
  Lemma payload_of_filter ps want : forall data,
    IF.payload_of ps want data =
    concat (map snd (filter (fun x => Bool.eqb (fst x) want) (map (fun d => (IF.dir_of_packet ps (fst d), snd d)) data))).
  Proof.
    induction data as [|[i b] r IH]; simpl; auto.
    destruct (Bool.eqb (IF.dir_of_packet ps i) want); simpl; rewrite IH; reflexivity.
  Qed.

  Lemma data_runs_coalesce ps : forall data,
    IF.data_runs ps data =
    map (fun r => (fst r, lenN (snd r))) (coalesce (map (fun d => (IF.dir_of_packet ps (fst d), snd d)) data)).
  Proof.
    induction data as [|[i b] r IH]; simpl; auto. rewrite IH.
    destruct (coalesce (map (fun d => (IF.dir_of_packet ps (fst d), snd d)) r)) as [|[d' b'] r']; simpl; auto.
    destruct (Bool.eqb (IF.dir_of_packet ps i) d'); simpl; auto.
    f_equal. f_equal. unfold lenN, IF.lenN. rewrite app_length. lia.
  Qed.

  Lemma data_desc_in hi l : data_desc hi l -> forall d, In d l -> fst d < hi.
  Proof.
    revert hi. induction l as [|[i b] r IH]; simpl; intros hi H d Hd; [destruct Hd|].
    destruct H as [H1 H2]. destruct Hd as [<-|Hd]; auto. specialize (IH _ H2 _ Hd). lia.
  Qed.

  Lemma model_data_dirs s : swf s ->
    map (fun d => (IF.dir_of_packet (IF.s_packets (to_istream s)) (fst d), snd d)) (IF.s_data (to_istream s)) = stream_data s.
  Proof.
    intros [Hn Hd]. unfold stream_data. cbn [IF.s_data to_istream]. rewrite map_rev. f_equal.
    apply map_ext_in. intros d Hin. f_equal. apply dir_of_packet_model; auto. eapply data_desc_in; eauto.
  Qed.

  Lemma data_sorted_of_desc : forall l acc hi,
    data_desc hi l -> Pk.IndexFormatScan.data_sorted hi acc -> Pk.IndexFormatScan.data_sorted 0 (rev l ++ acc).
  Proof.
    induction l as [|[i b] r IH]; intros acc hi Hd Ha; simpl.
    - eapply Pk.IndexFormatScan.data_sorted_weaken; [|exact Ha]. lia.
    - destruct Hd as [Hi Hr]. rewrite <- app_assoc. simpl. apply (IH _ i); auto.
      simpl. split; [lia|]. eapply Pk.IndexFormatScan.data_sorted_weaken; [|exact Ha]. lia.
  Qed.

  Lemma wf_data_model s : swf s -> Pk.IndexFormatScan.wf_data (to_istream s).
  Proof.
    intros [Hn Hd]. unfold Pk.IndexFormatScan.wf_data. cbn [IF.s_data IF.s_packets to_istream]. split; [|split].
    - rewrite <- (app_nil_r (rev (Attrib.s_data s))). apply (data_sorted_of_desc _ [] (s_npk s)); simpl; auto.
    - apply Forall_forall. intros d Hin. apply in_rev in Hin. pose proof (data_desc_in _ _ Hd d Hin) as Hlt.
      unfold IF.lenN. rewrite map_length. unfold stream_packets. rewrite rev_length. unfold lenN in Hn. lia.
    - apply Forall_forall. intros p Hp. apply in_map_iff in Hp as (x & <- & _). simpl. discriminate.
  Qed.

  (* ---------------------------------------------------------------- the composition *)
  Definition to_L (L : list (N * stream)) : list (N * IF.istream) := map (fun e => (fst e, to_istream (snd e))) L.

  Theorem written_stream_data_reads_back : forall gcap (L : list (N * stream)) w r,
    16 < gcap <= 4 * IF.P16 ->
    Forall (fun ids => Pk.IndexFormatWriter.wf_meta (snd ids)) (to_L L) ->
    IF.add_streams gcap IF.new_writer (to_L L) = Some w ->
    IF.new_reader (IF.finalize w) = Some r ->
    IF.lenN (IF.w_packets w) < IF.P32 ->
    forall k id s rec, nth_error L k = Some (id, s) -> swf s -> s_pkts s <> [] ->
      IF.lenN (IF.stream_payload (to_istream s) false) + IF.lenN (IF.stream_payload (to_istream s) true) < IF.P64 ->
      nth_error (IF.all_streams r) k = Some rec ->
      exists cks, IF.data r rec = Some cks /\
        (forall d, Pk.IndexFormatData.payload_dir d cks =
                   concat (map snd (filter (fun x => Bool.eqb (fst x) d) (stream_data s)))) /\
        Pk.IndexFormatData.compress (map IF.c_dir cks) =
        Pk.IndexFormatData.compress (map fst (filter (fun x => negb (lenN (snd x) =? 0)) (coalesce (stream_data s)))).
  Proof.
    intros gcap L w r Hcap Hwf Hadd Hr Hcnt k id s rec Hk Hs Hne Hsz Hrec.
    assert (Hk' : nth_error (to_L L) k = Some (id, to_istream s)).
    { unfold to_L. rewrite nth_error_map, Hk. reflexivity. }
    assert (Hne' : IF.s_packets (to_istream s) <> []).
    { cbn [IF.s_packets to_istream]. unfold stream_packets. destruct (s_pkts s) as [|x l] eqn:E; [congruence|].
      simpl. intros H. apply map_eq_nil in H. apply app_eq_nil in H as [_ H]. discriminate. }
    destruct (Pk.IndexFormatScan.data_stored gcap (to_L L) w r Hcap Hwf Hadd Hr Hcnt k id (to_istream s) rec Hk' Hne'
                (wf_data_model s Hs) Hsz Hrec) as (cks & Hd & Hp0 & Hp1 & Hc).
    exists cks. split; auto. split.
    - intros d. destruct d; [rewrite Hp1|rewrite Hp0]; unfold IF.stream_payload; rewrite payload_of_filter, model_data_dirs; auto.
    - rewrite Hc. f_equal. unfold Pk.IndexFormatData.nz_dirs. rewrite data_runs_coalesce, model_data_dirs by auto.
      induction (coalesce (stream_data s)) as [|[d0 b0] c IHc]; simpl; auto.
      destruct (lenN b0 =? 0); simpl; rewrite IHc; reflexivity.
  Qed.

  (* the key of the by-source lookup is the model's first_source *)
  Lemma first_src_model s :
    Pk.IndexFormatLookup.first_src (to_istream s) = option_map (fun x => (file_name (fst x), snd x)) (first_source s).
  Proof.
    unfold Pk.IndexFormatLookup.first_src, first_source. cbn [IF.s_packets to_istream].
    destruct (stream_packets s) as [|[[[f i] t] d] l]; reflexivity.
  Qed.

  Theorem written_stream_found_by_first_packet_source : forall gcap (L : list (N * stream)) w r,
    16 < gcap <= 4 * IF.P16 ->
    Forall (fun ids => Pk.IndexFormatWriter.wf_meta (snd ids)) (to_L L) ->
    Forall (fun ids => Pk.IndexFormatPackets.names_ok (snd ids)) (to_L L) ->
    Forall (fun ids => Pk.IndexFormatLookup.first_src (snd ids) <> None) (to_L L) ->
    NoDup (map (fun ids => Pk.IndexFormatLookup.first_src_or (snd ids)) (to_L L)) ->
    IF.add_streams gcap IF.new_writer (to_L L) = Some w -> IF.new_reader (IF.finalize w) = Some r ->
    IF.lenN (IF.w_packets w) < IF.P32 ->
    forall k id s f i, nth_error L k = Some (id, s) -> first_source s = Some (f, i) ->
    exists rec, IF.stream_by_source r (file_name f) i = Some (rec, N.of_nat k) /\ nth_error (IF.all_streams r) k = Some rec.
  Proof.
    intros gcap L w r Hcap Hwf Hnames Hfirst Hdist Hadd Hr Hcnt k id s f i Hk Hf.
    assert (Hk' : nth_error (to_L L) k = Some (id, to_istream s)).
    { unfold to_L. rewrite nth_error_map, Hk. reflexivity. }
    apply (Pk.IndexFormatLookup.stream_by_source_stored gcap (to_L L) w r Hcap Hwf Hnames Hfirst Hdist Hadd Hr Hcnt
             k id (to_istream s) (file_name f, i) Hk').
    rewrite first_src_model, Hf. reflexivity.
  Qed.
End Compose.
