(* The assembler hypothesis of snapshot transparency (ImportSnapshot.replay_ok) does NOT hold for the TCP reassembler
   model on captures with gaps in BOTH directions of one connection: a foreign packet that the snapshot no longer
   replays triggers an inactivity flush that emits the payload queued behind one gap earlier than the payload queued
   behind the other; without that packet both are emitted by one later flush, server-to-client half first
   (FlushWithOptions visits s2c before c2s).  The two imports show the same bytes in a different direction order.
   This is the residual noted with fixes/C08-flush-queued-at-end.patch; captures without such double gaps are not
   affected (every correspondence run agrees). *)
From Pk Require Import Udp Tcp Import ImportProofs ImportSnapshot UdpInterleave.

Definition A : endpoint := (1, 1000).
Definition B : endpoint := (2, 80).
Definition Y1 : endpoint := (7, 4000).
Definition Y2 : endpoint := (8, 80).
Definition S : N := 1000000.

Definition tp (ts file idx : N) (src dst : endpoint) (syn ack : bool) (seq : N) (data : list N) : packet :=
  mkPacket ts file idx src dst true syn ack false false seq data.

(* history: handshake of X = A>B; client data behind a gap (queued); server data behind a gap (queued); two pure ACKs
   of the client; and one packet of an unrelated connection Y in between *)
Definition hist : list packet :=
  [ tp 0 0 0 A B true false 100 [];
    tp 1 0 1 B A true true 500 [];
    tp 2 0 2 A B false true 101 [];
    tp (10 * S) 0 3 A B false true 107 [67];          (* "C", bytes 101..106 missing from the capture *)
    tp (100 * S) 0 4 B A false true 507 [83];         (* "S", bytes 501..506 missing *)
    tp (250 * S) 0 5 A B false true 101 [];
    tp (350 * S) 0 6 Y1 Y2 false true 9000 [];        (* foreign packet: flush at 350 s emits "C" only *)
    tp (500 * S) 0 7 A B false true 101 [] ].
Definition newp : list packet := [ tp (750 * S) 1 0 A B false true 101 [] ].

Definition Tsnap : N := 700 * S.
Definition state_at_T : asm := asm_flush (fold_left (asm_step (fun a => a)) hist asm0) Tsnap.
Definition snapX : snapshot := mkSnap Tsnap (referenced state_at_T Tsnap).

Definition views (fed : list packet) (bts : option N) : list (list (bool * list N)) :=
  map (fun s => coalesce (stream_data s)) (filter (touchedb [1]) (loop_fac (fun a => a) 1000000 false bts [] fed)).

(* the snapshot references the whole connection X and nothing of Y *)
Example snapX_refs : sn_refs snapX = [(0, 0); (0, 1); (0, 2); (0, 3); (0, 4); (0, 5); (0, 7)].
Proof. vm_compute. reflexivity. Qed.

Theorem replay_ok_tcp_refuted :
  views (hist ++ newp) None = [[(false, [67]); (true, [83])]] /\
  views (filter (keepb snapX) (hist ++ newp)) (Some Tsnap) = [[(true, [83]); (false, [67])]].
Proof. vm_compute. split; reflexivity. Qed.
