(* TagsC16C.v -- C16 completeness: every stream matching a tag with an attached converter is cached, queued or
   in flight; at rest it is cached with the current version. *)
From Coq Require Import List NArith Bool Lia Arith.
From Pk Require Import Tags TagsC16 TagsC06 TagsC09 TagsC09T TagsC09A.
Import ListNotations.
Open Scope N_scope.

Definition inflight (st : state) (c id : N) : Prop :=
  exists j, jconv st = Some j /\ cj_done j = false /\ exists s, In (c, s) (cj_sets j) /\ mem id s = true.

Definition J (st : state) (c id : N) : Prop :=
  cache st c id <> None \/ mem id (toconv st c) = true \/ inflight st c id.

Definition QC (st : state) : Prop :=
  forall n t c id, In (n, t) (tags st) -> t_live t = true -> memN c (t_conv t) = true -> mem id (t_m t) = true -> J st c id.

Definition Qaux (st : state) : Prop :=
  (forall c, bounded (next st) (toconv st c)) /\
  (forall j, jconv st = Some j -> cj_done j = false -> forall cs, In cs (cj_sets j) -> bounded (cj_next j) (snd cs)).

Definition Qinv (st : state) : Prop := QC st /\ Qaux st.

Lemma qc_transfer st st' :
  QC st ->
  (forall c id, J st c id -> J st' c id) ->
  (forall n t' c id, In (n, t') (tags st') -> t_live t' = true -> memN c (t_conv t') = true -> mem id (t_m t') = true ->
     (exists n0 t, In (n0, t) (tags st) /\ t_live t = true /\ memN c (t_conv t) = true /\ mem id (t_m t) = true) \/ J st' c id) ->
  QC st'.
Proof.
  intros Q HJ HT n t' c id I L C M. destruct (HT n t' c id I L C M) as [(n0 & t & I0 & L0 & C0 & M0)|H]; [|exact H].
  apply HJ. exact (Q n0 t c id I0 L0 C0 M0).
Qed.

(* J only reads cache, toconv and the converter job *)
Lemma J_frame st st' c id : cache st' = cache st -> toconv st' = toconv st -> jconv st' = jconv st -> J st c id -> J st' c id.
Proof. unfold J, inflight. intros -> -> ->. auto. Qed.

(* tags related position-wise with the same liveness, converters and matches *)
Definition cm1 (a b : N * tag) : Prop :=
  fst a = fst b /\ t_live (snd a) = t_live (snd b) /\ t_conv (snd a) = t_conv (snd b) /\ t_m (snd a) = t_m (snd b).

Lemma cm_back a b n t' : Forall2 cm1 a b -> In (n, t') b ->
  exists t, In (n, t) a /\ t_live t = t_live t' /\ t_conv t = t_conv t' /\ t_m t = t_m t'.
Proof.
  intros H I. destruct (Forall2_In_r _ _ _ _ H I) as ([k t] & I0 & (E1 & E2 & E3 & E4)). simpl in *. subst k. exists t. auto.
Qed.

Lemma qc_cm st st' : QC st -> Forall2 cm1 (tags st) (tags st') -> (forall c id, J st c id -> J st' c id) -> QC st'.
Proof.
  intros Q CM HJ. apply (qc_transfer st st' Q HJ). intros n t' c id I L C M. left.
  destruct (cm_back _ _ _ _ CM I) as (t & I0 & E1 & E2 & E3). exists n, t. rewrite E1, E2, E3. auto.
Qed.

Lemma cm_refl ts : Forall2 cm1 ts ts.
Proof. induction ts; constructor; [unfold cm1; auto|assumption]. Qed.
Lemma cm_trans a b c : Forall2 cm1 a b -> Forall2 cm1 b c -> Forall2 cm1 a c.
Proof.
  intros H. revert c. induction H as [|x y ra rb (A1 & A2 & A3 & A4) HR IH]; intros c Hc; inversion Hc; subst; constructor.
  - destruct H1 as (B1 & B2 & B3 & B4). unfold cm1. repeat split; congruence.
  - apply IH; assumption.
Qed.
Lemma cm_map (g : tag -> tag) ts : (forall t, t_live (g t) = t_live t /\ t_conv (g t) = t_conv t /\ t_m (g t) = t_m t) ->
  Forall2 cm1 ts (map (fun nt => (fst nt, g (snd nt))) ts).
Proof.
  intros Hg. induction ts as [|[k t] r IH]; simpl; constructor; [|exact IH]. destruct (Hg t) as (A & B & C). unfold cm1; simpl. auto.
Qed.
Lemma cm_inherit allS ts : Forall2 cm1 ts (inherit allS ts).
Proof.
  induction ts as [|[k t] r IH]; simpl; constructor; [|exact IH].
  destruct (inherit_one_rest allS (inherit allS r) t) as (_ & E2 & E3 & E4). unfold cm1; simpl. auto.
Qed.
Lemma cm_invalidate_tags k allS u r a ts : Forall2 cm1 ts (invalidate_tags k allS u r a ts).
Proof.
  unfold invalidate_tags. eapply cm_trans; [|apply cm_inherit]. apply cm_map. intros t.
  destruct (invalidate_one_rest k allS u r a t) as (_ & E2 & E3). split; [exact E2|split; [|exact E3]].
  unfold invalidate_one. destruct (negb (t_live t)); [reflexivity|]. destruct (d_sub (t_def t)); [reflexivity|].
  destruct (d_idonly (t_def t)); [destruct (kf_idonly k); reflexivity|reflexivity].
Qed.
Lemma cm_data_tags s ts : Forall2 cm1 ts (data_tags_uncertain s ts).
Proof.
  unfold data_tags_uncertain.
  apply (cm_map (fun t => if d_data (t_def t) then mkTag0 (t_def t) (t_m t) (union (t_u t) s) (t_conv t) (t_live t) else t)).
  intros t. destruct (d_data (t_def t)); simpl; auto.
Qed.

(* ---------------------------------------------------------------- elems enumerates the set *)
Lemma elems_aux_complete fuel : forall k s i, k <= i -> i < k + N.of_nat fuel -> mem i s = true -> In i (elems_aux fuel k s).
Proof.
  induction fuel as [|f IH]; intros k s i L1 L2 M; [simpl in L2; lia|]. simpl.
  destruct (N.eq_dec k i) as [->|NE].
  - rewrite M. left. reflexivity.
  - assert (In i (elems_aux f (k + 1) s)) as I by (apply IH; [lia|lia|exact M]).
    destruct (mem k s); [right; exact I|exact I].
Qed.

Lemma mem_lt_size i s : mem i s = true -> i < N.size s.
Proof.
  intros M. destruct s as [|p]; [rewrite mem_0 in M; discriminate|].
  destruct (N.lt_ge_cases i (N.size (N.pos p))) as [L|G]; [exact L|]. exfalso.
  unfold mem in M. rewrite N.bits_above_log2 in M; [discriminate|].
  rewrite N.size_log2 in G by discriminate. lia.
Qed.

Lemma elems_complete s i : mem i s = true -> In i (elems s).
Proof.
  intros M. unfold elems. apply elems_aux_complete; [lia| |exact M].
  rewrite N2Nat.id. pose proof (mem_lt_size i s M). lia.
Qed.

Lemma fold_hit_mem (cch : N -> option N) l : forall acc i,
  (mem i acc = true \/ (In i l /\ cch i <> None)) ->
  mem i (fold_left (fun a x => match cch x with Some _ => add1 x a | None => a end) l acc) = true.
Proof.
  induction l as [|x l IH]; simpl; intros acc i [H|(I & C)]; try exact H; try (destruct I; fail).
  - apply IH. left. destruct (cch x); [rewrite mem_add1, H; reflexivity|exact H].
  - destruct I as [->|I]; apply IH.
    + left. destruct (cch i); [rewrite mem_add1, N.eqb_refl; apply orb_true_r|congruence].
    + right. split; assumption.
Qed.

Lemma fold_hit_sub (cch : N -> option N) l : forall acc i,
  mem i (fold_left (fun a x => match cch x with Some _ => add1 x a | None => a end) l acc) = true ->
  mem i acc = true \/ cch i <> None.
Proof.
  induction l as [|x l IH]; simpl; intros acc i H; [left; exact H|].
  apply IH in H. destruct H as [H|H]; [|right; exact H].
  destruct (cch x) eqn:E; [|left; exact H]. rewrite mem_add1 in H. apply orb_true_iff in H.
  destruct H as [H|H]; [left; exact H|right]. apply N.eqb_eq in H. subst. congruence.
Qed.

(* ---------------------------------------------------------------- J under the converter helpers *)
Lemma J_invalidate st s c id : J st c id -> J (invalidate_converters st s) c id.
Proof.
  intros [H|[H|H]].
  - unfold J. simpl. destruct (memN c (convs st)) eqn:MC; [|left; simpl; exact H].
    destruct (mem id s) eqn:MS; [|left; simpl; exact H].
    right. left. rewrite mem_union. apply orb_true_iff. right. apply fold_hit_mem. right. split; [apply elems_complete; exact MS|exact H].
  - right. left. simpl. destruct (memN c (convs st)); [rewrite mem_union, H; reflexivity|exact H].
  - right. right. exact H.
Qed.

Lemma In_memN c l : In c l -> memN c l = true.
Proof. intros I. unfold memN. apply existsb_exists. exists c. split; [exact I|apply N.eqb_refl]. Qed.

Lemma qc_invalidate st s : QC st -> QC (invalidate_converters st s).
Proof. intros Q. apply (qc_cm st); [exact Q|apply cm_refl|intros c id; apply J_invalidate]. Qed.

Lemma J_start_converter st c id : J st c id -> J (start_converter st) c id.
Proof.
  intros HJ. unfold start_converter. destruct (jconv st) eqn:JC; [exact HJ|].
  destruct (filter (fun c0 => negb (is0 (toconv st c0))) (convs st)) as [|c0 l] eqn:F.
  - exact HJ.
  - destruct HJ as [H|[H|(j & E & _)]]; [left; exact H| |congruence].
    destruct (memN c (c0 :: l)) eqn:MA.
    + right. right. unfold inflight. simpl. eexists. split; [reflexivity|split; [reflexivity|]].
      exists (toconv st c). split; [|exact H].
      change (In (c, toconv st c) (map (fun c1 => (c1, toconv st c1)) (c0 :: l))).
      apply in_map_iff. exists c. split; [reflexivity|apply memN_In; exact MA].
    + right. left. cbn [toconv set_cupd set_jconv set_toconv]. rewrite MA. exact H.
Qed.

Lemma qc_start_converter st : QC st -> QC (start_converter st).
Proof.
  intros Q. apply (qc_cm st); [exact Q| |intros c id; apply J_start_converter].
  replace (tags (start_converter st)) with (tags st); [apply cm_refl|].
  unfold start_converter. destruct (jconv st); [reflexivity|]. destruct (filter _ (convs st)); reflexivity.
Qed.

Lemma start_tagging_keep p st :
  tags (start_tagging p st) = tags st /\ cache (start_tagging p st) = cache st /\ toconv (start_tagging p st) = toconv st /\
  jconv (start_tagging p st) = jconv st /\ convs (start_tagging p st) = convs st /\ next (start_tagging p st) = next st.
Proof.
  unfold start_tagging. destruct (jtag st); [repeat split|].
  destruct (if eligible (tags st) p then Some p else first_eligible (tags st)); [|repeat split].
  destruct (tget n (tags st)); repeat split.
Qed.
Lemma start_merge_keep st :
  tags (start_merge st) = tags st /\ cache (start_merge st) = cache st /\ toconv (start_merge st) = toconv st /\
  jconv (start_merge st) = jconv st /\ convs (start_merge st) = convs st /\ next (start_merge st) = next st.
Proof. unfold start_merge. destruct (merge_eligible st); repeat split. Qed.

Lemma qc_start_tagging p st : QC st -> QC (start_tagging p st).
Proof.
  intros Q. destruct (start_tagging_keep p st) as (FG & FC & FT & FJ & _).
  apply (qc_cm st); [exact Q|rewrite FG; apply cm_refl|intros c id; apply J_frame; assumption].
Qed.

Lemma qc_start_merge st : QC st -> QC (start_merge st).
Proof.
  intros Q. destruct (start_merge_keep st) as (FG & FC & FT & FJ & _).
  apply (qc_cm st); [exact Q|rewrite FG; apply cm_refl|intros c id; apply J_frame; assumption].
Qed.

Lemma qc_starts p st : QC st -> QC (start_merge (start_converter (start_tagging p st))).
Proof. intros. apply qc_start_merge, qc_start_converter, qc_start_tagging. assumption. Qed.

(* detachConverterFromTag: the other tags that use the converter keep their queue entries and the cache *)
Lemma mem_matching c n (ts : tags_t) : forall acc id,
  mem id (fold_left (fun a nt => if negb (fst nt =? n) && tag_has_conv c (snd nt) then union a (t_m (snd nt)) else a) ts acc) = true <->
  (mem id acc = true \/ exists k t, In (k, t) ts /\ k <> n /\ tag_has_conv c t = true /\ mem id (t_m t) = true).
Proof.
  induction ts as [|[k t] r IH]; simpl; intros acc id.
  - split; [auto|intros [H|(k & t & [] & _)]; exact H].
  - rewrite IH. split.
    + intros [H|(k0 & t0 & I & R)]; [|right; exists k0, t0; split; [right; exact I|exact R]].
      destruct (N.eqb_spec k n); simpl in H; [left; exact H|].
      destruct (tag_has_conv c t) eqn:E; simpl in H; [|left; exact H].
      rewrite mem_union in H. apply orb_true_iff in H. destruct H as [H|H]; [left; exact H|].
      right. exists k, t. split; [left; reflexivity|auto].
    + intros [H|(k0 & t0 & [E|I] & NE & HC & M)].
      * left. destruct (negb (k =? n) && tag_has_conv c t); [rewrite mem_union, H; reflexivity|exact H].
      * inversion E; subst. left. destruct (N.eqb_spec k0 n); [congruence|]. simpl. rewrite HC, mem_union, M. apply orb_true_r.
      * right. exists k0, t0. auto.
Qed.

Lemma qc_detach st n c : sorted (tags st) -> QC st -> QC (detach st n c).
Proof.
  intros So Q. unfold detach. destruct (tget n (tags st)) as [t|] eqn:Tn; [|exact Q].
  destruct (tget_In _ _ _ Tn) as (In_n & Ln).
  set (t' := mkTag (t_def t) (t_m t) (t_u t) (filter (fun x => negb (x =? c)) (t_conv t))).
  set (ts := tset n t' (tags st)).
  set (matching := fold_left (fun a nt => if negb (fst nt =? n) && tag_has_conv c (snd nt) then union a (t_m (snd nt)) else a) ts 0).
  assert (forall k0 t0 c0 id, In (k0, t0) ts -> t_live t0 = true -> memN c0 (t_conv t0) = true -> mem id (t_m t0) = true ->
            exists t1, In (k0, t1) (tags st) /\ t_live t1 = true /\ memN c0 (t_conv t1) = true /\ mem id (t_m t1) = true /\
                       (c0 = c -> k0 <> n /\ mem id matching = true)) as BK.
  { intros k0 t0 c0 id I L C M. destruct (In_tset _ _ _ _ _ I) as [(-> & ->)|(NE & I0)].
    - exists t. simpl in C, M. unfold memN in C. apply existsb_exists in C. destruct C as (x & Ix & Ex). apply N.eqb_eq in Ex. subst x.
      apply filter_In in Ix. destruct Ix as (Ix & Nx). split; [exact In_n|split; [exact Ln|split; [apply In_memN; exact Ix|split; [exact M|]]]].
      intros ->. rewrite N.eqb_refl in Nx. discriminate.
    - exists t0. split; [exact I0|split; [exact L|split; [exact C|split; [exact M|]]]].
      intros ->. split; [exact NE|]. unfold matching. apply mem_matching. right. exists k0, t0. split; [exact I|auto]. }
  assert (forall st', tags st' = ts -> toconv st' = fupd (toconv st) c (diff (toconv st c) (diff (t_m t) matching)) ->
            jconv st' = jconv st -> (forall c0 id, (c0 <> c \/ mem id matching = true) -> cache st c0 id <> None -> cache st' c0 id <> None) -> QC st') as G.
  { intros st' ET EC EJ ECa k0 t0 c0 id I L C M. rewrite ET in I.
    destruct (BK k0 t0 c0 id I L C M) as (t1 & I1 & L1 & C1 & M1 & SP).
    destruct (Q k0 t1 c0 id I1 L1 C1 M1) as [H|[H|(j & E1 & E2 & E3)]].
    - left. apply ECa; [|exact H]. destruct (N.eq_dec c0 c) as [->|NE]; [right; exact (proj2 (SP eq_refl))|left; exact NE].
    - right. left. rewrite EC. unfold fupd. destruct (N.eqb_spec c0 c) as [->|NE]; [|exact H].
      rewrite mem_diff, H. simpl. rewrite mem_diff, (proj2 (SP eq_refl)). simpl. rewrite andb_false_r. reflexivity.
    - right. right. exists j. rewrite EJ. auto. }
  destruct (is0 matching) eqn:Z.
  - apply G; try reflexivity. intros c0 id [NE|MM] H; simpl.
    + destruct (N.eqb_spec c0 c); [congruence|exact H].
    + apply is0_true in Z. rewrite Z, mem_0 in MM. discriminate.
  - apply G; try reflexivity. intros c0 id _ H. exact H.
Qed.

Lemma qc_attach st n c st' : sorted (tags st) -> attach st n c = Some st' -> QC st -> QC st'.
Proof.
  intros So E Q. unfold attach in E. destruct (tget n (tags st)) as [t|] eqn:Tn; [|inversion E; subst; exact Q].
  destruct (tag_has_conv c t) eqn:HC; [inversion E; subst; exact Q|]. destruct (complex (t_def t)); [discriminate|]. inversion E; subst; clear E.
  destruct (tget_In _ _ _ Tn) as (In_n & Ln).
  apply (qc_transfer st); [exact Q| |].
  - intros c0 id [H|[H|(j & E1 & E2)]]; [left; exact H|right; left|right; right; exists j; auto].
    simpl. unfold fupd. destruct (c0 =? c) eqn:EC; [apply N.eqb_eq in EC; subst; rewrite mem_union, H; reflexivity|exact H].
  - intros k0 t0 c0 id I L C M. simpl in I. destruct (In_tset _ _ _ _ _ I) as [(-> & ->)|(NE & I0)].
    + simpl in C, M. unfold memN in C. rewrite existsb_app in C. apply orb_true_iff in C. destruct C as [C|C].
      * left. exists n, t. auto.
      * simpl in C. rewrite orb_false_r in C. apply N.eqb_eq in C. subst c0. right. right. left. simpl.
        unfold fupd. rewrite N.eqb_refl, mem_union, M. apply orb_true_r.
    + left. exists k0, t0. auto.
Qed.

Definition TQ (st : state) : Prop := Tcore st /\ QC st.

Lemma tq_detach st n c : TQ st -> TQ (detach st n c).
Proof. intros (TC & Q). split; [apply detach_core; exact TC|apply qc_detach; [exact (proj1 TC)|exact Q]]. Qed.

Lemma tq_fold (f : state -> N -> state) l : (forall s c, TQ s -> TQ (f s c)) -> forall st, TQ st -> TQ (fold_left f l st).
Proof. intros Hf. induction l; simpl; auto. Qed.

Lemma tq_attach_all cs : forall st n, TQ st -> TQ (fst (attach_all st n cs)).
Proof.
  induction cs as [|c cs IH]; simpl; intros st n H; [exact H|].
  destruct (memN c (convs st)); [|exact H]. destruct (attach st n c) eqn:E; [|exact H].
  apply IH. destruct H as (TC & Q). split; [eapply attach_core; eassumption|eapply qc_attach; [exact (proj1 TC)|exact E|exact Q]].
Qed.

(* completeness speaks about converters that answer: histories / schedules in which no conversion fails.  A failing
   conversion (ABodyConvert with a non-empty list) is discarded after the second attempt and leaves no output. *)
Definition nofail (a : action) : Prop := match a with ABodyConvert bad => bad = [] | _ => True end.
Definition nofail_history (l : list (N * action)) : Prop := Forall (fun pa => nofail (snd pa)) l.

Lemma conv_ok_nil nx c i : conv_ok [] nx c i = (i <? nx).
Proof. unfold conv_ok. simpl. apply andb_true_r. Qed.

(* the converter job body caches everything it was given *)
Lemma J_bconv st j c id : jconv st = Some j -> cj_done j = false -> NoDup (map fst (cj_sets j)) ->
  (forall cs, In cs (cj_sets j) -> bounded (cj_next j) (snd cs)) -> J st c id -> J (bconv_state [] st j) c id.
Proof.
  intros JC D ND BD [H|[H|(j0 & E1 & E2 & s & I & M)]].
  - left. unfold bconv_state. simpl. destruct (cache st c id); [discriminate|congruence].
  - right. left. exact H.
  - rewrite JC in E1. inversion E1; subst j0. left. unfold bconv_state. simpl.
    destruct (cache st c id) eqn:CC; [discriminate|].
    assert (lookupN c (bconv_sets [] st j) = fold_left (fun a i => match cache st c i with Some _ => a | None => if conv_ok [] (cj_next j) c i then add1 i a else a end) (elems s) 0) as ->.
    { apply lookupN_nodup; [unfold bconv_sets; rewrite map_map; simpl; exact ND|].
      unfold bconv_sets. apply in_map_iff. exists (c, s). split; [reflexivity|exact I]. }
    assert (mem id (fold_left (fun a i => match cache st c i with Some _ => a | None => if conv_ok [] (cj_next j) c i then add1 i a else a end) (elems s) 0) = true) as ->; [|discriminate].
    pose proof (BD (c, s) I id M) as Lt. simpl in Lt. apply elems_complete in M. clear - M CC Lt.
    assert (forall l acc, (mem id acc = true \/ In id l) ->
       mem id (fold_left (fun a i => match cache st c i with Some _ => a | None => if conv_ok [] (cj_next j) c i then add1 i a else a end) l acc) = true) as G.
    { induction l as [|x l IH]; simpl; intros acc [H|H]; try exact H; try (destruct H; fail).
      - apply IH. left. destruct (cache st c x); [exact H|]. destruct (conv_ok [] (cj_next j) c x); [rewrite mem_add1, H; reflexivity|exact H].
      - destruct H as [->|H]; apply IH; [left|right; exact H].
        rewrite CC, conv_ok_nil. destruct (N.ltb_spec id (cj_next j)); [rewrite mem_add1, N.eqb_refl; apply orb_true_r|lia]. }
    apply G. right. exact M.
Qed.

(* a conversion that fails leaves no output *)
Lemma failed_not_cached bad st j c i : memN c (map fst (cj_sets j)) = true \/ True ->
  existsb (fun p => (fst p =? c) && (snd p =? i)) bad = true -> cache st c i = None -> NoDup (map fst (cj_sets j)) ->
  cache (bconv_state bad st j) c i = None.
Proof.
  intros _ B CC ND. unfold bconv_state. simpl. rewrite CC.
  destruct (mem i (lookupN c (bconv_sets bad st j))) eqn:M; [|reflexivity]. exfalso.
  unfold lookupN in M. destruct (find (fun p => fst p =? c) (bconv_sets bad st j)) as [[c0 s0]|] eqn:F; [|rewrite mem_0 in M; discriminate].
  simpl in M. destruct (find_some _ _ F) as (I & E). simpl in E. apply N.eqb_eq in E. subst c0.
  unfold bconv_sets in I. apply in_map_iff in I. destruct I as (cs & E & _). inversion E; subst; clear E.
  assert (forall l acc, mem i (fold_left (fun a x => match cache st (fst cs) x with Some _ => a | None => if conv_ok bad (cj_next j) (fst cs) x then add1 x a else a end) l acc) = true -> mem i acc = true) as G.
  { induction l as [|x l IH]; simpl; intros acc H; [exact H|]. apply IH in H.
    destruct (cache st (fst cs) x); [exact H|]. destruct (conv_ok bad (cj_next j) (fst cs) x) eqn:CO; [|exact H].
    rewrite mem_add1 in H. apply orb_true_iff in H. destruct H as [H|H]; [exact H|]. apply N.eqb_eq in H. subst x.
    unfold conv_ok in CO. rewrite B in CO. rewrite andb_false_r in CO. discriminate. }
  apply G in M. rewrite mem_0 in M. discriminate.
Qed.

(* ---------------------------------------------------------------- QC is preserved by every action *)
Lemma J_mono st st' c id :
  (forall v, cache st c id = Some v -> cache st' c id <> None) -> (mem id (toconv st c) = true -> mem id (toconv st' c) = true) ->
  jconv st' = jconv st -> J st c id -> J st' c id.
Proof.
  intros HC HT HJ [H|[H|(j & E)]].
  - left. destruct (cache st c id) eqn:CC; [apply (HC n eq_refl)|congruence].
  - right. left. apply HT. exact H.
  - right. right. exists j. rewrite HJ. exact E.
Qed.

Lemma qc_after_detach k b st : QC st -> QC (after_detach k b st).
Proof.
  intros Q. unfold after_detach. destruct (kf_detachreset k); [exact Q|].
  destruct (b && has_data_tag (tags st)); [|exact Q].
  apply (qc_cm st); [exact Q|unfold reopen_data; simpl; eapply cm_trans; [apply cm_data_tags|apply cm_inherit]|
    intros c id; apply J_frame; reflexivity].
Qed.
Lemma tq_after_detach k b st : TQ st -> TQ (after_detach k b st).
Proof. intros (TC & Q). split; [apply tcore_after_detach; exact TC|apply qc_after_detach; exact Q]. Qed.
Lemma qc_tag_again k p st : QC st -> QC (tag_again k p st).
Proof. intros Q. unfold tag_again. destruct (kf_detachreset k); [exact Q|apply qc_start_tagging, Q]. Qed.
Lemma tq_tag_again k p st : TQ st -> TQ (tag_again k p st).
Proof. intros (TC & Q). split; [apply tcore_tag_again; exact TC|apply qc_tag_again; exact Q]. Qed.

Lemma qc_tset_back st st' n tp :
  tags st' = tset n tp (tags st) -> QC st -> (forall c id, J st c id -> J st' c id) ->
  (t_live tp = true -> forall c id, memN c (t_conv tp) = true -> mem id (t_m tp) = true ->
     (exists n0 t, In (n0, t) (tags st) /\ t_live t = true /\ memN c (t_conv t) = true /\ mem id (t_m t) = true) \/ J st' c id) ->
  QC st'.
Proof.
  intros ET Q HJ HN. apply (qc_transfer st st' Q HJ). intros k t' c id I L C M. rewrite ET in I.
  destruct (In_tset _ _ _ _ _ I) as [(-> & ->)|(_ & I0)]; [apply HN; assumption|left; exists k, t'; auto].
Qed.

Lemma qc_tags_cm st ts' : QC st -> Forall2 cm1 (tags st) ts' -> QC (set_tags st ts').
Proof. intros Q CM. apply (qc_cm st); [exact Q|exact CM|intros c id; apply J_frame; reflexivity]. Qed.

Theorem qc_step p a st : Tinv st -> Qinv st -> valid st a -> nofail a -> QC (step repaired p a st).
Proof.
  intros TI (Q & QA) V NF. pose proof (proj1 (Tinv_split st) TI) as (TC & _ & _). pose proof TC as (So & _).
  destruct a.
  - (* AImport *) simpl. destruct files; [exact Q|]. match goal with |- context[if ?b then _ else _] => destruct b end;
      (apply (qc_cm st); [exact Q|apply cm_refl|intros c id; apply J_frame; reflexivity]).
  - (* AAddTag *) simpl. destruct (tget n (tags st)); [exact Q|]. destruct (refs_ok n d (tags st)); [|exact Q].
    destruct (d_mark d); [|apply qc_start_tagging];
      (eapply (qc_tset_back st); [reflexivity|exact Q|intros c id; apply J_frame; reflexivity|simpl; intros; discriminate]).
  - (* ADelTag *) simpl. destruct (tget n (tags st)) as [t|]; [|exact Q]. destruct (referenced n (tags st)); [exact Q|].
    set (st1 := fold_left (fun s c => detach s n c) (t_conv t) st).
    assert (TQ st1) as TQ1 by (apply tq_fold; [intros; apply tq_detach; assumption|split; assumption]).
    apply qc_tag_again.
    match goal with |- QC (set_tags ?s2 _) => set (st2 := s2) end.
    assert (QC st2) as Q2 by (apply tq_after_detach; exact TQ1).
    eapply (qc_tset_back st2); [reflexivity|exact Q2|intros c id; apply J_frame; reflexivity|simpl; intros; discriminate].
  - (* AQuery *) simpl. destruct (tget n (tags st)) as [t|]; [|exact Q]. destruct (complex d && _); [exact Q|]. destruct (refs_ok n d (tags st)); [|exact Q].
    apply qc_start_converter, qc_start_tagging.
    assert (QC (set_tags st (tset n (mkTag d 0 (all st) (t_conv t)) (tags st)))) as Q1.
    { eapply (qc_tset_back st); [reflexivity|exact Q|intros c id; apply J_frame; reflexivity|].
      simpl. intros _ c id _ M. try rewrite mem_0 in M. discriminate. }
    apply (qc_cm _ _ Q1); [simpl; apply cm_inherit|intros c id; apply J_frame; reflexivity].
  - (* AMarkAdd *) simpl. destruct (tget n (tags st)) as [t|] eqn:Tn; [|exact Q]. destruct ids as [|i0 ids]; [exact Q|].
    destruct (next st <=? maxl (i0 :: ids)); [exact Q|]. destruct (tget_In _ _ _ Tn) as (In_n & Ln).
    apply qc_start_converter, qc_start_tagging.
    set (newset := fold_left (fun a s => add1 s a) (filter (fun s => negb (mem s (t_m t))) (i0 :: ids)) 0).
    set (st1 := queue_matches st (t_conv t) newset).
    assert (forall c id, J st c id -> J st1 c id) as J1.
    { intros c id. apply J_mono; [intros v E; simpl; congruence| |reflexivity].
      intros H. simpl. destruct (memN c (t_conv t)); [rewrite mem_union, H; reflexivity|exact H]. }
    match goal with |- QC (set_tags st1 ?T2) => set (ts2 := T2) end.
    match goal with ts2 := match tget n ?T1 with _ => _ end |- _ => set (ts1 := T1) in * end.
    match goal with ts1 := inherit _ (tset n ?TP _) |- _ => set (t' := TP) in * end.
    assert (QC (set_tags st1 ts1)) as Q1.
    { assert (QC (set_tags st1 (tset n t' (tags st1)))) as Q0.
      { eapply (qc_tset_back st); [reflexivity|exact Q|intros c id H; apply (J_frame st1); try reflexivity; apply J1; exact H|].
        simpl. intros _ c id C M. rewrite mem_union in M. apply orb_true_iff in M. destruct M as [M|M].
        - left. exists n, t. auto.
        - right. right. left. simpl. rewrite C, mem_union, M. apply orb_true_r. }
      apply (qc_cm _ _ Q0); [simpl; apply cm_inherit|intros c id; apply J_frame; reflexivity]. }
    unfold ts2. destruct (tget n ts1) as [x|] eqn:Tx; [|exact Q1].
    eapply (qc_tset_back (set_tags st1 ts1)); [reflexivity|exact Q1|intros c id; apply J_frame; reflexivity|].
    simpl. intros _ c id C M. left. destruct (tget_In _ _ _ Tx) as (Ix & Lx). exists n, x. auto.
  - (* AMarkDel *) simpl. destruct (tget n (tags st)) as [t|] eqn:Tn; [|exact Q]. destruct ids as [|i0 ids]; [exact Q|].
    destruct (next st <=? maxl (i0 :: ids)); [exact Q|]. destruct (tget_In _ _ _ Tn) as (In_n & Ln).
    apply qc_start_converter, qc_start_tagging.
    match goal with |- QC (set_tags st ?T2) => set (ts2 := T2) end.
    match goal with ts2 := match tget n ?T1 with _ => _ end |- _ => set (ts1 := T1) in * end.
    match goal with ts1 := inherit _ (tset n ?TP _) |- _ => set (t' := TP) in * end.
    assert (QC (set_tags st ts1)) as Q1.
    { assert (QC (set_tags st (tset n t' (tags st)))) as Q0.
      { eapply (qc_tset_back st); [reflexivity|exact Q|intros c id; apply J_frame; reflexivity|].
        simpl. intros _ c id C M. rewrite mem_diff in M. apply andb_true_iff in M. left. exists n, t. split; [exact In_n|split; [exact Ln|split; [exact C|exact (proj1 M)]]]. }
      apply (qc_cm _ _ Q0); [simpl; apply cm_inherit|intros c id; apply J_frame; reflexivity]. }
    unfold ts2. destruct (tget n ts1) as [x|] eqn:Tx; [|exact Q1].
    eapply (qc_tset_back (set_tags st ts1)); [reflexivity|exact Q1|intros c id; apply J_frame; reflexivity|].
    simpl. intros _ c id C M. left. destruct (tget_In _ _ _ Tx) as (Ix & Lx). exists n, x. auto.
  - (* ASetConv *) simpl. destruct (tget n (tags st)); [|exact Q].
    match goal with |- context[if ?b then _ else _] => destruct b end; [|exact Q].
    apply qc_start_converter. apply tq_tag_again, tq_attach_all, tq_after_detach. apply tq_fold; [|split; assumption].
    intros s c Hs. destruct (memN c cs); [exact Hs|apply tq_detach; exact Hs].
  - (* ABodyImport *) simpl. destruct (jimp st) as [j|]; [|exact Q]. destruct (ij_resp j); [exact Q|].
    apply (qc_cm st); [exact Q|apply cm_refl|intros c id; apply J_frame; reflexivity].
  - (* ABodyTag *) simpl. destruct (jtag st) as [j|]; [|exact Q]. destruct (tj_res j); [exact Q|].
    apply (qc_cm st); [exact Q|apply cm_refl|intros c id; apply J_frame; reflexivity].
  - (* ABodyConvert *) destruct (jconv st) as [j|] eqn:JC; [|simpl; rewrite JC; exact Q].
    destruct (cj_done j) eqn:D; [simpl; rewrite JC, D; exact Q|]. simpl in NF. subst bad. rewrite (bconv_eq st p [] j JC D).
    destruct TC as (_ & _ & _ & _ & _ & _ & _ & _ & _ & (_ & NJ) & _). destruct (NJ j JC) as (ND & _). destruct QA as (_ & BJ).
    apply (qc_cm st); [exact Q|apply cm_refl|intros c id; apply J_bconv; auto].
  - (* ABodyMerge *) simpl. destruct (jmerge st) as [j|]; [|exact Q]. destruct (mj_res j); [exact Q|].
    apply (qc_cm st); [exact Q|apply cm_refl|intros c id; apply J_frame; reflexivity].
  - (* AComplete *) destruct k.
    + simpl. destruct (jimp st) as [[nf [r|]]|] eqn:JI; try exact Q. apply qc_starts.
      assert (forall st1, QC st1 ->
        QC (match skipn (ir_proc r) (queue st1) with
            | [] => set_queue st1 (skipn (ir_proc r) (queue st1))
            | _ :: _ => set_jimp (set_queue st1 (skipn (ir_proc r) (queue st1))) (Some (mkImp (length (skipn (ir_proc r) (queue st1))) None)) end)) as HQ.
      { intros st1 Q1. destruct (skipn (ir_proc r) (queue st1)); (apply (qc_cm st1); [exact Q1|apply cm_refl|intros c id; apply J_frame; reflexivity]). }
      destruct (ir_idx r) eqn:EI.
      * apply HQ. apply (qc_cm st); [exact Q|apply cm_refl|intros c id; apply J_frame; reflexivity].
      * apply HQ. simpl.
        match goal with |- QC (invalidate_converters ?SA ?S) =>
          apply (qc_cm st); [exact Q|simpl; apply cm_invalidate_tags|intros c id H; apply J_invalidate; apply (J_frame st SA); try reflexivity; exact H] end.
    + destruct (jtag st) as [[n d m0 u0 cv snap h [res|]]|] eqn:JT; try (simpl; rewrite JT; exact Q).
      rewrite (ctag_eq st p n d m0 u0 cv snap h res JT). apply qc_starts.
      unfold ctag_pre. cbv zeta. change (tags (set_jtag st None)) with (tags st).
      destruct (tget n (tags st)) as [ot|] eqn:Tn; [|apply (qc_cm st); [exact Q|apply cm_refl|intros c id; apply J_frame; reflexivity]].
      destruct (defn_eqb (t_def ot) d); [|apply (qc_cm st); [exact Q|apply cm_refl|intros c id; apply J_frame; reflexivity]].
      set (stq := queue_matches (set_jtag st None) (t_conv ot) res).
      assert (forall c id, J st c id -> J stq c id) as J1.
      { intros c id. apply J_mono; [intros v E; simpl; congruence| |reflexivity].
        intros H. simpl. destruct (memN c (t_conv ot)); [rewrite mem_union, H; reflexivity|exact H]. }
      match goal with |- QC (set_tags stq (if _ then invalidate_tags _ _ _ _ _ ?TS else _)) => set (ts1 := TS) end.
      assert (QC (set_tags stq ts1)) as Q0.
      { eapply (qc_tset_back st); [reflexivity|exact Q|intros c id H; apply (J_frame stq); try reflexivity; apply J1; exact H|].
        simpl. intros _ c id C M. right. right. left. simpl. rewrite C, mem_union, M. apply orb_true_r. }
      destruct (dirty_of st); (apply (qc_cm _ _ Q0); [simpl; first [apply cm_invalidate_tags|apply cm_inherit]|intros c id; apply J_frame; reflexivity]).
    + destruct (jconv st) as [[sets v nx [|]]|] eqn:JC; try (simpl; rewrite JC; exact Q).
      rewrite (cconv_eq st p sets v nx JC). apply qc_starts.
      apply (qc_cm st); [exact Q|unfold cconv_pre; simpl; eapply cm_trans; [apply cm_data_tags|apply cm_inherit]|].
      intros c id H. unfold cconv_pre.
      match goal with |- J (set_masks (set_tags ?S0 _) _ _ _) c id => apply (J_frame S0); try reflexivity end.
      apply J_invalidate. destruct H as [H|[H|(j & E1 & E2 & _)]]; [left; exact H|right; left; exact H|].
      rewrite JC in E1. inversion E1; subst. discriminate.
    + simpl. destruct (jmerge st) as [[off snap [merged|]]|]; try exact Q.
      apply qc_start_merge. apply (qc_cm st); [exact Q|apply cm_refl|intros c id; apply J_frame; reflexivity].
  - (* AViewOpen *) simpl. apply (qc_cm st); [exact Q|apply cm_refl|intros c id; apply J_frame; reflexivity].
  - (* AViewData *) cbn [step]. destruct (find _ (views st)) as [[v0 sv]|]; [|exact Q]. destruct (cache st c i) eqn:CC; [exact Q|].
    destruct (negb (i <? next st) || negb (memN c (convs st))); [exact Q|]. cbn [kf_viewstore repaired orb].
    destruct (sv i =? ver st i).
    + apply (qc_cm st); [exact Q|apply cm_refl|]. intros c' id. apply J_mono; [|intros H; exact H|reflexivity].
      intros vv E. simpl. destruct ((c' =? c) && (id =? i)); [discriminate|congruence].
    + apply qc_start_converter.
      match goal with |- QC (set_toconv ?s2 _) => assert (QC s2) as Q2 by (apply (qc_invalidate st (add1 i 0)); exact Q);
        remember s2 as st2 end.
      apply (qc_cm st2); [exact Q2|apply cm_refl|]. intros c' id. apply J_mono; [| |reflexivity].
      * intros vv E. simpl. congruence.
      * intros H. simpl. unfold fupd. destruct (c' =? c) eqn:EC; [apply N.eqb_eq in EC; subst c'; rewrite mem_add1, H; reflexivity|exact H].
  - (* AViewClose *) simpl. apply (qc_cm st); [exact Q|apply cm_refl|intros c id; apply J_frame; reflexivity].
Qed.

(* ---------------------------------------------------------------- queues and job sets stay within the id range *)
Definition Qb (st : state) : Prop := Qaux st.

Lemma qb_frame st st' : next st' = next st -> toconv st' = toconv st -> jconv st' = jconv st -> Qb st -> Qb st'.
Proof. unfold Qb, Qaux. intros -> -> ->. auto. Qed.

Lemma qb_toconv st f : (forall c, bounded (next st) (f c)) -> Qb st -> Qb (set_toconv st f).
Proof. intros H (_ & B). split; [exact H|exact B]. Qed.

Lemma qb_start_converter st : Qb st -> Qb (start_converter st).
Proof.
  intros H. pose proof H as (A & B). unfold start_converter. destruct (jconv st) eqn:J; [exact H|].
  destruct (filter _ (convs st)) as [|c0 l]; [exact H|]. split.
  - intros c. cbn [toconv next set_cupd set_jconv set_toconv]. destruct (memN c (c0 :: l)); [apply bounded_0|apply A].
  - intros j E _ cs I. cbn [jconv set_cupd set_jconv] in E. inversion E; subst; clear E. cbn [cj_sets cj_next] in *.
    change (In cs (map (fun c1 => (c1, toconv st c1)) (c0 :: l))) in I.
    apply in_map_iff in I. destruct I as (c & <- & _). simpl. apply A.
Qed.

Lemma qb_start_tagging p st : Qb st -> Qb (start_tagging p st).
Proof. intros H. destruct (start_tagging_keep p st) as (_ & _ & FT & FJ & _ & FN). apply (qb_frame st); assumption. Qed.
Lemma qb_start_merge st : Qb st -> Qb (start_merge st).
Proof. intros H. destruct (start_merge_keep st) as (_ & _ & FT & FJ & _ & FN). apply (qb_frame st); assumption. Qed.
Lemma qb_starts p st : Qb st -> Qb (start_merge (start_converter (start_tagging p st))).
Proof. intros. apply qb_start_merge, qb_start_converter, qb_start_tagging. assumption. Qed.

Lemma qb_invalidate st s : (forall c i v, cache st c i = Some v -> i < next st) -> Qb st -> Qb (invalidate_converters st s).
Proof.
  intros CB (A & B). split; [|exact B]. intros c. simpl. destruct (memN c (convs st)); [|apply A].
  apply union_bounded; [apply A|]. intros i Hi. apply fold_hit_sub in Hi. destruct Hi as [Hi|Hi]; [rewrite mem_0 in Hi; discriminate|].
  destruct (cache st c i) eqn:E; [eapply CB; exact E|congruence].
Qed.

Lemma qb_queue_matches st cs m : bounded (next st) m -> Qb st -> Qb (queue_matches st cs m).
Proof.
  intros Bm (A & B). split; [|exact B]. intros c. simpl. destruct (memN c cs); [apply union_bounded; [apply A|exact Bm]|apply A].
Qed.

Lemma qb_detach st n c : Qb st -> Qb (detach st n c).
Proof.
  intros H. pose proof H as (A & B). unfold detach. destruct (tget n (tags st)); [|exact H].
  match goal with |- context[if ?b then _ else _] => destruct b end; (split; [|exact B]); intros c'; simpl; unfold fupd;
    (destruct (c' =? c); [apply diff_bounded; apply A|apply A]).
Qed.

Lemma qb_attach st n c st' : tags_bounded (next st) (tags st) -> attach st n c = Some st' -> Qb st -> Qb st'.
Proof.
  intros TB E H. pose proof H as (A & B). unfold attach in E. destruct (tget n (tags st)) as [t|] eqn:Tn; [|inversion E; subst; exact H].
  destruct (tag_has_conv c t); [inversion E; subst; exact H|]. destruct (complex (t_def t)); [discriminate|]. inversion E; subst.
  split; [|exact B]. intros c'. simpl. unfold fupd. destruct (c' =? c); [|apply A].
  apply union_bounded; [apply A|]. destruct (tget_In _ _ _ Tn) as (I & _). exact (proj2 (TB n t I)).
Qed.

Definition TB3 (st : state) : Prop := Tcore st /\ Qb st.
Lemma tb3_detach st n c : TB3 st -> TB3 (detach st n c).
Proof. intros (A & B). split; [apply detach_core; exact A|apply qb_detach; exact B]. Qed.
Lemma tb3_fold (f : state -> N -> state) l : (forall s c, TB3 s -> TB3 (f s c)) -> forall st, TB3 st -> TB3 (fold_left f l st).
Proof. intros Hf. induction l; simpl; auto. Qed.
Lemma qb_after_detach k b st : Qb st -> Qb (after_detach k b st).
Proof.
  intros Q. unfold after_detach. destruct (kf_detachreset k); [exact Q|].
  destruct (b && has_data_tag (tags st)); [|exact Q]. apply (qb_frame st); try reflexivity; exact Q.
Qed.
Lemma tb3_after_detach k b st : TB3 st -> TB3 (after_detach k b st).
Proof. intros (A & B). split; [apply tcore_after_detach; exact A|apply qb_after_detach; exact B]. Qed.
Lemma qb_tag_again k p st : Qb st -> Qb (tag_again k p st).
Proof. intros Q. unfold tag_again. destruct (kf_detachreset k); [exact Q|apply qb_start_tagging, Q]. Qed.
Lemma tb3_tag_again k p st : TB3 st -> TB3 (tag_again k p st).
Proof. intros (A & B). split; [apply tcore_tag_again; exact A|apply qb_tag_again; exact B]. Qed.
Lemma tb3_attach_all cs : forall st n, TB3 st -> TB3 (fst (attach_all st n cs)).
Proof.
  induction cs as [|c cs IH]; simpl; intros st n H; [exact H|].
  destruct (memN c (convs st)); [|exact H]. destruct (attach st n c) eqn:E; [|exact H].
  apply IH. destruct H as (TC & Q). split; [eapply attach_core; eassumption|].
  eapply qb_attach; [|exact E|exact Q]. destruct TC as (_ & _ & _ & TBd & _). exact TBd.
Qed.

Lemma add1_bounded nx i s : i < nx -> bounded nx s -> bounded nx (add1 i s).
Proof. intros L B j H. rewrite mem_add1 in H. apply orb_true_iff in H. destruct H as [H|H]; [apply B; exact H|apply N.eqb_eq in H; lia]. Qed.

Theorem qb_step p a st : Tinv st -> Qb st -> valid st a -> Qb (step repaired p a st).
Proof.
  intros TI QB V. pose proof (proj1 (Tinv_split st) TI) as (TC & _ & (CA & CB & _)).
  pose proof TC as (So & _ & _ & TBd & _ & _ & _ & _ & TJ & _).
  assert (forall c i v, cache st c i = Some v -> i < next st) as CBD by (intros c i v E; exact (proj1 (CA c i v E))).
  destruct a.
  - simpl. destruct files; [exact QB|]. match goal with |- context[if ?b then _ else _] => destruct b end; (apply (qb_frame st); try reflexivity; exact QB).
  - simpl. destruct (tget n (tags st)); [exact QB|]. destruct (refs_ok n d (tags st)); [|exact QB].
    destruct (d_mark d); [|apply qb_start_tagging]; (apply (qb_frame st); try reflexivity; exact QB).
  - simpl. destruct (tget n (tags st)) as [t|]; [|exact QB]. destruct (referenced n (tags st)); [exact QB|].
    set (st1 := fold_left (fun s c => detach s n c) (t_conv t) st).
    assert (TB3 st1) as T1 by (apply tb3_fold; [intros; apply tb3_detach; assumption|split; assumption]).
    apply qb_tag_again.
    match goal with |- Qb (set_tags ?s2 _) => assert (Qb s2) as Q2 by (apply tb3_after_detach; exact T1);
      apply (qb_frame s2); try reflexivity; exact Q2 end.
  - simpl. destruct (tget n (tags st)) as [t|]; [|exact QB]. destruct (complex d && _); [exact QB|]. destruct (refs_ok n d (tags st)); [|exact QB].
    apply qb_start_converter, qb_start_tagging. apply (qb_frame st); try reflexivity; exact QB.
  - simpl. destruct (tget n (tags st)) as [t|]; [|exact QB]. destruct ids as [|i0 ids]; [exact QB|].
    destruct (N.leb_spec (next st) (maxl (i0 :: ids))) as [|LT]; [exact QB|].
    apply qb_start_converter, qb_start_tagging.
    match goal with |- Qb (set_tags ?S1 _) => apply (qb_frame S1); try reflexivity end.
    apply qb_queue_matches; [apply idset_bounded; exact LT|exact QB].
  - simpl. destruct (tget n (tags st)) as [t|]; [|exact QB]. destruct ids as [|i0 ids]; [exact QB|].
    destruct (next st <=? maxl (i0 :: ids)); [exact QB|].
    apply qb_start_converter, qb_start_tagging. apply (qb_frame st); try reflexivity; exact QB.
  - simpl. destruct (tget n (tags st)); [|exact QB].
    match goal with |- context[if ?b then _ else _] => destruct b end; [|exact QB].
    apply qb_start_converter. apply tb3_tag_again, tb3_attach_all, tb3_after_detach. apply tb3_fold; [|split; assumption].
    intros s c Hs. destruct (memN c cs); [exact Hs|apply tb3_detach; exact Hs].
  - simpl. destruct (jimp st) as [j|]; [|exact QB]. destruct (ij_resp j); [exact QB|]. apply (qb_frame st); try reflexivity; exact QB.
  - simpl. destruct (jtag st) as [j|]; [|exact QB]. destruct (tj_res j); [exact QB|]. apply (qb_frame st); try reflexivity; exact QB.
  - destruct (jconv st) as [j|] eqn:JC; [|simpl; rewrite JC; exact QB].
    destruct (cj_done j) eqn:D; [simpl; rewrite JC, D; exact QB|]. rewrite (bconv_eq st p bad j JC D).
    destruct QB as (A & B). split; [exact A|]. intros j' E D'. unfold bconv_state in E. simpl in E. inversion E; subst. discriminate.
  - simpl. destruct (jmerge st) as [j|]; [|exact QB]. destruct (mj_res j); [exact QB|]. apply (qb_frame st); try reflexivity; exact QB.
  - destruct k.
    + simpl. destruct (jimp st) as [[nf [r|]]|] eqn:JI; try exact QB. apply qb_starts.
      destruct TC as (_ & _ & _ & _ & _ & _ & _ & _ & _ & _ & _ & IT). destruct (IT nf r JI) as (_ & (R1 & _) & _).
      assert (forall st1, Qb st1 ->
        Qb (match skipn (ir_proc r) (queue st1) with
            | [] => set_queue st1 (skipn (ir_proc r) (queue st1))
            | _ :: _ => set_jimp (set_queue st1 (skipn (ir_proc r) (queue st1))) (Some (mkImp (length (skipn (ir_proc r) (queue st1))) None)) end)) as HQ.
      { intros st1 Q1. destruct (skipn (ir_proc r) (queue st1)); (apply (qb_frame st1); try reflexivity; exact Q1). }
      destruct (ir_idx r) eqn:EI.
      * apply HQ. apply (qb_frame st); try reflexivity; exact QB.
      * apply HQ. simpl. apply qb_invalidate.
        -- simpl. intros c i v E. apply CBD in E. lia.
        -- destruct QB as (A & B). split; simpl; [intros c; eapply bounded_mono; [exact R1|apply A]|exact B].
    + destruct (jtag st) as [[n d m0 u0 cv snap h [res|]]|] eqn:JT; try (simpl; rewrite JT; exact QB).
      rewrite (ctag_eq st p n d m0 u0 cv snap h res JT). apply qb_starts.
      destruct (TJ _ JT) as (_ & _ & _ & BR). simpl in BR. specialize (BR res eq_refl).
      unfold ctag_pre. cbv zeta. change (tags (set_jtag st None)) with (tags st).
      destruct (tget n (tags st)) as [ot|]; [|apply (qb_frame st); try reflexivity; exact QB].
      destruct (defn_eqb (t_def ot) d); [|apply (qb_frame st); try reflexivity; exact QB].
      match goal with |- Qb (set_tags ?S1 _) => apply (qb_frame S1); try reflexivity end.
      apply qb_queue_matches; [exact BR|]. apply (qb_frame st); try reflexivity; exact QB.
    + destruct (jconv st) as [[sets v nx [|]]|] eqn:JC; try (simpl; rewrite JC; exact QB).
      rewrite (cconv_eq st p sets v nx JC). apply qb_starts. unfold cconv_pre.
      match goal with |- Qb (set_masks (set_tags ?S0 _) _ _ _) => apply (qb_frame S0); try reflexivity end.
      apply qb_invalidate; [exact CBD|]. destruct QB as (A & B). split; [exact A|]. intros j E. simpl in E. discriminate.
    + simpl. destruct (jmerge st) as [[off snap [merged|]]|]; try exact QB.
      apply qb_start_merge. apply (qb_frame st); try reflexivity; exact QB.
  - simpl. apply (qb_frame st); try reflexivity; exact QB.
  - cbn [step]. destruct (find _ (views st)) as [[v0 sv]|]; [|exact QB]. destruct (cache st c i); [exact QB|].
    destruct (N.ltb_spec i (next st)) as [LT|]; cbn [negb orb]; [|exact QB].
    destruct (memN c (convs st)); cbn [negb orb kf_viewstore repaired]; [|exact QB].
    destruct (sv i =? ver st i).
    + apply (qb_frame st); try reflexivity; exact QB.
    + apply qb_start_converter.
      assert (Qb (invalidate_converters st (add1 i 0))) as QB2 by (apply qb_invalidate; [exact CBD|exact QB]).
      remember (invalidate_converters st (add1 i 0)) as st2 eqn:E2.
      assert (next st2 = next st) as NX by (subst st2; reflexivity).
      destruct QB2 as (A & B). split; [|exact B]. intros c'. simpl. unfold fupd. rewrite <- NX in LT.
      destruct (c' =? c); [apply add1_bounded; [exact LT|apply A]|apply A].
  - simpl. apply (qb_frame st); try reflexivity; exact QB.
Qed.

(* ---------------------------------------------------------------- the invariant along every history, completeness at rest *)
Theorem qinv_step p a st : Tinv st -> Qinv st -> valid st a -> nofail a -> Qinv (step repaired p a st).
Proof. intros TI Q V NF. split; [apply qc_step; assumption|apply qb_step; [exact TI|exact (proj2 Q)|exact V]]. Qed.

Lemma qinv_init cs : Qinv (init cs).
Proof.
  split; [|split].
  - intros n t c id I L. simpl in I. repeat (destruct I as [I|I]; [inversion I; subst; discriminate|]). destruct I.
  - intros c. apply bounded_0.
  - intros j E. discriminate.
Qed.

Theorem qinv_reachable cs l : NoDup cs -> valid_history (init cs) l -> nofail_history l -> Qinv (run repaired l (init cs)).
Proof.
  intros ND. assert (forall st, Tinv st -> Qinv st -> valid_history st l -> nofail_history l -> Qinv (run repaired l st)) as G.
  { unfold run. induction l as [|[p a] l IH]; simpl; intros st TI Q V NF; [exact Q|].
    destruct V as (V1 & V2). inversion NF; subst. apply IH; [apply Tinv_step; assumption|apply qinv_step; assumption|exact V2|assumption]. }
  intros V NF. apply G; [apply Tinv_init; exact ND|apply qinv_init|exact V|exact NF].
Qed.

(* schedules of job steps in which no conversion fails *)
Definition jstep0 (st st' : state) : Prop := exists p a, enabled st a /\ nofail a /\ st' = step repaired p a st.
Inductive jsteps0 : state -> state -> Prop :=
| js0_refl st : jsteps0 st st
| js0_step st st' st'' : jstep0 st st' -> jsteps0 st' st'' -> jsteps0 st st''.

Lemma jstep0_jstep st st' : jstep0 st st' -> jstep st st'.
Proof. intros (p & a & En & _ & E). exists p, a. split; assumption. Qed.
Lemma jsteps0_jsteps st st' : jsteps0 st st' -> jsteps st st'.
Proof. induction 1; [constructor|econstructor; [apply jstep0_jstep; eassumption|assumption]]. Qed.

(* nothing can run without a failure <-> nothing can run at all (a converter body is enabled whatever fails) *)
Lemma stuck0_stuck st : (forall st', ~ jstep0 st st') -> forall st', ~ jstep st st'.
Proof.
  intros ST st' (p & a & En & E).
  destruct a; try (apply (ST st'); exists p; eexists; split; [exact En|split; [exact I|exact E]]; fail).
  apply (ST (step repaired p (ABodyConvert []) st)). exists p, (ABodyConvert []). split; [exact En|split; reflexivity].
Qed.

Lemma qinv_jsteps st st' : Tinv st -> Qinv st -> jsteps0 st st' -> Qinv st'.
Proof.
  intros TI Q H. induction H as [|st st' st'' (p & a & En & NF & E) H IH]; [exact Q|]. subst st'.
  apply IH.
  - eapply Tinv_jstep; [exact TI|]. exists p, a. split; [exact En|reflexivity].
  - apply qinv_step; [exact TI|exact Q| |exact NF]. destruct a; try exact I; try (destruct En; fail). exact (proj2 En).
Qed.

(* at rest every stream matching a tag with an attached converter has cached output of its current version *)
Theorem complete_at_rest st : Tinv st -> Qinv st -> quiescent st -> jconv st = None ->
  forall n t c id, In (n, t) (tags st) -> t_live t = true -> memN c (t_conv t) = true -> memN c (convs st) = true ->
  mem id (t_m t) = true -> cache st c id = Some (ver st id).
Proof.
  intros TI (Q & _) (_ & _ & TZ & _) JC n t c id I L C CV M.
  pose proof (proj1 (Tinv_split st) TI) as (_ & _ & CI).
  destruct (Q n t c id I L C M) as [H|[H|(j & E & _)]].
  - destruct (cache st c id) as [v|] eqn:E; [|congruence]. rewrite (cinv_quiet st CI JC c id v E). reflexivity.
  - rewrite (TZ c CV), mem_0 in H. discriminate.
  - congruence.
Qed.

(* detachConverterFromTag removes the tag's own streams from the queue *)
Theorem detach_dequeues st n c t : tget n (tags st) = Some t ->
  forall id, mem id (toconv (detach st n c) c) = true ->
  mem id (toconv st c) = true /\
  (mem id (t_m t) = false \/ exists k b, In (k, b) (tags (detach st n c)) /\ k <> n /\ tag_has_conv c b = true /\ mem id (t_m b) = true).
Proof.
  intros Tn id H. unfold detach in *. rewrite Tn in *.
  set (ts := tset n (mkTag (t_def t) (t_m t) (t_u t) (filter (fun x => negb (x =? c)) (t_conv t))) (tags st)) in *.
  set (matching := fold_left (fun a nt => if negb (fst nt =? n) && tag_has_conv c (snd nt) then union a (t_m (snd nt)) else a) ts 0) in *.
  assert (mem id (diff (toconv st c) (diff (t_m t) matching)) = true) as H1.
  { destruct (is0 matching); simpl in H; unfold fupd in H; rewrite N.eqb_refl in H; exact H. }
  rewrite mem_diff, mem_diff in H1. apply andb_true_iff in H1. destruct H1 as (A & B). split; [exact A|].
  destruct (mem id (t_m t)); [|left; reflexivity]. simpl in B. apply negb_true_iff in B. apply negb_false_iff in B.
  right. unfold matching in B. apply mem_matching in B. destruct B as [B|(k & b & I & NE & HC & M)]; [rewrite mem_0 in B; discriminate|].
  exists k, b. split; [|auto]. destruct (is0 matching); exact I.
Qed.

(* every schedule from every reachable state ends with complete, current converter output *)
Theorem reachable_complete cs l st' : NoDup cs -> valid_history (init cs) l -> nofail_history l ->
  jsteps0 (run repaired l (init cs)) st' -> (forall st'', ~ jstep0 st' st'') ->
  forall n t c id, In (n, t) (tags st') -> t_live t = true -> memN c (t_conv t) = true -> memN c (convs st') = true ->
  mem id (t_m t) = true -> cache st' c id = Some (ver st' id).
Proof.
  intros ND V NF JS ST0. pose proof (stuck0_stuck _ ST0) as ST.
  pose proof (Tinv_reachable cs l ND V) as TI0. pose proof (qinv_reachable cs l ND V NF) as Q0.
  pose proof (Tinv_jsteps _ _ TI0 (jsteps0_jsteps _ _ JS)) as TI. pose proof (qinv_jsteps _ _ TI0 Q0 JS) as Q.
  destruct (stuck_quiescent st' TI ST) as (QU & _). destruct (stuck_no_job st' ST) as (_ & _ & JC & _).
  apply complete_at_rest; assumption.
Qed.
