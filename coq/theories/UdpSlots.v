(* Invariants of the slot machine (UdpInterleave) used by the batch theorem and by snapshot validity:
   slots only grow (position fixed, packets appended, otherwise unchanged up to the Complete flag), every
   processed packet sits in exactly one slot, an open slot's lastActivity is the time of its last packet. *)
From Pk Require Import Udp UdpProofs UdpInterleave UdpReplay.
From Coq Require Import Lia PeanoNat Arith Sorting.Permutation.
From Coq Require Import ZifyBool ZifyN ZifyNat.

Definition pk (x : slot) : list pref := map fst (stream_packets (fst x)).

Lemma pk_sflush1 t x : pk (sflush1 t x) = pk x.
Proof. unfold pk. rewrite sflush1_packets. reflexivity. Qed.

Lemma packets_upd p x : stream_packets (fst (upd_slot p x)) = stream_packets (fst x) ++ [(pref_of p, ep_eqb (s_server (fst x)) (p_src p))].
Proof. unfold upd_slot. simpl. apply packets_add_udp. Qed.

Lemma packets_new p : stream_packets (fst (new_slot p)) = [(pref_of p, false)].
Proof. unfold new_slot. simpl. rewrite packets_add_udp. reflexivity. Qed.

Lemma pk_upd p x : pk (upd_slot p x) = pk x ++ [pref_of p].
Proof. unfold pk. rewrite packets_upd, map_app. reflexivity. Qed.

Lemma pk_new p : pk (new_slot p) = [pref_of p].
Proof. unfold pk. rewrite packets_new. reflexivity. Qed.

(* ---- every processed packet sits in exactly one slot ---- *)
Lemma sflush_pk t sl : flat_map pk (sflush t sl) = flat_map pk sl.
Proof. induction sl as [|x sl IH]; simpl; auto. rewrite pk_sflush1, IH. reflexivity. Qed.

Lemma sasm_perm p : forall sl, Permutation (flat_map pk (sasm sl p)) (pref_of p :: flat_map pk sl).
Proof.
  induction sl as [|x sl IH]; simpl.
  - rewrite pk_new. reflexivity.
  - destruct (is_open (snd x) && smatch (fst x) (p_src p) (p_dst p)); simpl.
    + rewrite pk_upd. rewrite <- app_assoc. simpl. apply Permutation_sym, Permutation_middle.
    + eapply Permutation_trans; [apply Permutation_app_head, IH|]. apply Permutation_sym, Permutation_middle.
Qed.

Lemma run_perm : forall l sl, Permutation (flat_map pk (fold_left sstep l sl)) (flat_map pk sl ++ map pref_of l).
Proof.
  induction l as [|p l IH]; intros sl; simpl; [rewrite app_nil_r; reflexivity|].
  rewrite IH. unfold sstep. rewrite (sasm_perm p), sflush_pk.
  simpl. apply Permutation_middle.
Qed.

(* ---- growth ---- *)
(* x' is x after some steps that appended the packets [extra] *)
Definition grown (x x' : slot) (extra : list (pref * bool)) : Prop :=
  stream_packets (fst x') = stream_packets (fst x) ++ extra /\ (extra = [] -> forget (fst x') = forget (fst x)).

Lemma grown_refl x : grown x x [].
Proof. split; [rewrite app_nil_r; reflexivity|reflexivity]. Qed.

Lemma grown_trans x y z e1 e2 : grown x y e1 -> grown y z e2 -> grown x z (e1 ++ e2).
Proof.
  intros [A1 A2] [B1 B2]. split.
  - rewrite B1, A1, app_assoc. reflexivity.
  - intros E. apply app_eq_nil in E as [-> ->]. rewrite B2, A2; auto.
Qed.

Lemma grown_sflush1 t x : grown x (sflush1 t x) [].
Proof. split; [rewrite sflush1_packets, app_nil_r; reflexivity|intros _; apply sflush1_fst_forget]. Qed.

Definition grows (sl sl' : list slot) (G : list pref) : Prop :=
  (length sl <= length sl')%nat /\
  (forall j x, nth_error sl j = Some x ->
     exists x' extra, nth_error sl' j = Some x' /\ grown x x' extra /\ incl (map fst extra) G) /\
  (forall j x', (length sl <= j)%nat -> nth_error sl' j = Some x' -> pk x' <> [] /\ incl (pk x') G).

Lemma grows_refl sl G : grows sl sl G.
Proof.
  split; [lia|]. split.
  - intros j x H. exists x, []. split; auto. split; [apply grown_refl|intros y []].
  - intros j x' Hj H. apply nth_error_Some_lt' in H. lia.
Qed.

Lemma grows_trans sl1 sl2 sl3 G1 G2 : grows sl1 sl2 G1 -> grows sl2 sl3 G2 -> grows sl1 sl3 (G1 ++ G2).
Proof.
  intros (L1 & O1 & N1) (L2 & O2 & N2). split; [lia|]. split.
  - intros j x H. destruct (O1 j x H) as (y & e1 & Hy & Gy & Iy). destruct (O2 j y Hy) as (z & e2 & Hz & Gz & Iz).
    exists z, (e1 ++ e2). split; auto. split; [eapply grown_trans; eauto|].
    rewrite map_app. apply incl_app; [apply incl_appl|apply incl_appr]; auto.
  - intros j z Hj Hz. destruct (Nat.lt_ge_cases j (length sl2)) as [Hlt|Hge].
    + destruct (nth_error sl2 j) as [y|] eqn:Ey; [|apply nth_error_None in Ey; lia].
      destruct (N1 j y Hj Ey) as [Ny Iy]. destruct (O2 j y Ey) as (z' & e2 & Hz' & [Gz _] & Iz).
      rewrite Hz in Hz'. inversion Hz'; subst z'. unfold pk in *. rewrite Gz, map_app. split.
      * intros E. apply app_eq_nil in E as [E _]. auto.
      * apply incl_app; [apply incl_appl; auto|apply incl_appr; auto].
    + destruct (N2 j z Hge Hz) as [A B]. split; auto. apply incl_appr; auto.
Qed.

Lemma grows_sflush t sl : grows sl (sflush t sl) [].
Proof.
  unfold sflush. split; [rewrite map_length; lia|]. split.
  - intros j x H. exists (sflush1 t x), []. rewrite nth_error_map, H. split; auto. split; [apply grown_sflush1|intros y []].
  - intros j x' Hj H. apply nth_error_Some_lt' in H. rewrite map_length in H. lia.
Qed.

Lemma grows_sasm p sl : grows sl (sasm sl p) [pref_of p].
Proof.
  destruct (sasm_cases sl p) as [(i & s & last & Hn & Hm & He)|[Hall He]]; rewrite He.
  - split; [rewrite upd_nth_length; lia|]. split.
    + intros j x H. rewrite nth_error_upd_nth. destruct (Nat.eqb_spec i j).
      * subst j. rewrite H. simpl. exists (upd_slot p x), [(pref_of p, ep_eqb (s_server (fst x)) (p_src p))].
        split; auto. split; [split; [apply packets_upd|discriminate]|]. simpl. intros y [<-|[]]. left; auto.
      * exists x, []. split; auto. split; [apply grown_refl|intros y []].
    + intros j x' Hj H. apply nth_error_Some_lt' in H. rewrite upd_nth_length in H. lia.
  - split; [rewrite app_length; simpl; lia|]. split.
    + intros j x H. exists x, []. split; [rewrite nth_error_app1; auto; eapply nth_error_Some_lt'; eauto|].
      split; [apply grown_refl|intros y []].
    + intros j x' Hj H. rewrite nth_error_app2 in H by auto.
      destruct (j - length sl)%nat; simpl in H; [|destruct n; discriminate]. inversion H; subst.
      rewrite pk_new. split; [discriminate|]. intros y Hy. exact Hy.
Qed.

Lemma grows_sstep p sl : grows sl (sstep sl p) [pref_of p].
Proof. unfold sstep. apply (grows_trans sl (sflush (p_ts p) sl) _ [] [pref_of p]); [apply grows_sflush|apply grows_sasm]. Qed.

Lemma grows_run : forall l sl, grows sl (fold_left sstep l sl) (map pref_of l).
Proof.
  induction l as [|p l IH]; intros sl; simpl; [apply grows_refl|].
  apply (grows_trans sl (sstep sl p) _ [pref_of p] (map pref_of l)); [apply grows_sstep|apply IH].
Qed.
