(* QueryGroup.v -- THEN whose left operand is a THEN-free group with at most one payload end:
   AND / OR groups mixing one payload filter with non-payload filters and negated (OR groups of) filters,
   e.g. (cdata:x tag:a -cdata:y) then ..., (tag:a or cdata:x) then ..., -(cdata:x or cdata:y) then ... *)
From Coq Require Import List NArith ZArith Bool Lia Permutation Arith.
From Pk Require Import Query QuerySort QueryClean QueryFlags QueryHosts QueryOps QuerySet QueryAtoms QueryMain QuerySeq QueryThen QueryInv.
Import ListNotations.
Open Scope Z_scope.

(* ------------------------------------------------------------------ what clean does to the payload conditions of flat conjuncts *)
Lemma sel_data_in c d : In d (sel_data c) <-> In (CData d) c.
Proof.
  induction c as [|x c IH]; [cbn; tauto|]. cbn [sel_data flat_map In]. fold (sel_data c). rewrite in_app_iff, IH.
  destruct x; cbn [In]; split; intros H.
  all: try (destruct H as [[]|H]; [right; exact H]).
  all: try (destruct H as [H|H]; [discriminate|right; exact H]).
  - destruct H as [[->|[]]|H]; [left; reflexivity|right; exact H].
  - destruct H as [H|H]; [inversion H; subst; left; left; reflexivity|right; exact H].
Qed.

Lemma data_dedupe_subset a rest out d : data_dedupe a rest = Some out -> In d out -> In d (a :: rest).
Proof.
  revert a out; induction rest as [|b r IH]; intros a out H Hd; cbn [data_dedupe] in H.
  - inversion H; subst. exact Hd.
  - destruct (is_prefix _ _).
    + destruct (Nat.eqb _ _).
      * destruct (Bool.eqb _ _); [right; eapply IH; eauto|discriminate].
      * destruct (d_inv a); [discriminate|right; eapply IH; eauto].
    + destruct (data_dedupe b r) as [o|] eqn:E; [|discriminate]. inversion H; subst.
      destruct Hd as [<-|Hd]; [left; reflexivity|right; eapply IH; eauto].
Qed.
Lemma clean_data_subset l out d : clean_data l = Some out -> In d out -> In d l.
Proof.
  unfold clean_data. pose proof (isort_in data_key d l) as Hi.
  destruct (isort data_key l) as [|a r]; [intros H; inversion H; subst; intros []|].
  intros H Hd. apply Hi. eapply data_dedupe_subset; eauto.
Qed.

Lemma conj_clean_data_subset c d : In (CData d) (conj_clean c) -> In (CData d) c.
Proof.
  unfold conj_clean. destruct (has_imp c); [intros [H|[]]; discriminate|].
  destruct (clean_tag _); [|intros [H|[]]; discriminate]. destruct (clean_flag _); [|intros [H|[]]; discriminate].
  destruct (clean_host _); [|intros [H|[]]; discriminate]. destruct (clean_num _); [|intros [H|[]]; discriminate].
  destruct (clean_time _); [|intros [H|[]]; discriminate]. destruct (clean_data (sel_data c)) as [dl|] eqn:Ed; [|intros [H|[]]; discriminate].
  intros H. repeat (apply in_app_or in H as [H|H]); try (apply in_map_iff in H as (y & Hy & _); discriminate).
  apply in_map_iff in H as (y & Hy & Hin). inversion Hy; subst. apply sel_data_in. eapply clean_data_subset; eauto.
Qed.

(* single-filter sequences: a dropped one equals a kept one *)
Definition single (d : datac) : Prop := exists e, d_el d = [e].

Lemma single_prefix a b : single a -> single b -> is_prefix (d_el a) (d_el b) = true -> d_el a = d_el b.
Proof. intros [x Ha] [y Hb]. rewrite Ha, Hb. cbn. rewrite andb_true_r. intros H. apply N.eqb_eq in H. subst. reflexivity. Qed.

Lemma data_dedupe_keeps a rest out d :
  Forall single (a :: rest) -> data_dedupe a rest = Some out -> In d (a :: rest) -> In d out.
Proof.
  revert a out; induction rest as [|b r IH]; intros a out Hs H Hd; cbn [data_dedupe] in H.
  - inversion H; subst. exact Hd.
  - inversion Hs as [|? ? Sa Sr]; subst. inversion Sr as [|? ? Sb Sr']; subst.
    destruct (is_prefix (d_el a) (d_el b)) eqn:Ep.
    + pose proof (single_prefix a b Sa Sb Ep) as Eel. rewrite Eel, Nat.eqb_refl in H.
      destruct (Bool.eqb (d_inv a) (d_inv b)) eqn:Ei; [|discriminate]. apply eqb_prop in Ei.
      assert (a = b) by (destruct a, b; cbn in *; subst; reflexivity). subst b.
      apply (IH a out Sr H). destruct Hd as [<-|Hd]; [left; reflexivity|exact Hd].
    + destruct (data_dedupe b r) as [o|] eqn:E; [|discriminate]. inversion H; subst.
      destruct Hd as [<-|Hd]; [left; reflexivity|right; apply (IH b o Sr E Hd)].
Qed.
Lemma clean_data_keeps l out d : Forall single l -> clean_data l = Some out -> In d l -> In d out.
Proof.
  intros Hs. unfold clean_data. pose proof (isort_in data_key d l) as Hi. pose proof (isort_Forall data_key _ _ Hs) as Hs'.
  destruct (isort data_key l) as [|a r]; [intros _ Hd; apply Hi in Hd; contradiction|].
  intros H Hd. eapply data_dedupe_keeps; eauto. apply Hi. exact Hd.
Qed.

Definition data_flat (c : conj) : Prop := forall d, In (CData d) c -> single d.

Lemma conj_clean_data_keeps c d :
  data_flat c -> conj_impossible (conj_clean c) = false -> In (CData d) c -> In (CData d) (conj_clean c).
Proof.
  intros Hf. unfold conj_clean. destruct (has_imp c); [discriminate|].
  destruct (clean_tag _); [|discriminate]. destruct (clean_flag _); [|discriminate].
  destruct (clean_host _); [|discriminate]. destruct (clean_num _); [|discriminate].
  destruct (clean_time _); [|discriminate]. destruct (clean_data (sel_data c)) as [dl|] eqn:Ed; [|discriminate].
  intros _ Hd. repeat (apply in_or_app; right). apply in_map.
  apply (clean_data_keeps (sel_data c) dl d); [|exact Ed|apply sel_data_in; exact Hd].
  apply Forall_forall. intros x Hx. apply Hf. apply sel_data_in. exact Hx.
Qed.

(* ------------------------------------------------------------------ flat conjuncts *)
Definition pos_els (c : conj) : list N :=
  flat_map (fun x => match x with CData d => if d_inv d then [] else d_el d | _ => [] end) c.
Definition pos_same (c : conj) : Prop := forall x y, In x (pos_els c) -> In y (pos_els c) -> x = y.
Definition flat1 (c : conj) : Prop := data_flat c /\ pos_same c.
Definition Mc (c : conj) : list N := match pos_els c with [] => [] | x :: _ => [x] end.
Definition posflat (c : conj) : Prop := forall d, In (CData d) c -> single d /\ d_inv d = false.
Definition negflat (c : conj) : Prop := forall d, In (CData d) c -> single d /\ d_inv d = true.

Lemma pos_els_in c x : data_flat c -> (In x (pos_els c) <-> In (CData (mkData [x] false)) c).
Proof.
  intros Hf. unfold pos_els. rewrite in_flat_map. split.
  - intros (y & Hy & Hx). destruct y as [| | | | |d|]; try contradiction.
    destruct (Hf d Hy) as [e He]. destruct d as [els inv]. cbn in *. subst els. destruct inv; [contradiction|].
    destruct Hx as [<-|[]]. exact Hy.
  - intros H. exists (CData (mkData [x] false)). split; [exact H|]. cbn. left. reflexivity.
Qed.

Lemma negflat_pos c : negflat c -> pos_els c = [].
Proof.
  intros H. unfold pos_els. induction c as [|x c IH]; [reflexivity|]. cbn [flat_map].
  rewrite IH by (intros d Hd; apply H; right; exact Hd).
  destruct x as [| | | | |d|]; try reflexivity. destruct (H d (or_introl eq_refl)) as [_ Hi]. rewrite Hi. reflexivity.
Qed.
Lemma negflat_flat1 c : negflat c -> flat1 c.
Proof.
  intros H. split; [intros d Hd; apply (H d Hd)|]. intros x y Hx. rewrite (negflat_pos c H) in Hx. contradiction.
Qed.

Lemma data_pred_clean (Q : datac -> Prop) c : (forall d, In (CData d) c -> Q d) -> forall d, In (CData d) (conj_clean c) -> Q d.
Proof. intros H d Hd. apply H. apply conj_clean_data_subset. exact Hd. Qed.

Lemma data_pred_app (Q : datac -> Prop) a b :
  (forall d, In (CData d) a -> Q d) -> (forall d, In (CData d) b -> Q d) -> forall d, In (CData d) (a ++ b) -> Q d.
Proof. intros Ha Hb d Hd. apply in_app_or in Hd as [Hd|Hd]; auto. Qed.

(* ---- the sets norm builds for groups *)
Lemma conds_of_atom_posflat a : Forall posflat (conds_of_atom a).
Proof.
  destruct a as [sub names|sub items|cli srv sub items|tys sub ranges|key sub ranges|sub els]; cbn [conds_of_atom].
  - apply Forall_map. apply Forall_true. intros n d [H|[]]; discriminate.
  - apply Forall_map. apply Forall_true. intros it d Hd. exfalso.
    destruct it as [x|s]; [|destruct (N.eqb s sub); [contradiction|]]; unfold flag_invert in Hd; apply in_map_iff in Hd as (u & Hu & _); discriminate.
  - apply Forall_app; split; [destruct cli|destruct srv]; try constructor;
      apply Forall_map; apply Forall_true; intros it d Hd; destruct it; destruct Hd as [H|[]]; discriminate.
  - apply Forall_forall. intros c Hc. apply in_flat_map in Hc as (r & _ & Hc). apply in_map_iff in Hc as (ty & <- & _).
    intros d Hd. exfalso. unfold num_range_conj in Hd.
    destruct r as [b|lo hi]; apply in_app_or in Hd as [Hd|Hd];
      repeat match goal with H : In _ (if ?x then _ else _) |- _ => destruct x end;
      repeat match goal with H : In _ [] |- _ => contradiction | H : In _ [_] |- _ => destruct H as [H|[]]; discriminate end.
  - apply Forall_map. apply Forall_true. intros r d Hd. exfalso. unfold time_range_conj in Hd.
    destruct r as [b|lo hi]; destruct (N.eqb key 0), (N.eqb key 1); apply in_app_or in Hd as [Hd|Hd];
      repeat match goal with H : In _ (if ?x then _ else _) |- _ => destruct x end;
      repeat match goal with H : In _ [] |- _ => contradiction | H : In _ [_] |- _ => destruct H as [H|[]]; discriminate end.
  - apply Forall_map. apply Forall_true. intros e d [H|[]]. inversion H; subst. split; [exists e; reflexivity|reflexivity].
Qed.

Lemma cs_and_pred (Q : datac -> Prop) a b :
  Forall (fun c => forall d, In (CData d) c -> Q d) a -> Forall (fun c => forall d, In (CData d) c -> Q d) b ->
  Forall (fun c => forall d, In (CData d) c -> Q d) (cs_and a b).
Proof.
  intros Ha Hb. unfold cs_and. destruct a as [|a0 a']; [exact Hb|]. destruct b as [|b0 b']; [exact Ha|].
  rewrite Forall_forall in *. intros c Hc. apply in_flat_map in Hc as (c1 & H1 & Hc). apply in_map_iff in Hc as (c2 & <- & H2).
  unfold conj_and. apply data_pred_clean. apply data_pred_app; [apply (Ha c1 H1)|apply (Hb c2 H2)].
Qed.

Lemma norm_simple_posflat e cs : simple e = true -> norm e = Some cs -> Forall posflat cs.
Proof.
  revert cs; induction e as [a| |a IH|a IHa b IHb|a IHa b IHb|a IHa b IHb]; intros cs Hs H; cbn [simple norm] in *; try discriminate.
  - inversion H; subst. apply conds_of_atom_posflat.
  - apply andb_true_iff in Hs as [Ha Hb]. destruct (norm a) as [x|], (norm b) as [y|]; inversion H; subst; auto.
    apply (cs_and_pred (fun d => single d /\ d_inv d = false)); auto.
  - apply andb_true_iff in Hs as [Ha Hb]. destruct (norm a) as [x|], (norm b) as [y|]; inversion H; subst; auto.
    apply Forall_app; split; auto.
Qed.

Lemma cond_invert_negflat x : (forall d, x = CData d -> single d /\ d_inv d = false) -> Forall negflat (cond_invert x).
Proof.
  intros H. destruct x as [t|f|h|n|tm|d|]; cbn [cond_invert];
    try (constructor; [|constructor]; intros d0 [Hd|[]]; discriminate).
  - constructor; [|constructor]. intros d0 Hd. unfold flag_invert in Hd. apply in_map_iff in Hd as (u & Hu & _). discriminate.
  - destruct (H d eq_refl) as [[e He] Hi]. destruct d as [els inv]. cbn in *. subst. cbn.
    constructor; [|constructor]. intros d0 [Hd|[]]. inversion Hd; subst. split; [exists e; reflexivity|reflexivity].
  - constructor; [|constructor]. intros d0 [].
Qed.
Lemma cs_invert_negflat cs : Forall posflat cs -> Forall negflat (cs_invert cs).
Proof.
  intros H. unfold cs_invert.
  assert (G : forall acc : cset, Forall negflat acc ->
              Forall negflat (fold_left (fun acc cc => cs_and acc (conj_invert cc)) cs acc)).
  { induction H as [|c cs Hc Hcs IH]; intros acc Hacc; cbn [fold_left]; [exact Hacc|].
    apply IH. apply (cs_and_pred (fun d => single d /\ d_inv d = true)); [exact Hacc|].
    destruct c as [|x c']; [constructor; [|constructor]; intros d [Hd|[]]; discriminate|]. unfold conj_invert.
    apply Forall_forall. intros cc Hcc. apply in_flat_map in Hcc as (y & Hy & Hcc).
    pose proof (cond_invert_negflat y) as Hn. rewrite Forall_forall in Hn. apply Hn; [|exact Hcc].
    intros d ->. apply (Hc d Hy). }
  apply G. constructor.
Qed.

(* ------------------------------------------------------------------ Conditions.then with any conjunct on the left whose sequences are aligned *)
Lemma conj_then_unfold c1 c2 : sel_data c1 <> [] -> sel_data c2 <> [] ->
  conj_then c1 c2 = (nodata c1 ++ nodata c2) ++ chains (then_stepl (sel_data c1) (sel_data c2)).
Proof.
  intros H1 H2. unfold conj_then. fold (nodata c1) (nodata c2).
  destruct (sel_data c1) as [|a0 al] eqn:E1; [congruence|]. destruct (sel_data c2) as [|b0 bl] eqn:E2; [congruence|].
  f_equal. unfold then_stepl, chains. rewrite map_flat_map'. apply flat_map_ext. intros ad.
  destruct (d_inv ad); cbn [map]; [destruct (existsb _ _); cbn [map]; rewrite ?map_map; reflexivity|rewrite map_map; reflexivity].
Qed.

Lemma eval_nodata_only v c : sel_data c = [] -> eval_conj v c = eval_conj v (nodata c).
Proof. intros H. rewrite (eval_conj_split v c), H. cbn. apply andb_true_r. Qed.

Theorem conj_then_sem2 v c1 M c2 :
  (sel_data c1 = [] /\ M = []) \/ seq_inv (sel_data c1) M -> conj_wf c2 ->
  eval_conj v (conj_then c1 c2) =
  eval_conj v c1 && match pos_of v M with Some q => eval_conj (at_pos v q) c2 | None => false end.
Proof.
  intros HM W.
  destruct HM as [[E1 ->]|I].
  - (* no payload filter on the left *)
    unfold pos_of. cbn [run_all]. rewrite eval_conj_at_start.
    unfold conj_then. rewrite E1. cbn [map app]. fold (nodata c1) (nodata c2).
    rewrite !eval_conj_app, (eval_nodata_only v c1 E1), (eval_conj_split v c2).
    rewrite (eval_conj_map v CData (eval_data v)) by reflexivity. rewrite andb_assoc. reflexivity.
  - assert (Hne : sel_data c1 <> []) by (destruct (si_full _ _ I) as (d & Hd & _); destruct (sel_data c1); [contradiction|discriminate]).
    assert (Hpos : forallb (eval_data v) (sel_data c1) = true -> pos_of v M <> None).
    { intros H. destruct (si_full _ _ I) as (d & Hd & Hm). rewrite forallb_forall in H.
      rewrite <- Hm. apply (eval_matched_runs v d (si_ne _ _ I d Hd) (H d Hd)). }
    rewrite (eval_conj_split v c1).
    destruct (sel_data c2) as [|b0 bs] eqn:Eb.
    + assert (Hc2 : forall q, eval_conj (at_pos v q) c2 = eval_conj v (nodata c2)).
      { intros q. rewrite (eval_conj_split (at_pos v q) c2), Eb, nodata_at. cbn. apply andb_true_r. }
      assert (Hct : conj_then c1 c2 = (nodata c1 ++ nodata c2) ++ map CData (sel_data c1)).
      { unfold conj_then. fold (nodata c1) (nodata c2). rewrite Eb. destruct (sel_data c1); [congruence|].
        cbn [map]. rewrite app_nil_r. reflexivity. }
      rewrite Hct, !eval_conj_app, (eval_conj_map v CData (eval_data v)) by reflexivity.
      destruct (forallb (eval_data v) (sel_data c1)) eqn:E1.
      * destruct (pos_of v M) as [q|]; [rewrite Hc2|exfalso; apply Hpos; auto].
        destruct (eval_conj v (nodata c1)), (eval_conj v (nodata c2)); reflexivity.
      * rewrite !andb_false_r. reflexivity.
    + rewrite conj_then_unfold by (auto; rewrite Eb; discriminate). rewrite Eb, !eval_conj_app, eval_chains.
      rewrite (then_stepl_eval v (sel_data c1) M (b0 :: bs) I ltac:(discriminate)) by (rewrite <- Eb; apply sel_data_wf; exact W).
      destruct (pos_of v M) as [q|].
      * rewrite (eval_conj_split (at_pos v q) c2), Eb, nodata_at.
        destruct (eval_conj v (nodata c1)), (eval_conj v (nodata c2)), (forallb (eval_data v) (sel_data c1)), (forallb _ (b0 :: bs)); reflexivity.
      * rewrite !andb_false_r. reflexivity.
Qed.

(* a flat conjunct's sequences are aligned: M = its one matched filter, or none *)
Lemma flat1_seq_inv c : flat1 c -> sel_data c <> [] -> seq_inv (sel_data c) (Mc c).
Proof.
  intros [Hf Hs] Hne. unfold Mc. unfold pos_same in Hs.
  assert (Hpi := pos_els_in c).
  assert (Hsingle : forall d, In d (sel_data c) -> single d) by (intros d Hd; apply Hf; apply sel_data_in; exact Hd).
  assert (Hposel : forall d e, In d (sel_data c) -> d_el d = [e] -> d_inv d = false -> In e (pos_els c)).
  { intros d e Hd He Hi. apply (Hpi e Hf). apply sel_data_in in Hd. destruct d as [els inv]. cbn in *. subst. exact Hd. }
  destruct (pos_els c) as [|x rest] eqn:Ep.
  - (* only negated filters *)
    assert (Hinv : forall d, In d (sel_data c) -> d_inv d = true).
    { intros d Hd. destruct (d_inv d) eqn:Ei; [reflexivity|]. destruct (Hsingle d Hd) as [e He].
      exfalso. apply (Hposel d e Hd He Ei). }
    constructor.
    + intros d Hd. unfold matched. rewrite (Hinv d Hd). destruct (Hsingle d Hd) as [e ->]. reflexivity.
    + destruct (sel_data c) as [|d0 r] eqn:Es; [congruence|]. exists d0. split; [left; reflexivity|].
      unfold matched. rewrite (Hinv d0 (or_introl eq_refl)). destruct (Hsingle d0 (or_introl eq_refl)) as [e ->]. reflexivity.
    + intros d Hd Hi. rewrite (Hinv d Hd) in Hi. discriminate.
    + intros d Hd. destruct (Hsingle d Hd) as [e ->]. discriminate.
  - assert (Hx : In x (x :: rest)) by (left; reflexivity).
    constructor.
    + intros d Hd. unfold matched. destruct (Hsingle d Hd) as [e He]. rewrite He. destruct (d_inv d) eqn:Ei; [reflexivity|].
      pose proof (Hposel d e Hd He Ei) as Hin. rewrite (Hs e x Hin Hx). cbn. rewrite N.eqb_refl. reflexivity.
    + apply (Hpi x Hf) in Hx. exists (mkData [x] false). split; [apply sel_data_in; exact Hx|reflexivity].
    + intros d Hd Hi. destruct (Hsingle d Hd) as [e He]. pose proof (Hposel d e Hd He Hi) as Hin.
      rewrite He, (Hs e x Hin Hx). reflexivity.
    + intros d Hd. destruct (Hsingle d Hd) as [e ->]. discriminate.
Qed.

Lemma flat1_Mc_cases c : flat1 c -> (sel_data c = [] /\ Mc c = []) \/ seq_inv (sel_data c) (Mc c).
Proof.
  intros H. destruct (sel_data c) as [|d0 r] eqn:Es.
  - left. split; [reflexivity|]. unfold Mc.
    destruct (pos_els c) as [|x rest] eqn:Ep; [reflexivity|]. exfalso.
    assert (Hx : In x (pos_els c)) by (rewrite Ep; left; reflexivity).
    apply (pos_els_in c x (proj1 H)) in Hx. apply sel_data_in in Hx. rewrite Es in Hx. contradiction.
  - right. rewrite <- Es. apply flat1_seq_inv; [exact H|rewrite Es; discriminate].
Qed.

(* ------------------------------------------------------------------ the class of left operands *)
Fixpoint plain (e : expr) : bool :=
  match e with
  | EAtom _ => true
  | EAnd a b | EOr a b => plain a && plain b
  | _ => false
  end.
Fixpoint nots_plain (e : expr) : bool :=
  match e with
  | EAtom _ => true
  | ENot x => plain x
  | EAnd a b | EOr a b => nots_plain a && nots_plain b
  | _ => false
  end.
(* a THEN-free group (no directives) whose NOTs are over plain AND/OR groups and that has at most one payload end *)
Definition lgrp (e : expr) : bool := nots_plain e && Nat.leb (data_ends e) 1.

Lemma plain_simple e : plain e = true -> simple e = true /\ then_free e = true /\ tail_ok e = true /\ strip e = Some e.
Proof.
  induction e as [a| |a IH|a IHa b IHb|a IHa b IHb|a IHa b IHb]; cbn [plain]; intros H; try discriminate.
  - repeat split; reflexivity.
  - apply andb_true_iff in H as [Ha Hb]. destruct (IHa Ha) as (A1 & A2 & A3 & A4). destruct (IHb Hb) as (B1 & B2 & B3 & B4).
    cbn. rewrite A1, A2, A3, A4, B1, B2, B3, B4. repeat split; reflexivity.
  - apply andb_true_iff in H as [Ha Hb]. destruct (IHa Ha) as (A1 & A2 & A3 & A4). destruct (IHb Hb) as (B1 & B2 & B3 & B4).
    cbn. rewrite A1, A2, A3, A4, B1, B2, B3, B4. repeat split; reflexivity.
Qed.

Lemma nots_plain_facts e : nots_plain e = true -> then_free e = true /\ tail_ok e = true /\ strip e = Some e /\ wf_seq false e = true.
Proof.
  induction e as [a| |a IH|a IHa b IHb|a IHa b IHb|a IHa b IHb]; cbn [nots_plain]; intros H; try discriminate.
  - repeat split; reflexivity.
  - destruct (plain_simple a H) as (A1 & A2 & A3 & A4). cbn. rewrite A1, A2, A3, A4.
    assert (wf_seq true a = true) as -> by (apply tail_ok_judged; exact A3). repeat split; reflexivity.
  - apply andb_true_iff in H as [Ha Hb]. destruct (IHa Ha) as (A1 & A2 & A3 & A4). destruct (IHb Hb) as (B1 & B2 & B3 & B4).
    cbn. rewrite A1, A2, A3, A4, B1, B2, B3, B4. repeat split; reflexivity.
  - apply andb_true_iff in H as [Ha Hb]. destruct (IHa Ha) as (A1 & A2 & A3 & A4). destruct (IHb Hb) as (B1 & B2 & B3 & B4).
    cbn. rewrite A1, A2, A3, A4, B1, B2, B3, B4. repeat split; reflexivity.
Qed.

Lemma run_ends v e : nots_plain e = true -> forall i p E, run v e i p = Some E -> (length E <= data_ends e)%nat.
Proof.
  induction e as [a| |a IH|a IHa b IHb|a IHa b IHb|a IHa b IHb]; cbn [nots_plain]; intros H i p E Hr; try discriminate.
  - destruct a as [| | | | |sub els]; cbn [run data_ends] in *;
      try (destruct (atom_truth v _); inversion Hr; cbn; lia).
    destruct (nth_error els i); [|discriminate]. destruct (v_nxt v n p); inversion Hr. cbn. lia.
  - cbn [run] in Hr. destruct (existsb _ _); inversion Hr. cbn. lia.
  - apply andb_true_iff in H as [Ha Hb]. cbn [run data_ends] in *.
    destruct (run v a _ p) as [x|] eqn:Ea; [|discriminate]. destruct (run v b _ p) as [y|] eqn:Eb; [|discriminate].
    inversion Hr; subst. rewrite app_length. specialize (IHa Ha _ _ _ Ea). specialize (IHb Hb _ _ _ Eb). lia.
  - apply andb_true_iff in H as [Ha Hb]. cbn [run data_ends] in *.
    destruct (Nat.ltb i (readings a)); [specialize (IHa Ha _ _ _ Hr)|specialize (IHb Hb _ _ _ Hr)]; lia.
Qed.

(* where a flat conjunct ends *)
Definition cendo (v : valuation) (c : conj) : option N :=
  match pos_els c with [] => None | x :: _ => v_nxt v x (v_start v) end.

Lemma pos_els_app a b : pos_els (a ++ b) = pos_els a ++ pos_els b.
Proof. unfold pos_els. apply flat_map_app. Qed.

Lemma pos_els_clean_subset c x : data_flat c -> In x (pos_els (conj_clean c)) -> In x (pos_els c).
Proof.
  intros Hf Hx.
  assert (Hf' : data_flat (conj_clean c)) by (intros d Hd; apply Hf; apply conj_clean_data_subset; exact Hd).
  apply (pos_els_in _ x Hf') in Hx. apply (pos_els_in c x Hf). apply conj_clean_data_subset. exact Hx.
Qed.

Lemma nodata_pos c : (forall d, ~ In (CData d) c) -> pos_els c = [].
Proof.
  intros H. unfold pos_els. induction c as [|x c IH]; [reflexivity|]. cbn [flat_map].
  rewrite IH by (intros d Hd; apply (H d); right; exact Hd).
  destruct x; try reflexivity. exfalso. apply (H c0). left. reflexivity.
Qed.

(* cleaning the union with a conjunct that has no matched payload filter does not move the end *)
Lemma cendo_clean v c : flat1 c -> eval_conj v (conj_clean c) = true -> cendo v (conj_clean c) = cendo v c.
Proof.
  intros [Hf Hs] He. unfold cendo.
  assert (Hni : conj_impossible (conj_clean c) = false).
  { destruct (conj_impossible (conj_clean c)) eqn:E; [|reflexivity]. rewrite (conj_impossible_eval v _ E) in He. discriminate. }
  destruct (pos_els c) as [|x rest] eqn:Ep.
  - destruct (pos_els (conj_clean c)) as [|y r] eqn:Eq; [reflexivity|]. exfalso.
    assert (In y (pos_els c)) by (apply pos_els_clean_subset; [exact Hf|rewrite Eq; left; reflexivity]). rewrite Ep in H. contradiction.
  - assert (Hx : In x (pos_els c)) by (rewrite Ep; left; reflexivity).
    assert (Hin : In (CData (mkData [x] false)) (conj_clean c)).
    { apply conj_clean_data_keeps; auto. apply (pos_els_in c x Hf). exact Hx. }
    assert (Hf' : data_flat (conj_clean c)) by (intros d Hd; apply Hf; apply conj_clean_data_subset; exact Hd).
    apply (pos_els_in _ x Hf') in Hin.
    destruct (pos_els (conj_clean c)) as [|y r] eqn:Eq; [contradiction|].
    assert (Hy : In y (pos_els c)) by (apply pos_els_clean_subset; [exact Hf|rewrite Eq; left; reflexivity]).
    rewrite (Hs y x Hy Hx). reflexivity.
Qed.

Lemma flat1_union a b : flat1 a -> flat1 b -> (pos_els a = [] \/ pos_els b = []) -> flat1 (a ++ b).
Proof.
  intros [Fa Sa] [Fb Sb] Hn. split.
  - intros d Hd. apply in_app_or in Hd as [Hd|Hd]; auto.
  - intros x y. rewrite pos_els_app. destruct Hn as [E|E]; rewrite E; [cbn [app]|rewrite app_nil_r]; auto.
Qed.
Lemma flat1_clean c : flat1 c -> flat1 (conj_clean c).
Proof.
  intros [Hf Hs]. split.
  - intros d Hd. apply Hf. apply conj_clean_data_subset. exact Hd.
  - intros x y Hx Hy. apply Hs; apply pos_els_clean_subset; auto.
Qed.

(* ------------------------------------------------------------------ groups: conjuncts and readings agree, ends included *)
Lemma atom_nodata a : (forall s els, a <> AData s els) -> forall c, In c (conds_of_atom a) -> forall d, ~ In (CData d) c.
Proof.
  intros Hna c Hc d Hd. pose proof (conds_of_atom_posflat a) as Hp. rewrite Forall_forall in Hp.
  destruct a as [sub names|sub items|cli srv sub items|tys sub ranges|key sub ranges|sub els]; [| | | | |exfalso; eapply Hna; reflexivity];
    cbn [conds_of_atom] in Hc.
  - apply in_map_iff in Hc as (n & <- & _). destruct Hd as [H|[]]; discriminate.
  - apply in_map_iff in Hc as (it & <- & _).
    destruct it as [x|s]; [|destruct (N.eqb s sub); [contradiction|]]; unfold flag_invert in Hd; apply in_map_iff in Hd as (u & Hu & _); discriminate.
  - apply in_app_or in Hc as [Hc|Hc]; [destruct cli|destruct srv]; try contradiction;
      apply in_map_iff in Hc as (it & <- & _); destruct it; destruct Hd as [H|[]]; discriminate.
  - apply in_flat_map in Hc as (r & _ & Hc). apply in_map_iff in Hc as (ty & <- & _). unfold num_range_conj in Hd.
    destruct r as [b|lo hi]; apply in_app_or in Hd as [Hd|Hd];
      repeat match goal with H : In _ (if ?x then _ else _) |- _ => destruct x end;
      repeat match goal with H : In _ [] |- _ => contradiction | H : In _ [_] |- _ => destruct H as [H|[]]; discriminate end.
  - apply in_map_iff in Hc as (r & <- & _). unfold time_range_conj in Hd.
    destruct r as [b|lo hi]; destruct (N.eqb key 0), (N.eqb key 1); apply in_app_or in Hd as [Hd|Hd];
      repeat match goal with H : In _ (if ?x then _ else _) |- _ => destruct x end;
      repeat match goal with H : In _ [] |- _ => contradiction | H : In _ [_] |- _ => destruct H as [H|[]]; discriminate end.
Qed.

Definition group_ok (a : expr) (cs : cset) : Prop :=
  cs <> [] /\ cset_wf cs /\ Forall flat1 cs /\
  (data_ends a = 0%nat -> Forall (fun c => pos_els c = []) cs) /\
  forall v, val_ok v -> forall K : option N -> bool,
    existsb (fun c => eval_conj v c && K (cendo v c)) cs =
    existsb (fun i => match run v a i (v_start v) with Some E => K (hd_error E) | None => false end) (seqn (readings a)).

Lemma existsb_const_r {A} (f : A -> bool) (k : bool) l : existsb (fun x => f x && k) l = existsb f l && k.
Proof. induction l as [|x l IH]; cbn; [reflexivity|]. rewrite IH. destruct (f x), k, (existsb f l); reflexivity. Qed.

Lemma group_atom a : atom_wf a -> group_ok (EAtom a) (conds_of_atom a).
Proof.
  intros Hw. destruct (conds_of_atom_sound v0 v0_ok a Hw) as (_ & W & N).
  destruct a as [sub names|sub items|cli srv sub items|tys sub ranges|key sub ranges|sub els].
  6:{ (* payload filter: one conjunct per direction *)
    split; [exact N|]. split; [exact W|]. cbn [conds_of_atom]. split; [|split].
    - apply Forall_map. apply Forall_true. intros e. split.
      + intros d [H|[]]. inversion H; subst. exists e. reflexivity.
      + intros x y [<-|[]] [<-|[]]. reflexivity.
    - cbn. discriminate.
    - intros v ok K. rewrite existsb_map'. cbn [readings]. unfold seqn.
      rewrite <- (existsb_seq_nth (fun e => eval_conj v [CData (mkData [e] false)] && K (cendo v [CData (mkData [e] false)])) els).
      apply existsb_ext_in. intros i _. cbn [run]. destruct (nth_error els i) as [e|]; [|reflexivity].
      unfold eval_conj, cendo, eval_data. cbn. destruct (v_nxt v e (v_start v)); reflexivity. }
  all: match goal with |- group_ok (EAtom ?a) _ =>
    assert (Hnd : forall c, In c (conds_of_atom a) -> pos_els c = [])
      by (intros c Hc; apply nodata_pos; apply (atom_nodata a); [intros s els; discriminate|exact Hc]);
    assert (Hdf : forall c, In c (conds_of_atom a) -> forall d, ~ In (CData d) c)
      by (intros c Hc; apply (atom_nodata a); [intros s els; discriminate|exact Hc]);
    (split; [exact N|]); (split; [exact W|]); split; [|split];
    [ apply Forall_forall; intros c Hc; split; [intros d Hd; exfalso; apply (Hdf c Hc d Hd)|intros x y Hx; rewrite (Hnd c Hc) in Hx; contradiction]
    | intros _; apply Forall_forall; exact Hnd
    | intros v ok K;
      transitivity (existsb (fun c => eval_conj v c && K None) (conds_of_atom a));
      [ apply existsb_ext_in; intros c Hc; unfold cendo; rewrite (Hnd c Hc); reflexivity
      | rewrite existsb_const_r; fold (eval_set v (conds_of_atom a));
        destruct (conds_of_atom_sound v ok a Hw) as (E & _); rewrite E; cbn [atom_holds readings run seqn seq existsb];
        unfold seqn; cbn [seq existsb]; rewrite orb_false_r; destruct (atom_truth v a); reflexivity ] ] end.
Qed.

Lemma group_not x : plain x = true -> expr_wf x -> exists cs, norm (ENot x) = Some cs /\ group_ok (ENot x) cs.
Proof.
  intros Hp Hw. destruct (plain_simple x Hp) as (Hs & Hf & Ht & Hst).
  pose proof (norm_sound_then x Ht Hw) as Hn. cbn [norm].
  destruct (norm x) as [csx|] eqn:En; [|rewrite Hst in Hn; discriminate].
  destruct Hn as (N & W & x' & Es & Ee). rewrite Hst in Es. inversion Es; subst x'.
  exists (cs_invert csx). split; [reflexivity|].
  destruct (cs_invert_sound v0 v0_ok csx N W) as (_ & Wi & Ni).
  pose proof (cs_invert_negflat csx (norm_simple_posflat x csx Hs En)) as Hneg. rewrite Forall_forall in Hneg.
  split; [exact Ni|]. split; [exact Wi|]. split; [|split].
  - apply Forall_forall. intros c Hc. apply negflat_flat1. apply Hneg. exact Hc.
  - intros _. apply Forall_forall. intros c Hc. apply negflat_pos. apply Hneg. exact Hc.
  - intros v ok K.
    transitivity (existsb (fun c => eval_conj v c && K None) (cs_invert csx)).
    + apply existsb_ext_in. intros c Hc. unfold cendo. rewrite (negflat_pos c (Hneg c Hc)). reflexivity.
    + rewrite existsb_const_r. fold (eval_set v (cs_invert csx)).
      destruct (cs_invert_sound v ok csx N W) as (Ei & _). rewrite Ei, (Ee v ok).
      cbn [readings seqn]. unfold seqn. cbn [seq existsb run]. rewrite orb_false_r. fold (seqn (readings x)). fold (holds v x (v_start v)).
      destruct (holds v x (v_start v)); reflexivity.
Qed.

Lemma group_or a b xa xb : group_ok a xa -> group_ok b xb -> group_ok (EOr a b) (cs_or xa xb).
Proof.
  intros (Na & Wa & Fa & Za & Sa) (Nb & Wb & Fb & Zb & Sb). unfold cs_or. split; [|split; [|split; [|split]]].
  - destruct xa; [congruence|discriminate].
  - apply cset_wf_app; auto.
  - apply Forall_app; split; auto.
  - cbn [data_ends]. intros H. apply Forall_app; split; [apply Za|apply Zb]; lia.
  - intros v ok K. rewrite existsb_app, (Sa v ok K), (Sb v ok K). cbn [readings]. unfold seqn. rewrite existsb_seq_app. f_equal.
    + apply existsb_ext_in. intros i Hi. apply in_seq in Hi. cbn [run]. destruct (Nat.ltb_spec i (readings a)); [reflexivity|lia].
    + apply existsb_ext_in. intros k _. cbn [run]. destruct (Nat.ltb_spec (readings a + k) (readings a)); [lia|].
      replace (readings a + k - readings a)%nat with k by lia. reflexivity.
Qed.

Lemma existsb_flat_map' {A B} (f : B -> bool) (g : A -> list B) l :
  existsb f (flat_map g l) = existsb (fun x => existsb f (g x)) l.
Proof. induction l as [|x l IH]; cbn; [reflexivity|]. rewrite existsb_app, IH. reflexivity. Qed.

Lemma existsb_pairs {A B} (f : A -> bool) (g : B -> bool) (h : A -> B -> bool) la lb :
  (forall x y, In x la -> In y lb -> h x y = f x && g y) ->
  existsb (fun x => existsb (fun y => h x y) lb) la = existsb f la && existsb g lb.
Proof.
  intros H. rewrite <- existsb_and2. apply existsb_ext_in. intros x Hx. apply existsb_ext_in. intros y Hy. apply H; auto.
Qed.

Lemma run_noends v e : nots_plain e = true -> data_ends e = 0%nat -> forall i p E, run v e i p = Some E -> E = [].
Proof. intros Hn H0 i p E Hr. pose proof (run_ends v e Hn i p E Hr) as Hl. rewrite H0 in Hl. destruct E; [reflexivity|cbn in Hl; lia]. Qed.

Lemma group_and a b xa xb :
  nots_plain a = true -> nots_plain b = true -> (data_ends a = 0 \/ data_ends b = 0)%nat ->
  group_ok a xa -> group_ok b xb -> group_ok (EAnd a b) (cs_and xa xb).
Proof.
  intros Hpa Hpb Hz (Na & Wa & Fa & Za & Sa) (Nb & Wb & Fb & Zb & Sb).
  destruct (cs_and_sound v0 v0_ok xa xb Na Nb Wa Wb) as (_ & W & N).
  assert (Hshape : cs_and xa xb = flat_map (fun c1 => map (fun c2 => conj_and c1 c2) xb) xa).
  { unfold cs_and. destruct xa; [congruence|]. destruct xb; [congruence|]. reflexivity. }
  assert (Hpos : forall c1 c2, In c1 xa -> In c2 xb -> pos_els c1 = [] \/ pos_els c2 = []).
  { intros c1 c2 H1 H2. destruct Hz as [H0|H0]; [left; specialize (Za H0); rewrite Forall_forall in Za; auto
                                                   |right; specialize (Zb H0); rewrite Forall_forall in Zb; auto]. }
  rewrite Forall_forall in Fa, Fb.
  assert (Hflat : forall c1 c2, In c1 xa -> In c2 xb -> flat1 (c1 ++ c2)).
  { intros c1 c2 H1 H2. apply flat1_union; auto. }
  split; [exact N|]. split; [exact W|]. split; [|split].
  - rewrite Hshape. apply Forall_forall. intros c Hc. apply in_flat_map in Hc as (c1 & H1 & Hc). apply in_map_iff in Hc as (c2 & <- & H2).
    unfold conj_and. apply flat1_clean. auto.
  - cbn [data_ends]. intros H0. assert (data_ends a = 0 /\ data_ends b = 0)%nat as [A0 B0] by lia.
    specialize (Za A0). specialize (Zb B0). rewrite Forall_forall in Za, Zb.
    rewrite Hshape. apply Forall_forall. intros c Hc. apply in_flat_map in Hc as (c1 & H1 & Hc). apply in_map_iff in Hc as (c2 & <- & H2).
    unfold conj_and. destruct (pos_els (conj_clean (c1 ++ c2))) as [|y r] eqn:E; [reflexivity|]. exfalso.
    assert (In y (pos_els (c1 ++ c2))) by (apply pos_els_clean_subset; [apply (Hflat c1 c2 H1 H2)|rewrite E; left; reflexivity]).
    rewrite pos_els_app, (Za c1 H1), (Zb c2 H2) in H. contradiction.
  - intros v ok K. rewrite Hshape, existsb_flat_map'.
    transitivity (existsb (fun c1 => existsb (fun c2 => eval_conj v (conj_and c1 c2) && K (cendo v (conj_and c1 c2))) xb) xa);
      [apply existsb_ext_in; intros c1 _; apply existsb_map'|].
    (* conjunct side: the end is the end of the side that has one *)
    assert (Hc : forall c1 c2, In c1 xa -> In c2 xb ->
              eval_conj v (conj_and c1 c2) && K (cendo v (conj_and c1 c2)) =
              (eval_conj v c1 && eval_conj v c2) && K (match pos_els c1 with [] => cendo v c2 | _ => cendo v c1 end)).
    { intros c1 c2 H1 H2. unfold cset_wf in Wa, Wb. rewrite Forall_forall in Wa, Wb.
      destruct (conj_and_sound v ok c1 c2 (Wa c1 H1) (Wb c2 H2)) as [E _]. rewrite E.
      destruct (eval_conj v c1 && eval_conj v c2) eqn:Et; [|reflexivity]. cbn [andb]. f_equal.
      unfold conj_and in *. rewrite (cendo_clean v (c1 ++ c2) (Hflat c1 c2 H1 H2)) by (exact E).
      unfold cendo. rewrite pos_els_app. destruct (Hpos c1 c2 H1 H2) as [P|P]; rewrite P.
      - reflexivity.
      - rewrite app_nil_r. destruct (pos_els c1); reflexivity. }
    cbn [readings]. unfold seqn.
    destruct Hz as [A0|B0].
    + (* a has no payload end *)
      specialize (Za A0). rewrite Forall_forall in Za.
      transitivity (existsb (fun c1 => eval_conj v c1) xa && existsb (fun c2 => eval_conj v c2 && K (cendo v c2)) xb).
      * apply existsb_pairs. intros c1 c2 H1 H2. rewrite (Hc c1 c2 H1 H2), (Za c1 H1).
        destruct (eval_conj v c1), (eval_conj v c2); reflexivity.
      * rewrite (Sb v ok K). pose proof (Sa v ok (fun _ => true)) as Sa1.
        assert (Ea : existsb (fun c1 => eval_conj v c1) xa = existsb (fun c => eval_conj v c && true) xa)
          by (apply existsb_ext_in; intros; rewrite andb_true_r; reflexivity).
        rewrite Ea, Sa1. unfold seqn.
        rewrite <- (existsb_seq_prod (fun i => match run v a i (v_start v) with Some _ => true | None => false end)
                                      (fun j => match run v b j (v_start v) with Some E => K (hd_error E) | None => false end)).
        apply existsb_ext_in. intros k _. cbn [run].
        destruct (run v a (k / readings b) (v_start v)) as [x|] eqn:Ea'; [|reflexivity].
        rewrite (run_noends v a Hpa A0 _ _ _ Ea'). destruct (run v b (k mod readings b) (v_start v)); reflexivity.
    + specialize (Zb B0). rewrite Forall_forall in Zb.
      transitivity (existsb (fun c1 => eval_conj v c1 && K (cendo v c1)) xa && existsb (fun c2 => eval_conj v c2) xb).
      * apply existsb_pairs. intros c1 c2 H1 H2. rewrite (Hc c1 c2 H1 H2).
        assert (match pos_els c1 with [] => cendo v c2 | _ :: _ => cendo v c1 end = cendo v c1) as ->.
        { unfold cendo. rewrite (Zb c2 H2). destruct (pos_els c1); reflexivity. }
        destruct (eval_conj v c1), (eval_conj v c2), (K (cendo v c1)); reflexivity.
      * rewrite (Sa v ok K). pose proof (Sb v ok (fun _ => true)) as Sb1.
        assert (Eb : existsb (fun c2 => eval_conj v c2) xb = existsb (fun c => eval_conj v c && true) xb)
          by (apply existsb_ext_in; intros; rewrite andb_true_r; reflexivity).
        rewrite Eb, Sb1. unfold seqn.
        rewrite <- (existsb_seq_prod (fun i => match run v a i (v_start v) with Some E => K (hd_error E) | None => false end)
                                      (fun j => match run v b j (v_start v) with Some _ => true | None => false end)).
        apply existsb_ext_in. intros k _. cbn [run].
        destruct (run v a (k / readings b) (v_start v)) as [x|] eqn:Ea'; [|reflexivity].
        destruct (run v b (k mod readings b) (v_start v)) as [y|] eqn:Eb'; [|rewrite andb_false_r; reflexivity].
        rewrite (run_noends v b Hpb B0 _ _ _ Eb'), app_nil_r, andb_true_r. reflexivity.
Qed.

Theorem group_sound a : nots_plain a = true -> (data_ends a <= 1)%nat -> expr_wf a ->
  exists cs, norm a = Some cs /\ group_ok a cs.
Proof.
  induction a as [x| |x IH|x IHx y IHy|x IHx y IHy|x IHx y IHy]; cbn [nots_plain data_ends expr_wf]; intros Hn Hd Hw; try discriminate.
  - exists (conds_of_atom x). split; [reflexivity|apply group_atom; exact Hw].
  - apply group_not; auto.
  - apply andb_true_iff in Hn as [Hx Hy]. destruct Hw as [Wx Wy].
    destruct (IHx Hx ltac:(lia) Wx) as (xa & Ea & Ga). destruct (IHy Hy ltac:(lia) Wy) as (xb & Eb & Gb).
    exists (cs_and xa xb). cbn [norm]. rewrite Ea, Eb. split; [reflexivity|]. apply group_and; auto. lia.
  - apply andb_true_iff in Hn as [Hx Hy]. destruct Hw as [Wx Wy].
    destruct (IHx Hx ltac:(lia) Wx) as (xa & Ea & Ga). destruct (IHy Hy ltac:(lia) Wy) as (xb & Eb & Gb).
    exists (cs_or xa xb). cbn [norm]. rewrite Ea, Eb. split; [reflexivity|]. apply group_or; auto.
Qed.

(* THEN: a group with at most one payload end on the left, anything with a sound set on the right *)
Lemma then_sound_group v a b' xa yb :
  nots_plain a = true -> (data_ends a <= 1)%nat -> group_ok a xa -> val_ok v -> cset_wf yb -> yb <> [] ->
  (forall q, eval_set (at_pos v q) yb = holds v b' q) ->
  eval_set v (cs_then xa yb) = holds v (EThen a b') (v_start v).
Proof.
  intros Hpa Hde (Na & Wa & Fa & _ & Sa) ok Wb Nb Hb.
  assert (Hshape : cs_then xa yb = flat_map (fun c1 => map (fun c2 => conj_then c1 c2) yb) xa).
  { unfold cs_then. destruct xa; [congruence|]. destruct yb; [congruence|]. reflexivity. }
  set (K := fun o : option N => holds v b' (match o with Some q => q | None => v_start v end)).
  rewrite Hshape. unfold eval_set. rewrite existsb_flat_map'.
  transitivity (existsb (fun c1 => eval_conj v c1 && K (cendo v c1)) xa).
  - apply existsb_ext_in. intros c1 H1. rewrite existsb_map'.
    rewrite Forall_forall in Fa. pose proof (Fa c1 H1) as F1.
    transitivity (existsb (fun c2 => eval_conj v c1 && match pos_of v (Mc c1) with Some q => eval_conj (at_pos v q) c2 | None => false end) yb).
    { apply existsb_ext_in. intros c2 H2. apply conj_then_sem2; [apply flat1_Mc_cases; exact F1|].
      unfold cset_wf in Wb. rewrite Forall_forall in Wb. auto. }
    destruct (eval_conj v c1) eqn:E1; cbn [andb]; [|clear; induction yb; cbn; auto].
    unfold K, cendo, Mc, pos_of. destruct (pos_els c1) as [|x rest] eqn:Ep.
    + cbn [run_all]. fold (eval_set (at_pos v (v_start v)) yb). apply Hb.
    + cbn [run_all]. destruct (v_nxt v x (v_start v)) as [q|] eqn:En.
      * fold (eval_set (at_pos v q) yb). apply Hb.
      * (* the conjunct holds, so its matched filter has a position *)
        exfalso. destruct F1 as [Hf _].
        assert (Hin : In (CData (mkData [x] false)) c1) by (apply (pos_els_in c1 x Hf); rewrite Ep; left; reflexivity).
        unfold eval_conj in E1. rewrite forallb_forall in E1. specialize (E1 _ Hin). cbn in E1. unfold eval_data in E1. cbn in E1.
        rewrite En in E1. discriminate.
  - rewrite (Sa v ok K), holds_then. unfold seqn. apply existsb_ext_in. intros i _.
    transitivity (existsb (fun j => match run v a i (v_start v) with
                                    | None => false
                                    | Some [] => is_some (run v b' j (v_start v))
                                    | Some (q :: _) => is_some (run v b' j q)
                                    end) (seq 0 (readings b'))).
    2:{ apply existsb_ext_in. intros j _. symmetry. apply is_some_then_run. intros E HE.
        pose proof (run_ends v a Hpa _ _ _ HE). lia. }
    destruct (run v a i (v_start v)) as [[|q r]|]; unfold K; cbn [hd_error]; try reflexivity.
    clear. induction (seq 0 (readings b')); cbn; auto.
Qed.

(* ------------------------------------------------------------------ the class of the headline theorems *)
Fixpoint class_ok (e : expr) : bool :=
  match e with
  | EAtom _ | ESkip => true
  | ENot a => class_ok a
  | EAnd a b | EOr a b => class_ok a && class_ok b
  | EThen a b => (seqs a || lgrp a) && class_ok b
  end.

Lemma tail_ok_class e : tail_ok e = true -> class_ok e = true.
Proof.
  induction e as [a| |a IH|a IHa b IHb|a IHa b IHb|a IHa b IHb]; cbn; intros H; auto;
    apply andb_true_iff in H as [Ha Hb]; rewrite ?IHa, ?IHb, ?Ha; auto.
Qed.

Theorem norm_sound_class e :
  class_ok e = true -> expr_wf e ->
  match norm e with
  | Some cs => cs <> [] /\ cset_wf cs /\
               exists e', strip e = Some e' /\
                          forall v, val_ok v -> eval_set v cs = holds v e' (v_start v)
  | None => strip e = None
  end.
Proof.
  induction e as [a| |a IH|a IHa b IHb|a IHa b IHb|a IHa b IHb]; intros Hf Hw; cbn [class_ok expr_wf norm strip] in *.
  - apply (norm_sound_then (EAtom a) eq_refl Hw).
  - reflexivity.
  - specialize (IH Hf Hw). destruct (norm a) as [cs|].
    + destruct IH as (N & W & e' & Es & Ee). rewrite Es. split; [|split].
      * apply (cs_invert_sound v0 v0_ok cs N W).
      * apply (cs_invert_sound v0 v0_ok cs N W).
      * exists (ENot e'). split; [reflexivity|]. intros v ok. rewrite holds_not, <- (Ee v ok). apply (cs_invert_sound v ok cs N W).
    + rewrite IH. reflexivity.
  - apply andb_true_iff in Hf as [Hfa Hfb]. destruct Hw as [Hwa Hwb].
    specialize (IHa Hfa Hwa). specialize (IHb Hfb Hwb).
    destruct (norm a) as [x|], (norm b) as [y|].
    + destruct IHa as (Na & Wa & ea & Esa & Eea). destruct IHb as (Nb & Wb & eb & Esb & Eeb). rewrite Esa, Esb.
      destruct (cs_and_sound v0 v0_ok x y Na Nb Wa Wb) as (_ & W & N). split; [exact N|]. split; [exact W|].
      exists (EAnd ea eb). split; [reflexivity|]. intros v ok. rewrite holds_and, <- (Eea v ok), <- (Eeb v ok).
      apply (cs_and_sound v ok x y Na Nb Wa Wb).
    + destruct IHa as (Na & Wa & ea & Esa & Eea). rewrite Esa, IHb. split; [exact Na|]. split; [exact Wa|]. exists ea. auto.
    + destruct IHb as (Nb & Wb & eb & Esb & Eeb). rewrite IHa, Esb. split; [exact Nb|]. split; [exact Wb|]. exists eb. auto.
    + rewrite IHa, IHb. reflexivity.
  - apply andb_true_iff in Hf as [Hfa Hfb]. destruct Hw as [Hwa Hwb].
    specialize (IHa Hfa Hwa). specialize (IHb Hfb Hwb).
    destruct (norm a) as [x|], (norm b) as [y|].
    + destruct IHa as (Na & Wa & ea & Esa & Eea). destruct IHb as (Nb & Wb & eb & Esb & Eeb). rewrite Esa, Esb.
      split; [unfold cs_or; destruct x; [congruence|discriminate]|]. split; [apply cset_wf_app; auto|].
      exists (EOr ea eb). split; [reflexivity|]. intros v ok. rewrite holds_or, cs_or_sound, (Eea v ok), (Eeb v ok). reflexivity.
    + destruct IHa as (Na & Wa & ea & Esa & Eea). rewrite Esa, IHb. split; [exact Na|]. split; [exact Wa|]. exists ea. auto.
    + destruct IHb as (Nb & Wb & eb & Esb & Eeb). rewrite IHa, Esb. split; [exact Nb|]. split; [exact Wb|]. exists eb. auto.
    + rewrite IHa, IHb. reflexivity.
  - (* THEN *)
    apply andb_true_iff in Hf as [Hfa Hfb]. destruct Hw as [Hwa Hwb]. specialize (IHb Hfb Hwb). clear IHa.
    destruct (seqs a) eqn:Hsa.
    + (* sequences on the left: QueryThen *)
      rewrite (seqs_norm a Hsa), (seqs_strip a Hsa).
      pose proof (seqs_readings a Hsa) as Hra.
      assert (Nx : map (fun i => cj (rd a i)) (seqn (readings a)) <> []) by (unfold seqn; destruct (readings a); [lia|discriminate]).
      assert (Wx : cset_wf (map (fun i => cj (rd a i)) (seqn (readings a)))) by (apply Forall_map; apply Forall_forall; intros i _; apply cj_wf).
      destruct (norm b) as [y|].
      * destruct IHb as (Nb & Wb & eb & Esb & Eeb). rewrite Esb. split; [|split].
        -- unfold cs_then. destruct (map _ (seqn (readings a))) as [|x0 xs]; [congruence|]. destruct y; [congruence|]. discriminate.
        -- unfold cs_then. destruct (map (fun i => cj (rd a i)) (seqn (readings a))) as [|x0 xs] eqn:Ex; [congruence|].
           destruct y as [|y0 ys] eqn:Ey; [congruence|]. rewrite <- Ex, <- Ey in *.
           unfold cset_wf in *. rewrite Forall_forall in *. intros c Hc.
           apply in_flat_map in Hc as (c1 & H1 & Hc). apply in_map_iff in Hc as (c2 & <- & H2). apply conj_then_wf; auto.
        -- exists (EThen a eb). split; [reflexivity|]. intros v ok.
           apply then_sound; auto. intros q. rewrite (Eeb (at_pos v q) (val_ok_at v q ok)). apply holds_at.
      * rewrite IHb. split; [exact Nx|]. split; [exact Wx|]. exists a. split; [reflexivity|]. intros v ok. apply seqs_sound. exact Hsa.
    + (* a group with at most one payload end on the left *)
      cbn [orb] in Hfa. unfold lgrp in Hfa. apply andb_true_iff in Hfa as [Hnp Hde]. apply Nat.leb_le in Hde.
      destruct (group_sound a Hnp Hde Hwa) as (xa & Ea & Ga). rewrite Ea.
      destruct (nots_plain_facts a Hnp) as (_ & _ & Hst & _). rewrite Hst.
      pose proof Ga as (Na & Wa & Fa & _ & Sa).
      destruct (norm b) as [y|].
      * destruct IHb as (Nb & Wb & eb & Esb & Eeb). rewrite Esb. split; [|split].
        -- unfold cs_then. destruct xa; [congruence|]. destruct y; [congruence|]. discriminate.
        -- unfold cs_then. destruct xa as [|x0 xs] eqn:Ex; [congruence|]. destruct y as [|y0 ys] eqn:Ey; [congruence|]. rewrite <- Ex, <- Ey in *.
           unfold cset_wf in *. rewrite Forall_forall in *. intros c Hc.
           apply in_flat_map in Hc as (c1 & H1 & Hc). apply in_map_iff in Hc as (c2 & <- & H2). apply conj_then_wf; auto.
        -- exists (EThen a eb). split; [reflexivity|]. intros v ok.
           apply (then_sound_group v a eb xa y Hnp Hde Ga ok Wb Nb). intros q. rewrite (Eeb (at_pos v q) (val_ok_at v q ok)). apply holds_at.
      * rewrite IHb. split; [exact Na|]. split; [exact Wa|]. exists a. split; [reflexivity|]. intros v ok.
        pose proof (Sa v ok (fun _ => true)) as S1. unfold eval_set, holds.
        transitivity (existsb (fun c => eval_conj v c && true) xa); [apply existsb_ext_in; intros; rewrite andb_true_r; reflexivity|].
        rewrite S1. apply existsb_ext_in. intros i _. destruct (run v a i (v_start v)); reflexivity.
Qed.

Theorem normalisation_preserves_meaning_class v e :
  val_ok v -> ids_ok v -> class_ok e = true -> expr_wf e ->
  eval_set v (parse_conditions e) = sem v e.
Proof.
  intros ok iok Hf Hw. pose proof (norm_sound_class e Hf Hw) as H.
  destruct (norm e) as [cs|] eqn:En.
  - destruct H as (N & W & e' & Es & Ee). rewrite (parse_final_sound v e cs ok iok En N W).
    unfold sem. rewrite Es. apply Ee. exact ok.
  - unfold parse_conditions, sem. rewrite En, H. reflexivity.
Qed.

Theorem impossible_only_if_unsatisfiable_class e :
  class_ok e = true -> expr_wf e -> parse_conditions e = [] ->
  forall v, val_ok v -> ids_ok v -> sem v e = false.
Proof.
  intros Hf Hw Hp v ok iok. rewrite <- (normalisation_preserves_meaning_class v e ok iok Hf Hw), Hp. reflexivity.
Qed.

(* the class lies inside the judged fragment *)
Lemma lgrp_wf a : lgrp a = true -> wf_seq false a = true /\ multi_end a = false.
Proof.
  unfold lgrp. intros H. apply andb_true_iff in H as [Hn Hd]. apply Nat.leb_le in Hd.
  split; [apply (nots_plain_facts a Hn)|].
  induction a as [x| |x IH|x IHx y IHy|x IHx y IHy|x IHx y IHy]; cbn [nots_plain multi_end data_ends] in *; try discriminate; try reflexivity.
  - apply Nat.leb_gt. lia.
  - apply andb_true_iff in Hn as [Hx Hy]. rewrite IHx, IHy by (auto; lia). reflexivity.
Qed.
Theorem class_ok_judged e : class_ok e = true -> wf_seq true e = true.
Proof.
  induction e as [x| |x IH|x IHx y IHy|x IHx y IHy|x IHx y IHy]; cbn [class_ok]; intros H; try reflexivity.
  - cbn. rewrite (IH H). reflexivity.
  - apply andb_true_iff in H as [Ha Hb]. cbn. rewrite (IHx Ha), (IHy Hb). reflexivity.
  - apply andb_true_iff in H as [Ha Hb]. cbn. rewrite (IHx Ha), (IHy Hb). reflexivity.
  - apply andb_true_iff in H as [Ha Hb]. apply orb_true_iff in Ha as [Ha|Ha].
    + destruct (seqs_wf_seq x Ha) as [A1 A2]. cbn. rewrite A1, A2, (IHy Hb). reflexivity.
    + destruct (lgrp_wf x Ha) as [A1 A2]. cbn. rewrite A1, A2, (IHy Hb). reflexivity.
Qed.
