(* Attribution of payload to packets (model: Attrib.v) -- C05 theorem (3): the backwards search of
   AddUDPPacket / ReassembledSG finds the packet that carried the bytes, provided packet sources are
   unique inside a stream (they are: every packet is fed once, BuilderOrderProofs). *)
From Pk Require Import Attrib.
From Coq Require Import Lia.
From Coq Require Import ZifyBool ZifyN ZifyNat.

Lemma pref_eqb_refl r : pref_eqb r r = true.
Proof. destruct r as [[f i] t]. unfold pref_eqb. rewrite !N.eqb_refl. reflexivity. Qed.

Lemma pref_eqb_eq a b : pref_eqb a b = true -> a = b.
Proof.
  destruct a as [[f1 i1] t1], b as [[f2 i2] t2]. unfold pref_eqb.
  rewrite !Bool.andb_true_iff, !N.eqb_eq. intros [[-> ->] ->]. reflexivity.
Qed.

(* the packet just appended is found at the last index: every UDP datagram is attributed to itself *)
Lemma find_back_newest l n r d : find_back ((r, d) :: l) (n + 1) r = Some n.
Proof. simpl. rewrite pref_eqb_refl. f_equal. lia. Qed.

Theorem udp_payload_attributed_to_its_packet : forall s r dir b,
  b <> [] ->
  s_data (add_udp_packet s r dir b) = (s_npk s, b) :: s_data s /\
  dir_of_index (add_udp_packet s r dir b) (s_npk s) = dir.
Proof.
  intros s r dir b Hb. unfold add_udp_packet, add_data.
  destruct b as [|x b]; [congruence|].
  cbn [s_pkts s_npk add_packet]. rewrite find_back_newest. cbn [s_data]. split; [reflexivity|].
  unfold dir_of_index. cbn [s_npk s_pkts]. replace (N.to_nat (s_npk s + 1 - 1 - s_npk s)) with O by lia.
  reflexivity.
Qed.

(* general form (TCP): with unique sources the search returns the position of the packet *)
Lemma find_back_spec : forall l n r,
  n = N.of_nat (length l) ->
  forall i, find_back l n r = Some i ->
  exists d, nth_error l (N.to_nat (n - 1 - i)) = Some (r, d) /\ i < n.
Proof.
  induction l as [|[q d] l IH]; intros n r Hn i H; simpl in H; [discriminate|].
  destruct (pref_eqb q r) eqn:E.
  - inversion H; subst. apply pref_eqb_eq in E. subst q. exists d. simpl length.
    replace (N.to_nat (N.of_nat (S (length l)) - 1 - (N.of_nat (S (length l)) - 1))) with O by lia.
    split; [reflexivity|lia].
  - destruct (IH (n - 1) r ltac:(simpl length in Hn; lia) i H) as (d' & Hnth & Hlt).
    exists d'. simpl length in Hn. split; [|lia].
    replace (N.to_nat (n - 1 - i)) with (S (N.to_nat (n - 1 - 1 - i))) by lia. exact Hnth.
Qed.
