(* TagsC16.v -- C16: cached converter output belongs to the current version of the stream.
   Proofs about the repaired instance of theories/Tags.v (all switches off = the Go code after
   commits d1a158c and ffeb56c); the faithful instance is refuted by the two historical witnesses. *)
From Coq Require Import List NArith Bool Lia.
From Pk Require Import Tags.
Import ListNotations.
Open Scope N_scope.

(* ---------------------------------------------------------------- responses of the importer *)
Definition iresp_ok (nx : N) (r : iresp) : Prop :=
  nx <= ir_next r /\
  (forall i, mem i (ir_upd r) = true -> i < nx) /\
  (forall i, mem i (ir_rst r) = true -> i < nx) /\
  (forall i, mem i (ir_add r) = true -> nx <= i).

Definition act_ok (st : state) (a : action) : Prop :=
  match a with
  | ABodyImport r => iresp_ok (next st) r
  | _ => True
  end.

(* ---------------------------------------------------------------- the invariant *)
Definition cache_ok (st : state) : Prop :=
  forall c i v, cache st c i = Some v ->
    i < next st /\ memN c (convs st) = true /\ (v = ver st i \/ (jconv st <> None /\ mem i (m_cupd st) = true)).

Definition convjob_ok (st : state) : Prop :=
  forall j, jconv st = Some j ->
    cj_next j <= next st /\ (forall cs, In cs (cj_sets j) -> memN (fst cs) (convs st) = true) /\
    forall i, i < cj_next j -> cj_ver j i = ver st i \/ mem i (m_cupd st) = true.

Definition impjob_ok (st : state) : Prop :=
  forall n r, jimp st = Some (mkImp n (Some r)) -> iresp_ok (next st) r.

Definition Cinv (st : state) : Prop := cache_ok st /\ convjob_ok st /\ impjob_ok st.

(* the invariant only reads these fields *)
Lemma cinv_frame st st' :
  next st' = next st -> cache st' = cache st -> ver st' = ver st -> jconv st' = jconv st ->
  m_cupd st' = m_cupd st -> jimp st' = jimp st -> convs st' = convs st -> Cinv st -> Cinv st'.
Proof.
  intros Hn Hc Hv Hj Hm Hi Hcv (A & B & C). unfold Cinv, cache_ok, convjob_ok, impjob_ok.
  rewrite Hn, Hc, Hv, Hj, Hm, Hi, Hcv. auto.
Qed.

(* ---------------------------------------------------------------- bitset facts *)
Lemma mem_union i a b : mem i (union a b) = mem i a || mem i b.
Proof. unfold mem, union. apply N.lor_spec. Qed.
Lemma mem_0 i : mem i 0 = false.
Proof. unfold mem. apply N.bits_0. Qed.
Lemma mem_diff i a b : mem i (diff a b) = mem i a && negb (mem i b).
Proof. unfold mem, diff. apply N.ldiff_spec. Qed.
Lemma mem_inter i a b : mem i (inter a b) = mem i a && mem i b.
Proof. unfold mem, inter. apply N.land_spec. Qed.
Lemma mem_single i j : mem i (single j) = (i =? j).
Proof.
  unfold mem, single. rewrite N.shiftl_1_l. destruct (N.eqb_spec i j) as [->|H].
  - apply N.pow2_bits_true.
  - apply N.pow2_bits_false. congruence.
Qed.
Lemma mem_add1 i j s : mem i (add1 j s) = mem i s || (i =? j).
Proof. unfold add1. fold (union s (single j)). rewrite mem_union, mem_single. reflexivity. Qed.

(* ---------------------------------------------------------------- helpers keep the fields *)
Ltac fields := repeat split; try reflexivity.

(* fields the invariant reads *)
Definition cfields (st st' : state) : Prop :=
  next st' = next st /\ cache st' = cache st /\ ver st' = ver st /\ jconv st' = jconv st /\
  m_cupd st' = m_cupd st /\ jimp st' = jimp st /\ convs st' = convs st.

Lemma cinv_fields st st' : cfields st st' -> Cinv st -> Cinv st'.
Proof. intros (F1 & F2 & F3 & F4 & F5 & F6 & F7). apply cinv_frame; assumption. Qed.

Lemma start_tagging_cfields p st : cfields st (start_tagging p st).
Proof.
  unfold start_tagging. destruct (jtag st); [fields|].
  destruct (if eligible (tags st) p then Some p else first_eligible (tags st)); [|fields].
  destruct (tget n (tags st)); fields.
Qed.

Lemma start_merge_cfields st : cfields st (start_merge st).
Proof. unfold start_merge. destruct (merge_eligible st); fields. Qed.

Lemma cinv_start_tagging p st : Cinv st -> Cinv (start_tagging p st).
Proof. apply cinv_fields, start_tagging_cfields. Qed.
Lemma cinv_start_merge st : Cinv st -> Cinv (start_merge st).
Proof. apply cinv_fields, start_merge_cfields. Qed.

Lemma filter_In_memN (f : N -> bool) l c : In c (filter f l) -> memN c l = true.
Proof.
  intros H. apply filter_In in H. destruct H as [H _]. unfold memN. apply existsb_exists.
  exists c. split; [exact H|apply N.eqb_refl].
Qed.

(* start_converter: a new job snapshots the current versions; nothing was stale before *)
Lemma cinv_start_converter st : Cinv st -> Cinv (start_converter st).
Proof.
  intros (A & B & C). unfold start_converter. destruct (jconv st) eqn:J; [exact (conj A (conj B C))|].
  destruct (filter _ (convs st)) eqn:F; [exact (conj A (conj B C))|].
  split; [|split].
  - intros c i v H. simpl in H. destruct (A c i v H) as (L & M & [E|[E _]]); [|congruence].
    split; [exact L|split; [exact M|left; exact E]].
  - intros j H. simpl in H. inversion H; subst; simpl. split; [lia|split].
    + intros cs Hin.
      assert (exists c, cs = (c, toconv st c) /\ In c (n :: l)) as (c & -> & Hc).
      { destruct Hin as [<-|Hin]; [exists n; split; [reflexivity|left; reflexivity]|].
        apply in_map_iff in Hin. destruct Hin as (c & <- & Hc). exists c. split; [reflexivity|right; exact Hc]. }
      simpl. rewrite <- F in Hc. eapply filter_In_memN; exact Hc.
    + intros; left; reflexivity.
  - exact C.
Qed.

(* dropping cache entries (and changing streamsToConvert / tags) keeps the invariant *)
Definition dfields (st st' : state) : Prop :=
  next st' = next st /\ ver st' = ver st /\ jconv st' = jconv st /\ m_cupd st' = m_cupd st /\ jimp st' = jimp st /\
  convs st' = convs st /\ (forall c i v, cache st' c i = Some v -> cache st c i = Some v).

Lemma cinv_drop st st' : dfields st st' -> Cinv st -> Cinv st'.
Proof.
  intros (Hn & Hv & Hj & Hm & Hi & Hcv & Hc) (A & B & C). unfold Cinv, cache_ok, convjob_ok, impjob_ok.
  rewrite Hn, Hv, Hj, Hm, Hi, Hcv. split; [|split; assumption].
  intros c i v H. apply Hc in H. apply (A _ _ _ H).
Qed.

Lemma cinv_invalidate st s : Cinv st -> Cinv (invalidate_converters st s).
Proof.
  apply cinv_drop. unfold dfields; simpl. fields.
  intros c i v. destruct (memN c (convs st) && mem i s); [discriminate|auto].
Qed.

Lemma detach_dfields st n c : dfields st (detach st n c).
Proof.
  unfold detach. destruct (tget n (tags st)); [|unfold dfields; fields; auto].
  match goal with |- context[if ?b then _ else _] => destruct b end; unfold dfields; fields; auto.
  simpl. intros c' i v. destruct (c' =? c); [discriminate|auto].
Qed.

Lemma cinv_detach st n c : Cinv st -> Cinv (detach st n c).
Proof. apply cinv_drop, detach_dfields. Qed.

Lemma cinv_fold (f : state -> N -> state) l :
  (forall s c, Cinv s -> Cinv (f s c)) -> forall st, Cinv st -> Cinv (fold_left f l st).
Proof. intros Hf. induction l; simpl; auto. Qed.

Lemma attach_cfields st n c st' : attach st n c = Some st' -> cfields st st'.
Proof.
  unfold attach. destruct (tget n (tags st)); [|intros E; inversion E; fields].
  destruct (tag_has_conv c t); [intros E; inversion E; fields|].
  destruct (complex (t_def t)); [discriminate|]. intros E; inversion E; fields.
Qed.

Lemma cinv_attach_all cs : forall st n, Cinv st -> Cinv (fst (attach_all st n cs)).
Proof.
  induction cs; simpl; intros; auto.
  destruct (memN a (convs st)); [|exact H].
  destruct (attach st n a) eqn:E; [|exact H].
  apply IHcs. eapply cinv_fields; [eapply attach_cfields; exact E|exact H].
Qed.

Lemma cinv_set_tags st ts : Cinv st -> Cinv (set_tags st ts).
Proof. apply cinv_fields. fields. Qed.
Lemma cinv_set_toconv st f : Cinv st -> Cinv (set_toconv st f).
Proof. apply cinv_fields. fields. Qed.
Lemma cinv_set_masks st a b c : Cinv st -> Cinv (set_masks st a b c).
Proof. apply cinv_fields. fields. Qed.
Lemma cinv_after_detach k b st : Cinv st -> Cinv (after_detach k b st).
Proof.
  intros H. unfold after_detach. destruct (kf_detachreset k); [exact H|].
  destruct (b && has_data_tag (tags st)); [|exact H].
  unfold reopen_data. apply cinv_set_masks, cinv_set_tags, H.
Qed.
Lemma cinv_tag_again k p st : Cinv st -> Cinv (tag_again k p st).
Proof. intros H. unfold tag_again. destruct (kf_detachreset k); [exact H|apply cinv_start_tagging, H]. Qed.
Lemma cinv_queue_matches st cs m : Cinv st -> Cinv (queue_matches st cs m).
Proof. apply cinv_fields. fields. Qed.
Lemma cinv_set_jtag st j : Cinv st -> Cinv (set_jtag st j).
Proof. apply cinv_fields. fields. Qed.
Lemma cinv_set_jmerge st j : Cinv st -> Cinv (set_jmerge st j).
Proof. apply cinv_fields. fields. Qed.
Lemma cinv_set_idx st l u : Cinv st -> Cinv (set_idx st l u).
Proof. apply cinv_fields. fields. Qed.
Lemma cinv_set_views st v : Cinv st -> Cinv (set_views st v).
Proof. apply cinv_fields. fields. Qed.
Lemma cinv_set_queue st q : Cinv st -> Cinv (set_queue st q).
Proof. apply cinv_fields. fields. Qed.

Lemma cinv_starts p st : Cinv st -> Cinv (start_merge (start_converter (start_tagging p st))).
Proof. intros. apply cinv_start_merge, cinv_start_converter, cinv_start_tagging. assumption. Qed.

Lemma cinv_jimp_none st n : Cinv st -> Cinv (set_jimp st (Some (mkImp n None))).
Proof.
  intros (A & B & C). split; [exact A|split; [exact B|]]. intros n0 r0 H. simpl in H. discriminate.
Qed.
Lemma cinv_jimp_clear st : Cinv st -> Cinv (set_jimp st None).
Proof.
  intros (A & B & C). split; [exact A|split; [exact B|]]. intros n0 r0 H. simpl in H. discriminate.
Qed.

(* ---------------------------------------------------------------- import completion *)
Lemma cinv_import_core st r tg mu mr ma q tc ix un jt jm h vw :
  Cinv st -> iresp_ok (next st) r ->
  let s := union (ir_upd r) (ir_rst r) in
  Cinv (invalidate_converters
          (mkSt (ir_next r) tg mu mr ma (union (m_cupd st) s) q (convs st) tc (cache st)
                (bump (ver st) (union s (ir_add r))) ix un None jt (jconv st) jm h vw) s).
Proof.
  intros (A & B & C) (R1 & R2 & R3 & R4) s.
  assert (forall i, i < next st -> mem i s = false -> bump (ver st) (union s (ir_add r)) i = ver st i) as HB.
  { intros i Hi Hs. unfold bump. rewrite mem_union, Hs. simpl.
    destruct (mem i (ir_add r)) eqn:E; [|reflexivity]. apply R4 in E. lia. }
  split; [|split].
  - intros c i v H. simpl in H.
    destruct (memN c (convs st) && mem i s) eqn:E; [discriminate|].
    destruct (A c i v H) as (L & M & D). rewrite M in E. simpl in E.
    split; [simpl; lia|split; [exact M|]]. simpl.
    destruct D as [D|[D1 D2]].
    + left. rewrite HB; assumption.
    + right. split; [exact D1|]. rewrite mem_union, D2. reflexivity.
  - intros j H. simpl in H. destruct (B j H) as (L & M & D). split; [simpl; lia|split; [exact M|]].
    intros i Hi. simpl. destruct (mem i s) eqn:E.
    + right. rewrite mem_union, E. apply orb_true_r.
    + destruct (D i Hi) as [D1|D1].
      * left. rewrite HB; [exact D1|lia|exact E].
      * right. rewrite mem_union, D1. reflexivity.
  - intros n0 r0 H. simpl in H. discriminate.
Qed.

(* ---------------------------------------------------------------- converter job body *)
Lemma conv_ok_lt bad nx c i : conv_ok bad nx c i = true -> i < nx.
Proof. unfold conv_ok. intros H. apply andb_true_iff in H. apply N.ltb_lt. exact (proj1 H). Qed.

Lemma fold_guard (cch : N -> option N) bad nx c l : forall acc i,
  mem i (fold_left (fun a x => match cch x with Some _ => a | None => if conv_ok bad nx c x then add1 x a else a end) l acc) = true ->
  mem i acc = true \/ i < nx.
Proof.
  induction l; simpl; intros acc i H; [left; exact H|].
  apply IHl in H. destruct H as [H|H]; [|right; exact H].
  destruct (cch a) eqn:E; [left; exact H|].
  destruct (conv_ok bad nx c a) eqn:CO; [apply conv_ok_lt in CO|left; exact H].
  rewrite mem_add1 in H. apply orb_true_iff in H. destruct H as [H|H]; [left; exact H|].
  apply N.eqb_eq in H. subst. right. assumption.
Qed.

Lemma lookupN_map (f : N * N -> N) c l :
  lookupN c (map (fun cs => (fst cs, f cs)) l) <> 0 ->
  exists cs, In cs l /\ fst cs = c /\ lookupN c (map (fun cs => (fst cs, f cs)) l) = f cs.
Proof.
  unfold lookupN. induction l; simpl; [congruence|].
  destruct (fst a =? c) eqn:E.
  - intros _. exists a. split; [left; reflexivity|split; [apply N.eqb_eq; exact E|reflexivity]].
  - intros H. destruct (IHl H) as (cs & I & F & L). exists cs. split; [right; exact I|split; assumption].
Qed.

Lemma mem_true_ne0 i s : mem i s = true -> s <> 0.
Proof. intros H E. subst. rewrite mem_0 in H. discriminate. Qed.

Lemma cinv_body_convert k p bad st : Cinv st -> Cinv (step k p (ABodyConvert bad) st).
Proof.
  intros (A & B & C). simpl. destruct (jconv st) as [j|] eqn:J; [|exact (conj A (conj B C))].
  destruct (cj_done j); [exact (conj A (conj B C))|].
  destruct (B j J) as (L & M & D).
  split; [|split].
  - intros c i v H. simpl in H. destruct (cache st c i) eqn:E.
    + inversion H; subst. destruct (A c i v E) as (X & Y & [Z|[_ Z]]).
      * split; [exact X|split; [exact Y|left; exact Z]].
      * split; [exact X|split; [exact Y|right; split; [simpl; discriminate|exact Z]]].
    + match type of H with (if mem i ?S then _ else _) = _ => destruct (mem i S) eqn:EM; [|discriminate] end.
      inversion H; subst.
      destruct (lookupN_map _ c (cj_sets j) (mem_true_ne0 _ _ EM)) as (cs & I & F & LL).
      rewrite LL in EM. apply fold_guard in EM. destruct EM as [EM|EM]; [rewrite mem_0 in EM; discriminate|].
      split; [simpl; lia|split; [simpl; rewrite <- F; apply M; exact I|]].
      simpl. destruct (D i EM) as [D1|D1]; [left; exact D1|right; split; [discriminate|exact D1]].
  - intros j' H. simpl in H. inversion H; subst; simpl. split; [exact L|split; [|exact D]].
    intros cs I. apply in_map_iff in I. destruct I as (x & <- & I). simpl. apply M; exact I.
  - exact C.
Qed.

(* ---------------------------------------------------------------- converter job completion *)
Lemma cinv_convert_done st : Cinv st -> Cinv (invalidate_converters (set_jconv st None) (m_cupd st)).
Proof.
  intros (A & B & C). split; [|split].
  - intros c i v H. simpl in H. destruct (memN c (convs st) && mem i (m_cupd st)) eqn:E; [discriminate|].
    destruct (A c i v H) as (X & Y & Z). rewrite Y in E. simpl in E.
    split; [exact X|split; [exact Y|]]. destruct Z as [Z|[_ Z]]; [left; exact Z|congruence].
  - intros j H. simpl in H. discriminate.
  - exact C.
Qed.

(* ---------------------------------------------------------------- C16: the cache-version invariant is preserved *)
Definition repaired_c16 (k : kf) : Prop := kf_reset k = false /\ kf_inflight k = false /\ kf_viewstore k = false.

Theorem cinv_step k p a st : repaired_c16 k -> act_ok st a -> Cinv st -> Cinv (step k p a st).
Proof.
  intros (Kr & Ki & Kv) Hok H. destruct a.
  - (* AImport *) simpl. destruct files; [exact H|].
    match goal with |- context[if ?b then _ else _] => destruct b end.
    + apply cinv_jimp_none, cinv_set_queue, H.
    + apply cinv_set_queue, H.
  - (* AAddTag *) simpl. destruct (tget n (tags st)); [exact H|].
    destruct (refs_ok n d (tags st)); [|exact H].
    destruct (d_mark d); [apply cinv_set_tags, H|apply cinv_start_tagging, cinv_set_tags, H].
  - (* ADelTag *) simpl. destruct (tget n (tags st)); [|exact H].
    destruct (referenced n (tags st)); [exact H|].
    apply cinv_tag_again, cinv_set_tags, cinv_after_detach. apply cinv_fold; [intros; apply cinv_detach; assumption|exact H].
  - (* AQuery *) simpl. destruct (tget n (tags st)); [|exact H].
    destruct (complex d && _); [exact H|].
    destruct (refs_ok n d (tags st)); [|exact H].
    apply cinv_start_converter, cinv_start_tagging, cinv_set_tags, H.
  - (* AMarkAdd *) simpl. destruct (tget n (tags st)); [|exact H]. destruct ids; [exact H|].
    destruct (next st <=? maxl (n0 :: ids)); [exact H|].
    apply cinv_start_converter, cinv_start_tagging, cinv_set_tags, cinv_queue_matches, H.
  - (* AMarkDel *) simpl. destruct (tget n (tags st)); [|exact H]. destruct ids; [exact H|].
    destruct (next st <=? maxl (n0 :: ids)); [exact H|].
    apply cinv_start_converter, cinv_start_tagging, cinv_set_tags, H.
  - (* ASetConv *) simpl. destruct (tget n (tags st)); [|exact H].
    match goal with |- context[if ?b then _ else _] => destruct b end; [|exact H].
    apply cinv_start_converter, cinv_tag_again, cinv_attach_all, cinv_after_detach. apply cinv_fold; [|exact H].
    intros s c Hs. destruct (memN c cs); [exact Hs|apply cinv_detach; exact Hs].
  - (* ABodyImport *) simpl. destruct (jimp st) as [j|] eqn:J; [|exact H].
    destruct (ij_resp j); [exact H|].
    destruct H as (A & B & C). split; [exact A|split; [exact B|]].
    intros n0 r0 E. simpl in E. inversion E; subst. exact Hok.
  - (* ABodyTag *) simpl. destruct (jtag st) as [j|]; [|exact H]. destruct (tj_res j); [exact H|].
    apply (cinv_fields st); [fields|exact H].
  - (* ABodyConvert *) apply cinv_body_convert, H.
  - (* ABodyMerge *) simpl. destruct (jmerge st) as [j|]; [|exact H]. destruct (mj_res j); [exact H|].
    apply (cinv_fields st); [fields|exact H].
  - (* AComplete *) destruct k0.
    + (* import *) simpl. destruct (jimp st) as [[nf [r|]]|] eqn:J; try exact H.
      apply cinv_starts.
      assert (forall st1, Cinv st1 ->
        Cinv (match skipn (ir_proc r) (queue st1) with
              | [] => set_queue st1 (skipn (ir_proc r) (queue st1))
              | _ :: _ => set_jimp (set_queue st1 (skipn (ir_proc r) (queue st1)))
                                   (Some (mkImp (length (skipn (ir_proc r) (queue st1))) None)) end)) as HQ.
      { intros st1 H1. destruct (skipn (ir_proc r) (queue st1)) eqn:E.
        - rewrite <- E. apply cinv_set_queue, H1.
        - rewrite <- E. apply cinv_jimp_none, cinv_set_queue, H1. }
      destruct (ir_idx r) eqn:EI.
      * apply HQ. apply cinv_jimp_clear, H.
      * apply HQ. rewrite Kr, Ki. simpl.
        pose proof H as (A & B & C). pose proof (C _ _ J) as R.
        rewrite (N.lor_comm (union (ir_upd r) (ir_rst r)) (ir_add r)) || idtac.
        apply (cinv_import_core st r); assumption.
    + (* tag *) simpl. destruct (jtag st) as [[n d m0 u0 cv snap h [res|]]|]; try exact H.
      apply cinv_starts.
      match goal with |- context[match tget n ?T with _ => _ end] => destruct (tget n T) as [ot|] end;
        [|apply (cinv_fields st); [fields|exact H]].
      destruct (defn_eqb (t_def ot) d); apply (cinv_fields st); try exact H; fields.
    + (* convert *) simpl. destruct (jconv st) as [[sets v nx [|]]|]; try exact H.
      rewrite Ki.
      assert (forall s, Cinv s -> Cinv (if kf_mergeconv k then start_converter (start_tagging p s)
                                         else start_merge (start_converter (start_tagging p s)))) as HS.
      { intros s Hs. destruct (kf_mergeconv k).
        - apply cinv_start_converter, cinv_start_tagging, Hs.
        - apply cinv_starts, Hs. }
      apply HS. eapply cinv_fields; [|apply (cinv_convert_done st), H]. fields.
    + (* merge *) simpl. destruct (jmerge st) as [[off snap [merged|]]|]; try exact H.
      apply cinv_start_merge. apply (cinv_fields st); [fields|exact H].
  - (* AViewOpen *) simpl. apply (cinv_fields st); [fields|exact H].
  - (* AViewData *) simpl. destruct (find _ (views st)) as [[v0 sv]|]; [|exact H].
    destruct (cache st c i) eqn:E; [exact H|].
    destruct (N.ltb_spec i (next st)) as [Hlt|]; simpl; [|exact H].
    destruct (memN c (convs st)) eqn:Hc; simpl; [|exact H].
    rewrite Kv. simpl. destruct (N.eqb_spec (sv i) (ver st i)) as [Ev|Ev].
    + destruct H as (A & B & C). split; [|split; [exact B|exact C]].
      intros c' i' v' H'. simpl in H'.
      destruct ((c' =? c) && (i' =? i)) eqn:E2.
      * apply andb_true_iff in E2. destruct E2 as [E2 E3]. apply N.eqb_eq in E2, E3. subst.
        inversion H'; subst. split; [exact Hlt|split; [exact Hc|left; exact Ev]].
      * apply (A _ _ _ H').
    + apply cinv_start_converter, cinv_set_toconv, cinv_invalidate, H.
  - (* AViewClose *) simpl. apply (cinv_fields st); [fields|exact H].
Qed.

(* ---------------------------------------------------------------- histories *)
Fixpoint acts_ok (k : kf) (st : state) (l : list (N * action)) : Prop :=
  match l with
  | [] => True
  | (p, a) :: r => act_ok st a /\ acts_ok k (step k p a st) r
  end.

Lemma cinv_init cs : Cinv (init cs).
Proof.
  split; [|split]; intros *; simpl; discriminate.
Qed.

Lemma cinv_run k l : forall st, repaired_c16 k -> acts_ok k st l -> Cinv st -> Cinv (run k l st).
Proof.
  unfold run. induction l as [|[p a] l IH]; simpl; intros st K Hok H; [exact H|].
  destruct Hok as [H1 H2]. apply IH; [exact K|exact H2|]. apply cinv_step; assumption.
Qed.

(* no converter job in flight: every cached output is the output of the current version *)
Lemma cinv_quiet st : Cinv st -> jconv st = None ->
  forall c i v, cache st c i = Some v -> v = ver st i.
Proof.
  intros (A & _) J c i v H. destruct (A c i v H) as (_ & _ & [E|[E _]]); [exact E|congruence].
Qed.

(* ---------------------------------------------------------------- the two historical defects (faithful switches) *)
Definition d_port : defn := mkDef 1 false false false false [] [] false.
Definition w_import1 : iresp := mkIresp 1 0 0 1 1 [1].      (* adds stream 0 *)
Definition w_extend : iresp := mkIresp 1 1 0 0 1 [1].       (* updates stream 0 *)
Definition w_reset : iresp := mkIresp 1 0 1 0 1 [1].        (* a later capture holds earlier packets of stream 0 *)

Definition w_prefix : list (N * action) :=
  [(0, AImport [0]); (0, ABodyImport w_import1); (0, AComplete JImport);
   (0, AAddTag 3 d_port 0); (0, ABodyTag [(3, 1)]); (0, AComplete JTag); (0, ASetConv 3 [0])].

(* converter job parked at start, an import extends stream 0, then the job runs *)
Definition w_inflight : list (N * action) :=
  w_prefix ++ [(0, AImport [1]); (0, ABodyImport w_extend); (0, AComplete JImport);
               (0, ABodyConvert []); (0, AComplete JConvert)].

(* output exists, then an import resets stream 0 *)
Definition w_resetrun : list (N * action) :=
  w_prefix ++ [(0, ABodyConvert []); (0, AComplete JConvert);
               (0, AImport [1]); (0, ABodyImport w_reset); (0, AComplete JImport);
               (0, ABodyTag [(3, 1)]); (0, AComplete JTag); (0, ABodyConvert []); (0, AComplete JConvert)].

Definition stale_at_rest (st : state) : bool :=
  match jconv st, cache st 0 0 with
  | None, Some v => negb (v =? ver st 0) && is0 (toconv st 0)
  | _, _ => false
  end.
