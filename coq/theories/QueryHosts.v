(* QueryHosts.v -- soundness of clean_host. *)
From Coq Require Import List NArith ZArith Bool Lia Permutation.
From Pk Require Import Query QuerySort QueryClean.
Import ListNotations.
Open Scope N_scope.

(* what Parse produces: a constant with one source, or two sources and no constant *)
Definition host_wf (c : hostc) : Prop :=
  length (h_m4 c) = 4%nat /\ length (h_m6 c) = 16%nat /\
  (length (h_host c) = 0%nat \/ length (h_host c) = 4%nat \/ length (h_host c) = 16%nat) /\
  ((h_host c = [] /\ (length (h_srcs c) <= 2)%nat) \/ (length (h_srcs c) <= 1)%nat).

(* evaluation on the source addresses *)
Fixpoint hfold (h : option (list N)) (os : list (list N)) : option (option (list N)) :=
  match os with
  | [] => Some h
  | o :: r =>
      match h with
      | None => hfold (Some o) r
      | Some hh => if Nat.eqb (length hh) (length o) then hfold (Some (xor_bytes hh o)) r else None
      end
  end.
Definition hev (host : list N) (os : list (list N)) (m4 m6 : list N) (inv : bool) : bool :=
  match hfold (match host with [] => None | _ => Some host end) os with
  | None => inv
  | Some None => negb inv
  | Some (Some h) => negb (Bool.eqb (masked_zero h (if Nat.eqb (length h) 16 then m6 else m4)) inv)
  end.

Lemma host_fold_map v h srcs : host_fold v h srcs = hfold h (map (src_host v) srcs).
Proof.
  revert h; induction srcs as [|s r IH]; intros h; simpl; auto.
  destruct h; auto. destruct (Nat.eqb _ _); auto.
Qed.
Lemma eval_host_hev v c :
  eval_host v c = hev (h_host c) (map (src_host v) (h_srcs c)) (h_m4 c) (h_m6 c) (h_inv c).
Proof. unfold eval_host, hev. rewrite host_fold_map. reflexivity. Qed.

(* ---- byte list facts *)
Lemma xor_bytes_length a b : length a = length b -> length (xor_bytes a b) = length a.
Proof. revert b; induction a as [|x a IH]; intros [|y b] H; simpl in *; auto; try discriminate. Qed.
Lemma land_bytes_length a b : length a = length b -> length (land_bytes a b) = length a.
Proof. revert b; induction a as [|x a IH]; intros [|y b] H; simpl in *; auto; try discriminate. Qed.

Lemma xor_bytes_comm a b : xor_bytes a b = xor_bytes b a.
Proof. revert b; induction a as [|x a IH]; intros [|y b]; simpl; auto. rewrite N.lxor_comm, IH. reflexivity. Qed.

Lemma masked_zero_xor_self a m : masked_zero (xor_bytes a a) m = true.
Proof.
  revert m; induction a as [|x a IH]; intros [|y m]; simpl; auto.
  rewrite N.lxor_nilpotent, N.land_0_l. simpl. auto.
Qed.

Lemma land_land x m : N.land (N.land x m) m = N.land x m.
Proof. rewrite <- N.land_assoc, N.land_diag. reflexivity. Qed.

Lemma land_lxor_l x o m : N.land (N.lxor (N.land x m) o) m = N.land (N.lxor x o) m.
Proof.
  apply N.bits_inj. intros n. rewrite !N.land_spec, !N.lxor_spec, !N.land_spec.
  destruct (N.testbit x n), (N.testbit o n), (N.testbit m n); reflexivity.
Qed.

Lemma masked_zero_land_xor h o m :
  length h = length m -> masked_zero (xor_bytes (land_bytes h m) o) m = masked_zero (xor_bytes h o) m.
Proof.
  revert o m; induction h as [|x h IH]; intros [|y o] [|z m] H; simpl in *; auto; try discriminate.
  rewrite land_lxor_l, IH by lia. reflexivity.
Qed.

Lemma masked_zero_land h m : length h = length m -> masked_zero (land_bytes h m) m = masked_zero h m.
Proof.
  revert m; induction h as [|x h IH]; intros [|z m] H; simpl in *; auto; try discriminate.
  rewrite land_land, IH by lia. reflexivity.
Qed.

Lemma masked_zero_forallb h m :
  length h = length m -> masked_zero (land_bytes h m) m = forallb (fun x => N.eqb x 0) (land_bytes h m).
Proof.
  revert m; induction h as [|x h IH]; intros [|z m] H; simpl in *; auto; try discriminate.
  rewrite land_land, IH by lia. reflexivity.
Qed.

Lemma src_eqb_eq a b : src_eqb a b = true -> a = b.
Proof.
  unfold src_eqb. intros H. apply andb_true_iff in H as [H1 H2]. apply N.eqb_eq in H1. apply eqb_prop in H2.
  destruct a, b; simpl in *; subst; reflexivity.
Qed.

(* ---- one condition: sources sorted and cancelled, constant masked *)
Definition host_norm1 (c : hostc) : hostc :=
  mkHost (src_cancel (isort src_key (h_srcs c))) (host_mask_self c) (h_m4 c) (h_m6 c) (h_inv c).

Lemma mask_self_length c : host_wf c -> length (host_mask_self c) = length (h_host c).
Proof.
  intros (H4 & H6 & Hl & _). unfold host_mask_self.
  destruct (Nat.eqb_spec (length (h_host c)) 4) as [E|E]; [apply land_bytes_length; lia|].
  destruct (Nat.eqb_spec (length (h_host c)) 16) as [E2|E2]; [apply land_bytes_length; lia|]. reflexivity.
Qed.

Lemma mask_self_nil c : h_host c = [] -> host_mask_self c = [].
Proof. intros H. unfold host_mask_self. rewrite H. reflexivity. Qed.

(* no source *)
Lemma hev_nosrc c : host_wf c ->
  hev (host_mask_self c) [] (h_m4 c) (h_m6 c) (h_inv c) = negb (Bool.eqb (zero_host c) (h_inv c)) /\
  hev (h_host c) [] (h_m4 c) (h_m6 c) (h_inv c) = negb (Bool.eqb (zero_host c) (h_inv c)).
Proof.
  intros Hw. pose proof Hw as (H4 & H6 & Hl & _). pose proof (mask_self_length c Hw) as Hlen.
  unfold hev, zero_host, host_mask_self in *. simpl hfold.
  destruct Hl as [E|[E|E]].
  - destruct (h_host c); [|discriminate]. simpl. split; destruct (h_inv c); reflexivity.
  - rewrite E in *. cbn [Nat.eqb orb] in *.
    destruct (h_host c) as [|x0 t0] eqn:Eh; [discriminate|]. rewrite <- Eh in *.
    assert (Hl4 : length (land_bytes (h_host c) (h_m4 c)) = 4%nat) by (rewrite land_bytes_length; lia).
    destruct (land_bytes (h_host c) (h_m4 c)) as [|y0 u0] eqn:El; [discriminate|]. rewrite <- El in *.
    rewrite Hl4, E. cbn [Nat.eqb].
    rewrite <- masked_zero_forallb, masked_zero_land by lia. split; reflexivity.
  - rewrite E in *. cbn [Nat.eqb orb] in *.
    destruct (h_host c) as [|x0 t0] eqn:Eh; [discriminate|]. rewrite <- Eh in *.
    assert (Hl16 : length (land_bytes (h_host c) (h_m6 c)) = 16%nat) by (rewrite land_bytes_length; lia).
    destruct (land_bytes (h_host c) (h_m6 c)) as [|y0 u0] eqn:El; [discriminate|]. rewrite <- El in *.
    rewrite Hl16, E. cbn [Nat.eqb].
    rewrite <- masked_zero_forallb, masked_zero_land by lia. split; reflexivity.
Qed.

(* one source: masking the constant does not matter *)
Lemma hev_onesrc c o : host_wf c ->
  hev (host_mask_self c) [o] (h_m4 c) (h_m6 c) (h_inv c) = hev (h_host c) [o] (h_m4 c) (h_m6 c) (h_inv c).
Proof.
  intros Hw. pose proof Hw as (H4 & H6 & Hl & _). pose proof (mask_self_length c Hw) as Hlen.
  assert (Hcase : h_host c = [] \/
                  (h_host c <> [] /\ exists m, host_mask_self c = land_bytes (h_host c) m /\ length m = length (h_host c) /\
                                      m = if Nat.eqb (length (h_host c)) 16 then h_m6 c else h_m4 c)).
  { unfold host_mask_self. destruct Hl as [E|[E|E]].
    - left. destruct (h_host c); [reflexivity|discriminate].
    - right. split; [intros Hn; rewrite Hn in E; discriminate|]. exists (h_m4 c). rewrite E. cbn. auto.
    - right. split; [intros Hn; rewrite Hn in E; discriminate|]. exists (h_m6 c). rewrite E. cbn. auto. }
  destruct Hcase as [Hn|(Hne & m & Hm & Hml & Hmsel)].
  - rewrite (mask_self_nil c Hn), Hn. reflexivity.
  - unfold hev.
    destruct (h_host c) as [|x0 t0] eqn:Eh; [congruence|]. rewrite <- Eh in *.
    destruct (host_mask_self c) as [|y0 u0] eqn:El; [rewrite Eh in Hlen; discriminate|]. rewrite <- El in *.
    cbn [hfold]. rewrite Hlen.
    destruct (Nat.eqb_spec (length (h_host c)) (length o)) as [Eo|Eo]; [|reflexivity].
    rewrite !xor_bytes_length by lia. rewrite Hlen, <- Hmsel, Hm.
    rewrite masked_zero_land_xor by lia. reflexivity.
Qed.

(* two sources, no constant: order does not matter, equal sources cancel *)
Lemma hev_two_swap x y m4 m6 inv : hev [] [x; y] m4 m6 inv = hev [] [y; x] m4 m6 inv.
Proof.
  unfold hev. cbn [hfold]. rewrite (Nat.eqb_sym (length y)).
  destruct (Nat.eqb_spec (length x) (length y)) as [E|E]; [|reflexivity].
  rewrite (xor_bytes_comm y x), !xor_bytes_length by lia. reflexivity.
Qed.
Lemma hev_two_same x m4 m6 inv : hev [] [x; x] m4 m6 inv = negb inv.
Proof.
  unfold hev. cbn [hfold]. rewrite Nat.eqb_refl, masked_zero_xor_self. destruct inv; reflexivity.
Qed.

Lemma host_norm1_sound v c : host_wf c ->
  eval_host v (host_norm1 c) = eval_host v c /\ host_wf (host_norm1 c) /\
  (h_srcs (host_norm1 c) = [] -> eval_host v c = negb (Bool.eqb (zero_host c) (h_inv c))).
Proof.
  intros Hw. pose proof Hw as (H4 & H6 & Hl & Hs). pose proof (mask_self_length c Hw) as Hlen.
  rewrite !eval_host_hev. unfold host_norm1. cbn [h_srcs h_host h_m4 h_m6 h_inv].
  assert (Hwf : forall srcs', (length srcs' <= length (h_srcs c))%nat ->
                host_wf (mkHost srcs' (host_mask_self c) (h_m4 c) (h_m6 c) (h_inv c))).
  { intros srcs' Hle. repeat split; cbn [h_srcs h_host h_m4 h_m6 h_inv]; auto.
    - rewrite Hlen. auto.
    - destruct Hs as [[Hn H2]|H1]; [left; split; [apply mask_self_nil; auto|lia]|right; lia]. }
  destruct (h_srcs c) as [|a [|b [|c3 r3]]] eqn:Esr.
  - cbn [isort src_cancel map]. destruct (hev_nosrc c Hw) as [E1 E2]. split; [congruence|]. split; [apply Hwf; simpl; lia|]. intros _. exact E2.
  - cbn [isort insert src_cancel src_cancel_go map]. rewrite hev_onesrc by auto. split; [reflexivity|]. split; [apply Hwf; simpl; lia|discriminate].
  - (* two sources: the constant is absent *)
    destruct Hs as [[Hn _]|H1]; [|simpl in H1; lia].
    rewrite (mask_self_nil c Hn) in *. rewrite Hn in *.
    assert (Hsort : isort src_key [a; b] = [a; b] \/ isort src_key [a; b] = [b; a]).
    { cbn [isort insert]. destruct (lex_leb (src_key a) (src_key b)); auto. }
    assert (Hz : zero_host c = true) by (unfold zero_host; rewrite Hn; reflexivity).
    destruct Hsort as [-> | ->]; cbn [src_cancel src_cancel_go].
    + destruct (src_eqb a b) eqn:Eab.
      * apply src_eqb_eq in Eab. subst b. cbn [map]. rewrite hev_two_same.
        split; [reflexivity|]. split; [apply (Hwf []); simpl; lia|]. intros _. rewrite Hz. destruct (h_inv c); reflexivity.
      * split; [reflexivity|]. split; [apply (Hwf [a; b]); simpl; lia|discriminate].
    + destruct (src_eqb b a) eqn:Eab.
      * apply src_eqb_eq in Eab. subst b. cbn [map]. rewrite hev_two_same.
        split; [reflexivity|]. split; [apply (Hwf []); simpl; lia|]. intros _. rewrite Hz. destruct (h_inv c); reflexivity.
      * cbn [map]. rewrite hev_two_swap.
        split; [reflexivity|]. split; [apply (Hwf [b; a]); simpl; lia|discriminate].
  - destruct Hs as [[_ H2]|H1]; simpl in *; lia.
Qed.

Lemma host_norm_sound v l :
  Forall host_wf l ->
  match host_norm l with
  | Some l' => forallb (eval_host v) l' = forallb (eval_host v) l /\ Forall host_wf l'
  | None => forallb (eval_host v) l = false
  end.
Proof.
  induction l as [|c r IH]; intros Hw; cbn [host_norm forallb]; [split; [reflexivity|constructor]|].
  inversion Hw as [|? ? Hc Hr]; subst. specialize (IH Hr).
  destruct (host_norm1_sound v c Hc) as (He & Hwc & Hz). unfold host_norm1 in *. cbn [h_srcs] in Hz.
  destruct (src_cancel (isort src_key (h_srcs c))) as [|s0 ss] eqn:Es.
  - rewrite (Hz eq_refl). destruct (Bool.eqb (zero_host c) (h_inv c)); [reflexivity|]. cbn [negb andb]. exact IH.
  - destruct (host_norm r) as [out|].
    + destruct IH as [IH1 IH2]. split; [|constructor; auto]. cbn [forallb]. rewrite He, IH1. reflexivity.
    + rewrite IH. apply andb_false_r.
Qed.

Lemma Nl_eqb_eq a b : list_eqb N.eqb a b = true -> a = b.
Proof. apply list_eqb_eq. intros x y. apply N.eqb_eq. Qed.

Lemma host_same_fields a b : host_same a b = true ->
  h_srcs a = h_srcs b /\ h_host a = h_host b /\ h_m4 a = h_m4 b /\ h_m6 a = h_m6 b.
Proof.
  unfold host_same. intros H.
  apply andb_true_iff in H as [H H4]. apply andb_true_iff in H as [H H3]. apply andb_true_iff in H as [H1 H2].
  apply Nl_eqb_eq in H2, H3, H4. apply list_eqb_eq in H1; [|apply src_eqb_eq]. auto.
Qed.

Lemma host_pair v a b : host_same a b = true ->
  (h_inv a = h_inv b -> eval_host v a = eval_host v b) /\
  (h_inv a <> h_inv b -> eval_host v a && eval_host v b = false).
Proof.
  intros H. destruct (host_same_fields a b H) as (E1 & E2 & E3 & E4).
  rewrite !eval_host_hev, E1, E2, E3, E4. unfold hev. split.
  - intros ->. reflexivity.
  - intros Hne. destruct (hfold _ _) as [[h|]|]; destruct (h_inv a), (h_inv b); try congruence;
      try reflexivity; destruct (masked_zero _ _); reflexivity.
Qed.

Lemma host_dedupe_sound v a rest :
  match host_dedupe a rest with
  | Some l' => forallb (eval_host v) l' = forallb (eval_host v) (a :: rest)
  | None => forallb (eval_host v) (a :: rest) = false
  end.
Proof.
  revert a; induction rest as [|b r IH]; intros a; cbn [host_dedupe]; [reflexivity|].
  destruct (host_same a b) eqn:Es.
  - destruct (host_pair v a b Es) as [Heq Hne].
    destruct (Bool.eqb (h_inv a) (h_inv b)) eqn:Ei.
    + apply eqb_prop in Ei. specialize (IH b). cbn [forallb] in *. rewrite (Heq Ei).
      replace (eval_host v b && (eval_host v b && forallb (eval_host v) r))
        with (eval_host v b && forallb (eval_host v) r) by (destruct (eval_host v b); reflexivity).
      exact IH.
    + apply eqb_false_iff in Ei. cbn [forallb]. rewrite andb_assoc, (Hne Ei). reflexivity.
  - specialize (IH b). destruct (host_dedupe b r); cbn [forallb] in *; rewrite IH; [reflexivity|apply andb_false_r].
Qed.

Lemma host_dedupe_wf a rest out : Forall host_wf (a :: rest) -> host_dedupe a rest = Some out -> Forall host_wf out.
Proof.
  revert a out; induction rest as [|b r IH]; intros a out Hw H; cbn [host_dedupe] in H.
  - inversion H; subst; auto.
  - inversion Hw as [|? ? Ha Hr]; subst. destruct (host_same a b).
    + destruct (Bool.eqb _ _); [eauto|discriminate].
    + destruct (host_dedupe b r) eqn:E; [|discriminate]. inversion H; subst. constructor; eauto.
Qed.

Theorem clean_host_sound v l : Forall host_wf l -> sound_clean (eval_host v) l (clean_host l).
Proof.
  intros Hw. unfold clean_host, sound_clean.
  pose proof (host_norm_sound v l Hw) as Hn.
  destruct (host_norm l) as [l1|]; [|exact Hn]. destruct Hn as [Hn _].
  pose proof (isort_forallb host_key (eval_host v) l1) as Hp.
  destruct (isort host_key l1) as [|a r]; [cbn in *; congruence|].
  pose proof (host_dedupe_sound v a r) as Hd. destruct (host_dedupe a r); congruence.
Qed.

Lemma clean_host_wf l out : Forall host_wf l -> clean_host l = Some out -> Forall host_wf out.
Proof.
  intros Hw. unfold clean_host.
  pose proof (host_norm_sound (mkVal (fun _ => mkStream (fun _ => 0%Z) 0%Z 0%Z 0 [] [] (fun _ => 1)) (fun _ _ => None) 0) l Hw) as Hn.
  destruct (host_norm l) as [l1|]; [|discriminate]. destruct Hn as [_ Hn].
  pose proof (isort_Forall host_key _ _ Hn) as Hs.
  destruct (isort host_key l1) as [|a r]; [intros H; inversion H; constructor|]. apply host_dedupe_wf; auto.
Qed.
