(* Proofs about the number / time relation filter to sub-queries (C02, Search.v last section):
   the forbidden sets it removes are exactly the combinations of sub-query results for which
   n + sum of the sub-query values < 0. *)
From Coq Require Import List NArith ZArith Bool Arith Lia Permutation Sorted.
From Coq Require Import ZifyBool ZifyN ZifyNat.
Import ListNotations.
Require Import Pk.Search Pk.SearchProofs.

Local Open Scope Z_scope.

(* ------------------------------------------------------------------ *)
(* grouping the values of a sub-query's results                       *)
(* ------------------------------------------------------------------ *)
Lemma F2_length : forall A B (R : A -> B -> Prop) l1 l2, Forall2 R l1 l2 -> length l1 = length l2.
Proof. induction 1; simpl; auto. Qed.

Definition vlt (a b : Z * list nat) : Prop := fst a < fst b.

(* [d] describes the partial assignment [f] position -> value *)
Record covers (d : sqdata) (f : nat -> option Z) : Prop := mkCovers {
  cov_sorted : StronglySorted vlt d;
  cov_all : forall p v, f p = Some v -> exists r, In (v, r) d /\ In p r;
  cov_only : forall v r p, In (v, r) d -> In p r -> f p = Some v
}.

Definition fupd (f : nat -> option Z) (p : nat) (v : Z) : nat -> option Z :=
  fun q => if Nat.eqb q p then Some v else f q.

Lemma ins_value_fst : forall v p d x, In x (ins_value v p d) -> fst x = v \/ exists y, In y d /\ fst y = fst x.
Proof.
  induction d as [|[w r] d IH]; simpl; intros x H.
  - destruct H as [<-|[]]. left; auto.
  - destruct (Z.ltb v w).
    + destruct H as [<-|H]; [left; auto|]. right. exists x. split; auto.
    + destruct (Z.eqb v w).
      * destruct H as [<-|H]; right; [exists (w, r); split; auto; left; auto | exists x; split; auto; right; auto].
      * destruct H as [<-|H]; [right; exists (w, r); split; auto; left; auto|].
        destruct (IH _ H) as [E|(y & Hy & E)]; [left; auto | right; exists y; split; auto; right; auto].
Qed.

Lemma ins_value_covers : forall v p d f, covers d f -> f p = None -> covers (ins_value v p d) (fupd f p v).
Proof.
  induction d as [|[w r] d IH]; intros f [HS HA HO] Hp.
  - simpl. constructor.
    + repeat constructor.
    + intros q u H. unfold fupd in H. destruct (Nat.eqb_spec q p) as [->|].
      * inversion H; subst. exists [p]. split; left; auto.
      * destruct (HA _ _ H) as (r0 & [] & _).
    + intros u r0 q [E|[]] Hq. injection E as <- <-. destruct Hq as [<-|[]]. unfold fupd. rewrite Nat.eqb_refl. auto.
  - inversion HS as [|? ? HS' HF]; subst.
    assert (Hcov' : covers d (fun q => match f q with Some u => if Z.eqb u w then None else Some u | None => None end)).
    { constructor; auto.
      - intros q u H. destruct (f q) as [u'|] eqn:E; [|discriminate].
        destruct (Z.eqb_spec u' w); [discriminate|]. inversion H; subst.
        destruct (HA _ _ E) as (r0 & [E0|Hin] & Hq); [injection E0 as E1 E2; congruence|]. exists r0. auto.
      - intros u r0 q Hin Hq. rewrite (HO u r0 q (or_intror Hin) Hq).
        rewrite Forall_forall in HF. specialize (HF _ Hin). unfold vlt in HF. simpl in HF.
        destruct (Z.eqb_spec u w); auto. lia. }
    simpl. destruct (Z.ltb_spec v w) as [Hlt|Hge].
    + constructor.
      * constructor; auto. constructor; [unfold vlt; simpl; lia|].
        rewrite Forall_forall in *. intros x Hx. specialize (HF _ Hx). unfold vlt in *. simpl in *. lia.
      * intros q u H. unfold fupd in H. destruct (Nat.eqb_spec q p) as [->|].
        -- inversion H; subst. exists [p]. split; left; auto.
        -- destruct (HA _ _ H) as (r0 & Hin & Hq). exists r0. split; auto. right; auto.
      * intros u r0 q [E|Hin] Hq.
        -- injection E as <- <-. destruct Hq as [<-|[]]. unfold fupd. rewrite Nat.eqb_refl. auto.
        -- unfold fupd. destruct (Nat.eqb_spec q p) as [->|]; [|eapply HO; eauto].
           rewrite (HO _ _ _ Hin Hq) in Hp. discriminate.
    + destruct (Z.eqb_spec v w) as [->|Hne].
      * constructor.
        -- constructor; auto.
        -- intros q u H. unfold fupd in H. destruct (Nat.eqb_spec q p) as [->|].
           ++ inversion H; subst. exists (r ++ [p]). split; [left; auto | apply in_or_app; right; left; auto].
           ++ destruct (HA _ _ H) as (r0 & [E|Hin] & Hq).
              ** injection E as <- <-. exists (r ++ [p]). split; [left; auto | apply in_or_app; auto].
              ** exists r0. split; auto. right; auto.
        -- intros u r0 q [E|Hin] Hq.
           ++ injection E as <- <-. apply in_app_or in Hq. unfold fupd. destruct Hq as [Hq|[<-|[]]].
              ** destruct (Nat.eqb_spec q p) as [->|]; auto. eapply HO; [left; reflexivity | auto].
              ** rewrite Nat.eqb_refl. auto.
           ++ unfold fupd. destruct (Nat.eqb_spec q p) as [->|]; [|eapply HO; [right; eauto | auto]].
              rewrite (HO _ _ _ (or_intror Hin) Hq) in Hp. discriminate.
      * (* v > w: goes further back *)
        assert (Hp' : match f p with Some u => if Z.eqb u w then None else Some u | None => None end = None)
          by (rewrite Hp; auto).
        pose proof (IH _ Hcov' Hp') as [HS2 HA2 HO2].
        constructor.
        -- constructor; auto. rewrite Forall_forall. intros x Hx.
           destruct (ins_value_fst _ _ _ _ Hx) as [E|(y & Hy & E)]; unfold vlt; simpl.
           ++ lia.
           ++ rewrite Forall_forall in HF. specialize (HF _ Hy). unfold vlt in HF. simpl in HF. lia.
        -- intros q u H. unfold fupd in H. destruct (Nat.eqb_spec q p) as [->|].
           ++ inversion H; subst. destruct (HA2 p u) as (r0 & Hin & Hq).
              { unfold fupd. rewrite Nat.eqb_refl. auto. }
              exists r0. split; auto. right; auto.
           ++ destruct (Z.eq_dec u w) as [->|Hu].
              ** destruct (HA _ _ H) as (r0 & [E|Hin] & Hq).
                 --- injection E as <-. exists r. split; auto. left; auto.
                 --- exfalso. rewrite Forall_forall in HF. specialize (HF _ Hin). unfold vlt in HF. simpl in HF. lia.
              ** destruct (HA2 q u) as (r0 & Hin & Hq).
                 { unfold fupd. destruct (Nat.eqb_spec q p); [contradiction|]. rewrite H.
                   destruct (Z.eqb_spec u w); [contradiction | auto]. }
                 exists r0. split; auto. right; auto.
        -- intros u r0 q [E|Hin] Hq.
           ++ injection E as <- <-. unfold fupd. destruct (Nat.eqb_spec q p) as [->|].
              ** rewrite (HO w r p (or_introl eq_refl) Hq) in Hp. discriminate.
              ** eapply HO; [left; reflexivity | auto].
           ++ specialize (HO2 _ _ _ Hin Hq). unfold fupd in *. destruct (Nat.eqb_spec q p); auto.
              destruct (f q) as [u'|]; [|discriminate]. destruct (Z.eqb u' w); [discriminate | auto].
Qed.

Lemma group_from_covers : forall vals p d f,
  covers d f -> (forall q, (p <= q)%nat -> f q = None) ->
  covers (group_from p vals d)
         (fun q => if Nat.ltb q p then f q else nth_error vals (q - p)).
Proof.
  induction vals as [|v vals IH]; intros p d f Hc Hf; simpl.
  - destruct Hc as [HS HA HO]. constructor; auto.
    + intros q u H. destruct (Nat.ltb_spec q p); [eauto|]. destruct (q - p)%nat; discriminate.
    + intros u r q Hin Hq. specialize (HO _ _ _ Hin Hq). destruct (Nat.ltb_spec q p); auto.
      rewrite Hf in HO; auto. discriminate.
  - assert (Hc' : covers (ins_value v p d) (fupd f p v)) by (apply ins_value_covers; auto).
    assert (Hf' : forall q, (S p <= q)%nat -> fupd f p v q = None).
    { intros q Hq. unfold fupd. destruct (Nat.eqb_spec q p); [lia|]. apply Hf. lia. }
    destruct (IH (S p) _ _ Hc' Hf') as [HS HA HO]. constructor; auto.
    + intros q u H. apply HA. unfold fupd. destruct (Nat.ltb_spec q p) as [Hlt|Hge].
      * destruct (Nat.ltb_spec q (S p)); [|lia]. destruct (Nat.eqb_spec q p); [lia | auto].
      * destruct (Nat.eq_dec q p) as [->|Hne].
        -- rewrite Nat.sub_diag in H. simpl in H. destruct (Nat.ltb_spec p (S p)); [|lia].
           rewrite Nat.eqb_refl. auto.
        -- destruct (Nat.ltb_spec q (S p)); [lia|].
           replace (q - p)%nat with (S (q - S p)) in H by lia. auto.
    + intros u r q Hin Hq. specialize (HO _ _ _ Hin Hq). unfold fupd in HO.
      destruct (Nat.ltb_spec q p) as [Hlt|Hge].
      * destruct (Nat.ltb_spec q (S p)); [|lia]. destruct (Nat.eqb_spec q p); [lia | auto].
      * destruct (Nat.eq_dec q p) as [->|Hne].
        -- rewrite Nat.sub_diag. simpl. destruct (Nat.ltb_spec p (S p)); [|lia].
           rewrite Nat.eqb_refl in HO. auto.
        -- destruct (Nat.ltb_spec q (S p)); [lia|].
           replace (q - p)%nat with (S (q - S p)) by lia. auto.
Qed.

(* [d] groups exactly the values [vals] of a sub-query's results *)
Definition data_ok (d : sqdata) (vals : list Z) : Prop := covers d (nth_error vals).

Theorem group_values_ok : forall vals, data_ok (group_values vals) vals.
Proof.
  intros vals. unfold data_ok, group_values.
  assert (H0 : covers [] (fun _ : nat => @None Z)).
  { constructor; [constructor | intros; discriminate | intros ? ? ? []]. }
  pose proof (group_from_covers vals 0 [] _ H0 (fun _ _ => eq_refl)) as [HS HA HO].
  constructor; auto.
  - intros p v H. apply HA. simpl. rewrite Nat.sub_0_r. auto.
  - intros v r p Hin Hp. specialize (HO _ _ _ Hin Hp). simpl in HO. rewrite Nat.sub_0_r in HO. auto.
Qed.

(* ------------------------------------------------------------------ *)
(* sorted value lists: first / last / cumulative / boundary           *)
(* ------------------------------------------------------------------ *)
Lemma sorted_first_le : forall d x, StronglySorted vlt d -> In x d -> first_value d <= fst x.
Proof.
  intros [|[v r] d] x HS Hx; [contradiction|]. simpl. inversion HS; subst.
  destruct Hx as [<-|Hx]; simpl; [lia|]. rewrite Forall_forall in H2. specialize (H2 _ Hx). unfold vlt in H2. simpl in H2. lia.
Qed.

Lemma sorted_nth_lt : forall d i j, StronglySorted vlt d -> (i < j)%nat -> (j < length d)%nat ->
  fst (nth i d (0, [])) < fst (nth j d (0, [])).
Proof.
  induction d as [|x d IH]; intros i j HS Hij Hj; simpl in Hj; [lia|].
  inversion HS; subst. destruct j; [lia|]. destruct i.
  - simpl. rewrite Forall_forall in H2. apply (H2 (nth j d (0, []))). apply nth_In. lia.
  - simpl. apply IH; auto; lia.
Qed.

Lemma sorted_le_last : forall d x, StronglySorted vlt d -> In x d -> fst x <= last_value d.
Proof.
  intros d x HS Hx. unfold last_value.
  destruct (In_nth _ _ (0, []) Hx) as (i & Hi & <-).
  assert (Hne : d <> []) by (intros E; rewrite E in Hi; simpl in Hi; lia).
  rewrite <- (last_nth (0, []) Hne).
  destruct (Nat.eq_dec i (length d - 1)) as [->|]; [lia|].
  pose proof (sorted_nth_lt d i (length d - 1) HS). lia.
Qed.

Lemma cumulative_length : forall d acc, length (cumulative acc d) = length d.
Proof. induction d as [|[v r] d IH]; simpl; intros; auto. Qed.

Lemma cumulative_nth : forall d acc li p, (li < length d)%nat ->
  (In p (snd (nth li (cumulative acc d) (0, []))) <->
   In p acc \/ exists j, (j <= li)%nat /\ In p (snd (nth j d (0, [])))).
Proof.
  induction d as [|[v r] d IH]; intros acc li p Hli; simpl in Hli; [lia|].
  destruct li as [|li]; simpl.
  - rewrite in_app_iff. split.
    + intros [H|H]; auto. right. exists 0%nat. split; auto.
    + intros [H|(j & Hj & H)]; auto. assert (j = 0)%nat by lia. subst. auto.
  - rewrite IH; [|lia]. rewrite in_app_iff. split.
    + intros [[H|H]|(j & Hj & H)]; auto.
      * right. exists 0%nat. split; [lia | auto].
      * right. exists (S j). split; [lia | auto].
    + intros [H|(j & Hj & H)]; auto. destruct j as [|j]; auto.
      right. exists j. split; [lia | auto].
Qed.

(* the binary search of number_op finds the last invalid value *)
Lemma boundary_spec : forall d sqN, StronglySorted vlt d -> d <> [] ->
  sqN + first_value d < 0 -> 0 <= sqN + last_value d ->
  let li := bsearch (fun i => Z.leb 0 (sqN + fst (nth (S i) d (0, [])))) (length d - 2) in
  (li < length d)%nat /\
  forall j, (j < length d)%nat -> ((j <= li)%nat <-> sqN + fst (nth j d (0, [])) < 0).
Proof.
  intros d sqN HS Hne Hfirst Hlast li.
  assert (Hlen2 : (2 <= length d)%nat).
  { destruct d as [|x [|y d]]; simpl; try lia; try congruence.
    unfold last_value in Hlast. destruct x. simpl in *. lia. }
  assert (Hmono : forall h k, (h <= k)%nat -> (k < length d - 2)%nat ->
            (fun i => Z.leb 0 (sqN + fst (nth (S i) d (0, [])))) h = true ->
            (fun i => Z.leb 0 (sqN + fst (nth (S i) d (0, [])))) k = true).
  { intros h k Hhk Hk Hh. simpl in *. destruct (Nat.eq_dec h k) as [->|]; auto.
    pose proof (sorted_nth_lt d (S h) (S k) HS). lia. }
  destruct (@bsearch_spec _ (length d - 2)%nat Hmono) as (Hr & Hlo & Hhi). fold li in Hr, Hlo, Hhi.
  split; [lia|]. intros j Hj. split.
  - intros Hle. destruct j as [|j].
    + destruct d as [|[v r] d]; [congruence|]. simpl in *. lia.
    + assert (Hj' : (j < li)%nat) by lia. specialize (Hlo j Hj'). simpl in Hlo. lia.
  - intros Hinv. destruct (Nat.le_gt_cases j li) as [|Hgt]; auto. exfalso.
    assert (Hv : 0 <= sqN + fst (nth (S li) d (0, []))).
    { destruct (Nat.eq_dec li (length d - 2)) as [E|E].
      - unfold last_value in Hlast. rewrite <- (last_nth (0, []) Hne) in Hlast.
        replace (S li) with (length d - 1)%nat by lia. auto.
      - assert (Hli : (li < length d - 2)%nat) by lia. specialize (Hhi li (le_n _) Hli). simpl in Hhi. lia. }
    destruct (Nat.eq_dec j (S li)) as [->|]; [lia|].
    pose proof (sorted_nth_lt d (S li) j HS). lia.
Qed.

(* ------------------------------------------------------------------ *)
(* the enumeration of the value combinations                          *)
(* ------------------------------------------------------------------ *)
Inductive is_prefix : list sqdata -> Z -> list (list nat) -> Prop :=
| ip_nil : is_prefix [] 0 []
| ip_cons : forall d ds v r s rs, In (v, r) d -> is_prefix ds s rs -> is_prefix (d :: ds) (v + s) (r :: rs).

Lemma In_prefixes : forall ds s rs, In (s, rs) (prefixes ds) <-> is_prefix ds s rs.
Proof.
  induction ds as [|d ds IH]; intros s rs; simpl.
  - split.
    + intros [E|[]]. inversion E; subst. constructor.
    + intros H. inversion H; subst. left; auto.
  - rewrite in_flat_map. split.
    + intros ([s0 rs0] & H0 & H). apply in_map_iff in H. destruct H as ([v r] & E & Hvr).
      simpl in E. inversion E; subst. constructor; auto. apply IH; auto.
    + intros H. inversion H; subst. exists (s0, rs0). split; [apply IH; auto|].
      apply in_map_iff. exists (v, r). split; auto.
Qed.

Lemma is_prefix_length : forall ds s rs, is_prefix ds s rs -> length rs = length ds.
Proof. induction 1; simpl; auto. Qed.

(* ------------------------------------------------------------------ *)
(* the filter                                                         *)
(* ------------------------------------------------------------------ *)
Section NumberFilter.
  Variable dom : list nat.
  Variable n : Z.
  Variable c : nat -> nat.                   (* a combination of sub-query result positions *)

  (* sum of the values the combination selects *)
  Fixpoint csum (sqs : list nat) (vals : list (list Z)) : Z :=
    match sqs, vals with
    | sq :: sqs', vs :: vals' => nth (c sq) vs 0 + csum sqs' vals'
    | _, _ => 0
    end.

  Definition in_range (sqs : list nat) (vals : list (list Z)) : Prop :=
    Forall2 (fun sq vs => (c sq < length vs)%nat) sqs vals.

  Lemma csum_app : forall sqs vals sl vl, length sqs = length vals ->
    csum (sqs ++ [sl]) (vals ++ [vl]) = csum sqs vals + nth (c sl) vl 0.
  Proof.
    induction sqs as [|sq sqs IH]; intros [|vs vals] sl vl H; simpl in *; try discriminate; try lia.
    rewrite IH; lia.
  Qed.

  (* the combination lies in the groups [rs] of the leading sub-queries *)
  Lemma prefix_of_c : forall sqs vals, in_range sqs vals ->
    exists rs, is_prefix (map group_values vals) (csum sqs vals) rs /\ forbidden_by c sqs rs.
  Proof.
    induction 1 as [|sq vs sqs vals Hlt _ IH]; simpl.
    - exists []. split; constructor.
    - destruct IH as (rs & Hp & Hf).
      destruct (group_values_ok vs) as [_ HA _].
      destruct (HA (c sq) (nth (c sq) vs 0)) as (r & Hin & Hr).
      { apply nth_error_nth'. auto. }
      exists (r :: rs). split; constructor; auto.
  Qed.

  (* a prefix whose groups contain the combination has the combination's sum *)
  Lemma prefix_sum : forall sqs vals s rs, in_range sqs vals ->
    is_prefix (map group_values vals) s rs -> forbidden_by c sqs rs -> s = csum sqs vals.
  Proof.
    intros sqs vals s rs HR. revert s rs. induction HR as [|sq vs sqs vals Hlt _ IH]; intros s rs Hp Hf; simpl in *.
    - inversion Hp; subst. auto.
    - inversion Hp as [|? ? v r s0 rs0 Hin Hp0]; subst. inversion Hf as [|? ? ? ? Hc Hf0]; subst.
      destruct (group_values_ok vs) as [_ _ HO].
      specialize (HO _ _ _ Hin Hc). rewrite (nth_error_nth' vs 0 Hlt) in HO. inversion HO; subst.
      rewrite (IH _ _ Hp0 Hf0). auto.
  Qed.

  (* bounds used by the two shortcuts *)
  Lemma csum_bounds : forall sqs0 vals0, in_range sqs0 vals0 ->
    fold_right (fun d a => first_value d + a) 0 (map group_values vals0) <= csum sqs0 vals0 /\
    csum sqs0 vals0 <= fold_right (fun d a => last_value d + a) 0 (map group_values vals0).
  Proof.
    induction 1 as [|sq vs sqs0 vals0 Hlt _ IH]; simpl; [lia|].
    destruct (group_values_ok vs) as [HS HA _].
    destruct (HA (c sq) (nth (c sq) vs 0)) as (r & Hin & _); [apply nth_error_nth'; auto|].
    pose proof (sorted_first_le _ _ HS Hin). pose proof (sorted_le_last _ _ HS Hin). simpl in *. lia.
  Qed.

  Variable sqs : list nat.                   (* the leading sub-queries *)
  Variable sl : nat.                         (* the last one *)
  Variable vals : list (list Z).
  Variable vl : list Z.
  Hypothesis Hlen : length sqs = length vals.
  Hypothesis Hrange : in_range sqs vals.
  Hypothesis Hrl : (c sl < length vl)%nat.

  Notation lastd := (group_values vl).
  Notation total := (csum (sqs ++ [sl]) (vals ++ [vl])).

  Lemma forbidden_by_app : forall rs x,
    length rs = length sqs ->
    (forbidden_by c (sqs ++ [sl]) (rs ++ [x]) <-> forbidden_by c sqs rs /\ In (c sl) x).
  Proof.
    intros rs x Hl. unfold forbidden_by. split.
    - intros H. apply Forall2_app_inv_l in H. destruct H as (l1 & l2 & H1 & H2 & E).
      inversion H2 as [|? y ? l2' Hy Hnil]; subst. inversion Hnil; subst.
      assert (length l1 = length sqs) by (symmetry; eapply F2_length; eauto).
      apply app_inj_tail in E. destruct E; subst. auto.
    - intros [H1 H2]. apply Forall2_app; auto.
  Qed.

  (* what the loop removes is exactly the invalid combinations *)
  Theorem number_ops_exact :
    (forall pre op, In pre (prefixes (map group_values vals)) ->
                    number_op n (sqs ++ [sl]) lastd pre = Some op -> ~ forbidden_by c (fst op) (snd op))
    <-> 0 <= n + total.
  Proof.
    rewrite csum_app; auto.
    destruct (group_values_ok vl) as [HS HA HO].
    set (vc := nth (c sl) vl 0).
    assert (Hvc : nth_error vl (c sl) = Some vc) by (apply nth_error_nth'; auto).
    destruct (HA _ _ Hvc) as (rl & Hinl & Hrl').
    assert (Hne : lastd <> []) by (intros E; rewrite E in Hinl; contradiction).
    split.
    - (* nothing forbids c -> valid *)
      intros H. destruct (Z.le_gt_cases 0 (n + (csum sqs vals + vc))) as [|Hinv]; auto. exfalso.
      destruct (prefix_of_c sqs vals Hrange) as (rs & Hp & Hf).
      assert (Hpre : In (csum sqs vals, rs) (prefixes (map group_values vals))) by (apply In_prefixes; auto).
      pose proof (sorted_first_le _ _ HS Hinl) as Hfirst. simpl in Hfirst.
      unfold number_op in H.
      specialize (H (csum sqs vals, rs)). simpl in H.
      destruct (Z.leb_spec 0 (n + csum sqs vals + first_value lastd)); [lia|].
      destruct (Z.ltb_spec (n + csum sqs vals + last_value lastd) 0).
      + eapply H; eauto. simpl. rewrite removelast_last. auto.
      + destruct (boundary_spec _ (n + csum sqs vals) HS Hne) as (Hli & Hb); try lia.
        eapply H; eauto. simpl.
        apply forbidden_by_app; [rewrite (is_prefix_length _ _ _ Hp), map_length; auto|].
        split; auto.
        destruct (In_nth _ _ (0, []) Hinl) as (j & Hj & Ej).
        apply cumulative_nth; auto. right. exists j. split; [|rewrite Ej; auto].
        apply Hb; auto. rewrite Ej. simpl. lia.
    - (* valid -> nothing forbids c *)
      intros Hvalid [s rs] op Hpre Hop Hforb.
      apply In_prefixes in Hpre.
      assert (Hrsl : length rs = length sqs) by (rewrite (is_prefix_length _ _ _ Hpre), map_length; auto).
      unfold number_op in Hop. simpl in Hop.
      destruct (Z.leb_spec 0 (n + s + first_value lastd)); [discriminate|].
      destruct (Z.ltb_spec (n + s + last_value lastd) 0).
      + inversion Hop; subst. simpl in Hforb. rewrite removelast_last in Hforb.
        rewrite (prefix_sum sqs vals _ _ Hrange Hpre Hforb) in *.
        pose proof (sorted_le_last _ _ HS Hinl). simpl in *. lia.
      + inversion Hop; subst. simpl in Hforb.
        apply forbidden_by_app in Hforb; auto. destruct Hforb as [Hf Hc].
        rewrite (prefix_sum sqs vals _ _ Hrange Hpre Hf) in *.
        destruct (boundary_spec _ (n + csum sqs vals) HS Hne) as (Hli & Hb); try lia.
        apply cumulative_nth in Hc; auto. destruct Hc as [[]|(j & Hj & Hc)].
        assert (Hjl : (j < length lastd)%nat) by lia.
        pose proof (proj1 (Hb j Hjl) Hj) as Hinv.
        assert (Hnj : In (nth j lastd (0, [])) lastd) by (apply nth_In; auto).
        destruct (nth j lastd (0, [])) as [vj rj] eqn:Ej. simpl in *.
        specialize (HO _ _ _ Hnj Hc). rewrite Hvc in HO. inversion HO; subst. lia.
  Qed.

End NumberFilter.

(* ------------------------------------------------------------------ *)
(* the whole filter on a selection                                    *)
(* ------------------------------------------------------------------ *)
Section NumberFilterSel.
  Variable dom : list nat.
  Variable n : Z.
  Variable sqs : list nat.
  Variable sl : nat.
  Variable vals : list (list Z).
  Variable vl : list Z.
  Hypothesis Hlen : length sqs = length vals.
  Hypothesis Hdom : forall sq, In sq (sqs ++ [sl]) -> In sq dom.

  Notation all_sqs := (sqs ++ [sl]).
  Notation all_vals := (vals ++ [vl]).
  Notation datas := (map group_values all_vals).

  (* every position a selection allows exists in the sub-query's result list *)
  Definition sel_in_range (sel : subsel) : Prop :=
    forall m, In m sel -> Forall2 (fun sq vs => forall p, In p (m sq) -> (p < length vs)%nat) all_sqs all_vals.

  Lemma allows_in_range : forall c sel, sel_in_range sel -> sel_allows dom c sel ->
    in_range c sqs vals /\ (c sl < length vl)%nat.
  Proof.
    intros c sel HR (m & Hm & Hin). specialize (HR m Hm).
    assert (G : forall (l1 : list nat) (l2 : list (list Z)),
              Forall2 (fun sq (vs : list Z) => forall p, In p (m sq) -> (p < length vs)%nat) l1 l2 ->
              (forall sq, In sq l1 -> In sq dom) -> Forall2 (fun sq (vs : list Z) => (c sq < length vs)%nat) l1 l2).
    { induction 1; intros Hd; constructor.
      - apply H. apply Hin. apply Hd. left; auto.
      - apply IHForall2. intros; apply Hd; right; auto. }
    apply G in HR; auto. apply Forall2_app_inv_l in HR. destruct HR as (l1 & l2 & H1 & H2 & E).
    inversion H2 as [|? y ? l2' Hy Hnil]; subst. inversion Hnil; subst.
    assert (length l1 = length vals) by (rewrite <- Hlen; symmetry; eapply F2_length; eauto).
    apply app_inj_tail in E. destruct E; subst. auto.
  Qed.

  Lemma number_op_ok : forall pre op, In pre (prefixes (map group_values vals)) ->
    number_op n all_sqs (group_values vl) pre = Some op -> op_ok dom op.
  Proof.
    intros [s rs] op Hpre Hop. apply In_prefixes in Hpre.
    assert (Hl : length rs = length sqs) by (rewrite (is_prefix_length _ _ _ Hpre), map_length; auto).
    unfold number_op in Hop. simpl in Hop.
    destruct (Z.leb 0 (n + s + first_value (group_values vl))); [discriminate|].
    destruct (Z.ltb (n + s + last_value (group_values vl)) 0); inversion Hop; subst; split; simpl.
    - rewrite removelast_last. intros sq H. apply Hdom. apply in_or_app. auto.
    - rewrite removelast_last. auto.
    - auto.
    - rewrite !app_length. simpl. lia.
  Qed.

  Lemma fold_ops_spec : forall c pres sel,
    (forall pre, In pre pres -> In pre (prefixes (map group_values vals))) ->
    let sel' := fold_left (fun s pre => match number_op n all_sqs (group_values vl) pre with
                                        | Some op => sel_remove (fst op) (snd op) s
                                        | None => s
                                        end) pres sel in
    (sel_allows dom c sel' <->
     sel_allows dom c sel /\
     forall pre op, In pre pres -> number_op n all_sqs (group_values vl) pre = Some op ->
                    ~ forbidden_by c (fst op) (snd op)) /\
    (sel_wf dom sel -> sel_wf dom sel').
  Proof.
    intros c. induction pres as [|pre pres IH]; intros sel Hin; simpl.
    - split; [|auto]. split; [intros H; split; auto; intros ? ? [] | tauto].
    - assert (Hin' : forall p, In p pres -> In p (prefixes (map group_values vals))) by (intros; apply Hin; right; auto).
      destruct (number_op n all_sqs (group_values vl) pre) as [op|] eqn:Eop.
      + destruct (number_op_ok pre op (Hin _ (or_introl eq_refl)) Eop) as [Ho1 Ho2].
        destruct (IH (sel_remove (fst op) (snd op) sel) Hin') as [IH1 IH2]. split.
        * rewrite IH1, (@sel_remove_spec dom c (fst op) (snd op) sel Ho1 Ho2). split.
          -- intros [[HA HN] HF]. split; auto. intros pre0 op0 [<-|Hp] E; [rewrite Eop in E; inversion E; subst; auto | eauto].
          -- intros [HA HF]. split; [split; auto; eapply HF; [left; reflexivity | eauto] | intros; eapply HF; [right; eauto | eauto]].
        * intros Hwf. apply IH2. apply sel_remove_wf; auto.
      + destruct (IH sel Hin') as [IH1 IH2]. split; auto.
        rewrite IH1. split.
        * intros [HA HF]. split; auto. intros pre0 op0 [<-|Hp] E; [rewrite Eop in E; discriminate | eauto].
        * intros [HA HF]. split; auto. intros; eapply HF; [right; eauto | eauto].
  Qed.

  (* The number / time relation filter: it answers "some allowed combination of sub-query results satisfies
     n + sum of the selected values >= 0", and when it answers yes the selection it leaves allows exactly the
     previously allowed combinations that satisfy the relation. *)
  Theorem number_filter_exact : forall sel,
    sel_wf dom sel -> sel <> [] -> sel_in_range sel ->
    let r := number_filter n all_sqs datas sel in
    (snd r = true <-> exists c, sel_allows dom c sel /\ 0 <= n + csum c all_sqs all_vals) /\
    (snd r = true -> sel_wf dom (fst r) /\
       forall c, sel_allows dom c (fst r) <-> sel_allows dom c sel /\ 0 <= n + csum c all_sqs all_vals).
  Proof.
    intros sel Hwf Hne HR. unfold number_filter.
    assert (Hb : forall c, sel_allows dom c sel ->
              fold_right (fun d a => first_value d + a) 0 datas <= csum c all_sqs all_vals /\
              csum c all_sqs all_vals <= fold_right (fun d a => last_value d + a) 0 datas).
    { intros c HA. destruct (allows_in_range c sel HR HA) as [H1 H2].
      apply (csum_bounds n c (sqs ++ [sl]) (vals ++ [vl])). unfold in_range. apply Forall2_app; auto. }
    assert (Hex : exists c, sel_allows dom c sel).
    { apply (sel_nonempty_allows Hwf). destruct sel; [congruence | auto]. }
    destruct (Z.leb_spec 0 (n + fold_right (fun d a => first_value d + a) 0 datas)) as [Hmin|Hmin]; simpl.
    - (* every combination is valid *)
      split.
      + split; auto. intros _. destruct Hex as (c & HA). exists c. split; auto. specialize (Hb c HA). lia.
      + intros _. split; auto. intros c. split; [|tauto]. intros HA. split; auto. specialize (Hb c HA). lia.
    - destruct (Z.ltb_spec (n + fold_right (fun d a => last_value d + a) 0 datas) 0) as [Hmax|Hmax]; simpl.
      + (* no combination is valid *)
        split; [|discriminate]. split; [discriminate|]. intros (c & HA & Hv). specialize (Hb c HA). lia.
      + rewrite map_app. simpl map. rewrite last_last, removelast_last.
        assert (Hall : forall pre, In pre (prefixes (map group_values vals)) -> In pre (prefixes (map group_values vals))) by auto.
        assert (Hspec : forall c, sel_allows dom c (fold_left (fun s pre => match number_op n all_sqs (group_values vl) pre with
                                        | Some op => sel_remove (fst op) (snd op) s | None => s end)
                                        (prefixes (map group_values vals)) sel) <->
                          sel_allows dom c sel /\ 0 <= n + csum c all_sqs all_vals).
        { intros c. destruct (fold_ops_spec c (prefixes (map group_values vals)) sel Hall) as [H1 _]. rewrite H1. split.
          - intros [HA HF]. split; auto. destruct (allows_in_range c sel HR HA) as [R1 R2].
            apply (number_ops_exact n c sqs sl vals vl Hlen R1 R2). auto.
          - intros [HA Hv]. split; auto. destruct (allows_in_range c sel HR HA) as [R1 R2].
            apply (number_ops_exact n c sqs sl vals vl Hlen R1 R2). auto. }
        assert (Hwf' : sel_wf dom (fold_left (fun s pre => match number_op n all_sqs (group_values vl) pre with
                                        | Some op => sel_remove (fst op) (snd op) s | None => s end)
                                        (prefixes (map group_values vals)) sel)).
        { destruct (fold_ops_spec (fun _ => 0%nat) (prefixes (map group_values vals)) sel Hall) as [_ H2]. auto. }
        split.
        * rewrite negb_true_iff, (sel_nonempty_allows Hwf'). split.
          -- intros (c & HA). exists c. apply Hspec. auto.
          -- intros (c & HA). exists c. apply Hspec. auto.
        * intros _. split; auto.
  Qed.
End NumberFilterSel.

(* ------------------------------------------------------------------ *)
(* host and flag relations                                            *)
(* ------------------------------------------------------------------ *)
Section SingleRemove.
  Variable dom : list nat.
  Variable sq : nat.
  Hypothesis Hsq : In sq dom.
  Variable good : nat -> bool.               (* does result position p of the sub-query satisfy the relation *)

  Theorem single_remove_exact : forall forb sel,
    sel_wf dom sel ->
    (forall c, sel_allows dom c sel -> (In (c sq) forb <-> good (c sq) = false)) ->
    let r := single_remove sq forb sel in
    (snd r = true <-> exists c, sel_allows dom c sel /\ good (c sq) = true) /\
    sel_wf dom (fst r) /\
    (forall c, sel_allows dom c (fst r) <-> sel_allows dom c sel /\ good (c sq) = true).
  Proof.
    intros forb sel Hwf Hforb. unfold single_remove. simpl.
    assert (Hd : forall k, In k [sq] -> In k dom) by (intros k [<-|[]]; auto).
    assert (Hspec : forall c, sel_allows dom c (sel_remove [sq] [forb] sel) <-> sel_allows dom c sel /\ good (c sq) = true).
    { intros c. rewrite (@sel_remove_spec dom c [sq] [forb] sel Hd eq_refl). split.
      - intros [HA HN]. split; auto. destruct (good (c sq)) eqn:E; auto. exfalso. apply HN.
        constructor; [apply Hforb; auto | constructor].
      - intros [HA HG]. split; auto. intros HF. inversion HF; subst.
        apply (Hforb c HA) in H2. congruence. }
    assert (Hwf' : sel_wf dom (sel_remove [sq] [forb] sel)) by (apply sel_remove_wf; auto).
    split; [|split; auto].
    rewrite negb_true_iff, (sel_nonempty_allows Hwf'). split.
    - intros (c & HA). exists c. apply Hspec. auto.
    - intros (c & HA). exists c. apply Hspec. auto.
  Qed.
End SingleRemove.

(* positions a selection allows for [sq] exist among the [len] results of that sub-query *)
Definition sq_in_range (sq len : nat) (sel : subsel) : Prop :=
  forall m p, In m sel -> In p (m sq) -> (p < len)%nat.

Lemma allows_lt : forall dom sq len sel c, In sq dom -> sq_in_range sq len sel -> sel_allows dom c sel -> (c sq < len)%nat.
Proof. intros dom sq len sel c Hsq HR (m & Hm & Hin). eapply HR; eauto. Qed.

(* ---- host ---- *)
(* the relation: same size and equal under the mask; negated for an inverted condition *)
Definition host_eq (myh mask other : list N) : bool :=
  Nat.eqb (length myh) (length other) && negb (bytes_differ myh other mask).
Definition host_cond (invert : bool) (myh mask other : list N) : bool := xorb invert (host_eq myh mask other).

Lemma host_forbidden_cond : forall invert myh mask other,
  host_forbidden invert myh mask other = negb (host_cond invert myh mask other).
Proof.
  intros. unfold host_forbidden, host_cond, host_eq.
  destruct (Nat.eqb (length myh) (length other)), (bytes_differ myh other mask), invert; reflexivity.
Qed.

Lemma bytes_differ_zero_mask : forall a b m, forallb (N.eqb 0) m = true -> bytes_differ a b m = false.
Proof.
  intros a b m Hm. unfold bytes_differ.
  destruct (existsb _ (combine (combine a b) m)) eqn:E; auto.
  apply existsb_exists in E. destruct E as ([[x y] z] & Hin & Hne). simpl in Hne.
  apply in_combine_r in Hin. rewrite forallb_forall in Hm. specialize (Hm _ Hin).
  apply N.eqb_eq in Hm. subst z. rewrite N.land_0_r in Hne. discriminate.
Qed.

Definition ip_size (h : list N) : Prop := length h = 4%nat \/ length h = 16%nat.

Lemma ipclass_same : forall a b, ip_size a -> ip_size b ->
  Nat.eqb (ipclass a) (ipclass b) = Nat.eqb (length a) (length b).
Proof.
  intros a b [Ha|Ha] [Hb|Hb]; unfold ipclass; rewrite Ha, Hb; reflexivity.
Qed.

Theorem host_filter_exact : forall dom sq invert masks_zero myh mask others sel,
  In sq dom -> sel_wf dom sel -> sq_in_range sq (length others) sel ->
  (masks_zero = true -> forallb (N.eqb 0) mask = true /\ ip_size myh /\ Forall ip_size others) ->
  let r := host_filter invert masks_zero myh mask sq others sel in
  (snd r = true <-> exists c, sel_allows dom c sel /\ host_cond invert myh mask (nth (c sq) others []) = true) /\
  sel_wf dom (fst r) /\
  (forall c, sel_allows dom c (fst r) <->
             sel_allows dom c sel /\ host_cond invert myh mask (nth (c sq) others []) = true).
Proof.
  intros dom sq invert masks_zero myh mask others sel Hsq Hwf HR Hz. unfold host_filter.
  apply (@single_remove_exact dom sq Hsq (fun p => host_cond invert myh mask (nth p others []))); auto.
  intros c HA. pose proof (allows_lt dom sq _ sel c Hsq HR HA) as Hlt.
  destruct masks_zero.
  - destruct (Hz eq_refl) as (Hm & Hmy & Hot).
    rewrite filter_In, in_seq.
    assert (Hsz : ip_size (nth (c sq) others [])) by (rewrite Forall_forall in Hot; apply Hot; apply nth_In; auto).
    rewrite (ipclass_same _ _ Hsz Hmy).
    unfold host_cond, host_eq. rewrite (bytes_differ_zero_mask _ _ _ Hm). simpl. rewrite andb_true_r.
    rewrite (Nat.eqb_sym (length myh)).
    destruct (Nat.eqb (length (nth (c sq) others [])) (length myh)), invert; simpl; split; intros; try tauto;
      try discriminate; try (split; [lia | reflexivity]); destruct H; discriminate.
  - rewrite filter_In, in_seq, host_forbidden_cond. rewrite negb_true_iff. split; [tauto|]. intros; split; [lia | auto].
Qed.

(* ---- flags ---- *)
Lemma lxor_swap : forall a b c : N, N.lxor a b = c <-> N.lxor c b = a.
Proof.
  intros a b c. split; intros <-; rewrite N.lxor_assoc, N.lxor_nilpotent, N.lxor_0_r; reflexivity.
Qed.

Lemma sorted_key_unique : forall d k r1 r2, StronglySorted vlt d -> In (k, r1) d -> In (k, r2) d -> r1 = r2.
Proof.
  induction d as [|x d IH]; intros k r1 r2 HS H1 H2; [contradiction|].
  inversion HS as [|? ? HS' HF]; subst. rewrite Forall_forall in HF.
  destruct H1 as [->|H1], H2 as [E|H2].
  - inversion E; auto.
  - specialize (HF _ H2). unfold vlt in HF. simpl in HF. lia.
  - subst x. specialize (HF _ H1). unfold vlt in HF. simpl in HF. lia.
  - eapply IH; eauto.
Qed.

Theorem flag_filter_exact : forall dom sq own value flags sel,
  In sq dom -> sel_wf dom sel -> sel <> [] -> sq_in_range sq (length flags) sel ->
  let good := fun p => negb (N.eqb (N.lxor own (nth p flags 0%N)) value) in
  let r := flag_filter own value sq flags sel in
  (snd r = true <-> exists c, sel_allows dom c sel /\ good (c sq) = true) /\
  (snd r = true -> sel_wf dom (fst r) /\
     forall c, sel_allows dom c (fst r) <-> sel_allows dom c sel /\ good (c sq) = true).
Proof.
  intros dom sq own value flags sel Hsq Hwf Hne HR good. unfold flag_filter.
  set (keys := map (fun f => Z.of_N (N.lxor value f)) flags).
  destruct (group_values_ok keys) as [HS HA HO].
  assert (Hkey : forall p, (p < length flags)%nat ->
            nth_error keys p = Some (Z.of_N (N.lxor value (nth p flags 0%N)))).
  { intros p Hp. unfold keys. rewrite nth_error_map. rewrite (nth_error_nth' flags 0%N Hp). reflexivity. }
  assert (Hbad : forall p, good p = false <-> Z.of_N (N.lxor value (nth p flags 0%N)) = Z.of_N own).
  { intros p. unfold good. rewrite negb_false_iff, N.eqb_eq, N2Z.inj_iff.
    rewrite (lxor_swap value (nth p flags 0%N) own). rewrite (N.lxor_comm own). split; auto. }
  assert (Hex : exists c, sel_allows dom c sel).
  { apply (sel_nonempty_allows Hwf). destruct sel; [congruence | auto]. }
  destruct (find (fun e => Z.eqb (fst e) (Z.of_N own)) (group_values keys)) as [[k forb]|] eqn:Ef.
  - apply find_some in Ef. destruct Ef as [Hin Hk]. simpl in Hk. apply Z.eqb_eq in Hk. subst k.
    assert (Hforb : forall c, sel_allows dom c sel -> (In (c sq) forb <-> good (c sq) = false)).
    { intros c HAl. pose proof (allows_lt dom sq _ sel c Hsq HR HAl) as Hlt. rewrite Hbad. split.
      - intros Hp. specialize (HO _ _ _ Hin Hp). rewrite (Hkey _ Hlt) in HO. inversion HO; auto.
      - intros E. destruct (HA (c sq) (Z.of_N own)) as (r' & Hin' & Hp); [rewrite (Hkey _ Hlt), E; auto|].
        rewrite (sorted_key_unique _ _ _ _ HS Hin Hin'). auto. }
    destruct (Nat.eqb_spec (length (group_values keys)) 1) as [Hone|Hmore]; simpl.
    + (* every result has the forbidden flag *)
      split; [|discriminate]. split; [discriminate|]. intros (c & HAl & Hg). exfalso.
      pose proof (allows_lt dom sq _ sel c Hsq HR HAl) as Hlt.
      destruct (HA _ _ (Hkey _ Hlt)) as (r' & Hin' & Hp).
      destruct (group_values keys) as [|e [|e2 t]]; simpl in Hone; try discriminate.
      destruct Hin as [->|[]]. destruct Hin' as [E|[]]. inversion E as [[E1 E2]].
      assert (good (c sq) = false) by (apply Hbad; auto). congruence.
    + destruct (@single_remove_exact dom sq Hsq good forb sel Hwf Hforb) as (H1 & H2 & H3).
      split; auto.
  - (* no result has the forbidden flag *)
    simpl. assert (Hall : forall c, sel_allows dom c sel -> good (c sq) = true).
    { intros c HAl. pose proof (allows_lt dom sq _ sel c Hsq HR HAl) as Hlt.
      destruct (good (c sq)) eqn:E; auto. exfalso. apply Hbad in E.
      destruct (HA _ _ (Hkey _ Hlt)) as (r' & Hin' & _).
      pose proof (find_none _ _ Ef _ Hin') as Hn. simpl in Hn. rewrite E, Z.eqb_refl in Hn. discriminate. }
    split.
    + split; auto. intros _. destruct Hex as (c & HAl). exists c. split; auto.
    + intros _. split; auto. intros c. split; [intros HAl; split; auto | tauto].
Qed.

(* ------------------------------------------------------------------ *)
(* the per-file shortcut of time filters                              *)
(* ------------------------------------------------------------------ *)
Lemma lin_between : forall b lo hi x, lo <= x <= hi ->
  (b * lo <= b * x <= b * hi) \/ (b * hi <= b * x <= b * lo).
Proof.
  intros b lo hi x H. destruct (Z.le_gt_cases 0 b).
  - left. split; apply Z.mul_le_mono_nonneg_l; lia.
  - right. split; apply Z.mul_le_mono_nonpos_l; lia.
Qed.

(* a filter that looks at one of the two times is monotone in it: between the file's bounds it decides like
   the bounds when they agree *)
Theorem time_shortcut_sound : forall a b d fmin fmax lmin lmax ft lt,
  fmin <= ft <= fmax -> lmin <= lt <= lmax ->
  match time_shortcut true a b d fmin fmax lmin lmax with
  | ScDrop => time_filter a b d ft lt = true
  | ScSkipFile => time_filter a b d ft lt = false
  | ScKeep => True
  end.
Proof.
  intros a b d fmin fmax lmin lmax ft lt Hf Hl. unfold time_shortcut, time_filter.
  pose proof (lin_between b lmin lmax lt Hl). pose proof (lin_between a fmin fmax ft Hf).
  change (negb true) with false. cbv beta iota zeta. rewrite orb_false_l.
  destruct (Z.eqb_spec a 0) as [Ea|Ha]; [|destruct (Z.eqb_spec b 0) as [Eb|Hb]]; cbv beta iota; try exact I;
    repeat match goal with |- context [Z.leb ?x ?y] => destruct (Z.leb_spec x y) end; cbv beta iota; try exact I;
    try reflexivity; exfalso; subst; lia.
Qed.

(* with both times in the filter (a duration bound: ltime - ftime - 5 >= 0) the bounds say nothing:
   file with streams (0, 10) and (5, 6): both synthetic corner points satisfy the bound, the second stream does not *)
Theorem time_shortcut_unguarded_refuted : exists a b d fmin fmax lmin lmax ft lt,
  fmin <= ft <= fmax /\ lmin <= lt <= lmax /\
  time_shortcut false a b d fmin fmax lmin lmax = ScDrop /\ time_filter a b d ft lt = false.
Proof.
  exists (-1), 1, (-5), 0, 5, 6, 10, 5, 6. repeat split; try lia; reflexivity.
Qed.
