(* Model of the packet ordering of builder.FromPcap (internal/index/builder/builder.go,
   lines "sort all loaded packets ..." to the end of the lazy multi-capture loop) -- C05/C08.
   Definitions only; proofs are in BuilderOrderProofs.v.

   A packet carries its capture source (file, index) and timestamp.  File names are
   represented by their RANK in Go's string order (the drivers compute the rank), so
   `apmd.PcapInfo.Filename < bpmd.PcapInfo.Filename` is [<?] on [p_file].  Timestamps are
   microseconds relative to a base; the code compares time.Time values, which agree with N
   on microsecond-resolution pcap timestamps after 1970.

   comparePackets  -> [key_ltb]
   sortPackets     -> [PktSort.sort]   (sort.Slice is not stable; keys are unique per packet
                                        -- (file, index) -- so every correct sort agrees)
   inner `for oldPacketIndex := 0; ; {...}` with loadNextTimestamp -> [drain]
   outer `for pcapIndex := -1; ...`                                   -> [lazy_loop] *)
From Coq Require Export NArith List Bool.
From Coq Require Import Sorting.Mergesort Orders.
Export ListNotations.
Open Scope N_scope.

Definition endpoint := (N * N)%type.          (* (address, port); IPv6 addresses are tagged by the driver *)

Record packet := mkPacket {
  p_ts : N; p_file : N; p_idx : N;
  p_src : endpoint; p_dst : endpoint;
  p_tcp : bool;                                (* false = UDP *)
  p_syn : bool; p_ackf : bool; p_fin : bool; p_rst : bool;
  p_seq : N;
  p_data : list N }.

Definition key_ltb (a b : packet) : bool :=
  if negb (p_ts a =? p_ts b) then p_ts a <? p_ts b
  else if negb (p_file a =? p_file b) then p_file a <? p_file b
  else p_idx a <? p_idx b.

Definition key_leb (a b : packet) : bool := negb (key_ltb b a).

Module PktOrder <: TotalLeBool.
  Definition t := packet.
  Definition leb := key_leb.
  Theorem leb_total : forall a1 a2, leb a1 a2 = true \/ leb a2 a1 = true.
  Proof.
    intros a b. unfold leb, key_leb, key_ltb.
    rewrite (N.eqb_sym (p_ts b) (p_ts a)), (N.eqb_sym (p_file b) (p_file a)).
    destruct (p_ts a =? p_ts b) eqn:E1; simpl.
    - destruct (p_file a =? p_file b) eqn:E2; simpl.
      + destruct (p_idx b <? p_idx a) eqn:E3; [right|left; reflexivity].
        destruct (p_idx a <? p_idx b) eqn:E4; [|reflexivity].
        apply N.ltb_lt in E3, E4. exfalso. eapply N.lt_asymm; eauto.
      + destruct (p_file b <? p_file a) eqn:E3; [right|left; reflexivity].
        destruct (p_file a <? p_file b) eqn:E4; [|reflexivity].
        apply N.ltb_lt in E3, E4. exfalso. eapply N.lt_asymm; eauto.
    - destruct (p_ts b <? p_ts a) eqn:E3; [right|left; reflexivity].
      destruct (p_ts a <? p_ts b) eqn:E4; [|reflexivity].
      apply N.ltb_lt in E3, E4. exfalso. eapply N.lt_asymm; eauto.
  Qed.
End PktOrder.
Module PktSort := Sort PktOrder.

Definition sort_packets (l : list packet) : list packet := PktSort.sort l.

(* `!(loadNextTimestamp.IsZero() || loadNextTimestamp.After(ts))` breaks the loop: a packet is
   processed while there is no limit or limit > ts. *)
Definition below (limit : option N) (p : packet) : bool :=
  match limit with None => true | Some l => p_ts p <? l end.

(* One run of the inner loop.  Returns (packets fed to the assemblers in order,
   remaining oldPackets, remaining newPackets).  Fuel: |old| + |new| + 1 suffices. *)
Fixpoint drain (fuel : nat) (limit : option N) (old new : list packet)
  : list packet * list packet * list packet :=
  match fuel with
  | O => ([], old, new)
  | S f =>
    match old, new with
    | [], [] => ([], [], [])
    | o :: old', [] =>
        if below limit o then let '(e, a, b) := drain f limit old' [] in (o :: e, a, b)
        else ([], old, [])
    | [], n :: new' =>
        if below limit n then let '(e, a, b) := drain f limit [] new' in (n :: e, a, b)
        else ([], [], new)
    | o :: old', n :: new' =>
        if key_ltb o n then
          (if below limit o then let '(e, a, b) := drain f limit old' new in (o :: e, a, b)
           else ([], old, new))
        else
          (if below limit n then let '(e, a, b) := drain f limit old new' in (n :: e, a, b)
           else ([], old, new))
    end
  end.

Definition drain_fuel (old new : list packet) : nat := S (length old + length new).

(* A needed capture = (PacketTimestampMin of the file, the packets of it that must be replayed).
   The list is already ordered by PacketTimestampMin (see [Import.needed_pcaps]). *)
Definition pcap_load := (N * list packet)%type.

Fixpoint lazy_loop (pcaps : list pcap_load) (old new : list packet) : list packet :=
  match pcaps with
  | [] => let '(e, _, _) := drain (drain_fuel old new) None old new in e
  | (mn, pk) :: rest =>
      let '(e, old', new') := drain (drain_fuel old new) (Some mn) old new in
      e ++ lazy_loop rest (sort_packets (old' ++ pk)) new'
  end.

(* The sequence of packets handed to the reassemblers by one FromPcap call. *)
Definition feed (pcaps : list pcap_load) (newPackets : list packet) : list packet :=
  lazy_loop pcaps [] (sort_packets newPackets).
