(* Snapshot transparency of FromPcap (model: Import.v) -- C08 theorem (1).

   Part 1 (pkappa2's own bookkeeping, proved): with the chosen snapshot s, the packets handed to the
   reassemblers are EXACTLY the sub-sequence of the no-snapshot feed consisting of the packets that are not
   older than the snapshot or are referenced by it:   feed_with s = filter (keepb s) feed_without.
   Part 2 (proved): the classification / id logic only looks at the streams that contain a packet of the new
   captures, and not at the Complete flag.
   Part 3: under the named assembler hypothesis [replay_ok] (replaying kept packets only reproduces those
   streams), importing with the snapshot gives the same result as importing without any snapshot. *)
From Pk Require Import Import ImportProofs ImportExamples BuilderOrderProofs UdpInterleave.
From Coq Require Import Lia PeanoNat Arith Sorting.Sorted Sorting.Permutation RelationClasses.
From Coq Require Import ZifyBool ZifyN ZifyNat.

(* ------------------------------------------------------------------ list helpers *)
Lemma Permutation_filter' {A} (f : A -> bool) : forall l l', Permutation l l' -> Permutation (filter f l) (filter f l').
Proof.
  induction 1; simpl; auto.
  - destruct (f x); auto.
  - destruct (f x), (f y); auto. apply perm_swap.
  - eapply Permutation_trans; eauto.
Qed.

Lemma filter_flat_map {A B} (f : B -> bool) (g : A -> list B) : forall l,
  filter f (flat_map g l) = flat_map (fun x => filter f (g x)) l.
Proof. induction l as [|x l IH]; simpl; auto. rewrite filter_app, IH. reflexivity. Qed.

Lemma flat_map_perm_pointwise {A B} (g g' : A -> list B) : forall l,
  (forall x, In x l -> Permutation (g x) (g' x)) -> Permutation (flat_map g l) (flat_map g' l).
Proof.
  induction l as [|x l IH]; simpl; intros H; auto.
  apply Permutation_app; [apply H; auto|apply IH; auto].
Qed.

Lemma flat_map_filter_nil {A B} (h : A -> list B) (P : A -> bool) : forall l,
  (forall x, In x l -> P x = false -> h x = []) -> flat_map h (filter P l) = flat_map h l.
Proof.
  induction l as [|x l IH]; simpl; intros H; auto.
  destruct (P x) eqn:E; simpl; rewrite IH by auto; auto. rewrite (H x) by auto. reflexivity.
Qed.

Lemma filter_or_perm {A} (f g : A -> bool) : forall l,
  (forall x, In x l -> f x = true -> g x = true -> False) ->
  Permutation (filter f l ++ filter g l) (filter (fun x => f x || g x) l).
Proof.
  induction l as [|x l IH]; simpl; intros H; auto.
  specialize (IH (fun y Hy => H y (or_intror Hy))).
  destruct (f x) eqn:Ef, (g x) eqn:Eg; simpl.
  - exfalso. eapply H; eauto.
  - constructor. exact IH.
  - eapply Permutation_trans; [apply Permutation_sym, Permutation_middle|]. constructor. exact IH.
  - exact IH.
Qed.

Lemma StronglySorted_filter {A} (R : A -> A -> Prop) (f : A -> bool) : forall l,
  StronglySorted R l -> StronglySorted R (filter f l).
Proof.
  induction l as [|x l IH]; simpl; intros H; auto. inversion H; subst.
  destruct (f x); auto. constructor; auto.
  apply Forall_forall. intros y Hy. apply filter_In in Hy as [Hy _]. rewrite Forall_forall in H3. auto.
Qed.

Lemma filter_true {A} (f : A -> bool) : forall l, (forall x, In x l -> f x = true) -> filter f l = l.
Proof. induction l as [|x l IH]; simpl; intros H; auto. rewrite (H x) by auto. f_equal. auto. Qed.

Lemma filter_false {A} (f : A -> bool) : forall l, (forall x, In x l -> f x = false) -> filter f l = [].
Proof. induction l as [|x l IH]; simpl; intros H; auto. rewrite (H x) by auto. auto. Qed.

(* ------------------------------------------------------------------ select_indexes *)
Definition memN (x : N) (l : list N) : bool := existsb (N.eqb x) l.

Lemma memN_in x l : memN x l = true <-> In x l.
Proof.
  unfold memN. rewrite existsb_exists. split.
  - intros (y & Hy & E). apply N.eqb_eq in E. subst. auto.
  - intros H. exists x. split; auto. apply N.eqb_refl.
Qed.

Definition nsorted (l : list N) : Prop := StronglySorted N.le l.
Definition ascending (pk : list packet) : Prop := StronglySorted (fun x y => p_idx x < p_idx y) pk.

Lemma drop_below_spec i : forall l, nsorted l ->
  nsorted (drop_below i l) /\ (forall x, In x (drop_below i l) <-> In x l /\ i <= x).
Proof.
  induction l as [|y l IH]; simpl; intros Hs.
  - split; auto. intros x. tauto.
  - inversion Hs; subst. destruct (N.ltb_spec y i).
    + destruct (IH H1) as [A B]. split; auto. intros x. rewrite B. split; [tauto|].
      intros [[->|Hx] Hle]; [lia|auto].
    + split; auto. intros x. simpl. split; [|tauto].
      intros [->|Hx]; [split; auto; lia|]. split; auto. rewrite Forall_forall in H2. specialize (H2 _ Hx). lia.
Qed.

Lemma select_sorted_filter : forall pk idxs, ascending pk -> nsorted idxs ->
  select_sorted pk idxs = filter (fun p => memN (p_idx p) idxs) pk.
Proof.
  induction pk as [|p r IH]; intros idxs Ha Hs; simpl; auto.
  inversion Ha as [|? ? Har Hp]; subst.
  destruct (drop_below_spec (p_idx p) idxs Hs) as [Hds Hdin].
  assert (F1 : forall q, p_idx p <= p_idx q -> memN (p_idx q) idxs = memN (p_idx q) (drop_below (p_idx p) idxs)).
  { intros q Hq. apply Bool.eq_true_iff_eq. rewrite !memN_in, Hdin. split; [intros; split; auto|tauto]. }
  rewrite Forall_forall in Hp.
  destruct (drop_below (p_idx p) idxs) as [|j js] eqn:Ed.
  - rewrite (F1 p) by lia. simpl. symmetry. apply filter_false. intros q Hq. rewrite F1; [reflexivity|]. specialize (Hp _ Hq). lia.
  - assert (Hj : p_idx p <= j) by (apply (Hdin j); left; auto).
    inversion Hds as [|? ? Hjs Hjall]; subst. rewrite Forall_forall in Hjall.
    destruct (N.eqb_spec j (p_idx p)) as [->|Hne].
    + rewrite (F1 p) by lia. simpl. rewrite N.eqb_refl. simpl. f_equal.
      rewrite (IH js Har Hjs). apply filter_ext_in. intros q Hq. rewrite F1 by (specialize (Hp _ Hq); lia).
      simpl. destruct (N.eqb_spec (p_idx q) (p_idx p)); [specialize (Hp _ Hq); lia|reflexivity].
    + rewrite (F1 p) by lia.
      assert (memN (p_idx p) (j :: js) = false) as ->.
      { destruct (memN (p_idx p) (j :: js)) eqn:E; auto. apply memN_in in E. destruct E as [->|E]; [congruence|].
        specialize (Hjall _ E). lia. }
      rewrite (IH (j :: js) Har Hds). apply filter_ext_in. intros q Hq. symmetry. apply F1. specialize (Hp _ Hq). lia.
Qed.

Global Instance Nle_Transitive : Transitive (fun x y => is_true (NOrder.leb x y)).
Proof. intros x y z. unfold NOrder.leb, is_true. rewrite !N.leb_le. lia. Qed.

Lemma nsort_sorted l : nsorted (NSort.sort l).
Proof.
  pose proof (NSort.StronglySorted_sort l Nle_Transitive) as H.
  unfold nsorted. induction H; constructor; auto.
  eapply Forall_impl; [|eassumption]. intros b Hb. unfold NOrder.leb, is_true in Hb. apply N.leb_le. exact Hb.
Qed.

Lemma select_indexes_filter pk idxs : ascending pk ->
  select_indexes pk idxs = filter (fun p => memN (p_idx p) idxs) pk.
Proof.
  intros Ha. unfold select_indexes. rewrite select_sorted_filter by (auto using nsort_sorted).
  apply filter_ext. intros p. apply Bool.eq_true_iff_eq. rewrite !memN_in.
  split; intros H; [eapply Permutation_in; [apply Permutation_sym, NSort.Permuted_sort|exact H]|
                    eapply Permutation_in; [apply NSort.Permuted_sort|exact H]].
Qed.

(* ------------------------------------------------------------------ capture directory well-formedness *)
(* the packets of file f carry f and their position (readPackets: AddPcapMetadata(&ci, info, packetIndex)) *)
Definition file_wf (f : N) (l : list packet) : Prop :=
  forall i p, nth_error l i = Some p -> p_file p = f /\ p_idx p = N.of_nat i.

Lemma file_wf_tail f x l : file_wf f (x :: l) -> forall i p, nth_error l i = Some p -> p_file p = f /\ p_idx p = N.of_nat (S i).
Proof. intros H i p Hi. apply (H (S i) p Hi). Qed.

Lemma file_wf_ascending_from f : forall l k,
  (forall i p, nth_error l i = Some p -> p_file p = f /\ p_idx p = N.of_nat (k + i)) -> ascending l.
Proof.
  induction l as [|x l IH]; intros k H; [constructor|]. constructor.
  - apply (IH (S k)). intros i p Hi. destruct (H (S i) p Hi) as [A B]. split; auto. rewrite B. f_equal. lia.
  - apply Forall_forall. intros y Hy. apply In_nth_error in Hy as [i Hi].
    destruct (H 0%nat x eq_refl) as [_ Bx]. destruct (H (S i) y Hi) as [_ By]. lia.
Qed.

Lemma file_wf_ascending f l : file_wf f l -> ascending l.
Proof. intros H. apply (file_wf_ascending_from f l 0). intros i p Hi. simpl. apply H; auto. Qed.

Lemma file_wf_in f l p : file_wf f l -> In p l -> p_file p = f /\ nth_error l (N.to_nat (p_idx p)) = Some p.
Proof.
  intros H Hin. apply In_nth_error in Hin as [i Hi]. destruct (H i p Hi) as [A B]. split; auto.
  rewrite B, Nat2N.id. exact Hi.
Qed.

Lemma fold_min_le (l : list packet) : forall m,
  fold_left (fun m p => N.min m (p_ts p)) l m <= m /\
  forall p, In p l -> fold_left (fun m p => N.min m (p_ts p)) l m <= p_ts p.
Proof.
  induction l as [|x l IH]; intros m; simpl; [split; [lia|intros p []]|].
  destruct (IH (N.min m (p_ts x))) as [A B]. split; [lia|]. intros p [<-|Hp]; [lia|auto].
Qed.

Lemma fold_max_ge (l : list packet) : forall m,
  m <= fold_left (fun m p => N.max m (p_ts p)) l m /\
  forall p, In p l -> p_ts p <= fold_left (fun m p => N.max m (p_ts p)) l m.
Proof.
  induction l as [|x l IH]; intros m; simpl; [split; [lia|intros p []]|].
  destruct (IH (N.max m (p_ts x))) as [A B]. split; [lia|]. intros p [<-|Hp]; [lia|auto].
Qed.

Lemma info_min f l p : In p l -> pi_min (info_of f l) <= p_ts p.
Proof. intros H. unfold info_of. simpl. apply fold_min_le. exact H. Qed.

Lemma info_max f l p : In p l -> p_ts p <= pi_max (info_of f l).
Proof. intros H. unfold info_of. simpl. apply fold_max_ge. exact H. Qed.

(* ------------------------------------------------------------------ which packets a snapshot keeps *)
Definition in_refs (R : list (N * N)) (p : packet) : bool :=
  existsb (fun r => (fst r =? p_file p) && (snd r =? p_idx p)) R.
Definition keepb (s : snapshot) (p : packet) : bool := (sn_ts s <=? p_ts p) || in_refs (sn_refs s) p.

Lemma in_refs_refs_for s f p : p_file p = f ->
  memN (p_idx p) (refs_for (Some s) f) = in_refs (sn_refs s) p.
Proof.
  intros Hf. apply Bool.eq_true_iff_eq. rewrite memN_in. unfold refs_for, in_refs. rewrite existsb_exists, in_map_iff.
  split.
  - intros ([f' i] & E & Hin). simpl in E. subst i. apply filter_In in Hin as [Hin Hf']. simpl in Hf'.
    exists (f', p_idx p). split; auto. simpl. rewrite N.eqb_refl. apply N.eqb_eq in Hf'. subst. rewrite N.eqb_refl. reflexivity.
  - intros ([f' i] & Hin & E). simpl in E. apply Bool.andb_true_iff in E as [E1 E2]. apply N.eqb_eq in E1, E2. subst.
    exists (p_file p, p_idx p). split; auto. apply filter_In. split; auto. simpl. apply N.eqb_refl.
Qed.

(* the referenced packets are older than the snapshot (they were processed before it was taken) *)
Definition refs_before (s : snapshot) (st : store) : Prop :=
  forall f p, In p (store_get st f) -> in_refs (sn_refs s) p = true -> p_ts p < sn_ts s.

Lemma needed_packets_perm s st f l :
  l = store_get st f -> file_wf f l -> refs_before s st ->
  Permutation (needed_packets (Some s) (info_of f l) l) (filter (keepb s) l).
Proof.
  intros El Hwf Hrb. unfold needed_packets, snap_after.
  change (pi_file (info_of f l)) with f.
  destruct (N.ltb_spec (pi_min (info_of f l)) (sn_ts s)) as [Hlt|Hge].
  - rewrite select_indexes_filter by (eapply file_wf_ascending; eauto).
    assert (Hsel : filter (fun p => memN (p_idx p) (refs_for (Some s) f)) l = filter (fun p => in_refs (sn_refs s) p) l).
    { apply filter_ext_in. intros p Hp. apply in_refs_refs_for. apply (file_wf_in f l p Hwf Hp). }
    rewrite Hsel.
    assert (Hrest : (if negb (pi_max (info_of f l) <? sn_ts s) then filter (fun p => negb (p_ts p <? sn_ts s)) l else [])
                    = filter (fun p => sn_ts s <=? p_ts p) l).
    { destruct (N.ltb_spec (pi_max (info_of f l)) (sn_ts s)); simpl.
      - symmetry. apply filter_false. intros p Hp. pose proof (info_max f l p Hp). apply N.leb_gt. lia.
      - apply filter_ext. intros p. destruct (N.ltb_spec (p_ts p) (sn_ts s)), (N.leb_spec (sn_ts s) (p_ts p)); simpl; auto; lia. }
    rewrite Hrest.
    eapply Permutation_trans; [apply Permutation_app_comm|].
    eapply Permutation_trans; [apply filter_or_perm|].
    + intros p Hp H1 H2. subst l. specialize (Hrb f p Hp H2). apply N.leb_le in H1. lia.
    + apply Permutation_refl.
  - rewrite filter_true; auto. intros p Hp. unfold keepb. pose proof (info_min f l p Hp).
    apply Bool.orb_true_iff. left. apply N.leb_le. lia.
Qed.

Lemma not_needed_empty s st pi : let l := store_get st (pi_file pi) in
  pi = info_of (pi_file pi) l -> file_wf (pi_file pi) l ->
  is_needed (Some s) pi = false -> filter (keepb s) l = [].
Proof.
  intros l Hpi Hwf Hn. unfold is_needed, snap_after in Hn. apply Bool.orb_false_iff in Hn as [H1 H2].
  apply Bool.negb_false_iff in H1, H2. apply N.ltb_lt in H1.
  apply filter_false. intros p Hp. unfold keepb. apply Bool.orb_false_iff. split.
  - apply N.leb_gt. rewrite Hpi in H1. pose proof (info_max (pi_file pi) l p Hp). lia.
  - rewrite <- (in_refs_refs_for s (pi_file pi) p) by (apply (file_wf_in _ l p Hwf Hp)).
    destruct (refs_for (Some s) (pi_file pi)); [reflexivity|discriminate].
Qed.

(* ---- sort_by_min ---- *)
Lemma insert_by_min_perm pi : forall l, Permutation (insert_by_min pi l) (pi :: l).
Proof.
  induction l as [|x l IH]; simpl; auto. destruct (pi_min pi <? pi_min x); auto.
  eapply Permutation_trans; [apply perm_skip, IH|apply perm_swap].
Qed.

Lemma sort_by_min_perm : forall l, Permutation (sort_by_min l) l.
Proof.
  induction l as [|x l IH]; simpl; auto.
  eapply Permutation_trans; [apply insert_by_min_perm|]. constructor. exact IH.
Qed.

Definition minsorted (l : list pcapinfo) : Prop := StronglySorted (fun x y => pi_min x <= pi_min y) l.

Lemma insert_by_min_sorted pi : forall l, minsorted l -> minsorted (insert_by_min pi l).
Proof.
  induction l as [|x l IH]; simpl; intros H; [constructor; constructor|].
  inversion H; subst. destruct (N.ltb_spec (pi_min pi) (pi_min x)).
  - constructor; auto. constructor; [lia|]. eapply Forall_impl; [|eassumption]. intros; simpl in *; lia.
  - constructor; [apply IH; auto|]. apply Forall_forall. intros y Hy.
    eapply Permutation_in in Hy; [|apply insert_by_min_perm]. destruct Hy as [<-|Hy]; [lia|].
    rewrite Forall_forall in H3. auto.
Qed.

Lemma sort_by_min_sorted : forall l, minsorted (sort_by_min l).
Proof. induction l as [|x l IH]; simpl; [constructor|apply insert_by_min_sorted; auto]. Qed.

(* ------------------------------------------------------------------ Part 1: the feed with a snapshot *)
Record store_wf (st : store) (known : list pcapinfo) : Prop := {
  sw_files : forall f, file_wf f (store_get st f);
  sw_info : forall pi, In pi known -> pi = info_of (pi_file pi) (store_get st (pi_file pi)) }.

Definition notnew (nf : list N) (pi : pcapinfo) : bool := negb (mem_file (pi_file pi) nf).
Definition old_all (st : store) (known : list pcapinfo) (nf : list N) : list packet :=
  flat_map (fun pi => store_get st (pi_file pi)) (filter (notnew nf) known).

Lemma flat_map_snd_map {A} (g : A -> N) (h : A -> list packet) : forall l,
  flat_map snd (map (fun x => (g x, h x)) l) = flat_map h l.
Proof. induction l as [|x l IH]; simpl; auto. rewrite IH. reflexivity. Qed.

Lemma filter_andb {A} (f g : A -> bool) : forall l, filter (fun x => f x && g x) l = filter g (filter f l).
Proof. induction l as [|x l IH]; simpl; auto. destruct (f x); simpl; [destruct (g x)|]; rewrite IH; reflexivity. Qed.

Section Feed.
  Variable b : builder.
  Variable st : store.
  Variable nf : list N.
  Hypothesis Hwf : store_wf st (b_known b).

  Lemma needed_none_perm : Permutation (flat_map snd (needed_pcaps b None nf st)) (old_all st (b_known b) nf).
  Proof.
    unfold needed_pcaps. rewrite flat_map_snd_map.
    eapply Permutation_trans; [apply Permutation_flat_map, sort_by_min_perm|].
    unfold old_all. rewrite filter_andb.
    assert (E : filter (is_needed None) (filter (fun pi => negb (mem_file (pi_file pi) nf)) (b_known b)) = filter (notnew nf) (b_known b)).
    { apply filter_true. intros; reflexivity. }
    rewrite E. apply Permutation_refl.
  Qed.

  Lemma needed_snap_perm s : refs_before s st ->
    Permutation (flat_map snd (needed_pcaps b (Some s) nf st)) (filter (keepb s) (old_all st (b_known b) nf)).
  Proof.
    intros Hrb. unfold needed_pcaps. rewrite flat_map_snd_map.
    eapply Permutation_trans; [apply Permutation_flat_map, sort_by_min_perm|].
    rewrite filter_andb. fold (notnew nf).
    eapply Permutation_trans.
    { apply (flat_map_perm_pointwise _ (fun pi => filter (keepb s) (store_get st (pi_file pi)))).
      intros pi Hpi. apply filter_In in Hpi as [Hpi _]. apply filter_In in Hpi as [Hpi _].
      rewrite (sw_info _ _ Hwf pi Hpi) at 1.
      apply (needed_packets_perm s st (pi_file pi)); auto. apply (sw_files _ _ Hwf). }
    rewrite flat_map_filter_nil.
    - unfold old_all. rewrite filter_flat_map. apply Permutation_refl.
    - intros pi Hpi Hn. apply filter_In in Hpi as [Hpi _].
      apply (not_needed_empty s st pi); auto. apply (sw_info _ _ Hwf pi Hpi). apply (sw_files _ _ Hwf).
  Qed.

  Lemma needed_subset best pi p : In pi (b_known b) -> (match best with Some s => refs_before s st | None => True end) ->
    In p (needed_packets best pi (store_get st (pi_file pi))) -> In p (store_get st (pi_file pi)).
  Proof.
    intros Hpi Hb Hin. destruct best as [s|].
    - rewrite (sw_info _ _ Hwf pi Hpi) in Hin at 1.
      eapply Permutation_in in Hin; [|apply (needed_packets_perm s st (pi_file pi)); auto; apply (sw_files _ _ Hwf)].
      apply filter_In in Hin. tauto.
    - unfold needed_packets in Hin. simpl in Hin. exact Hin.
  Qed.

  Lemma needed_ok best : (match best with Some s => refs_before s st | None => True end) ->
    Forall pcap_ok (needed_pcaps b best nf st) /\ mins_sorted (needed_pcaps b best nf st).
  Proof.
    intros Hb. unfold needed_pcaps.
    set (L := filter (fun pi => negb (mem_file (pi_file pi) nf) && is_needed best pi) (b_known b)).
    assert (HL : forall pi, In pi (sort_by_min L) -> In pi (b_known b)).
    { intros pi Hpi. eapply Permutation_in in Hpi; [|apply sort_by_min_perm]. apply filter_In in Hpi. tauto. }
    split.
    - apply Forall_forall. intros [mn pk] Hin. apply in_map_iff in Hin as (pi & E & Hpi). inversion E; subst.
      unfold pcap_ok. simpl. apply Forall_forall. intros p Hp.
      apply (needed_subset best pi p (HL _ Hpi) Hb) in Hp.
      rewrite (sw_info _ _ Hwf pi (HL _ Hpi)). apply info_min. exact Hp.
    - unfold mins_sorted. pose proof (sort_by_min_sorted L) as Hs. clear HL.
      induction Hs as [|x l Hl IH Hx]; simpl; constructor; auto.
      apply Forall_forall. intros y Hy. apply in_map_iff in Hy as (z & <- & Hz). simpl.
      rewrite Forall_forall in Hx. auto.
  Qed.
End Feed.

(* two packets of the capture directory with the same (file, index) are the same packet *)
Lemma store_keys_identify st known (L : list packet) : store_wf st known ->
  (forall p, In p L -> exists f, In p (store_get st f)) -> keys_identify L.
Proof.
  intros Hwf HL x y Hx Hy _ Ef Ei.
  destruct (HL _ Hx) as (fx & Hfx). destruct (HL _ Hy) as (fy & Hfy).
  destruct (file_wf_in fx _ x (sw_files _ _ Hwf fx) Hfx) as [A1 A2].
  destruct (file_wf_in fy _ y (sw_files _ _ Hwf fy) Hfy) as [B1 B2].
  assert (fx = fy) by congruence. subst fy. rewrite Ei in A2. congruence.
Qed.

(* Part 1: with the snapshot the reassemblers are fed exactly the kept sub-sequence of the full feed *)
Theorem feed_with_snapshot_is_filter : forall (b : builder) (st : store) (nf : list N) (s : snapshot),
  store_wf st (b_known b) -> refs_before s st ->
  let newP := flat_map (store_get st) nf in
  (forall p, In p newP -> sn_ts s <= p_ts p) ->
  feed (needed_pcaps b (Some s) nf st) newP = filter (keepb s) (feed (needed_pcaps b None nf st) newP).
Proof.
  intros b st nf s Hwf Hrb newP Hnew.
  destruct (needed_ok b st nf Hwf (Some s) Hrb) as [Ok1 Ms1].
  destruct (needed_ok b st nf Hwf None I) as [Ok0 Ms0].
  destruct (feed_sorted_permutation _ newP Ok1 Ms1) as [S1 P1].
  destruct (feed_sorted_permutation _ newP Ok0 Ms0) as [S0 P0].
  assert (Pall : Permutation (feed (needed_pcaps b (Some s) nf st) newP)
                             (filter (keepb s) (feed (needed_pcaps b None nf st) newP))).
  { rewrite P1. rewrite (needed_snap_perm b st nf Hwf s Hrb).
    eapply Permutation_trans; [|apply Permutation_filter', Permutation_sym, P0].
    rewrite filter_app. rewrite (filter_true (keepb s) newP).
    - apply Permutation_app_head. apply Permutation_filter'. apply Permutation_sym, needed_none_perm; exact Hwf.
    - intros p Hp. unfold keepb. apply Bool.orb_true_iff. left. apply N.leb_le. auto. }
  apply sorted_perm_unique; auto.
  - apply StronglySorted_filter. exact S0.
  - apply (store_keys_identify st (b_known b)); auto.
    intros p Hp. eapply Permutation_in in Hp; [|exact P1]. apply in_app_or in Hp as [Hp|Hp].
    + apply in_flat_map in Hp as (f & _ & Hp). eauto.
    + eapply Permutation_in in Hp; [|apply needed_snap_perm; auto]. apply filter_In in Hp as [Hp _].
      apply in_flat_map in Hp as (pi & _ & Hp). eauto.
Qed.

(* ------------------------------------------------------------------ Part 2: what [dump] looks at *)
Definition touchedb (nf : list N) (s : stream) : bool := existsb (from_new nf) (stream_packets s).

Lemma classify_touched nf stack : forall pk id t,
  snd (fst (classify pk nf stack id t)) = t || existsb (from_new nf) pk.
Proof.
  induction pk as [|[r d] pk IH]; intros id t; simpl.
  - rewrite Bool.orb_false_r. reflexivity.
  - unfold from_new at 1. simpl. destruct (mem_file (fst (fst r)) nf) eqn:E; simpl.
    + destruct id; simpl; [rewrite Bool.orb_true_r; reflexivity|]. rewrite IH. simpl. rewrite Bool.orb_true_r. reflexivity.
    + destruct id; [apply IH|]. destruct t; simpl; [reflexivity|]. apply IH.
Qed.

Lemma dump_touched nf stack : forall fac next acc,
  dump fac nf stack next acc = dump (filter (touchedb nf) fac) nf stack next acc.
Proof.
  induction fac as [|s fac IH]; intros next acc; simpl; auto.
  pose proof (classify_touched nf stack (stream_packets s) None false) as Ht.
  destruct (classify (stream_packets s) nf stack None false) as [[oid touched] cat] eqn:Ec.
  simpl in Ht. fold (touchedb nf s) in Ht. subst touched.
  destruct (touchedb nf s) eqn:Et; simpl.
  - rewrite Ec. simpl. apply IH.
  - apply IH.
Qed.

Definition eforget (e : N * stream) : N * stream := (fst e, forget (snd e)).
Definition rforget (r : result) : result :=
  mkResult (map eforget (r_index r)) (r_new r) (r_upd r) (r_reset r) (r_added r).

Lemma dump_forget nf stack : forall fac next acc,
  dump (map forget fac) nf stack next (rforget acc) =
  (rforget (fst (dump fac nf stack next acc)), snd (dump fac nf stack next acc)).
Proof.
  induction fac as [|s fac IH]; intros next acc; simpl; auto.
  change (stream_packets (forget s)) with (stream_packets s).
  destruct (classify (stream_packets s) nf stack None false) as [[oid touched] cat].
  destruct (negb touched); [apply IH|].
  match goal with |- dump _ _ _ ?n ?a = (rforget (fst (dump _ _ _ ?n ?a')), _) =>
    replace a with (rforget a'); [apply IH|] end.
  unfold rforget. simpl. rewrite map_app. reflexivity.
Qed.

Lemma dump_same_touched nf stack fac1 fac2 next :
  map forget (filter (touchedb nf) fac1) = map forget (filter (touchedb nf) fac2) ->
  rforget (fst (dump fac1 nf stack next (mkResult [] 0 [] [] []))) = rforget (fst (dump fac2 nf stack next (mkResult [] 0 [] [] []))) /\
  snd (dump fac1 nf stack next (mkResult [] 0 [] [] [])) = snd (dump fac2 nf stack next (mkResult [] 0 [] [] [])).
Proof.
  intros H.
  pose proof (dump_forget nf stack (filter (touchedb nf) fac1) next (mkResult [] 0 [] [] [])) as H1.
  pose proof (dump_forget nf stack (filter (touchedb nf) fac2) next (mkResult [] 0 [] [] [])) as H2.
  rewrite <- !dump_touched in H1, H2. rewrite H in H1. rewrite H1 in H2. apply pair_equal_spec in H2. exact H2.
Qed.

(* ------------------------------------------------------------------ Part 3: transparency *)
Lemma fold_min_infos (l : list pcapinfo) : forall m,
  fold_left (fun m i => N.min m (pi_min i)) l m <= m /\
  forall i, In i l -> fold_left (fun m i => N.min m (pi_min i)) l m <= pi_min i.
Proof.
  induction l as [|x l IH]; intros m; simpl; [split; [lia|intros i []]|].
  destruct (IH (N.min m (pi_min x))) as [A B]. split; [lia|]. intros i [<-|Hi]; [lia|auto].
Qed.

Definition new_infos (st : store) (nf : list N) : list pcapinfo :=
  flat_map (fun f => match store_get st f with [] => [] | l => [info_of f l] end) nf.

Lemma new_packets_min st nf p : In p (flat_map (store_get st) (map pi_file (new_infos st nf))) ->
  exists i, In i (new_infos st nf) /\ pi_min i <= p_ts p.
Proof.
  intros Hp. apply in_flat_map in Hp as (f & Hf & Hp). apply in_map_iff in Hf as (i & <- & Hi).
  exists i. split; auto. unfold new_infos in Hi. apply in_flat_map in Hi as (f & _ & Hi).
  destruct (store_get st f) as [|x l] eqn:E; [destruct Hi|]. destruct Hi as [<-|[]].
  change (pi_file (info_of f (x :: l))) with f in Hp. rewrite E in Hp. apply info_min. exact Hp.
Qed.

Section Transparency.
  Variable hashf : N -> N.
  Variable thr : N.
  Variable final_flush : bool.

  (* the streams FromPcap holds when it starts classifying: the packet loop (with its own snapshot
     creation) over the feed, then the optional final flush *)
  Definition loop_fac (bts : option N) (kept : list snapshot) (fed : list packet) : factory :=
    let fin := fold_left (loop_step hashf thr bts) fed (mkLoop asm0 0 None kept) in
    if final_flush then tcp_flush_all (a_fac (l_asm fin)) (a_tcp (l_asm fin)) else a_fac (l_asm fin).

  (* ASSEMBLER HYPOTHESIS.  [valid s nf F]: snapshot s was recorded on the history F (the full feed) and the
     captures nf are new.  For such a snapshot, replaying only the kept packets (not older than s, or
     referenced by s = belonging to a stream the reassemblers still held at that time) reproduces every
     stream that contains a packet of the new captures, up to the Complete flag -- whatever snapshots the
     two runs create on their way (their own flush points). *)
  Variable valid : snapshot -> list N -> list packet -> Prop.
  Hypothesis replay_ok : forall s nf kept F, valid s nf F ->
    map forget (filter (touchedb nf) (loop_fac (Some (sn_ts s)) kept (filter (keepb s) F))) =
    map forget (filter (touchedb nf) (loop_fac None [] F)).

  Definition import_view (r : builder * option result) : list pcapinfo * option result :=
    (b_known (fst r), option_map rforget (snd r)).

  Theorem snapshot_transparency : forall (b : builder) (st : store) (nf : list N) (stack : list index) (s : snapshot) i0 rest,
    store_wf st (b_known b) ->
    new_infos st nf = i0 :: rest ->
    let nf' := map pi_file (i0 :: rest) in
    let oldest := fold_left (fun m i => N.min m (pi_min i)) (i0 :: rest) (pi_min i0) in
    best_snapshot (b_snaps b) oldest None = Some s ->
    refs_before s st ->
    valid s nf' (feed (needed_pcaps b None nf' st) (flat_map (store_get st) nf')) ->
    import_view (import hashf thr final_flush b st nf stack) =
    import_view (import hashf thr final_flush (mkBuilder (b_known b) []) st nf stack).
  Proof.
    intros b st nf stack s i0 rest Hwf Hinfos nf' oldest Hbest Hrb Hvalid.
    unfold import. fold (new_infos st nf). rewrite Hinfos. fold nf'. fold oldest. rewrite Hbest.
    cbn [b_snaps b_known best_snapshot filter].
    set (newP := flat_map (store_get st) nf') in *.
    assert (Hfeed : feed (needed_pcaps b (Some s) nf' st) newP = filter (keepb s) (feed (needed_pcaps b None nf' st) newP)).
    { apply feed_with_snapshot_is_filter; auto. intros p Hp.
      destruct (snapshot_choice_sound _ _ _ Hbest) as (_ & Hle & _).
      unfold newP, nf' in Hp. rewrite <- Hinfos in Hp. destruct (new_packets_min st nf p Hp) as (i & Hi & Hm).
      rewrite Hinfos in Hi. pose proof (proj2 (fold_min_infos (i0 :: rest) (pi_min i0)) i Hi). fold oldest in H. lia. }
    rewrite Hfeed.
    change (needed_pcaps {| b_known := b_known b; b_snaps := [] |} None nf' st) with (needed_pcaps b None nf' st).
    set (F := feed (needed_pcaps b None nf' st) newP) in *.
    set (kept := filter (fun s0 => sn_ts s0 <=? sn_ts s) (b_snaps b)).
    pose proof (replay_ok s nf' kept F Hvalid) as Hr. unfold loop_fac in Hr.
    destruct (dump_same_touched nf' stack _ _ (next_stream_id stack) Hr) as [Hd1 Hd2].
    match goal with |- import_view (let '(res, nx') := ?d1 in _) = import_view (let '(res, nx') := ?d2 in _) =>
      destruct d1 as [res1 nx1] eqn:E1; destruct d2 as [res2 nx2] eqn:E2 end.
    simpl in Hd1, Hd2. subst nx2.
    unfold import_view. cbn [fst snd option_map b_known]. f_equal. f_equal.
    unfold rforget in *. cbn [r_index r_new r_upd r_reset r_added] in *. inversion Hd1. reflexivity.
  Qed.
End Transparency.

(* ------------------------------------------------------------------ the hypothesis is satisfiable *)
(* [kept] (the stored snapshots carried over) never influences the reassemblers *)
Definition lcore (st : loopst) : asm * N * option N := (l_asm st, l_nafter st, l_prev st).

Lemma loop_step_core hashf thr bts st1 st2 p : lcore st1 = lcore st2 ->
  lcore (loop_step hashf thr bts st1 p) = lcore (loop_step hashf thr bts st2 p).
Proof.
  destruct st1 as [a1 n1 p1 s1], st2 as [a2 n2 p2 s2]. unfold lcore. simpl. intros H. inversion H; subst.
  unfold loop_step. cbn [l_asm l_nafter l_prev l_snaps].
  destruct ((thr <=? n2) && negb (opt_is p2 (p_ts p))); cbn [l_asm l_nafter l_prev l_snaps];
    match goal with |- context [if ?c then _ else _] => destruct c end; reflexivity.
Qed.

Lemma loop_kept_irrelevant hashf thr bts : forall fed st1 st2,
  lcore st1 = lcore st2 ->
  l_asm (fold_left (loop_step hashf thr bts) fed st1) = l_asm (fold_left (loop_step hashf thr bts) fed st2).
Proof.
  induction fed as [|p fed IH]; intros st1 st2 H; simpl.
  - unfold lcore in H. inversion H. auto.
  - apply IH. apply loop_step_core. exact H.
Qed.

Lemma loop_fac_kept hashf thr ff bts kept fed : loop_fac hashf thr ff bts kept fed = loop_fac hashf thr ff bts [] fed.
Proof.
  unfold loop_fac.
  rewrite (loop_kept_irrelevant hashf thr bts fed (mkLoop asm0 0 None kept) (mkLoop asm0 0 None [])); reflexivity.
Qed.

(* A concrete instance: two captures of one UDP flow (p1 p2 | p3), snapshot interval 1, so that importing the first
   capture records a snapshot at p2 that references p1; the snapshot [snap0] is the one the MODEL ITSELF produces. *)
Definition st2 : store :=
  [(0, [mkU 0 0 0 [112; 49]; mkU 1000 0 1 [112; 50]]); (1, [mkU 2000 1 0 [112; 51]])].
Definition b_after_first : builder := fst (import (fun a => a) 1 false (mkBuilder [] []) st2 [0] []).
Definition snap0 : snapshot := mkSnap 1000 [(0, 0)].
Definition F0 : list packet := feed (needed_pcaps b_after_first None [1] st2) (flat_map (store_get st2) [1]).

Example model_records_snap0 : b_snaps b_after_first = [snap0] /\ best_snapshot (b_snaps b_after_first) 2000 None = Some snap0.
Proof. vm_compute. split; reflexivity. Qed.

Example replay_hypothesis_instance :
  let valid := fun s nf F => s = snap0 /\ nf = [1] /\ F = F0 in
  (forall s nf kept F, valid s nf F ->
     map forget (filter (touchedb nf) (loop_fac (fun a => a) 1 false (Some (sn_ts s)) kept (filter (keepb s) F))) =
     map forget (filter (touchedb nf) (loop_fac (fun a => a) 1 false None [] F))) /\
  valid snap0 [1] F0 /\ store_wf st2 (b_known b_after_first) /\ refs_before snap0 st2.
Proof.
  split; [|split; [auto|split]].
  - intros s nf kept F (-> & -> & ->). rewrite loop_fac_kept. vm_compute. reflexivity.
  - constructor.
    + intros f i p H.
      destruct (N.eq_dec f 0) as [->|N0]; [|destruct (N.eq_dec f 1) as [->|N1]].
      * destruct i as [|[|[|i]]]; simpl in H; inversion H; subst; auto.
      * destruct i as [|[|i]]; simpl in H; inversion H; subst; auto.
      * exfalso. unfold st2, store_get in H.
        rewrite (proj2 (N.eqb_neq 0 f)), (proj2 (N.eqb_neq 1 f)) in H by congruence. destruct i; discriminate.
    + intros pi [<-|[]]. vm_compute. reflexivity.
  - intros f p Hin Hr.
    destruct (N.eq_dec f 0) as [->|N0]; [|destruct (N.eq_dec f 1) as [->|N1]].
    + simpl in Hin. destruct Hin as [<-|[<-|[]]]; vm_compute in Hr |- *; congruence.
    + simpl in Hin. destruct Hin as [<-|[]]; vm_compute in Hr; discriminate.
    + exfalso. unfold st2, store_get in Hin.
      rewrite (proj2 (N.eqb_neq 0 f)), (proj2 (N.eqb_neq 1 f)) in Hin by congruence. destruct Hin.
Qed.

(* all hypotheses of [snapshot_transparency] hold together in that scenario: the theorem applies *)
Example snapshot_transparency_applies :
  import_view (import (fun a => a) 1 false b_after_first st2 [1] []) =
  import_view (import (fun a => a) 1 false (mkBuilder (b_known b_after_first) []) st2 [1] []).
Proof.
  destruct replay_hypothesis_instance as (Hr & Hv & Hw & Hb).
  apply (snapshot_transparency (fun a => a) 1 false (fun s nf F => s = snap0 /\ nf = [1] /\ F = F0) Hr
           b_after_first st2 [1] [] snap0 (info_of 1 (store_get st2 1)) []); auto.
Qed.

(* ------------------------------------------------------------------ PacketTimestampMin/Max are min/max over ALL records *)
(* Import.info_of (readPackets) folds min and max over every record of the file; the replay order (feed theorem, hypothesis
   [pcap_ok]: every packet of a replayed capture is at least as young as the capture's PacketTimestampMin, established in
   [needed_ok] from [info_min]) depends on exactly that.  With the timestamp of the FIRST record instead, a capture whose
   records are not in timestamp order is loaded too late and new packets overtake its older packets: *)
Theorem capture_info_is_min_max f l p : In p l -> pi_min (info_of f l) <= p_ts p /\ p_ts p <= pi_max (info_of f l).
Proof. intros H. split; [apply info_min|apply info_max]; exact H. Qed.

Definition unsorted_capture : list packet :=
  [ mkPacket 20 0 0 (1, 1) (2, 2) false false false false false 0 [];
    mkPacket 10 0 1 (1, 1) (2, 2) false false false false false 0 [] ].
Definition later_packet : list packet := [ mkPacket 15 1 0 (1, 1) (2, 2) false false false false false 0 [] ].

Example replay_order_with_first_record_time_refuted :
  map p_ts (feed [(20, unsorted_capture)] later_packet) = [15; 10; 20] /\
  map p_ts (feed [(pi_min (info_of 0 unsorted_capture), unsorted_capture)] later_packet) = [10; 15; 20].
Proof. vm_compute. split; reflexivity. Qed.

(* ------------------------------------------------------------------ the oldest time of a BATCH is the minimum over ALL its captures *)
(* Import.import folds N.min over every capture of the batch; [snapshot_transparency] uses it ([new_packets_min],
   [fold_min_infos]): the chosen snapshot is not younger than ANY new packet.  With the first capture only, a batch
   [late, early] picks a snapshot that is younger than packets of early: *)
Theorem batch_oldest_is_min_over_all_captures : forall (i0 : pcapinfo) rest i,
  In i (i0 :: rest) -> fold_left (fun m i => N.min m (pi_min i)) (i0 :: rest) (pi_min i0) <= pi_min i.
Proof. intros i0 rest i H. apply (proj2 (fold_min_infos (i0 :: rest) (pi_min i0))). exact H. Qed.

Example snapshot_choice_with_first_capture_only_refuted :
  let snaps := [mkSnap 50 []; mkSnap 1000 []] in
  let batch := [mkPcap 3 1200 1300; mkPcap 1 100 200] in           (* [late, early] *)
  option_map sn_ts (best_snapshot snaps (fold_left (fun m i => N.min m (pi_min i)) batch 1200) None) = Some 50 /\
  option_map sn_ts (best_snapshot snaps 1200 None) = Some 1000.
Proof. vm_compute. split; reflexivity. Qed.
