(* Model of /repo/internal/index writer.go / reader.go / format.go (C01).
   Definitions only, no proofs (see IndexFormat*Proofs.v).

   What is followed line by line
     Writer.AddStream   -> add_stream   (reference-second re-basing, host groups with add/pop,
                                         import table, packet records with uint32 microsecond wrap and
                                         uint16 size split, skip counters, payload per direction,
                                         segmentation varints)
     Writer.Finalize    -> finalize     (sections, host-group entries Start/Count/Flags, sorted lookups)
                           encode_file  (byte image: header, 8-byte padded sections, LE records)
     NewReader          -> decode_file + new_reader (imports, host-group decoding, id map, min/max)
     StreamByID / StreamByFirstPacketSource (sort.Search predicate) / Packets / Data
   The code modelled is the code *with* the four C01 fix patches (fixes/C01-*.patch); the defect
   "reader uses hostGroupEntry.Start as a byte offset" is kept as the switch [start_is_bytes] so
   that it can be exhibited on the model ([..._refuted] in props/C01.v).

   Abstractions (trusted base of the tie, all exercised by the correspondence run):
     - a file is the list of its bytes; bufio/Seek/Flush/binary.Write = list append
     - numbers are N; uint64/uint32/uint16/uint8 truncations are written explicitly ([u64], [u32] ...)
       where the Go code relies on them or where the property is about them
     - time.Time = nanoseconds since the epoch in N (>= 0; the harness stays within 1970..2262)
     - Go map iteration order in Finalize (import file names) = insertion order
     - sort.Slice = a stable merge sort on the comparison key; sort.Search = the binary search below
     - the undo paths of AddStream (refusals at 2^32 streams/packets/imports, 2^16 host groups) are
       not modelled: [add_stream] returns None where the code would refuse *)
From Coq Require Export NArith List Bool.
From Coq Require Import Sorting.Mergesort Orders.
Export ListNotations.
Open Scope N_scope.

Notation bytes := (list N) (only parsing).

Definition P8 : N := 256.
Definition P16 : N := 65536.
Definition P32 : N := 4294967296.
Definition P64 : N := 18446744073709551616.
Definition u8 (x : N) := x mod P8.
Definition u16 (x : N) := x mod P16.
Definition u32 (x : N) := x mod P32.
Definition u64 (x : N) := x mod P64.
Definition NS : N := 1000000000.               (* nanoseconds per second *)
Definition lenN {A} (l : list A) : N := N.of_nat (length l).

(* list access by N index, structural on the list (cost bounded by the list, not by the number) *)
Fixpoint nthN {A} (l : list A) (i : N) : option A :=
  match l with
  | [] => None
  | x :: r => if i =? 0 then Some x else nthN r (N.pred i)
  end.
Fixpoint skipN {A} (n : N) (l : list A) : list A :=
  match l with
  | [] => []
  | x :: r => if n =? 0 then l else skipN (N.pred n) r
  end.
Fixpoint takeN {A} (n : N) (l : list A) : list A :=
  match l with
  | [] => []
  | x :: r => if n =? 0 then [] else x :: takeN (N.pred n) r
  end.
Definition sliceN {A} (b e : N) (l : list A) : list A := takeN (e - b) (skipN b l).

Fixpoint bytes_eqb (a b : bytes) : bool :=
  match a, b with
  | [], [] => true
  | x :: a', y :: b' => (x =? y) && bytes_eqb a' b'
  | _, _ => false
  end.
(* Go string comparison: bytewise lexicographic *)
Fixpoint bytes_ltb (a b : bytes) : bool :=
  match a, b with
  | _, [] => false
  | [], _ :: _ => true
  | x :: a', y :: b' => if x <? y then true else if y <? x then false else bytes_ltb a' b'
  end.
Definition bytes_leb (a b : bytes) : bool := negb (bytes_ltb b a).

(* ------------------------------------------------------------------ *)
(* input: streams.Stream                                               *)
(* ------------------------------------------------------------------ *)
Record ipacket := { p_ts : N;                     (* Timestamp, ns since epoch *)
                    p_dir : bool;                 (* false = client->server, true = server->client *)
                    p_srcs : list (bytes * N) }.  (* AllFromPacketMetadata order: (capture name, packet index) *)
Record istream := { s_caddr : bytes; s_saddr : bytes; s_cport : N; s_sport : N; s_flags : N;
                    s_packets : list ipacket;
                    s_data : list (N * bytes) }.  (* (PacketIndex, Bytes) *)

(* ------------------------------------------------------------------ *)
(* format.go records                                                   *)
(* ------------------------------------------------------------------ *)
Record packet_rec := { pk_rel : N; pk_imp : N; pk_idx : N; pk_size : N; pk_skip : N; pk_flags : N }.
Record stream_rec := { st_id : N; st_first : N; st_last : N; st_datastart : N; st_cbytes : N; st_sbytes : N;
                       st_pktstart : N; st_flags : N; st_hg : N; st_chost : N; st_shost : N; st_cport : N; st_sport : N }.
Record hg_entry := { he_start : N; he_count : N; he_flags : N }.
Record imp_entry := { ie_name : N; ie_off : N }.

Definition flagHasNext : N := 1.
Definition flagDirS2C : N := 2.

Record file := { f_ref : N;
                 f_data : bytes; f_packets : list packet_rec; f_v6 : bytes; f_v4 : bytes;
                 f_groups : list hg_entry; f_imports : list imp_entry; f_names : bytes;
                 f_streams : list stream_rec;
                 f_by_id : list N; f_by_src : list N; f_by_ftime : list N; f_by_ltime : list N }.

(* ------------------------------------------------------------------ *)
(* writer state                                                        *)
(* ------------------------------------------------------------------ *)
Record hostgroup := { hg_size : N; hg_hosts : list bytes }.
Record writer := { w_ref : N; w_groups : list hostgroup; w_imports : list (bytes * N);
                   w_packets : list packet_rec; w_streams : list stream_rec; w_data : bytes }.
Definition new_writer : writer := {| w_ref := 0; w_groups := []; w_imports := []; w_packets := []; w_streams := []; w_data := [] |}.

Fixpoint find_host (h : bytes) (l : list bytes) (i : N) : option N :=
  match l with
  | [] => None
  | x :: r => if bytes_eqb x h then Some i else find_host h r (N.succ i)
  end.

Section Cap.
  (* writer.go:58 `len(g.hosts) >= math.MaxUint16`: the byte capacity test of a host group *)
  Variable gcap : N.

  (* hostGroup.add: (index, added, group') or None for "not ok" *)
  Definition hg_add (g : hostgroup) (h : bytes) : option (N * bool * hostgroup) :=
    match hg_hosts g with
    | [] => Some (0, true, {| hg_size := lenN h; hg_hosts := [h] |})
    | _ =>
      if negb (hg_size g =? lenN h) then None
      else match find_host h (hg_hosts g) 0 with
           | Some i => Some (i, false, g)
           | None => if gcap <=? hg_size g * lenN (hg_hosts g) then None
                     else Some (lenN (hg_hosts g), true, {| hg_size := hg_size g; hg_hosts := hg_hosts g ++ [h] |})
           end
    end.

  (* the host-group loop of AddStream (writer.go:208-238); pop() of the client after a failed server add
     = continuing with the unchanged group. Result: groups', group id, client idx, server idx *)
  Fixpoint place_hosts (gs : list hostgroup) (gid : N) (c s : bytes) : option (list hostgroup * N * N * N) :=
    match gs with
    | [] =>
      (* gID == len(w.hostGroups): a fresh group is appended *)
      match hg_add {| hg_size := 0; hg_hosts := [] |} c with
      | Some (ci, _, g1) =>
        match hg_add g1 s with
        | Some (si, _, g2) => Some ([g2], gid, ci, si)
        | None => None       (* the code would append groups until 2^16 and refuse *)
        end
      | None => None
      end
    | g :: r =>
      match hg_add g c with
      | Some (ci, _, g1) =>
        match hg_add g1 s with
        | Some (si, _, g2) => Some (g2 :: r, gid, ci, si)
        | None => match place_hosts r (N.succ gid) c s with
                  | Some (r', k, ci', si') => Some (g :: r', k, ci', si')
                  | None => None
                  end
        end
      | None => match place_hosts r (N.succ gid) c s with
                | Some (r', k, ci', si') => Some (g :: r', k, ci', si')
                | None => None
                end
      end
    end.
End Cap.

(* import table: key (filename, index & ~(2^32-1)), value = position *)
Fixpoint find_import (name : bytes) (off : N) (l : list (bytes * N)) (i : N) : option N :=
  match l with
  | [] => None
  | (n, o) :: r => if bytes_eqb n name && (o =? off) then Some i else find_import name off r (N.succ i)
  end.
Definition idx_off (idx : N) : N := (idx / P32) * P32.      (* pmd.Index & (MaxUint32 << 32) *)
Definition add_import (imps : list (bytes * N)) (src : bytes * N) : list (bytes * N) :=
  match find_import (fst src) (idx_off (snd src)) imps 0 with
  | Some _ => imps
  | None => imps ++ [(fst src, idx_off (snd src))]
  end.
Definition import_id (imps : list (bytes * N)) (src : bytes * N) : N :=
  match find_import (fst src) (idx_off (snd src)) imps 0 with Some i => i | None => 0 end.

(* packetToData: the last data item naming the packet wins *)
Fixpoint data_size_of (pi : N) (d : list (N * bytes)) (acc : option N) : option N :=
  match d with
  | [] => acc
  | (i, b) :: r => data_size_of pi r (if i =? pi then Some (lenN b) else acc)
  end.

(* uint16 size split (writer.go:301-331): 65535, 65535, ..., rest *)
Fixpoint split_sizes (fuel : nat) (ds : N) : list N :=
  match fuel with
  | O => [ds]
  | S f => if ds <=? 65535 then [ds] else 65535 :: split_sizes f (ds - 65535)
  end.

Definition dir_flag (d : bool) : N := if d then flagDirS2C else 0.

(* records of one packet: one group of split records per source; only the first source carries the size *)
Fixpoint packet_records (imps : list (bytes * N)) (rel : N) (dflag : N) (ds : N) (first : bool) (srcs : list (bytes * N)) : list packet_rec :=
  match srcs with
  | [] => []
  | src :: r =>
    let sz := if first then ds else 0 in
    map (fun z => {| pk_rel := rel; pk_imp := import_id imps src; pk_idx := u32 (snd src); pk_size := z;
                     pk_skip := 255; pk_flags := flagHasNext + dflag |})
        (split_sizes (N.to_nat (sz / 65535)) sz)
    ++ packet_records imps rel dflag ds false r
  end.

Fixpoint stream_records (imps : list (bytes * N)) (t0 : N) (d : list (N * bytes)) (pi : N) (ps : list ipacket) : list packet_rec :=
  match ps with
  | [] => []
  | p :: r =>
    let ds := match data_size_of pi d None with Some z => z | None => 0 end in
    packet_records imps (u32 ((p_ts p - t0) / 1000)) (dir_flag (p_dir p)) ds true (p_srcs p)
    ++ stream_records imps t0 d (N.succ pi) r
  end.

(* SkipPacketsForData (writer.go:316-339) as one right-to-left pass: the counter of a record is the number
   of records between it and the next record with data, or up to the last record of the stream; 255 = "255+".
   Second component: that distance for a record placed in front of the list. *)
Fixpoint set_skips (ps : list packet_rec) : list packet_rec * N :=
  match ps with
  | [] => ([], 0)
  | p :: rest =>
    let '(rest', d) := set_skips rest in
    let skip := match rest with [] => 255 | _ => N.min d 255 end in
    let dhere := if pk_size p =? 0 then (match rest with [] => 0 | _ => 1 + d end) else 0 in
    ({| pk_rel := pk_rel p; pk_imp := pk_imp p; pk_idx := pk_idx p; pk_size := pk_size p; pk_skip := skip; pk_flags := pk_flags p |} :: rest', dhere)
  end.

(* drop the has-next flag of the last record *)
Fixpoint clear_last_next (ps : list packet_rec) : list packet_rec :=
  match ps with
  | [] => []
  | [p] => [{| pk_rel := pk_rel p; pk_imp := pk_imp p; pk_idx := pk_idx p; pk_size := pk_size p; pk_skip := pk_skip p; pk_flags := pk_flags p - flagHasNext |}]
  | p :: r => p :: clear_last_next r
  end.

Definition dir_of_packet (ps : list ipacket) (pi : N) : bool :=
  match nthN ps pi with Some p => p_dir p | None => false end.

Fixpoint payload_of (ps : list ipacket) (want : bool) (d : list (N * bytes)) : bytes :=
  match d with
  | [] => []
  | (pi, b) :: r => if Bool.eqb (dir_of_packet ps pi) want then b ++ payload_of ps want r else payload_of ps want r
  end.

(* base-128 big-endian varint, continuation bit on all but the last byte (writer.go:384-395) *)
Fixpoint varint_aux (fuel : nat) (sz : N) (flag : N) (acc : bytes) : bytes :=
  let acc' := (sz mod 128 + flag) :: acc in
  match fuel with
  | O => acc'
  | S f => if sz / 128 =? 0 then acc' else varint_aux f (sz / 128) 128 acc'
  end.
Definition varint (sz : N) : bytes := varint_aux 9 sz 0 [].

(* maximal runs of data items of one direction: (direction, total size) *)
Fixpoint data_runs (ps : list ipacket) (d : list (N * bytes)) : list (bool * N) :=
  match d with
  | [] => []
  | (pi, b) :: r =>
    let dir := dir_of_packet ps pi in
    match data_runs ps r with
    | (dir2, sz) :: rs => if Bool.eqb dir dir2 then (dir, lenN b + sz) :: rs else (dir, lenN b) :: (dir2, sz) :: rs
    | [] => [(dir, lenN b)]
    end
  end.
Fixpoint segmentation (want : bool) (runs : list (bool * N)) : bytes :=
  match runs with
  | [] => []
  | (dir, sz) :: r =>
    if Bool.eqb dir want then varint sz ++ segmentation (negb want) r
    else 0 :: varint sz ++ segmentation want r
  end.

Definition proto_flags (f : N) : N := if (f / 2) mod 2 =? 0 then 1 else 2.   (* StreamFlagsProtocol = 2: TCP -> 1, UDP -> 2 *)

Definition rebase (diff : N) (s : stream_rec) : stream_rec :=
  {| st_id := st_id s; st_first := u64 (st_first s + diff); st_last := u64 (st_last s + diff); st_datastart := st_datastart s;
     st_cbytes := st_cbytes s; st_sbytes := st_sbytes s; st_pktstart := st_pktstart s; st_flags := st_flags s; st_hg := st_hg s;
     st_chost := st_chost s; st_shost := st_shost s; st_cport := st_cport s; st_sport := st_sport s |}.

(* the pieces of AddStream, named so that the proofs can speak about them *)
Definition first_ts (s : istream) : N := match s_packets s with [] => 0 | p0 :: _ => p_ts p0 end.
Definition last_ts (s : istream) : N := match s_packets s with [] => 0 | p0 :: _ => p_ts (last (s_packets s) p0) end.
(* writer.go:163-175: the reference second and the re-based stream records *)
Definition new_ref (w : writer) (sec0 : N) : N :=
  match w_packets w with
  | [] => sec0
  | _ => if sec0 <? w_ref w then sec0 else w_ref w
  end.
Definition rebased_streams (w : writer) (sec0 : N) : list stream_rec :=
  match w_packets w with
  | [] => w_streams w
  | _ => if sec0 <? w_ref w then map (rebase ((w_ref w - sec0) * NS)) (w_streams w) else w_streams w
  end.
Definition stream_imports (imps : list (bytes * N)) (s : istream) : list (bytes * N) :=
  fold_left (fun im p => fold_left add_import (p_srcs p) im) (s_packets s) imps.
Definition stream_block (imps : list (bytes * N)) (s : istream) : list packet_rec :=
  clear_last_next (fst (set_skips (stream_records imps (first_ts s) (s_data s) 0 (s_packets s)))).
Definition stream_payload (s : istream) (d : bool) : bytes := payload_of (s_packets s) d (s_data s).
Definition stream_seg (s : istream) : bytes := segmentation false (data_runs (s_packets s) (s_data s)).
Definition stream_bytes (s : istream) : bytes := stream_payload s false ++ stream_payload s true ++ stream_seg s.

Definition add_stream (gcap : N) (w : writer) (ids : N * istream) : option writer :=
  let '(id, s) := ids in
  match s_packets s with
  | [] => None                                      (* the code indexes s.Packets[0] *)
  | _ :: _ =>
    let ref := new_ref w (first_ts s / NS) in
    match place_hosts gcap (w_groups w) 0 (s_caddr s) (s_saddr s) with
    | None => None
    | Some (groups, gid, ci, si) =>
      let imps := stream_imports (w_imports w) s in
      match stream_block imps s with
      | [] => None                                  (* no packet has a source: the code corrupts the previous stream *)
      | recs =>
        let rec := {| st_id := id; st_first := u64 (first_ts s - ref * NS); st_last := u64 (last_ts s - ref * NS);
                      st_datastart := lenN (w_data w); st_cbytes := lenN (stream_payload s false); st_sbytes := lenN (stream_payload s true);
                      st_pktstart := u32 (lenN (w_packets w)); st_flags := proto_flags (s_flags s);
                      st_hg := gid; st_chost := ci; st_shost := si; st_cport := s_cport s; st_sport := s_sport s |} in
        Some {| w_ref := ref; w_groups := groups; w_imports := imps; w_packets := w_packets w ++ recs;
                w_streams := rebased_streams w (first_ts s / NS) ++ [rec]; w_data := w_data w ++ stream_bytes s |}
      end
    end
  end.

Fixpoint add_streams (gcap : N) (w : writer) (l : list (N * istream)) : option writer :=
  match l with
  | [] => Some w
  | x :: r => match add_stream gcap w x with Some w' => add_streams gcap w' r | None => None end
  end.

(* ------------------------------------------------------------------ *)
(* Finalize                                                            *)
(* ------------------------------------------------------------------ *)
(* sort.Slice on the lookup tables: stable merge sort on (name, number) keys *)
Definition skey := (bytes * N)%type.
Definition skey_leb (a b : skey) : bool :=
  if bytes_ltb (fst a) (fst b) then true else if bytes_ltb (fst b) (fst a) then false else snd a <=? snd b.
Module KeyedOrder <: TotalLeBool.
  Definition t := (skey * N)%type.
  Definition leb (a b : t) : bool := skey_leb (fst a) (fst b).
  Infix "<=?" := leb (at level 70, no associativity).
  Lemma bytes_ltb_total : forall a b, bytes_ltb a b = false -> bytes_ltb b a = false -> True.
  Proof. trivial. Qed.
  Theorem leb_total : forall a1 a2, leb a1 a2 = true \/ leb a2 a1 = true.
  Proof.
    intros [[n1 k1] i1] [[n2 k2] i2]; unfold leb, skey_leb; simpl.
    destruct (bytes_ltb n1 n2) eqn:E1; [now left|].
    destruct (bytes_ltb n2 n1) eqn:E2; [now right|].
    destruct (N.leb_spec k1 k2); [now left|right].
    apply N.leb_le. apply N.lt_le_incl; assumption.
  Qed.
End KeyedOrder.
Module KeySort := Sort KeyedOrder.

Fixpoint enumerate {A} (i : N) (l : list A) : list (A * N) :=
  match l with [] => [] | x :: r => (x, i) :: enumerate (N.succ i) r end.
Definition lookup_by (key : stream_rec -> skey) (ss : list stream_rec) : list N :=
  map snd (KeySort.sort (enumerate 0 (map key ss))).

(* first packet source of a stream record: (file name, PacketIndexOffset + PacketIndex) *)
Definition source_key (imps : list (bytes * N)) (pkts : list packet_rec) (s : stream_rec) : skey :=
  match nthN pkts (st_pktstart s) with
  | Some p => match nthN imps (pk_imp p) with
              | Some (n, o) => (n, o + pk_idx p)
              | None => ([], 0)
              end
  | None => ([], 0)
  end.

(* import file names: NUL terminated, each name once, in table order *)
Fixpoint name_offset (name : bytes) (seen : list (bytes * N)) : option N :=
  match seen with
  | [] => None
  | (n, o) :: r => if bytes_eqb n name then Some o else name_offset name r
  end.
Fixpoint import_section (imps : list (bytes * N)) (seen : list (bytes * N)) (blob : bytes) : list imp_entry * bytes :=
  match imps with
  | [] => ([], blob)
  | (n, o) :: r =>
    match name_offset n seen with
    | Some pos => let '(es, b) := import_section r seen blob in ({| ie_name := pos; ie_off := o |} :: es, b)
    | None => let pos := lenN blob in
              let '(es, b) := import_section r ((n, pos) :: seen) (blob ++ n ++ [0]) in
              ({| ie_name := pos; ie_off := o |} :: es, b)
    end
  end.

Fixpoint group_entries (gs : list hostgroup) (v4off v6off : N) : list hg_entry :=
  match gs with
  | [] => []
  | g :: r =>
    let n := lenN (hg_hosts g) in
    if hg_size g =? 16
    then {| he_start := u32 v6off; he_count := u16 (n - 1); he_flags := 1 |} :: group_entries r v4off (v6off + n)
    else {| he_start := u32 v4off; he_count := u16 (n - 1); he_flags := 0 |} :: group_entries r (v4off + n) v6off
  end.
Definition host_bytes (size : N) (gs : list hostgroup) : bytes :=
  concat (map (fun g => if hg_size g =? size then concat (hg_hosts g) else []) gs).

Definition finalize (w : writer) : file :=
  let '(imps, names) := import_section (w_imports w) [] [] in
  {| f_ref := w_ref w; f_data := w_data w; f_packets := w_packets w;
     f_v6 := host_bytes 16 (w_groups w); f_v4 := host_bytes 4 (w_groups w);
     f_groups := group_entries (w_groups w) 0 0; f_imports := imps; f_names := names;
     f_streams := w_streams w;
     f_by_id := lookup_by (fun s => ([], st_id s)) (w_streams w);
     f_by_src := lookup_by (source_key (w_imports w) (w_packets w)) (w_streams w);
     f_by_ftime := lookup_by (fun s => ([], st_first s)) (w_streams w);
     f_by_ltime := lookup_by (fun s => ([], st_last s)) (w_streams w) |}.

(* ------------------------------------------------------------------ *)
(* byte image: binary.Write little endian, sections padded to 8        *)
(* ------------------------------------------------------------------ *)
(* low byte / remaining bytes with bit operations (= v mod 256, v / 256: lemmas lo8_mod, hi8_div) *)
Definition lo8 (v : N) : N := N.land v 255.
Definition hi8 (v : N) : N := N.shiftr v 8.
Fixpoint le_enc (n : nat) (v : N) : bytes :=
  match n with O => [] | S k => lo8 v :: le_enc k (hi8 v) end.
Fixpoint le_dec (bs : bytes) : N :=
  match bs with [] => 0 | b :: r => b + 256 * le_dec r end.

Definition enc_packet (p : packet_rec) : bytes :=
  le_enc 4 (pk_rel p) ++ le_enc 4 (pk_imp p) ++ le_enc 4 (pk_idx p) ++ le_enc 2 (pk_size p) ++ le_enc 1 (pk_skip p) ++ le_enc 1 (pk_flags p).
Definition enc_stream (s : stream_rec) : bytes :=
  le_enc 8 (st_id s) ++ le_enc 8 (st_first s) ++ le_enc 8 (st_last s) ++ le_enc 8 (st_datastart s) ++ le_enc 8 (st_cbytes s)
  ++ le_enc 8 (st_sbytes s) ++ le_enc 4 (st_pktstart s) ++ le_enc 2 (st_flags s) ++ le_enc 2 (st_hg s)
  ++ le_enc 2 (st_chost s) ++ le_enc 2 (st_shost s) ++ le_enc 2 (st_cport s) ++ le_enc 2 (st_sport s).
Definition enc_group (g : hg_entry) : bytes := le_enc 4 (he_start g) ++ le_enc 2 (he_count g) ++ le_enc 2 (he_flags g).
Definition enc_import (e : imp_entry) : bytes := le_enc 8 (ie_name e) ++ le_enc 8 (ie_off e).
Definition enc_u32 (x : N) : bytes := le_enc 4 x.

(* field reader: value of the next n bytes, rest *)
Definition fld (n : nat) (bs : bytes) : N * bytes := (le_dec (firstn n bs), skipn n bs).
Definition dec_packet (bs : bytes) : packet_rec :=
  let '(a, bs) := fld 4 bs in let '(b, bs) := fld 4 bs in let '(c, bs) := fld 4 bs in
  let '(d, bs) := fld 2 bs in let '(e, bs) := fld 1 bs in let '(f, bs) := fld 1 bs in
  {| pk_rel := a; pk_imp := b; pk_idx := c; pk_size := d; pk_skip := e; pk_flags := f |}.
Definition dec_stream (bs : bytes) : stream_rec :=
  let '(a, bs) := fld 8 bs in let '(b, bs) := fld 8 bs in let '(c, bs) := fld 8 bs in let '(d, bs) := fld 8 bs in
  let '(e, bs) := fld 8 bs in let '(f, bs) := fld 8 bs in let '(g, bs) := fld 4 bs in let '(h, bs) := fld 2 bs in
  let '(i, bs) := fld 2 bs in let '(j, bs) := fld 2 bs in let '(k, bs) := fld 2 bs in let '(l, bs) := fld 2 bs in
  let '(m, bs) := fld 2 bs in
  {| st_id := a; st_first := b; st_last := c; st_datastart := d; st_cbytes := e; st_sbytes := f; st_pktstart := g;
     st_flags := h; st_hg := i; st_chost := j; st_shost := k; st_cport := l; st_sport := m |}.
Definition dec_group (bs : bytes) : hg_entry :=
  let '(a, bs) := fld 4 bs in let '(b, bs) := fld 2 bs in let '(c, bs) := fld 2 bs in
  {| he_start := a; he_count := b; he_flags := c |}.
Definition dec_import (bs : bytes) : imp_entry :=
  let '(a, bs) := fld 8 bs in let '(b, bs) := fld 8 bs in {| ie_name := a; ie_off := b |}.
Definition dec_u32 (bs : bytes) : N := le_dec (firstn 4 bs).

Definition enc_list {A} (enc : A -> bytes) (l : list A) : bytes := concat (map enc l).
(* objectCount = size / objectSize records are read (binary.Read into a slice of that length) *)
Fixpoint dec_list_aux {A} (fuel : nat) (size : nat) (dec : bytes -> A) (bs : bytes) : list A :=
  match fuel with
  | O => []
  | S f => dec (firstn size bs) :: dec_list_aux f size dec (skipn size bs)
  end.
Definition dec_list {A} (size : nat) (dec : bytes -> A) (bs : bytes) : list A :=
  dec_list_aux (Nat.div (length bs) size) size dec bs.

Definition magic : bytes := [112; 107; 97; 112; 112; 97; 50; 105; 110; 100; 101; 120; 0; 0; 0; 2].   (* "pkappa2index\0\0\0\2" *)
Definition header_size : N := 216.     (* 16 + 8 + 12 * 16 *)

(* w.pad(8) after every section; returns the (Begin, End) pairs in write order and the body *)
Fixpoint layout (pos : N) (secs : list bytes) : list (N * N) * bytes :=
  match secs with
  | [] => ([], [])
  | s :: r =>
    let e := pos + lenN s in
    let pad := (8 - e mod 8) mod 8 in
    let '(offs, img) := layout (e + pad) r in
    ((pos, e) :: offs, s ++ repeat 0 (N.to_nat pad) ++ img)
  end.

(* write order (Finalize): data, import names, imports, packets, v4, v6, host groups, streams, 4 lookups;
   header order (format.go): data, packets, v6, v4, host groups, imports, import names, streams, 4 lookups *)
Definition write_order (f : file) : list bytes :=
  [ f_data f; f_names f; enc_list enc_import (f_imports f); enc_list enc_packet (f_packets f); f_v4 f; f_v6 f;
    enc_list enc_group (f_groups f); enc_list enc_stream (f_streams f); enc_list enc_u32 (f_by_id f);
    enc_list enc_u32 (f_by_src f); enc_list enc_u32 (f_by_ftime f); enc_list enc_u32 (f_by_ltime f) ].
(* position in write order of header section i *)
Definition header_perm : list nat := [0; 3; 5; 4; 6; 2; 1; 7; 8; 9; 10; 11]%nat.

Definition enc_sec (be : N * N) : bytes := le_enc 8 (fst be) ++ le_enc 8 (snd be).
Definition dec_sec (bs : bytes) : N * N := let '(b, bs) := fld 8 bs in let '(e, _) := fld 8 bs in (b, e).

Definition encode_file (f : file) : bytes :=
  let '(offs, body) := layout header_size (write_order f) in
  magic ++ le_enc 8 (f_ref f) ++ enc_list enc_sec (map (fun k => nth k offs (0, 0)) header_perm) ++ body.

Definition header_sections (img : bytes) : list (N * N) := dec_list_aux 12 16 dec_sec (skipn 24 img).
Definition section_bytes (img : bytes) (i : nat) : bytes :=
  let '(b, e) := nth i (header_sections img) (0, 0) in sliceN b e img.

Definition decode_file (img : bytes) : option file :=
  if negb (bytes_eqb (firstn 16 img) magic) then None
  else Some {| f_ref := le_dec (firstn 8 (skipn 16 img));
               f_data := section_bytes img 0;
               f_packets := dec_list 16 dec_packet (section_bytes img 1);
               f_v6 := section_bytes img 2; f_v4 := section_bytes img 3;
               f_groups := dec_list 8 dec_group (section_bytes img 4);
               f_imports := dec_list 16 dec_import (section_bytes img 5);
               f_names := section_bytes img 6;
               f_streams := dec_list 64 dec_stream (section_bytes img 7);
               f_by_id := dec_list 4 dec_u32 (section_bytes img 8);
               f_by_src := dec_list 4 dec_u32 (section_bytes img 9);
               f_by_ftime := dec_list 4 dec_u32 (section_bytes img 10);
               f_by_ltime := dec_list 4 dec_u32 (section_bytes img 11) |}.

(* ------------------------------------------------------------------ *)
(* NewReader                                                           *)
(* ------------------------------------------------------------------ *)
Record reader := { r_file : file;
                   r_imports : list (bytes * N);          (* (filename, packetIndexOffset) *)
                   r_groups : list (N * list bytes);      (* (hostSize, hosts) *)
                   r_ids : list (N * N);                  (* containedStreamIds, newest binding first *)
                   r_min : N; r_max : N }.

Fixpoint until_nul (bs : bytes) : bytes :=
  match bs with [] => [] | b :: r => if b =? 0 then [] else b :: until_nul r end.

Fixpoint chunk_hosts (fuel : nat) (size : N) (bs : bytes) : list bytes :=
  match fuel with
  | O => []
  | S f => takeN size bs :: chunk_hosts f size (skipN size bs)
  end.

(* reader.go:206-224. [start_is_bytes] = the unpatched reader (Start used as a byte offset). *)
Definition decode_group (start_is_bytes : bool) (v4 v6 : bytes) (e : hg_entry) : N * list bytes :=
  let '(hosts, size) := if he_flags e mod 2 =? 0 then (v4, 4) else (v6, 16) in
  let count := he_count e + 1 in
  let off := if start_is_bytes then he_start e else he_start e * size in
  (size, chunk_hosts (N.to_nat count) size (takeN (size * count) (skipN off hosts))).

Fixpoint id_map (ss : list stream_rec) (i : N) (acc : list (N * N)) : list (N * N) :=
  match ss with [] => acc | s :: r => id_map r (N.succ i) ((st_id s, i) :: acc) end.
Fixpoint assoc (k : N) (l : list (N * N)) : option N :=
  match l with [] => None | (a, b) :: r => if a =? k then Some b else assoc k r end.

Definition new_reader_gen (start_is_bytes : bool) (f : file) : option reader :=
  match f_streams f with
  | [] => None                     (* minStream: readLookup(.., 0) fails with EOF *)
  | s0 :: _ =>
    Some {| r_file := f;
            r_imports := map (fun e => (until_nul (skipN (ie_name e) (f_names f)), ie_off e)) (f_imports f);
            r_groups := map (decode_group start_is_bytes (f_v4 f) (f_v6 f)) (f_groups f);
            r_ids := id_map (f_streams f) 0 [];
            r_min := fold_left N.min (map st_id (f_streams f)) (P64 - 1);
            r_max := fold_left N.max (map st_id (f_streams f)) 0 |}
  end.
Definition new_reader := new_reader_gen false.

(* Finalize() returns NewReader(filename): through the byte image *)
Definition finalize_reader (w : writer) : option reader :=
  match decode_file (encode_file (finalize w)) with
  | Some f => new_reader f
  | None => None
  end.

Definition stream_by_index (r : reader) (i : N) : option stream_rec := nthN (f_streams (r_file r)) i.

Definition stream_by_id (r : reader) (id : N) : option (stream_rec * N) :=
  if (id <? r_min r) || (r_max r <? id) then None
  else match assoc id (r_ids r) with
       | Some i => match stream_by_index r i with Some s => Some (s, i) | None => None end
       | None => None
       end.

(* sort.Search(n, f): smallest i in [0,n] with f i (f monotone) *)
Fixpoint bsearch (fuel : nat) (f : N -> bool) (i j : N) : N :=
  match fuel with
  | O => i
  | S k => if i <? j then let h := (i + j) / 2 in if f h then bsearch k f i h else bsearch k f (h + 1) j else i
  end.

Definition first_source (r : reader) (s : stream_rec) : skey :=
  source_key (r_imports r) (f_packets (r_file r)) s.

Definition stream_by_source (r : reader) (name : bytes) (idx : N) : option (stream_rec * N) :=
  let f := r_file r in
  let n := lenN (f_streams f) in
  let pred (i : N) : bool :=
      match nthN (f_by_src f) i with
      | Some si => match stream_by_index r si with
                   | Some s => let '(fn, k) := first_source r s in
                               if negb (bytes_eqb fn name) then bytes_leb name fn else idx <=? k
                   | None => false
                   end
      | None => false
      end in
  let i := bsearch (S (N.to_nat n)) pred 0 n in
  if n <=? i then None
  else match nthN (f_by_src f) i with
       | Some si => match stream_by_index r si with
                    | Some s => let '(fn, k) := first_source r s in
                                if bytes_eqb fn name && (k =? idx) then Some (s, si) else None
                    | None => None
                    end
       | None => None
       end.

Definition host_of (r : reader) (g h : N) : bytes :=
  match nthN (r_groups r) g with
  | Some (_, hosts) => match nthN hosts h with Some x => x | None => [] end
  | None => []
  end.
Definition client_host (r : reader) (s : stream_rec) : bytes := host_of r (st_hg s) (st_chost s).
Definition server_host (r : reader) (s : stream_rec) : bytes := host_of r (st_hg s) (st_shost s).
Definition first_packet_time (r : reader) (s : stream_rec) : N := f_ref (r_file r) * NS + st_first s.
Definition last_packet_time (r : reader) (s : stream_rec) : N := f_ref (r_file r) * NS + st_last s.

(* ------------------------------------------------------------------ *)
(* Stream.Packets                                                      *)
(* ------------------------------------------------------------------ *)
Record opacket := { o_name : bytes; o_index : N; o_dir : bool; o_ts : N }.
Definition WRAP_NS : N := P32 * 1000.      (* time.Microsecond << 32 *)

Fixpoint packets_scan (imps : list (bytes * N)) (ps : list packet_rec) (last : option (N * N)) (reft lastrel : N) : option (list opacket) :=
  match ps with
  | [] => None                                   (* read past the section: error *)
  | p :: rest =>
    let same := match last with Some (i, k) => (i =? pk_imp p) && (k =? pk_idx p) | None => false end in
    let reft' := if same then reft else if pk_rel p <? lastrel then reft + WRAP_NS else reft in
    let lastrel' := if same then lastrel else pk_rel p in
    let here := if same then [] else
                  match nthN imps (pk_imp p) with
                  | Some (n, o) => [{| o_name := n; o_index := o + pk_idx p; o_dir := negb ((pk_flags p / 2) mod 2 =? 0); o_ts := reft' + pk_rel p * 1000 |}]
                  | None => []              (* index out of range: panic in the code *)
                  end in
    if pk_flags p mod 2 =? 0 then Some here
    else match packets_scan imps rest (Some (pk_imp p, pk_idx p)) reft' lastrel' with
         | Some l => Some (here ++ l)
         | None => None
         end
  end.
Definition packets (r : reader) (s : stream_rec) : option (list opacket) :=
  packets_scan (r_imports r) (skipN (st_pktstart s) (f_packets (r_file r))) None (first_packet_time r s) 0.

(* ------------------------------------------------------------------ *)
(* Stream.Data                                                         *)
(* ------------------------------------------------------------------ *)
Record chunk := { c_dir : bool; c_bytes : bytes; c_ts : N }.
Definition SPLIT_NS : N := 50000000.          (* ChunkSplitThreshold *)

(* reader.go:501-505: a data record joins the newest group of its direction when the previous data record had
   the same direction and is less than 50 ms older; else it opens a group *)
Definition merge_into (prev : option (bool * N)) (dir : bool) (ts sz : N) (l : list (N * N)) : list (N * N) :=
  match l, prev with
  | (t, z) :: r, Some (pd, pt) => if Bool.eqb pd dir && (ts - pt <? SPLIT_NS) then (t, z + sz) :: r else (ts, sz) :: l
  | _, _ => (ts, sz) :: l
  end.

(* first loop of Data(): per direction the list of (time, size) groups, newest first.
   prev = (direction, time) of the previous record with data *)
Fixpoint data_scan (fuel : nat) (ps : list packet_rec) (expect reft lastrel : N) (prev : option (bool * N))
         (ptc pts : list (N * N)) : option (list (N * N) * list (N * N)) :=
  match fuel with
  | O => None
  | S fu =>
    match ps with
    | [] => None                                 (* binary.Read: EOF *)
    | p :: rest =>
      let wrapped := negb (expect =? 0) && (pk_rel p <? lastrel) in
      let reft' := if wrapped then reft + WRAP_NS else reft in
      let expect' := if wrapped then expect - 1 else expect in
      let lastrel' := if expect =? 0 then lastrel else pk_rel p in
      let dir := negb ((pk_flags p / 2) mod 2 =? 0) in
      let ts := reft' + pk_rel p * 1000 in
      let '(ptc', pts', prev') :=
          if pk_size p =? 0 then (ptc, pts, prev)
          else if dir then (ptc, merge_into prev dir ts (pk_size p) pts, Some (dir, ts))
               else (merge_into prev dir ts (pk_size p) ptc, pts, Some (dir, ts)) in
      if pk_flags p mod 2 =? 0 then Some (rev ptc', rev pts')
      else let rest' := if negb (pk_skip p =? 0) && (expect' =? 0) then skipN (pk_skip p) rest else rest in
           data_scan fu rest' expect' reft' lastrel' prev' ptc' pts'
    end
  end.

(* varint reader: value, rest; None on EOF *)
Fixpoint read_varint (bs : bytes) (acc : N) : option (N * bytes) :=
  match bs with
  | [] => None
  | b :: r => let acc' := u64 (acc * 128) + b mod 128 in if b <? 128 then Some (acc', r) else read_varint r acc'
  end.

(* inner loop of the replay (reader.go:552-576): cut sz bytes along the time groups *)
Fixpoint emit (fuel : nat) (dir : bool) (content : bytes) (sz : N) (pt : list (N * N)) : option (list chunk * bytes * list (N * N)) :=
  match fuel with
  | O => None
  | S fu =>
    match pt with
    | [] => None                                 (* packetTimes[dir][0]: index out of range *)
    | (t, z) :: r =>
      let cur := N.min sz z in
      let ck := {| c_dir := dir; c_bytes := takeN cur content; c_ts := t |} in
      let content' := skipN cur content in
      if sz - cur =? 0 then Some ([ck], content', if z - cur =? 0 then r else (t, z - cur) :: r)
      else match emit fu dir content' (sz - cur) (if z - cur =? 0 then r else (t, z - cur) :: r) with
           | Some (cs, c', pt') => Some (ck :: cs, c', pt')
           | None => None
           end
    end
  end.

Fixpoint replay (fuel : nat) (dir : bool) (seg : bytes) (cc cs : bytes) (ptc pts : list (N * N)) : option (list chunk) :=
  match fuel with
  | O => None
  | S fu =>
    match cc, cs with
    | [], [] => Some []
    | _, _ =>
      match read_varint seg 0 with
      | None => None
      | Some (sz, seg') =>
        if sz =? 0 then replay fu (negb dir) seg' cc cs ptc pts
        else if dir
             then match emit (S (length pts)) dir cs sz pts with
                  | Some (ch, cs', pts') => match replay fu (negb dir) seg' cc cs' ptc pts' with Some l => Some (ch ++ l) | None => None end
                  | None => None
                  end
             else match emit (S (length ptc)) dir cc sz ptc with
                  | Some (ch, cc', ptc') => match replay fu (negb dir) seg' cc' cs ptc' pts with Some l => Some (ch ++ l) | None => None end
                  | None => None
                  end
      end
    end
  end.

(* reader.go:481: uint64 subtraction LastPacketTimeNS - FirstPacketTimeNS, + 1us, / (1us << 32) *)
Definition expect_wraps (s : stream_rec) : N := (u64 (st_last s + P64 - st_first s) + 1000) / WRAP_NS.

Definition data (r : reader) (s : stream_rec) : option (list chunk) :=
  let f := r_file r in
  let ps := skipN (st_pktstart s) (f_packets f) in
  match data_scan (S (length ps)) ps (expect_wraps s) (first_packet_time r s) 0 None [] [] with
  | None => None
  | Some (ptc, pts) =>
    let d := skipN (st_datastart s) (f_data f) in
    let cc := takeN (st_cbytes s) d in
    let d1 := skipN (st_cbytes s) d in
    let cs := takeN (st_sbytes s) d1 in
    let seg := skipN (st_sbytes s) d1 in
    if negb (lenN cc =? st_cbytes s) || negb (lenN cs =? st_sbytes s) then None      (* binary.Read: unexpected EOF *)
    else replay (S (length seg)) false seg cc cs ptc pts
  end.

(* everything the property observes of one stored stream *)
Record obs := { ob_id : N; ob_chost : bytes; ob_cport : N; ob_shost : bytes; ob_sport : N; ob_proto : N;
                ob_first : N; ob_last : N; ob_cbytes : N; ob_sbytes : N;
                ob_packets : option (list opacket); ob_data : option (list chunk) }.
Definition observe (r : reader) (s : stream_rec) : obs :=
  {| ob_id := st_id s; ob_chost := client_host r s; ob_cport := st_cport s; ob_shost := server_host r s; ob_sport := st_sport s;
     ob_proto := st_flags s mod 4; ob_first := first_packet_time r s; ob_last := last_packet_time r s;
     ob_cbytes := st_cbytes s; ob_sbytes := st_sbytes s; ob_packets := packets r s; ob_data := data r s |}.
Definition all_streams (r : reader) : list stream_rec := f_streams (r_file r).
