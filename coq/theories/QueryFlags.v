(* QueryFlags.v -- soundness of clean_flag and of FlagCondition.invert (masks inside the protocol bits). *)
From Coq Require Import List NArith ZArith Bool Lia Permutation.
From Pk Require Import Query QuerySort QueryClean.
Import ListNotations.
Open Scope N_scope.

Definition flag_wf (c : flagc) : Prop := f_mask c <= 3 /\ N.land (f_val c) (f_mask c) = f_val c.

Lemma land_lxor_distr a b m : N.land (N.lxor a b) m = N.lxor (N.land a m) (N.land b m).
Proof.
  apply N.bits_inj. intros n. rewrite !N.land_spec, !N.lxor_spec, !N.land_spec.
  destruct (N.testbit a n), (N.testbit b n), (N.testbit m n); reflexivity.
Qed.

Lemma land_le_r a m : N.land a m <= m.
Proof.
  apply N.ldiff_le. apply N.bits_inj. intros k. rewrite N.ldiff_spec, N.land_spec, N.bits_0.
  destruct (N.testbit a k), (N.testbit m k); reflexivity.
Qed.

Lemma N4_cases x : x < 4 -> x = 0 \/ x = 1 \/ x = 2 \/ x = 3.
Proof. lia. Qed.

Lemma land3_lt x : N.land x 3 < 4.
Proof. change 3 with (N.ones 2). rewrite N.land_ones. apply N.mod_lt. discriminate. Qed.

Lemma land_mask3 x m : m <= 3 -> N.land x m = N.land (N.land x 3) m.
Proof.
  intros H. rewrite <- N.land_assoc. f_equal.
  assert (m = 0 \/ m = 1 \/ m = 2 \/ m = 3) as [ -> | [ -> | [ -> | -> ] ] ] by lia; reflexivity.
Qed.

(* the value of the xor of the streams' flags, restricted to the modelled bits *)
Definition fx (v : valuation) (subs : list N) : N := N.land (flags_xor v subs) 3.

Lemma eval_flag_forb v c : flag_wf c -> eval_flag v c = negb (forb_of c (fx v (f_subs c))).
Proof.
  intros [Hm Hv]. unfold eval_flag, forb_of, fx. f_equal.
  rewrite land_lxor_distr, Hv, (land_mask3 _ _ Hm).
  set (x := N.land (flags_xor v (f_subs c)) 3).
  assert (Hx : x < 4) by apply land3_lt.
  assert (Hval : f_val c <= 3) by (rewrite <- Hv; etransitivity; [apply land_le_r|exact Hm]).
  destruct (N4_cases x Hx) as [ -> | [ -> | [ -> | -> ] ] ];
    assert (f_mask c = 0 \/ f_mask c = 1 \/ f_mask c = 2 \/ f_mask c = 3) as [ -> | [ -> | [ -> | -> ] ] ] by lia;
    assert (f_val c = 0 \/ f_val c = 1 \/ f_val c = 2 \/ f_val c = 3) as [ E | [ E | [ E | E ] ] ] by lia;
    rewrite E in *; try reflexivity; try discriminate.
Qed.

(* ---- xor of flags: order and cancelling *)
Definition fxr (v : valuation) (subs : list N) : N := fold_right (fun s acc => N.lxor (s_flags (v_str v s)) acc) 0 subs.

Lemma flags_fold v l a :
  fold_left (fun x s => N.lxor x (s_flags (v_str v s))) l a = N.lxor a (fxr v l).
Proof.
  revert a; induction l as [|s l IH]; intros a; simpl; [rewrite N.lxor_0_r; auto|].
  rewrite IH, N.lxor_assoc. reflexivity.
Qed.
Lemma flags_xor_fxr v l : flags_xor v l = fxr v l.
Proof. unfold flags_xor. rewrite flags_fold. apply N.lxor_0_l. Qed.

Lemma fxr_perm v l l' : Permutation l l' -> fxr v l = fxr v l'.
Proof.
  induction 1; simpl; auto; try congruence.
  rewrite <- !N.lxor_assoc. f_equal. apply N.lxor_comm.
Qed.

Lemma subs_cancel_cons2 a b r :
  subs_cancel (a :: b :: r) = if N.eqb a b then subs_cancel r else a :: subs_cancel (b :: r).
Proof. reflexivity. Qed.

Lemma fxr_cancel v : forall n l, (length l <= n)%nat -> fxr v (subs_cancel l) = fxr v l.
Proof.
  induction n as [|n IH]; intros l Hl.
  - destruct l; [reflexivity|simpl in Hl; lia].
  - destruct l as [|a [|b r]]; try reflexivity.
    rewrite subs_cancel_cons2. destruct (N.eqb_spec a b) as [->|Hne].
    + rewrite IH by (simpl in *; lia).
      change (fxr v (b :: b :: r)) with (N.lxor (s_flags (v_str v b)) (N.lxor (s_flags (v_str v b)) (fxr v r))).
      rewrite <- N.lxor_assoc, N.lxor_nilpotent. symmetry. apply N.lxor_0_l.
    + change (fxr v (a :: subs_cancel (b :: r))) with (N.lxor (s_flags (v_str v a)) (fxr v (subs_cancel (b :: r)))).
      change (fxr v (a :: b :: r)) with (N.lxor (s_flags (v_str v a)) (fxr v (b :: r))).
      f_equal. apply (IH (b :: r)). simpl in *; lia.
Qed.

Lemma fx_norm v l : fx v (subs_cancel (nsort l)) = fx v l.
Proof.
  unfold fx. rewrite !flags_xor_fxr. f_equal.
  rewrite (fxr_cancel v (length (nsort l))) by lia.
  apply fxr_perm. apply isort_perm.
Qed.

(* ---- the tables *)
Definition infos_ok (v : valuation) (m : list finfo) : bool :=
  forallb (fun d => negb (fi_forb d (fx v (fi_subs d)))) m.

Lemma N_list_eqb_eq a b : list_eqb N.eqb a b = true -> a = b.
Proof. apply list_eqb_eq. intros x y. apply N.eqb_eq. Qed.

Lemma info_ins_ok v subs f m :
  infos_ok v (info_ins subs f m) = negb (f (fx v subs)) && infos_ok v m.
Proof.
  induction m as [|d r IH]; cbn [info_ins infos_ok forallb].
  - cbn. rewrite andb_true_r. reflexivity.
  - destruct (list_eqb N.eqb subs (fi_subs d)) eqn:E.
    + apply N_list_eqb_eq in E. subst. cbn [forallb fi_forb fi_subs].
      fold (infos_ok v r). destruct (fi_forb d _), (f _); reflexivity.
    + cbn [forallb]. fold (infos_ok v r) (infos_ok v (info_ins subs f r)). rewrite IH.
      destruct (fi_forb d _), (f _); reflexivity.
Qed.

Lemma eval_flag_subs v c subs' :
  flag_wf c -> fx v subs' = fx v (f_subs c) -> eval_flag v c = negb (forb_of c (fx v subs')).
Proof. intros Hw E. rewrite eval_flag_forb by auto. rewrite E. reflexivity. Qed.

Lemma flag_collect_sound v l : forall m,
  Forall flag_wf l ->
  match flag_collect l m with
  | Some m' => infos_ok v m' = forallb (eval_flag v) l && infos_ok v m
  | None => forallb (eval_flag v) l = false
  end.
Proof.
  induction l as [|c r IH]; intros m Hw; cbn [flag_collect forallb]; [reflexivity|].
  inversion Hw as [|? ? Hc Hr]; subst.
  pose proof (fx_norm v (f_subs c)) as Hx.
  destruct (subs_cancel (nsort (f_subs c))) as [|s0 ss] eqn:Es.
  - (* all sub-queries cancel: the condition compares the constant with 0 *)
    assert (Hev : eval_flag v c = negb (N.eqb (N.land (f_val c) (f_mask c)) 0)).
    { rewrite (eval_flag_subs v c [] Hc Hx). unfold forb_of. destruct Hc as [_ Hv]. rewrite Hv.
      change (fx v []) with 0. rewrite N.land_0_l, N.eqb_sym. reflexivity. }
    rewrite Hev. destruct (N.eqb _ 0); [reflexivity|]. cbn [negb andb]. apply IH; auto.
  - specialize (IH (info_ins (s0 :: ss) (forb_of c) m) Hr).
    destruct (flag_collect r _); [|rewrite IH; apply andb_false_r].
    rewrite IH, info_ins_ok, (eval_flag_subs v c (s0 :: ss) Hc Hx).
    destruct (forb_of c _), (forallb _ r), (infos_ok v m); reflexivity.
Qed.

(* one group: the emitted conditions say exactly "the value is not forbidden" *)
Definition tab (b0 b1 b2 b3 : bool) (x : N) : bool :=
  match x with 0 => b0 | 1 => b1 | 2 => b2 | _ => b3 end.
Definition ftab (f : N -> bool) : N -> bool := tab (f 0) (f 1) (f 2) (f 3).

Lemma ftab_agree f x : x < 4 -> ftab f x = f x.
Proof. intros H. destruct (N4_cases x H) as [ -> | [ -> | [ -> | -> ] ] ]; reflexivity. Qed.

Lemma bit_relevant_ext f g m : (m = 1 \/ m = 2) -> (forall x, x < 4 -> f x = g x) -> bit_relevant f m = bit_relevant g m.
Proof.
  intros Hm H. unfold bit_relevant, proto_vals.
  destruct Hm as [->| ->]; cbn; rewrite ?(H 0), ?(H 1), ?(H 2), ?(H 3) by lia; reflexivity.
Qed.
Lemma info_mask_ext f g : (forall x, x < 4 -> f x = g x) -> info_mask f = info_mask g.
Proof. intros H. unfold info_mask. rewrite (bit_relevant_ext f g 1), (bit_relevant_ext f g 2); auto. Qed.

Lemma submasks_lt m u : In u (submasks m) -> u < 4 /\ N.land u m = u.
Proof.
  unfold submasks, proto_vals. intros H. apply filter_In in H as [H1 H2]. apply N.eqb_eq in H2. split; auto.
  cbn in H1. lia.
Qed.

Lemma filter_ext_in' {A} (f g : A -> bool) l : (forall x, In x l -> f x = g x) -> filter f l = filter g l.
Proof.
  induction l as [|a l IH]; intros H; simpl; auto.
  rewrite (H a) by (left; auto). rewrite IH by (intros; apply H; right; auto). reflexivity.
Qed.
Lemma forallb_ext_in' {A} (f g : A -> bool) l : (forall x, In x l -> f x = g x) -> forallb f l = forallb g l.
Proof.
  induction l as [|a l IH]; intros H; simpl; auto.
  rewrite (H a) by (left; auto). rewrite IH by (intros; apply H; right; auto). reflexivity.
Qed.

Definition chk (b0 b1 b2 b3 : bool) (x : N) : bool :=
  let f := tab b0 b1 b2 b3 in
  let mask := info_mask f in
  if N.eqb mask 0 then Bool.eqb (f x) (f 0)
  else Bool.eqb (forallb (fun u => negb (N.eqb (N.land x mask) u)) (filter f (submasks mask))) (negb (f x)).

Lemma chk_all b0 b1 b2 b3 x : x < 4 -> chk b0 b1 b2 b3 x = true.
Proof.
  intros H. destruct (N4_cases x H) as [ -> | [ -> | [ -> | -> ] ] ]; destruct b0, b1, b2, b3; vm_compute; reflexivity.
Qed.

Lemma info_mask_le f : info_mask f <= 3.
Proof. unfold info_mask. destruct (bit_relevant f 1), (bit_relevant f 2); cbn; lia. Qed.

Lemma emit_group v subs (f : N -> bool) :
  let x := fx v subs in
  let mask := info_mask f in
  (mask = 0 -> f x = f 0) /\
  (mask <> 0 ->
   forallb (eval_flag v) (map (fun u => mkFlag subs u mask) (filter f (submasks mask))) = negb (f x)) /\
  Forall flag_wf (map (fun u => mkFlag subs u mask) (filter f (submasks mask))).
Proof.
  intros x mask.
  assert (Hx : x < 4) by apply land3_lt.
  assert (Hm : mask <= 3) by apply info_mask_le.
  assert (Hext : forall y, y < 4 -> f y = ftab f y) by (intros; symmetry; apply ftab_agree; auto).
  assert (Hmask : mask = info_mask (ftab f)) by (apply info_mask_ext; auto).
  assert (Hfil : filter f (submasks mask) = filter (ftab f) (submasks mask)).
  { apply filter_ext_in'. intros u Hu. apply Hext. apply (submasks_lt _ _ Hu). }
  pose proof (chk_all (f 0) (f 1) (f 2) (f 3) x Hx) as Hc. unfold chk in Hc.
  fold (ftab f) in Hc. rewrite <- Hmask in Hc.
  repeat split.
  - intros E. rewrite E in Hc. cbn in Hc. apply eqb_prop in Hc. rewrite !ftab_agree in Hc by lia. exact Hc.
  - intros E. destruct (N.eqb_spec mask 0) as [|_]; [contradiction|].
    apply eqb_prop in Hc. rewrite ftab_agree in Hc by lia. rewrite <- Hc, <- Hfil.
    rewrite forallb_map'. apply forallb_ext_in'. intros u Hu. apply filter_In in Hu as [Hu _].
    destruct (submasks_lt _ _ Hu) as [_ Hl].
    rewrite eval_flag_forb by (split; auto). reflexivity.
  - apply Forall_map. apply Forall_forall. intros u Hu. apply filter_In in Hu as [Hu _].
    destruct (submasks_lt _ _ Hu) as [_ Hl]. split; auto.
Qed.


Lemma flag_emit_sound v m :
  match flag_emit m with
  | Some out => forallb (eval_flag v) out = infos_ok v m /\ Forall flag_wf out
  | None => infos_ok v m = false
  end.
Proof.
  induction m as [|d r IH]; cbn [flag_emit infos_ok forallb]; [split; [reflexivity|constructor]|].
  fold (infos_ok v r).
  destruct (emit_group v (fi_subs d) (fi_forb d)) as (H0 & H1 & Hw).
  destruct (N.eqb_spec (info_mask (fi_forb d)) 0) as [E|E].
  - rewrite (H0 E). destruct (fi_forb d 0); [reflexivity|]. cbn [negb andb]. exact IH.
  - destruct (flag_emit r) as [out|].
    + destruct IH as [IH1 IH2]. split.
      * rewrite forallb_app, (H1 E), IH1. reflexivity.
      * apply Forall_app; split; auto.
    + rewrite IH. apply andb_false_r.
Qed.

Theorem clean_flag_sound v l : Forall flag_wf l -> sound_clean (eval_flag v) l (clean_flag l).
Proof.
  intros Hw. unfold clean_flag, sound_clean. destruct l as [|c0 l0] eqn:El; [reflexivity|]. rewrite <- El in *.
  pose proof (flag_collect_sound v l [] Hw) as Hc.
  destruct (flag_collect l []) as [m|]; [|exact Hc].
  pose proof (flag_emit_sound v m) as He.
  destruct (flag_emit m) as [out|].
  - destruct He as [He _]. rewrite isort_forallb, He, Hc. cbn. rewrite andb_true_r. reflexivity.
  - rewrite He in Hc. cbn in Hc. rewrite andb_true_r in Hc. auto.
Qed.

Lemma clean_flag_wf l out : clean_flag l = Some out -> Forall flag_wf out.
Proof.
  unfold clean_flag. destruct l as [|c0 l0]; [intros H; inversion H; constructor|].
  destruct (flag_collect _ _) as [m|]; [|discriminate].
  pose proof (flag_emit_sound (mkVal (fun _ => mkStream (fun _ => 0%Z) 0%Z 0%Z 0 [] [] (fun _ => 1)) (fun _ _ => None) 0) m) as He.
  destruct (flag_emit m) as [o|]; [|discriminate]. intros H; inversion H; subst.
  apply isort_Forall. apply He.
Qed.

(* ---- FlagCondition.invert *)
Lemma flag_invert_sound v c : flag_wf c -> eval_conj v (flag_invert c) = negb (eval_flag v c).
Proof.
  destruct c as [csubs cval cmask]. intros [Hm Hv]. cbn [f_subs f_val f_mask] in *.
  assert (Hev : forall u, N.land u cmask = u ->
                eval_flag v (mkFlag csubs u cmask) = negb (N.eqb (N.land (fx v csubs) cmask) u)).
  { intros u Hu. rewrite eval_flag_forb by (split; auto). reflexivity. }
  rewrite (Hev _ Hv), negb_involutive.
  unfold flag_invert, eval_conj. cbn [f_subs f_val f_mask]. rewrite Hv, forallb_map'.
  set (x := fx v csubs) in *. assert (Hx : x < 4) by apply land3_lt.
  assert (Hval : cval <= 3) by (rewrite <- Hv; etransitivity; [apply land_le_r|exact Hm]).
  assert (Hin : forall u, In u (submasks cmask) -> N.land u cmask = u) by (intros u Hu; apply (submasks_lt _ _ Hu)).
  transitivity (forallb (fun u => negb (N.eqb (N.land x cmask) u))
                  (filter (fun y => y <? cval) (submasks cmask) ++ filter (fun y => cval <? y) (submasks cmask))).
  { apply forallb_ext_in'. intros u Hu. cbn [eval_cond]. apply Hev. apply Hin.
    apply in_app_or in Hu as [Hu|Hu]; apply filter_In in Hu as [Hu _]; exact Hu. }
  clear Hev Hin. unfold submasks, proto_vals.
  assert (cmask = 0 \/ cmask = 1 \/ cmask = 2 \/ cmask = 3) as [ Em | [ Em | [ Em | Em ] ] ] by lia;
    assert (cval = 0 \/ cval = 1 \/ cval = 2 \/ cval = 3) as [ E | [ E | [ E | E ] ] ] by lia;
    subst cmask cval; try discriminate Hv;
    destruct (N4_cases x Hx) as [ Ex | [ Ex | [ Ex | Ex ] ] ]; rewrite Ex; reflexivity.
Qed.

Lemma flag_invert_wf c : flag_wf c -> Forall (fun x => match x with CFlag y => flag_wf y | _ => True end) (flag_invert c).
Proof.
  intros [Hm Hv]. unfold flag_invert. apply Forall_map. apply Forall_forall. intros u Hu.
  split; [exact Hm|]. cbn.
  apply in_app_or in Hu. unfold submasks in Hu.
  destruct Hu as [Hu|Hu]; apply filter_In in Hu as [Hu _]; apply filter_In in Hu as [_ Hu]; apply N.eqb_eq in Hu; auto.
Qed.
