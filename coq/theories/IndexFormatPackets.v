(* C01, theorem 2: Stream.Packets() returns the stored source-packet references.
   - the import-name section round trip (NUL terminated names, each once);
   - the packet scan over the records AddStream wrote for one stream: one reference per (packet, source),
     split records merged, direction, and the timestamp re-assembled from the uint32 microsecond offsets
     with wrap detection. *)
From Coq Require Import Lia ZifyBool ZifyN ZifyNat Arith.
From Pk Require Import IndexFormat IndexFormatCodec IndexFormatHosts IndexFormatWriter IndexFormatData.
Open Scope N_scope.

(* ------------------------------------------------------------------ *)
(* import names                                                        *)
(* ------------------------------------------------------------------ *)
Definition no_nul (n : bytes) : Prop := Forall (fun b => b <> 0) n.

Lemma until_nul_name n rest : no_nul n -> until_nul (n ++ 0 :: rest) = n.
Proof.
  induction 1 as [|b r Hb Hr IH]; cbn [app until_nul]; [reflexivity|].
  destruct (N.eqb_spec b 0); [contradiction|]. now rewrite IH.
Qed.

Lemma name_offset_in n seen o : name_offset n seen = Some o -> In (n, o) seen.
Proof.
  induction seen as [|[n' o'] r IH]; cbn [name_offset]; [discriminate|].
  destruct (bytes_eqb n' n) eqn:E.
  - intros H. inversion H; subst. apply bytes_eqb_eq in E. subst. now left.
  - intros H. right. now apply IH.
Qed.

(* every remembered name sits NUL-terminated at its offset of the blob *)
Definition seen_ok (seen : list (bytes * N)) (blob : bytes) : Prop :=
  forall n o, In (n, o) seen -> exists rest, skipN o blob = n ++ 0 :: rest.

Lemma seen_ok_app seen blob ext : seen_ok seen blob -> seen_ok seen (blob ++ ext).
Proof.
  intros H n o Hin. destruct (H n o Hin) as (rest & Hr). exists (rest ++ ext).
  rewrite skipN_skipn in *. assert (Hle : (N.to_nat o <= length blob)%nat).
  { destruct (Nat.le_gt_cases (N.to_nat o) (length blob)); [assumption|].
    rewrite skipn_all2 in Hr by lia. destruct n; discriminate. }
  rewrite skipn_app. replace (N.to_nat o - length blob)%nat with 0%nat by lia. rewrite skipn_O, Hr.
  now rewrite <- app_assoc.
Qed.

Lemma import_section_names imps : forall seen blob es names,
    Forall (fun i => no_nul (fst i)) imps -> seen_ok seen blob ->
    import_section imps seen blob = (es, names) ->
    (exists ext, names = blob ++ ext) /\
    map (fun e => (until_nul (skipN (ie_name e) names), ie_off e)) es = imps.
Proof.
  induction imps as [|[n o] r IH]; intros seen blob es names Hn Hs H; cbn [import_section] in H.
  - inversion H; subst. split; [exists []; now rewrite app_nil_r|reflexivity].
  - inversion Hn as [|? ? Hn0 Hnr]; subst. cbn [fst] in Hn0.
    destruct (name_offset n seen) as [pos|] eqn:En.
    + destruct (import_section r seen blob) as [es' b'] eqn:E. inversion H; subst; clear H.
      destruct (IH _ _ _ _ Hnr Hs E) as ((ext & Hext) & Hm). split; [eauto|].
      cbn [map ie_name ie_off]. f_equal; [|assumption].
      apply name_offset_in in En. destruct (seen_ok_app _ _ ext Hs _ _ En) as (rest & Hr).
      rewrite Hext, Hr. now rewrite until_nul_name.
    + destruct (import_section r ((n, lenN blob) :: seen) (blob ++ n ++ [0])) as [es' b'] eqn:E. inversion H; subst; clear H.
      assert (Hs' : seen_ok ((n, lenN blob) :: seen) (blob ++ n ++ [0])).
      { intros n1 o1 [Heq|Hin].
        - inversion Heq; subst. exists []. now rewrite skipN_app.
        - now apply (seen_ok_app seen blob (n ++ [0]) Hs n1 o1). }
      destruct (IH _ _ _ _ Hnr Hs' E) as ((ext & Hext) & Hm). split.
      * exists ((n ++ [0]) ++ ext). now rewrite Hext, <- !app_assoc.
      * cbn [map ie_name ie_off]. f_equal; [|assumption].
        rewrite Hext, <- !app_assoc, skipN_app. cbn [app]. now rewrite until_nul_name.
Qed.

(* NewReader's import table is the writer's *)
Lemma reader_imports w r :
  Forall (fun i => no_nul (fst i)) (w_imports w) -> new_reader (finalize w) = Some r -> r_imports r = w_imports w.
Proof.
  intros Hn Hr. unfold new_reader, new_reader_gen in Hr.
  destruct (f_streams (finalize w)); [discriminate|]. inversion Hr; subst; clear Hr. cbn [r_imports].
  unfold finalize. destruct (import_section (w_imports w) [] []) as [es names] eqn:E. cbn [f_imports f_names].
  apply (import_section_names _ [] [] es names Hn); [intros ? ? []|assumption].
Qed.

(* ------------------------------------------------------------------ *)
(* uint32 microsecond offsets: wrap detection                          *)
(* ------------------------------------------------------------------ *)
Lemma wrap_step a b : a <= b -> b - a < P32 ->
  (if b mod P32 <? a mod P32 then a / P32 + 1 else a / P32) = b / P32.
Proof.
  intros Hle Hgap. unfold P32 in *.
  pose proof (N.div_mod a 4294967296 ltac:(lia)). pose proof (N.div_mod b 4294967296 ltac:(lia)).
  pose proof (N.mod_lt a 4294967296 ltac:(lia)). pose proof (N.mod_lt b 4294967296 ltac:(lia)).
  destruct (N.ltb_spec (b mod 4294967296) (a mod 4294967296)); nia.
Qed.

Lemma idx_split idx : idx_off idx + u32 idx = idx.
Proof. unfold idx_off, u32, P32. pose proof (N.div_mod idx 4294967296 ltac:(lia)). lia. Qed.

Lemma find_import_nth n o imps : forall i k, find_import n o imps i = Some k -> i <= k /\ nth_error imps (N.to_nat (k - i)) = Some (n, o).
Proof.
  induction imps as [|[n' o'] r IH]; intros i k H; cbn [find_import] in H; [discriminate|].
  destruct (bytes_eqb n' n && (o' =? o)) eqn:E.
  - inversion H; subst. apply andb_true_iff in E. destruct E as [E1 E2]. apply bytes_eqb_eq in E1. apply N.eqb_eq in E2. subst.
    split; [lia|]. now rewrite N.sub_diag.
  - apply IH in H. destruct H as [H1 H2]. split; [lia|]. replace (N.to_nat (k - i)) with (S (N.to_nat (k - N.succ i))) by lia. exact H2.
Qed.
Lemma import_id_nth imps src : has_import imps src -> nthN imps (import_id imps src) = Some (fst src, idx_off (snd src)).
Proof.
  unfold has_import, import_id. intros H. destruct (find_import (fst src) (idx_off (snd src)) imps 0) as [k|] eqn:E; [|contradiction].
  apply find_import_nth in E. destruct E as [_ E]. rewrite N.sub_0_r in E. now rewrite nthN_nth_error.
Qed.
(* two sources with the same record identity are the same source *)
Lemma record_identity imps s1 s2 : has_import imps s1 -> has_import imps s2 ->
  import_id imps s1 = import_id imps s2 -> u32 (snd s1) = u32 (snd s2) -> s1 = s2.
Proof.
  intros H1 H2 Ei Eu. pose proof (import_id_nth _ _ H1) as N1. pose proof (import_id_nth _ _ H2) as N2.
  rewrite Ei, N2 in N1. inversion N1 as [[En Eo]]. destruct s1 as [n1 i1], s2 as [n2 i2]. cbn [fst snd] in *. subst n2.
  f_equal. rewrite <- (idx_split i1), <- (idx_split i2). congruence.
Qed.

(* ------------------------------------------------------------------ *)
(* the scan over all records of a stream block                          *)
(* ------------------------------------------------------------------ *)
Definition rec_same (last : option (N * N)) (p : packet_rec) : bool :=
  match last with Some (i, k) => (i =? pk_imp p) && (k =? pk_idx p) | None => false end.
Definition rec_here (imps : list (bytes * N)) (p : packet_rec) (same : bool) (reft' : N) : list opacket :=
  if same then [] else
    match nthN imps (pk_imp p) with
    | Some (n, o) => [{| o_name := n; o_index := o + pk_idx p; o_dir := negb ((pk_flags p / 2) mod 2 =? 0); o_ts := reft' + pk_rel p * 1000 |}]
    | None => []
    end.
Fixpoint scan_all (imps : list (bytes * N)) (R : list packet_rec) (last : option (N * N)) (reft lastrel : N) : list opacket :=
  match R with
  | [] => []
  | p :: rest =>
    let same := rec_same last p in
    let reft' := if same then reft else if pk_rel p <? lastrel then reft + WRAP_NS else reft in
    let lastrel' := if same then lastrel else pk_rel p in
    rec_here imps p same reft' ++ scan_all imps rest (Some (pk_imp p, pk_idx p)) reft' lastrel'
  end.

Definition flags_ok (p : packet_rec) : Prop := pk_flags p = 1 \/ pk_flags p = 3.

Lemma set_skips_cons p rest : fst (set_skips (p :: rest)) =
  {| pk_rel := pk_rel p; pk_imp := pk_imp p; pk_idx := pk_idx p; pk_size := pk_size p;
     pk_skip := match rest with [] => 255 | _ => N.min (snd (set_skips rest)) 255 end; pk_flags := pk_flags p |} :: fst (set_skips rest).
Proof. cbn [set_skips]. now destruct (set_skips rest). Qed.

Lemma packets_scan_block imps : forall R later last reft lastrel,
    R <> [] -> Forall flags_ok R ->
    packets_scan imps (clear_last_next (fst (set_skips R)) ++ later) last reft lastrel = Some (scan_all imps R last reft lastrel).
Proof.
  induction R as [|p rest IH]; intros later last reft lastrel Hne Hf; [contradiction|].
  inversion Hf as [|? ? Hp Hr]; subst. rewrite set_skips_cons.
  destruct rest as [|q rest'].
  - cbn [set_skips fst clear_last_next app packets_scan scan_all pk_rel pk_imp pk_idx pk_size pk_skip pk_flags].
    unfold rec_here, rec_same. rewrite app_nil_r.
    assert (E1 : (pk_flags p - flagHasNext) mod 2 =? 0 = true) by (destruct Hp as [-> | ->]; reflexivity).
    assert (E2 : ((pk_flags p - flagHasNext) / 2) mod 2 = (pk_flags p / 2) mod 2) by (destruct Hp as [-> | ->]; reflexivity).
    rewrite E1, E2. reflexivity.
  - assert (Hc : forall x, clear_last_next (x :: fst (set_skips (q :: rest'))) = x :: clear_last_next (fst (set_skips (q :: rest')))).
    { intros x. rewrite set_skips_cons. reflexivity. }
    rewrite Hc. cbn [app packets_scan scan_all pk_rel pk_imp pk_idx pk_size pk_skip pk_flags].
    assert (E1 : pk_flags p mod 2 =? 0 = false) by (destruct Hp as [-> | ->]; reflexivity).
    rewrite E1. rewrite IH by (try discriminate; assumption). reflexivity.
Qed.

(* ------------------------------------------------------------------ *)
(* the records AddStream writes, source by source                       *)
(* ------------------------------------------------------------------ *)
Definition mk_rec (rel imp idx fl : N) (z : N) : packet_rec :=
  {| pk_rel := rel; pk_imp := imp; pk_idx := idx; pk_size := z; pk_skip := 255; pk_flags := fl |}.

Lemma split_sizes_nonempty fuel ds : split_sizes fuel ds <> [].
Proof. destruct fuel; cbn [split_sizes]; [discriminate|]. destruct (ds <=? 65535); discriminate. Qed.

Lemma scan_all_same_tail imps rel imp idx fl zs rest rt lr :
  scan_all imps (map (mk_rec rel imp idx fl) zs ++ rest) (Some (imp, idx)) rt lr = scan_all imps rest (Some (imp, idx)) rt lr.
Proof.
  induction zs as [|z zs IH]; [reflexivity|].
  cbn [map app scan_all]. unfold rec_same, rec_here. cbn [mk_rec pk_imp pk_idx pk_rel pk_flags].
  rewrite !N.eqb_refl. cbn [andb app]. apply IH.
Qed.

(* the split records of one source: the first is looked at, the others are merged into it *)
Lemma scan_all_group imps rel imp idx fl sizes rest last reft lastrel :
  sizes <> [] ->
  scan_all imps (map (mk_rec rel imp idx fl) sizes ++ rest) last reft lastrel =
  (let p := mk_rec rel imp idx fl 0 in
   let same := rec_same last p in
   let reft' := if same then reft else if rel <? lastrel then reft + WRAP_NS else reft in
   let lastrel' := if same then lastrel else rel in
   rec_here imps p same reft' ++ scan_all imps rest (Some (imp, idx)) reft' lastrel').
Proof.
  intros Hne. destruct sizes as [|z zs]; [contradiction|]. cbn [map app scan_all]. cbv zeta.
  rewrite scan_all_same_tail. reflexivity.
Qed.

Definition expect_packet (t0 : N) (p : ipacket) (src : bytes * N) : opacket :=
  {| o_name := fst src; o_index := snd src; o_dir := p_dir p; o_ts := t0 + ((p_ts p - t0) / 1000) * 1000 |}.
Definition expect_packets (t0 : N) (ps : list ipacket) : list opacket :=
  flat_map (fun p => map (expect_packet t0 p) (p_srcs p)) ps.

(* sources in record order: all in the import table, no source directly repeated *)
Fixpoint src_chain (imps : list (bytes * N)) (prev : option (bytes * N)) (srcs : list (bytes * N)) : Prop :=
  match srcs with
  | [] => True
  | s :: r => has_import imps s /\ prev <> Some s /\ src_chain imps (Some s) r
  end.
Definition prev_ok (imps : list (bytes * N)) (prev : option (bytes * N)) : Prop :=
  match prev with Some s => has_import imps s | None => True end.
Definition last_src (prev : option (bytes * N)) (srcs : list (bytes * N)) : option (bytes * N) :=
  match rev srcs with [] => prev | s :: _ => Some s end.
Definition key_of (imps : list (bytes * N)) (prev : option (bytes * N)) : option (N * N) :=
  match prev with Some s => Some (import_id imps s, u32 (snd s)) | None => None end.

Lemma last_src_cons prev s r : last_src prev (s :: r) = last_src (Some s) r.
Proof. unfold last_src. cbn [rev]. destruct (rev r) as [|x l] eqn:E; reflexivity. Qed.
Lemma last_src_ok imps : forall srcs prev, prev_ok imps prev -> src_chain imps prev srcs -> prev_ok imps (last_src prev srcs).
Proof.
  induction srcs as [|s r IH]; intros prev Hp Hc; [exact Hp|]. rewrite last_src_cons. destruct Hc as (H1 & _ & H3). now apply IH.
Qed.

Lemma dir_flag_dir d : negb (((flagHasNext + dir_flag d) / 2) mod 2 =? 0) = d.
Proof. now destruct d. Qed.

Lemma trunc_ts t0 b : t0 + b / P32 * WRAP_NS + b mod P32 * 1000 = t0 + b * 1000.
Proof. unfold WRAP_NS, P32. pose proof (N.div_mod b 4294967296 ltac:(lia)). nia. Qed.

(* one packet: its sources, with truncated offset b after a previous offset a *)
Lemma scan_packet imps t0 p ds : forall srcs first prev rest a,
    a <= (p_ts p - t0) / 1000 -> (p_ts p - t0) / 1000 - a < P32 -> prev_ok imps prev -> src_chain imps prev srcs ->
    scan_all imps (packet_records imps (u32 ((p_ts p - t0) / 1000)) (dir_flag (p_dir p)) ds first srcs ++ rest)
             (key_of imps prev) (t0 + (a / P32) * WRAP_NS) (u32 a)
    = map (expect_packet t0 p) srcs ++
      scan_all imps rest (key_of imps (last_src prev srcs))
               (t0 + ((match srcs with [] => a | _ => (p_ts p - t0) / 1000 end) / P32) * WRAP_NS)
               (u32 (match srcs with [] => a | _ => (p_ts p - t0) / 1000 end)).
Proof.
  set (b := (p_ts p - t0) / 1000).
  intros srcs. induction srcs as [|s r IH]; intros first prev rest a Hab Hgap Hpo Hch.
  - cbn [packet_records map app]. reflexivity.
  - destruct Hch as (Hin & Hprev & Hch). cbn [packet_records]. rewrite <- app_assoc.
    change (map (fun z => {| pk_rel := u32 b; pk_imp := import_id imps s; pk_idx := u32 (snd s); pk_size := z; pk_skip := 255;
                             pk_flags := flagHasNext + dir_flag (p_dir p) |}))
      with (map (mk_rec (u32 b) (import_id imps s) (u32 (snd s)) (flagHasNext + dir_flag (p_dir p)))).
    rewrite scan_all_group by apply split_sizes_nonempty. cbv zeta.
    assert (Hsame : rec_same (key_of imps prev) (mk_rec (u32 b) (import_id imps s) (u32 (snd s)) (flagHasNext + dir_flag (p_dir p)) 0) = false).
    { unfold rec_same, key_of. destruct prev as [s0|]; [|reflexivity]. cbn [mk_rec pk_imp pk_idx].
      destruct (N.eqb_spec (import_id imps s0) (import_id imps s)) as [E1|]; [|reflexivity].
      destruct (N.eqb_spec (u32 (snd s0)) (u32 (snd s))) as [E2|]; [|reflexivity]. exfalso. apply Hprev. f_equal.
      exact (record_identity imps s0 s Hpo Hin E1 E2). }
    rewrite Hsame. unfold rec_here. cbn [mk_rec pk_imp pk_idx pk_rel pk_flags].
    rewrite (import_id_nth _ _ Hin), dir_flag_dir, idx_split.
    assert (Hw : (if u32 b <? u32 a then t0 + a / P32 * WRAP_NS + WRAP_NS else t0 + a / P32 * WRAP_NS) = t0 + b / P32 * WRAP_NS).
    { unfold u32. rewrite <- (wrap_step a b Hab Hgap). destruct (b mod P32 <? a mod P32); lia. }
    rewrite Hw. replace (t0 + b / P32 * WRAP_NS + u32 b * 1000) with (t0 + b * 1000) by (unfold u32; now rewrite trunc_ts).
    cbn [map app]. f_equal.
    rewrite last_src_cons.
    change (Some (import_id imps s, u32 (snd s))) with (key_of imps (Some s)).
    rewrite (IH false (Some s) rest b) by (try lia; try assumption; unfold P32; lia).
    f_equal. destruct r; reflexivity.
Qed.

(* ------------------------------------------------------------------ *)
(* all packets of a stream                                             *)
(* ------------------------------------------------------------------ *)
(* the part of wf_input that Packets() needs: every packet has a source, no source is directly repeated,
   timestamps (in whole microseconds after the first packet) do not decrease and gaps stay below 2^32 us *)
Fixpoint src_distinct (prev : option (bytes * N)) (srcs : list (bytes * N)) : Prop :=
  match srcs with
  | [] => True
  | s :: r => prev <> Some s /\ src_distinct (Some s) r
  end.
Fixpoint pkt_wf (t0 a : N) (prev : option (bytes * N)) (ps : list ipacket) : Prop :=
  match ps with
  | [] => True
  | p :: r => a <= (p_ts p - t0) / 1000 /\ (p_ts p - t0) / 1000 - a < P32 /\ p_srcs p <> [] /\
              src_distinct prev (p_srcs p) /\ pkt_wf t0 ((p_ts p - t0) / 1000) (last_src prev (p_srcs p)) r
  end.
Definition wf_packets (s : istream) : Prop := s_packets s <> [] /\ pkt_wf (first_ts s) 0 None (s_packets s).

Lemma src_chain_of imps : forall srcs prev, src_distinct prev srcs -> (forall x, In x srcs -> has_import imps x) -> src_chain imps prev srcs.
Proof.
  induction srcs as [|s r IH]; intros prev Hd Hi; [exact I|]. destruct Hd as [H1 H2]. cbn [src_chain].
  split; [apply Hi; now left|]. split; [assumption|]. apply IH; [assumption|]. intros x Hx. apply Hi. now right.
Qed.

Lemma scan_stream imps t0 d : forall ps pi a prev,
    prev_ok imps prev -> pkt_wf t0 a prev ps -> srcs_in imps ps ->
    scan_all imps (stream_records imps t0 d pi ps) (key_of imps prev) (t0 + (a / P32) * WRAP_NS) (u32 a) = expect_packets t0 ps.
Proof.
  induction ps as [|p r IH]; intros pi a prev Hpo Hwf Hin; [reflexivity|].
  destruct Hwf as (H1 & H2 & H3 & H4 & H5). cbn [stream_records]. unfold expect_packets. cbn [flat_map].
  assert (Hch : src_chain imps prev (p_srcs p)).
  { apply src_chain_of; [assumption|]. intros x Hx. apply (Hin p x); [now left|assumption]. }
  rewrite (scan_packet imps t0 p _ (p_srcs p) true prev _ a H1 H2 Hpo Hch).
  f_equal. destruct (p_srcs p) as [|s0 sr] eqn:Es; [contradiction|]. rewrite <- Es in *.
  apply IH; [now apply last_src_ok|assumption|]. intros q x Hq Hx. apply (Hin q x); [now right|assumption].
Qed.

Lemma packet_records_flags imps rel d ds : forall srcs first, Forall flags_ok (packet_records imps rel (dir_flag d) ds first srcs).
Proof.
  induction srcs as [|s r IH]; intros first; cbn [packet_records]; [constructor|].
  apply Forall_app. split; [|apply IH]. apply Forall_map. apply Forall_forall. intros z _. unfold flags_ok. cbn [pk_flags].
  destruct d; [right|left]; reflexivity.
Qed.
Lemma stream_records_flags imps t0 d : forall ps pi, Forall flags_ok (stream_records imps t0 d pi ps).
Proof.
  induction ps as [|p r IH]; intros pi; cbn [stream_records]; [constructor|].
  apply Forall_app. split; [apply packet_records_flags|apply IH].
Qed.
Lemma stream_records_nonempty imps t0 d p r pi : p_srcs p <> [] -> stream_records imps t0 d pi (p :: r) <> [].
Proof.
  intros Hne. cbn [stream_records]. destruct (p_srcs p) as [|s sr]; [contradiction|]. cbn [packet_records].
  pose proof (split_sizes_nonempty (N.to_nat ((match data_size_of pi d None with Some z => z | None => 0 end) / 65535))
                                   (match data_size_of pi d None with Some z => z | None => 0 end)) as Hs.
  destruct (split_sizes _ _); [contradiction|]. discriminate.
Qed.

(* Packets() on the block AddStream wrote for s, wherever it sits in the packet section *)
Lemma packets_scan_stream imps s later :
  wf_packets s -> srcs_in imps (s_packets s) ->
  packets_scan imps (stream_block imps s ++ later) None (first_ts s) 0 = Some (expect_packets (first_ts s) (s_packets s)).
Proof.
  intros [Hne0 Hwf] Hin. unfold stream_block in *.
  destruct (s_packets s) as [|p r] eqn:Ep; [contradiction|].
  rewrite packets_scan_block.
  - f_equal.
    replace (first_ts s) with (first_ts s + (0 / P32) * WRAP_NS) at 2 by (cbn; lia).
    change 0 with (u32 0) at 3. change None with (key_of imps None).
    apply scan_stream; [exact I| |assumption]. assumption.
  - apply stream_records_nonempty. apply Hwf.
  - apply stream_records_flags.
Qed.

(* ------------------------------------------------------------------ *)
(* Theorem 2                                                           *)
(* ------------------------------------------------------------------ *)
Theorem packets_stored gcap L w r :
  16 < gcap <= 4 * P16 ->
  Forall (fun ids => wf_meta (snd ids)) L ->
  add_streams gcap new_writer L = Some w ->
  new_reader (finalize w) = Some r ->
  Forall (fun i => no_nul (fst i)) (w_imports w) -> lenN (w_packets w) < P32 ->
  forall k id s rec, nth_error L k = Some (id, s) -> wf_packets s -> nth_error (all_streams r) k = Some rec ->
  packets r rec = Some (expect_packets (first_ts s) (s_packets s)).
Proof.
  intros Hcap Hwf Hadd Hr Hnn Hcnt k id s rec Hk Hwp Hrec.
  pose proof (add_streams_winv gcap ltac:(lia) L new_writer [] w (winv_new gcap) Hwf Hadd) as (HF & _). cbn [app] in HF.
  destruct (Forall2_nth_r _ _ _ HF _ _ Hk) as (rec0 & Hrec0 & St). cbn [fst snd] in St.
  unfold all_streams in Hrec. rewrite (rw_streams w r Hr) in Hrec. assert (rec = rec0) by congruence. subst rec0.
  unfold packets. rewrite (reader_imports w r Hnn Hr), (rw_packets w r Hr).
  destruct (sd_packets _ _ _ _ _ St) as (pre & post & Hp & Hs).
  assert (Hpre : lenN pre < P32) by (rewrite Hp, lenN_app in Hcnt; lia).
  rewrite Hs. unfold u32. rewrite N.mod_small by assumption. rewrite Hp, skipN_app.
  assert (Hft : first_packet_time r rec = first_ts s).
  { unfold first_packet_time. rewrite (rw_ref w r Hr). apply (sd_first _ _ _ _ _ St). }
  rewrite Hft. apply packets_scan_stream; [assumption|]. apply (sd_srcs _ _ _ _ _ St).
Qed.

(* the import table only holds names of sources of the input *)
Definition names_ok (s : istream) : Prop := forall p src, In p (s_packets s) -> In src (p_srcs p) -> no_nul (fst src).

Lemma add_import_names imps src : Forall (fun i => no_nul (fst i)) imps -> no_nul (fst src) -> Forall (fun i => no_nul (fst i)) (add_import imps src).
Proof.
  intros H1 H2. unfold add_import. destruct (find_import _ _ imps 0); [assumption|]. apply Forall_app. split; [assumption|].
  constructor; [exact H2|constructor].
Qed.
Lemma fold_add_import_names srcs : forall imps, Forall (fun i => no_nul (fst i)) imps -> (forall x, In x srcs -> no_nul (fst x)) ->
  Forall (fun i => no_nul (fst i)) (fold_left add_import srcs imps).
Proof.
  induction srcs as [|x r IH]; intros imps H1 H2; cbn [fold_left]; [assumption|].
  apply IH; [apply add_import_names; [assumption|apply H2; now left]|]. intros y Hy. apply H2. now right.
Qed.
Lemma packets_imports_names ps : forall imps, Forall (fun i => no_nul (fst i)) imps ->
  (forall p src, In p ps -> In src (p_srcs p) -> no_nul (fst src)) ->
  Forall (fun i => no_nul (fst i)) (fold_left (fun im p => fold_left add_import (p_srcs p) im) ps imps).
Proof.
  induction ps as [|p r IH]; intros imps H1 H2; cbn [fold_left]; [assumption|].
  apply IH.
  - apply fold_add_import_names; [assumption|]. intros x Hx. apply (H2 p x); [now left|assumption].
  - intros q src Hq Hs. apply (H2 q src); [now right|assumption].
Qed.
Lemma add_streams_names gcap : forall L w w', Forall (fun i => no_nul (fst i)) (w_imports w) ->
  Forall (fun ids => names_ok (snd ids)) L -> add_streams gcap w L = Some w' -> Forall (fun i => no_nul (fst i)) (w_imports w').
Proof.
  induction L as [|[id s] r IH]; intros w w' Hw HL H; cbn [add_streams] in H.
  - now inversion H; subst.
  - destruct (add_stream gcap w (id, s)) as [w1|] eqn:E; [|discriminate]. inversion HL; subst. cbn [snd] in *.
    apply (IH w1 w'); [|assumption|assumption].
    destruct (add_stream_inv _ _ _ _ _ E) as (_ & groups & gid & ci & si & _ & _ & ->). cbn [w_imports].
    unfold stream_imports. now apply packets_imports_names.
Qed.
