(* Model of Writer.AddIndex (writer.go:624-858) and index.Merge (merger.go) on top of the
   C01 file model (C07).  Definitions only.

   add_index follows the code: import remap, host-group merge (add every host of a reader group to
   the first writer group that takes them all, popN on failure, else append a copy of the group),
   skip of ids the writer already holds (merge runs newest file first), packet copy with remapped
   import ids, payload + segmentation copy (varints are re-read until the byte count is used up),
   re-basing of both stream sets to the new reference second with uint64 arithmetic (the
   subtraction may wrap and is added back: everything mod 2^64).
   Not modelled: the refusals at 2^32 imports/streams/packets and 2^16 host groups (then Merge
   opens a second writer); I/O errors. *)
From Pk Require Export IndexFormat.
Open Scope N_scope.

(* merge imports: remap table (reader import id -> writer import id) *)
Fixpoint merge_imports (wimps : list (bytes * N)) (rimps : list (bytes * N)) : list (bytes * N) * list N :=
  match rimps with
  | [] => (wimps, [])
  | (n, o) :: r =>
    match find_import n o wimps 0 with
    | Some i => let '(w', m) := merge_imports wimps r in (w', i :: m)
    | None => let '(w', m) := merge_imports (wimps ++ [(n, o)]) r in (w', lenN wimps :: m)
    end
  end.

Section Cap.
  Variable gcap : N.

  (* add all hosts of a reader group to one writer group: Some (group', host remap) or None (failed -> popN) *)
  Fixpoint add_all (g : hostgroup) (hs : list bytes) : option (hostgroup * list N) :=
    match hs with
    | [] => Some (g, [])
    | h :: r =>
      match hg_add gcap g h with
      | None => None
      | Some (i, _, g') => match add_all g' r with
                           | Some (g'', m) => Some (g'', i :: m)
                           | None => None
                           end
      end
    end.

  Fixpoint iota (i : N) (n : nat) : list N := match n with O => [] | S k => i :: iota (N.succ i) k end.

  (* writer groups, index of the current one, reader group -> groups', (group id, host remap) *)
  Fixpoint merge_group (gs : list hostgroup) (gid : N) (size : N) (hosts : list bytes) : list hostgroup * (N * list N) :=
    match gs with
    | [] => ([{| hg_size := size; hg_hosts := hosts |}], (gid, iota 0 (length hosts)))
    | g :: r =>
      match add_all g hosts with
      | Some (g', m) => (g' :: r, (gid, m))
      | None => let '(r', res) := merge_group r (N.succ gid) size hosts in (g :: r', res)
      end
    end.

  Fixpoint merge_groups (gs : list hostgroup) (rgs : list (N * list bytes)) : list hostgroup * list (N * list N) :=
    match rgs with
    | [] => (gs, [])
    | (size, hosts) :: r =>
      let '(gs1, m) := merge_group gs 0 size hosts in
      let '(gs2, ms) := merge_groups gs1 r in (gs2, m :: ms)
    end.
End Cap.

(* packets of one stream: records from PacketInfoStart up to the first one without has-next *)
Fixpoint copy_packets (remap : list N) (ps : list packet_rec) : option (list packet_rec) :=
  match ps with
  | [] => None
  | p :: r =>
    let p' := {| pk_rel := pk_rel p; pk_imp := match nthN remap (pk_imp p) with Some i => i | None => 0 end; pk_idx := pk_idx p;
                 pk_size := pk_size p; pk_skip := pk_skip p; pk_flags := pk_flags p |} in
    if pk_flags p mod 2 =? 0 then Some [p']
    else match copy_packets remap r with Some l => Some (p' :: l) | None => None end
  end.

(* one varint, copied byte by byte: (value, bytes read, rest) *)
Fixpoint copy_varint (bs : bytes) (acc : N) : option (N * bytes * bytes) :=
  match bs with
  | [] => None
  | b :: r =>
    let acc' := u64 (acc * 128) + b mod 128 in
    if b <? 128 then Some (acc', [b], r)
    else match copy_varint r acc' with Some (v, rd, rest) => Some (v, b :: rd, rest) | None => None end
  end.
(* segmentation bytes are copied until the sizes add up to count (writer.go:791-821) *)
Fixpoint copy_segmentation (fuel : nat) (count : N) (bs : bytes) : option bytes :=
  if count =? 0 then Some []
  else match fuel with
       | O => None
       | S f => match copy_varint bs 0 with
                | None => None
                | Some (sz, rd, rest) =>
                  if count <? sz then None          (* panic(123) *)
                  else match copy_segmentation f (count - sz) rest with Some l => Some (rd ++ l) | None => None end
                end
       end.
Definition copy_data (data : bytes) (s : stream_rec) : option bytes :=
  let count := st_cbytes s + st_sbytes s in
  if count =? 0 then Some []
  else let d := skipN (st_datastart s) data in
       let payload := takeN count d in
       if negb (lenN payload =? count) then None     (* io.CopyN: EOF *)
       else match copy_segmentation (S (length d)) count (skipN count d) with
            | Some seg => Some (payload ++ seg)
            | None => None
            end.

Definition has_id (id : N) (ss : list stream_rec) : bool := existsb (fun s => st_id s =? id) ss.

(* the stream loop of AddIndex: (packets', data', new stream records, min FirstPacketTimeNS) *)
Fixpoint copy_streams (r : reader) (imap : list N) (gmap : list (N * list N)) (existing : list stream_rec)
         (ss : list stream_rec) (pkts : list packet_rec) (data : bytes) (news : list stream_rec) (minf : N)
  : option (list packet_rec * bytes * list stream_rec * N) :=
  match ss with
  | [] => Some (pkts, data, news, minf)
  | s :: rest =>
    if has_id (st_id s) existing then copy_streams r imap gmap existing rest pkts data news minf
    else
      match nthN gmap (st_hg s), copy_packets imap (skipN (st_pktstart s) (f_packets (r_file r))), copy_data (f_data (r_file r)) s with
      | Some (g, hmap), Some ps, Some d =>
        let s' := {| st_id := st_id s; st_first := st_first s; st_last := st_last s; st_datastart := lenN data;
                     st_cbytes := st_cbytes s; st_sbytes := st_sbytes s; st_pktstart := u32 (lenN pkts); st_flags := st_flags s;
                     st_hg := g;
                     st_chost := match nthN hmap (st_chost s) with Some i => i | None => 0 end;
                     st_shost := match nthN hmap (st_shost s) with Some i => i | None => 0 end;
                     st_cport := st_cport s; st_sport := st_sport s |} in
        copy_streams r imap gmap existing rest (pkts ++ ps) (data ++ d) (news ++ [s']) (N.min minf (st_first s))
      | _, _, _ => None                              (* index out of range / read error *)
      end
  end.

Definition add_index (gcap : N) (w : writer) (r : reader) : option writer :=
  let '(imps, imap) := merge_imports (w_imports w) (r_imports r) in
  let '(groups, gmap) := merge_groups gcap (w_groups w) (r_groups r) in
  match copy_streams r imap gmap (w_streams w) (f_streams (r_file r)) (w_packets w) (w_data w) [] (P64 - 1) with
  | None => None
  | Some (pkts, data, news, minf) =>
    match news with
    | [] => Some w                                     (* nothing new: undo() *)
    | _ =>
      let rref := f_ref (r_file r) in
      let nref0 := rref + minf / NS in
      let nref := if negb (lenN (w_streams w) =? 0) && (w_ref w <? nref0) then w_ref w else nref0 in
      let newdiff := u64 (u64 (rref + P64 - nref) * NS) in
      let olddiff := u64 (u64 (w_ref w + P64 - nref) * NS) in
      let olds := if olddiff =? 0 then w_streams w else map (rebase olddiff) (w_streams w) in
      let news' := if newdiff =? 0 then news else map (rebase newdiff) news in
      Some {| w_ref := nref; w_groups := groups; w_imports := imps; w_packets := pkts; w_streams := olds ++ news'; w_data := data |}
    end
  end.

(* merger.go: newest (last) index first into one writer *)
Fixpoint add_indexes (gcap : N) (w : writer) (newest_first : list reader) : option writer :=
  match newest_first with
  | [] => Some w
  | r :: rest => match add_index gcap w r with Some w' => add_indexes gcap w' rest | None => None end
  end.
Definition merge_writer (gcap : N) (rs : list reader) : option writer := add_indexes gcap new_writer (rev rs).
Definition merge_files (gcap : N) (rs : list reader) : option reader :=
  match merge_writer gcap rs with
  | Some w => finalize_reader w
  | None => None
  end.

(* what a user sees of a stack of index files (oldest first): the newest file that holds the id wins *)
Fixpoint visible (rs : list reader) (id : N) : option obs :=
  match rs with
  | [] => None
  | r :: rest =>
    match visible rest id with
    | Some o => Some o
    | None => match stream_by_id r id with
              | Some (s, _) => Some (observe r s)
              | None => None
              end
    end
  end.
