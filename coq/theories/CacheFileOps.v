(* The operations of the cacheFile object preserve the layout invariant (C15). *)
From Coq Require Import NArith ZArith List Bool Lia ZifyBool ZifyN ZifyNat Permutation.
Require Import Pk.CacheFile Pk.CacheFileProofs Pk.CacheFileRecord Pk.CacheFileState.
Import ListNotations.
Open Scope N_scope.

(* ------------------------------------------------------------------ *)
(* reading a live record                                                *)
(* ------------------------------------------------------------------ *)
Lemma file_split : forall a (r : rec) b,
  file_header ++ flat (a ++ r :: b) = (file_header ++ flat a ++ le_bytes 8 (fst r)) ++ snd r ++ flat b.
Proof. intros. rewrite flat_app. cbn [flat]. unfold rec_bytes. rewrite <- !app_assoc. reflexivity. Qed.

Lemma file_split_len : forall a (r : rec), len (file_header ++ flat a ++ le_bytes 8 (fst r)) = 8 + len (flat a) + 8.
Proof. intros. rewrite !len_app, le_bytes_len8, header_len. lia. Qed.

Lemma section_body : forall st rs a id body b,
  Inv st rs -> rs = a ++ (id, body) :: b ->
  section st (8 + len (flat a) + 8) (len body) = body.
Proof.
  intros st rs a id body b HI ->. unfold section. rewrite (inv_file _ _ HI).
  rewrite (file_split a (id, body) b). rewrite <- (file_split_len a (id, body)).
  rewrite skipN_app. cbn [snd]. apply firstN_app.
Qed.

(* ------------------------------------------------------------------ *)
(* free_stream / InvalidateChangedStreams                               *)
(* ------------------------------------------------------------------ *)
Lemma write_at_tomb : forall a id body b,
  write_at (file_header ++ flat (a ++ (id, body) :: b)) (8 + len (flat a)) (le_bytes 8 invalid_id)
  = file_header ++ flat (a ++ (invalid_id, body) :: b).
Proof.
  intros. unfold write_at. rewrite !flat_app. cbn [flat]. unfold rec_bytes. cbn [fst snd].
  assert (Hl : 8 + len (flat a) = len (file_header ++ flat a)) by (rewrite len_app, header_len; reflexivity).
  rewrite Hl. rewrite !app_assoc. rewrite <- (app_assoc (file_header ++ flat a)).
  rewrite <- (app_assoc (file_header ++ flat a)). rewrite firstN_app.
  rewrite skipN_app_plus. rewrite <- !app_assoc. rewrite le_bytes_len8, <- (le_bytes_len8 id), skipN_app. reflexivity.
Qed.

Lemma free_stream_inv : forall st rs id, Inv st rs -> Inv (free_stream fx_all st id) (kill rs id).
Proof.
  intros st rs id HI. unfold free_stream. rewrite (inv_infos _ _ HI).
  destruct (find_live rs 8 id) as [[off sz]|] eqn:E.
  - destruct (find_live_split _ _ _ _ _ E) as (a & body & b & Hrs & Ht & Hoff & Hsz & Hk).
    pose proof (find_live_off_ge _ _ _ _ _ E) as Hge.
    assert (Ho : off - hdr_size = 8 + len (flat a)) by (unfold hdr_size; lia).
    constructor; cbn [st_file st_infos st_fileSize st_freeSize st_freeStart fx_tomb fx_all].
    + rewrite Hk, (inv_file _ _ HI), Hrs, Ho. apply write_at_tomb.
    + rewrite (inv_size _ _ HI), kill_flat_len. reflexivity.
    + apply kill_recs_ok. exact (inv_recs _ _ HI).
    + apply live_kill_nodup. exact (inv_nodup_live _ _ HI).
    + apply remove_nodup. exact (inv_nodup_infos _ _ HI).
    + intros id'. destruct (N.eq_dec id' id) as [->|Hn].
      * rewrite lookup_remove_eq. symmetry. apply find_live_kill_eq. exact (inv_nodup_live _ _ HI).
      * rewrite lookup_remove_neq by assumption. rewrite (inv_infos _ _ HI). symmetry. apply find_live_kill_neq. assumption.
    + rewrite (inv_free _ _ HI). rewrite (kill_tomb_bytes _ _ _ _ _ E). unfold hdr_size. lia.
    + destruct (off - hdr_size <? st_freeStart st) eqn:El.
      * apply N.ltb_lt in El. eapply kill_no_tomb; [|exact E|unfold hdr_size in *; lia].
        eapply no_tomb_mono; [exact (inv_notomb _ _ HI)|lia].
      * apply N.ltb_ge in El. eapply kill_no_tomb; [exact (inv_notomb _ _ HI)|exact E|unfold hdr_size in *; lia].
    + destruct (off - hdr_size <? st_freeStart st) eqn:El.
      * unfold hdr_size. eapply kill_boundary_at. exact E.
      * apply kill_boundary. exact (inv_boundary _ _ HI).
  - rewrite (kill_none _ _ _ E). destruct st; exact HI.
Qed.

Fixpoint kill_all (rs : list rec) (ids : list N) : list rec :=
  match ids with [] => rs | id :: r => kill_all (kill rs id) r end.

Lemma invalidate_inv : forall ids st rs, Inv st rs -> Inv (fst (invalidate fx_all st ids)) (kill_all rs ids).
Proof.
  induction ids as [|id ids IH]; intros st rs HI; cbn [invalidate kill_all fst]; [assumption|].
  specialize (IH _ _ (free_stream_inv st rs id HI)).
  destruct (invalidate fx_all (free_stream fx_all st id) ids) as [st' inv]. exact IH.
Qed.

(* ------------------------------------------------------------------ *)
(* truncateFile (compaction)                                            *)
(* ------------------------------------------------------------------ *)
Fixpoint relocate (infos : infos_t) (recs : list rec) (off : N) : infos_t :=
  match recs with
  | [] => infos
  | r :: rest => relocate (update infos (fst r) (off + 8, len (snd r))) rest (off + rec_size r)
  end.

Lemma relocate_nodup : forall recs infos off, NoDup (map fst infos) -> NoDup (map fst (relocate infos recs off)).
Proof. induction recs as [|r recs IH]; intros; cbn [relocate]; [assumption|]. apply IH. apply update_nodup. assumption. Qed.

Lemma live_length_le : forall rs, (length (live rs) <= length rs)%nat.
Proof.
  induction rs as [|r rs IH]; [apply le_n|]. cbn [live filter]. fold (live rs).
  destruct (negb (is_tomb r)); cbn [length]; lia.
Qed.

Lemma relocate_lookup : forall recs infos off id,
  live recs = recs -> NoDup (map fst recs) ->
  lookup (relocate infos recs off) id =
  match find_live recs off id with Some v => Some v | None => lookup infos id end.
Proof.
  induction recs as [|r recs IH]; intros infos off id Hl Hnd; cbn [relocate find_live]; [reflexivity|].
  cbn [live filter] in Hl. destruct (negb (is_tomb r)) eqn:Et.
  2:{ exfalso. assert (Hlen : (length (live recs) <= length recs)%nat) by apply live_length_le.
      fold (live recs) in Hl. rewrite Hl in Hlen. cbn [length] in Hlen. lia. }
  injection Hl as Hl'. fold (live recs) in Hl'. cbn [map fst] in Hnd. inversion Hnd as [|? ? Hnot Hnd']; subst.
  rewrite IH by assumption. rewrite andb_true_r.
  destruct (fst r =? id) eqn:Ei.
  - apply N.eqb_eq in Ei. subst id. rewrite find_live_none by (rewrite Hl'; assumption). cbn [andb].
    apply lookup_update_eq.
  - apply N.eqb_neq in Ei. destruct (find_live recs (off + rec_size r) id); [reflexivity|].
    apply lookup_update_neq. congruence.
Qed.

Lemma compact_go_step : forall x f l old_off new_size infos out, l <> [] ->
  compact_go (x :: f) l old_off new_size infos out =
  match take hdr_size l with
  | None => None
  | Some (h, r) =>
      let id := le_val h in
      let off := old_off + hdr_size in
      match lookup infos id with
      | Some (o, sz) =>
          if o =? off then
            match take sz r with
            | None => None
            | Some (body, r') =>
                compact_go f r' (off + sz) (new_size + hdr_size + sz)
                           (update infos id (new_size + hdr_size, sz)) (out ++ h ++ body)
            end
          else
            match skip_stream r with
            | None => None
            | Some r' => compact_go f r' (off + (len r - len r')) new_size infos out
            end
      | None =>
          match skip_stream r with
          | None => None
          | Some r' => compact_go f r' (off + (len r - len r')) new_size infos out
          end
      end
  end.
Proof. intros. destruct l; [congruence|]. reflexivity. Qed.

Lemma rec_bytes_nonempty : forall r rest, rec_bytes r ++ rest <> [].
Proof. intros. unfold rec_bytes. cbn [le_bytes]. cbn [app]. discriminate. Qed.

Lemma rec_bytes_length_ge : forall r, (8 <= length (rec_bytes r))%nat.
Proof. intros. unfold rec_bytes. rewrite app_length, le_bytes_length. lia. Qed.

Lemma compact_go_spec : forall post fuel old_off new_size infos out,
  Forall rec_ok post -> NoDup (map fst (live post)) ->
  (forall id, In id (map fst (live post)) -> lookup infos id = find_live post old_off id) ->
  lookup infos invalid_id = None ->
  (length (flat post) <= length fuel)%nat ->
  compact_go fuel (flat post) old_off new_size infos out
  = Some (new_size + len (flat (live post)), relocate infos (live post) new_size, out ++ flat (live post)).
Proof.
  induction post as [|r post IH]; intros fuel old_off new_size infos out Hok Hnd Hlk Hinv Hf.
  - cbn [flat live filter relocate]. destruct fuel; cbn [compact_go]; rewrite len_nil, N.add_0_r, app_nil_r; reflexivity.
  - inversion Hok as [|? ? [Hid Hsd] Hok']; subst. cbn [flat] in *.
    pose proof (rec_bytes_length_ge r) as Hrl.
    destruct fuel as [|x f]; [rewrite app_length in Hf; cbn [length] in Hf; lia|].
    rewrite compact_go_step by apply rec_bytes_nonempty.
    unfold rec_bytes at 1. rewrite <- app_assoc. rewrite take8. cbv zeta.
    rewrite le_val_le_bytes8 by assumption.
    assert (Hf' : (length (flat post) <= length f)%nat) by (rewrite app_length in Hf; cbn [length] in Hf; lia).
    cbn [live filter] in *. destruct (is_tomb r) eqn:Et; cbn [negb] in *.
    + (* tombstone: skipped *)
      unfold is_tomb in Et. apply N.eqb_eq in Et. rewrite Et, Hinv. rewrite Hsd.
      rewrite len_app. replace (len (snd r) + len (flat post) - len (flat post)) with (len (snd r)) by lia.
      replace (old_off + hdr_size + len (snd r)) with (old_off + rec_size r) by (unfold hdr_size, rec_size; lia).
      apply IH; try assumption.
      intros id Hin. rewrite (Hlk id Hin). cbn [find_live]. unfold is_tomb. rewrite Et, N.eqb_refl. cbn [negb].
      rewrite andb_false_r. reflexivity.
    + (* live: copied *)
      cbn [map fst] in Hnd. inversion Hnd as [|? ? Hnot Hnd']; subst.
      rewrite (Hlk (fst r) (or_introl eq_refl)). cbn [find_live]. rewrite N.eqb_refl, Et. cbn [negb andb].
      assert ((old_off + 8 =? old_off + hdr_size) = true) as -> by (apply N.eqb_eq; reflexivity).
      rewrite take_app.
      replace (old_off + hdr_size + len (snd r)) with (old_off + rec_size r) by (unfold hdr_size, rec_size; lia).
      rewrite IH; try assumption.
      * cbn [relocate flat]. unfold rec_bytes, hdr_size, rec_size. rewrite <- !app_assoc.
        rewrite !len_app, le_bytes_len8. fold (live post).
        replace (new_size + (8 + len (snd r))) with (new_size + 8 + len (snd r)) by lia.
        replace (new_size + (8 + (len (snd r) + len (flat (live post))))) with (new_size + 8 + len (snd r) + len (flat (live post))) by lia.
        reflexivity.
      * intros id Hin. assert (Hne : id <> fst r) by (intros ->; contradiction).
        rewrite lookup_update_neq by assumption. rewrite (Hlk id (or_intror Hin)). cbn [find_live].
        assert ((fst r =? id) = false) as -> by (apply N.eqb_neq; congruence). reflexivity.
      * assert (Hne : invalid_id <> fst r).
        { unfold is_tomb in Et. apply N.eqb_neq in Et. congruence. }
        rewrite lookup_update_neq by assumption. assumption.
Qed.

Lemma find_live_live_none : forall rs off off' id,
  find_live (live rs) off id = None -> find_live rs off' id = None.
Proof.
  induction rs as [|r rs IH]; intros off off' id H; [reflexivity|].
  cbn [live filter] in H. cbn [find_live]. destruct (is_tomb r) eqn:Et; cbn [negb] in *.
  - rewrite andb_false_r. eapply IH. eassumption.
  - cbn [find_live] in H. rewrite Et in H. cbn [negb] in H.
    destruct ((fst r =? id) && true); [discriminate|]. eapply IH. eassumption.
Qed.

Lemma live_forall_ok : forall rs, Forall rec_ok rs -> Forall rec_ok (live rs).
Proof.
  intros rs H. apply Forall_forall. intros x Hin. unfold live in Hin. apply filter_In in Hin.
  rewrite Forall_forall in H. apply H. tauto.
Qed.

Lemma nodup_app_r : forall (a b : list N), NoDup (a ++ b) -> NoDup b.
Proof. induction a; intros b H; [assumption|]. inversion H; subst. apply IHa. assumption. Qed.

Lemma nodup_app_l : forall (a b : list N), NoDup (a ++ b) -> NoDup a.
Proof.
  induction a as [|x a IH]; intros b H; [constructor|]. inversion H as [|? ? Hn Hd]; subst.
  constructor; [|eapply IH; eassumption]. intros Hin. apply Hn. apply in_or_app. left. assumption.
Qed.

Lemma nodup_app_disjoint : forall (a b : list N) x, NoDup (a ++ b) -> In x a -> In x b -> False.
Proof.
  induction a as [|y a IH]; intros b x H Ha Hb; [contradiction|]. inversion H as [|? ? Hn Hd]; subst.
  destruct Ha as [->|Ha]; [apply Hn; apply in_or_app; right; assumption | eapply IH; eassumption].
Qed.

Theorem truncate_file_inv : forall st rs, Inv st rs ->
  exists st', truncate_file st = Some st' /\ Inv st' (live rs) /\ st_freeSize st' = 0.
Proof.
  intros st rs HI.
  destruct (boundary_split _ _ _ (inv_boundary _ _ HI)) as (a & b & Hrs & Hfs).
  pose proof (inv_notomb _ _ HI) as Hnt. rewrite Hrs in Hnt. apply no_tomb_app in Hnt. destruct Hnt as [Hnta _].
  assert (Hza : tomb_bytes a = 0) by (eapply no_tomb_zero; [exact Hnta | lia]).
  assert (Hla : live a = a) by (apply no_tomb_live; assumption).
  pose proof (inv_nodup_live _ _ HI) as Hnd. rewrite Hrs, live_app, map_app, Hla in Hnd.
  pose proof (inv_recs _ _ HI) as Hok. rewrite Hrs in Hok. apply Forall_app in Hok. destruct Hok as [Hoka Hokb].
  assert (Hfile : st_file st = (file_header ++ flat a) ++ flat b).
  { rewrite (inv_file _ _ HI), Hrs, flat_app, app_assoc. reflexivity. }
  assert (Hlen : st_freeStart st = len (file_header ++ flat a)) by (rewrite len_app, header_len; exact Hfs).
  unfold truncate_file.
  assert (Hregion : firstN (st_fileSize st - st_freeStart st) (skipN (st_freeStart st) (st_file st)) = flat b).
  { rewrite Hfile, Hlen, skipN_app. rewrite (inv_size _ _ HI), Hrs, flat_app, !len_app, header_len.
    replace (8 + (len (flat a) + len (flat b)) - (8 + len (flat a))) with (len (flat b)) by lia. apply firstN_all. }
  rewrite Hregion.
  rewrite (compact_go_spec b (flat b) (st_freeStart st) (st_freeStart st) (st_infos st) []); try assumption.
  - eexists. split; [reflexivity|]. split; [|reflexivity].
    assert (Hlive : live rs = a ++ live b) by (rewrite Hrs, live_app, Hla; reflexivity).
    constructor; cbn [st_file st_infos st_fileSize st_freeSize st_freeStart].
    + rewrite Hfile, Hlen, firstN_app, Hlive, flat_app, <- app_assoc. reflexivity.
    + rewrite Hfs, Hlive, flat_app, len_app. lia.
    + apply live_forall_ok. exact (inv_recs _ _ HI).
    + rewrite live_live. exact (inv_nodup_live _ _ HI).
    + apply relocate_nodup. exact (inv_nodup_infos _ _ HI).
    + intros id. rewrite relocate_lookup; [| apply live_live | eapply nodup_app_r; exact Hnd].
      rewrite Hlive, find_live_app, <- Hfs.
      destruct (find_live (live b) (st_freeStart st) id) as [v|] eqn:El.
      * assert (Hin : In id (map fst (live b))) by (rewrite <- live_live; eapply find_live_in; exact El).
        rewrite find_live_none; [reflexivity|]. rewrite Hla. intros Hina. eapply nodup_app_disjoint; eassumption.
      * rewrite (inv_infos _ _ HI), Hrs, find_live_app, <- Hfs.
        rewrite (find_live_live_none _ _ (st_freeStart st) _ El). reflexivity.
    + symmetry. apply tomb_bytes_live.
    + apply no_tomb_of_zero. apply tomb_bytes_live.
    + rewrite Hlive. replace (st_freeStart st + len (flat (live b))) with (8 + len (flat (a ++ live b))) by (rewrite flat_app, len_app; lia).
      apply boundary_end.
  - eapply nodup_app_r. exact Hnd.
  - intros id Hin. rewrite (inv_infos _ _ HI), Hrs, find_live_app, <- Hfs.
    rewrite find_live_none; [reflexivity|]. rewrite Hla. intros Hina. eapply nodup_app_disjoint; eassumption.
  - rewrite (inv_infos _ _ HI). apply find_live_tomb_id.
  - apply le_n.
Qed.

(* ------------------------------------------------------------------ *)
(* setData                                                              *)
(* ------------------------------------------------------------------ *)
Lemma find_live_some_of_in : forall rs off id, In id (map fst (live rs)) -> exists v, find_live rs off id = Some v.
Proof.
  induction rs as [|r rs IH]; intros off id H; [contradiction|]. cbn [live filter] in H. cbn [find_live].
  destruct (negb (is_tomb r)) eqn:Et.
  - cbn [map fst] in H. destruct (fst r =? id) eqn:Ei; cbn [andb].
    + eexists. reflexivity.
    + destruct H as [H|H]; [apply N.eqb_neq in Ei; congruence | apply IH; assumption].
  - rewrite andb_false_r. apply IH. assumption.
Qed.

Definition should_compact_rs (rs : list rec) : bool :=
  (cleanup_min_free <=? tomb_bytes rs) && ((8 + len (flat rs)) / 2 <=? tomb_bytes rs).

Lemma should_compact_inv : forall st rs, Inv st rs -> should_compact st = should_compact_rs rs.
Proof. intros st rs HI. unfold should_compact, should_compact_rs. rewrite (inv_free _ _ HI), (inv_size _ _ HI). reflexivity. Qed.

Definition append_state (st : state) (id : N) (body : list N) : state :=
  mkState (st_file st ++ le_bytes 8 id ++ body)
          (update (st_infos st) id (st_fileSize st + hdr_size, len body))
          (st_fileSize st + hdr_size + len body)
          (st_freeSize st)
          (if st_freeStart st =? st_fileSize st then st_freeStart st + hdr_size + len body else st_freeStart st).

Lemma append_inv : forall st rs id body,
  Inv st rs -> find_live rs 8 id = None -> id < invalid_id -> sd body ->
  Inv (append_state st id body) (rs ++ [(id, body)]).
Proof.
  intros st rs id body HI Hnone Hid Hsd.
  assert (Hlive : is_tomb (id, body) = false) by (unfold is_tomb; cbn [fst]; apply N.eqb_neq; lia).
  assert (Hnotin : ~ In id (map fst (live rs))).
  { intros Hin. destruct (find_live_some_of_in rs 8 id Hin) as [v Hv]. congruence. }
  constructor; unfold append_state; cbn [st_file st_infos st_fileSize st_freeSize st_freeStart].
  - rewrite (inv_file _ _ HI), flat_app. cbn [flat]. unfold rec_bytes. cbn [fst snd].
    rewrite app_nil_r, <- !app_assoc. reflexivity.
  - rewrite (inv_size _ _ HI), flat_app, len_app, flat_len_cons. unfold rec_size, hdr_size. cbn [snd flat]. rewrite len_nil. lia.
  - apply Forall_app. split; [exact (inv_recs _ _ HI)|]. constructor; [|constructor].
    split; [cbn [fst]; unfold invalid_id, W64 in *; lia | exact Hsd].
  - rewrite live_app, map_app. cbn [live filter]. rewrite Hlive. cbn [negb map fst].
    eapply Permutation_NoDup; [apply Permutation_cons_append|]. constructor; [assumption | exact (inv_nodup_live _ _ HI)].
  - apply update_nodup. exact (inv_nodup_infos _ _ HI).
  - intros id'. rewrite find_live_app. rewrite <- (inv_infos _ _ HI). rewrite <- (inv_size _ _ HI).
    destruct (N.eq_dec id' id) as [->|Hne].
    + rewrite lookup_update_eq. rewrite (inv_infos _ _ HI), Hnone. cbn [find_live fst snd].
      rewrite N.eqb_refl, Hlive. cbn [negb andb]. unfold hdr_size. reflexivity.
    + rewrite lookup_update_neq by assumption. destruct (lookup (st_infos st) id'); [reflexivity|].
      cbn [find_live fst]. assert ((id =? id') = false) as -> by (apply N.eqb_neq; congruence). reflexivity.
  - rewrite tomb_bytes_app. cbn [tomb_bytes]. rewrite Hlive. rewrite (inv_free _ _ HI). lia.
  - destruct (st_freeStart st =? st_fileSize st) eqn:E.
    + apply N.eqb_eq in E. apply no_tomb_of_zero. rewrite tomb_bytes_app. cbn [tomb_bytes]. rewrite Hlive.
      rewrite (no_tomb_zero rs 8 (st_freeStart st)); [reflexivity | exact (inv_notomb _ _ HI) | rewrite E, (inv_size _ _ HI); lia].
    + apply no_tomb_app. split; [exact (inv_notomb _ _ HI)|]. cbn [no_tomb_before]. rewrite Hlive. split; [discriminate|exact I].
  - destruct (st_freeStart st =? st_fileSize st) eqn:E.
    + apply N.eqb_eq in E. rewrite E, (inv_size _ _ HI).
      replace (8 + len (flat rs) + hdr_size + len body) with (8 + len (flat (rs ++ [(id, body)]))).
      * apply boundary_end.
      * rewrite flat_app, len_app, flat_len_cons. unfold rec_size, hdr_size. cbn [snd flat]. rewrite len_nil. lia.
    + apply boundary_app_l. exact (inv_boundary _ _ HI).
Qed.

Definition store_rs (rs : list rec) (id : N) (body : list N) : list rec :=
  let rs1 := kill rs id in
  (if should_compact_rs rs1 then live rs1 else rs1) ++ [(id, body)].

Lemma find_live_live_some : forall rs off id v, find_live (live rs) off id = Some v ->
  exists v', find_live rs 8 id = Some v'.
Proof.
  intros rs off id v H. apply find_live_some_of_in. rewrite <- live_live. eapply find_live_in. exact H.
Qed.

Theorem set_data_inv : forall st rs id t0 cs,
  Inv st rs -> id < invalid_id -> sd (encode_record t0 (filter nonempty cs)) ->
  exists st', set_data fx_all st id t0 cs = Some st' /\
              Inv st' (store_rs rs id (encode_record t0 (filter nonempty cs))).
Proof.
  intros st rs id t0 cs HI Hid Hsd. unfold set_data, store_rs. cbn [fx_empty fx_tomb fx_all].
  pose proof (free_stream_inv st rs id HI) as H1.
  assert (Hk : find_live (kill rs id) 8 id = None) by (apply find_live_kill_eq; exact (inv_nodup_live _ _ HI)).
  rewrite (should_compact_inv _ _ H1).
  destruct (should_compact_rs (kill rs id)).
  - destruct (truncate_file_inv _ _ H1) as (st2 & Ht & H2 & _). rewrite Ht.
    eexists. split; [reflexivity|]. apply (append_inv st2); try assumption.
    destruct (find_live (live (kill rs id)) 8 id) as [v|] eqn:E; [|reflexivity].
    destruct (find_live_live_some _ _ _ _ E) as [v' Hv']. congruence.
  - eexists. split; [reflexivity|]. apply (append_inv (free_stream fx_all st id)); assumption.
Qed.
