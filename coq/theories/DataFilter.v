(* C04 model, part 2: /repo/internal/index/search_data.go without sub-query variants.
   find            = progressVariant.find (min-length test, prefix skip, suffix cut, fixed-length window,
                     offset bump), as fixed by fixes/C04-1-assertion-shortcuts.patch when [guard] is true
   attempt / pass / group_loop = the re-check loop of makeDataConditionFilter over shared expressions
   source_eval / stream_selected = success / fail accounting over data sources, negation
   *_spec          = the property: plain left-to-right scan in conversation order.
   Definitions only. *)
From Coq Require Import List NArith Bool Arith.
Import ListNotations.
Require Import Pk.RegexProg Pk.Regex.
Local Open Scope nat_scope.

(* ------------------------------------------------------------------ bytes.Index / bytes.LastIndex *)
Fixpoint is_prefix (a t : list N) : bool :=
  match a, t with
  | [], _ => true
  | x :: a', y :: t' => N.eqb x y && is_prefix a' t'
  | _ :: _, [] => false
  end.

(* first i >= 0 with needle at t[i:] *)
Fixpoint index_of (needle t : list N) : option nat :=
  if is_prefix needle t then Some 0
  else match t with
       | [] => None
       | _ :: t' => match index_of needle t' with Some i => Some (S i) | None => None end
       end.

(* last such i *)
Fixpoint last_index_of (needle t : list N) : option nat :=
  match t with
  | [] => if is_prefix needle [] then Some 0 else None
  | _ :: t' => match last_index_of needle t' with
               | Some i => Some (S i)
               | None => if is_prefix needle t then Some 0 else None
               end
  end.

(* ------------------------------------------------------------------ one expression with the facts finalize() derives *)
Record facts := mkFacts { f_prefix : list N; f_suffix : list N; f_min : N; f_max : N }.
(* r_names: Regexp.SubexpNames() -- per group index the variable it binds (index 0 = the whole match, never named) *)
Record rx := mkRx { r_prog : prog; r_ncap : nat; r_facts : facts; r_names : list (option nat) }.

Definition plain (F : nat) (r : rx) (buffer : list N) : option caps := search F (r_prog r) (r_ncap r) buffer.

Definition context_sensitive (r : rx) : bool := negb (assertion_free (r_prog r)).

Definition too_short (buffer : list N) (mn : N) : bool := N.ltb (N.of_nat (length buffer)) mn.

(* the fixed-length window loop; [fuel] >= length buffer + 1 *)
Fixpoint window (F : nat) (r : rx) (fuel : nat) (total : nat) (buffer : list N) (off : nat) : option caps * nat :=
  match fuel with
  | O => (None, total)
  | S f =>
    let fx := r_facts r in
    let n := N.to_nat (f_min fx) in
    let before_suffix := n - length (f_suffix fx) in
    match index_of (f_suffix fx) (skipn before_suffix buffer) with
    | None => (None, total)
    | Some pos =>
      let off := off + pos in
      let buffer := skipn pos buffer in
      match plain F r (firstn n buffer) with
      | Some res => (Some res, off)
      | None => window F r f total (tl buffer) (S off)
      end
    end
  end.

(* progressVariant.find: result (indices relative to the returned offset) and the new stream offset of [dir] *)
Definition find (F : nat) (guard : bool) (r : rx) (data : list N) (off : nat) : option caps * nat :=
  let fx := r_facts r in
  let total := length data in
  let buffer := skipn off data in
  if guard && context_sensitive r then (plain F r buffer, off)
  else if too_short buffer (f_min fx) then (None, off)
  else
    (* prefix *)
    let step1 : option (list N * nat) :=
      match f_prefix fx with
      | [] => Some (buffer, off)
      | _ => match index_of (f_prefix fx) buffer with
             | None => None
             | Some pos => Some (skipn pos buffer, off + pos)
             end
      end in
    match step1 with
    | None => (None, total)
    | Some (buffer, off) =>
      if match f_prefix fx with [] => false | _ => too_short buffer (f_min fx) end then (None, off)
      else
        let step2 : option (list N) :=
          match f_suffix fx with
          | [] => Some buffer
          | _ => match last_index_of (f_suffix fx) buffer with
                 | None => None
                 | Some pos => Some (firstn (pos + length (f_suffix fx)) buffer)
                 end
          end in
        match step2 with
        | None => (None, total)
        | Some buffer =>
          if match f_suffix fx with [] => false | _ => too_short buffer (f_min fx) end then (None, off)
          else if N.eqb (f_min fx) (f_max fx) && match f_prefix fx with [] => true | _ => false end
                  && match f_suffix fx with [] => false | _ => true end
          then window F r (S (length buffer)) total buffer off
          else match plain F r buffer with
               | Some res => (Some res, off)
               | None => (None, total)
               end
        end
    end.

(* ------------------------------------------------------------------ a data source: chunks in conversation order *)
Definition chunk := (bool * list N)%type.            (* false = client to server, true = server to client *)
Definition source := list chunk.

Definition dir_data (d : bool) (s : source) : list N :=
  concat (map (fun c : chunk => if Bool.eqb (fst c) d then snd c else []) s).

(* bufferLengths: cumulative sizes (client, server) at every chunk boundary, starting with (0,0) *)
Fixpoint cumul (s : source) (c sv : nat) : list (nat * nat) :=
  (c, sv) :: match s with
             | [] => []
             | (d, x) :: r => if d then cumul r c (sv + length x) else cumul r (c + length x) sv
             end.
Definition sel (d : bool) (p : nat * nat) : nat := if d then snd p else fst p.

(* for i := len-1; ; i-- { if bl[i-1][dir] < off { other = bl[i][other]; break } } ; scanned on the reversed list *)
Fixpoint boundary_scan (d : bool) (off : nat) (rev_bl : list (nat * nat)) : option nat :=
  match rev_bl with
  | cur :: ((prev :: _) as rest) => if sel d prev <? off then Some (sel (negb d) cur) else boundary_scan d off rest
  | _ => None                                           (* i-1 < 0: Go would panic; excluded since off > 0 *)
  end.
Definition boundary (s : source) (d : bool) (off : nat) : option nat := boundary_scan d off (rev (cumul s 0 0)).

(* ------------------------------------------------------------------ conditions and progress *)
(* An element either is a fixed expression of the table, or uses variables captured by earlier elements of its
   sequence (@name@): then finalize() compiles a precondition [pre] (every use replaced by "any bytes"), and only after
   that matched, prepare() compiles the expression with QuoteMeta of the captured values substituted. The compiler is
   not modelled: [table] lists, for the value tuples that can arise, the table index of the compiled substitution
   (dumped by the harness; a value tuple that is not listed makes the evaluation report MISSING). *)
Definition value := list N.
Inductive eref := EFixed (k : nat) | ESubst (pre : nat) (uses : list nat) (table : list (list value * nat)).
Record elem := mkElem { e_dir : bool; e_ref : eref }.
Definition e_rx (e : elem) : nat := match e_ref e with EFixed k => k | ESubst pre _ _ => pre end.   (* sharing identity *)
Record cond := mkCond { c_inv : bool; c_elems : list elem }.

(* p_pre: progressVariantFlagStatePreconditionMatched; p_err: 0 none, 1 "variable not defined", 2 "variable already seen",
   3 index out of range / no table entry (MISSING) *)
Record progress := mkProgress { p_offc : nat; p_offs : nat; p_n : nat; p_pre : bool; p_vars : list (nat * value); p_err : nat }.
Definition progress0 := mkProgress 0 0 0 false [] 0.
Definition p_off (d : bool) (p : progress) : nat := if d then p_offs p else p_offc p.
Definition set_off (d : bool) (v : nat) (p : progress) : progress :=
  if d then mkProgress (p_offc p) v (p_n p) (p_pre p) (p_vars p) (p_err p)
  else mkProgress v (p_offs p) (p_n p) (p_pre p) (p_vars p) (p_err p).
Definition set_err (e : nat) (p : progress) : progress := mkProgress (p_offc p) (p_offs p) (p_n p) (p_pre p) (p_vars p) e.
Definition set_pre (b : bool) (p : progress) : progress := mkProgress (p_offc p) (p_offs p) (p_n p) b (p_vars p) (p_err p).
Definition set_vars (v : list (nat * value)) (p : progress) : progress := mkProgress (p_offc p) (p_offs p) (p_n p) (p_pre p) v (p_err p).
Definition matched (p : progress) : progress := mkProgress (p_offc p) (p_offs p) (S (p_n p)) false (p_vars p) (p_err p).

Definition match_end (res : caps) : nat := match nth_error res 1 with Some (Some e) => e | _ => 0 end.

(* variables *)
Fixpoint var_get (n : nat) (vars : list (nat * value)) : option value :=
  match vars with [] => None | (k, v) :: r => if Nat.eqb n k then Some v else var_get n r end.
Fixpoint vals_of (vars : list (nat * value)) (uses : list nat) : option (list value) :=
  match uses with
  | [] => Some []
  | u :: r => match var_get u vars, vals_of vars r with Some v, Some vs => Some (v :: vs) | _, _ => None end
  end.
Fixpoint value_eqb (a b : value) : bool :=
  match a, b with [], [] => true | x :: a', y :: b' => N.eqb x y && value_eqb a' b' | _, _ => false end.
Fixpoint values_eqb (a b : list value) : bool :=
  match a, b with [], [] => true | x :: a', y :: b' => value_eqb x y && values_eqb a' b' | _, _ => false end.
Fixpoint table_find (vs : list value) (table : list (list value * nat)) : option nat :=
  match table with [] => None | (k, i) :: r => if values_eqb vs k then Some i else table_find vs r end.

Inductive resolved := RRx (r : rx) | RUndefined | RMissing.
(* the expression an element is searched with, given the variables captured so far *)
Definition resolve (tbl : list rx) (e : elem) (vars : list (nat * value)) : resolved :=
  match e_ref e with
  | EFixed k => match nth_error tbl k with Some r => RRx r | None => RMissing end
  | ESubst _ uses table =>
    match vals_of vars uses with
    | None => RUndefined
    | Some vs => match table_find vs table with
                 | Some i => match nth_error tbl i with Some r => RRx r | None => RMissing end
                 | None => RMissing
                 end
    end
  end.

(* the bytes of group i of a match in [buffer]; a group that did not take part is the empty string *)
Definition cap_value (buffer : list N) (m : caps) (i : nat) : value :=
  match nth_error m (2 * i), nth_error m (2 * i + 1) with
  | Some (Some a), Some (Some b) => firstn (b - a) (skipn a buffer)
  | _, _ => []
  end.
(* `for i := 2; i < len(res); i += 2`: bind the named groups; None = "variable already seen" *)
Fixpoint bind_names (names : list (option nat)) (i : nat) (buffer : list N) (m : caps) (vars : list (nat * value))
  : option (list (nat * value)) :=
  match names with
  | [] => Some vars
  | None :: r => bind_names r (S i) buffer m vars
  | Some nm :: r => match var_get nm vars with
                    | Some _ => None
                    | None => bind_names r (S i) buffer m (vars ++ [(nm, cap_value buffer m i)])
                    end
  end.
Definition bind (r : rx) (buffer : list N) (m : caps) (vars : list (nat * value)) : option (list (nat * value)) :=
  bind_names (tl (r_names r)) 1 buffer m vars.

(* after a successful find of the expression r from offset [off] (already stored in p) *)
Definition after_find (s : source) (c : cond) (d : bool) (r : rx) (off : nat) (m : caps) (p : progress) : progress :=
  let p := matched p in
  if Nat.eqb (p_n p) (length (c_elems c)) && c_inv c then p
  else match bind r (skipn off (dir_data d s)) m (p_vars p) with
       | None => set_err 2 p
       | Some vs =>
         let p := set_vars vs p in
         if Nat.eqb (match_end m) 0 then p
         else let p := set_off d (off + match_end m) p in
              match boundary s d (p_off d p) with
              | Some o => set_off (negb d) o p
              | None => set_err 3 p
              end
       end.

(* prepare() + find() with the expression itself *)
Definition exact_stage (F : nat) (guard : bool) (tbl : list rx) (s : source) (c : cond) (e : elem) (p : progress) : progress :=
  match resolve tbl e (p_vars p) with
  | RUndefined => set_err 1 p
  | RMissing => set_err 3 p
  | RRx r =>
    let d := e_dir e in
    let (res, off) := find F guard r (dir_data d s) (p_off d p) in
    let p := set_off d off p in
    match res with
    | None => p
    | Some m => after_find s c d r off m p
    end
  end.

(* one visit of the loop body for occurrence (condition c, element index k) *)
Definition attempt (F : nat) (guard : bool) (tbl : list rx) (s : source) (c : cond) (k : nat) (p : progress) : progress :=
  if negb (Nat.eqb k (p_n p)) then p
  else if negb (Nat.eqb (p_err p) 0) then p                    (* the filter has returned the error *)
  else match nth_error (c_elems c) k with
       | None => p
       | Some e =>
         match e_ref e with
         | EFixed _ => exact_stage F guard tbl s c e p
         | ESubst pre _ _ =>
           if p_pre p then exact_stage F guard tbl s c e p
           else match nth_error tbl pre with
                | None => set_err 3 p
                | Some r =>
                  let d := e_dir e in
                  let (res, off) := find F guard r (dir_data d s) (p_off d p) in
                  let p := set_off d off p in
                  match res with
                  | None => p
                  | Some _ => set_pre true p                   (* flags += PreconditionMatched - Precondition; recheck *)
                  end
                end
         end
       end.

(* the order in which the loop visits (condition, element) pairs: expressions sorted by their first
   occurrence (element, condition), occurrences of one expression sorted the same way *)
Definition occ := (nat * nat)%type.                                          (* (condition, element) *)
Definition occ_lt (a b : occ) : bool := (snd a <? snd b) || (Nat.eqb (snd a) (snd b) && (fst a <? fst b)).
Fixpoint insert_occ (x : occ) (l : list occ) : list occ :=
  match l with [] => [x] | y :: r => if occ_lt x y then x :: l else y :: insert_occ x r end.
Definition sort_occ (l : list occ) : list occ := fold_right insert_occ [] l.

Fixpoint elems_occ (ci k : nat) (es : list elem) : list (nat * occ) :=      (* (expression, occurrence) *)
  match es with [] => [] | e :: r => (e_rx e, (ci, k)) :: elems_occ ci (S k) r end.
Fixpoint conds_occ (ci : nat) (cs : list cond) : list (nat * occ) :=
  match cs with [] => [] | c :: r => elems_occ ci 0 (c_elems c) ++ conds_occ (S ci) r end.

Fixpoint group_add (x : nat * occ) (gs : list (nat * list occ)) : list (nat * list occ) :=
  match gs with
  | [] => [(fst x, [snd x])]
  | (k, l) :: r => if Nat.eqb k (fst x) then (k, l ++ [snd x]) :: r else (k, l) :: group_add x r
  end.
Definition head_occ (g : nat * list occ) : occ := match snd g with o :: _ => o | [] => (0, 0) end.
Fixpoint insert_group (g : nat * list occ) (l : list (nat * list occ)) : list (nat * list occ) :=
  match l with [] => [g] | h :: r => if occ_lt (head_occ g) (head_occ h) then g :: l else h :: insert_group g r end.

Definition visit_order (cs : list cond) : list occ :=
  let groups := fold_left (fun gs x => group_add x gs) (conds_occ 0 cs) [] in
  let groups := map (fun g : nat * list occ => (fst g, sort_occ (snd g))) groups in
  concat (map (fun g : nat * list occ => snd g) (fold_right insert_group [] groups)).

Fixpoint update {A} (n : nat) (f : A -> A) (l : list A) : list A :=
  match l, n with
  | [], _ => []
  | x :: r, O => f x :: r
  | x :: r, S n' => x :: update n' f r
  end.

(* did this visit advance its sequence to a state that is not yet complete? (sets recheckRegexes) *)
Definition advanced_incomplete (c : cond) (p p' : progress) : bool :=
  (negb (Nat.eqb (p_n p') (p_n p)) && negb (Nat.eqb (p_n p') (length (c_elems c))))
  || (negb (p_pre p) && p_pre p').

Definition visit (F : nat) (guard : bool) (tbl : list rx) (s : source) (cs : list cond) (st : list progress * bool) (o : occ) : list progress * bool :=
  match nth_error cs (fst o), nth_error (fst st) (fst o) with
  | Some c, Some p =>
      let p' := attempt F guard tbl s c (snd o) p in
      (update (fst o) (fun _ => p') (fst st), snd st || advanced_incomplete c p p')
  | _, _ => st
  end.

Definition pass (F : nat) (guard : bool) (tbl : list rx) (s : source) (cs : list cond) (order : list occ) (ps : list progress) : list progress * bool :=
  fold_left (visit F guard tbl s cs) order (ps, false).

(* `for recheckRegexes := true; recheckRegexes; { recheckRegexes = false; ... }` *)
Fixpoint group_loop (F : nat) (guard : bool) (tbl : list rx) (s : source) (cs : list cond) (order : list occ) (fuel : nat) (ps : list progress)
  : list progress :=
  match fuel with
  | O => ps
  | S f => let (ps', again) := pass F guard tbl s cs order ps in
           if again then group_loop F guard tbl s cs order f ps' else ps'
  end.

Definition loop_fuel (cs : list cond) : nat := S (2 * fold_right (fun c a => length (c_elems c) + a) 0 cs).

Definition source_eval (F : nat) (guard : bool) (tbl : list rx) (cs : list cond) (s : source) : list progress :=
  group_loop F guard tbl s cs (visit_order cs) (loop_fuel cs) (map (fun _ => progress0) cs).

(* success of one condition on one source: `nUnsuccessful >= 2 || (nUnsuccessful != 0) != d.Inverted` fails *)
Definition cond_success (c : cond) (p : progress) : bool :=
  let un := length (c_elems c) - p_n p in
  negb ((2 <=? un) || negb (Bool.eqb (negb (Nat.eqb un 0)) (c_inv c))).

(* ------------------------------------------------------------------ data sources of a stream *)
Inductive conv_name := CAny | CNone | COne (i : nat).
Record stream := mkStream { s_raw : source; s_conv : list (option source) }.

Fixpoint some_list {A} (l : list (option A)) : list A :=
  match l with [] => [] | Some x :: r => x :: some_list r | None :: r => some_list r end.

Definition sources_of (cn : conv_name) (st : stream) : list source :=
  match cn with
  | CNone => [s_raw st]
  | CAny => s_raw st :: some_list (s_conv st)
  | COne i => match nth_error (s_conv st) i with Some (Some s) => [s] | _ => [] end
  end.

Definition count_true (l : list bool) : nat := length (filter (fun b => b) l).

(* the accounting at the end of the filter (no variants): per condition successes / fails over the evaluated sources:
   `successes == 0` -> no; `fails == 0` -> yes; both -> yes unless the condition is inverted *)
Definition decide (inv : bool) (bs : list bool) : bool :=
  let succ := count_true bs in
  let fails := length bs - succ in
  if Nat.eqb succ 0 then false else if Nat.eqb fails 0 then true else negb inv.

Definition cond_results (F : nat) (guard : bool) (tbl : list rx) (cs : list cond) (srcs : list source) (ci : nat) : list bool :=
  map (fun ps => match nth_error cs ci, nth_error ps ci with
                 | Some c, Some p => cond_success c p | _, _ => false end)
      (map (source_eval F guard tbl cs) srcs).

Definition conj_selected (F : nat) (guard : bool) (tbl : list rx) (cn : conv_name) (cs : list cond) (st : stream) : bool :=
  let srcs := sources_of cn st in
  match srcs with
  | [] => forallb c_inv cs
  | _ => forallb (fun pr : cond * list bool => decide (c_inv (fst pr)) (snd pr))
                 (List.combine cs (map (cond_results F guard tbl cs srcs) (seq 0 (length cs))))
  end.

(* the error the filter returns for this stream (0 = none): the first one in source order, condition order *)
Definition first_err (F : nat) (guard : bool) (tbl : list rx) (cn : conv_name) (cs : list cond) (st : stream) : nat :=
  fold_left (fun acc s => if Nat.eqb acc 0
                          then fold_left (fun a p => if Nat.eqb a 0 then p_err p else a) (source_eval F guard tbl cs s) 0
                          else acc)
            (sources_of cn st) 0.

Definition stream_selected (F : nat) (guard : bool) (tbl : list rx) (cn : conv_name) (ors : list (list cond)) (st : stream) : bool :=
  existsb (fun cs => conj_selected F guard tbl cn cs st) ors.

(* ------------------------------------------------------------------ the specification: plain scan in conversation order *)
(* start of the first chunk of direction (negb d) that begins after the chunk of direction d holding byte off-1 *)
Fixpoint boundary_spec (s : source) (d : bool) (off : nat) (cd co : nat) : option nat :=
  match s with
  | [] => None
  | (d', x) :: r =>
    if Bool.eqb d' d
    then if (cd <? off) && (off <=? cd + length x) then Some co else boundary_spec r d off (cd + length x) co
    else boundary_spec r d off cd (co + length x)
  end.

(* number of leading elements matched, each by a plain scan -- with the expression in which the variables captured so
   far are substituted -- of the data that follows the previous match *)
Fixpoint seq_spec (F : nat) (tbl : list rx) (s : source) (es : list elem) (offc offs : nat) (vars : list (nat * value)) : nat :=
  match es with
  | [] => 0
  | e :: r =>
    match resolve tbl e vars with
    | RUndefined | RMissing => 0
    | RRx x =>
      let d := e_dir e in
      let off := if d then offs else offc in
      let buffer := skipn off (dir_data d s) in
      match plain F x buffer with
      | None => 0
      | Some m =>
        let vars' := match bind x buffer m vars with Some v => v | None => vars end in
        let en := match_end m in
        if Nat.eqb en 0 then S (seq_spec F tbl s r offc offs vars')
        else let off' := off + en in
             let other := match boundary_spec s d off' 0 0 with Some o => o | None => 0 end in
             S (if d then seq_spec F tbl s r other off' vars' else seq_spec F tbl s r off' other vars')
      end
    end
  end.

Definition cond_holds_spec (F : nat) (tbl : list rx) (c : cond) (s : source) : bool :=
  let n := seq_spec F tbl s (c_elems c) 0 0 [] in
  if c_inv c then Nat.eqb (S n) (length (c_elems c)) else Nat.eqb n (length (c_elems c)).

Definition conj_spec (F : nat) (tbl : list rx) (cn : conv_name) (cs : list cond) (st : stream) : bool :=
  let srcs := sources_of cn st in
  forallb (fun c => if c_inv c then forallb (cond_holds_spec F tbl c) srcs
                    else existsb (cond_holds_spec F tbl c) srcs) cs.

Definition stream_spec (F : nat) (tbl : list rx) (cn : conv_name) (ors : list (list cond)) (st : stream) : bool :=
  existsb (fun cs => conj_spec F tbl cn cs st) ors.
