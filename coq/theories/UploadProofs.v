(* C19 -- proofs about the model of Upload.v. *)
From Coq Require Import List NArith Bool Lia.
Import ListNotations.
Require Import Pk.Upload.
Open Scope N_scope.
Local Arguments N.eqb : simpl never.

(* ------------------------------------------------------------------ strings *)
Lemma str_eqb_eq : forall a b, str_eqb a b = true <-> a = b.
Proof.
  induction a as [|x a IH]; destruct b as [|y b]; simpl; split; intro H; try congruence; auto.
  - apply andb_true_iff in H. destruct H as [H1 H2]. apply N.eqb_eq in H1. apply IH in H2. congruence.
  - inversion H; subst. apply andb_true_iff. split. apply N.eqb_refl. apply IH. reflexivity.
Qed.

Lemma str_eqb_refl : forall a, str_eqb a a = true.
Proof. intro a. apply str_eqb_eq. reflexivity. Qed.

Lemma str_eqb_neq : forall a b, str_eqb a b = false <-> a <> b.
Proof.
  intros a b. split; intro H.
  - intro E. apply str_eqb_eq in E. congruence.
  - destruct (str_eqb a b) eqn:E; auto. apply str_eqb_eq in E. contradiction.
Qed.

Lemma has_slash_false : forall p, has_slash p = false <-> ~ In SLASH p.
Proof.
  unfold has_slash. induction p as [|c r IH]; simpl.
  - split; auto.
  - rewrite orb_false_iff, IH. split.
    + intros [H1 H2] [H | H]; auto. apply N.eqb_neq in H1. congruence.
    + intro H. split.
      * destruct (N.eqb_spec SLASH c); auto. exfalso. apply H. left. auto.
      * intro H'. apply H. right. exact H'.
Qed.

(* ------------------------------------------------------------------ Base *)
Lemma last_seg_no_slash : forall p, has_slash (last_seg p) = false.
Proof.
  induction p as [|c r IH]; simpl; auto.
  destruct (has_slash r) eqn:E; auto.
  destruct (N.eqb_spec c SLASH) as [H|H]; auto.
  unfold has_slash in *. simpl. rewrite E.
  destruct (N.eqb_spec SLASH c); auto. congruence.
Qed.

Lemma base_fix : forall f, base f = f -> f = [SLASH] \/ (f <> [] /\ has_slash f = false).
Proof.
  intros f H. destruct f as [|c r].
  - discriminate H.
  - unfold base in H. remember (last_seg (strip_trailing (c :: r))) as q eqn:Q.
    destruct q as [|x q'].
    + left. symmetry. exact H.
    + right. split. discriminate. rewrite <- H, Q. apply last_seg_no_slash.
Qed.

(* the guard lets exactly these through *)
Theorem guard_passes : forall f,
  guard_ok GuardNeBase f = true -> f = [SLASH] \/ (f <> [] /\ ~ In SLASH f).
Proof.
  intros f H. simpl in H. apply str_eqb_eq in H. symmetry in H.
  destruct (base_fix f H) as [E | [E1 E2]]; auto.
  right. split; auto. apply has_slash_false. exact E2.
Qed.

Theorem accept_safe : forall r f,
  route_excludes_special r = true -> accept GuardNeBase r f = true -> safe_name f.
Proof.
  intros r f HX HA. unfold accept in HA. apply andb_true_iff in HA. destruct HA as [HM HG].
  unfold route_excludes_special in HX. repeat rewrite andb_true_iff in HX.
  destruct HX as [[[X0 X1] X2] X3]. rewrite negb_true_iff in X0, X1, X2, X3.
  destruct (guard_passes f HG) as [E | [E1 E2]].
  - subst. congruence.
  - unfold safe_name. repeat split; auto; intro E; subst; congruence.
Qed.

(* chi never hands a segment containing '/' to the handler (model of its matching) *)
Lemma route_match_no_slash : forall pre r path seg,
  route_match pre r path = Some seg -> seg <> [] /\ ~ In SLASH seg /\ re_match r seg = true.
Proof.
  intros pre r path seg H. unfold route_match in H.
  destruct (strip_prefix pre path) as [s|]; try discriminate.
  destruct (negb (is_nil s) && negb (has_slash s) && re_match r s) eqn:E; try discriminate.
  inversion H; subst. repeat rewrite andb_true_iff in E. destruct E as [[E1 E2] E3].
  rewrite negb_true_iff in E1, E2. split; [|split]; auto.
  - intro; subst; discriminate.
  - apply has_slash_false. exact E2.
Qed.

(* ------------------------------------------------------------------ Clean / Join *)
Lemma split_nonempty : forall p, split_slash p <> [].
Proof.
  induction p as [|c r IH]; simpl. discriminate.
  destruct (c =? SLASH). discriminate. destruct (split_slash r); discriminate.
Qed.

Lemma split_app : forall a b, split_slash (a ++ SLASH :: b) = split_slash a ++ split_slash b.
Proof.
  induction a as [|c a IH]; intro b; simpl.
  - reflexivity.
  - destruct (c =? SLASH).
    + rewrite IH. reflexivity.
    + rewrite IH. pose proof (split_nonempty a) as NE.
      destruct (split_slash a) as [|h t]; [contradiction|]. reflexivity.
Qed.

Lemma split_noslash : forall f, has_slash f = false -> split_slash f = [f].
Proof.
  unfold has_slash. induction f as [|c r IH]; simpl; intro H; auto.
  apply orb_false_iff in H. destruct H as [H1 H2].
  rewrite N.eqb_sym in H1. rewrite H1. rewrite (IH H2). reflexivity.
Qed.

Lemma split_comps_noslash : forall p, Forall (fun c => has_slash c = false) (split_slash p).
Proof.
  induction p as [|c r IH]; simpl.
  - constructor; auto.
  - destruct (N.eqb_spec c SLASH) as [E|E].
    + constructor; auto.
    + destruct (split_slash r) as [|h t].
      * constructor; auto. unfold has_slash. simpl.
        destruct (N.eqb_spec SLASH c); auto. congruence.
      * inversion IH; subst. constructor; auto. unfold has_slash in *. simpl.
        destruct (N.eqb_spec SLASH c); auto. congruence.
Qed.

Lemma join_slash_snoc : forall l f,
  join_slash (l ++ [f]) = match l with [] => f | _ => join_slash l ++ SLASH :: f end.
Proof.
  induction l as [|x l IH]; intro f; simpl; auto.
  rewrite IH. destruct l as [|y l']; simpl; auto.
  rewrite <- app_assoc. reflexivity.
Qed.

Definition good_comp (c : str) : Prop := c <> [] /\ is_dot c = false /\ has_slash c = false.

Lemma clean_step_good : forall rooted st c,
  Forall good_comp st -> has_slash c = false -> Forall good_comp (clean_step rooted st c).
Proof.
  intros rooted st c HS HC. unfold clean_step.
  destruct (is_nil c) eqn:N1; simpl; auto.
  destruct (is_dot c) eqn:N2; simpl; auto.
  assert (G : good_comp c).
  { unfold good_comp. repeat split; auto. intro; subst; discriminate. }
  destruct (is_dotdot c) eqn:N3.
  - destruct st as [|top rest].
    + destruct rooted; auto.
    + destruct (is_dotdot top); auto. inversion HS; auto.
  - constructor; auto.
Qed.

Lemma fold_clean_good : forall rooted l st,
  Forall good_comp st -> Forall (fun c => has_slash c = false) l ->
  Forall good_comp (fold_left (clean_step rooted) l st).
Proof.
  induction l as [|c l IH]; intros st HS HL; simpl; auto.
  inversion HL; subst. apply IH; auto. apply clean_step_good; auto.
Qed.

Lemma good_head_not_slash : forall c, good_comp c -> exists x r, c = x :: r /\ x <> SLASH.
Proof.
  intros c [H1 [_ H3]]. destruct c as [|x r]; [contradiction|].
  exists x, r. split; auto. intro E. subst. unfold has_slash in H3. simpl in H3. discriminate.
Qed.

(* the text of a non-empty stack of good components *)
Lemma join_good : forall l, l <> [] -> Forall good_comp l ->
  exists x r, join_slash l = x :: r /\ x <> SLASH /\ is_dot (join_slash l) = false.
Proof.
  intros l NE HF. destruct l as [|c l']; [contradiction|].
  inversion HF as [|? ? G HF']; subst.
  destruct (good_head_not_slash c G) as [x [r [E NX]]].
  destruct l' as [|d l''].
  - simpl. exists x, r. repeat split; auto. destruct G as [_ [G2 _]]. exact G2.
  - simpl. subst c. exists x, (r ++ SLASH :: join_slash (d :: l'')). repeat split; auto.
    unfold is_dot. simpl. destruct (x =? DOT); auto. simpl. destruct r; reflexivity.
Qed.

Lemma safe_plain : forall rooted st f, safe_name f -> clean_step rooted st f = f :: st.
Proof.
  intros rooted st f [H1 [H2 [H3 H4]]]. unfold clean_step.
  destruct f as [|c r]; [contradiction|]. simpl.
  destruct (is_dot (c :: r)) eqn:E1. { apply str_eqb_eq in E1. contradiction. }
  destruct (is_dotdot (c :: r)) eqn:E2. { apply str_eqb_eq in E2. contradiction. }
  reflexivity.
Qed.

Lemma safe_noslash : forall f, safe_name f -> has_slash f = false.
Proof. intros f [_ [_ [_ H]]]. apply has_slash_false. exact H. Qed.

Lemma rooted_app : forall X Y, X <> [] -> is_rooted (X ++ Y) = is_rooted X.
Proof. intros [|c X] Y H; [contradiction|]. reflexivity. Qed.

Definition clean_body (p : str) : str :=
  let rooted := is_rooted p in
  let body := join_slash (rev (fold_left (clean_step rooted) (split_slash p) [])) in
  if rooted then SLASH :: body else if is_nil body then [DOT] else body.

Lemma clean_ne : forall p, p <> [] -> clean p = clean_body p.
Proof. intros [|c r] H; [contradiction|reflexivity]. Qed.

Lemma clean_snoc : forall X f, X <> [] -> safe_name f ->
  clean (X ++ SLASH :: f) = child (clean X) f.
Proof.
  intros X f NE SF.
  assert (NS := safe_noslash f SF).
  rewrite (clean_ne X NE).
  rewrite clean_ne by (destruct X; discriminate).
  unfold clean_body.
  rewrite rooted_app by exact NE.
  rewrite split_app, (split_noslash f NS), fold_left_app.
  set (st := fold_left (clean_step (is_rooted X)) (split_slash X) []).
  simpl fold_left. rewrite (safe_plain _ _ f SF). simpl rev. rewrite join_slash_snoc.
  assert (G : Forall good_comp (rev st)).
  { apply Forall_rev. apply fold_clean_good. constructor. apply split_comps_noslash. }
  assert (FNE : f <> []) by (destruct SF; auto).
  destruct (rev st) as [|h t] eqn:ER.
  - (* nothing kept: X cleans to "/" or "." *)
    simpl join_slash. destruct (is_rooted X).
    + reflexivity.
    + simpl. destruct f; [contradiction|]. reflexivity.
  - assert (NE3 : h :: t <> []) by discriminate.
    destruct (join_good (h :: t) NE3 G) as [x [r [EJ [NX ND]]]].
    rewrite EJ in *.
    destruct (is_rooted X).
    + unfold child. simpl is_nil. simpl orb.
      assert (E1 : is_dot (SLASH :: x :: r) = false) by reflexivity. rewrite E1.
      assert (E2 : str_eqb (SLASH :: x :: r) [SLASH] = false) by reflexivity. rewrite E2.
      reflexivity.
    + simpl is_nil. cbv iota. unfold child. rewrite ND. simpl is_nil. simpl orb.
      assert (E2 : str_eqb (x :: r) [SLASH] = false).
      { simpl. destruct (N.eqb_spec x SLASH); auto. contradiction. }
      rewrite E2. reflexivity.
Qed.

Lemma clean_plain : forall f, safe_name f -> clean f = f.
Proof.
  intros f SF. assert (NS := safe_noslash f SF).
  unfold clean. destruct f as [|c r] eqn:EF. { destruct SF as [H _]. contradiction. }
  rewrite <- EF in *. rewrite (split_noslash f NS). simpl fold_left.
  rewrite (safe_plain _ _ f SF). simpl.
  assert (R : is_rooted f = false).
  { subst f. simpl. unfold has_slash in NS. simpl in NS. apply orb_false_iff in NS.
    destruct NS as [N1 _]. rewrite N.eqb_sym. exact N1. }
  rewrite R. subst f. reflexivity.
Qed.

(* Join(base, pcap, f) is the direct child f of Join(base, pcap) *)
Theorem join3_child : forall bd pd f, safe_name f ->
  join [bd; pd; f] = child (join [bd; pd]) f.
Proof.
  intros bd pd f SF. unfold join.
  destruct bd as [|b0 bd'].
  - destruct pd as [|p0 pd'].
    + rewrite <- (clean_plain f SF) at 2.
      destruct f as [|c r]. { destruct SF as [H _]. contradiction. }
      reflexivity.
    + simpl drop_empty. simpl join_slash.
      change (clean ((p0 :: pd') ++ SLASH :: f) = child (clean (p0 :: pd')) f).
      apply clean_snoc; auto. discriminate.
  - cbn [drop_empty is_nil].
    remember (b0 :: bd') as bd eqn:EB.
    assert (E : join_slash [bd; pd; f] = join_slash [bd; pd] ++ SLASH :: f).
    { simpl. rewrite <- app_assoc. reflexivity. }
    change (clean (join_slash [bd; pd; f]) = child (clean (join_slash [bd; pd])) f).
    rewrite E. apply clean_snoc; auto. subst bd. simpl. discriminate.
Qed.

(* the target has f as its last component and nothing of f leaks into the directory part *)
Lemma child_split : forall d f, safe_name f ->
  exists pre, child d f = pre ++ f /\ (pre = [] \/ exists d', pre = d' ++ [SLASH]).
Proof.
  intros d f SF. unfold child.
  destruct (is_nil d || is_dot d).
  - exists []. split; auto.
  - destruct (str_eqb d [SLASH]).
    + exists [SLASH]. split; auto. right. exists []. reflexivity.
    + exists (d ++ [SLASH]). split. rewrite <- app_assoc. reflexivity. right. exists d. reflexivity.
Qed.

(* ------------------------------------------------------------------ two uploads *)
Lemma firstn_snoc : forall (l : list N) k x, nth_error l k = Some x -> firstn (S k) l = firstn k l ++ [x].
Proof.
  induction l as [|a l IH]; intros k x H; destruct k; simpl in *; try discriminate.
  - inversion H; subst. destruct l; reflexivity.
  - f_equal. apply IH. exact H.
Qed.

Lemma firstn_none : forall (l : list N) k, nth_error l k = None -> firstn k l = l.
Proof. intros l k H. apply firstn_all2. apply nth_error_None. exact H. Qed.

Definition thread_ok (t : bool) (body : list N) (sh : shared) (p : pc) : Prop :=
  match p with
  | POpen => ~ In t (queued sh)
  | PCopy k => file sh = Some (firstn k body, Some t) /\ ~ In t (queued sh)
  | PClose | PQueue => file sh = Some (body, Some t) /\ ~ In t (queued sh)
  | PErrClose | PErrRemove => (exists c, file sh = Some (c, Some t)) /\ ~ In t (queued sh)
  | PDone true => file sh = Some (body, Some t) /\ In t (queued sh)
  | PDone false => ~ In t (queued sh)
  end.

(* a thread that is past its open and has not given up the file *)
Definition owns (p : pc) : bool :=
  match p with POpen | PDone false => false | _ => true end.

Lemma thread_ok_owns : forall t body sh p, thread_ok t body sh p -> owns p = true ->
  exists c, file sh = Some (c, Some t).
Proof.
  intros t body sh p H O. destruct p as [|k| | | | |[|]]; simpl in *; try discriminate;
    try (destruct H as [H _]; eauto); try (destruct H as [c H]; eauto).
Qed.

Lemma thread_ok_queued : forall t body sh p, thread_ok t body sh p ->
  (In t (queued sh) <-> p = PDone true).
Proof.
  intros t body sh p H. destruct p as [|k| | | | |[|]]; simpl in H; split; intro X; try discriminate X;
    try tauto; try (destruct H as [_ H]; contradiction).
Qed.

(* other thread's view is unaffected when the shared state changes only in ways this
   predicate allows *)
Lemma frame_other : forall t' body' p' sh sh',
  thread_ok t' body' sh p' ->
  (owns p' = true -> file sh' = file sh) ->
  (forall x, In x (queued sh') <-> In x (queued sh) \/ (x <> t' /\ In x (queued sh'))) ->
  (In t' (queued sh) -> In t' (queued sh')) ->
  thread_ok t' body' sh' p'.
Proof.
  intros t' body' p' sh sh' H HF HQ HK.
  assert (NQ : ~ In t' (queued sh) -> ~ In t' (queued sh')).
  { intros N I. apply HQ in I. destruct I as [I | [I _]]; auto. }
  destruct p' as [|k| | | | |[|]]; simpl in *; auto;
    try (destruct H as [H1 H2]; split; auto; rewrite HF; auto; fail).
Qed.

Record Inv (su : setup) (pre : option (list N)) (w : world) : Prop := {
  inv_bad : bad (w_sh w) = false;
  inv_nodup : NoDup (queued (w_sh w));
  inv_t1 : thread_ok true (s_body1 su) (w_sh w) (w_pc1 w);
  inv_t2 : thread_ok false (s_body2 su) (w_sh w) (w_pc2 w);
  inv_pre : forall c0, pre = Some c0 -> file (w_sh w) = Some (c0, None)
}.

Lemma created_by_self : forall t c, created_by t (c, Some t) = true.
Proof. intros [|] c; reflexivity. Qed.

(* one step of thread t, with the other thread t' <> t framed *)
Lemma step_thread_inv : forall t body pl sh p t' body' p' sh2 p2,
  t' <> t ->
  bad sh = false -> NoDup (queued sh) ->
  thread_ok t body sh p -> thread_ok t' body' sh p' ->
  step_thread true t body pl sh p = (sh2, p2) ->
  bad sh2 = false /\ NoDup (queued sh2) /\ thread_ok t body sh2 p2 /\ thread_ok t' body' sh2 p' /\
  (forall c0, file sh = Some (c0, None) -> file sh2 = Some (c0, None)).
Proof.
  intros t body pl sh p t' body' p' sh2 p2 NT HB ND HT HO HS.
  assert (OTH : owns p' = true -> exists c, file sh = Some (c, Some t')).
  { intro O. eapply thread_ok_owns; eauto. }
  destruct p as [|k| | | | |ok]; simpl in HS.
  - (* POpen *)
    destruct (file sh) as [f|] eqn:EF.
    + inversion HS; subst. simpl in *. repeat split; auto. rewrite EF. auto.
    + inversion HS; subst. simpl in *. repeat split; auto.
      * eapply frame_other; eauto; simpl.
        -- intro O. destruct (OTH O) as [c X]. congruence.
        -- intro x. tauto.
      * intros c0 X. discriminate X.
  - (* PCopy *)
    simpl in HT. destruct HT as [HF HQ].
    destruct (match copy_fail pl with Some k' => Nat.eqb k k' | None => false end).
    + inversion HS; subst. simpl. repeat split; eauto.
    + destruct (nth_error body k) as [ch|] eqn:EN.
      * rewrite HF in HS. inversion HS; subst. simpl in *.
        rewrite created_by_self, HB. simpl. repeat split; auto.
        -- rewrite <- (firstn_snoc _ _ _ EN). reflexivity.
        -- eapply frame_other; eauto; simpl.
           ++ intro O. destruct (OTH O) as [c X]. rewrite HF in X. inversion X. congruence.
           ++ intro x. tauto.
        -- intros c0 X. rewrite HF in X. discriminate X.
      * inversion HS; subst. simpl. rewrite (firstn_none _ _ EN) in HF. repeat split; auto.
  - (* PClose *)
    simpl in HT. destruct HT as [HF HQ].
    destruct (close_fail pl); inversion HS; subst; simpl; repeat split; eauto.
  - (* PQueue *)
    simpl in HT. destruct HT as [HF HQ]. inversion HS; subst. simpl in *. repeat split; auto.
    + (* NoDup *)
      clear - ND HQ. induction (queued sh) as [|a l IH]; simpl.
      * constructor; [simpl; tauto | constructor].
      * inversion ND; subst. constructor.
        -- intro I. apply in_app_or in I. destruct I as [I | [I | []]]; auto. subst. apply HQ. left. reflexivity.
        -- apply IH; auto. intro I. apply HQ. right. exact I.
    + apply in_or_app. right. left. reflexivity.
    + eapply frame_other; eauto; simpl.
      * intro x. rewrite in_app_iff. simpl. split.
        -- intros [I | [I | []]]; auto. subst x. right. split; auto; apply in_or_app; right; left; reflexivity.
        -- intros [I | [_ I]]; auto.
      * intro I. apply in_or_app. left. exact I.
  - (* PErrClose *)
    simpl in HT. destruct HT as [[c HF] HQ]. inversion HS; subst. simpl. repeat split; eauto.
  - (* PErrRemove *)
    simpl in HT. destruct HT as [[c HF] HQ].
    destruct (remove_fail pl).
    + inversion HS; subst. simpl. repeat split; auto.
    + rewrite HF in HS. inversion HS; subst. simpl in *. rewrite created_by_self, HB. simpl.
      repeat split; auto.
      * eapply frame_other; eauto; simpl.
        -- intro O. destruct (OTH O) as [c' X]. rewrite HF in X. inversion X. congruence.
        -- intro x. tauto.
      * intros c0 X. rewrite HF in X. discriminate X.
  - inversion HS; subst. repeat split; auto.
Qed.

Lemma init_inv : forall su pre, Inv su pre (init pre).
Proof.
  intros su pre. constructor; simpl; auto.
  - constructor.
  - intros c0 E. subst. reflexivity.
Qed.

Lemma step_inv : forall su pre w t, s_excl su = true -> Inv su pre w -> Inv su pre (step su w t).
Proof.
  intros su pre w t EX [HB ND H1 H2 HP]. unfold step. rewrite EX. destruct t.
  - destruct (step_thread true true (s_body1 su) (s_plan1 su) (w_sh w) (w_pc1 w)) as [sh2 p2] eqn:ES.
    assert (NT : false <> true) by discriminate.
    destruct (step_thread_inv true (s_body1 su) (s_plan1 su) (w_sh w) (w_pc1 w) false (s_body2 su) (w_pc2 w) sh2 p2
                NT HB ND H1 H2 ES) as [A [B [C [D E]]]].
    constructor; simpl; auto.
  - destruct (step_thread true false (s_body2 su) (s_plan2 su) (w_sh w) (w_pc2 w)) as [sh2 p2] eqn:ES.
    assert (NT : true <> false) by discriminate.
    destruct (step_thread_inv false (s_body2 su) (s_plan2 su) (w_sh w) (w_pc2 w) true (s_body1 su) (w_pc1 w) sh2 p2
                NT HB ND H2 H1 ES) as [A [B [C [D E]]]].
    constructor; simpl; auto.
Qed.

Theorem run_inv : forall su pre sched, s_excl su = true -> Inv su pre (run su pre sched).
Proof.
  intros su pre sched EX. unfold run.
  assert (G : forall l w, Inv su pre w -> Inv su pre (fold_left (step su) l w)).
  { induction l as [|t l IH]; intros w H; simpl; auto. apply IH. apply step_inv; auto. }
  apply G. apply init_inv.
Qed.

(* ---- consequences, for every schedule, every failure plan, every pair of bodies *)

(* no step opens an existing file for writing, and no step writes to or removes a file that
   its own request did not create *)
Theorem never_touches_foreign_file : forall su pre sched,
  s_excl su = true -> bad (w_sh (run su pre sched)) = false.
Proof. intros. apply (inv_bad _ _ _ (run_inv su pre sched H)). Qed.

(* a name that exists is left as it is and nothing is queued; neither upload reports success *)
Theorem existing_file_untouched : forall su c0 sched,
  s_excl su = true ->
  let w := run su (Some c0) sched in
  file (w_sh w) = Some (c0, None) /\ queued (w_sh w) = [] /\ w_pc1 w <> PDone true /\ w_pc2 w <> PDone true.
Proof.
  intros su c0 sched EX w. pose proof (run_inv su (Some c0) sched EX) as [HB ND H1 H2 HP].
  fold w in HB, ND, H1, H2, HP. specialize (HP c0 eq_refl).
  assert (N1 : w_pc1 w <> PDone true).
  { intro E. rewrite E in H1. simpl in H1. destruct H1 as [X _]. congruence. }
  assert (N2 : w_pc2 w <> PDone true).
  { intro E. rewrite E in H2. simpl in H2. destruct H2 as [X _]. congruence. }
  repeat split; auto.
  destruct (queued (w_sh w)) as [|[|] l] eqn:EQ; auto.
  - exfalso. apply N1. apply (thread_ok_queued _ _ _ _ H1). rewrite EQ. left. reflexivity.
  - exfalso. apply N2. apply (thread_ok_queued _ _ _ _ H2). rewrite EQ. left. reflexivity.
Qed.

(* queued <-> that upload answered 200, and then the file is exactly its body, created by it *)
Theorem queued_iff_success : forall su pre sched,
  s_excl su = true ->
  let w := run su pre sched in
  (In true (queued (w_sh w)) <-> w_pc1 w = PDone true) /\
  (In false (queued (w_sh w)) <-> w_pc2 w = PDone true) /\
  (w_pc1 w = PDone true -> file (w_sh w) = Some (s_body1 su, Some true)) /\
  (w_pc2 w = PDone true -> file (w_sh w) = Some (s_body2 su, Some false)).
Proof.
  intros su pre sched EX w. pose proof (run_inv su pre sched EX) as [HB ND H1 H2 HP].
  fold w in HB, ND, H1, H2, HP. repeat split.
  - apply (thread_ok_queued _ _ _ _ H1).
  - apply (thread_ok_queued _ _ _ _ H1).
  - apply (thread_ok_queued _ _ _ _ H2).
  - apply (thread_ok_queued _ _ _ _ H2).
  - intro E. rewrite E in H1. simpl in H1. tauto.
  - intro E. rewrite E in H2. simpl in H2. tauto.
Qed.

(* the name is queued at most once: never twice by one upload, never by both *)
Theorem queued_at_most_once : forall su pre sched,
  s_excl su = true -> (length (queued (w_sh (run su pre sched))) <= 1)%nat.
Proof.
  intros su pre sched EX. pose proof (run_inv su pre sched EX) as [HB ND H1 H2 HP].
  destruct (queued_iff_success su pre sched EX) as [Q1 [Q2 [F1 F2]]].
  set (w := run su pre sched) in *.
  destruct (queued (w_sh w)) as [|a [|b l]] eqn:EQ; simpl; auto.
  exfalso. inversion ND as [|? ? NI ND']; subst.
  assert (AB : a <> b). { intro; subst. apply NI. left. reflexivity. }
  assert (I1 : In true (a :: b :: l)). { destruct a, b; simpl; auto; contradiction AB; auto. }
  assert (I2 : In false (a :: b :: l)). { destruct a, b; simpl; auto; contradiction AB; auto. }
  apply Q1 in I1. apply Q2 in I2. apply F1 in I1. apply F2 in I2. congruence.
Qed.

(* at most one of the two uploads succeeds *)
Theorem at_most_one_winner : forall su pre sched,
  s_excl su = true ->
  ~ (w_pc1 (run su pre sched) = PDone true /\ w_pc2 (run su pre sched) = PDone true).
Proof.
  intros su pre sched EX [A B].
  destruct (queued_iff_success su pre sched EX) as [_ [_ [F1 F2]]].
  apply F1 in A. apply F2 in B. congruence.
Qed.

(* an upload whose open failed (it never owned the file) ends with 500 and, by
   never_touches_foreign_file, changed nothing; the one that owns the file is its creator *)
Theorem owner_is_creator : forall su pre sched,
  s_excl su = true ->
  let w := run su pre sched in
  (owns (w_pc1 w) = true -> exists c, file (w_sh w) = Some (c, Some true)) /\
  (owns (w_pc2 w) = true -> exists c, file (w_sh w) = Some (c, Some false)).
Proof.
  intros su pre sched EX w. pose proof (run_inv su pre sched EX) as [HB ND H1 H2 HP].
  split; intro O; eapply thread_ok_owns; eauto.
Qed.
