(* C12 -- the index stack: invariant of the import / merge / restart machine of Persist.v under
   the patched naming of merged files (fixed = true). *)
From Coq Require Import List NArith Bool Arith Lia.
Require Import Pk.Persist Pk.PersistProofs.
Import ListNotations.
Open Scope N_scope.

(* ---------------------------------------------------------------- the order of file names *)
Definition flt (a b : fname) : Prop := fname_ltb a b = true.

Lemma flt_spec : forall a b, flt a b <-> (fst a < fst b \/ (fst a = fst b /\ snd a < snd b)).
Proof.
  intros [a1 a2] [b1 b2]. unfold flt, fname_ltb. simpl.
  rewrite orb_true_iff, andb_true_iff, !N.ltb_lt, N.eqb_eq. tauto.
Qed.
Lemma fname_eqb_eq : forall a b, fname_eqb a b = true <-> a = b.
Proof.
  intros [a1 a2] [b1 b2]. unfold fname_eqb. simpl. rewrite andb_true_iff, !N.eqb_eq.
  split; [intros [-> ->]; auto|intros H; inversion H; auto].
Qed.
Lemma fname_eqb_neq : forall a b, fname_eqb a b = false <-> a <> b.
Proof.
  intros a b. rewrite <- fname_eqb_eq. destruct (fname_eqb a b); split; congruence.
Qed.
Lemma fname_eqb_refl : forall a, fname_eqb a a = true.
Proof. intros. apply fname_eqb_eq. auto. Qed.
Lemma fname_ltb_false : forall a b, fname_ltb a b = false <-> ~ flt a b.
Proof. intros. unfold flt. destruct (fname_ltb a b); split; congruence. Qed.

Ltac fl := repeat match goal with
                  | H : flt _ _ |- _ => apply flt_spec in H
                  | H : ~ flt _ _ |- _ => rewrite flt_spec in H
                  | |- flt _ _ => apply flt_spec
                  | |- ~ flt _ _ => rewrite flt_spec
                  end.

Lemma flt_irrefl : forall a, ~ flt a a.
Proof. intros a H. fl. lia. Qed.
Lemma flt_trans : forall a b c, flt a b -> flt b c -> flt a c.
Proof. intros a b c H1 H2. fl. lia. Qed.
Lemma flt_total : forall a b, a = b \/ flt a b \/ flt b a.
Proof.
  intros [a1 a2] [b1 b2]. destruct (N.lt_total a1 b1) as [H|[H|H]].
  - right. left. fl. simpl. lia.
  - destruct (N.lt_total a2 b2) as [G|[G|G]].
    + right. left. fl. simpl. lia.
    + left. subst. auto.
    + right. right. fl. simpl. lia.
  - right. right. fl. simpl. lia.
Qed.
Lemma flt_neq : forall a b, flt a b -> a <> b.
Proof. intros a b H ->. eapply flt_irrefl; eauto. Qed.
Lemma flt_asym : forall a b, flt a b -> ~ flt b a.
Proof. intros a b H1 H2. fl. lia. Qed.
Lemma flt_succ : forall a t g, flt a (t, g + 1) -> a = (t, g) \/ flt a (t, g).
Proof.
  intros [a1 a2] t g H. fl. simpl in *. destruct (N.eq_dec a1 t) as [->|Hn].
  - destruct (N.eq_dec a2 g) as [->|Hg]; [left; auto|right; fl; simpl; lia].
  - right. fl. simpl. lia.
Qed.
Lemma flt_succ_self : forall t g, flt (t, g) (t, g + 1).
Proof. intros. fl. simpl. lia. Qed.
Lemma flt_tick : forall a b, fst a < fst b -> flt a b.
Proof. intros. fl. lia. Qed.

(* ---------------------------------------------------------------- strictly sorted name lists *)
Fixpoint ssorted (l : list fname) : Prop :=
  match l with
  | [] => True
  | x :: r => (forall y, In y r -> flt x y) /\ ssorted r
  end.

Lemma ssorted_app : forall a b, ssorted (a ++ b) <->
  ssorted a /\ ssorted b /\ (forall x y, In x a -> In y b -> flt x y).
Proof.
  induction a as [|x a IH]; intros b; simpl.
  - split; [intros H; repeat split; auto; intros x y []|tauto].
  - rewrite IH. split.
    + intros [H1 [H2 [H3 H4]]]. repeat split; auto.
      * intros y Hy. apply H1. apply in_or_app. auto.
      * intros x' y [<-|Hx] Hy; auto. apply H1. apply in_or_app. auto.
    + intros [[H1 H2] [H3 H4]]. repeat split; auto.
      intros y Hy. apply in_app_or in Hy. destruct Hy; auto.
Qed.

Lemma ssorted_NoDup : forall l, ssorted l -> NoDup l.
Proof.
  induction l as [|x r IH]; intros H; constructor.
  - destruct H as [H _]. intros Hin. apply (flt_irrefl x). auto.
  - apply IH. apply H.
Qed.

Lemma ssorted_filter : forall (f : fname -> bool) l, ssorted l -> ssorted (filter f l).
Proof.
  induction l as [|x r IH]; intros H; simpl; auto.
  destruct H as [H1 H2]. destruct (f x); simpl; auto. split; auto.
  intros y Hy. apply filter_In in Hy. apply H1. tauto.
Qed.

Lemma ssorted_skipn : forall n l, ssorted l -> ssorted (skipn n l).
Proof.
  intros n l H. rewrite <- (firstn_skipn n l) in H. apply ssorted_app in H. tauto.
Qed.

Lemma ssorted_last_max : forall l x, ssorted l -> last_name l = Some x -> forall y, In y l -> y = x \/ flt y x.
Proof.
  intros l x Hs Hl y Hy. unfold last_name in Hl. destruct (rev l) as [|z r] eqn:E; [discriminate|].
  injection Hl as ->. assert (l = rev r ++ [x]) as ->.
  { rewrite <- (rev_involutive l), E. reflexivity. }
  apply ssorted_app in Hs. destruct Hs as [_ [_ H]]. apply in_app_or in Hy. destruct Hy as [Hy|[<-|[]]]; auto.
  right. apply H; auto. left; auto.
Qed.

Lemma last_name_In : forall l x, last_name l = Some x -> In x l.
Proof.
  intros l x H. unfold last_name in H. destruct (rev l) as [|z r] eqn:E; [discriminate|].
  injection H as ->. apply in_rev. rewrite E. left; auto.
Qed.

Lemma mem_name_In : forall n l, mem_name n l = true <-> In n l.
Proof.
  induction l as [|x r IH]; simpl; [split; [discriminate|tauto]|].
  rewrite orb_true_iff, IH, fname_eqb_eq. tauto.
Qed.

(* ---------------------------------------------------------------- the directory listing *)
Definition file := ifile N.
Definition dsorted (d : list file) : Prop := ssorted (map i_name d).

Lemma dsorted_unique : forall d f g, dsorted d -> In f d -> In g d -> i_name f = i_name g -> f = g.
Proof.
  unfold dsorted. induction d as [|x r IH]; intros f g Hs Hf Hg E; [destruct Hf|].
  simpl in Hs. destruct Hs as [H1 H2]. destruct Hf as [<-|Hf]; destruct Hg as [<-|Hg]; auto.
  - exfalso. apply (flt_irrefl (i_name x)). rewrite E at 2. apply H1. apply in_map. auto.
  - exfalso. apply (flt_irrefl (i_name x)). rewrite <- E at 2. apply H1. apply in_map. auto.
Qed.

Lemma insert_In : forall f d g, dsorted d ->
  (In g (insert_i f d) <-> g = f \/ (In g d /\ i_name g <> i_name f)).
Proof.
  unfold dsorted. intros f. induction d as [|x r IH]; intros g Hs; simpl.
  - split; [intros [<-|[]]; auto|intros [->|[[] _]]; auto].
  - simpl in Hs. destruct Hs as [H1 H2].
    destruct (fname_ltb (i_name f) (i_name x)) eqn:E1.
    + simpl. split.
      * intros [<-|[<-|Hg]]; auto.
        -- right. split; auto. intros E. rewrite E in E1. apply (flt_irrefl (i_name f)). exact E1.
        -- right. split; auto. intros E. apply (flt_asym (i_name f) (i_name x) E1).
           rewrite <- E. apply H1. apply in_map. auto.
      * intros [->|[[<-|Hg] Hn]]; auto.
    + destruct (fname_eqb (i_name f) (i_name x)) eqn:E2.
      * apply fname_eqb_eq in E2. simpl. split.
        -- intros [<-|Hg]; auto. right. split; auto. rewrite E2. intros E.
           apply (flt_irrefl (i_name x)). rewrite <- E at 2. apply H1. apply in_map. auto.
        -- intros [->|[[<-|Hg] Hn]]; auto. congruence.
      * apply fname_eqb_neq in E2. simpl. rewrite (IH g H2). split.
        -- intros [<-|[->|[Hg Hn]]].
           ++ right. split; [left; auto|congruence].
           ++ left. auto.
           ++ right. split; [right; auto|auto].
        -- intros [->|[[<-|Hg] Hn]].
           ++ right. left. auto.
           ++ left. auto.
           ++ right. right. auto.
Qed.

Lemma insert_names : forall f d n, dsorted d ->
  (In n (map i_name (insert_i f d)) <-> n = i_name f \/ (In n (map i_name d) /\ n <> i_name f)).
Proof.
  intros f d n Hs. rewrite !in_map_iff. split.
  - intros [g [<- Hg]]. apply insert_In in Hg; auto. destruct Hg as [->|[Hg Hn]]; auto.
    right. split; auto. exists g. auto.
  - intros [->|[[g [<- Hg]] Hn]].
    + exists f. split; auto. apply insert_In; auto.
    + exists g. split; auto. apply insert_In; auto.
Qed.

Lemma insert_sorted : forall f d, dsorted d -> dsorted (insert_i f d).
Proof.
  unfold dsorted. intros f. induction d as [|x r IH]; intros Hs; simpl.
  - split; auto. intros y [].
  - pose proof Hs as Hs0. simpl in Hs. destruct Hs as [H1 H2].
    destruct (fname_ltb (i_name f) (i_name x)) eqn:E1.
    + simpl. split; [|split; auto]. intros y [<-|Hy]; [exact E1|]. apply (flt_trans _ (i_name x)); [exact E1|]. apply H1; auto.
    + destruct (fname_eqb (i_name f) (i_name x)) eqn:E2.
      * apply fname_eqb_eq in E2. simpl. rewrite E2. split; auto.
      * apply fname_eqb_neq in E2. apply fname_ltb_false in E1. simpl. split; [|apply IH; auto].
        intros y Hy. apply (insert_names f r y H2) in Hy. destruct Hy as [->|[Hy _]]; auto.
        destruct (flt_total (i_name f) (i_name x)) as [E|[E|E]]; [congruence|contradiction|exact E].
Qed.

Lemma set_magic_names : forall n (d : list file), map i_name (set_magic n d) = map i_name d.
Proof.
  intros n d. unfold set_magic. rewrite map_map. apply map_ext. intros g.
  destruct (fname_eqb (i_name g) n); reflexivity.
Qed.

Definition magicked (n : fname) (g : file) : file :=
  if fname_eqb (i_name g) n then mkI (i_name g) true (i_streams g) else g.
Lemma set_magic_In : forall n (d : list file) g, In g (set_magic n d) <-> exists g0, In g0 d /\ g = magicked n g0.
Proof.
  intros n d g. unfold set_magic. rewrite in_map_iff. split.
  - intros [g0 [<- H]]. exists g0. auto.
  - intros [g0 [H ->]]. exists g0. auto.
Qed.
Lemma magicked_name : forall n g, i_name (magicked n g) = i_name g.
Proof. intros. unfold magicked. destruct (fname_eqb (i_name g) n); reflexivity. Qed.
Lemma magicked_streams : forall n g, i_streams (magicked n g) = i_streams g.
Proof. intros. unfold magicked. destruct (fname_eqb (i_name g) n); reflexivity. Qed.
Lemma magicked_magic : forall n g, i_magic (magicked n g) = (fname_eqb (i_name g) n || i_magic g).
Proof. intros. unfold magicked. destruct (fname_eqb (i_name g) n); reflexivity. Qed.

Lemma remove_In : forall n (d : list file) g, In g (remove_i n d) <-> In g d /\ i_name g <> n.
Proof.
  intros. unfold remove_i. rewrite filter_In, negb_true_iff, fname_eqb_neq. tauto.
Qed.
Lemma remove_sorted : forall n d, dsorted d -> dsorted (remove_i n d).
Proof.
  unfold dsorted, remove_i. intros n. induction d as [|x r IH]; intros Hs; simpl; auto.
  simpl in Hs. destruct Hs as [H1 H2]. destruct (negb (fname_eqb (i_name x) n)); simpl; auto.
  split; auto. intros y Hy. apply H1. apply in_map_iff in Hy. destruct Hy as [g [<- Hg]].
  apply filter_In in Hg. apply in_map. tauto.
Qed.

Lemma find_i_spec : forall n (d : list file) f, dsorted d -> (find_i n d = Some f <-> In f d /\ i_name f = n).
Proof.
  intros n d f Hs. split.
  - intros H. destruct (find_i_In n d f H) as [H1 H2]. apply fname_eqb_eq in H2. auto.
  - intros [Hin <-]. induction d as [|x r IH]; [destruct Hin|].
    simpl. destruct (fname_eqb (i_name x) (i_name f)) eqn:E.
    + apply fname_eqb_eq in E. f_equal. eapply dsorted_unique; eauto. left; auto.
    + destruct Hin as [->|Hin]; [rewrite fname_eqb_refl in E; discriminate|].
      apply IH; auto. unfold dsorted in *. simpl in Hs. tauto.
Qed.
Lemma find_i_none : forall n (d : list file), find_i n d = None <-> forall f, In f d -> i_name f <> n.
Proof.
  intros n. induction d as [|x r IH]; simpl.
  - split; [intros _ f []|reflexivity].
  - destruct (fname_eqb (i_name x) n) eqn:E.
    + apply fname_eqb_eq in E. split; [discriminate|]. intros H. exfalso. apply (H x); auto.
    + apply fname_eqb_neq in E. rewrite IH. split.
      * intros H f [<-|Hf]; auto.
      * intros H f Hf. apply H. auto.
Qed.

Lemma is_complete_spec : forall d n, dsorted d ->
  (is_complete d n = true <-> exists f, In f d /\ i_name f = n /\ i_magic f = true).
Proof.
  intros d n Hs. unfold is_complete. destruct (find_i n d) as [f|] eqn:E.
  - apply find_i_spec in E; auto. destruct E as [E1 E2]. split.
    + intros H. exists f. auto.
    + intros [g [G1 [G2 G3]]]. assert (g = f) by (eapply dsorted_unique; eauto; congruence). subst. auto.
  - split; [discriminate|]. intros [g [G1 [G2 G3]]]. exfalso. eapply find_i_none in E; eauto.
Qed.

(* ---------------------------------------------------------------- versions never decrease along the name order *)
Definition dmono (d : list file) : Prop :=
  forall f g id v w, In f d -> In g d -> i_magic f = true -> i_magic g = true ->
    flt (i_name f) (i_name g) -> lookup (i_streams f) id = Some v -> lookup (i_streams g) id = Some w -> v <= w.

Lemma dmono_readable_mono : forall d, dsorted d -> dmono d -> mono (map i_streams (readable d)).
Proof.
  unfold dsorted. induction d as [|x r IH]; intros Hs Hm; simpl; auto.
  simpl in Hs. destruct Hs as [H1 H2].
  assert (Hr : dmono r).
  { intros f g id v w Hf Hg. apply Hm; right; auto. }
  destruct (i_magic x) eqn:Ex; simpl; auto. split; auto.
  intros t id v w Ht Hv Hw. apply in_map_iff in Ht. destruct Ht as [g [<- Hg]].
  unfold readable in Hg. apply filter_In in Hg. destruct Hg as [Hg Mg].
  apply (Hm x g id v w); auto; [left; auto|right; auto|]. apply H1. apply in_map. auto.
Qed.

Lemma stack_mono : forall d names, dsorted d -> dmono d -> ssorted names ->
  (forall n, In n names -> is_complete d n = true) -> mono (streams_of d names).
Proof.
  intros d names Hs Hm. induction names as [|n r IH]; intros Hn Hc; simpl; auto.
  simpl in Hn. destruct Hn as [N1 N2]. split; [|apply IH; auto; intros; apply Hc; right; auto].
  intros t id v w Ht Hv Hw. unfold streams_of in Ht. apply in_map_iff in Ht. destruct Ht as [m [<- Hm']].
  pose proof (Hc n (or_introl eq_refl)) as Cn. pose proof (Hc m (or_intror Hm')) as Cm.
  apply is_complete_spec in Cn; auto. apply is_complete_spec in Cm; auto.
  destruct Cn as [f [F1 [F2 F3]]]. destruct Cm as [g [G1 [G2 G3]]].
  assert (find_i n d = Some f) as Ef by (apply find_i_spec; auto).
  assert (find_i m d = Some g) as Eg by (apply find_i_spec; auto).
  rewrite Ef in Hv. rewrite Eg in Hw. apply (Hm f g id v w); auto. rewrite F2, G2. apply N1. auto.
Qed.

(* ---------------------------------------------------------------- content of a merged file *)
Lemma visible_in_ids : forall (fs : list nstreams) id v, visible fs id = Some v -> In id (ids_of fs).
Proof.
  intros fs id v H. apply visible_from in H. destruct H as [s [Hs Hl]].
  induction fs as [|x r IH]; [destruct Hs|]. simpl. apply in_or_app. destruct Hs as [->|Hs].
  - left. clear IH. induction s as [|[k u] s IHs]; simpl in Hl; [discriminate|].
    destruct (k =? id) eqn:E; [apply N.eqb_eq in E; left; auto|right; auto].
  - right. auto.
Qed.

Lemma merge_lookup_gen : forall (fs : list nstreams) ids id, NoDup ids ->
  lookup (fold_right (fun i acc => match visible fs i with Some v => (i, v) :: acc | None => acc end) [] ids) id =
  if in_dec N.eq_dec id ids then visible fs id else None.
Proof.
  intros fs. induction ids as [|i r IH]; intros id Hn; simpl; auto.
  inversion Hn as [|? ? Hi Hr]; subst. specialize (IH id Hr).
  destruct (N.eq_dec i id) as [->|Hne].
  - destruct (visible fs id) as [v|] eqn:E; simpl.
    + rewrite N.eqb_refl. reflexivity.
    + rewrite IH. destruct (in_dec N.eq_dec id r); auto.
  - destruct (visible fs i) as [v|] eqn:E; simpl.
    + assert (i =? id = false) as -> by (apply N.eqb_neq; auto). rewrite IH.
      destruct (in_dec N.eq_dec id r); auto.
    + rewrite IH. destruct (in_dec N.eq_dec id r); auto.
Qed.

Lemma merge_lookup : forall (fs : list nstreams) id, lookup (merge_streams fs) id = visible fs id.
Proof.
  intros fs id. unfold merge_streams. rewrite merge_lookup_gen; [|apply NoDup_nodup].
  destruct (in_dec N.eq_dec id (nodup N.eq_dec (ids_of fs))) as [H|H]; auto.
  destruct (visible fs id) as [v|] eqn:E; auto. exfalso. apply H. apply nodup_In. eapply visible_in_ids; eauto.
Qed.

(* ---------------------------------------------------------------- the invariant *)
Definition ids_sub (f g : file) : Prop :=
  forall id v, lookup (i_streams f) id = Some v -> exists w, lookup (i_streams g) id = Some w.

Definition inv_imp (st : mstate) : Prop :=
  match imp st with
  | None => True
  | Some n =>
      (exists f, In f (disk st) /\ i_name f = n) /\
      ~ In n (mem st) /\ ~ In n (rm st) /\
      (forall g, In g (disk st) -> i_name g <> n -> fst (i_name g) < fst n) /\
      (forall f g id v w, In f (disk st) -> i_name f = n -> In g (disk st) -> i_name g <> n ->
         lookup (i_streams g) id = Some v -> lookup (i_streams f) id = Some w -> v <= w)
  end.

Definition inv_mrg (st : mstate) : Prop :=
  match mrg st with
  | None => True
  | Some (out, off, inputs) =>
      (exists pre post t g, mem st = pre ++ inputs ++ post /\ List.length pre = off /\
          last_name inputs = Some (t, g) /\ out = (t, g + 1) /\ (forall p, In p post -> flt out p)) /\
      ~ In out (mem st) /\ ~ In out (rm st) /\ imp st <> Some out /\
      (exists fo, In fo (disk st) /\ i_name fo = out /\
         (forall id v, lookup (i_streams fo) id = Some v ->
            exists g, In g (disk st) /\ In (i_name g) inputs /\ lookup (i_streams g) id = Some v) /\
         (forall g id v, In g (disk st) -> In (i_name g) inputs -> lookup (i_streams g) id = Some v ->
            exists w, lookup (i_streams fo) id = Some w /\ v <= w)) /\
      (forall f, In f (disk st) -> i_magic f = true -> ~ In (i_name f) (mem st) ->
         imp st <> Some (i_name f) -> i_name f <> out -> flt (i_name f) out ->
         exists g, In g (disk st) /\ In (i_name g) (mem st) /\ ~ flt out (i_name g) /\
                   flt (i_name f) (i_name g) /\ ids_sub f g)
  end.

Definition inv_cover (st : mstate) : Prop :=
  forall f, In f (disk st) -> i_magic f = true -> ~ In (i_name f) (mem st) ->
    imp st <> Some (i_name f) -> (forall off ins, mrg st <> Some (i_name f, off, ins)) ->
    exists g, In g (disk st) /\ In (i_name g) (mem st) /\ flt (i_name f) (i_name g) /\ ids_sub f g.

Record inv (st : mstate) : Prop := mkInv {
  J1 : dsorted (disk st);
  J2 : dmono (disk st);
  J3a : ssorted (mem st);
  J3b : forall n, In n (mem st) -> is_complete (disk st) n = true;
  J4 : forall f, In f (disk st) -> fst (i_name f) <= clock st;
  J5 : inv_imp st;
  J6 : inv_mrg st;
  J7 : inv_cover st;
  J8a : NoDup (rm st);
  J8b : forall n, In n (rm st) -> ~ In n (mem st) /\ is_complete (disk st) n = true
}.

Lemma inv_init : inv init_m.
Proof.
  constructor; simpl; try exact I; try (intros; contradiction); try constructor.
  - intros f g id v w [].
  - intros f [].
Qed.

(* completeness of a named file under the directory operations *)
Lemma complete_file : forall d n, dsorted d -> is_complete d n = true ->
  exists f, In f d /\ i_name f = n /\ i_magic f = true.
Proof. intros. apply is_complete_spec; auto. Qed.

Lemma complete_insert_other : forall f d n, dsorted d -> i_name f <> n ->
  is_complete d n = true -> is_complete (insert_i f d) n = true.
Proof.
  intros f d n Hs Hn Hc. apply is_complete_spec; [apply insert_sorted; auto|].
  apply complete_file in Hc; auto. destruct Hc as [g [G1 [G2 G3]]]. exists g. repeat split; auto.
  apply insert_In; auto. right. split; auto. congruence.
Qed.

Lemma set_magic_sorted : forall n d, dsorted d -> dsorted (set_magic n d).
Proof. intros. unfold dsorted. rewrite set_magic_names. auto. Qed.

Lemma complete_set_magic : forall k d n, dsorted d ->
  is_complete d n = true -> is_complete (set_magic k d) n = true.
Proof.
  intros k d n Hs Hc. apply is_complete_spec; [apply set_magic_sorted; auto|].
  apply complete_file in Hc; auto. destruct Hc as [g [G1 [G2 G3]]].
  exists (magicked k g). repeat split.
  - apply set_magic_In. exists g. auto.
  - rewrite magicked_name. auto.
  - rewrite magicked_magic, G3. apply orb_true_r.
Qed.

Lemma complete_remove_other : forall k d n, dsorted d -> n <> k ->
  is_complete d n = true -> is_complete (remove_i k d) n = true.
Proof.
  intros k d n Hs Hn Hc. apply is_complete_spec; [apply remove_sorted; auto|].
  apply complete_file in Hc; auto. destruct Hc as [g [G1 [G2 G3]]]. exists g. repeat split; auto.
  apply remove_In. split; auto. congruence.
Qed.

Lemma sm_old : forall k (d : list file) g', In g' (set_magic k d) ->
  exists g0, In g0 d /\ i_name g0 = i_name g' /\ i_streams g0 = i_streams g' /\
             (i_magic g' = true -> i_magic g0 = true \/ i_name g0 = k).
Proof.
  intros k d g' H. apply set_magic_In in H. destruct H as [g0 [H ->]]. exists g0.
  rewrite magicked_name, magicked_streams, magicked_magic. repeat split; auto.
  intros E. apply orb_true_iff in E. destruct E as [E|E]; auto. right. apply fname_eqb_eq. auto.
Qed.
Lemma sm_new : forall k (d : list file) g0, In g0 d ->
  exists g', In g' (set_magic k d) /\ i_name g' = i_name g0 /\ i_streams g' = i_streams g0 /\
             (i_magic g0 = true -> i_magic g' = true) /\ (i_name g0 = k -> i_magic g' = true).
Proof.
  intros k d g0 H. exists (magicked k g0). rewrite magicked_name, magicked_streams, magicked_magic.
  repeat split; auto.
  - apply set_magic_In. exists g0. auto.
  - intros ->. apply orb_true_r.
  - intros <-. rewrite fname_eqb_refl. reflexivity.
Qed.

Lemma ids_sub_trans : forall f g h, ids_sub f g -> ids_sub g h -> ids_sub f h.
Proof. intros f g h H1 H2 id v L. destruct (H1 id v L) as [w L']. eapply H2; eauto. Qed.

Lemma sorted_readable_names : forall d, dsorted d -> ssorted (map i_name (readable d)).
Proof.
  unfold dsorted, readable. induction d as [|x r IH]; intros Hs; simpl; auto.
  simpl in Hs. destruct Hs as [H1 H2]. destruct (i_magic x); simpl; auto. split; auto.
  intros y Hy. apply H1. apply in_map_iff in Hy. destruct Hy as [g [<- Hg]]. apply filter_In in Hg.
  apply in_map. tauto.
Qed.

(* ---------------------------------------------------------------- Restart *)
Lemma inv_restart : forall st, inv st -> inv (step true st Restart).
Proof.
  intros st [H1 H2 H3a H3b H4 H5 H6 H7 H8a H8b]. simpl. constructor; simpl.
  - exact H1.
  - exact H2.
  - apply sorted_readable_names. auto.
  - intros n Hn. apply in_map_iff in Hn. destruct Hn as [f [<- Hf]]. unfold readable in Hf.
    apply filter_In in Hf. apply is_complete_spec; auto. exists f. tauto.
  - exact H4.
  - exact I.
  - exact I.
  - intros f Hf Mf Hn. exfalso. apply Hn. simpl. apply in_map. unfold readable. apply filter_In. auto.
  - constructor.
  - intros n [].
Qed.

Lemma mrg_inputs_in_mem : forall st out off inputs, inv_mrg st -> mrg st = Some (out, off, inputs) ->
  forall n, In n inputs -> In n (mem st).
Proof.
  intros st out off inputs H E n Hn. unfold inv_mrg in H. rewrite E in H.
  destruct H as [[pre [post [t [g [Hm _]]]]] _]. rewrite Hm. apply in_or_app. right. apply in_or_app. auto.
Qed.

(* ---------------------------------------------------------------- MrgRemove *)
Lemma inv_mrg_remove : forall st, inv st -> inv (step true st MrgRemove).
Proof.
  intros st Hinv. pose proof Hinv as [H1 H2 H3a H3b H4 H5 H6 H7 H8a H8b]. simpl.
  destruct (rm st) as [|n r] eqn:Er; auto.
  assert (Hn : In n (rm st)) by (rewrite Er; left; auto).
  assert (Hsub : forall m, In m r -> In m (rm st)) by (intros m Hm; rewrite Er; right; auto).
  destruct (H8b n (or_introl eq_refl)) as [Hnm _].
  inversion H8a as [|? ? Hnr Hr]; subst.
  constructor; simpl.
  - apply remove_sorted. auto.
  - intros f g id v w Hf Hg. apply remove_In in Hf. apply remove_In in Hg. apply H2; tauto.
  - exact H3a.
  - intros m Hm. apply complete_remove_other; auto. intros ->. contradiction.
  - intros f Hf. apply remove_In in Hf. apply H4. tauto.
  - unfold inv_imp in *. simpl. destruct (imp st) as [k|]; auto.
    destruct H5 as [[f [F1 F2]] [A [B [C D]]]].
    assert (k <> n) by (intros ->; apply B; auto).
    repeat split.
    + exists f. split; auto. apply remove_In. split; auto. congruence.
    + exact A.
    + intros Hk. apply B. auto.
    + intros g Hg. apply remove_In in Hg. apply C. tauto.
    + intros f0 g id v w Hf0 E0 Hg. apply remove_In in Hf0. apply remove_In in Hg. apply D; tauto.
  - unfold inv_mrg in *. simpl. destruct (mrg st) as [[[out off] inputs]|] eqn:Em; auto.
    pose proof (mrg_inputs_in_mem st out off inputs) as Hin. unfold inv_mrg in Hin. rewrite Em in Hin.
    specialize (Hin H6 eq_refl).
    destruct H6 as [A [B [C [D [[fo [F1 [F2 [M1 M2]]]] M3]]]]].
    assert (out <> n) by (intros ->; apply C; auto).
    split; [exact A|]. split; [exact B|]. split; [intros Hc; apply C; auto|]. split; [exact D|]. split.
    + exists fo. split; [apply remove_In; split; auto; congruence|]. split; auto. split.
      * intros id v L. destruct (M1 id v L) as [g [G1 [G2 G3]]]. exists g. split; auto.
        apply remove_In. split; auto. intros E. apply Hnm. apply Hin. rewrite <- E. auto.
      * intros g id v Hg. apply remove_In in Hg. apply M2. tauto.
    + intros f Hf Mf Nf If Of Lf. apply remove_In in Hf. destruct Hf as [Hf _].
      destruct (M3 f Hf Mf Nf If Of Lf) as [g [G1 [G2 [G3 [G4 G5]]]]]. exists g. repeat split; auto.
      apply remove_In. split; auto. intros E. apply Hnm. rewrite <- E. auto.
  - intros f Hf Mf Nf If Of. simpl in *. apply remove_In in Hf. destruct Hf as [Hf _].
    destruct (H7 f Hf Mf Nf If Of) as [g [G1 [G2 [G3 G4]]]]. exists g. repeat split; auto.
    apply remove_In. split; auto. intros E. apply Hnm. rewrite <- E. auto.
  - exact Hr.
  - intros m Hm. destruct (H8b m (or_intror Hm)) as [A B]. split; auto.
    apply complete_remove_other; auto. intros ->. contradiction.
Qed.

(* ---------------------------------------------------------------- ImpMagic *)
Lemma inv_imp_magic : forall st, inv st -> inv (step true st ImpMagic).
Proof.
  intros st Hinv. pose proof Hinv as [H1 H2 H3a H3b H4 H5 H6 H7 H8a H8b]. simpl.
  destruct (imp st) as [n|] eqn:Ei; auto. rewrite <- Ei.
  unfold inv_imp in H5. rewrite Ei in H5. destruct H5 as [[fn [Fn1 Fn2]] [A [B [C D]]]].
  constructor; simpl.
  - apply set_magic_sorted. auto.
  - intros f' g' id v w Hf Hg Mf Mg Lt Lv Lw.
    destruct (sm_old n _ f' Hf) as [f0 [F1 [F2 [F3 F4]]]]. destruct (sm_old n _ g' Hg) as [g0 [G1 [G2 [G3 G4]]]].
    rewrite <- F2, <- G2 in Lt. rewrite <- F3 in Lv. rewrite <- G3 in Lw.
    destruct (F4 Mf) as [Mf0|Ef0]; destruct (G4 Mg) as [Mg0|Eg0].
    + apply (H2 f0 g0 id v w); auto.
    + apply (D g0 f0 id v w); auto. intros E. rewrite E, Eg0 in Lt. eapply flt_irrefl; eauto.
    + exfalso. assert (i_name g0 <> n) by (intros E; rewrite E, Ef0 in Lt; eapply flt_irrefl; eauto).
      pose proof (C g0 G1 H). rewrite Ef0 in Lt. apply flt_spec in Lt. lia.
    + exfalso. rewrite Ef0, Eg0 in Lt. eapply flt_irrefl; eauto.
  - exact H3a.
  - intros m Hm. apply complete_set_magic; auto.
  - intros f' Hf. destruct (sm_old n _ f' Hf) as [f0 [F1 [F2 _]]]. rewrite <- F2. auto.
  - unfold inv_imp. simpl. rewrite Ei. repeat split; auto.
    + destruct (sm_new n _ fn Fn1) as [f' [P1 [P2 _]]]. exists f'. split; auto. congruence.
    + intros g' Hg Ng. destruct (sm_old n _ g' Hg) as [g0 [G1 [G2 _]]]. rewrite <- G2 in *. auto.
    + intros f' g' id v w Hf Ef Hg Ng Lv Lw.
      destruct (sm_old n _ f' Hf) as [f0 [F1 [F2 [F3 _]]]]. destruct (sm_old n _ g' Hg) as [g0 [G1 [G2 [G3 _]]]].
      rewrite <- F3 in Lw. rewrite <- G3 in Lv. apply (D f0 g0 id v w); auto; congruence.
  - unfold inv_mrg in *. simpl. destruct (mrg st) as [[[out off] inputs]|] eqn:Em; auto.
    destruct H6 as [A' [B' [C' [D' [[fo [F1 [F2 [M1 M2]]]] M3]]]]].
    split; [exact A'|]. split; [exact B'|]. split; [exact C'|]. split; [exact D'|]. split.
    + destruct (sm_new n _ fo F1) as [fo' [P1 [P2 [P3 _]]]]. exists fo'. split; auto. split; [congruence|]. split.
      * intros id v L. rewrite P3 in L. destruct (M1 id v L) as [g [G1 [G2 G3]]].
        destruct (sm_new n _ g G1) as [g' [Q1 [Q2 [Q3 _]]]]. exists g'. rewrite Q2, Q3. auto.
      * intros g' id v Hg Ig L. destruct (sm_old n _ g' Hg) as [g0 [G1 [G2 [G3 _]]]].
        rewrite <- G2 in Ig. rewrite <- G3 in L. rewrite P3. eapply M2; eauto.
    + intros f' Hf Mf Nf If Of Lf. destruct (sm_old n _ f' Hf) as [f0 [F1' [F2' [F3' F4']]]].
      rewrite <- F2' in *. destruct (F4' Mf) as [Mf0|Ef0]; [|exfalso; apply If; congruence].
      destruct (M3 f0 F1' Mf0 Nf If Of Lf) as [g [G1 [G2 [G3 [G4 G5]]]]].
      destruct (sm_new n _ g G1) as [g' [Q1 [Q2 [Q3 _]]]]. exists g'. rewrite Q2. repeat split; auto.
      intros id v L. rewrite <- F3' in L. rewrite Q3. eapply G5; eauto.
  - intros f' Hf Mf Nf If Of. simpl in *. destruct (sm_old n _ f' Hf) as [f0 [F1 [F2 [F3 F4]]]].
    rewrite <- F2 in *. destruct (F4 Mf) as [Mf0|Ef0]; [|exfalso; apply If; congruence].
    destruct (H7 f0 F1 Mf0 Nf If Of) as [g [G1 [G2 [G3 G4]]]].
    destruct (sm_new n _ g G1) as [g' [Q1 [Q2 [Q3 _]]]]. exists g'. rewrite Q2. repeat split; auto.
    intros id v L. rewrite <- F3 in L. rewrite Q3. eapply G4; eauto.
  - exact H8a.
  - intros m Hm. destruct (H8b m Hm) as [A0 B0]. split; auto. apply complete_set_magic; auto.
Qed.

(* ---------------------------------------------------------------- ImpPublish *)
Lemma inv_imp_publish : forall st, inv st -> inv (step true st ImpPublish).
Proof.
  intros st Hinv. pose proof Hinv as [H1 H2 H3a H3b H4 H5 H6 H7 H8a H8b]. simpl.
  destruct (imp st) as [n|] eqn:Ei; auto.
  destruct (is_complete (disk st) n) eqn:Ec; auto.
  unfold inv_imp in H5. rewrite Ei in H5. destruct H5 as [[fn [Fn1 Fn2]] [A [B [C D]]]].
  (* every published file is older than the import's file *)
  assert (Htick : forall m, In m (mem st) -> fst m < fst n).
  { intros m Hm. destruct (complete_file _ _ H1 (H3b m Hm)) as [g [G1 [G2 G3]]].
    rewrite <- G2. apply C; auto. intros E. apply A. congruence. }
  assert (Hlt : forall m, In m (mem st) -> flt m n) by (intros m Hm; apply flt_tick; auto).
  constructor; simpl.
  - exact H1.
  - exact H2.
  - apply ssorted_app. split; auto. split; [simpl; split; auto; intros y []|].
    intros x y Hx [<-|[]]. auto.
  - intros m Hm. apply in_app_or in Hm. destruct Hm as [Hm|[<-|[]]]; auto.
  - exact H4.
  - exact I.
  - unfold inv_mrg in *. simpl. destruct (mrg st) as [[[out off] inputs]|] eqn:Em; auto.
    destruct H6 as [[pre [post [t [g [P1 [P2 [P3 [P4 P5]]]]]]]] [B' [C' [D' [E' M3]]]]].
    assert (Hout : flt out n).
    { subst out. assert (In (t, g) (mem st)) as Hl.
      { rewrite P1. apply in_or_app. right. apply in_or_app. left. apply last_name_In. auto. }
      specialize (Htick _ Hl). apply flt_tick. simpl in *. lia. }
    split.
    { exists pre, (post ++ [n]), t, g. repeat split; auto.
      - rewrite P1. rewrite <- !app_assoc. reflexivity.
      - intros p Hp. apply in_app_or in Hp. destruct Hp as [Hp|[<-|[]]]; auto. }
    split.
    { intros Hc. apply in_app_or in Hc. destruct Hc as [Hc|[Hc|[]]]; auto. apply D'. congruence. }
    split; [exact C'|]. split; [discriminate|]. split; [exact E'|].
    intros f Hf Mf Nf _ Of Lf.
    assert (imp st <> Some (i_name f)) as If.
    { rewrite Ei. intros E. injection E as E. apply Nf. apply in_or_app. right. left. auto. }
    assert (~ In (i_name f) (mem st)) as Nf' by (intros Hc; apply Nf; apply in_or_app; auto).
    destruct (M3 f Hf Mf Nf' If Of Lf) as [g0 [G1 [G2 [G3 [G4 G5]]]]]. exists g0. repeat split; auto.
    apply in_or_app. auto.
  - intros f Hf Mf Nf _ Of. simpl in *.
    assert (imp st <> Some (i_name f)) as If.
    { rewrite Ei. intros E. injection E as E. apply Nf. apply in_or_app. right. left. auto. }
    assert (~ In (i_name f) (mem st)) as Nf' by (intros Hc; apply Nf; apply in_or_app; auto).
    destruct (H7 f Hf Mf Nf' If Of) as [g0 [G1 [G2 [G3 G4]]]]. exists g0. repeat split; auto.
    apply in_or_app. auto.
  - exact H8a.
  - intros m Hm. destruct (H8b m Hm) as [A0 B0]. split; auto.
    intros Hc. apply in_app_or in Hc. destruct Hc as [Hc|[<-|[]]]; auto.
Qed.

(* ---------------------------------------------------------------- ImpCreate *)
Lemma max_version_ge : forall (d : list file) g id v, In g d -> lookup (i_streams g) id = Some v -> v <= max_version d id.
Proof.
  induction d as [|x r IH]; intros g id v Hg L; [destruct Hg|]. simpl.
  destruct Hg as [->|Hg].
  - rewrite L. lia.
  - specialize (IH g id v Hg L). destruct (lookup (i_streams x) id); lia.
Qed.
Lemma lookup_In : forall (s : nstreams) id v, lookup s id = Some v -> In (id, v) s.
Proof.
  induction s as [|[k u] r IH]; intros id v L; simpl in L; [discriminate|].
  destruct (k =? id) eqn:E.
  - apply N.eqb_eq in E. injection L as <-. subst. left; auto.
  - right. auto.
Qed.

Lemma inv_imp_create : forall st s, inv st -> inv (step true st (ImpCreate s)).
Proof.
  intros st s Hinv. pose proof Hinv as [H1 H2 H3a H3b H4 H5 H6 H7 H8a H8b]. simpl.
  destruct (imp st) as [k|] eqn:Ei; auto.
  destruct (import_newer (disk st) s) eqn:En; auto.
  set (n := (clock st + 1, 0)). set (fnew := mkI n false s).
  assert (Hfresh : forall g, In g (disk st) -> i_name g <> n).
  { intros g Hg E. pose proof (H4 g Hg). rewrite E in H. unfold n in H. simpl in H. lia. }
  assert (Hold : forall g, In g (insert_i fnew (disk st)) <-> g = fnew \/ In g (disk st)).
  { intros g. rewrite insert_In; auto. split; [tauto|]. intros [->|Hg]; [left; auto|]. right. split; auto. }
  assert (Hcomp : forall m, is_complete (disk st) m = true -> is_complete (insert_i fnew (disk st)) m = true).
  { intros m Hm. apply complete_insert_other; auto. simpl. intros E.
    destruct (complete_file _ _ H1 Hm) as [g [G1 [G2 _]]]. apply (Hfresh g G1). congruence. }
  assert (Hnmem : ~ In n (mem st)).
  { intros Hc. destruct (complete_file _ _ H1 (H3b n Hc)) as [g [G1 [G2 _]]]. apply (Hfresh g G1). auto. }
  assert (Hnrm : ~ In n (rm st)).
  { intros Hc. destruct (H8b n Hc) as [_ Hc']. destruct (complete_file _ _ H1 Hc') as [g [G1 [G2 _]]]. apply (Hfresh g G1). auto. }
  constructor; simpl.
  - apply insert_sorted. auto.
  - intros f g id v w Hf Hg Mf Mg. apply Hold in Hf. apply Hold in Hg.
    destruct Hf as [->|Hf]; [discriminate|]. destruct Hg as [->|Hg]; [discriminate|]. apply H2; auto.
  - exact H3a.
  - intros m Hm. apply Hcomp. auto.
  - intros f Hf. apply Hold in Hf. destruct Hf as [->|Hf].
    + simpl. lia.
    + specialize (H4 f Hf). lia.
  - unfold inv_imp. simpl. repeat split; auto.
    + exists fnew. split; auto. apply Hold. auto.
    + intros g Hg Ng. apply Hold in Hg. destruct Hg as [->|Hg]; [exfalso; apply Ng; reflexivity|].
      specialize (H4 g Hg). simpl. lia.
    + intros f g id v w Hf Ef Hg Ng Lv Lw. apply Hold in Hf. apply Hold in Hg.
      destruct Hg as [->|Hg]; [exfalso; apply Ng; reflexivity|].
      destruct Hf as [->|Hf]; [|exfalso; apply (Hfresh f Hf); exact Ef].
      simpl in Lw. apply lookup_In in Lw. unfold import_newer in En. rewrite forallb_forall in En.
      specialize (En _ Lw). simpl in En. apply N.ltb_lt in En.
      pose proof (max_version_ge _ g id v Hg Lv). lia.
  - unfold inv_mrg in *. simpl. destruct (mrg st) as [[[out off] inputs]|] eqn:Em; auto.
    destruct H6 as [A' [B' [C' [D' [[fo [F1 [F2 [M1 M2]]]] M3]]]]].
    assert (out <> n) as Hon by (intros E; apply (Hfresh fo F1); congruence).
    split; [exact A'|]. split; [exact B'|]. split; [exact C'|]. split; [congruence|]. split.
    + exists fo. split; [apply Hold; auto|]. split; auto. split.
      * intros id v L. destruct (M1 id v L) as [g [G1 [G2 G3]]]. exists g. split; auto. apply Hold. auto.
      * intros g id v Hg Ig L. apply Hold in Hg. destruct Hg as [->|Hg]; [|eapply M2; eauto].
        exfalso. simpl in Ig. apply Hnmem. apply (mrg_inputs_in_mem st out off inputs (J6 st Hinv) Em). exact Ig.
    + intros f Hf Mf Nf If Of Lf. apply Hold in Hf. destruct Hf as [->|Hf]; [discriminate|].
      assert (imp st <> Some (i_name f)) as If' by (rewrite Ei; discriminate).
      destruct (M3 f Hf Mf Nf If' Of Lf) as [g [G1 [G2 [G3 [G4 G5]]]]]. exists g. repeat split; auto. apply Hold. auto.
  - intros f Hf Mf Nf If Of. simpl in *. apply Hold in Hf. destruct Hf as [->|Hf]; [discriminate|].
    assert (imp st <> Some (i_name f)) as If' by (rewrite Ei; discriminate).
    destruct (H7 f Hf Mf Nf If' Of) as [g [G1 [G2 [G3 G4]]]]. exists g. repeat split; auto. apply Hold. auto.
  - exact H8a.
  - intros m Hm. destruct (H8b m Hm) as [A0 B0]. split; auto.
Qed.

(* ---------------------------------------------------------------- MrgCreate *)
Lemma skipn_nonempty_length : forall {A} n (l : list A), skipn n l <> [] -> (n < List.length l)%nat.
Proof.
  intros A n. induction n as [|n IH]; intros l H.
  - destruct l; [contradiction|simpl; lia].
  - destruct l; [simpl in H; contradiction|]. simpl in *. apply IH in H. lia.
Qed.

Lemma In_streams_of : forall d names g, dsorted d -> In g d -> In (i_name g) names ->
  In (i_streams g) (streams_of d names).
Proof.
  intros d names g Hs Hg Hn. unfold streams_of. apply in_map_iff. exists (i_name g). split; auto.
  assert (find_i (i_name g) d = Some g) as -> by (apply find_i_spec; auto). reflexivity.
Qed.

Lemma streams_of_In_name : forall d names s, dsorted d -> In s (streams_of d names) ->
  (forall n, In n names -> is_complete d n = true) ->
  exists f, In f d /\ In (i_name f) names /\ i_magic f = true /\ i_streams f = s.
Proof.
  intros d names s Hs H Hc. unfold streams_of in H. apply in_map_iff in H. destruct H as [n [Hn1 Hn2]].
  destruct (complete_file _ _ Hs (Hc n Hn2)) as [f [F1 [F2 F3]]].
  assert (find_i n d = Some f) as Ef by (apply find_i_spec; auto). rewrite Ef in Hn1.
  exists f. subst. auto.
Qed.

Lemma inv_mrg_create : forall st off, inv st -> inv (step true st (MrgCreate off)).
Proof.
  intros st off Hinv. pose proof Hinv as [H1 H2 H3a H3b H4 H5 H6 H7 H8a H8b]. simpl.
  destruct (mrg st) as [x|] eqn:Em; auto.
  destruct (last_name (skipn off (mem st))) as [[t g]|] eqn:El; auto.
  set (inputs := skipn off (mem st)) in *. set (out := (t, g + 1)).
  set (fo := mkI out false (merge_streams (streams_of (disk st) inputs))).
  assert (Hin_mem : forall m, In m inputs -> In m (mem st)).
  { intros m Hm. rewrite <- (firstn_skipn off (mem st)). apply in_or_app. auto. }
  assert (Hlast_in : In (t, g) inputs) by (apply last_name_In; auto).
  assert (Hmax : forall m, In m (mem st) -> m = (t, g) \/ flt m (t, g)).
  { intros m Hm. rewrite <- (firstn_skipn off (mem st)) in Hm. apply in_app_or in Hm.
    pose proof H3a as Hs. rewrite <- (firstn_skipn off (mem st)) in Hs. apply ssorted_app in Hs.
    destruct Hs as [_ [S2 S3]]. destruct Hm as [Hm|Hm].
    - right. apply S3; auto.
    - eapply ssorted_last_max; eauto. }
  assert (Hlt_out : forall m, In m (mem st) -> flt m out).
  { intros m Hm. destruct (Hmax m Hm) as [->|Hl]; [apply flt_succ_self|].
    eapply flt_trans; eauto. apply flt_succ_self. }
  assert (Hout_mem : ~ In out (mem st)) by (intros Hc; apply (flt_irrefl out); auto).
  assert (Hin_comp : forall m, In m inputs -> is_complete (disk st) m = true) by (intros m Hm; apply H3b; auto).
  destruct (complete_file _ _ H1 (H3b _ (Hin_mem _ Hlast_in))) as [ftg [T1 [T2 T3]]].
  assert (Himp_out : imp st <> Some out).
  { intros Ei. unfold inv_imp in H5. rewrite Ei in H5. destruct H5 as [_ [_ [_ [C _]]]].
    assert (i_name ftg <> out) as Hne by (rewrite T2; unfold out; intros E; injection E; lia).
    specialize (C ftg T1 Hne). rewrite T2 in C. simpl in C. lia. }
  assert (K : forall F, In F (disk st) -> i_name F = out -> i_magic F = false).
  { intros F HF EF. destruct (i_magic F) eqn:MF; auto. exfalso.
    assert (~ In (i_name F) (mem st)) as N1 by (rewrite EF; auto).
    assert (imp st <> Some (i_name F)) as N2 by (rewrite EF; auto).
    assert (forall o i, mrg st <> Some (i_name F, o, i)) as N3 by (intros o i; rewrite Em; discriminate).
    destruct (H7 F HF MF N1 N2 N3) as [G [G1 [G2 [G3 _]]]]. rewrite EF in G3.
    apply (flt_asym _ _ G3). auto. }
  assert (Hout_rm : ~ In out (rm st)).
  { intros Hc. destruct (H8b out Hc) as [_ Hc']. destruct (complete_file _ _ H1 Hc') as [F [F1 [F2 F3]]].
    rewrite (K F F1 F2) in F3. discriminate. }
  assert (Hnew : forall f, In f (insert_i fo (disk st)) <-> f = fo \/ (In f (disk st) /\ i_name f <> out)).
  { intros f. apply insert_In. auto. }
  assert (Hkeep : forall f, In f (disk st) -> i_magic f = true -> In f (insert_i fo (disk st))).
  { intros f Hf Mf. apply Hnew. right. split; auto. intros E. rewrite (K f Hf E) in Mf. discriminate. }
  assert (Hcomp : forall m, is_complete (disk st) m = true -> is_complete (insert_i fo (disk st)) m = true).
  { intros m Hm. destruct (complete_file _ _ H1 Hm) as [f [F1 [F2 F3]]].
    apply is_complete_spec; [apply insert_sorted; auto|]. exists f. repeat split; auto. }
  assert (Hstack : mono (streams_of (disk st) inputs)).
  { apply stack_mono; auto. apply ssorted_skipn. auto. }
  (* the content of the output: exactly what the stack of inputs shows *)
  assert (M1 : forall id v, lookup (i_streams fo) id = Some v ->
                exists gi, In gi (disk st) /\ In (i_name gi) inputs /\ i_magic gi = true /\ lookup (i_streams gi) id = Some v).
  { intros id v L. simpl in L. rewrite merge_lookup in L. apply visible_from in L. destruct L as [s [Hs Ls]].
    destruct (streams_of_In_name _ _ _ H1 Hs Hin_comp) as [gi [G1 [G2 [G3 G4]]]]. exists gi. subst s. auto. }
  assert (M2 : forall gi id v, In gi (disk st) -> In (i_name gi) inputs -> lookup (i_streams gi) id = Some v ->
                exists w, lookup (i_streams fo) id = Some w /\ v <= w).
  { intros gi id v G1 G2 L. simpl. rewrite merge_lookup. apply (visible_ge _ (i_streams gi)); auto.
    apply In_streams_of; auto. }
  constructor; simpl.
  - apply insert_sorted. auto.
  - intros f h id v w Hf Hh Mf Mh. apply Hnew in Hf. apply Hnew in Hh.
    destruct Hf as [->|[Hf _]]; [discriminate|]. destruct Hh as [->|[Hh _]]; [discriminate|]. apply H2; auto.
  - exact H3a.
  - intros m Hm. apply Hcomp. auto.
  - intros f Hf. apply Hnew in Hf. destruct Hf as [->|[Hf _]]; auto.
    simpl. specialize (H4 ftg T1). rewrite T2 in H4. simpl in H4. exact H4.
  - unfold inv_imp in *. simpl. destruct (imp st) as [n|] eqn:Ei; auto.
    destruct H5 as [[fn [Fn1 Fn2]] [A [B [C D]]]].
    assert (n <> out) as Hno by (intros E; apply Himp_out; rewrite E; reflexivity).
    repeat split; auto.
    + exists fn. split; auto. apply Hnew. right. split; auto. congruence.
    + intros h Hh Nh. apply Hnew in Hh. destruct Hh as [->|[Hh _]]; auto.
      simpl. assert (i_name ftg <> n) as Hne by (rewrite T2; intros E; apply A; rewrite <- E; auto).
      specialize (C ftg T1 Hne). rewrite T2 in C. exact C.
    + intros f h id v w Hf Ef Hh Nh Lv Lw. apply Hnew in Hf. apply Hnew in Hh.
      destruct Hf as [->|[Hf _]]; [simpl in Ef; congruence|].
      destruct Hh as [->|[Hh _]]; [|apply (D f h id v w); auto].
      destruct (M1 id v Lv) as [gi [G1 [G2 [G3 G4]]]].
      apply (D f gi id v w); auto. intros E. apply A. rewrite <- E. auto.
  - unfold inv_mrg. simpl. split.
    { exists (firstn off (mem st)), [], t, g. repeat split; auto.
      - rewrite app_nil_r. symmetry. apply firstn_skipn.
      - apply firstn_length_le. apply Nat.lt_le_incl. apply skipn_nonempty_length.
        intros E. fold inputs in E. rewrite E in Hlast_in. destruct Hlast_in.
      - intros p []. }
    split; [exact Hout_mem|]. split; [exact Hout_rm|]. split; [exact Himp_out|]. split.
    + exists fo. split; [apply Hnew; auto|]. split; auto. split.
      * intros id v L. destruct (M1 id v L) as [gi [G1 [G2 [G3 G4]]]]. exists gi. repeat split; auto.
      * intros gi id v Hg Ig L. apply Hnew in Hg. destruct Hg as [->|[Hg _]].
        -- exfalso. simpl in Ig. apply Hout_mem. auto.
        -- apply (M2 gi id v); auto.
    + intros f Hf Mf Nf If Of Lf. apply Hnew in Hf. destruct Hf as [->|[Hf _]]; [discriminate|].
      assert (forall o i, mrg st <> Some (i_name f, o, i)) as N3 by (intros o i; rewrite Em; discriminate).
      destruct (H7 f Hf Mf Nf If N3) as [G [G1 [G2 [G3 G4]]]]. exists G. repeat split; auto.
      * apply Hkeep; auto. destruct (complete_file _ _ H1 (H3b _ G2)) as [G' [P1 [P2 P3]]].
        assert (G' = G) by (eapply dsorted_unique; eauto). subst. auto.
      * apply flt_asym. auto.
  - intros f Hf Mf Nf If Of. simpl in *. apply Hnew in Hf. destruct Hf as [->|[Hf Nout]]; [discriminate|].
    assert (forall o i, mrg st <> Some (i_name f, o, i)) as N3 by (intros o i; rewrite Em; discriminate).
    destruct (H7 f Hf Mf Nf If N3) as [G [G1 [G2 [G3 G4]]]]. exists G. repeat split; auto.
    apply Hkeep; auto. destruct (complete_file _ _ H1 (H3b _ G2)) as [G' [P1 [P2 P3]]].
    assert (G' = G) by (eapply dsorted_unique; eauto). subst. auto.
  - exact H8a.
  - intros m Hm. destruct (H8b m Hm) as [A0 B0]. split; auto.
Qed.

Definition fname_dec : forall a b : fname, {a = b} + {a <> b}.
Proof. decide equality; apply N.eq_dec. Defined.

(* ---------------------------------------------------------------- MrgMagic *)
Lemma complete_is : forall d f, dsorted d -> In f d -> is_complete d (i_name f) = true -> i_magic f = true.
Proof.
  intros d f Hs Hf Hc. destruct (complete_file _ _ Hs Hc) as [g [G1 [G2 G3]]].
  assert (g = f) by (eapply dsorted_unique; eauto). subst. auto.
Qed.

Lemma inv_mrg_magic : forall st, inv st -> inv (step true st MrgMagic).
Proof.
  intros st Hinv. pose proof Hinv as [H1 H2 H3a H3b H4 H5 H6 H7 H8a H8b]. simpl.
  destruct (mrg st) as [[[out off] inputs]|] eqn:Em; auto. rewrite <- Em.
  unfold inv_mrg in H6. rewrite Em in H6.
  destruct H6 as [[pre [post [t [g [P1 [P2 [P3 [P4 P5]]]]]]]] [B' [C' [D' [[fo [F1 [F2 [M1 M2]]]] M3]]]]].
  assert (Hs : ssorted (pre ++ inputs ++ post)) by (rewrite <- P1; auto).
  apply ssorted_app in Hs. destruct Hs as [S1 [S23 S1x]]. apply ssorted_app in S23. destruct S23 as [S2 [S3 S2x]].
  assert (Hin_mem : forall m, In m inputs -> In m (mem st)).
  { intros m Hm. rewrite P1. apply in_or_app. right. apply in_or_app. auto. }
  assert (Hin_lt : forall m, In m inputs -> flt m out).
  { intros m Hm. subst out. destruct (ssorted_last_max _ _ S2 P3 m Hm) as [->|Hl]; [apply flt_succ_self|].
    eapply flt_trans; eauto. apply flt_succ_self. }
  assert (Hpre_lt : forall p m, In p pre -> In m inputs -> flt p m).
  { intros p m Hp Hm. apply S1x; auto. apply in_or_app. auto. }
  (* a complete file below the output has no newer version than the output *)
  assert (Hbelow : forall f0 id v w, In f0 (disk st) -> i_magic f0 = true -> flt (i_name f0) out ->
                     lookup (i_streams f0) id = Some v -> lookup (i_streams fo) id = Some w -> v <= w).
  { intros f0 id v w Hf Mf Lt Lv Lw.
    destruct (M1 id w Lw) as [gi [G1 [G2 G3]]].
    assert (Mgi : i_magic gi = true) by (apply (complete_is _ _ H1 G1); apply H3b; auto).
    (* it is enough to find an input above f0 (or f0 itself) that has the stream *)
    assert (Hvia : forall h u, In h (disk st) -> In (i_name h) inputs -> lookup (i_streams h) id = Some u ->
                     (h = f0 \/ flt (i_name f0) (i_name h)) -> v <= w).
    { intros h u Hh Ih Lu Hrel. destruct (M2 h id u Hh Ih Lu) as [w' [Lw' Hle]].
      assert (w' = w) by congruence. subst w'.
      destruct Hrel as [->|Hrel]; [assert (u = v) by congruence; lia|].
      assert (Mh : i_magic h = true) by (apply (complete_is _ _ H1 Hh); apply H3b; auto).
      pose proof (H2 f0 h id v u Hf Hh Mf Mh Hrel Lv Lu). lia. }
    destruct (in_dec fname_dec (i_name f0) (mem st)) as [Hm|Hm].
    - rewrite P1 in Hm. apply in_app_or in Hm. destruct Hm as [Hm|Hm].
      + apply (Hvia gi w); auto.
      + apply in_app_or in Hm. destruct Hm as [Hm|Hm].
        * apply (Hvia f0 v); auto.
        * exfalso. apply (flt_asym _ _ Lt). auto.
    - assert (imp st <> Some (i_name f0)) as If.
      { intros Ei. unfold inv_imp in H5. rewrite Ei in H5. destruct H5 as [_ [_ [_ [C _]]]].
        subst out. apply flt_spec in Lt. simpl in *.
        assert (In (t, g) inputs) as Hl by (apply last_name_In; auto).
        destruct (complete_file _ _ H1 (H3b _ (Hin_mem _ Hl))) as [ftg [T1 [T2 T3]]].
        assert (i_name ftg <> i_name f0) as Hne' by (intros E; apply Hm; rewrite <- E, T2; auto).
        pose proof (C ftg T1 Hne') as Cx. rewrite T2 in Cx. simpl in Cx. lia. }
      assert (i_name f0 <> out) as Of by (intros E; rewrite E in Lt; eapply flt_irrefl; eauto).
      destruct (M3 f0 Hf Mf Hm If Of Lt) as [G [G1' [G2' [G3' [G4' G5']]]]].
      destruct (G5' id v Lv) as [u Lu].
      rewrite P1 in G2'. apply in_app_or in G2'. destruct G2' as [Gp|Gp].
      + apply (Hvia gi w); auto. right. eapply flt_trans; eauto.
      + apply in_app_or in Gp. destruct Gp as [Gp|Gp].
        * apply (Hvia G u); auto.
        * exfalso. apply G3'. auto. }
  constructor; simpl.
  - apply set_magic_sorted. auto.
  - intros f' g' id v w Hf Hg Mf Mg Lt Lv Lw.
    destruct (sm_old out _ f' Hf) as [f0 [F1' [F2' [F3' F4']]]]. destruct (sm_old out _ g' Hg) as [g0 [G1 [G2 [G3 G4]]]].
    rewrite <- F2', <- G2 in Lt. rewrite <- F3' in Lv. rewrite <- G3 in Lw.
    destruct (F4' Mf) as [Mf0|Ef0]; destruct (G4 Mg) as [Mg0|Eg0].
    + apply (H2 f0 g0 id v w); auto.
    + assert (g0 = fo) by (eapply dsorted_unique; eauto; congruence). subst g0.
      rewrite Eg0 in Lt. apply (Hbelow f0 id v w); auto.
    + assert (f0 = fo) by (eapply dsorted_unique; eauto; congruence). subst f0.
      destruct (M1 id v Lv) as [gi [Gi1 [Gi2 Gi3]]].
      assert (Mgi : i_magic gi = true) by (apply (complete_is _ _ H1 Gi1); apply H3b; auto).
      apply (H2 gi g0 id v w); auto. eapply flt_trans; [apply Hin_lt; eauto|]. rewrite <- Ef0. auto.
    + exfalso. rewrite Ef0, Eg0 in Lt. eapply flt_irrefl; eauto.
  - exact H3a.
  - intros m Hm. apply complete_set_magic; auto.
  - intros f' Hf. destruct (sm_old out _ f' Hf) as [f0 [F1' [F2' _]]]. rewrite <- F2'. auto.
  - unfold inv_imp in *. simpl. destruct (imp st) as [n|] eqn:Ei; auto.
    destruct H5 as [[fn [Fn1 Fn2]] [A [B [C D]]]]. repeat split; auto.
    + destruct (sm_new out _ fn Fn1) as [f' [Q1 [Q2 _]]]. exists f'. split; auto. congruence.
    + intros g' Hg Ng. destruct (sm_old out _ g' Hg) as [g0 [G1 [G2 _]]]. rewrite <- G2 in *. auto.
    + intros f' g' id v w Hf Ef Hg Ng Lv Lw.
      destruct (sm_old out _ f' Hf) as [f0 [F1' [F2' [F3' _]]]]. destruct (sm_old out _ g' Hg) as [g0 [G1 [G2 [G3 _]]]].
      rewrite <- F3' in Lw. rewrite <- G3 in Lv. apply (D f0 g0 id v w); auto; congruence.
  - unfold inv_mrg. simpl. rewrite Em. split.
    { exists pre, post, t, g. repeat split; auto. }
    split; [exact B'|]. split; [exact C'|]. split; [exact D'|]. split.
    + destruct (sm_new out _ fo F1) as [fo' [Q1 [Q2 [Q3 _]]]]. exists fo'. split; auto. split; [congruence|]. split.
      * intros id v L. rewrite Q3 in L. destruct (M1 id v L) as [gi [G1 [G2 G3]]].
        destruct (sm_new out _ gi G1) as [g' [R1 [R2 [R3 _]]]]. exists g'. rewrite R2, R3. auto.
      * intros g' id v Hg Ig L. destruct (sm_old out _ g' Hg) as [g0 [G1 [G2 [G3 _]]]].
        rewrite <- G2 in Ig. rewrite <- G3 in L. rewrite Q3. eapply M2; eauto.
    + intros f' Hf Mf Nf If Of Lf. destruct (sm_old out _ f' Hf) as [f0 [F1' [F2' [F3' F4']]]].
      rewrite <- F2' in *. destruct (F4' Mf) as [Mf0|Ef0]; [|contradiction].
      destruct (M3 f0 F1' Mf0 Nf If Of Lf) as [G [G1 [G2 [G3 [G4 G5]]]]].
      destruct (sm_new out _ G G1) as [G' [R1 [R2 [R3 _]]]]. exists G'. rewrite R2. repeat split; auto.
      intros id v L. rewrite <- F3' in L. rewrite R3. eapply G5; eauto.
  - intros f' Hf Mf Nf If Of. simpl in *. destruct (sm_old out _ f' Hf) as [f0 [F1' [F2' [F3' F4']]]].
    rewrite <- F2' in *. destruct (F4' Mf) as [Mf0|Ef0].
    + destruct (H7 f0 F1' Mf0 Nf If Of) as [G [G1 [G2 [G3 G4]]]].
      destruct (sm_new out _ G G1) as [G' [R1 [R2 [R3 _]]]]. exists G'. rewrite R2. repeat split; auto.
      intros id v L. rewrite <- F3' in L. rewrite R3. eapply G4; eauto.
    + exfalso. apply (Of off inputs). rewrite Em, Ef0. reflexivity.
  - exact H8a.
  - intros m Hm. destruct (H8b m Hm) as [A0 B0]. split; auto. apply complete_set_magic; auto.
Qed.

(* ---------------------------------------------------------------- MrgPublish *)
Lemma firstn_app_exact : forall {A} (a b : list A), firstn (List.length a) (a ++ b) = a.
Proof. intros. rewrite firstn_app, Nat.sub_diag, firstn_all. simpl. apply app_nil_r. Qed.
Lemma skipn_app_exact : forall {A} (a b c : list A),
  skipn (List.length a + List.length b) (a ++ b ++ c) = c.
Proof.
  intros. rewrite app_assoc. rewrite <- app_length. rewrite skipn_app, Nat.sub_diag, skipn_all. reflexivity.
Qed.

Lemma nodup_app_intro : forall {A} (a b : list A), NoDup a -> NoDup b ->
  (forall x, In x a -> In x b -> False) -> NoDup (a ++ b).
Proof.
  intros A a b Ha Hb Hd. induction Ha as [|x a Hx Ha IH]; simpl; auto.
  constructor.
  - intros Hc. apply in_app_or in Hc. destruct Hc as [Hc|Hc]; auto. apply (Hd x); auto. left; auto.
  - apply IH. intros y Hy. apply Hd. right; auto.
Qed.

Lemma inv_mrg_publish : forall st, inv st -> inv (step true st MrgPublish).
Proof.
  intros st Hinv. pose proof Hinv as [H1 H2 H3a H3b H4 H5 H6 H7 H8a H8b]. simpl.
  destruct (mrg st) as [[[out off] inputs]|] eqn:Em; auto.
  destruct (is_complete (disk st) out) eqn:Ec; auto.
  unfold inv_mrg in H6. rewrite Em in H6.
  destruct H6 as [[pre [post [t [g [P1 [P2 [P3 [P4 P5]]]]]]]] [B' [C' [D' [[fo [F1 [F2 [M1 M2]]]] M3]]]]].
  assert (Hs : ssorted (pre ++ inputs ++ post)) by (rewrite <- P1; auto).
  apply ssorted_app in Hs. destruct Hs as [S1 [S23 S1x]]. apply ssorted_app in S23. destruct S23 as [S2 [S3 S2x]].
  assert (Hin_mem : forall m, In m inputs -> In m (mem st)).
  { intros m Hm. rewrite P1. apply in_or_app. right. apply in_or_app. auto. }
  assert (Hin_lt : forall m, In m inputs -> flt m out).
  { intros m Hm. subst out. destruct (ssorted_last_max _ _ S2 P3 m Hm) as [->|Hl]; [apply flt_succ_self|].
    eapply flt_trans; eauto. apply flt_succ_self. }
  assert (Hlast : In (t, g) inputs) by (apply last_name_In; auto).
  assert (Hpre_out : forall p, In p pre -> flt p out).
  { intros p Hp. eapply flt_trans; [|apply Hin_lt; eauto]. apply S1x; auto. apply in_or_app. auto. }
  assert (Hmem' : firstn off (mem st) ++ out :: skipn (off + List.length inputs) (mem st) = pre ++ out :: post).
  { rewrite P1, <- P2. rewrite firstn_app_exact, skipn_app_exact. reflexivity. }
  rewrite Hmem'.
  assert (Mfo : i_magic fo = true) by (apply (complete_is _ _ H1 F1); rewrite F2; auto).
  assert (Hsub : forall m, In m (pre ++ out :: post) -> m = out \/ (In m (mem st) /\ ~ In m inputs)).
  { intros m Hm. apply in_app_or in Hm. destruct Hm as [Hm|[<-|Hm]]; auto; right.
    - split; [rewrite P1; apply in_or_app; auto|]. intros Hc. apply (flt_irrefl m). apply S1x; auto. apply in_or_app. auto.
    - split; [rewrite P1; apply in_or_app; right; apply in_or_app; auto|]. intros Hc. apply (flt_irrefl m). apply S2x; auto. }
  assert (Hsup : forall m, In m (mem st) -> ~ In m inputs -> In m (pre ++ out :: post)).
  { intros m Hm Hn. rewrite P1 in Hm. apply in_app_or in Hm. destruct Hm as [Hm|Hm]; [apply in_or_app; auto|].
    apply in_app_or in Hm. destruct Hm as [Hm|Hm]; [contradiction|]. apply in_or_app. right. right. auto. }
  constructor; simpl.
  - exact H1.
  - exact H2.
  - apply ssorted_app. split; auto. split.
    + simpl. split; auto.
    + intros x y Hx [<-|Hy]; auto. apply S1x; auto. apply in_or_app. auto.
  - intros m Hm. destruct (Hsub m Hm) as [->|[Hm' _]]; auto.
  - exact H4.
  - unfold inv_imp in *. simpl. destruct (imp st) as [n|] eqn:Ei; auto.
    destruct H5 as [Fn [A [B [C D]]]]. repeat split; auto.
    + intros Hc. destruct (Hsub n Hc) as [->|[Hm' _]]; auto.
    + intros Hc. apply in_app_or in Hc. destruct Hc as [Hc|Hc]; auto.
  - exact I.
  - intros f Hf Mf Nf If _. simpl in *.
    destruct (in_dec fname_dec (i_name f) inputs) as [Hi|Hi].
    + (* a released input is covered by the output *)
      exists fo. repeat split; auto.
      * rewrite F2. apply in_or_app. right. left. auto.
      * rewrite F2. auto.
      * intros id v L. destruct (M2 f id v Hf Hi L) as [w [Lw _]]. eauto.
    + assert (~ In (i_name f) (mem st)) as Nf' by (intros Hc; apply Nf; apply Hsup; auto).
      assert (i_name f <> out) as Of by (intros E; apply Nf; rewrite E; apply in_or_app; right; left; auto).
      assert (forall o i, mrg st <> Some (i_name f, o, i)) as N3.
      { intros o i E. rewrite Em in E. injection E as E _ _. auto. }
      destruct (H7 f Hf Mf Nf' If N3) as [G [G1 [G2 [G3 G4]]]].
      destruct (in_dec fname_dec (i_name G) inputs) as [Gi|Gi].
      * exists fo. repeat split; auto.
        -- rewrite F2. apply in_or_app. right. left. auto.
        -- rewrite F2. eapply flt_trans; eauto.
        -- apply (ids_sub_trans f G fo); auto. intros id v L. destruct (M2 G id v G1 Gi L) as [w [Lw _]]. eauto.
      * exists G. repeat split; auto.
  - apply nodup_app_intro.
    + exact H8a.
    + apply ssorted_NoDup. auto.
    + intros m Hm Hi. destruct (H8b m Hm) as [Nm _]. apply Nm. auto.
  - intros m Hm. apply in_app_or in Hm. destruct Hm as [Hm|Hm].
    + destruct (H8b m Hm) as [Nm Cm]. split; auto. intros Hc. destruct (Hsub m Hc) as [->|[Hm' _]]; auto.
    + split; [|apply H3b; auto]. intros Hc. destruct (Hsub m Hc) as [->|[_ Hn]]; auto.
Qed.

(* ---------------------------------------------------------------- every history *)
Theorem step_inv : forall st e, inv st -> inv (step true st e).
Proof.
  intros st e H. destruct e.
  - apply inv_imp_create; auto.
  - apply inv_imp_magic; auto.
  - apply inv_imp_publish; auto.
  - apply inv_mrg_create; auto.
  - apply inv_mrg_magic; auto.
  - apply inv_mrg_publish; auto.
  - apply inv_mrg_remove; auto.
  - apply inv_restart; auto.
Qed.

Theorem run_inv : forall es, inv (run_m true es).
Proof.
  intros es. unfold run_m. rewrite <- fold_left_rev_right.
  induction (rev es) as [|e r IH]; simpl; [apply inv_init|]. apply step_inv. auto.
Qed.

(* EVERY history of import / merge / restart events with the patched naming, stopped at ANY point
   (every event is one atomic file step or one service-loop closure): a restart shows every stream
   the running manager shows, under the same id, in that or a newer version. *)
Theorem restart_shows_memory_or_newer_all : forall es id v,
  mem_view (run_m true es) id = Some v ->
  exists w, restart_view (run_m true es) id = Some w /\ v <= w.
Proof.
  intros es id v H. pose proof (run_inv es) as [H1 H2 H3a H3b _ _ _ _ _ _].
  apply restart_shows_memory_or_newer; auto. apply dmono_readable_mono; auto.
Qed.

(* and it is the newest version that any complete file on disk holds *)
Theorem restart_shows_newest_on_disk : forall es f id v,
  In f (disk (run_m true es)) -> i_magic f = true -> lookup (i_streams f) id = Some v ->
  exists w, restart_view (run_m true es) id = Some w /\ v <= w.
Proof.
  intros es f id v Hf Mf L. pose proof (run_inv es) as [H1 H2 _ _ _ _ _ _ _ _].
  unfold restart_view, recover_streams. apply (visible_ge _ (i_streams f)); auto.
  - apply dmono_readable_mono; auto.
  - apply in_map. unfold readable. apply filter_In. auto.
Qed.
