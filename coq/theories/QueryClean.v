(* QueryClean.v -- soundness of the per-kind simplifiers clean_tag / clean_data / clean_num / clean_time:
   under every admissible valuation the cleaned list has the same truth value as the original one, and
   "impossible" (None) is only reported for lists that are false. *)
From Coq Require Import List NArith ZArith Bool Lia Sorting.Sorted Permutation.
From Pk Require Import Query QuerySort.
Import ListNotations.
Open Scope Z_scope.

(* shape of the statement shared by all simplifiers *)
Definition sound_clean {A} (ev : A -> bool) (l : list A) (r : option (list A)) : Prop :=
  match r with
  | Some l' => forallb ev l' = forallb ev l
  | None => forallb ev l = false
  end.

(* ------------------------------------------------------------------ tags *)

Lemma land_pow2 a k : N.land a (2 ^ k) = if N.testbit a k then (2 ^ k)%N else 0%N.
Proof.
  apply N.bits_inj. intros n. rewrite N.land_spec, N.pow2_bits_eqb.
  destruct (N.eqb_spec k n) as [->|Hne].
  - destruct (N.testbit a n) eqn:E; simpl; rewrite ?N.pow2_bits_true, ?N.bits_0; auto.
  - rewrite andb_false_r. destruct (N.testbit a k); rewrite ?N.pow2_bits_false, ?N.bits_0; auto.
Qed.

Lemma tag_state_pow2 st : tag_state st -> exists k, st = (2 ^ k)%N.
Proof.
  intros [ -> | [ -> | [ -> | -> ] ] ]; [exists 0%N|exists 1%N|exists 2%N|exists 3%N]; reflexivity.
Qed.

Lemma pow2_nz k : (2 ^ k)%N <> 0%N.
Proof. apply N.pow_nonzero. discriminate. Qed.

Lemma accept_bit a k : negb (N.eqb (N.land a (2 ^ k)) 0) = N.testbit a k.
Proof.
  rewrite land_pow2. destruct (N.testbit a k); simpl; auto.
  destruct (N.eqb_spec (2 ^ k) 0) as [E|]; auto. exfalso. eapply pow2_nz; eauto.
Qed.

Lemma eval_tag_land v (ok : val_ok v) sub name a b :
  eval_tag v (mkTag sub name (N.land a b)) = eval_tag v (mkTag sub name a) && eval_tag v (mkTag sub name b).
Proof.
  unfold eval_tag; simpl.
  destruct (ok sub) as (_ & _ & _ & Ht). destruct (tag_state_pow2 _ (Ht name)) as [k ->].
  rewrite !accept_bit, N.land_spec. reflexivity.
Qed.

Lemma tag_ins_sound v (ok : val_ok v) c m :
  forallb (eval_tag v) (tag_ins c m) = eval_tag v c && forallb (eval_tag v) m.
Proof.
  induction m as [|d r IH]; simpl.
  - rewrite andb_true_r. reflexivity.
  - destruct (N.eqb_spec (t_sub c) (t_sub d)) as [E1|]; simpl.
    + destruct (N.eqb_spec (t_name c) (t_name d)) as [E2|]; simpl.
      * rewrite eval_tag_land by auto. destruct c as [cs cn ca], d as [ds dn da]; simpl in *; subst.
        destruct (eval_tag v {| t_sub := ds; t_name := dn; t_acc := da |}),
                 (eval_tag v {| t_sub := ds; t_name := dn; t_acc := ca |}); reflexivity.
      * rewrite IH. destruct (eval_tag v d), (eval_tag v c); reflexivity.
    + rewrite IH. destruct (eval_tag v d), (eval_tag v c); reflexivity.
Qed.

Lemma tag_fold_sound v (ok : val_ok v) l m :
  forallb (eval_tag v) (fold_left (fun m c => tag_ins c m) l m) = forallb (eval_tag v) l && forallb (eval_tag v) m.
Proof.
  revert m; induction l as [|c l IH]; intros m; simpl; auto.
  rewrite IH, tag_ins_sound by auto.
  destruct (eval_tag v c), (forallb (eval_tag v) l), (forallb (eval_tag v) m); reflexivity.
Qed.

Lemma eval_tag_zero v c : t_acc c = 0%N -> eval_tag v c = false.
Proof. unfold eval_tag. intros ->. reflexivity. Qed.

Theorem clean_tag_sound v (ok : val_ok v) l : sound_clean (eval_tag v) l (clean_tag l).
Proof.
  unfold clean_tag, sound_clean.
  pose proof (tag_fold_sound v ok l []) as H. simpl in H. rewrite andb_true_r in H.
  destruct (existsb _ _) eqn:E.
  - apply existsb_exists in E as (c & Hin & Hz). apply N.eqb_eq in Hz.
    rewrite <- H. destruct (forallb _ _) eqn:F; auto.
    rewrite forallb_forall in F. specialize (F c Hin). rewrite (eval_tag_zero v c Hz) in F. discriminate.
  - rewrite isort_forallb. auto.
Qed.

(* ------------------------------------------------------------------ data sequences *)

Section Chain.
  Variable nxt : N -> N -> option N.

  Fixpoint run_all (els : list N) (p : N) : option N :=
    match els with
    | [] => Some p
    | e :: r => match nxt e p with Some q => run_all r q | None => None end
    end.

  Lemma run_all_app a b p :
    run_all (a ++ b) p = match run_all a p with Some q => run_all b q | None => None end.
  Proof.
    revert p; induction a as [|e a IH]; intros p; simpl; auto.
    destruct (nxt e p); auto.
  Qed.

  Lemma eval_chain_split pre x inv p :
    eval_chain nxt (pre ++ [x]) inv p =
    match run_all pre p with
    | Some q => if inv then negb (is_some (nxt x q)) else is_some (nxt x q)
    | None => false
    end.
  Proof.
    revert p; induction pre as [|e pre IH]; intros p; simpl; auto.
    destruct (pre ++ [x]) eqn:E; [destruct pre; discriminate|]. rewrite <- E in *.
    destruct (nxt e p); auto.
  Qed.

  Lemma eval_chain_pos els p : eval_chain nxt els false p = is_some (run_all els p).
  Proof.
    destruct els as [|e els] using rev_ind; [reflexivity|].
    rewrite eval_chain_split, run_all_app. destruct (run_all els p); simpl; auto.
    destruct (nxt e n); auto.
  Qed.

  (* whatever the last element does, everything before it has to match *)
  Lemma eval_chain_prefix_runs s t inv p :
    t <> [] -> eval_chain nxt (s ++ t) inv p = true -> is_some (run_all s p) = true.
  Proof.
    intros Ht H. destruct t as [|x t] using rev_ind; [congruence|]. clear IHt.
    rewrite app_assoc, eval_chain_split, run_all_app in H.
    destruct (run_all s p); auto.
  Qed.
End Chain.

Lemma is_prefix_app a b : is_prefix a b = true -> exists t, b = a ++ t.
Proof.
  revert b; induction a as [|x a IH]; intros b H; simpl in *; [exists b; auto|].
  destruct b as [|y b]; [discriminate|]. apply andb_true_iff in H as [E H]. apply N.eqb_eq in E. subst.
  destruct (IH _ H) as [t ->]. exists t; auto.
Qed.

Definition data_wf (c : datac) : Prop := d_el c <> [].

Lemma data_pair_equal v a b :
  data_wf a -> d_el a = d_el b -> d_inv a <> d_inv b -> eval_data v a && eval_data v b = false.
Proof.
  unfold eval_data, data_wf. intros Hw He Hi. rewrite <- He.
  destruct (d_el a) as [|x els] using rev_ind; [congruence|]. clear IHels.
  rewrite !eval_chain_split. destruct (run_all _ els (v_start v)); auto.
  destruct (d_inv a), (d_inv b); try congruence; destruct (is_some _); auto.
Qed.

Lemma data_prefix_contra v a b t :
  data_wf a -> d_inv a = true -> d_el b = d_el a ++ t -> t <> [] -> eval_data v a && eval_data v b = false.
Proof.
  unfold eval_data, data_wf. intros Hw Hi He Ht.
  destruct (eval_chain (v_nxt v) (d_el b) (d_inv b) (v_start v)) eqn:Eb; [|apply andb_false_r].
  rewrite He in Eb. apply eval_chain_prefix_runs in Eb; auto.
  destruct (d_el a) as [|x els] using rev_ind; [congruence|]. clear IHels.
  rewrite eval_chain_split, Hi. rewrite run_all_app in Eb.
  destruct (run_all _ els (v_start v)); auto. simpl in Eb. destruct (v_nxt v x n); simpl in *; auto.
Qed.

Lemma data_prefix_implied v a b t :
  d_inv a = false -> d_el b = d_el a ++ t -> t <> [] -> eval_data v b = true -> eval_data v a = true.
Proof.
  unfold eval_data. intros Hi He Ht Eb. rewrite He in Eb. apply eval_chain_prefix_runs in Eb; auto.
  rewrite Hi, eval_chain_pos. auto.
Qed.

Lemma data_dedupe_sound v a rest :
  Forall data_wf (a :: rest) ->
  sound_clean (eval_data v) (a :: rest) (data_dedupe a rest).
Proof.
  revert a; induction rest as [|b r IH]; intros a Hw; simpl; auto.
  inversion Hw as [|? ? Hwa Hwr]; subst.
  destruct (is_prefix (d_el a) (d_el b)) eqn:Ep.
  - destruct (is_prefix_app _ _ Ep) as [t Ht].
    destruct (Nat.eqb_spec (length (d_el a)) (length (d_el b))) as [El|El].
    + assert (t = []) as -> by (rewrite Ht, app_length in El; destruct t; simpl in *; auto; lia).
      rewrite app_nil_r in Ht.
      destruct (Bool.eqb (d_inv a) (d_inv b)) eqn:Ei.
      * apply eqb_prop in Ei. specialize (IH b Hwr). unfold sound_clean in *.
        assert (eval_data v a = eval_data v b) as Hab by (unfold eval_data; rewrite Ht, Ei; auto).
        simpl in *. rewrite Hab.
        replace (eval_data v b && (eval_data v b && forallb (eval_data v) r))
          with (eval_data v b && forallb (eval_data v) r) by (destruct (eval_data v b); auto).
        exact IH.
      * apply eqb_false_iff in Ei. simpl.
        pose proof (data_pair_equal v a b Hwa (eq_sym Ht) Ei) as Hc.
        destruct (eval_data v a), (eval_data v b); simpl in *; auto; discriminate.
    + assert (t <> []) by (intros ->; rewrite app_nil_r in Ht; rewrite Ht in El; auto).
      destruct (d_inv a) eqn:Ei.
      * simpl. pose proof (data_prefix_contra v a b t Hwa Ei Ht H) as Hc.
        destruct (eval_data v a), (eval_data v b); simpl in *; auto; discriminate.
      * specialize (IH b Hwr). unfold sound_clean in *. simpl in *.
        pose proof (data_prefix_implied v a b t Ei Ht H) as Himp.
        assert (Hk : eval_data v a && (eval_data v b && forallb (eval_data v) r)
                     = eval_data v b && forallb (eval_data v) r).
        { destruct (eval_data v b) eqn:Eb; simpl; [rewrite (Himp eq_refl); auto|apply andb_false_r]. }
        rewrite Hk. exact IH.
  - specialize (IH b Hwr). unfold sound_clean in *. simpl in *.
    destruct (data_dedupe b r); simpl; rewrite IH; auto. apply andb_false_r.
Qed.

Theorem clean_data_sound v l : Forall data_wf l -> sound_clean (eval_data v) l (clean_data l).
Proof.
  intros Hw. unfold clean_data.
  pose proof (isort_forallb data_key (eval_data v) l) as Hp.
  pose proof (isort_Forall data_key _ _ Hw) as Hw'.
  destruct (isort data_key l) as [|a r] eqn:E.
  - simpl in *. auto.
  - pose proof (data_dedupe_sound v a r Hw') as H. unfold sound_clean in *.
    destruct (data_dedupe a r); congruence.
Qed.

Lemma data_dedupe_wf a rest out : Forall data_wf (a :: rest) -> data_dedupe a rest = Some out -> Forall data_wf out.
Proof.
  revert a out; induction rest as [|b r IH]; intros a out Hw H; simpl in *.
  - inversion H; subst; auto.
  - inversion Hw as [|? ? Hwa Hwr]; subst.
    destruct (is_prefix _ _).
    + destruct (Nat.eqb _ _).
      * destruct (Bool.eqb _ _); [eauto|discriminate].
      * destruct (d_inv a); [discriminate|eauto].
    + destruct (data_dedupe b r) eqn:E; [|discriminate]. inversion H; subst. constructor; eauto.
Qed.
Lemma clean_data_wf l out : Forall data_wf l -> clean_data l = Some out -> Forall data_wf out.
Proof.
  intros Hw. unfold clean_data. pose proof (isort_Forall data_key _ _ Hw) as Hw'.
  destruct (isort data_key l); intros H; [inversion H; auto|]. eapply data_dedupe_wf; eauto.
Qed.

(* ------------------------------------------------------------------ numbers *)

Definition nsum_val (v : valuation) (s : nsum) : Z := ns_fac s * s_num (v_str v (ns_sub s)) (ns_ty s).
Definition sums_val (v : valuation) (l : list nsum) : Z := fold_right (fun s acc => nsum_val v s + acc) 0 l.

Lemma num_fold v l a :
  fold_left (fun x s => x + ns_fac s * s_num (v_str v (ns_sub s)) (ns_ty s)) l a = a + sums_val v l.
Proof.
  revert a; induction l as [|s l IH]; intros a; simpl; [lia|]. rewrite IH. unfold nsum_val. lia.
Qed.
Lemma num_value_eq v c : num_value v c = n_num c + sums_val v (n_sums c).
Proof. apply num_fold. Qed.

Lemma sums_val_perm v l l' : Permutation l l' -> sums_val v l = sums_val v l'.
Proof. induction 1; simpl; lia. Qed.

Lemma sums_cons v x l : sums_val v (x :: l) = nsum_val v x + sums_val v l.
Proof. reflexivity. Qed.
Lemma nsum_val_zero v s : ns_fac s = 0 -> nsum_val v s = 0.
Proof. unfold nsum_val. intros ->. lia. Qed.

Lemma nsum_merge_val v a rest : sums_val v (nsum_merge a rest) = sums_val v (a :: rest).
Proof.
  revert a; induction rest as [|b r IH]; intros a; [reflexivity|].
  cbn [nsum_merge]. unfold nsum_same.
  destruct (N.eqb (ns_sub a) (ns_sub b) && N.eqb (ns_ty a) (ns_ty b)) eqn:E.
  - apply andb_true_iff in E as [E1 E2]. apply N.eqb_eq in E1, E2.
    rewrite IH, !sums_cons. unfold nsum_val; cbn. rewrite E1, E2. lia.
  - destruct (Z.eqb_spec (ns_fac a) 0) as [Ez|Ez].
    + rewrite IH, !sums_cons, (nsum_val_zero v a Ez). lia.
    + rewrite !sums_cons, IH, sums_cons. lia.
Qed.

(* the downward search for a common divisor *)
Lemma cf_search_spec fuel c old f r :
  cf_search fuel c old f = Some r -> r = 1 \/ (1 < r /\ (r | old) /\ (r | f)).
Proof.
  revert c; induction fuel as [|n IH]; intros c H; simpl in *; [discriminate|].
  destruct (c <=? 1) eqn:E1; [inversion H; auto|].
  destruct (Z.eqb_spec (old mod c) 0) as [Eo|]; simpl in H.
  - destruct (Z.eqb_spec (f mod c) 0) as [Ef|]; simpl in H.
    + inversion H; subst. right. apply Z.leb_gt in E1.
      repeat split; try lia; apply Z.mod_divide; auto; lia.
    + eauto.
  - eauto.
Qed.
Lemma cf_down_spec old f : cf_down old f = 1 \/ (1 < cf_down old f /\ (cf_down old f | old) /\ (cf_down old f | f)).
Proof.
  unfold cf_down. destruct (cf_search _ _ _ _) eqn:E; auto. eapply cf_search_spec; eauto.
Qed.

Lemma divide_abs_r a b : (a | Z.abs b) <-> (a | b).
Proof. apply Z.divide_abs_r. Qed.

Lemma mod0_divide a b : a mod b = 0 -> (b | a).
Proof.
  intros H. destruct (Z.eq_dec b 0) as [->|Hb].
  - rewrite Zmod_0_r in H. subst. apply Z.divide_0_r.
  - apply Z.mod_divide; auto.
Qed.

Lemma cf_step_div prev cf fac :
  0 <= cf -> Forall (fun g => (cf | g)) prev ->
  let cf' := cf_step cf fac in 0 <= cf' /\ Forall (fun g => (cf' | g)) prev /\ (cf' | fac).
Proof.
  intros Hc Hp. unfold cf_step. set (f := Z.abs fac).
  assert (Hf : 0 <= f) by apply Z.abs_nonneg.
  destruct (Z.eqb_spec cf 1) as [->|H1].
  - repeat split; try lia; [eapply Forall_impl; [|exact Hp]; intros; apply Z.divide_1_l|apply Z.divide_1_l].
  - destruct (Z.eqb_spec (f mod cf) 0) as [E|E].
    + repeat split; auto. apply divide_abs_r. apply mod0_divide; auto.
    + destruct (Z.eqb_spec (cf mod f) 0) as [E2|E2].
      * repeat split; auto.
        -- eapply Forall_impl; [|exact Hp]. intros g Hg. eapply Z.divide_trans; [apply mod0_divide; eauto|auto].
        -- apply divide_abs_r. apply Z.divide_refl.
      * destruct (cf_down_spec cf f) as [->|(Hgt & Ho & Hff)].
        -- repeat split; try lia; [eapply Forall_impl; [|exact Hp]; intros; apply Z.divide_1_l|apply Z.divide_1_l].
        -- repeat split; try lia.
           ++ eapply Forall_impl; [|exact Hp]. intros g Hg. simpl in Hg. eapply Z.divide_trans; [exact Ho|exact Hg].
           ++ apply divide_abs_r; auto.
Qed.

Lemma cf_fold_div facs : forall prev cf,
  0 <= cf -> Forall (fun g => (cf | g)) prev ->
  let cf' := fold_left cf_step facs cf in 0 <= cf' /\ Forall (fun g => (cf' | g)) (prev ++ facs).
Proof.
  induction facs as [|f facs IH]; intros prev cf Hc Hp; simpl.
  - rewrite app_nil_r. auto.
  - destruct (cf_step_div prev cf f Hc Hp) as (H0 & Hp' & Hf).
    specialize (IH (prev ++ [f]) (cf_step cf f) H0).
    rewrite <- app_assoc in IH. simpl in IH. apply IH.
    apply Forall_app; split; auto.
Qed.

Lemma sums_val_scale v k l :
  k <> 0 -> Forall (fun s => (k | ns_fac s)) l ->
  sums_val v l = k * sums_val v (map (fun s => mkNs (ns_sub s) (ns_ty s) (Z.quot (ns_fac s) k)) l).
Proof.
  intros Hk. induction 1 as [|s l [q Hq] Hl IH]; simpl; [lia|].
  rewrite IH. unfold nsum_val; simpl. rewrite Hq, Z.quot_mul by auto. lia.
Qed.

Lemma num_norm1_sound v c : eval_num v (num_norm1 c) = eval_num v c.
Proof.
  unfold eval_num. rewrite !num_value_eq. unfold num_norm1.
  pose proof (isort_perm nsum_key (n_sums c)) as Hp.
  destruct (isort nsum_key (n_sums c)) as [|a r] eqn:Es.
  - apply Permutation_nil in Hp. cbn [n_num n_sums]. rewrite Hp. reflexivity.
  - assert (Hm : sums_val v (n_sums c) = sums_val v (nsum_merge a r)).
    { rewrite nsum_merge_val. symmetry. apply sums_val_perm. exact Hp. }
    rewrite Hm. clear Hm Hp.
    destruct (nsum_merge a r) as [|s0 rest] eqn:Em; [reflexivity|].
    set (cf := fold_left cf_step (map ns_fac rest) (Z.abs (ns_fac s0))).
    destruct (cf_fold_div (map ns_fac rest) [ns_fac s0] (Z.abs (ns_fac s0))) as (Hc0 & Hdiv).
    { apply Z.abs_nonneg. }
    { constructor; auto. apply Z.divide_abs_l. apply Z.divide_refl. }
    fold cf in Hc0, Hdiv.
    destruct (Z.eqb_spec cf 1) as [E1|E1]; cbn [orb]; [reflexivity|].
    destruct (Z.eqb_spec cf 0) as [E0|E0]; [reflexivity|].
    set (f := Z.abs (n_num c)).
    set (cf' := if (f mod cf =? 0) then cf else cf_down cf f).
    assert (Hcf' : 0 < cf' /\ (cf' | cf) /\ (cf' | n_num c)).
    { unfold cf'. destruct (Z.eqb_spec (f mod cf) 0) as [E|E].
      - repeat split; try lia; [apply Z.divide_refl|]. apply divide_abs_r. apply Z.mod_divide; auto.
      - destruct (cf_down_spec cf f) as [->|(Hgt & Ho & Hff)].
        + repeat split; try lia; apply Z.divide_1_l.
        + repeat split; try lia; auto. apply divide_abs_r; auto. }
    destruct Hcf' as (Hpos & Hdcf & Hdn).
    assert (Hall : Forall (fun s => (cf' | ns_fac s)) (s0 :: rest)).
    { assert (Forall (fun g => (cf' | g)) ([ns_fac s0] ++ map ns_fac rest)) as Hd.
      { eapply Forall_impl; [|exact Hdiv]. intros g Hg. simpl in Hg. eapply Z.divide_trans; [exact Hdcf|exact Hg]. }
      apply Forall_app in Hd as [Hd1 Hd2]. constructor.
      - inversion Hd1; subst; auto.
      - rewrite Forall_map in Hd2. auto. }
    cbn [n_num n_sums].
    rewrite (sums_val_scale v cf' (s0 :: rest)) by (auto; lia).
    destruct Hdn as [q Hq]. rewrite Hq at 2. rewrite Hq, Z.quot_mul by lia.
    set (S := sums_val v _).
    replace (q * cf' + cf' * S) with (cf' * (q + S)) by lia.
    destruct (Z.leb_spec 0 (q + S)) as [E|E]; symmetry.
    + apply Z.leb_le. apply Z.mul_nonneg_nonneg; lia.
    + apply Z.leb_gt. apply Z.mul_pos_neg; lia.
Qed.

Lemma eval_num_nosums v c : n_sums c = [] -> eval_num v c = (0 <=? n_num c).
Proof. intros H. unfold eval_num. rewrite num_value_eq, H. simpl. f_equal. lia. Qed.

Lemma num_norm_sound v l : sound_clean (eval_num v) l (num_norm l).
Proof.
  induction l as [|c r IH]; [reflexivity|].
  pose proof (num_norm1_sound v c) as H1. unfold sound_clean in *. cbn [num_norm forallb].
  destruct (n_sums (num_norm1 c)) eqn:Es.
  - rewrite (eval_num_nosums v _ Es) in H1. rewrite <- H1.
    destruct (Z.ltb_spec (n_num (num_norm1 c)) 0) as [En|En].
    + destruct (Z.leb_spec 0 (n_num (num_norm1 c))); [lia|reflexivity].
    + destruct (Z.leb_spec 0 (n_num (num_norm1 c))); [|lia]. cbn [andb]. exact IH.
  - rewrite <- H1. destruct (num_norm r); cbn [forallb]; rewrite IH; [reflexivity|apply andb_false_r].
Qed.

Lemma nsum_eqb_eq a b : nsum_eqb a b = true -> a = b.
Proof.
  unfold nsum_eqb. intros H. apply andb_true_iff in H as [H H3]. apply andb_true_iff in H as [H1 H2].
  apply N.eqb_eq in H1, H2. apply Z.eqb_eq in H3. destruct a, b; simpl in *; subst; auto.
Qed.

Lemma num_key_same_le a b :
  num_same a b = true -> lex_leb (num_key a) (num_key b) = true -> n_num a <= n_num b.
Proof.
  unfold num_same, num_key. intros Hs Hk. apply list_eqb_eq in Hs; [|apply nsum_eqb_eq].
  rewrite Hs in Hk.
  rewrite !app_comm_cons in Hk. eapply lex_leb_app_last; eauto.
Qed.

Lemma num_same_implies v a b : num_same a b = true -> n_num a <= n_num b -> eval_num v a = true -> eval_num v b = true.
Proof.
  unfold num_same, eval_num. intros Hs Hle. apply list_eqb_eq in Hs; [|apply nsum_eqb_eq].
  rewrite !num_value_eq, Hs. intros H. apply Z.leb_le in H. apply Z.leb_le. lia.
Qed.

Lemma num_dedupe_sound v a rest :
  StronglySorted (kle num_key) (a :: rest) ->
  forallb (eval_num v) (num_dedupe a rest) = forallb (eval_num v) (a :: rest).
Proof.
  revert a; induction rest as [|b r IH]; intros a Hs; simpl; auto.
  inversion Hs as [|? ? Hs' Hall]; subst. inversion Hall as [|? ? Hab Hall']; subst.
  destruct (num_same a b) eqn:Esame.
  - rewrite IH.
    + simpl. pose proof (num_key_same_le a b Esame Hab) as Hle.
      destruct (eval_num v a) eqn:Ea; simpl; auto. rewrite (num_same_implies v a b Esame Hle Ea). auto.
    + inversion Hs'; subst. constructor; auto.
  - simpl. rewrite IH; auto.
Qed.

Lemma sums_nonneg v (ok : val_ok v) l : forallb (fun s => 0 <=? ns_fac s) l = true -> 0 <= sums_val v l.
Proof.
  induction l as [|s l IH]; simpl; [lia|]. intros H. apply andb_true_iff in H as [H1 H2]. apply Z.leb_le in H1.
  specialize (IH H2). unfold nsum_val. destruct (ok (ns_sub s)) as (Hn & _). specialize (Hn (ns_ty s)).
  assert (0 <= ns_fac s * s_num (v_str v (ns_sub s)) (ns_ty s)) by (apply Z.mul_nonneg_nonneg; auto). lia.
Qed.
Lemma sums_nonpos v (ok : val_ok v) l : forallb (fun s => ns_fac s <=? 0) l = true -> sums_val v l <= 0.
Proof.
  induction l as [|s l IH]; simpl; [lia|]. intros H. apply andb_true_iff in H as [H1 H2]. apply Z.leb_le in H1.
  specialize (IH H2). unfold nsum_val. destruct (ok (ns_sub s)) as (Hn & _). specialize (Hn (ns_ty s)).
  assert (ns_fac s * s_num (v_str v (ns_sub s)) (ns_ty s) <= 0) by (apply Z.mul_nonpos_nonneg; auto). lia.
Qed.

Lemma num_sign_sound v (ok : val_ok v) l : sound_clean (eval_num v) l (num_sign l).
Proof.
  induction l as [|c r IH]; [reflexivity|]. unfold sound_clean in *. cbn [num_sign forallb].
  destruct (all_pos c) eqn:Ep.
  - unfold all_pos in Ep. apply andb_true_iff in Ep as [E1 E2]. apply Z.leb_le in E1.
    assert (eval_num v c = true) as Hc.
    { unfold eval_num. rewrite num_value_eq. apply Z.leb_le. pose proof (sums_nonneg v ok _ E2). lia. }
    rewrite Hc. cbn [andb]. exact IH.
  - destruct (all_neg c) eqn:En.
    + unfold all_neg in En. apply andb_true_iff in En as [E1 E2]. apply Z.ltb_lt in E1.
      assert (eval_num v c = false) as Hc.
      { unfold eval_num. rewrite num_value_eq. apply Z.leb_gt. pose proof (sums_nonpos v ok _ E2). lia. }
      rewrite Hc. reflexivity.
    + destruct (num_sign r); cbn [forallb]; rewrite IH; [reflexivity|apply andb_false_r].
Qed.

Theorem clean_num_sound v (ok : val_ok v) l : sound_clean (eval_num v) l (clean_num l).
Proof.
  unfold clean_num. pose proof (num_norm_sound v l) as H1. unfold sound_clean in H1.
  destruct (num_norm l) as [l1|]; auto.
  pose proof (isort_forallb num_key (eval_num v) l1) as Hp.
  pose proof (isort_sorted num_key l1) as Hs.
  destruct (isort num_key l1) as [|a r].
  - simpl in *. congruence.
  - pose proof (num_dedupe_sound v a r Hs) as Hd.
    pose proof (num_sign_sound v ok (num_dedupe a r)) as Hg. unfold sound_clean in *.
    destruct (num_sign (num_dedupe a r)); congruence.
Qed.

(* ------------------------------------------------------------------ times *)

Definition tsum_val (v : valuation) (s : tsum) : Z :=
  ts_f s * s_ftime (v_str v (ts_sub s)) + ts_l s * s_ltime (v_str v (ts_sub s)).
Definition tsums_val (v : valuation) (l : list tsum) : Z := fold_right (fun s acc => tsum_val v s + acc) 0 l.

Lemma time_fold v l a :
  fold_left (fun x s => x + ts_f s * s_ftime (v_str v (ts_sub s)) + ts_l s * s_ltime (v_str v (ts_sub s))) l a
  = a + tsums_val v l.
Proof.
  revert a; induction l as [|s l IH]; intros a; simpl; [lia|]. rewrite IH. unfold tsum_val. lia.
Qed.
Lemma time_value_eq v c : time_value v c = tm_dur c + tsums_val v (tm_sums c).
Proof. apply time_fold. Qed.
Lemma tsums_val_perm v l l' : Permutation l l' -> tsums_val v l = tsums_val v l'.
Proof. induction 1; simpl; lia. Qed.

Lemma tsum_zero_val v s : tsum_zero s = true -> tsum_val v s = 0.
Proof.
  unfold tsum_zero, tsum_val. intros H. apply andb_true_iff in H as [H1 H2].
  apply Z.eqb_eq in H1, H2. rewrite H1, H2. lia.
Qed.

Lemma tsums_cons v x l : tsums_val v (x :: l) = tsum_val v x + tsums_val v l.
Proof. reflexivity. Qed.

Lemma tsum_merge_val v a rest : tsums_val v (tsum_merge a rest) = tsums_val v (a :: rest).
Proof.
  revert a; induction rest as [|b r IH]; intros a; cbn [tsum_merge].
  - destruct (tsum_zero a) eqn:E; [|reflexivity]. rewrite tsums_cons, (tsum_zero_val v a E). reflexivity.
  - destruct (N.eqb_spec (ts_sub a) (ts_sub b)) as [E1|E1].
    + rewrite IH, !tsums_cons. unfold tsum_val; cbn. rewrite E1. lia.
    + destruct (tsum_zero a) eqn:E.
      * rewrite IH, !tsums_cons, (tsum_zero_val v a E). lia.
      * rewrite !tsums_cons, IH, tsums_cons. lia.
Qed.

Lemma time_norm1_sound v c : eval_time v (time_norm1 c) = eval_time v c.
Proof.
  unfold eval_time. rewrite !time_value_eq. unfold time_norm1.
  pose proof (isort_perm tsum_key (tm_sums c)) as Hp.
  destruct (isort tsum_key (tm_sums c)) as [|a r].
  - apply Permutation_nil in Hp. cbn [tm_dur tm_sums]. rewrite Hp. reflexivity.
  - cbn [tm_dur tm_sums]. rewrite tsum_merge_val, (tsums_val_perm v _ _ Hp). reflexivity.
Qed.

Lemma time_judge_sound v (ok : val_ok v) c :
  match time_judge c with
  | None => eval_time v c = false
  | Some None => eval_time v c = true
  | Some (Some c') => c' = c
  end.
Proof.
  unfold time_judge. destruct (tm_sums c) as [|s [|s2 r]] eqn:Es; auto.
  - unfold eval_time. rewrite time_value_eq, Es. simpl.
    destruct (tm_dur c <? 0) eqn:E; [apply Z.ltb_lt in E; apply Z.leb_gt|apply Z.ltb_ge in E; apply Z.leb_le]; lia.
  - destruct (Z.eqb_spec (ts_f s + ts_l s) 0) as [E0|E0]; simpl; auto.
    destruct (ok (ts_sub s)) as (_ & Hfl & _).
    assert (Hv : time_value v c = tm_dur c + ts_f s * (s_ftime (v_str v (ts_sub s)) - s_ltime (v_str v (ts_sub s)))).
    { rewrite time_value_eq, Es. simpl. unfold tsum_val. replace (ts_l s) with (- ts_f s) by lia. lia. }
    unfold eval_time. rewrite Hv.
    set (d := s_ftime (v_str v (ts_sub s)) - s_ltime (v_str v (ts_sub s))). assert (d <= 0) by (unfold d; lia).
    destruct (0 <? ts_f s) eqn:Ef.
    + apply Z.ltb_lt in Ef. destruct (tm_dur c <? 0) eqn:Ed; auto.
      apply Z.ltb_lt in Ed. apply Z.leb_gt. assert (ts_f s * d <= 0) by (apply Z.mul_nonneg_nonpos; lia). lia.
    + apply Z.ltb_ge in Ef. destruct (0 <=? tm_dur c) eqn:Ed; auto.
      apply Z.leb_le in Ed. apply Z.leb_le. assert (0 <= ts_f s * d) by (apply Z.mul_nonpos_nonpos; lia). lia.
Qed.

Lemma time_norm_sound v (ok : val_ok v) l : sound_clean (eval_time v) l (time_norm l).
Proof.
  induction l as [|c r IH]; [reflexivity|]. unfold sound_clean in *. cbn [time_norm forallb].
  pose proof (time_norm1_sound v c) as H1.
  pose proof (time_judge_sound v ok (time_norm1 c)) as Hj.
  destruct (time_judge (time_norm1 c)) as [[c'|]|].
  - subst c'. rewrite <- H1. destruct (time_norm r); cbn [forallb]; rewrite IH; [reflexivity|apply andb_false_r].
  - rewrite <- H1, Hj. cbn [andb]. exact IH.
  - rewrite <- H1, Hj. reflexivity.
Qed.

Lemma tsum_eqb_eq a b : tsum_eqb a b = true -> a = b.
Proof.
  unfold tsum_eqb. intros H. apply andb_true_iff in H as [H H3]. apply andb_true_iff in H as [H1 H2].
  apply N.eqb_eq in H1. apply Z.eqb_eq in H2, H3. destruct a, b; simpl in *; subst; auto.
Qed.

Lemma time_key_same_le a b :
  time_same a b = true -> lex_leb (time_key a) (time_key b) = true -> tm_dur a <= tm_dur b.
Proof.
  unfold time_same, time_key. intros Hs Hk. apply andb_true_iff in Hs as [Hs Hr].
  apply list_eqb_eq in Hs; [|apply tsum_eqb_eq]. apply Z.eqb_eq in Hr. rewrite Hs, Hr in Hk.
  set (pre := zlen (tm_sums b) :: flat_map (fun s => [zN (ts_sub s); ts_f s; ts_l s]) (tm_sums b) ++ [tm_ref b]).
  assert (forall x, zlen (tm_sums b) :: flat_map (fun s => [zN (ts_sub s); ts_f s; ts_l s]) (tm_sums b) ++ [tm_ref b; x] = pre ++ [x]) as E.
  { intros x. unfold pre. simpl. rewrite <- app_assoc. reflexivity. }
  rewrite !E in Hk. eapply lex_leb_app_last; eauto.
Qed.

Lemma time_same_implies v a b : time_same a b = true -> tm_dur a <= tm_dur b -> eval_time v a = true -> eval_time v b = true.
Proof.
  unfold time_same, eval_time. intros Hs Hle. apply andb_true_iff in Hs as [Hs _].
  apply list_eqb_eq in Hs; [|apply tsum_eqb_eq].
  rewrite !time_value_eq, Hs. intros H. apply Z.leb_le in H. apply Z.leb_le. lia.
Qed.

Lemma time_dedupe_sound v a rest :
  StronglySorted (kle time_key) (a :: rest) ->
  forallb (eval_time v) (time_dedupe a rest) = forallb (eval_time v) (a :: rest).
Proof.
  revert a; induction rest as [|b r IH]; intros a Hs; simpl; auto.
  inversion Hs as [|? ? Hs' Hall]; subst. inversion Hall as [|? ? Hab Hall']; subst.
  destruct (time_same a b) eqn:Esame.
  - rewrite IH.
    + simpl. pose proof (time_key_same_le a b Esame Hab) as Hle.
      destruct (eval_time v a) eqn:Ea; simpl; auto. rewrite (time_same_implies v a b Esame Hle Ea). auto.
    + inversion Hs'; subst. constructor; auto.
  - simpl. rewrite IH; auto.
Qed.

Theorem clean_time_sound v (ok : val_ok v) l : sound_clean (eval_time v) l (clean_time l).
Proof.
  unfold clean_time. pose proof (time_norm_sound v ok l) as H1. unfold sound_clean in H1.
  destruct (time_norm l) as [l1|]; auto.
  pose proof (isort_forallb time_key (eval_time v) l1) as Hp.
  pose proof (isort_sorted time_key l1) as Hs.
  destruct (isort time_key l1) as [|a r].
  - simpl in *. congruence.
  - pose proof (time_dedupe_sound v a r Hs) as Hd. unfold sound_clean. congruence.
Qed.
