(* QueryTotal.v -- C14 on the model side: the only loop of the normaliser that is not a structural recursion
   (the downward search for a common factor in cleanNumberConditions) terminates within its fuel; the meaning of
   a cleaned conjunct does not depend on the order in which its conditions arrive (Go map iteration, unstable
   sort.Slice); witnesses for the alternative readings of NOT. *)
From Coq Require Import List NArith ZArith Bool Lia Permutation.
From Pk Require Import Query QuerySort QueryClean QueryFlags QueryHosts QueryOps QuerySet QueryAtoms QueryMain QuerySeq QueryThen QueryGroup QueryChain QueryMulti.
Import ListNotations.
Open Scope Z_scope.

(* `for commonFactor--; commonFactor > 1; commonFactor--` started at old-1 ends within old steps *)
Lemma cf_search_fuel fuel : forall c old f,
  c <= Z.of_nat fuel -> fuel <> O -> exists r, cf_search fuel c old f = Some r.
Proof.
  induction fuel as [|n IH]; intros c old f Hc Hn; [congruence|]. cbn [cf_search].
  destruct (Z.leb_spec c 1); [eexists; reflexivity|].
  destruct (_ && _); [eexists; reflexivity|].
  apply IH; lia.
Qed.

Theorem cf_down_within_fuel old f : 1 <= old -> exists r, cf_search (Z.to_nat old) (old - 1) old f = Some r.
Proof. intros H. apply cf_search_fuel; lia. Qed.

(* after the patch fixes/C14-common-factor-loop the index of the summand loop advances on every path:
   the loop is the structural recursion fold_left cf_step; its result is a common divisor *)
Theorem common_factor_divides facs f0 :
  let cf := fold_left cf_step facs (Z.abs f0) in 0 <= cf /\ Forall (fun g => (cf | g)) (f0 :: facs).
Proof.
  intros cf. destruct (cf_fold_div facs [f0] (Z.abs f0)) as [H0 Hd].
  - apply Z.abs_nonneg.
  - constructor; [|constructor]. apply Z.divide_abs_l. apply Z.divide_refl.
  - split; auto.
Qed.

(* the meaning of a cleaned conjunct is independent of the order of its conditions *)
Lemma eval_conj_perm v c c' : Permutation c c' -> eval_conj v c = eval_conj v c'.
Proof.
  unfold eval_conj. induction 1; simpl; auto; try congruence.
  destruct (eval_cond v x), (eval_cond v y); reflexivity.
Qed.
Lemma conj_wf_perm c c' : Permutation c c' -> conj_wf c -> conj_wf c'.
Proof. unfold conj_wf. intros Hp Hw. rewrite Forall_forall in *. intros x Hx. apply Hw. eapply Permutation_in; [apply Permutation_sym|]; eauto. Qed.

Theorem clean_order_independent v c c' :
  val_ok v -> conj_wf c -> Permutation c c' -> eval_conj v (conj_clean c) = eval_conj v (conj_clean c').
Proof.
  intros ok Hw Hp.
  destruct (conj_clean_sound v ok c Hw) as [E _].
  destruct (conj_clean_sound v ok c' (conj_wf_perm c c' Hp Hw)) as [E' _].
  rewrite E, E'. apply eval_conj_perm. exact Hp.
Qed.

(* ------------------------------------------------------------------ witnesses *)
(* a stream with a payload of events [x; z] (elements 0 and 1), nothing else of interest *)
Definition ex_stream : stream := mkStream (fun _ => 0) 0 0 0%N [1; 2; 3; 4]%N [5; 6; 7; 8]%N (fun _ => 2%N).
Definition ex_events : list N := [1; 0]%N.      (* z first, then x *)
Fixpoint ex_next (evs : list N) (el : N) (i p : N) : option N :=
  match evs with
  | [] => None
  | e :: r => if (N.leb p i && N.eqb e el)%bool then Some (i + 1)%N else ex_next r el (i + 1)%N p
  end.
Definition ex_val : valuation := mkVal (fun _ => ex_stream) (fun el p => ex_next ex_events el 0%N p) 0.

Lemma ex_val_ok : val_ok ex_val /\ ids_ok ex_val.
Proof.
  split; [|unfold ids_ok, idv; cbn; unfold max_uint; lia].
  intros sub. unfold stream_ok. cbn. split; [intros; lia|]. split; [lia|]. split; [reflexivity|].
  intros n. unfold tag_state. right. left. reflexivity.
Qed.

(* --x then z: the look-ahead reading of DESIGN.md (semL) disagrees with double negation *)
Definition ex_dneg : expr := EThen (ENot (ENot (EAtom (AData 0 [0%N])))) (EAtom (AData 0 [1%N])).
Definition ex_pos : expr := EThen (EAtom (AData 0 [0%N])) (EAtom (AData 0 [1%N])).

(* (id:0 cdata:x) then -cdata:z on the payload z,x: after x there is no z. The continuation reading of
   DESIGN.md fires the continuation at the start position for the position-less filter id:0 and says false. *)
Definition ex_grp : expr :=
  EThen (EAnd (EAtom (ANum [0%N] 0 [ROne [NPNum false 0]])) (EAtom (AData 0 [0%N]))) (ENot (EAtom (AData 0 [1%N]))).

Lemma ex_grp_wf : wf_seq true ex_grp = true /\ expr_wf ex_grp.
Proof. split; [reflexivity|]. cbn. repeat split; discriminate. Qed.

Lemma lookahead_reading_differs :
  sem ex_val ex_grp = true /\ semL ex_val ex_grp = false /\ eval_set ex_val (parse_conditions ex_grp) = true.
Proof. vm_compute. auto. Qed.

(* outside the fragment with a defined meaning: --x then z *)
Lemma double_negation_in_sequence :
  wf_seq true ex_dneg = false /\ sem ex_val ex_dneg = true /\ eval_set ex_val (parse_conditions ex_dneg) = false /\
  eval_set ex_val (parse_conditions ex_dneg) = eval_set ex_val (parse_conditions ex_pos).
Proof. vm_compute. auto. Qed.

(* a THEN-free, well-formed expression for the non-vacuity of the main theorem *)
Definition ex_tf : expr :=
  EOr (EAnd (EAtom (ANum [3%N; 4%N] 0 [RTwo [NPNum false 80] [NPNum false 90]]))
            (ENot (EAtom (ATag 0 [0%N; 1%N]))))
      (ENot (EAnd (EAtom (AData 0 [0%N; 1%N])) (EAtom (AProto 0 [PTok 1%N])))).
Lemma ex_tf_ok : then_free ex_tf = true /\ expr_wf ex_tf.
Proof. split; [reflexivity|]. cbn. repeat split; try discriminate. repeat constructor. cbn. lia. Qed.

Lemma lookahead_reading_refuted :
  exists (v : valuation) (e : expr),
    val_ok v /\ wf_seq true e = true /\ expr_wf e /\
    sem v e = true /\ semL v e = false /\ eval_set v (parse_conditions e) = true.
Proof.
  exists ex_val, ex_grp. destruct ex_val_ok as [ok _]. destruct ex_grp_wf as [W1 W2].
  destruct lookahead_reading_differs as (A & B & C).
  split; [exact ok|]. split; [exact W1|]. split; [exact W2|]. split; [exact A|]. split; [exact B|exact C].
Qed.

Lemma negated_group_in_sequence_refuted :
  exists (v : valuation) (e : expr),
    val_ok v /\ wf_seq true e = false /\ sem v e = true /\ eval_set v (parse_conditions e) = false.
Proof.
  exists ex_val, ex_dneg. destruct ex_val_ok as [ok _]. destruct double_negation_in_sequence as (A & B & C & _).
  split; [exact ok|]. split; [exact A|]. split; [exact B|exact C].
Qed.

Lemma hypotheses_satisfiable : (val_ok ex_val /\ ids_ok ex_val) /\ (then_free ex_tf = true /\ expr_wf ex_tf).
Proof. split; [exact ex_val_ok|exact ex_tf_ok]. Qed.

Lemma num_norm1_nosums c : n_sums c = [] -> num_norm1 c = mkNum [] (n_num c).
Proof. intros H. unfold num_norm1. rewrite H. reflexivity. Qed.

(* an expression with THEN over groups for the non-vacuity of the main theorem:
   ((cdata:0 or -sdata:1) then data:{0,1}) then -(cdata:1 and tag:a)  or  (id:0 and -(cdata:0 then cdata:1)) *)
Definition ex_then : expr :=
  EOr (EThen (EThen (EOr (EAtom (AData 0 [0%N])) (ENot (EAtom (AData 0 [1%N])))) (EAtom (AData 0 [0%N; 1%N])))
             (ENot (EAnd (EAtom (AData 0 [1%N])) (EAtom (ATag 0 [0%N])))))
      (EAnd (EAtom (ANum [0%N] 0 [ROne [NPNum false 0]]))
            (ENot (EThen (EAtom (AData 0 [0%N])) (EAtom (AData 0 [1%N]))))).
Lemma ex_then_ok : tail_ok ex_then = true /\ expr_wf ex_then.
Proof. split; [reflexivity|]. cbn. repeat split; discriminate. Qed.
Lemma hypotheses_satisfiable_then : (val_ok ex_val /\ ids_ok ex_val) /\ (tail_ok ex_then = true /\ expr_wf ex_then).
Proof. split; [exact ex_val_ok|exact ex_then_ok]. Qed.

(* a group on the left of THEN: (cdata:0 id:0 -cdata:1) then -(cdata:1 then cdata:0), OR-ed with ex_then *)
Definition ex_group : expr :=
  EOr (EThen (EAnd (EAnd (EAtom (AData 0 [0%N])) (EAtom (ANum [0%N] 0 [ROne [NPNum false 0]]))) (ENot (EAtom (AData 0 [1%N]))))
             (ENot (EThen (EAtom (AData 0 [1%N])) (EAtom (AData 0 [0%N])))))
      ex_then.
Lemma ex_group_ok : class_ok ex_group = true /\ expr_wf ex_group.
Proof. split; [reflexivity|]. cbn. repeat split; discriminate. Qed.
Lemma hypotheses_satisfiable_class : (val_ok ex_val /\ ids_ok ex_val) /\ (class_ok ex_group = true /\ expr_wf ex_group).
Proof. split; [exact ex_val_ok|exact ex_group_ok]. Qed.

(* a group in the middle of a chain, on the left of a THEN:
   (cdata:0 then (cdata:1 -cdata:0 id:0) then (cdata:1 or -cdata:1)) then -(cdata:1 then cdata:0), OR-ed with ex_group *)
Definition ex_chain : expr :=
  EOr (EThen (EThen (EThen (EAtom (AData 0 [0%N]))
                           (EAnd (EAnd (EAtom (AData 0 [1%N])) (ENot (EAtom (AData 0 [0%N]))))
                                 (EAtom (ANum [0%N] 0 [ROne [NPNum false 0]]))))
                    (EOr (EAtom (AData 0 [1%N])) (ENot (EAtom (AData 0 [1%N])))))
             (ENot (EThen (EAtom (AData 0 [1%N])) (EAtom (AData 0 [0%N])))))
      ex_group.
Lemma ex_chain_ok : class3 ex_chain = true /\ expr_wf ex_chain.
Proof. split; [reflexivity|]. cbn. repeat split; discriminate. Qed.
Lemma hypotheses_satisfiable_class3 : (val_ok ex_val /\ ids_ok ex_val) /\ (class3 ex_chain = true /\ expr_wf ex_chain).
Proof. split; [exact ex_val_ok|exact ex_chain_ok]. Qed.

(* the judged fragment: an AND group with two payload filters on the left of a THEN, a group and a parenthesised THEN
   in the middle of the chain, a directive inside the sequence:
   (cdata:0 cdata:1) then ((cdata:1 or -(cdata:0 or tag:0)) then (<limit> cdata:0)) then (cdata:1 then cdata:0), OR-ed with ex_chain *)
Definition ex_judged : expr :=
  EOr (EThen (EThen (EAnd (EAtom (AData 0 [0%N])) (EAtom (AData 0 [1%N])))
                    (EThen (EOr (EAtom (AData 0 [1%N])) (ENot (EOr (EAtom (AData 0 [0%N])) (EAtom (ATag 0 [0%N])))))
                           (EAnd ESkip (EAtom (AData 0 [0%N])))))
             (EThen (EAtom (AData 0 [1%N])) (EAtom (AData 0 [0%N]))))
      ex_chain.
Lemma ex_judged_ok : wf_seq true ex_judged = true /\ expr_wf ex_judged.
Proof. split; [reflexivity|]. cbn. repeat split; discriminate. Qed.
Lemma hypotheses_satisfiable_judged : (val_ok ex_val /\ ids_ok ex_val) /\ (wf_seq true ex_judged = true /\ expr_wf ex_judged).
Proof. split; [exact ex_val_ok|exact ex_judged_ok]. Qed.

(* host filters between two host VARIABLES: both masks count. `chost:@shost@/40 -chost:@shost@/48` have the same IPv4 mask
   and different IPv6 masks; on an IPv6 stream whose addresses agree in the first 40 bits and differ in bit 40 both hold, so
   cleanHostConditions must neither report a contradiction nor drop one of them (seeded change C03-r5a-n1 compared Mask4 only). *)
Definition ex_m4 : list N := [255; 255; 255; 255]%N.
Definition ex_m6 (n : nat) : list N := repeat 255%N n ++ repeat 0%N (16 - n).
Definition ex_hv (n : nat) (inv : bool) : hostc := mkHost [mkSrc 0 false; mkSrc 0 true] [] ex_m4 (ex_m6 n) inv.
Definition ex_v6 : valuation :=
  mkVal (fun _ => mkStream (fun _ => 0) 0 0 0%N
                    [32; 1; 13; 184; 170; 0; 0; 0; 0; 0; 0; 0; 0; 0; 0; 1]%N
                    [32; 1; 13; 184; 170; 128; 0; 0; 0; 0; 0; 0; 0; 0; 0; 1]%N (fun _ => 1%N)) (fun _ _ => None) 0%N.
Lemma host_variable_masks_witness :
  val_ok ex_v6 /\ host_wf (ex_hv 5 false) /\ host_wf (ex_hv 6 true) /\
  h_m4 (ex_hv 5 false) = h_m4 (ex_hv 6 true) /\ h_m6 (ex_hv 5 false) <> h_m6 (ex_hv 6 true) /\
  eval_host ex_v6 (ex_hv 5 false) = true /\ eval_host ex_v6 (ex_hv 6 true) = true /\
  clean_host [ex_hv 5 false; ex_hv 6 true] = Some [ex_hv 5 false; ex_hv 6 true] /\
  clean_host [ex_hv 5 true; ex_hv 6 true] = Some [ex_hv 5 true; ex_hv 6 true].
Proof.
  split.
  - intros sub. unfold stream_ok. cbn. split; [intros; lia|]. split; [lia|]. split; [reflexivity|].
    intros n. unfold tag_state. left. reflexivity.
  - split; [cbn; repeat split; auto|]. split; [cbn; repeat split; auto|].
    split; [reflexivity|]. split; [discriminate|]. repeat split; vm_compute; reflexivity.
Qed.
