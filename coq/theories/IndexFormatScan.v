(* C01, theorem 3, the packet-scan half of Stream.Data(): with the skip counters written by AddStream the
   first loop of Data() collects, per direction, time groups of positive sizes that add up to the data sizes
   of the stream's records of that direction (whatever the time-wrap bookkeeping does). *)
From Coq Require Import Lia ZifyBool ZifyN ZifyNat Arith.
From Pk Require Import IndexFormat IndexFormatCodec IndexFormatHosts IndexFormatWriter IndexFormatData IndexFormatPackets.
Open Scope N_scope.

Definition rec_dir (p : packet_rec) : bool := negb ((pk_flags p / 2) mod 2 =? 0).
Definition has_next (p : packet_rec) : bool := negb (pk_flags p mod 2 =? 0).

(* data bytes per direction of the records up to and including the first one without has-next *)
Fixpoint dsum (d : bool) (ps : list packet_rec) : N :=
  match ps with
  | [] => 0
  | p :: rest => (if Bool.eqb (rec_dir p) d then pk_size p else 0) + (if has_next p then dsum d rest else 0)
  end.

(* skip counters are sound: the records jumped over carry no data and are not the last one *)
Definition skippable (p : packet_rec) : Prop := pk_size p = 0 /\ has_next p = true.
Fixpoint sound (ps : list packet_rec) : Prop :=
  match ps with
  | [] => False
  | p :: rest => if has_next p
                 then (N.to_nat (pk_skip p) <= length rest)%nat /\ Forall skippable (firstn (N.to_nat (pk_skip p)) rest) /\ sound rest
                 else True
  end.

Lemma sound_skip : forall k ps, Forall skippable (firstn k ps) -> (k <= length ps)%nat -> sound ps -> sound (skipn k ps).
Proof.
  induction k as [|k IH]; intros ps Hf Hl Hs; [exact Hs|].
  destruct ps as [|p rest]; [cbn in Hl; lia|]. cbn [firstn skipn length] in *. inversion Hf as [|? ? [_ Hn] Hr]; subst.
  cbn [sound] in Hs. rewrite Hn in Hs. apply IH; [assumption|lia|apply Hs].
Qed.
Lemma dsum_skip d : forall k ps, Forall skippable (firstn k ps) -> (k <= length ps)%nat -> dsum d (skipn k ps) = dsum d ps.
Proof.
  induction k as [|k IH]; intros ps Hf Hl; [reflexivity|].
  destruct ps as [|p rest]; [cbn in Hl; lia|]. cbn [firstn skipn length dsum] in *. inversion Hf as [|? ? [Hz Hn] Hr]; subst.
  rewrite Hz, Hn. destruct (Bool.eqb (rec_dir p) d); rewrite IH by (assumption || lia); lia.
Qed.

Lemma total_rev l : total (rev l) = total l.
Proof.
  induction l as [|[t z] r IH]; [reflexivity|]. cbn [rev total].
  assert (H : forall a b, total (a ++ b) = total a + total b) by (induction a as [|[? ?] ? IHa]; intros; cbn [app total]; rewrite ?IHa; lia).
  rewrite H, IH. cbn [total]. lia.
Qed.
Lemma pos_sizes_rev l : pos_sizes l -> pos_sizes (rev l).
Proof. unfold pos_sizes. apply Forall_rev. Qed.

(* the first loop of Data() *)
Lemma data_scan_totals : forall fuel ps expect reft lastrel prev ptc pts,
    sound ps -> (length ps < fuel)%nat -> pos_sizes ptc -> pos_sizes pts ->
    exists ptc' pts', data_scan fuel ps expect reft lastrel prev ptc pts = Some (ptc', pts') /\
                      total ptc' = total ptc + dsum false ps /\ total pts' = total pts + dsum true ps /\
                      pos_sizes ptc' /\ pos_sizes pts'.
Proof.
  induction fuel as [|fu IH]; intros ps expect reft lastrel prev ptc pts Hs Hf Hpc Hps; [lia|].
  destruct ps as [|p rest]; [destruct Hs|]. cbn [data_scan]. cbv zeta.
  set (wrapped := negb (expect =? 0) && (pk_rel p <? lastrel)).
  set (reft' := if wrapped then reft + WRAP_NS else reft).
  set (expect' := if wrapped then expect - 1 else expect).
  set (lastrel' := if expect =? 0 then lastrel else pk_rel p).
  fold (rec_dir p). set (dir := rec_dir p). set (ts := reft' + pk_rel p * 1000).
  set (merge := merge_into prev dir ts (pk_size p)).
  assert (Hmerge : forall l, pos_sizes l -> pk_size p <> 0 -> pos_sizes (merge l) /\ total (merge l) = total l + pk_size p).
  { intros l Hl Hz. unfold merge, merge_into. destruct l as [|[t z] r].
    - split; [constructor; [cbn [snd]; lia|constructor]|cbn [total]; lia].
    - inversion Hl as [|? ? Hz0 Hr]; subst. cbn [snd] in Hz0.
      destruct prev as [[pd pt]|]; [destruct (Bool.eqb pd dir && (ts - pt <? SPLIT_NS))|].
      + split; [constructor; [cbn [snd]; lia|assumption]|cbn [total]; lia].
      + split; [constructor; [cbn [snd]; lia|assumption]|cbn [total]; lia].
      + split; [constructor; [cbn [snd]; lia|assumption]|cbn [total]; lia]. }
  (* the state after this record *)
  assert (Hstate : exists ptc1 pts1 prev1,
             (if pk_size p =? 0 then (ptc, pts, prev)
              else if dir then (ptc, merge pts, Some (dir, ts)) else (merge ptc, pts, Some (dir, ts))) = (ptc1, pts1, prev1) /\
             pos_sizes ptc1 /\ pos_sizes pts1 /\
             total ptc1 = total ptc + (if Bool.eqb dir false then pk_size p else 0) /\
             total pts1 = total pts + (if Bool.eqb dir true then pk_size p else 0)).
  { destruct (N.eqb_spec (pk_size p) 0) as [Ez|Ez].
    - exists ptc, pts, prev. rewrite Ez. repeat split; auto; destruct (Bool.eqb dir _); lia.
    - destruct dir; cbn [Bool.eqb].
      + destruct (Hmerge pts Hps Ez) as [A B]. eexists _, _, _. split; [reflexivity|]. repeat split; auto; lia.
      + destruct (Hmerge ptc Hpc Ez) as [A B]. eexists _, _, _. split; [reflexivity|]. repeat split; auto; lia. }
  destruct Hstate as (ptc1 & pts1 & prev1 & Est & P1 & P2 & T1 & T2). rewrite Est.
  cbn [sound dsum] in *. fold dir. unfold has_next in *.
  destruct (pk_flags p mod 2 =? 0) eqn:Elast; cbn [negb] in *.
  - (* the last record *)
    eexists _, _. split; [reflexivity|]. rewrite !total_rev. repeat split; auto using pos_sizes_rev; lia.
  - destruct Hs as (Hk & Hskip & Hsr).
    set (rest' := if negb (pk_skip p =? 0) && (expect' =? 0) then skipN (pk_skip p) rest else rest).
    assert (Hr' : sound rest' /\ (length rest' <= length rest)%nat /\ dsum false rest' = dsum false rest /\ dsum true rest' = dsum true rest).
    { unfold rest'. destruct (negb (pk_skip p =? 0) && (expect' =? 0)); [|auto].
      rewrite skipN_skipn. split; [now apply sound_skip|]. split; [rewrite skipn_length; lia|].
      split; now apply dsum_skip. }
    destruct Hr' as (S' & L' & D0 & D1).
    destruct (IH rest' expect' reft' lastrel' prev1 ptc1 pts1 S' ltac:(cbn [length] in Hf; lia) P1 P2) as (pc' & ps' & He & A & B & C & D).
    exists pc', ps'. split; [exact He|]. rewrite A, B, D0, D1, T1, T2. repeat split; auto; lia.
Qed.

(* ------------------------------------------------------------------ *)
(* the skip counters written by AddStream are sound                    *)
(* ------------------------------------------------------------------ *)
Definition blockify (R : list packet_rec) (later : list packet_rec) : list packet_rec := clear_last_next (fst (set_skips R)) ++ later.
Definition with_skip (p : packet_rec) (k : N) : packet_rec :=
  {| pk_rel := pk_rel p; pk_imp := pk_imp p; pk_idx := pk_idx p; pk_size := pk_size p; pk_skip := k; pk_flags := pk_flags p |}.
Definition terminator (p : packet_rec) : packet_rec :=
  {| pk_rel := pk_rel p; pk_imp := pk_imp p; pk_idx := pk_idx p; pk_size := pk_size p; pk_skip := 255; pk_flags := pk_flags p - flagHasNext |}.

Lemma blockify_one p later : blockify [p] later = terminator p :: later.
Proof. reflexivity. Qed.
Lemma blockify_cons p q r later :
  blockify (p :: q :: r) later = with_skip p (N.min (snd (set_skips (q :: r))) 255) :: blockify (q :: r) later.
Proof. unfold blockify. rewrite set_skips_cons. rewrite (set_skips_cons q r). reflexivity. Qed.

(* the distance computed by set_skips: that many leading records carry no data and none of them is the last *)
Lemma set_skips_dist : forall R, R <> [] ->
  (N.to_nat (snd (set_skips R)) < length R)%nat /\ Forall (fun p => pk_size p = 0) (firstn (N.to_nat (snd (set_skips R))) R).
Proof.
  induction R as [|p rest IH]; intros Hne; [contradiction|]. cbn [set_skips].
  destruct (set_skips rest) as [rest' d] eqn:E. cbn [snd].
  destruct (N.eqb_spec (pk_size p) 0) as [Ez|Ez].
  - destruct rest as [|q r].
    + cbn. split; [lia|constructor].
    + destruct (IH ltac:(discriminate)) as [A B]. cbn [snd] in A, B.
      replace (N.to_nat (1 + d)) with (S (N.to_nat d)) by lia. cbn [length firstn]. split; [cbn [length] in A; lia|].
      constructor; assumption.
  - cbn. split; [lia|constructor].
Qed.

Lemma flags_has_next p : flags_ok p -> has_next p = true.
Proof. unfold has_next. now intros [-> | ->]. Qed.
Lemma flags_term p : flags_ok p -> has_next (terminator p) = false /\ rec_dir (terminator p) = rec_dir p.
Proof. unfold has_next, rec_dir, terminator. cbn [pk_flags]. now intros [-> | ->]. Qed.

Lemma blockify_prefix later : forall R k, (k < length R)%nat -> Forall (fun p => pk_size p = 0) (firstn k R) -> Forall flags_ok R ->
  Forall skippable (firstn k (blockify R later)) /\ (k <= length (blockify R later))%nat.
Proof.
  induction R as [|p rest IH]; intros k Hk Hz Hf; [cbn in Hk; lia|].
  destruct k as [|k]; [split; [constructor|lia]|].
  destruct rest as [|q r]; [cbn [length] in Hk; lia|].
  rewrite blockify_cons. cbn [firstn length] in *. inversion Hz; subst. inversion Hf; subst.
  destruct (IH k ltac:(lia) ltac:(assumption) ltac:(assumption)) as [A B]. split; [|lia].
  constructor; [|assumption]. split; [assumption|]. unfold has_next, with_skip. cbn [pk_flags]. now apply flags_has_next.
Qed.

Lemma Forall_firstn_le {A} (P : A -> Prop) (l : list A) k k' : (k <= k')%nat -> Forall P (firstn k' l) -> Forall P (firstn k l).
Proof.
  revert l k'. induction k as [|k IH]; intros l k' Hle H; [constructor|].
  destruct k' as [|k']; [lia|]. destruct l as [|x r]; [constructor|]. cbn [firstn] in *. inversion H; subst.
  constructor; [assumption|]. apply (IH r k'); [lia|assumption].
Qed.

Fixpoint rsum (d : bool) (R : list packet_rec) : N :=
  match R with [] => 0 | p :: rest => (if Bool.eqb (rec_dir p) d then pk_size p else 0) + rsum d rest end.

Lemma blockify_sound later : forall R, R <> [] -> Forall flags_ok R ->
  sound (blockify R later) /\ forall d, dsum d (blockify R later) = rsum d R.
Proof.
  induction R as [|p rest IH]; intros Hne Hf; [contradiction|]. inversion Hf as [|? ? Hp Hr]; subst.
  destruct rest as [|q r].
  - rewrite blockify_one. destruct (flags_term p Hp) as [T1 T2]. cbn [sound dsum rsum]. rewrite T1, T2. cbn [pk_size terminator].
    split; [exact I|]. intros d. lia.
  - rewrite blockify_cons. destruct (IH ltac:(discriminate) Hr) as [S1 D1].
    destruct (set_skips_dist (q :: r) ltac:(discriminate)) as [A B].
    set (k := N.min (snd (set_skips (q :: r))) 255) in *.
    assert (Hk : (N.to_nat k <= N.to_nat (snd (set_skips (q :: r))))%nat) by (unfold k; lia).
    destruct (blockify_prefix later (q :: r) (N.to_nat k) ltac:(lia) (Forall_firstn_le _ _ _ _ Hk B) Hr) as [P1 P2].
    cbn [sound dsum rsum]. unfold has_next at 1, with_skip at 1. cbn [pk_flags]. fold (has_next p). rewrite (flags_has_next p Hp).
    cbn [pk_skip with_skip]. split; [auto|]. intros d. unfold has_next, rec_dir. cbn [pk_flags pk_size with_skip].
    fold (has_next p) (rec_dir p). rewrite (flags_has_next p Hp), D1. reflexivity.
Qed.

(* ------------------------------------------------------------------ *)
(* data sizes of the records = payload per direction                    *)
(* ------------------------------------------------------------------ *)
Lemma rsum_app d a b : rsum d (a ++ b) = rsum d a + rsum d b.
Proof. induction a as [|p r IH]; cbn [app rsum]; [lia|]. rewrite IH. lia. Qed.

Fixpoint sumN (l : list N) : N := match l with [] => 0 | x :: r => x + sumN r end.
Lemma sum_split : forall fuel ds, sumN (split_sizes fuel ds) = ds.
Proof.
  induction fuel as [|f IH]; intros ds; cbn [split_sizes sumN]; [lia|].
  destruct (N.leb_spec ds 65535); cbn [sumN]; [lia|]. rewrite IH. lia.
Qed.
Lemma rsum_group d rel imp idx dir sizes :
  rsum d (map (fun z => {| pk_rel := rel; pk_imp := imp; pk_idx := idx; pk_size := z; pk_skip := 255; pk_flags := flagHasNext + dir_flag dir |}) sizes)
  = if Bool.eqb dir d then sumN sizes else 0.
Proof.
  induction sizes as [|z zs IH]; cbn [map rsum sumN]; [now destruct (Bool.eqb dir d)|].
  rewrite IH. unfold rec_dir. cbn [pk_flags pk_size]. rewrite dir_flag_dir. destruct (Bool.eqb dir d); lia.
Qed.
Lemma rsum_packet d imps rel dir ds : forall srcs first,
  rsum d (packet_records imps rel (dir_flag dir) ds first srcs) =
  if Bool.eqb dir d then (match srcs with [] => 0 | _ => if first then ds else 0 end) else 0.
Proof.
  induction srcs as [|s r IH]; intros first; cbn [packet_records rsum]; [now destruct (Bool.eqb dir d)|].
  rewrite rsum_app, rsum_group, sum_split, IH. destruct (Bool.eqb dir d); [|lia]. destruct r, first; lia.
Qed.

(* the part of wf_input that Data() needs: one data item per packet, in packet order, naming existing packets *)
Fixpoint data_sorted (lo : N) (data : list (N * bytes)) : Prop :=
  match data with [] => True | (i, b) :: r => lo <= i /\ data_sorted (i + 1) r end.
Definition wf_data (s : istream) : Prop :=
  data_sorted 0 (s_data s) /\ Forall (fun ib => fst ib < lenN (s_packets s)) (s_data s) /\
  Forall (fun p => p_srcs p <> []) (s_packets s).

Lemma data_size_of_skip pi : forall data lo acc, data_sorted lo data -> pi < lo -> data_size_of pi data acc = acc.
Proof.
  induction data as [|[i b] r IH]; intros lo acc Hs Hlt; [reflexivity|]. destruct Hs as [H1 H2]. cbn [data_size_of].
  destruct (N.eqb_spec i pi); [lia|]. apply (IH (i + 1)); [assumption|lia].
Qed.
Lemma data_sorted_weaken : forall data lo lo', lo' <= lo -> data_sorted lo data -> data_sorted lo' data.
Proof. destruct data as [|[i b] r]; intros lo lo' H Hs; [exact I|]. destruct Hs. split; [lia|assumption]. Qed.

Lemma rsum_stream d imps t0 whole DATA : forall ps pi data,
    (forall idx, pi <= idx -> data_size_of idx DATA None = data_size_of idx data None) ->
    data_sorted pi data -> Forall (fun ib => fst ib < pi + lenN ps) data ->
    (forall j p, nth_error ps j = Some p -> dir_of_packet whole (pi + N.of_nat j) = p_dir p) ->
    Forall (fun p => p_srcs p <> []) ps ->
    rsum d (stream_records imps t0 DATA pi ps) = lenN (payload_of whole d data).
Proof.
  induction ps as [|p r IH]; intros pi data Hd Hs Hb Hdir Hsrc.
  - cbn [stream_records rsum]. destruct data as [|[i b] rest]; [reflexivity|]. inversion Hb; subst. cbn [fst] in *.
    destruct Hs. rewrite lenN_nil in *. lia.
  - inversion Hsrc as [|? ? Hp Hr]; subst. cbn [stream_records]. rewrite rsum_app, rsum_packet.
    assert (Hdp : dir_of_packet whole pi = p_dir p) by (rewrite <- (Hdir 0%nat p eq_refl); f_equal; lia).
    assert (Hdir' : forall j q, nth_error r j = Some q -> dir_of_packet whole (N.succ pi + N.of_nat j) = p_dir q).
    { intros j q Hj. rewrite <- (Hdir (S j) q Hj). f_equal. lia. }
    rewrite (Hd pi) by lia.
    destruct (p_srcs p) as [|s0 sr] eqn:Es; [contradiction|].
    destruct data as [|[i b] rest].
    + cbn [data_size_of payload_of]. rewrite (IH (N.succ pi) []); auto.
      * destruct (Bool.eqb (p_dir p) d); reflexivity.
      * intros idx Hi. rewrite Hd by lia. reflexivity.
    + destruct Hs as [H1 H2]. inversion Hb as [|? ? Hb1 Hb2]; subst. cbn [fst] in Hb1. rewrite lenN_cons in *.
      destruct (N.eq_dec i pi) as [->|Hne].
      * (* this packet carries the item *)
        cbn [data_size_of payload_of]. rewrite N.eqb_refl. rewrite (data_size_of_skip pi rest (pi + 1)) by (assumption || lia).
        rewrite Hdp. rewrite (IH (N.succ pi) rest).
        -- destruct (Bool.eqb (p_dir p) d); rewrite ?lenN_app; lia.
        -- intros idx Hi. rewrite Hd by lia. cbn [data_size_of]. destruct (N.eqb_spec pi idx); [lia|reflexivity].
        -- replace (N.succ pi) with (pi + 1) by lia. assumption.
        -- eapply Forall_impl; [|exact Hb2]. intros [i2 b2] Hx. cbn [fst] in *. lia.
        -- assumption.
        -- assumption.
      * (* no item for this packet *)
        rewrite (data_size_of_skip pi ((i, b) :: rest) i) by (cbn [data_sorted]; (split; [lia|assumption]) || lia).
        rewrite (IH (N.succ pi) ((i, b) :: rest)).
        -- destruct (Bool.eqb (p_dir p) d); lia.
        -- intros idx Hi. apply Hd. lia.
        -- cbn [data_sorted]. split; [lia|assumption].
        -- constructor; [cbn [fst]; lia|]. eapply Forall_impl; [|exact Hb2]. intros [i2 b2] Hx. cbn [fst] in *. lia.
        -- assumption.
        -- assumption.
Qed.

Lemma rsum_stream_block d imps s :
  wf_data s -> rsum d (stream_records imps (first_ts s) (s_data s) 0 (s_packets s)) = lenN (stream_payload s d).
Proof.
  intros (H1 & H2 & H3). unfold stream_payload.
  apply (rsum_stream d imps (first_ts s) (s_packets s) (s_data s) (s_packets s) 0 (s_data s)); auto.
  intros j p Hj. unfold dir_of_packet. now rewrite nthN_nth_error, N.add_0_l, Nat2N.id, Hj.
Qed.

(* ------------------------------------------------------------------ *)
(* Theorem 3                                                           *)
(* ------------------------------------------------------------------ *)
Theorem data_stored gcap L w r :
  16 < gcap <= 4 * P16 ->
  Forall (fun ids => wf_meta (snd ids)) L ->
  add_streams gcap new_writer L = Some w ->
  new_reader (finalize w) = Some r ->
  lenN (w_packets w) < P32 ->
  forall k id s rec, nth_error L k = Some (id, s) -> s_packets s <> [] -> wf_data s ->
    lenN (stream_payload s false) + lenN (stream_payload s true) < P64 ->
    nth_error (all_streams r) k = Some rec ->
    exists cks, data r rec = Some cks /\
                payload_dir false cks = stream_payload s false /\ payload_dir true cks = stream_payload s true /\
                compress (map c_dir cks) = compress (nz_dirs (data_runs (s_packets s) (s_data s))).
Proof.
  intros Hcap Hwf Hadd Hr Hcnt k id s rec Hk Hne Hwd HB Hrec.
  pose proof (add_streams_winv gcap ltac:(lia) L new_writer [] w (winv_new gcap) Hwf Hadd) as (HF & _). cbn [app] in HF.
  destruct (Forall2_nth_r _ _ _ HF _ _ Hk) as (rec0 & Hrec0 & St). cbn [fst snd] in St.
  unfold all_streams in Hrec. rewrite (rw_streams w r Hr) in Hrec. assert (rec = rec0) by congruence. subst rec0.
  destruct (sd_packets _ _ _ _ _ St) as (pre & post & Hp & Hs).
  destruct (sd_data _ _ _ _ _ St) as (dpre & dpost & Hd & Hds).
  assert (Hpre : lenN pre < P32) by (rewrite Hp, lenN_app in Hcnt; lia).
  unfold data. rewrite (rw_packets w r Hr), (rw_data w r Hr).
  rewrite Hs. unfold u32. rewrite N.mod_small by assumption. rewrite Hp, skipN_app.
  (* the packet scan *)
  set (R := stream_records (w_imports w) (first_ts s) (s_data s) 0 (s_packets s)).
  assert (HR : R <> []).
  { unfold R. destruct (s_packets s) as [|p0 ps] eqn:Ep; [contradiction|]. apply stream_records_nonempty.
    destruct Hwd as (_ & _ & Hsrc). rewrite Ep in Hsrc. now inversion Hsrc. }
  change (stream_block (w_imports w) s ++ post) with (blockify R post).
  destruct (blockify_sound post R HR (stream_records_flags _ _ _ _ _)) as [Hsound Hdsum].
  assert (Hfuel : (length (blockify R post) < S (length (blockify R post)))%nat) by lia.
  destruct (data_scan_totals (S (length (blockify R post))) (blockify R post) (expect_wraps rec) (first_packet_time r rec) 0 None [] []
                             Hsound Hfuel (Forall_nil _) (Forall_nil _)) as (ptc & pts & Hscan & Tc & Ts & Pc & Ps).
  rewrite Hscan. rewrite !Hdsum in *. unfold R in Tc, Ts. rewrite !rsum_stream_block in * by assumption. cbn [total] in Tc, Ts.
  (* the payload and the segmentation *)
  rewrite Hds, Hd, skipN_app. unfold stream_bytes. rewrite (sd_cbytes _ _ _ _ _ St), (sd_sbytes _ _ _ _ _ St).
  rewrite <- !app_assoc. rewrite takeN_app, skipN_app, takeN_app, skipN_app.
  rewrite !N.eqb_refl. cbn [negb orb].
  apply data_replay_stream; auto; lia.
Qed.

(* the first loop of Data() reads nothing beyond the stream's own (sound) block *)
Lemma skipN_app_le {A} (a b : list A) k : (N.to_nat k <= length a)%nat -> skipN k (a ++ b) = skipN k a ++ b.
Proof. intros H. rewrite !skipN_skipn, skipn_app. replace (N.to_nat k - length a)%nat with 0%nat by lia. reflexivity. Qed.
Lemma skipN_map {A B} (f : A -> B) (l : list A) k : skipN k (map f l) = map f (skipN k l).
Proof. rewrite !skipN_skipn. apply skipn_map. Qed.

Lemma data_scan_local : forall f1 f2 B l expect reft lastrel prev ptc pts,
    sound B -> (length B < f1)%nat -> (length B < f2)%nat ->
    data_scan f1 (B ++ l) expect reft lastrel prev ptc pts = data_scan f2 B expect reft lastrel prev ptc pts.
Proof.
  induction f1 as [|f1 IH]; intros f2 B l expect reft lastrel prev ptc pts Hs H1 H2; [lia|].
  destruct f2 as [|f2]; [lia|]. destruct B as [|p rest]; [destruct Hs|]. cbn [app data_scan]. cbv zeta.
  destruct (if pk_size p =? 0 then (ptc, pts, prev) else _) as [[ptc1 pts1] prev1].
  cbn [sound] in Hs. unfold has_next in Hs. destruct (pk_flags p mod 2 =? 0); [reflexivity|]. cbn [negb] in Hs.
  destruct Hs as (Hk & Hskip & Hsr). cbn [length] in *.
  destruct (negb (pk_skip p =? 0) && ((if negb (expect =? 0) && (pk_rel p <? lastrel) then expect - 1 else expect) =? 0)).
  - rewrite skipN_app_le by assumption. apply IH.
    + rewrite skipN_skipn. now apply sound_skip.
    + rewrite skipN_skipn, skipn_length. lia.
    + rewrite skipN_skipn, skipn_length. lia.
  - apply IH; [assumption|lia|lia].
Qed.

