(* The assembler hypothesis of snapshot transparency (ImportSnapshot.replay_ok), discharged for the UDP assembler.

   Two runs of the slot machine of UdpInterleave are compared along one feed F: the FULL run steps on every packet, the
   KEPT run only on the packets selected by [keep].  If [keep] is consistent with stream membership (whenever the full run
   appends a packet to an open stream, the packet and the stream have the same keep status -- true for a real snapshot,
   which references whole open streams and keeps everything not older than itself), then the kept run's slots are the
   full run's slots with the all-unkept ("dead") ones removed, up to the Complete flag and up to connections that one run
   has already flushed and the other will flush before using them.  Streams touched by the new captures are never dead. *)
From Pk Require Import Udp UdpProofs UdpInterleave Import.
From Coq Require Import Lia PeanoNat Arith.
From Coq Require Import ZifyBool ZifyN ZifyNat.

Section Replay.
  Variable keepr : pref -> bool.               (* keep status of a packet source *)
  Variable nf : list N.                        (* the new capture files *)
  Definition keepp (p : packet) : bool := keepr (pref_of p).
  Definition touched (s : stream) : bool := existsb (fun x => mem_file (fst (fst (fst x))) nf) (stream_packets s).

  Definition uniform (s : stream) (v : bool) : Prop := Forall (fun x => keepr (fst x) = v) (stream_packets s).

  Definition expd (now : N) (o : option N) : Prop := match o with None => True | Some l => l + timeout < now end.
  Definition steq (now : N) (o1 o2 : option N) : Prop := o1 = o2 \/ (expd now o1 /\ expd now o2).

  Inductive rel (now : N) : list slot -> list slot -> Prop :=
  | rel_nil : rel now [] []
  | rel_dead : forall x lf lk, uniform (fst x) false -> touched (fst x) = false -> s_pkts (fst x) <> [] ->
               rel now lf lk -> rel now (x :: lf) lk
  | rel_alive : forall x y lf lk, uniform (fst x) true -> s_pkts (fst x) <> [] -> forget (fst x) = forget (fst y) ->
               steq now (snd x) (snd y) -> rel now lf lk -> rel now (x :: lf) (y :: lk).

  (* ---- packets of a stream under the operations of the slot machine ---- *)
  Lemma packets_add_udp s r d b : stream_packets (add_udp_packet s r d b) = stream_packets s ++ [(r, d)].
  Proof.
    unfold add_udp_packet, add_data, stream_packets. destruct b as [|x b]; [reflexivity|].
    cbn [s_pkts s_npk add_packet]. destruct (find_back ((r, d) :: s_pkts s) (s_npk s + 1) r); reflexivity.
  Qed.

  Lemma pkts_add_udp_nonempty s r d b : s_pkts (add_udp_packet s r d b) <> [].
  Proof.
    unfold add_udp_packet, add_data. destruct b as [|x b]; [simpl; discriminate|].
    cbn [s_pkts s_npk add_packet]. destruct (find_back ((r, d) :: s_pkts s) (s_npk s + 1) r); simpl; discriminate.
  Qed.

  Lemma uniform_add s r d b v : uniform s v -> keepr r = v -> uniform (add_udp_packet s r d b) v.
  Proof. unfold uniform. intros H E. rewrite packets_add_udp. apply Forall_app. split; auto. Qed.

  Lemma uniform_new p : uniform (fst (new_slot p)) (keepp p).
  Proof. unfold uniform, new_slot. simpl. rewrite packets_add_udp. simpl. constructor; auto. Qed.

  Lemma touched_add s r d b : touched (add_udp_packet s r d b) = touched s || mem_file (fst (fst r)) nf.
  Proof. unfold touched. rewrite packets_add_udp, existsb_app. simpl. rewrite Bool.orb_false_r. reflexivity. Qed.

  Lemma stream_packets_forget s s' : forget s = forget s' -> stream_packets s = stream_packets s'.
  Proof. intros H. unfold stream_packets. apply (f_equal s_pkts) in H. simpl in H. rewrite H. reflexivity. Qed.

  Lemma forget_client s s' : forget s = forget s' -> s_client s = s_client s' /\ s_server s = s_server s'.
  Proof. intros H. split; [apply (f_equal s_client) in H|apply (f_equal s_server) in H]; exact H. Qed.

  Lemma uniform_conflict s : s_pkts s <> [] -> uniform s true -> uniform s false -> False.
  Proof.
    unfold uniform, stream_packets. intros Hne H1 H2. destruct (s_pkts s) as [|x l]; [congruence|].
    simpl in *. apply Forall_app in H1 as [_ H1]. apply Forall_app in H2 as [_ H2].
    inversion H1; inversion H2; subst. congruence.
  Qed.

  (* ---- flushes ---- *)
  Lemma sflush1_fst_forget t x : forget (fst (sflush1 t x)) = forget (fst x).
  Proof. unfold sflush1. destruct (snd x); auto. destruct (expired t n); auto. Qed.

  Lemma sflush1_packets t x : stream_packets (fst (sflush1 t x)) = stream_packets (fst x).
  Proof. apply stream_packets_forget, sflush1_fst_forget. Qed.

  Lemma sflush1_pkts t x : s_pkts (fst (sflush1 t x)) = s_pkts (fst x).
  Proof. unfold sflush1. destruct (snd x); auto. destruct (expired t n); auto. Qed.

  Lemma expired_iff t l : expired t l = true <-> l + timeout < t.
  Proof. unfold expired. apply N.ltb_lt. Qed.

  Lemma steq_flush_both now t o1 o2 : steq now o1 o2 -> now <= t ->
    snd (sflush1 t (new_stream false (0,0) (0,0), o1)) = snd (sflush1 t (new_stream false (0,0) (0,0), o2)).
  Proof.
    intros [->|[E1 E2]] Hle; auto. unfold sflush1. simpl.
    destruct o1 as [l1|], o2 as [l2|]; simpl in *; auto.
    - assert (expired t l1 = true) by (apply expired_iff; lia). assert (expired t l2 = true) by (apply expired_iff; lia).
      rewrite H, H0. reflexivity.
    - assert (expired t l1 = true) by (apply expired_iff; lia). rewrite H. reflexivity.
    - assert (expired t l2 = true) by (apply expired_iff; lia). rewrite H. reflexivity.
  Qed.

  Lemma sflush1_snd t s o : snd (sflush1 t (s, o)) = match o with Some l => if expired t l then None else Some l | None => None end.
  Proof. unfold sflush1. simpl. destruct o; auto. destruct (expired t n); auto. Qed.

  (* strict relation: corresponding alive slots have EQUAL status *)
  Definition relS (lf lk : list slot) : Prop := rel 0 lf lk /\ True.

  Lemma rel_flush_both now t lf lk : rel now lf lk -> now <= t ->
    rel t (sflush t lf) (sflush t lk) /\
    (forall now', rel now' (sflush t lf) (sflush t lk)).
  Proof.
    intros H Hle.
    assert (G : forall now', rel now' (sflush t lf) (sflush t lk)).
    { induction H as [|x lf lk Hu Ht Hn H IH|x y lf lk Hu Hn Hf Hs H IH]; intros now'; simpl.
      - constructor.
      - apply rel_dead; auto.
        + unfold uniform. rewrite sflush1_packets. exact Hu.
        + unfold touched. rewrite sflush1_packets. exact Ht.
        + rewrite sflush1_pkts. exact Hn.
      - apply rel_alive; auto.
        + unfold uniform. rewrite sflush1_packets. exact Hu.
        + rewrite sflush1_pkts. exact Hn.
        + rewrite !sflush1_fst_forget. exact Hf.
        + left. destruct x as [sx ox], y as [sy oy]. rewrite !sflush1_snd. simpl in Hs.
          destruct Hs as [->|[E1 E2]]; auto.
          destruct ox as [l1|], oy as [l2|]; simpl in *; auto.
          * rewrite (proj2 (expired_iff t l1)), (proj2 (expired_iff t l2)) by lia. reflexivity.
          * rewrite (proj2 (expired_iff t l1)) by lia. reflexivity.
          * rewrite (proj2 (expired_iff t l2)) by lia. reflexivity. }
    split; auto.
  Qed.

  Lemma rel_flush_full now t lf lk : rel now lf lk -> now <= t -> rel t (sflush t lf) lk.
  Proof.
    intros H Hle. induction H as [|x lf lk Hu Ht Hn H IH|x y lf lk Hu Hn Hf Hs H IH]; simpl.
    - constructor.
    - apply rel_dead; auto.
      + unfold uniform. rewrite sflush1_packets. exact Hu.
      + unfold touched. rewrite sflush1_packets. exact Ht.
      + rewrite sflush1_pkts. exact Hn.
    - apply rel_alive; auto.
      + unfold uniform. rewrite sflush1_packets. exact Hu.
      + rewrite sflush1_pkts. exact Hn.
      + rewrite sflush1_fst_forget. exact Hf.
      + destruct x as [sx ox]. rewrite sflush1_snd. simpl in Hs. simpl snd in *.
        destruct Hs as [E|[E1 E2]].
        * subst ox. destruct (snd y) as [l|] eqn:Ey; [|left; reflexivity].
          destruct (expired t l) eqn:Ex; [|left; reflexivity].
          right. split; simpl; auto. apply expired_iff. exact Ex.
        * right. split.
          -- destruct ox as [l|]; simpl in *; auto. rewrite (proj2 (expired_iff t l)) by lia. exact I.
          -- destruct (snd y) as [l|]; simpl in *; auto. lia.
  Qed.

  Lemma steq0 o1 o2 : steq 0 o1 o2 -> o1 = o2.
  Proof.
    intros [E|[E1 E2]]; auto. destruct o1 as [l1|], o2 as [l2|]; simpl in *; auto; lia.
  Qed.

  Lemma smatch_forget s s' a b : forget s = forget s' -> smatch s a b = smatch s' a b.
  Proof. intros H. destruct (forget_client _ _ H) as [A B]. apply smatch_same_endpoints; auto. Qed.

  (* ---- one packet ---- *)
  Lemma rel_sasm_kept q : keepp q = true -> forall lf lk, rel 0 lf lk ->
    (forall x, In x lf -> is_open (snd x) = true -> smatch (fst x) (p_src q) (p_dst q) = true -> uniform (fst x) true) ->
    rel 0 (sasm lf q) (sasm lk q).
  Proof.
    intros Hq lf lk H. induction H as [|x lf lk Hu Ht Hn H IH|x y lf lk Hu Hn Hf Hs H IH]; intros HC; simpl.
    - apply rel_alive.
      + rewrite <- Hq. apply uniform_new.
      + apply pkts_add_udp_nonempty.
      + reflexivity.
      + left; reflexivity.
      + constructor.
    - destruct (is_open (snd x) && smatch (fst x) (p_src q) (p_dst q)) eqn:E.
      + exfalso. apply Bool.andb_true_iff in E as [E1 E2].
        apply (uniform_conflict (fst x)); auto. apply HC; auto. left; auto.
      + apply rel_dead; auto. apply IH. intros z Hz. apply HC. right; auto.
    - apply steq0 in Hs. rewrite <- Hs, <- (smatch_forget _ _ _ _ Hf).
      destruct (is_open (snd x) && smatch (fst x) (p_src q) (p_dst q)) eqn:E.
      + apply rel_alive; auto.
        * unfold upd_slot. simpl. apply uniform_add; auto.
        * unfold upd_slot. simpl. apply pkts_add_udp_nonempty.
        * unfold upd_slot. simpl. rewrite !forget_add. destruct (forget_client _ _ Hf) as [_ B]. rewrite Hf, B. reflexivity.
        * left. reflexivity.
      + apply rel_alive; auto. left; auto. apply IH. intros z Hz. apply HC. right; auto.
  Qed.

  Lemma rel_sasm_unkept q now : keepp q = false -> mem_file (p_file q) nf = false -> forall lf lk, rel now lf lk ->
    (forall x, In x lf -> is_open (snd x) = true -> smatch (fst x) (p_src q) (p_dst q) = true -> uniform (fst x) false) ->
    rel now (sasm lf q) lk.
  Proof.
    intros Hq Hnf lf lk H. induction H as [|x lf lk Hu Ht Hn H IH|x y lf lk Hu Hn Hf Hs H IH]; intros HC; simpl.
    - apply rel_dead.
      + rewrite <- Hq. apply uniform_new.
      + unfold new_slot. simpl. rewrite touched_add. simpl. exact Hnf.
      + apply pkts_add_udp_nonempty.
      + constructor.
    - destruct (is_open (snd x) && smatch (fst x) (p_src q) (p_dst q)) eqn:E.
      + apply rel_dead; auto.
        * unfold upd_slot. simpl. apply uniform_add; auto.
        * unfold upd_slot. simpl. rewrite touched_add, Ht. simpl. exact Hnf.
        * unfold upd_slot. simpl. apply pkts_add_udp_nonempty.
      + apply rel_dead; auto. apply IH. intros z Hz. apply HC. right; auto.
    - destruct (is_open (snd x) && smatch (fst x) (p_src q) (p_dst q)) eqn:E.
      + exfalso. apply Bool.andb_true_iff in E as [E1 E2].
        apply (uniform_conflict (fst x)); auto. apply HC; auto. left; auto.
      + apply rel_alive; auto. apply IH. intros z Hz. apply HC. right; auto.
  Qed.

  (* ---- the keep set is consistent with stream membership along the full run ---- *)
  Fixpoint consistent (sl : list slot) (F : list packet) : Prop :=
    match F with
    | [] => True
    | q :: r =>
        (forall x, In x (sflush (p_ts q) sl) -> is_open (snd x) = true -> smatch (fst x) (p_src q) (p_dst q) = true ->
                   uniform (fst x) (keepp q)) /\
        (mem_file (p_file q) nf = true -> keepp q = true) /\
        consistent (sstep sl q) r
    end.

  Lemma tsorted_weaken : forall l a b, a <= b -> tsorted b l -> tsorted a l.
  Proof. destruct l as [|p l]; simpl; intros a b H H0; auto. destruct H0 as [H1 H2]. split; [lia|auto]. Qed.

  Lemma two_runs : forall F lf lk now, rel now lf lk -> tsorted now F -> consistent lf F ->
    exists now', rel now' (fold_left sstep F lf) (fold_left sstep (filter keepp F) lk).
  Proof.
    induction F as [|q F IH]; intros lf lk now Hr Hs Hc; simpl.
    - exists now. exact Hr.
    - destruct Hs as [Hle Hs]. destruct Hc as (HC & Hnf & Hc).
      destruct (keepp q) eqn:Eq; simpl.
      + apply (IH _ _ 0); auto.
        * unfold sstep. apply rel_sasm_kept; auto. apply (rel_flush_both now); auto.
        * eapply tsorted_weaken; [|exact Hs]. lia.
      + apply (IH _ _ (p_ts q)); auto.
        unfold sstep. apply rel_sasm_unkept; auto.
        * destruct (mem_file (p_file q) nf) eqn:E; auto. specialize (Hnf eq_refl). congruence.
        * apply (rel_flush_full now); auto.
  Qed.

  Lemma rel_touched now lf lk : rel now lf lk ->
    map forget (filter touched (map fst lf)) = map forget (filter touched (map fst lk)).
  Proof.
    induction 1 as [|x lf lk Hu Ht Hn H IH|x y lf lk Hu Hn Hf Hs H IH]; simpl; auto.
    - rewrite Ht. exact IH.
    - assert (E : touched (fst x) = touched (fst y)) by (unfold touched; rewrite (stream_packets_forget _ _ Hf); reflexivity).
      rewrite <- E. destruct (touched (fst x)); simpl; [rewrite Hf, IH; reflexivity|exact IH].
  Qed.

  Theorem replay_slots : forall F, tsorted 0 F -> consistent [] F ->
    map forget (filter touched (map fst (fold_left sstep (filter keepp F) []))) =
    map forget (filter touched (map fst (fold_left sstep F []))).
  Proof.
    intros F Hs Hc. destruct (two_runs F [] [] 0 (rel_nil 0) Hs Hc) as (now' & Hr).
    symmetry. eapply rel_touched. exact Hr.
  Qed.
End Replay.

(* ------------------------------------------------------------------ the loop of FromPcap on UDP-only feeds *)
Lemma sflush1_idem t x : sflush1 t (sflush1 t x) = sflush1 t x.
Proof.
  unfold sflush1. destruct x as [s o]. simpl. destruct o as [l|]; simpl; auto.
  destruct (expired t l) eqn:E; simpl; auto. rewrite E. reflexivity.
Qed.

Lemma sflush_idem t sl : sflush t (sflush t sl) = sflush t sl.
Proof. unfold sflush. rewrite map_map. apply map_ext. intros x. apply sflush1_idem. Qed.

Lemma sstep_after_flush sl p : sstep (sflush (p_ts p) sl) p = sstep sl p.
Proof. unfold sstep. rewrite sflush_idem. reflexivity. Qed.

Section Loop.
  Variable hashf : N -> N.
  Variable thr : N.

  Definition LI (st : loopst) (sl : list slot) : Prop :=
    sim hashf (a_fac (l_asm st)) (a_udp (l_asm st)) sl /\ suniq sl /\ a_tcp (l_asm st) = [].

  Lemma LI_step bts st sl p : p_tcp p = false -> LI st sl -> LI (loop_step hashf thr bts st p) (sstep sl p).
  Proof.
    intros Hp (Hs & Hu & Ht). unfold loop_step.
    set (st1 := if (thr <=? l_nafter st) && negb (opt_is (l_prev st) (p_ts p)) then _ else st).
    assert (H1 : exists sl1, LI st1 sl1 /\ sstep sl1 p = sstep sl p).
    { unfold st1. destruct ((thr <=? l_nafter st) && negb (opt_is (l_prev st) (p_ts p))).
      - exists (sflush (p_ts p) sl). split; [|apply sstep_after_flush].
        unfold LI. cbn [l_asm]. unfold asm_flush. rewrite Ht.
        pose proof (sim_flush hashf _ _ _ (p_ts p) Hs) as Hf.
        destruct (udp_flush (a_fac (l_asm st)) (a_udp (l_asm st)) (p_ts p)) as [f1 u]. simpl in Hf. simpl.
        split; auto. split; auto. apply suniq_sflush. exact Hu.
      - exists sl. split; auto. split; auto. }
    destruct H1 as (sl1 & (Hs1 & Hu1 & Ht1) & E). rewrite <- E.
    set (st2 := if negb (l_nafter st1 =? 0) || not_after bts (p_ts p) then _ else st1).
    assert (H2 : l_asm st2 = l_asm st1) by (unfold st2; destruct (negb (l_nafter st1 =? 0) || not_after bts (p_ts p)); reflexivity).
    unfold LI. cbn [l_asm]. rewrite H2. unfold asm_step. rewrite Hp.
    pose proof (sim_step hashf _ _ _ p Hs1 Hu1) as Hst.
    destruct (udp_step hashf (a_fac (l_asm st1), a_udp (l_asm st1)) p) as [f u]. simpl in Hst. simpl.
    split; auto. split; auto. apply suniq_sstep. exact Hu1.
  Qed.

  Lemma LI_run bts : forall fed st sl, Forall (fun p => p_tcp p = false) fed -> LI st sl ->
    LI (fold_left (loop_step hashf thr bts) fed st) (fold_left sstep fed sl).
  Proof.
    induction fed as [|p fed IH]; intros st sl Hu H; simpl; auto.
    inversion Hu; subst. apply IH; auto. apply LI_step; auto.
  Qed.

  Lemma LI_init kept : LI (mkLoop asm0 0 None kept) [].
  Proof. split; [apply sim_empty|split; [apply suniq_empty|reflexivity]]. Qed.
End Loop.
